/-
The three operations that change which glyph a name denotes: `newGlyph`, `delGlyph`, `rename`.
-/
import DefconModel.Lemmas.ReprSwitch

namespace DefconModel
namespace Repr

variable {V : Type}

/-- skeleton: the caches of `w2` come from `w` under the same keys, everything delivered is `ds`,
and whatever survives sees the same view as before -/
theorem inv_skeleton (P : Params V) (T : Tables) (w w2 : World V) (ds : List (Obj × String)) (hinv : Inv P T w)
    (hrg : w2.regs = w.regs)
    (hent : ∀ o nm sk v, (cacheOf w2 o).get? nm sk = some v → (cacheOf w o).get? nm sk = some v)
    (hloose : LooseEmpty w2)
    (hview : ∀ o nm sk v, (cacheOf (applyDeliv T w2 ds) o).get? nm sk = some v →
      viewOf T w2 o nm = viewOf T w o nm) : Inv P T (applyDeliv T w2 ds) := by
  have hss := sameStruct_applyDeliv T w2 ds
  refine ⟨?_, ?_, ?_, ?_⟩
  · intro o nm sk v hs
    have h1 := (get?_applyDeliv T w2 ds o nm sk v hs).1
    unfold fresh
    rw [viewOf_congr T hss, hview o nm sk v hs]
    exact hinv.coh _ _ _ _ (hent _ _ _ _ h1)
  · intro o ha nm sk
    rw [attached_congr hss] at ha
    cases hc : (cacheOf (applyDeliv T w2 ds) o).get? nm sk with
    | none => rfl
    | some v =>
      have := (get?_applyDeliv T w2 ds o nm sk v hc).1
      rw [hloose o ha nm sk] at this; cases this
  · intro o nm sk v hs
    have h1 := (get?_applyDeliv T w2 ds o nm sk v hs).1
    rw [hss.regs, hrg]
    exact hinv.creg _ _ _ _ (hent _ _ _ _ h1)
  · intro r hr'
    rw [hss.regs, hrg] at hr'
    exact hinv.rdef r hr'

theorem set_absent {α : Type} (gs : List (String × α)) (k : String) (v : α) (h : AL.get? gs k = none) :
    AL.set gs k v = gs ++ [(k, v)] := by
  induction gs with
  | nil => rfl
  | cons p r ih =>
    obtain ⟨k', v'⟩ := p
    simp only [AL.get?_cons] at h
    by_cases e : k' = k
    · simp [e] at h
    · simp only [e, if_false] at h
      simp only [AL.set, e, if_false, List.cons_append, ih h]

def emptyGlyph (attr : Nat) : GlyphS := { attr := attr, contours := [], comps := [] }

theorem find?_add_empty (gs : Layer) (name : String) (attr : Nat) (pred : GlyphS → Bool)
    (h : AL.get? gs name = none) (hp : pred (emptyGlyph attr) = false) :
    (AL.set gs name (emptyGlyph attr)).find? (fun p => pred p.2) = gs.find? (fun p => pred p.2) := by
  rw [set_absent gs name _ h, List.find?_append]
  cases gs.find? (fun p => pred p.2) with
  | some p => rfl
  | none => simp [hp]

/-- a glyph that nobody could see appears under `name`: the views that do not read `name` are the same -/
theorem outline_add (n : Nat) (gs : Layer) (name : String) (g0 : GlyphS) (c : String)
    (hno : ∀ m, ¬ ReadsN (AL.set gs name g0) m c name) :
    outline n (AL.set gs name g0) c = outline n gs c := by
  symm
  apply outline_agree
  intro m b hr
  by_cases e : name = b
  · subst e; exact absurd hr (hno m)
  · rw [AL.get?_set_ne _ _ _ _ e]

theorem get?_none_of_not_contains {α : Type} {gs : List (String × α)} {k : String} (h : AL.contains gs k = false) :
    AL.get? gs k = none := (AL.contains_false_iff gs k).mp h

/-- `newGlyph` on an absent name, stated on explicit intermediate worlds -/
theorem inv_newGlyph_core (P : Params V) (T : Tables) (hcov : Coverage T = true) (w w1 w2 : World V) (name : String)
    (attr : Nat) (hinv : Inv P T w) (hdom : Dom w) (habs : AL.get? w.glyphs name = none)
    (hgs1 : w1.glyphs = AL.set w.glyphs name (emptyGlyph attr)) (hlc1 : w1.looseC = w.looseC)
    (hlk1 : w1.looseK = w.looseK) (hf1 : w1.fuel = w.fuel) (hgv1 : w1.groupsVer = w.groupsVer)
    (hgs2 : w2.glyphs = mapAllComps w1.glyphs (setWatch (waitsFor name) Watch.base)) (hlc2 : w2.looseC = w1.looseC)
    (hlk2 : w2.looseK = w1.looseK) (hf2 : w2.fuel = w1.fuel) (hgv2 : w2.groupsVer = w1.groupsVer)
    (hrg : w2.regs = w.regs) (hca : w2.caches = w.caches)
    (hdom2 : Dom w2) :
    Inv P T (applyDeliv T w2 (switchDs T w1 (waitsFor name) Watch.base "layerGlyphAddedNotificationCallback")) := by
  have hkd := keepsData_setWatch (waitsFor name) Watch.base
  have hvm := fun o nm => view_mapAll hkd T w1 w2 hgs2 hlc2 hlk2 hf2 hgv2 o nm
  -- attachment in w1 versus w
  have hatt1 : ∀ o, attached w1 o = false → attached w o = false := by
    intro o ha
    cases o with
    | groups => exact ha
    | contour cid =>
      simp only [attached, hostOfContour, hgs1] at ha ⊢
      rw [find?_add_empty w.glyphs name attr (hasContour cid) habs rfl] at ha; exact ha
    | comp kid =>
      simp only [attached, hostOfComp, hgs1] at ha ⊢
      rw [find?_add_empty w.glyphs name attr (hasComp kid) habs rfl] at ha; exact ha
    | glyph x =>
      simp only [attached, hgs1, AL.contains_set, Bool.or_eq_false_iff] at ha ⊢
      exact ha.2
  have hent : ∀ o nm sk v, (cacheOf w2 o).get? nm sk = some v → (cacheOf w o).get? nm sk = some v := by
    intro o nm sk v hv; rw [cacheOf_eq_of_caches hca] at hv; exact hv
  -- every component whose base is `name` was waiting on the layer and has run the callback
  have hsel : ∀ z gz kz, AL.get? w2.glyphs z = some gz → kz ∈ gz.comps → kz.base = some name →
      ∀ y, y ∈ compDeliv w2.fuel T w2.glyphs z kz.id (T.postsOf "Component" "layerGlyphAddedNotificationCallback") →
        y ∈ switchDs T w1 (waitsFor name) Watch.base "layerGlyphAddedNotificationCallback" := by
    intro z gz kz hgz hkz hbz y hy
    rw [hgs2, get?_mapAllComps] at hgz
    cases hg1 : AL.get? w1.glyphs z with
    | none => rw [hg1] at hgz; cases hgz
    | some g1 =>
      rw [hg1] at hgz
      simp only [Option.map_some, Option.some.injEq] at hgz
      subst hgz
      simp only [List.mem_map] at hkz
      obtain ⟨k1, hk1, e⟩ := hkz
      subst e
      rw [hkd.base] at hbz
      rw [hkd.id] at hy
      have hzne : name ≠ z := by
        intro e; subst e
        rw [hgs1, AL.get?_set_self] at hg1
        cases hg1; cases hk1
      have hg0 : AL.get? w.glyphs z = some g1 := by
        rw [hgs1, AL.get?_set_ne _ _ _ _ hzne] at hg1; exact hg1
      have hwait := hdom.wait z g1 k1 name hg0 hk1 hbz ((AL.contains_false_iff _ _).mpr habs)
      refine mem_switchDs hg1 hk1 (by simp [waitsFor, hwait, hbz]) ?_
      rw [hf2, hgs2] at hy; exact hy
  have hhits := fun {x' gx k c m} => switch_hits T hcov w2.glyphs w2.fuel name "layerGlyphAddedNotificationCallback" _
    (by simp [compCallbacks]) hdom2.bounded
    (fun x' g k x a1 a2 a3 _ a5 => hdom2.watch x' g k x a1 a2 a3 a5) hsel (x' := x') (gx := gx) (k := k) (c := c) (m := m)
  refine inv_skeleton P T w w2 _ hinv hrg hent ?_ ?_
  · intro o ha nm sk
    rw [(hvm o nm).2] at ha
    rw [cacheOf_eq_of_caches hca]
    exact hinv.loose o (hatt1 o ha) nm sk
  · intro o nm sk v hs
    have h1 := hent _ _ _ _ (get?_applyDeliv T w2 _ o nm sk v hs).1
    rw [(hvm o nm).1]
    -- attached in w, else nothing is cached
    have hatt : attached w o = true := by
      cases ha : attached w o with
      | true => rfl
      | false => rw [hinv.loose o ha nm sk] at h1; cases h1
    cases o with
    | groups => simp [viewOf, hgv1]
    | contour cid =>
      apply viewOf_contour_of_find
      unfold findContour hostOfContour
      rw [hgs1, find?_add_empty w.glyphs name attr (hasContour cid) habs rfl, hlc1]
    | glyph x =>
      have hxne : name ≠ x := by
        intro e; subst e
        simp only [attached] at hatt
        rw [(AL.contains_false_iff _ _).mpr habs] at hatt; cases hatt
      simp only [viewOf, hgs1, hf1, AL.get?_set_ne _ _ _ _ hxne]
      cases hgx : AL.get? w.glyphs x with
      | none => rfl
      | some gx =>
        simp only [Option.map_some, Option.getD_some]
        by_cases hex : ∃ k c m, k ∈ gx.comps ∧ k.base = some c ∧ ReadsN w1.glyphs m c name
        · exfalso
          obtain ⟨k, c, m, hk, hb, hrd⟩ := hex
          have hg2 : AL.get? w2.glyphs x = some { gx with comps := gx.comps.map (setWatch (waitsFor name) Watch.base) } := by
            rw [hgs2, get?_mapAllComps, hgs1, AL.get?_set_ne _ _ _ _ hxne, hgx]; rfl
          obtain ⟨d, y, hd, hy, hhit⟩ := (hhits hg2 (List.mem_map_of_mem hk) (by rw [hkd.base]; exact hb)
            (by rw [hgs2]; exact (readsN_mapAllComps hkd _).mpr hrd)).2 w.regs nm hinv.rdef (hinv.creg _ _ _ _ h1).1
          exact not_survivor hs (by rw [hrg]; exact hd) hy hhit
        · have key : glyphOutline w.fuel (AL.set w.glyphs name (emptyGlyph attr)) gx = glyphOutline w.fuel w.glyphs gx := by
            unfold glyphOutline bodyWith
            congr 3
            apply flatMap_congr'
            intro k hk
            unfold compHead
            cases hb : k.base with
            | none => rfl
            | some c =>
              simp only
              rw [outline_add]
              intro m hrd
              exact hex ⟨k, c, m, hk, hb, by rw [hgs1]; exact hrd⟩
          unfold glyphView
          rw [key]
    | comp kid =>
      obtain ⟨k0, hk0⟩ : ∃ k0, findComp w kid = some k0 := by
        simp only [attached] at hatt
        unfold findComp
        cases hh : hostOfComp w.glyphs kid with
        | none => rw [hh] at hatt; cases hatt
        | some p =>
          simp only
          have := List.find?_some hh
          exact compIn_of_has (by simpa [hostOfComp] using this)
      have hfind : findComp w1 kid = findComp w kid := by
        unfold findComp hostOfComp
        rw [hgs1, find?_add_empty w.glyphs name attr (hasComp kid) habs rfl, hlk1]
      simp only [viewOf, hfind, hk0, Option.map_some, Option.getD_some, hf1]
      unfold compView
      by_cases hbi : isBuiltin T "Component" nm = true
      · simp only [hbi, if_true]
        unfold compToks compHead
        cases hb : k0.base with
        | none => rfl
        | some c =>
          simp only
          by_cases hex : ∃ m, ReadsN w1.glyphs m c name
          · exfalso
            obtain ⟨m, hrd⟩ := hex
            obtain ⟨x', gx', hgx', hkm⟩ := findComp_attached w hdom.ids.keys kid k0 hatt hk0
            have hxne : name ≠ x' := by intro e; subst e; rw [habs] at hgx'; cases hgx'
            have hg2 : AL.get? w2.glyphs x' = some { gx' with comps := gx'.comps.map (setWatch (waitsFor name) Watch.base) } := by
              rw [hgs2, get?_mapAllComps, hgs1, AL.get?_set_ne _ _ _ _ hxne, hgx']; rfl
            obtain ⟨d, y, hd, hy, hhit⟩ := (hhits hg2 (List.mem_map_of_mem hkm) (by rw [hkd.base]; exact hb)
              (by rw [hgs2]; exact (readsN_mapAllComps hkd _).mpr hrd)).1 nm hbi
            rw [hkd.id, findComp_id hk0] at hy
            exact not_survivor hs (mem_facsOf_builtin hd) hy hhit
          · rw [hgs1, outline_add]
            intro m hrd
            exact hex ⟨m, by rw [hgs1]; exact hrd⟩
      · simp [hbi]

end Repr
end DefconModel
