/-
`_sortByWeightedSuffix`: the look-up `suffixToMagnet[suffix]` never raises `KeyError`.

The magnet loop writes `magnets[toMatch] = [toMatchOriginal] + matches` into a dict; a later round that
produced the same key would overwrite - and lose - the suffixes of the earlier one.  It cannot: once a
round has used `toMatch = t`, every remaining suffix that matches `t` is gone, and the key of a round is
either its own (still waiting) suffix or a `t` that still has matches.  So every suffix ends up in exactly
the entry its round created, and the model's fall-back in `magnetOf` is never used.
-/
import DefconModel.NameSort
import DefconModel.Lemmas.NameSort

namespace DefconModel
namespace NameSort
open List

/-- the `toMatch` of one round: the suffix without its trailing digits, unless nothing is left -/
def toMatchOf (o : String) : String := if (stripDigits o).isEmpty then o else stripDigits o

theorem dropWhile_idem {α : Type} (p : α → Bool) (l : List α) : (l.dropWhile p).dropWhile p = l.dropWhile p := by
  induction l with
  | nil => rfl
  | cons a r ih =>
    by_cases h : p a = true
    · simp [h, ih]
    · simp [h]

theorem stripDigits_idem (s : String) : stripDigits (stripDigits s) = stripDigits s := by
  unfold stripDigits
  simp only [String.toList_ofList, reverse_reverse, dropWhile_idem]

theorem toMatchOf_idem (o : String) : toMatchOf (toMatchOf o) = toMatchOf o := by
  unfold toMatchOf
  by_cases h : (stripDigits o).isEmpty = true
  · simp [h]
  · simp [h, stripDigits_idem]

theorem matchCond_self (t : String) : matchCond t t = true := by
  unfold matchCond
  have : (lower t).isPrefixOf (lower t) = true := isPrefixOf_iff_prefix.mpr (prefix_refl _)
  simp [this]

theorem mem_foldl_erase {l : List String} (hl : l.Nodup) (ms : List String) (r : String) :
    r ∈ ms.foldl List.erase l ↔ r ∈ l ∧ r ∉ ms := by
  induction ms generalizing l with
  | nil => simp
  | cons m ms ih =>
    simp only [foldl_cons]
    rw [ih (hl.erase m), hl.mem_erase_iff]
    simp only [mem_cons, not_or]
    constructor
    · rintro ⟨⟨h1, h2⟩, h3⟩; exact ⟨h2, h1, h3⟩
    · rintro ⟨h1, h2, h3⟩; exact ⟨⟨h2, h1⟩, h3⟩

theorem nodup_foldl_erase {l : List String} (hl : l.Nodup) (ms : List String) : (ms.foldl List.erase l).Nodup := by
  induction ms generalizing l with
  | nil => exact hl
  | cons m ms ih => exact ih (hl.erase m)

theorem length_foldl_erase_le (l ms : List String) : (ms.foldl List.erase l).length ≤ l.length := by
  induction ms generalizing l with
  | nil => exact Nat.le_refl _
  | cons m ms ih =>
    simp only [foldl_cons]
    exact Nat.le_trans (ih _) (by rw [length_erase]; split <;> omega)

theorem AL.set_of_get?_none {κ α : Type} [DecidableEq κ] (d : List (κ × α)) (k : κ) (v : α)
    (h : AL.get? d k = none) : AL.set d k v = d ++ [(k, v)] := by
  induction d with
  | nil => rfl
  | cons p r ih =>
    obtain ⟨k', v'⟩ := p
    by_cases h1 : k' = k
    · simp [h1] at h
    · simp [h1] at h; simp [AL.set, h1, ih h]

/-- what holds between two rounds of the `while allSuffixes` loop -/
def MagInv (all0 cur : List String) (magnets : List (String × List String)) : Prop :=
  cur.Nodup ∧
  (∀ k ∈ AL.keys magnets, k ∉ cur) ∧
  (∀ k ∈ AL.keys magnets, ∀ r ∈ cur, matchCond (toMatchOf k) r = false) ∧
  (∀ s ∈ all0, s ∈ cur ∨ ∃ p ∈ magnets, s ∈ p.2)

theorem magnetLoop_covers (all0 : List String) (fuel : Nat) (cur : List String)
    (magnets : List (String × List String)) (hf : cur.length ≤ fuel) (hinv : MagInv all0 cur magnets) :
    ∀ s ∈ all0, ∃ p ∈ magnetLoop fuel cur magnets, s ∈ p.2 := by
  induction fuel generalizing cur magnets with
  | zero =>
    have : cur = [] := by cases cur <;> simp_all
    subst this
    intro s hs
    rcases hinv.2.2.2 s hs with h | h
    · simp at h
    · simpa [magnetLoop] using h
  | succ fuel ih =>
    cases cur with
    | nil =>
      intro s hs
      rcases hinv.2.2.2 s hs with h | h
      · simp at h
      · simpa [magnetLoop] using h
    | cons orig rest =>
      obtain ⟨hnd, hk1, hk2, hcov⟩ := hinv
      simp only [length_cons, Nat.add_le_add_iff_right] at hf
      rw [nodup_cons] at hnd
      unfold magnetLoop
      simp only
      -- names for the pieces of the round
      have htm : (if (stripDigits orig).isEmpty = true then orig else stripDigits orig) = toMatchOf orig := rfl
      rw [htm]
      generalize ht : toMatchOf orig = t
      generalize hms : rest.filter (matchCond t) = ms
      generalize hkey : (if ms.isEmpty = true then orig else t) = key
      have hmem_ms : ∀ r, r ∈ ms ↔ r ∈ rest ∧ matchCond t r = true := by
        intro r; rw [← hms, mem_filter]
      have hmem_rest' : ∀ r, r ∈ ms.foldl List.erase rest ↔ r ∈ rest ∧ r ∉ ms := mem_foldl_erase hnd.2 ms
      have htkey : toMatchOf key = t := by
        rw [← hkey]; split
        · exact ht
        · rw [← ht]; exact toMatchOf_idem orig
      -- the key of this round is new
      have hfresh : key ∉ AL.keys magnets := by
        intro hin
        by_cases he : ms.isEmpty = true
        · simp only [he, if_true] at hkey
          subst hkey
          exact hk1 _ hin mem_cons_self
        · simp only [he, Bool.false_eq_true, if_false] at hkey
          have hne : ms ≠ [] := by simpa using he
          obtain ⟨m, hm⟩ := exists_mem_of_ne_nil ms hne
          have h1 := ((hmem_ms m).mp hm)
          have h2 := hk2 key hin m (mem_cons_of_mem _ h1.1)
          rw [htkey] at h2
          rw [h2] at h1
          exact absurd h1.2 (by simp)
      rw [AL.set_of_get?_none _ _ _ (AL.get?_eq_none_of_not_mem hfresh)]
      apply ih
      · exact Nat.le_trans (length_foldl_erase_le rest ms) hf
      · refine ⟨nodup_foldl_erase hnd.2 ms, ?_, ?_, ?_⟩
        · intro k hk hin
          have hin' := ((hmem_rest' k).mp hin)
          simp only [AL.keys, map_append, map_cons, map_nil, mem_append, mem_singleton] at hk
          rcases hk with hk | hk
          · exact hk1 k (by simpa [AL.keys] using hk) (mem_cons_of_mem _ hin'.1)
          · subst hk
            by_cases he : ms.isEmpty = true
            · simp only [he, if_true] at hkey
              subst hkey
              exact hnd.1 hin'.1
            · simp only [he, Bool.false_eq_true, if_false] at hkey
              subst hkey
              exact hin'.2 ((hmem_ms _).mpr ⟨hin'.1, matchCond_self _⟩)
        · intro k hk r hr
          have hr' := ((hmem_rest' r).mp hr)
          simp only [AL.keys, map_append, map_cons, map_nil, mem_append, mem_singleton] at hk
          rcases hk with hk | hk
          · exact hk2 k (by simpa [AL.keys] using hk) r (mem_cons_of_mem _ hr'.1)
          · subst hk
            rw [htkey]
            cases hc : matchCond t r with
            | false => rfl
            | true => exact absurd ((hmem_ms r).mpr ⟨hr'.1, hc⟩) hr'.2
        · intro s hs
          rcases hcov s hs with h | ⟨p, hp, hsp⟩
          · rw [mem_cons] at h
            rcases h with h | h
            · exact Or.inr ⟨(key, orig :: ms), by simp, by simp [h]⟩
            · by_cases hsm : s ∈ ms
              · exact Or.inr ⟨(key, orig :: ms), by simp, by simp [hsm]⟩
              · exact Or.inl ((hmem_rest' s).mpr ⟨h, hsm⟩)
          · exact Or.inr ⟨p, mem_append_left _ hp, hsp⟩

theorem isSome_get?_setAll (m : List (String × String)) (p : String × List String) (s : String) :
    (AL.get? (setAll m p) s).isSome = (decide (s ∈ p.2) || (AL.get? m s).isSome) := by
  unfold setAll
  obtain ⟨k, l⟩ := p
  simp only
  induction l generalizing m with
  | nil => simp
  | cons a r ih =>
    simp only [foldl_cons]
    rw [ih]
    have := AL.contains_set m a s k
    unfold AL.contains at this
    rw [this]
    by_cases h1 : s = a
    · subst h1; simp
    · have h2 : ¬ a = s := fun e => h1 e.symm
      simp [h1, h2]

theorem isSome_get?_foldl_setAll (magnets : List (String × List String)) (m : List (String × String)) (s : String) :
    (AL.get? (magnets.foldl setAll m) s).isSome = (magnets.any (fun p => decide (s ∈ p.2)) || (AL.get? m s).isSome) := by
  induction magnets generalizing m with
  | nil => simp
  | cons p r ih =>
    simp only [foldl_cons, any_cons]
    rw [ih, isSome_get?_setAll]
    cases decide (s ∈ p.2) <;> cases (r.any fun p => decide (s ∈ p.2)) <;> simp

theorem mem_dedup (l : List String) (s : String) : s ∈ dedup l ↔ s ∈ l := by
  induction l with
  | nil => simp [dedup]
  | cons a r ih =>
    unfold dedup
    by_cases h : r.contains a = true
    · simp only [h, if_true, ih, mem_cons]
      constructor
      · exact Or.inr
      · rintro (h1 | h1)
        · subst h1; simpa using h
        · exact h1
    · simp only [h, Bool.false_eq_true, if_false, mem_cons, ih]

theorem nodup_dedup (l : List String) : (dedup l).Nodup := by
  induction l with
  | nil => simp [dedup]
  | cons a r ih =>
    unfold dedup
    by_cases h : r.contains a = true
    · simp only [h, if_true]; exact ih
    · simp only [h, Bool.false_eq_true, if_false, nodup_cons]
      refine ⟨?_, ih⟩
      rw [mem_dedup]; simpa using h

/-- `suffixToMagnet[suffix]` finds an entry for the suffix of every suffixed name: no `KeyError` -/
theorem suffixToMagnet_total (suffixed : List Name) (n : Name) (hn : n ∈ suffixed) :
    (AL.get? (suffixToMagnet suffixed) (suffixOf n)).isSome = true := by
  unfold suffixToMagnet
  simp only
  generalize hall : sortBy strLt (dedup (suffixed.map suffixOf)) = all
  have hmem : suffixOf n ∈ all := by
    rw [← hall, (sortBy_perm _ _).mem_iff, mem_dedup]
    exact mem_map_of_mem hn
  have hnd : all.Nodup := by
    rw [← hall]; exact (sortBy_perm _ _).nodup_iff.mpr (nodup_dedup _)
  have hinv : MagInv all all [] := ⟨hnd, by simp [AL.keys], by simp [AL.keys], fun s hs => Or.inl hs⟩
  obtain ⟨p, hp, hsp⟩ := magnetLoop_covers all all.length all [] (Nat.le_refl _) hinv _ hmem
  rw [isSome_get?_foldl_setAll]
  have : ((magnetLoop all.length all []).any fun p => decide (suffixOf n ∈ p.2)) = true :=
    any_eq_true.mpr ⟨p, hp, by simpa using hsp⟩
  simp [this]

/-- … so `magnetOf` is the dict look-up of the code, never the model's fall-back -/
theorem magnetOf_eq_lookup (suffixed : List Name) (n : Name) (hn : n ∈ suffixed) :
    AL.get? (suffixToMagnet suffixed) (suffixOf n) = some (magnetOf (suffixToMagnet suffixed) n) := by
  have h := suffixToMagnet_total suffixed n hn
  obtain ⟨v, hv⟩ := Option.isSome_iff_exists.mp h
  simp [magnetOf, hv]

end NameSort
end DefconModel
