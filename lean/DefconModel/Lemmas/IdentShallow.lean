/-
Helper lemmas for C10, third part (round 3): lazily loaded ("shallow") contours.

`step w op = stepL (preload w op) op`: an operation first loads the glyphs whose contours it looks at
(`preload`), then does what it does on loaded glyphs (`stepL`).  Here: loading is invisible (`Glyph.Same`,
`World.Same`), and the rejected / refused calls leave the preloaded world as it is.
-/
import DefconModel.Lemmas.IdentLeak

namespace DefconModel
namespace Ident

/-! ### `Same` is an equivalence, `put` and `get` -/

theorem Glyph.Same.refl (g : Glyph) : g.Same g :=
  ⟨rfl, rfl, rfl, rfl, rfl, rfl, rfl, rfl, rfl, rfl, fun _ => Iff.rfl⟩

theorem Glyph.Same.trans {a b c : Glyph} (h1 : a.Same b) (h2 : b.Same c) : a.Same c :=
  ⟨h1.contours.trans h2.contours, h1.comps.trans h2.comps, h1.anchors.trans h2.anchors, h1.guides.trans h2.guides,
   h1.cur.trans h2.cur, h1.stC.trans h2.stC, h1.stK.trans h2.stK, h1.stA.trans h2.stA, h1.stG.trans h2.stG,
   h1.leaked.trans h2.leaked, fun x => (h1.reg x).trans (h2.reg x)⟩

theorem World.Same.refl (w : World) : w.Same w := ⟨fun _ => Glyph.Same.refl _, rfl, rfl, rfl, rfl⟩

theorem World.Same.trans {a b c : World} (h1 : a.Same b) (h2 : b.Same c) : a.Same c :=
  ⟨fun t => (h1.conts t).trans (h2.conts t), h1.limboC.trans h2.limboC, h1.limboK.trans h2.limboK,
   h1.limboA.trans h2.limboA, h1.limboG.trans h2.limboG⟩

theorem get_put (w : World) (t t' : Nat) (g : Glyph) :
    (w.put t g).get t' = if t = t' ∧ t < w.conts.length then g else w.get t' := by
  unfold World.put World.get
  simp only [List.getElem?_set]
  by_cases h : t = t'
  · subst h
    by_cases hl : t < w.conts.length
    · simp [hl]
    · simp [hl, List.getElem?_eq_none (Nat.le_of_not_lt hl)]
  · simp [h]

/-- replacing a container by one an observer cannot tell from it -/
theorem same_put {w : World} {t : Nat} {g : Glyph} (h : g.Same (w.get t)) : (w.put t g).Same w := by
  refine ⟨fun t' => ?_, rfl, rfl, rfl, rfl⟩
  rw [get_put]
  split
  · rename_i hh; rw [← hh.1]; exact h
  · exact Glyph.Same.refl _

/-! ### loading is invisible -/

theorem deepen_same {g : Glyph} (h : Inv g) : (deepen g).Same g := by
  obtain ⟨_, h2, h3⟩ := deepen_spec h
  exact ⟨by rw [h2], by rw [h2], by rw [h2], by rw [h2], by rw [h2], by rw [h2], by rw [h2], by rw [h2],
    by rw [h2], by rw [h2], h3⟩

theorem load_same {w : World} (h : WInv w) (t : Nat) : (w.load t).Same w :=
  same_put (deepen_same (winv_get h t))

theorem preload_same {w : World} (h : WInv w) (op : Op) : (preload w op).Same w := by
  unfold preload
  repeat' split
  all_goals first
    | exact World.Same.refl _
    | exact load_same h _
    | exact (load_same (winv_load h _) _).trans (load_same h _)

theorem load_of_loaded {w : World} (h : w.Loaded) (t : Nat) : w.load t = w := by
  unfold World.load
  have : (w.get t).shallow = false := by
    unfold World.get
    cases hg : w.conts[t]? with
    | none => rfl
    | some g => exact h g (List.mem_of_getElem? hg)
  rw [deepen_of_loaded this]
  exact put_get w t

/-- in a world whose glyphs are all loaded no operation has anything to load first -/
theorem preload_of_loaded {w : World} (h : w.Loaded) (op : Op) : preload w op = w := by
  unfold preload
  repeat' split
  all_goals simp only [load_of_loaded h]

/-- a loaded glyph stays … the glyph `load` names is loaded afterwards -/
theorem load_loads (w : World) (t : Nat) (ht : t < w.conts.length) : ((w.load t).get t).shallow = false := by
  unfold World.load
  rw [get_put]
  simp [ht, deepen_shallow]

/-- loading twice is loading once -/
theorem load_load (w : World) (t : Nat) : (w.load t).load t = w.load t := by
  by_cases ht : t < w.conts.length
  · have hget : (w.load t).get t = deepen (w.get t) := by
      unfold World.load; rw [get_put]; simp [ht]
    have : (w.load t).load t = (w.load t).put t (deepen (w.get t)) := by
      show (w.load t).put t (deepen ((w.load t).get t)) = _
      rw [hget, deepen_of_loaded (deepen_shallow _)]
    rw [this]
    unfold World.load World.put
    simp [List.set_set]
  · have h1 : w.load t = w := by
      unfold World.load World.put
      simp [List.set_eq_of_length_le (Nat.le_of_not_lt ht)]
    rw [h1, h1]

/-- an operation that looks at the contours of glyph `t` before anything else does exactly the same on the
world in which glyph `t` was loaded beforehand -/
theorem step_load_eq (w : World) (op : Op) (t : Nat) (h : Op.looksFirst op = some t) :
    step (w.load t) op = step w op := by
  cases op <;> simp only [Op.looksFirst, Option.some.injEq] at h <;> try (exact absurd h (by simp))
  all_goals
    subst h
    simp only [step, preload, load_load]

/-! ### `clearContours` removes every contour and frees what the contours carried -/

theorem frame_removeContour (g : Glyph) (ci : Nat) :
    (removeContour g ci).1.comps = g.comps ∧ (removeContour g ci).1.anchors = g.anchors ∧
    (removeContour g ci).1.guides = g.guides ∧ (removeContour g ci).1.shallow = g.shallow := by
  unfold removeContour
  split
  · exact ⟨rfl, rfl, rfl, rfl⟩
  · split <;> exact ⟨rfl, rfl, rfl, rfl⟩

theorem frame_clearContours (n : Nat) (g : Glyph) :
    (clearContours n g).1.comps = g.comps ∧ (clearContours n g).1.anchors = g.anchors ∧
    (clearContours n g).1.guides = g.guides ∧ (clearContours n g).1.shallow = g.shallow := by
  induction n generalizing g with
  | zero => exact ⟨rfl, rfl, rfl, rfl⟩
  | succ n ih =>
    unfold clearContours
    have h1 := frame_removeContour g n
    split
    · rename_i g1 c heq
      rw [heq] at h1
      have h2 := ih g1
      exact ⟨h2.1.trans h1.1, h2.2.1.trans h1.2.1, h2.2.2.1.trans h1.2.2.1, h2.2.2.2.trans h1.2.2.2⟩
    · rename_i g1 res o _ heq
      rw [heq] at h1
      exact h1

/-- under the invariant `for contour in reversed(self): self.removeContour(contour)` never stops early -/
theorem clearContours_all {g : Glyph} (h : Inv g) (n : Nat) (hn : n ≤ g.contours.length) :
    (clearContours n g).1.contours.length = g.contours.length - n ∧ (clearContours n g).2.1 = .ok := by
  induction n generalizing g with
  | zero => exact ⟨rfl, rfl⟩
  | succ n ih =>
    have hlt : n < g.contours.length := hn
    have hc : g.contours[n]? = some g.contours[n] := List.getElem?_eq_getElem hlt
    have hcnt : ∀ x, ({ g with contours := g.contours.eraseIdx n } : Glyph).cnt x + (g.contours[n]).ids.count x
        = g.cnt x := by
      intro x
      have := cntCs_eraseIdx x g.contours n _ hc
      rw [Contour.cnt_eq_count] at this
      simp only [Glyph.cnt] at this ⊢
      omega
    obtain ⟨r, hr, he⟩ := h.ex.freeAll (g.contours[n]).ids hcnt
    have hrm : removeContour g n
        = ({ g with reg := r, contours := g.contours.eraseIdx n }, .ok, some g.contours[n]) := by
      simp [removeContour, hc, hr]
    have hinv : Inv ({ g with reg := r, contours := g.contours.eraseIdx n } : Glyph) := Ex.inv he
    have hlen : ({ g with reg := r, contours := g.contours.eraseIdx n } : Glyph).contours.length
        = g.contours.length - 1 := by
      simp [List.length_eraseIdx, hlt]
    have h2 := ih hinv (by rw [hlen]; omega)
    unfold clearContours
    rw [hrm]
    refine ⟨?_, h2.2⟩
    have := h2.1
    rw [hlen] at this
    simp only at this ⊢
    omega

/-! ### rejected and refused calls, on the preloaded world -/

theorem insertContour_reject_unchanged' (g : Glyph) (idx : Nat) (c : Contour)
    (h : (insertContour g idx c).2 ≠ .ok) : (insertContour g idx c).1 = g := by
  unfold insertContour at h ⊢
  split
  · rename_i hf; simp [hf] at h
  · rfl

/-- `stepL`: a single-object operation that is rejected with an AssertionError changes nothing -/
theorem stepL_reject_unchanged (w : World) (op : Op) (hs : Op.single op = true)
    (h : (stepL w op).2 = .err .assertion) : (stepL w op).1 = w := by
  cases op <;> simp only [Op.single] at hs <;> try (exact absurd hs (by decide))
  case insContour t r c =>
    exact on_unchanged w t _ (fun h' => insertContour_reject_unchanged' _ _ _ (by rw [h']; simp)) h
  case reinsContour t r k =>
    simp only [stepL] at h ⊢
    repeat' split
    all_goals first | rfl | (rename_i heq; simp_all)
  case insPoint t rc rp p =>
    simp only [stepL] at h ⊢
    split
    · rfl
    · rename_i ci hci
      simp only [hci] at h
      exact on_unchanged w t _ (insertPoint_unchanged _ _ _ _) h
  case addPoint t rc p =>
    simp only [stepL] at h ⊢
    split
    · rfl
    · rename_i ci hci
      simp only [hci] at h
      exact on_unchanged w t _ (insertPoint_unchanged _ _ _ _) h
  case setContourId t rc v =>
    simp only [stepL] at h ⊢
    split
    · rfl
    · rename_i ci hci
      simp only [hci] at h
      exact on_unchanged w t _ (setter_unchanged _ _ _).1 h
  case genContourId t rc cands =>
    simp only [stepL] at h ⊢
    split
    · rfl
    · rename_i ci hci
      simp only [hci] at h
      exact on_unchanged w t _ (gen_unchanged _ _ 0 _).1 h
  case genPointId t rc rp cands =>
    simp only [stepL] at h ⊢
    split
    · rfl
    · rename_i ci hci
      simp only [hci] at h
      split
      · rfl
      · rename_i pi hpi
        simp only [hpi] at h
        exact on_unchanged w t _ (gen_unchanged _ _ _ _).2.1 h
  case insComp t r k => exact on_unchanged w t _ (claim_unchanged _ _ _ none).1 h
  case reinsComp t r k =>
    simp only [stepL] at h ⊢
    repeat' split
    all_goals first | rfl | (rename_i heq; simp_all)
  case setCompId t r v =>
    simp only [stepL] at h ⊢
    split
    · rfl
    · rename_i ci hci
      simp only [hci] at h
      exact on_unchanged w t _ (setter_unchanged _ _ _).2.1 h
  case genCompId t r cands =>
    simp only [stepL] at h ⊢
    split
    · rfl
    · rename_i ci hci
      simp only [hci] at h
      exact on_unchanged w t _ (gen_unchanged _ _ 0 _).2.2.1 h
  case insAnchor t r v d => exact on_unchanged w t _ (claim_unchanged _ _ ⟨0, none⟩ _).2.1 h
  case reinsAnchor t r k =>
    simp only [stepL] at h ⊢
    repeat' split
    all_goals first | rfl | (rename_i heq; simp_all)
  case setAnchorId t r v =>
    simp only [stepL] at h ⊢
    split
    · rfl
    · rename_i ci hci
      simp only [hci] at h
      exact on_unchanged w t _ (setter_unchanged _ _ _).2.2.1 h
  case genAnchorId t r cands =>
    simp only [stepL] at h ⊢
    split
    · rfl
    · rename_i ci hci
      simp only [hci] at h
      exact on_unchanged w t _ (gen_unchanged _ _ 0 _).2.2.2.1 h
  case insGuide t r v d => exact on_unchanged w t _ (claim_unchanged _ _ ⟨0, none⟩ _).2.2 h
  case reinsGuide t r k =>
    simp only [stepL] at h ⊢
    repeat' split
    all_goals first | rfl | (rename_i heq; simp_all)
  case setGuideId t r v =>
    simp only [stepL] at h ⊢
    split
    · rfl
    · rename_i ci hci
      simp only [hci] at h
      exact on_unchanged w t _ (setter_unchanged _ _ _).2.2.2 h
  case genGuideId t r cands =>
    simp only [stepL] at h ⊢
    split
    · rfl
    · rename_i ci hci
      simp only [hci] at h
      exact on_unchanged w t _ (gen_unchanged _ _ 0 _).2.2.2.2 h

/-- `stepL`: a call the container has to refuse answers with an error and changes nothing -/
theorem stepL_refused_unchanged (w : World) (op : Op) (h : Op.refused op = true) :
    (stepL w op).1 = w ∧ ∃ e, (stepL w op).2 = .err e := by
  cases op <;> simp only [Op.refused] at h <;> try (exact absurd h (by decide))
  case insAnchorBad t r v => exact ⟨rfl, _, rfl⟩
  case insGuideBad t r v => exact ⟨rfl, _, rfl⟩
  all_goals
    simp only [stepL]
    repeat' split
  all_goals exact ⟨rfl, _, rfl⟩

end Ident
end DefconModel
