/-
`_makeRepresentationSubKey`: sorting the keyword items is a faithful, order-insensitive key.
-/
import DefconModel.ReprCore

namespace DefconModel
namespace Repr

theorem insertKw_perm (p : String × Int) (l : List (String × Int)) : (insertKw p l).Perm (p :: l) := by
  induction l with
  | nil => exact List.Perm.refl _
  | cons q r ih =>
    unfold insertKw
    by_cases h : p.1 < q.1
    · simp only [h, if_true]; exact List.Perm.refl _
    · simp only [h, if_false]
      exact (List.Perm.cons q ih).trans (List.Perm.swap p q r)

theorem sortKw_perm (l : KwArgs) : (sortKw l).Perm l := by
  induction l with
  | nil => exact List.Perm.refl _
  | cons p r ih =>
    unfold sortKw
    exact (insertKw_perm p (sortKw r)).trans (List.Perm.cons p ih)

theorem lt_of_not_lt_of_ne {a b : String} (h : ¬ a < b) (hne : a ≠ b) : b < a := by
  by_cases h2 : b < a
  · exact h2
  · exact absurd (String.le_antisymm (String.not_lt.mp h2) (String.not_lt.mp h)) hne

def KeySorted (l : List (String × Int)) : Prop := l.Pairwise fun p q => p.1 < q.1

theorem insertKw_sorted (p : String × Int) (l : List (String × Int)) (hs : KeySorted l)
    (hne : ∀ q, q ∈ l → p.1 ≠ q.1) : KeySorted (insertKw p l) := by
  induction l with
  | nil => unfold insertKw KeySorted; simp
  | cons q r ih =>
    unfold KeySorted at hs
    rw [List.pairwise_cons] at hs
    unfold insertKw
    by_cases h : p.1 < q.1
    · simp only [h, if_true]
      unfold KeySorted
      rw [List.pairwise_cons, List.pairwise_cons]
      refine ⟨?_, hs.1, hs.2⟩
      intro x hx
      simp only [List.mem_cons] at hx
      rcases hx with hx | hx
      · rw [hx]; exact h
      · exact String.lt_trans h (hs.1 x hx)
    · simp only [h, if_false]
      unfold KeySorted
      rw [List.pairwise_cons]
      refine ⟨?_, ih hs.2 (fun x hx => hne x (List.mem_cons_of_mem _ hx))⟩
      intro x hx
      have := (insertKw_perm p r).mem_iff.mp hx
      simp only [List.mem_cons] at this
      rcases this with hx | hx
      · rw [hx]; exact lt_of_not_lt_of_ne h (hne q (by simp))
      · exact hs.1 x hx

theorem sortKw_sorted (l : KwArgs) (hn : (l.map Prod.fst).Nodup) : KeySorted (sortKw l) := by
  induction l with
  | nil => unfold sortKw KeySorted; simp
  | cons p r ih =>
    simp only [List.map_cons, List.nodup_cons] at hn
    unfold sortKw
    apply insertKw_sorted p _ (ih hn.2)
    intro q hq e
    have hq' := (sortKw_perm r).mem_iff.mp hq
    exact hn.1 (by rw [e]; exact List.mem_map_of_mem (f := Prod.fst) hq')

/-- two calls share a cache entry only if they pass the same keyword items -/
theorem makeSubKey_injective (a b : KwArgs) (h : makeSubKey a = makeSubKey b) : a.Perm b := by
  cases a with
  | nil =>
    cases b with
    | nil => exact List.Perm.refl _
    | cons q r => simp [makeSubKey] at h
  | cons p r =>
    cases b with
    | nil => simp [makeSubKey] at h
    | cons q s =>
      simp only [makeSubKey, Option.some.injEq] at h
      exact (sortKw_perm (p :: r)).symm.trans (h ▸ sortKw_perm (q :: s))

/-- the order in which the keywords are written does not matter -/
theorem makeSubKey_perm (a b : KwArgs) (hp : a.Perm b) (hn : (a.map Prod.fst).Nodup) :
    makeSubKey a = makeSubKey b := by
  have hnb : (b.map Prod.fst).Nodup := (hp.map Prod.fst).nodup_iff.mp hn
  have hs : sortKw a = sortKw b := by
    apply List.Perm.eq_of_pairwise (le := fun p q : String × Int => p.1 < q.1)
    · intro x y _ _ h1 h2; exact absurd h2 (String.lt_asymm h1)
    · exact sortKw_sorted a hn
    · exact sortKw_sorted b hnb
    · exact (sortKw_perm a).trans (hp.trans (sortKw_perm b).symm)
  cases a with
  | nil =>
    have := hp.symm.eq_nil
    subst this; rfl
  | cons p r =>
    cases b with
    | nil => exact absurd hp.eq_nil (by simp)
    | cons q s => simp only [makeSubKey]; rw [hs]

end Repr
end DefconModel
