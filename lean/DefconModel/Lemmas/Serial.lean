/-
Helper lemmas for C14 (M-Serial).
-/
import DefconModel.Spec.Serial

namespace DefconModel
namespace Serial
open Gen.SerialTables

/-! ### association lists: folding `set` over a list with fresh, distinct keys appends it -/

theorem AL_set_append_fresh {α : Type} (l : List (String × α)) (k : String) (v : α) (h : k ∉ AL.keys l) :
    AL.set l k v = l ++ [(k, v)] := by
  induction l with
  | nil => rfl
  | cons p r ih =>
    obtain ⟨k', v'⟩ := p
    simp [AL.keys] at h
    have h1 : ¬ k' = k := fun e => h.1 e.symm
    simp [AL.set, h1]
    exact ih (by simpa [AL.keys] using h.2)

theorem foldl_set_append {α : Type} (d acc : List (String × α))
    (hd : (AL.keys (acc ++ d)).Nodup) :
    d.foldl (fun a p => AL.set a p.1 p.2) acc = acc ++ d := by
  induction d generalizing acc with
  | nil => simp
  | cons p r ih =>
    simp only [List.foldl_cons]
    have hk : p.1 ∉ AL.keys acc := by
      simp [AL.keys, List.nodup_append] at hd
      intro hm
      simp [AL.keys] at hm
      obtain ⟨v, hv⟩ := hm
      exact (hd.2.2 _ _ hv).1 rfl
    rw [AL_set_append_fresh acc p.1 p.2 hk]
    have : (AL.keys (acc ++ [(p.1, p.2)] ++ r)).Nodup := by simpa using hd
    rw [ih _ this]
    simp

theorem dictUpdate_nil (d : Dict) (h : DictWF d) : dictUpdate [] d = d := by
  unfold dictUpdate
  have := foldl_set_append d [] (by simpa [DictWF] using h)
  simpa using this

theorem fileSet_deser_items (d : Dict) (o : DictObj) (h : DictWF d) : (FileSet.deser d o).items = d := by
  unfold FileSet.deser
  have := foldl_set_append d [] (by simpa [DictWF] using h)
  simpa using this

/-! ### `_serialize` -/

theorem serializeWith_aux {σ δ : Type} (get : String → σ → Option δ) (wl bl : Option (List String)) (o : σ)
    (f : String → δ) (ks : List String) (acc : List (String × δ))
    (hg : ∀ k ∈ ks, get k o = some (f k)) (hn : (AL.keys acc ++ ks).Nodup) :
    ks.foldl (serStep get wl bl o) acc
      = acc ++ (ks.filter (fun k => !excluded wl bl k)).map (fun k => (k, f k)) := by
  induction ks generalizing acc with
  | nil => simp
  | cons k r ih =>
    simp only [List.foldl_cons]
    have hk : get k o = some (f k) := hg k (by simp)
    have hr : ∀ k' ∈ r, get k' o = some (f k') := fun k' h => hg k' (by simp [h])
    have hnk : k ∉ AL.keys acc := by
      rw [List.nodup_append] at hn
      intro hm
      exact hn.2.2 k hm k (by simp) rfl
    rw [List.nodup_append] at hn
    have h2 := List.nodup_cons.mp hn.2.1
    cases hx : excluded wl bl k with
    | true =>
      have : serStep get wl bl o acc k = acc := by simp [serStep, hx]
      rw [this, ih acc hr]
      · simp [hx]
      · rw [List.nodup_append]
        refine ⟨hn.1, h2.2, ?_⟩
        intro a ha b hb
        exact hn.2.2 a ha b (by simp [hb])
    | false =>
      have : serStep get wl bl o acc k = acc ++ [(k, f k)] := by
        simp [serStep, hx, hk, AL_set_append_fresh acc k (f k) hnk]
      rw [this, ih _ hr]
      · simp [hx]
      · have hkeys : AL.keys (acc ++ [(k, f k)]) = AL.keys acc ++ [k] := by simp [AL.keys]
        rw [hkeys, List.append_assoc, List.nodup_append]
        refine ⟨hn.1, ?_, ?_⟩
        · simpa using h2
        · intro a ha b hb
          simp at hb
          rcases hb with hb | hb
          · subst hb; intro e; subst e; exact hnk ha
          · exact hn.2.2 a ha b (by simp [hb])

/-- the data dictionary holds, in table order, exactly the admitted keys with their getter's value -/
theorem serializeWith_eq {σ δ : Type} (get : String → σ → Option δ) (wl bl : Option (List String)) (o : σ)
    (f : String → δ) (ks : List String) (hg : ∀ k ∈ ks, get k o = some (f k)) (hn : ks.Nodup) :
    serializeWith get wl bl o ks = (ks.filter (fun k => !excluded wl bl k)).map (fun k => (k, f k)) := by
  unfold serializeWith
  have := serializeWith_aux get wl bl o f ks [] hg (by simpa [AL.keys] using hn)
  simpa using this

theorem excluded_none (k : String) : excluded none none k = false := rfl

/-- `BaseDictObject.getDataForSerialization()` is the dictionary itself -/
theorem dictObj_ser (o : DictObj) (h : DictWF o.items) : o.ser none none = o.items := by
  unfold DictObj.ser
  rw [serializeWith_eq (fun k (o : DictObj) => AL.get? o.items k) none none o
    (fun k => (AL.get? o.items k).getD "") (AL.keys o.items) _ h]
  · simp only [excluded_none, Bool.not_false]
    have hf : (AL.keys o.items).filter (fun _ => true) = AL.keys o.items := by simp
    rw [hf]
    unfold AL.keys
    rw [List.map_map]
    conv => rhs; rw [← List.map_id o.items]
    apply List.map_congr_left
    intro p hp
    obtain ⟨k, v⟩ := p
    simp [AL.get?_of_mem_nodup h hp]
  · intro k hk
    simp [AL.keys] at hk
    obtain ⟨v, hv⟩ := hk
    simp [AL.get?_of_mem_nodup h hv]

/-! ### registry, leaf kinds -/

@[simp] theorem Reg.add_none (r : Reg) : r.add pyNone = r := by
  cases r <;> simp [Reg.add]

theorem Reg.addAll_append (r : Reg) (a b : List Val) : r.addAll (a ++ b) = (r.addAll a).addAll b := by
  simp [Reg.addAll, List.foldl_append]

@[simp] theorem Reg.addAll_nil (r : Reg) : r.addAll [] = r := rfl
theorem Reg.addAll_cons (r : Reg) (a : Val) (b : List Val) : r.addAll (a :: b) = (r.add a).addAll b := rfl

theorem component_rebuild (c t : Component) (r : Reg) (b : Bool) (ht : t.ident = pyNone) :
    Component.deser b (c.ser none none) (t, r) =
      ({ t with base := c.base, transformation := c.transformation, ident := c.ident },
       if b then r.add c.ident else r) := by
  simp [Component.deser, Component.ser, serializeWith, serStep, applySetters, setStep, componentGetters, componentSetters,
    excluded, Component.getField, Component.setField, AL.set, ht]
  intro h
  simp [h]

theorem contour_rebuild (c t : Contour) (r : Reg) (b : Bool) (ht : t.ident = pyNone) :
    Contour.deser b (c.ser none none) (t, r) =
      ({ t with ident := c.ident, points := c.points },
       if b then r.addAll c.ids else r) := by
  simp [Contour.deser, Contour.ser, serializeWith, serStep, contourGetters, excluded, Contour.getField, AL.set, ht,
    Contour.toPen, Contour.ids, Reg.addAll_cons]
  by_cases h : c.ident = pyNone
  · simp [h]
  · cases b <;> simp [h]

theorem buildContours_ser_aux (cs : List Contour) (acc : List Contour) (r : Reg) :
    (cs.map (Contour.ser none none)).foldl (fun (acc : List Contour × Reg) d =>
      let cr := Contour.deser true d ({ parent := true }, acc.2)
      (acc.1 ++ [cr.1], cr.2)) (acc, r)
    = (acc ++ cs.map (Contour.rebuilt false), r.addAll (cs.flatMap Contour.ids)) := by
  induction cs generalizing acc r with
  | nil => simp
  | cons c cs ih =>
    simp only [List.map_cons, List.foldl_cons]
    rw [contour_rebuild c _ r true rfl]
    simp only [if_true]
    rw [ih]
    simp [Contour.rebuilt, Reg.addAll_append]

theorem buildContours_ser (cs : List Contour) (r : Reg) :
    buildContours (cs.map (Contour.ser none none)) r
      = (cs.map (Contour.rebuilt false), r.addAll (cs.flatMap Contour.ids)) := by
  unfold buildContours
  simpa using buildContours_ser_aux cs [] r

theorem buildComponents_ser_aux (cs : List Component) (acc : List Component) (r : Reg) :
    (cs.map (Component.ser none none)).foldl (fun (acc : List Component × Reg) d =>
      let cr := Component.deser true d ({ parent := true }, acc.2)
      (acc.1 ++ [cr.1], cr.2)) (acc, r)
    = (acc ++ cs.map (Component.rebuilt false), r.addAll (cs.map (·.ident))) := by
  induction cs generalizing acc r with
  | nil => simp
  | cons c cs ih =>
    simp only [List.map_cons, List.foldl_cons]
    rw [component_rebuild c _ r true rfl]
    simp only [if_true]
    rw [ih]
    simp [Component.rebuilt, Reg.addAll_cons]

theorem buildComponents_ser (cs : List Component) (r : Reg) :
    buildComponents (cs.map (Component.ser none none)) r
      = (cs.map (Component.rebuilt false), r.addAll (cs.map (·.ident))) := by
  unfold buildComponents
  simpa using buildComponents_ser_aux cs [] r

/-! dict attribute setters -/

theorem dictGet_set_self (d : Dict) (k v : Val) : dictGet (AL.set d k v) k = v := by
  simp [dictGet]

theorem dictGet_set_ne (d : Dict) (k k' v : Val) (h : k ≠ k') : dictGet (AL.set d k v) k' = dictGet d k' := by
  simp [dictGet, AL.get?_set_ne _ _ _ _ h]

@[simp] theorem dictGet_setAttr_self (d : Dict) (k v : Val) : dictGet (setAttr d k v) k = v := by
  unfold setAttr
  split
  · assumption
  · exact dictGet_set_self d k v

theorem dictGet_setAttr_ne (d : Dict) (k k' v : Val) (h : k ≠ k') : dictGet (setAttr d k v) k' = dictGet d k' := by
  unfold setAttr
  split
  · rfl
  · exact dictGet_set_ne d k k' v h

theorem dictGet_erase_ne (d : Dict) (k k' : Val) (h : k ≠ k') : dictGet (AL.erase d k) k' = dictGet d k' := by
  simp [dictGet, AL.get?_erase_ne _ _ _ h]

theorem dictGet_setAttrDel_ne (d : Dict) (k k' v : Val) (h : k ≠ k') : dictGet (setAttrDel d k v) k' = dictGet d k' := by
  unfold setAttrDel
  split
  · rfl
  · split
    · exact dictGet_erase_ne d k k' h
    · exact dictGet_set_ne d k k' v h

@[simp] theorem dictGet_nil (k : Val) : dictGet [] k = pyNone := rfl

/-- on a dict where the key answers None (in particular a new one) `setAttrDel` stores the value -/
theorem dictGet_setAttrDel_self (d : Dict) (k v : Val) (h : dictGet d k = pyNone) :
    dictGet (setAttrDel d k v) k = v := by
  unfold setAttrDel
  split
  · assumption
  · split
    · rename_i h1 h2; rw [h2] at h1; exact absurd h h1
    · exact dictGet_set_self d k v

theorem dictGet_anchorAttrs_identifier (d : Dict) : dictGet (Anchor.attrsOf d) "identifier" = pyNone := by
  simp [Anchor.attrsOf, dictGet_setAttr_ne]

theorem dictGet_guidelineAttrs_identifier (d : Dict) : dictGet (Guideline.attrsOf d) "identifier" = pyNone := by
  simp [Guideline.attrsOf, dictGet_setAttr_ne, dictGet_setAttrDel_ne]

theorem anchor_ofDict (d : Dict) (r : Reg) :
    Anchor.ofDict d r = (Anchor.build d, r.add (dictGet d "identifier")) := by
  simp only [Anchor.ofDict, Anchor.build, setIdentReg, dictGet_anchorAttrs_identifier]
  by_cases h : dictGet d "identifier" = pyNone <;> simp [h]

theorem guideline_ofDict (d : Dict) (r : Reg) :
    Guideline.ofDict d r = (Guideline.build d, r.add (dictGet d "identifier")) := by
  simp only [Guideline.ofDict, Guideline.build, setIdentReg, dictGet_guidelineAttrs_identifier]
  by_cases h : dictGet d "identifier" = pyNone <;> simp [h]

/-- the five attribute getters of the anchor built from `d` answer what `d.get` answers -/
theorem anchor_build_attrs (d : Dict) : AttrEq anchorAttrs (Anchor.build d).items d := by
  intro k hk
  simp [anchorAttrs] at hk
  simp only [Anchor.build, Anchor.itemsOf, setIdentItems, dictGet_anchorAttrs_identifier]
  by_cases h : dictGet d "identifier" = pyNone <;>
    rcases hk with rfl | rfl | rfl | rfl | rfl <;>
    simp [h, Anchor.attrsOf, dictGet_setAttr_ne, dictGet_set_ne, dictGet_set_self]

theorem guideline_build_attrs (d : Dict) : AttrEq guidelineAttrs (Guideline.build d).items d := by
  intro k hk
  simp [guidelineAttrs] at hk
  simp only [Guideline.build, Guideline.itemsOf, setIdentItems, dictGet_guidelineAttrs_identifier]
  by_cases h : dictGet d "identifier" = pyNone <;>
    rcases hk with rfl | rfl | rfl | rfl | rfl | rfl <;>
    simp [h, Guideline.attrsOf, dictGet_setAttr_ne, dictGet_setAttrDel_ne, dictGet_set_ne, dictGet_set_self,
      dictGet_setAttrDel_self]

theorem buildDicts_aux (build : Dict → DictObj) (ds : List Dict) (acc : List DictObj) (r : Reg) :
    ds.foldl (fun (acc : List DictObj × Reg) d =>
      (acc.1 ++ [build d], acc.2.add (dictGet d "identifier"))) (acc, r)
    = (acc ++ ds.map build, r.addAll (ds.map (fun d => dictGet d "identifier"))) := by
  induction ds generalizing acc r with
  | nil => simp
  | cons d ds ih =>
    simp only [List.foldl_cons]
    rw [ih]
    simp [Reg.addAll_cons]

theorem buildDicts_eq (mk : Dict → Reg → DictObj × Reg) (build : Dict → DictObj)
    (hmk : ∀ d r, mk d r = (build d, r.add (dictGet d "identifier"))) (ds : List Dict) (r : Reg) :
    buildDicts mk ds r = (ds.map build, r.addAll (ds.map (fun d => dictGet d "identifier"))) := by
  unfold buildDicts
  have hfun : mk = fun d r => (build d, r.add (dictGet d "identifier")) := by
    funext d r; exact hmk d r
  subst hfun
  simpa using buildDicts_aux build ds [] r

/-- `dict.update`: the other dictionary's entries win -/
theorem get?_dictUpdate (b d : Dict) (k : Val) (h : DictWF d) :
    AL.get? (dictUpdate b d) k = (match AL.get? d k with | some v => some v | none => AL.get? b k) := by
  unfold dictUpdate
  induction d generalizing b with
  | nil => simp
  | cons p r ih =>
    obtain ⟨k', v'⟩ := p
    simp only [List.foldl_cons]
    have hr : DictWF r := by
      simp [DictWF, AL.keys] at h ⊢
      exact h.2
    rw [ih _ hr]
    by_cases e : k' = k
    · subst e
      have : AL.get? r k' = none := by
        apply AL.get?_eq_none_of_not_mem
        simp [DictWF, AL.keys] at h
        simpa [AL.keys] using h.1
      simp [this]
    · simp [e, AL.get?_set_ne _ _ _ _ e]

theorem dictGet_dictUpdate_of_contains (b d : Dict) (k : Val) (h : DictWF d) (hc : AL.contains d k = true) :
    dictGet (dictUpdate b d) k = dictGet d k := by
  unfold dictGet
  rw [get?_dictUpdate b d k h]
  rw [AL.contains_iff_get?] at hc
  obtain ⟨v, hv⟩ := hc
  simp [hv]

/-- `_set_image`: each of the eight entries of the glyph's image ends up as the given image says -/
theorem copyImage_attrs (temp items : Dict) : AttrEq imageAttrs (copyImage temp items) temp := by
  intro k hk
  simp [imageAttrs] at hk
  rcases hk with rfl | rfl | rfl | rfl | rfl | rfl | rfl | rfl <;>
    simp [copyImage, dictGet_setAttr_ne]

theorem get?_serFold {σ δ : Type} (get : String → σ → Option δ) (wl bl : Option (List String)) (o : σ)
    (ks : List String) (acc : List (String × δ)) (k : String) :
    AL.get? (ks.foldl (serStep get wl bl o) acc) k =
      (match (if k ∈ ks ∧ excluded wl bl k = false then get k o else none) with
       | some v => some v
       | none => AL.get? acc k) := by
  induction ks generalizing acc with
  | nil => simp
  | cons k0 r ih =>
    simp only [List.foldl_cons]
    rw [ih]
    by_cases hr : k ∈ r ∧ excluded wl bl k = false
    · have : k ∈ k0 :: r ∧ excluded wl bl k = false := ⟨by simp [hr.1], hr.2⟩
      simp only [hr, this, and_self, if_true]
      cases hg : get k o with
      | some v => rfl
      | none =>
        simp only [serStep]
        by_cases e : k0 = k
        · subst e; simp [hr.2, hg]
        · cases hx : excluded wl bl k0 with
          | true => simp
          | false =>
            cases hg0 : get k0 o with
            | none => simp
            | some v0 => simp [AL.get?_set_ne _ _ _ _ e]
    · rw [if_neg hr]
      simp only [serStep]
      by_cases e : k0 = k
      · subst e
        cases hx : excluded wl bl k0 with
        | true => simp
        | false =>
          simp
          cases hg0 : get k0 o with
          | none => simp
          | some v0 => simp
      · have : ¬ (k ∈ k0 :: r ∧ excluded wl bl k = false) := by
          intro h
          apply hr
          refine ⟨?_, h.2⟩
          have := h.1
          simp at this
          rcases this with h1 | h1
          · exact absurd h1.symm e
          · exact h1
        rw [if_neg this]
        cases hx : excluded wl bl k0 with
        | true => simp
        | false =>
          cases hg0 : get k0 o with
          | none => simp
          | some v0 => simp [AL.get?_set_ne _ _ _ _ e]

/-- looking a key up in the data dictionary: the getter's value if the key is in the table and admitted -/
theorem get?_serializeWith {σ δ : Type} (get : String → σ → Option δ) (wl bl : Option (List String)) (o : σ)
    (ks : List String) (k : String) :
    AL.get? (serializeWith get wl bl o ks) k =
      if k ∈ ks ∧ excluded wl bl k = false then get k o else none := by
  unfold serializeWith
  rw [get?_serFold]
  split <;> simp_all


/-! ### Glyph -/


theorem glyph_clear_fresh (t : Glyph) (h : t.Fresh) : t.clear = t := by
  obtain ⟨h1, h2, h3, h4, h5, h6, h7⟩ := h
  cases t
  simp_all [Glyph.clear, Glyph.fullyLoad]

theorem glyph_ser_full (g : Glyph) (hs : g.shallow = none) :
    g.ser none none =
      [("name", .val g.name), ("unicodes", .val g.unicodes), ("width", .val g.width), ("height", .val g.height),
       ("note", .val g.note), ("components", .dicts (g.components.map (Component.ser none none))),
       ("anchors", .dicts (g.anchors.map (DictObj.ser none none))),
       ("guidelines", .dicts (g.guidelines.map (DictObj.ser none none))),
       ("image", .dict (g.imageObj.ser none none)), ("lib", .dict (g.lib.ser none none)),
       ("tempLib", .dict (g.tempLib.ser none none)),
       ("_contours", .contours (g.contours.map (Contour.ser none none)))] := by
  simp [Glyph.ser, serializeWith, serStep, glyphGetters, glyphAltKey, glyphGetAlt, excluded, Glyph.getField, AL.set, hs]



theorem glyph_ser_shallow (g : Glyph) (l : List PenRec) (hs : g.shallow = some l) :
    g.ser none none =
      [("name", .val g.name), ("unicodes", .val g.unicodes), ("width", .val g.width), ("height", .val g.height),
       ("note", .val g.note), ("components", .dicts (g.components.map (Component.ser none none))),
       ("anchors", .dicts (g.anchors.map (DictObj.ser none none))),
       ("guidelines", .dicts (g.guidelines.map (DictObj.ser none none))),
       ("image", .dict (g.imageObj.ser none none)), ("lib", .dict (g.lib.ser none none)),
       ("tempLib", .dict (g.tempLib.ser none none)),
       ("_shallowLoadedContours", .shallow l)] := by
  simp [Glyph.ser, serializeWith, serStep, glyphGetters, glyphAltKey, glyphGetAlt, excluded, Glyph.getField, AL.set, hs]

theorem map_ser_dicts (l : List DictObj) (h : ∀ a ∈ l, DictWF a.items) :
    l.map (DictObj.ser none none) = l.map (·.items) := by
  apply List.map_congr_left
  intro a ha
  exact dictObj_ser a (h a ha)

theorem sf_name (v : Val) (g : Glyph) : Glyph.setField "name" (.val v) g = { g with name := v } := rfl
theorem sf_unicodes (v : Val) (g : Glyph) : Glyph.setField "unicodes" (.val v) g = { g with unicodes := v } := rfl
theorem sf_width (v : Val) (g : Glyph) : Glyph.setField "width" (.val v) g = { g with width := v } := rfl
theorem sf_height (v : Val) (g : Glyph) : Glyph.setField "height" (.val v) g = { g with height := v } := rfl
theorem sf_note (v : Val) (g : Glyph) : Glyph.setField "note" (.val v) g = { g with note := v } := rfl
theorem sf_lib (d : Dict) (g : Glyph) : Glyph.setField "lib" (.dict d) g = g.setLib d := rfl
theorem sf_tempLib (d : Dict) (g : Glyph) : Glyph.setField "tempLib" (.dict d) g = g.setTempLib d := rfl
theorem sf_shallow (l : List PenRec) (g : Glyph) :
    Glyph.setField "_shallowLoadedContours" (.shallow l) g = g.setShallow l := rfl
theorem sf_contours (l) (g : Glyph) : Glyph.setField "_contours" (.contours l) g = g.setContours l := rfl
theorem sf_components (l) (g : Glyph) : Glyph.setField "components" (.dicts l) g = g.setComponents l := rfl
theorem sf_guidelines (l) (g : Glyph) : Glyph.setField "guidelines" (.dicts l) g = g.setGuidelines l := rfl
theorem sf_anchors (l) (g : Glyph) : Glyph.setField "anchors" (.dicts l) g = g.setAnchors l := rfl
theorem sf_image (d : Dict) (g : Glyph) : Glyph.setField "image" (.dict d) g = g.setImage d := rfl

theorem fullyLoad_noShallow (g : Glyph) (h : g.shallow = none) : g.fullyLoad = g := by
  simp [Glyph.fullyLoad, h]

theorem setContours_ser (g : Glyph) (cs : List Contour) (h : g.shallow = none) :
    g.setContours (cs.map (Contour.ser none none)) =
      { g with reg := g.reg.addAll (cs.flatMap Contour.ids),
               contours := g.contours ++ cs.map (Contour.rebuilt g.disp) } := by
  unfold Glyph.setContours
  rw [buildContours_ser]
  cases cs with
  | nil => simp
  | cons c cs =>
    simp only [List.map_cons]
    rw [fullyLoad_noShallow _ (by simpa using h)]
    simp [Contour.rebuilt]

theorem setComponents_ser (g : Glyph) (cs : List Component) :
    g.setComponents (cs.map (Component.ser none none)) =
      { g with reg := g.reg.addAll (cs.map (·.ident)),
               components := g.components ++ cs.map (Component.rebuilt g.disp) } := by
  unfold Glyph.setComponents
  rw [buildComponents_ser]
  simp [Component.rebuilt]

theorem setGuidelines_items (g : Glyph) (ds : List DictObj) :
    g.setGuidelines (ds.map (·.items)) =
      { g with reg := g.reg.addAll (ds.map dictIdent),
               guidelines := ds.map (fun a => { Guideline.build a.items with observed := g.disp }) } := by
  unfold Glyph.setGuidelines
  rw [buildDicts_eq _ _ guideline_ofDict]
  simp [List.map_map, Function.comp_def]
  rfl

theorem setAnchors_items (g : Glyph) (ds : List DictObj) :
    g.setAnchors (ds.map (·.items)) =
      { g with reg := g.reg.addAll (ds.map dictIdent),
               anchors := ds.map (fun a => { Anchor.build a.items with observed := g.disp }) } := by
  unfold Glyph.setAnchors
  rw [buildDicts_eq _ _ anchor_ofDict]
  simp [List.map_map, Function.comp_def]
  rfl

theorem setImage_fresh (g : Glyph) (d : Dict) (h : g.image = none) :
    g.setImage d =
      { g with image := some { items := copyImage (dictUpdate imageDefaults d) imageDefaults,
                               parent := true, observed := g.disp } } := by
  simp [Glyph.setImage, h, freshImage]

theorem glyph_rebuild_full (g t : Glyph) (ht : t.Fresh) (hw : g.DictsWF) (hs : g.shallow = none) :
    Glyph.deser (g.ser none none) t = Glyph.rebuiltFrom g t := by
  unfold Glyph.deser Glyph.ser
  rw [glyph_clear_fresh t ht]
  obtain ⟨h1, h2, h3, h4, h5, h6, h7⟩ := ht
  simp only [applySetters, glyphSetters, List.foldl_cons, List.foldl_nil]
  simp only [setStep, get?_serializeWith, glyphGetters, glyphAltKey, glyphGetAlt, hs, excluded_none]
  simp only [Option.isSome_none, Bool.false_eq_true, ↓reduceIte, List.cons_append, List.nil_append, List.mem_cons,
    String.reduceEq, or_false, or_true, and_true, List.mem_nil_iff, Glyph.getField]
  rw [sf_name, sf_unicodes, sf_width, sf_height, sf_note, sf_lib, sf_tempLib, sf_contours, sf_components,
    sf_guidelines, sf_anchors, sf_image]
  rw [dictObj_ser _ hw.lib, dictObj_ser _ hw.tempLib, dictObj_ser _ hw.image.1,
    map_ser_dicts _ hw.anchors, map_ser_dicts _ hw.guidelines]
  rw [setContours_ser _ _ (by simpa [Glyph.setLib, Glyph.setTempLib] using h1), setComponents_ser, setGuidelines_items,
    setAnchors_items, setImage_fresh _ _ (by simpa [Glyph.setLib, Glyph.setTempLib] using h6)]
  cases t
  simp only at h1 h2 h3 h4 h5 h6 h7
  subst h1 h2 h3 h4 h5 h6 h7
  simp [Glyph.rebuiltFrom, Glyph.setLib, Glyph.setTempLib, dictUpdate_nil _ hw.lib, dictUpdate_nil _ hw.tempLib, hs,
    Glyph.regIds, Reg.addAll_append, Glyph.imageObj]

theorem glyph_rebuild_shallow (g t : Glyph) (ht : t.Fresh) (hw : g.DictsWF) (l : List PenRec)
    (hs : g.shallow = some l) :
    Glyph.deser (g.ser none none) t = Glyph.rebuiltFrom g t := by
  unfold Glyph.deser Glyph.ser
  rw [glyph_clear_fresh t ht]
  obtain ⟨h1, h2, h3, h4, h5, h6, h7⟩ := ht
  simp only [applySetters, glyphSetters, List.foldl_cons, List.foldl_nil]
  simp only [setStep, get?_serializeWith, glyphGetters, glyphAltKey, glyphGetAlt, hs, excluded_none]
  simp only [Option.isSome_some, ↓reduceIte, List.cons_append, List.nil_append, List.mem_cons,
    String.reduceEq, or_false, or_true, and_true, List.mem_nil_iff, Glyph.getField, hs, Option.map_some]
  rw [sf_name, sf_unicodes, sf_width, sf_height, sf_note, sf_lib, sf_tempLib, sf_shallow, sf_components,
    sf_guidelines, sf_anchors, sf_image]
  rw [dictObj_ser _ hw.lib, dictObj_ser _ hw.tempLib, dictObj_ser _ hw.image.1,
    map_ser_dicts _ hw.anchors, map_ser_dicts _ hw.guidelines]
  rw [setComponents_ser, setGuidelines_items,
    setAnchors_items, setImage_fresh _ _ (by simpa [Glyph.setLib, Glyph.setTempLib, Glyph.setShallow] using h6)]
  cases t
  simp only at h1 h2 h3 h4 h5 h6 h7
  subst h1 h2 h3 h4 h5 h6 h7
  simp [Glyph.rebuiltFrom, Glyph.setLib, Glyph.setTempLib, dictUpdate_nil _ hw.lib, dictUpdate_nil _ hw.tempLib, hs,
    Glyph.regIds, Reg.addAll_append, Glyph.imageObj, Glyph.setShallow]

/-- `setDataFromSerialization(g.getDataForSerialization())` on a new glyph, as one explicit record -/
theorem glyph_rebuild (g t : Glyph) (ht : t.Fresh) (hw : g.DictsWF) :
    Glyph.deser (g.ser none none) t = Glyph.rebuiltFrom g t := by
  cases hs : g.shallow with
  | none => exact glyph_rebuild_full g t ht hw hs
  | some l => exact glyph_rebuild_shallow g t ht hw l hs


/-! ### the rebuilt glyph says what the original says -/

attribute [local irreducible] Anchor.itemsOf Guideline.itemsOf copyImage dictUpdate

theorem DictEq.refl (d : Dict) : DictEq d d := fun _ => rfl

theorem AttrEq.trans {attrs : List String} {a b c : Dict} (h1 : AttrEq attrs a b) (h2 : AttrEq attrs b c) :
    AttrEq attrs a c := fun k hk => (h1 k hk).trans (h2 k hk)

theorem forall2_map_left {α β : Type} (R : β → α → Prop) (f : α → β) (l : List α) (h : ∀ a ∈ l, R (f a) a) :
    ListRel R (l.map f) l := by
  induction l with
  | nil => exact ListRel.nil
  | cons a l ih =>
    exact ListRel.cons (h a (by simp)) (ih (fun b hb => h b (by simp [hb])))

theorem image_rebuilt_attrs (d : Dict) (h : ImageWF d) :
    AttrEq imageAttrs (copyImage (dictUpdate imageDefaults d) imageDefaults) d := by
  intro k hk
  rw [copyImage_attrs _ _ k hk]
  exact dictGet_dictUpdate_of_contains _ _ _ h.1 (h.2 k hk)

section proj
variable (g t : Glyph)
theorem rb_name : (Glyph.rebuiltFrom g t).name = g.name := rfl
theorem rb_unicodes : (Glyph.rebuiltFrom g t).unicodes = g.unicodes := rfl
theorem rb_width : (Glyph.rebuiltFrom g t).width = g.width := rfl
theorem rb_height : (Glyph.rebuiltFrom g t).height = g.height := rfl
theorem rb_note : (Glyph.rebuiltFrom g t).note = g.note := rfl
theorem rb_lib : (Glyph.rebuiltFrom g t).lib = { items := g.lib.items, parent := true, observed := t.disp } := rfl
theorem rb_tempLib : (Glyph.rebuiltFrom g t).tempLib = { items := g.tempLib.items, parent := true, observed := false } := rfl
theorem rb_shallow : (Glyph.rebuiltFrom g t).shallow = g.shallow := rfl
theorem rb_contours : (Glyph.rebuiltFrom g t).contours =
    if g.shallow.isSome then [] else g.contours.map (Contour.rebuilt t.disp) := rfl
theorem rb_components : (Glyph.rebuiltFrom g t).components = g.components.map (Component.rebuilt t.disp) := rfl
theorem rb_guidelines : (Glyph.rebuiltFrom g t).guidelines =
    g.guidelines.map (fun a => { Guideline.build a.items with observed := t.disp }) := rfl
theorem rb_anchors : (Glyph.rebuiltFrom g t).anchors =
    g.anchors.map (fun a => { Anchor.build a.items with observed := t.disp }) := rfl
theorem rb_image : (Glyph.rebuiltFrom g t).image =
    some { items := copyImage (dictUpdate imageDefaults g.imageObj.items) imageDefaults,
           parent := true, observed := t.disp } := rfl
theorem rb_reg : (Glyph.rebuiltFrom g t).reg = (Reg.ok []).addAll g.regIds := rfl
theorem rb_disp : (Glyph.rebuiltFrom g t).disp = t.disp := rfl
theorem rb_parent : (Glyph.rebuiltFrom g t).parent = t.parent := rfl
theorem rb_observed : (Glyph.rebuiltFrom g t).observed = t.observed := rfl
end proj

theorem rebuiltFrom_obsEq (g t : Glyph) (hi : ImageWF g.imageObj.items) :
    (Glyph.rebuiltFrom g t).ObsEq g := by
  constructor
  · exact rb_name g t
  · exact rb_unicodes g t
  · exact rb_width g t
  · exact rb_height g t
  · exact rb_note g t
  · rw [rb_lib]; exact DictEq.refl _
  · rw [rb_tempLib]; exact DictEq.refl _
  · simp only [Glyph.imageObj, rb_image, Option.getD_some]
    exact image_rebuilt_attrs _ hi
  · simp only [Glyph.pens, rb_shallow, rb_contours]
    cases hs : g.shallow with
    | some l => rfl
    | none => simp [Contour.rebuilt, Contour.toPen, Function.comp_def]
  · rw [rb_shallow]
  · rw [rb_components]; simp [Component.rebuilt, Component.data, Function.comp_def]
  · rw [rb_anchors]
    exact forall2_map_left (fun (a b : DictObj) => AttrEq anchorAttrs a.items b.items) _ g.anchors
      (fun a _ => by
        have := anchor_build_attrs a.items
        exact this)
  · rw [rb_guidelines]
    exact forall2_map_left (fun (a b : DictObj) => AttrEq guidelineAttrs a.items b.items) _ g.guidelines
      (fun a _ => by
        have := guideline_build_attrs a.items
        exact this)


/-! registry -/

theorem Reg.addAll_fail (e : String) (ids : List Val) : (Reg.fail e).addAll ids = .fail e := by
  induction ids with
  | nil => rfl
  | cons i r ih => simpa [Reg.addAll_cons, Reg.add] using ih

/-- registering identifiers that are pairwise distinct and not yet registered succeeds and appends them -/
theorem Reg.addAll_ok (l ids : List Val) (h : (l ++ ids.filter (· ≠ pyNone)).Nodup) :
    (Reg.ok l).addAll ids = .ok (l ++ ids.filter (· ≠ pyNone)) := by
  induction ids generalizing l with
  | nil => simp
  | cons i r ih =>
    rw [Reg.addAll_cons]
    by_cases hi : i = pyNone
    · subst hi
      simp only [Reg.add_none]
      have : (pyNone :: r).filter (· ≠ pyNone) = r.filter (· ≠ pyNone) := by simp
      rw [this] at h ⊢
      exact ih l h
    · have hf : (i :: r).filter (· ≠ pyNone) = i :: r.filter (· ≠ pyNone) := by simp [hi]
      rw [hf] at h ⊢
      have hni : i ∉ l := by
        rw [List.nodup_append] at h
        intro hm
        exact h.2.2 i hm i (by simp) rfl
      have : (Reg.ok l).add i = .ok (l ++ [i]) := by simp [Reg.add, hi, hni]
      rw [this, ih (l ++ [i]) (by simpa using h)]
      simp

/-- … and a repeated identifier makes the rebuild raise AssertionError -/
theorem Reg.addAll_dup (l ids : List Val) (hl : l.Nodup) (h : ¬ (l ++ ids.filter (· ≠ pyNone)).Nodup) :
    (Reg.ok l).addAll ids = .fail "AssertionError" := by
  induction ids generalizing l with
  | nil => simp at h; exact absurd hl h
  | cons i r ih =>
    rw [Reg.addAll_cons]
    by_cases hi : i = pyNone
    · subst hi
      simp only [Reg.add_none]
      have : (pyNone :: r).filter (· ≠ pyNone) = r.filter (· ≠ pyNone) := by simp
      rw [this] at h
      exact ih l hl h
    · have hf : (i :: r).filter (· ≠ pyNone) = i :: r.filter (· ≠ pyNone) := by simp [hi]
      rw [hf] at h
      by_cases hm : i ∈ l
      · simp [Reg.add, hi, hm, Reg.addAll_fail]
      · have : (Reg.ok l).add i = .ok (l ++ [i]) := by simp [Reg.add, hi, hm]
        rw [this]
        apply ih
        · rw [List.nodup_append]
          exact ⟨hl, by simp, by intro a ha b hb; simp at hb; subst hb; intro e; subst e; exact hm ha⟩
        · simpa using h

/-! the full load of shallow contours -/

theorem fullyLoad_fold (l : List PenRec) (g : Glyph) :
    l.foldl (fun (g : Glyph) p =>
      { g with
        reg := g.reg.addAll p.ids
        contours := g.contours ++ [{ ident := p.ident, points := p.points, parent := true, observed := g.disp }] }) g
    = { g with reg := g.reg.addAll (l.flatMap PenRec.ids),
               contours := g.contours ++ l.map (fun p => { ident := p.ident, points := p.points, parent := true,
                                                            observed := g.disp }) } := by
  induction l generalizing g with
  | nil => simp
  | cons p r ih =>
    simp only [List.foldl_cons]
    rw [ih]
    simp [Reg.addAll_append]

theorem fullyLoad_shallow (g : Glyph) (l : List PenRec) (h : g.shallow = some l) :
    g.fullyLoad = { g with shallow := none, reg := g.reg.addAll (l.flatMap PenRec.ids),
                           contours := g.contours ++ l.map (fun p => { ident := p.ident, points := p.points,
                                                                        parent := true, observed := g.disp }) } := by
  unfold Glyph.fullyLoad
  rw [h]
  simp only
  rw [fullyLoad_fold]


/-! ### Layer -/

theorem newGlyph_fresh (disp : Bool) : (Layer.newGlyph disp).Fresh := ⟨rfl, rfl, rfl, rfl, rfl, rfl, rfl⟩

theorem glyphAdded_eq (ly : Layer) :
    ly.glyphAdded =
      { ly with ucache := if ly.disp && ly.peekAt.contains ly.glyphs.length
                          then some (ly.ucache.getD (cmapOfGlyphs ly.glyphs)) else ly.ucache } := by
  unfold Layer.glyphAdded Layer.readUnicodeData Layer.unicodeData
  split <;> rfl

theorem rebuiltEntry_fst (disp : Bool) (ng : Val × Glyph) : (Layer.rebuiltEntry disp ng).1 = ng.1 := rfl
theorem rebuiltEntry_unicodes (disp : Bool) (ng : Val × Glyph) :
    (Layer.rebuiltEntry disp ng).2.unicodes = ng.2.unicodes := rfl

theorem setGlyph_ser (ly : Layer) (n : Val) (g : Glyph) (hw : g.DictsWF) (hn : n ∉ AL.keys ly.glyphs) :
    ly.setGlyph n (g.ser none none) =
      Layer.glyphAdded
        { ly with glyphs := ly.glyphs ++ [Layer.rebuiltEntry ly.disp (n, g)],
                  err := orErr ly.err g.rebuildError,
                  ucache := cacheInsert ly.ucache n g.unicodes } := by
  unfold Layer.setGlyph
  have : ({ parent := true, disp := ly.disp } : Glyph) = Layer.newGlyph ly.disp := rfl
  rw [this, glyph_rebuild g _ (newGlyph_fresh _) hw]
  simp only [AL_set_append_fresh _ _ _ hn]
  rfl

theorem setGlyph_fold (gs : List (Val × Glyph)) (ly : Layer) (hn : (AL.keys ly.glyphs ++ AL.keys gs).Nodup)
    (hw : ∀ ng ∈ gs, ng.2.DictsWF) :
    (gs.map (fun p => (p.1, p.2.ser none none))).foldl (fun (ly : Layer) p => ly.setGlyph p.1 p.2) ly =
      { ly with glyphs := ly.glyphs ++ gs.map (Layer.rebuiltEntry ly.disp),
                err := gs.foldl (fun e ng => orErr e ng.2.rebuildError) ly.err,
                ucache := cacheAlong ly.disp ly.peekAt ly.glyphs ly.ucache (gs.map (Layer.rebuiltEntry ly.disp)) } := by
  induction gs generalizing ly with
  | nil => simp [cacheAlong]
  | cons ng gs ih =>
    obtain ⟨n, g⟩ := ng
    simp only [List.map_cons, List.foldl_cons]
    have hn1 : n ∉ AL.keys ly.glyphs := by
      rw [List.nodup_append] at hn
      intro hm
      exact hn.2.2 n hm n (by simp [AL.keys]) rfl
    rw [setGlyph_ser ly n g (hw (n, g) (by simp)) hn1, glyphAdded_eq, ih]
    · simp [cacheAlong, rebuiltEntry_fst, rebuiltEntry_unicodes]
    · simp only [AL.keys, List.map_append, List.map_cons, List.map_nil, Layer.rebuiltEntry]
      rw [List.append_assoc]
      simpa [AL.keys] using hn
    · intro ng hng; exact hw ng (by simp [hng])


theorem lf_lib (d : Dict) (ly : Layer) : Layer.setField "lib" (.dict d) ly = ly.setLib d := rfl
theorem lf_tempLib (d : Dict) (ly : Layer) : Layer.setField "tempLib" (.dict d) ly = ly.setTempLib d := rfl
theorem lf_color (v : Val) (ly : Layer) : Layer.setField "color" (.val v) ly = { ly with color := v } := rfl
theorem lf_glyphs (l) (ly : Layer) : Layer.setField "glyphs" (.glyphs l) ly = ly.setGlyphs l := rfl

/-- `setDataFromSerialization(ly.getDataForSerialization())` on a new layer, as one explicit record -/
theorem layer_rebuild (ly t : Layer) (ht : t.Fresh) (hw : ly.WF) :
    Layer.deser (ly.ser none none) t = Layer.rebuiltFrom ly t := by
  unfold Layer.deser Layer.ser
  obtain ⟨h1, h2⟩ := ht
  simp only [applySetters, layerSetters, List.foldl_cons, List.foldl_nil]
  simp only [setStep, get?_serializeWith, layerGetters, excluded_none]
  simp only [↓reduceIte, List.mem_cons, String.reduceEq, or_false, or_true, and_true, List.mem_nil_iff,
    Layer.getField]
  rw [lf_lib, lf_tempLib, lf_color, lf_glyphs]
  rw [dictObj_ser _ hw.lib, dictObj_ser _ hw.tempLib]
  unfold Layer.setGlyphs
  rw [setGlyph_fold _ _ (by simpa [Layer.setLib, Layer.setTempLib, h1, AL.keys] using hw.names) hw.glyphs]
  cases t
  simp only at h1 h2
  subst h1 h2
  simp [Layer.rebuiltFrom, Layer.setLib, Layer.setTempLib, dictUpdate_nil _ hw.lib, dictUpdate_nil _ hw.tempLib]


/-! ### LayerSet -/

theorem newLayer_fresh (disp : Bool) (pk : List Nat) (n : Val) : (LayerSet.newLayer disp pk n).Fresh := ⟨rfl, rfl⟩

theorem addLayer_ser (t : LayerSet) (n : Val) (ly : Layer) (D : Val) (hw : ly.WF) (hn : n ∉ AL.keys t.layers) :
    t.addLayer (n, ly.ser none none, decide (n = D)) =
      { t with layers := t.layers ++ [LayerSet.rebuiltEntry t.disp t.peekAt (n, ly)],
               default := if n = D then n else t.default,
               err := orErr t.err (LayerSet.rebuiltEntry t.disp t.peekAt (n, ly)).2.err } := by
  unfold LayerSet.addLayer
  have hc : AL.contains t.layers n = false := by
    rw [AL.contains_false_iff]; exact AL.get?_eq_none_of_not_mem hn
  simp only [hc, Bool.false_eq_true, ↓reduceIte]
  have : ({ name := n, parent := true, observed := t.disp, disp := t.disp, peekAt := t.peekAt } : Layer) = LayerSet.newLayer t.disp t.peekAt n := rfl
  rw [this, layer_rebuild ly _ (newLayer_fresh _ _ _) hw]
  simp [LayerSet.rebuiltEntry]

theorem addLayer_fold (ls0 : List (Val × Layer)) (D : Val) (t : LayerSet)
    (hn : (AL.keys t.layers ++ AL.keys ls0).Nodup) (hw : ∀ nl ∈ ls0, nl.2.WF) :
    (ls0.map (fun p => (p.1, p.2.ser none none, decide (p.1 = D)))).foldl LayerSet.addLayer t =
      { t with layers := t.layers ++ ls0.map (LayerSet.rebuiltEntry t.disp t.peekAt),
               default := ls0.foldl (fun d p => if p.1 = D then p.1 else d) t.default,
               err := ls0.foldl (fun e nl => orErr e (LayerSet.rebuiltEntry t.disp t.peekAt nl).2.err) t.err } := by
  induction ls0 generalizing t with
  | nil => simp
  | cons nl r ih =>
    obtain ⟨n, ly⟩ := nl
    simp only [List.map_cons, List.foldl_cons]
    have hn1 : n ∉ AL.keys t.layers := by
      rw [List.nodup_append] at hn
      intro hm
      exact hn.2.2 n hm n (by simp [AL.keys]) rfl
    rw [addLayer_ser t n ly D (hw (n, ly) (by simp)) hn1, ih]
    · simp
    · simp only [AL.keys, List.map_append, List.map_cons, List.map_nil, LayerSet.rebuiltEntry]
      rw [List.append_assoc]
      simpa [AL.keys] using hn
    · intro x hx; exact hw x (by simp [hx])

theorem default_fold (names : List (Val × Layer)) (D d0 : Val) :
    names.foldl (fun d p => if p.1 = D then p.1 else d) d0 = if D ∈ AL.keys names then D else d0 := by
  induction names generalizing d0 with
  | nil => simp [AL.keys]
  | cons p r ih =>
    simp only [List.foldl_cons]
    rw [ih]
    by_cases h : p.1 = D
    · simp only [h, AL.keys, ↓reduceIte, List.map_cons, List.mem_cons, true_or]
      split <;> rfl
    · have : ¬ D = p.1 := fun e => h e.symm
      simp only [h, AL.keys, ↓reduceIte, List.map_cons, List.mem_cons, this, false_or]

/-- `setDataFromSerialization(ls.getDataForSerialization())` on a new layer set, as one explicit record -/
theorem layerSet_rebuild (ls t : LayerSet) (ht : t.Fresh) (hw : ls.WF) :
    LayerSet.deser (ls.ser none none) t = LayerSet.rebuiltFrom ls t := by
  unfold LayerSet.deser LayerSet.ser
  obtain ⟨h1, h2, h3⟩ := ht
  simp only [get?_serializeWith, layerSetGetters, excluded_none, List.mem_cons, List.mem_nil_iff, or_false,
    and_true, ↓reduceIte, LayerSet.getField]
  rw [addLayer_fold _ _ _ (by simpa [h1, AL.keys] using hw.names) hw.layers, default_fold]
  cases t
  simp only at h1 h2 h3
  subst h1 h2 h3
  simp [LayerSet.rebuiltFrom]


/-! ### Font -/

section ff
variable (f : Font)
theorem ff_fmt (v : Val) : Font.setField "_ufoFormatVersion" (.val v) f = { f with fmt := v } := rfl
theorem ff_maps (v : Val) : Font.setField "_kerningGroupConversionRenameMaps" (.val v) f = { f with maps := v } := rfl
theorem ff_data (d : Dict) : Font.setField "data" (.dict d) f = { f with data := newFileSet d } := rfl
theorem ff_features (d : Dict) : Font.setField "features" (.dict d) f =
    { f with features := Features.deser d { f.features with parent := true, observed := true } } := rfl
theorem ff_groups (d : Dict) : Font.setField "groups" (.dict d) f = { f with groups := updateWired f.groups d } := rfl
theorem ff_images (d : Dict) : Font.setField "images" (.dict d) f = { f with images := newFileSet d } := rfl
theorem ff_info (d : Dict) : Font.setField "info" (.dict d) f = { f with info := Info.deser d (wired f.info) } := rfl
theorem ff_kerning (d : Dict) : Font.setField "kerning" (.dict d) f = { f with kerning := updateWired f.kerning d } := rfl
theorem ff_layers (d) : Font.setField "layers" (.layers d) f = { f with layers := newLayerSet f.layers.peekAt d } := rfl
theorem ff_lib (d : Dict) : Font.setField "lib" (.dict d) f = { f with lib := updateWired f.lib d } := rfl
theorem ff_tempLib (d : Dict) : Font.setField "tempLib" (.dict d) f =
    { f with tempLib := ({ f.tempLib with parent := true }).deser d } := rfl
theorem ff_guidelines (l) : Font.setField "guidelines" (.dicts l) f = f.setGuidelines l := rfl
end ff

theorem newFileSet_ser (o : DictObj) (h : DictWF o.items) :
    newFileSet (o.ser none none) = { items := o.items, parent := true, observed := true } := by
  unfold newFileSet
  rw [dictObj_ser o h]
  have := fileSet_deser_items o.items { parent := true, observed := true } h
  simp only [FileSet.deser] at this ⊢
  rw [this]

theorem updateWired_ser (t o : DictObj) (h : DictWF o.items) :
    updateWired t (o.ser none none) = { items := o.items, parent := true, observed := true } := by
  unfold updateWired
  rw [dictObj_ser o h]
  simp [DictObj.deser, wired, dictUpdate_nil _ h]

theorem features_rebuild (f t : Features) :
    Features.deser (f.ser none none) t = { t with text := f.text } := by
  simp [Features.deser, Features.ser, get?_serializeWith, featuresGetters, excluded_none, Features.getField]

theorem newLayerSet_ser (pk : List Nat) (ls : LayerSet) (hw : ls.WF) :
    newLayerSet pk (ls.ser none none) =
      LayerSet.rebuiltFrom ls { parent := true, observed := true, disp := true, peekAt := pk } := by
  unfold newLayerSet
  exact layerSet_rebuild ls _ ⟨rfl, rfl, rfl⟩ hw

theorem font_setGuidelines (f : Font) (ds : List DictObj) (h1 : f.guidelines = []) :
    f.setGuidelines (ds.map (·.items)) =
      { f with reg := f.reg.addAll (ds.map dictIdent),
               guidelines := ds.map (fun a => { Guideline.build a.items with observed := true }) } := by
  unfold Font.setGuidelines
  simp only [buildDicts_eq _ _ guideline_ofDict, h1, List.reverse_nil, List.foldl_nil, List.map_map, Function.comp_def]
  rfl

/-- `setDataFromSerialization(f.getDataForSerialization())` on a new font, as one explicit record -/
theorem font_rebuild (f t : Font) (ht : t.Fresh) (hw : f.WF) :
    Font.deser (f.ser none none) t = Font.rebuiltFrom f t := by
  unfold Font.deser Font.ser
  obtain ⟨h1, h2, h3⟩ := ht
  simp only [applySetters, fontSetters, List.foldl_cons, List.foldl_nil]
  simp only [setStep, get?_serializeWith, fontGetters, excluded_none]
  simp only [↓reduceIte, List.mem_cons, String.reduceEq, or_false, or_true, and_true, List.mem_nil_iff,
    Font.getField]
  cases t
  simp only at h1 h2 h3
  subst h1 h2
  simp only [ff_fmt, ff_maps, ff_data, ff_features, ff_groups, ff_images, ff_info, ff_kerning, ff_layers, ff_lib,
    ff_tempLib, ff_guidelines, map_ser_dicts _ hw.guidelines, font_setGuidelines,
    newFileSet_ser _ hw.data, newFileSet_ser _ hw.images, features_rebuild, newLayerSet_ser _ _ hw.layers,
    updateWired_ser _ _ hw.groups, updateWired_ser _ _ hw.kerning, updateWired_ser _ _ hw.lib,
    dictObj_ser _ hw.tempLib]
  simp [Font.rebuiltFrom, DictObj.deser, dictUpdate_nil _ hw.tempLib]


/-! Info: independent generated properties -/

theorem info_setProp_ne (k k' : String) (v : Val) (i : DictObj) (h : k ≠ k') :
    dictGet (Info.setProp k v i).items k' = dictGet i.items k' := by
  unfold Info.setProp
  split
  · rfl
  · exact dictGet_set_ne _ _ _ _ h

theorem info_setProp_self (k : String) (v : Val) (i : DictObj) (hv : v ≠ pyNone) :
    dictGet (Info.setProp k v i).items k = v := by
  unfold Info.setProp
  split
  · assumption
  · simp [dictGet_set_self]

theorem info_applySetters (data : Dict) (hd : ∀ k v, AL.get? data k = some v → v ≠ pyNone)
    (ks : List String) (t : DictObj) (k : String) :
    dictGet (applySetters Info.setProp data ks t).items k =
      if k ∈ ks then (match AL.get? data k with | some v => v | none => dictGet t.items k)
      else dictGet t.items k := by
  unfold applySetters
  induction ks generalizing t with
  | nil => simp
  | cons k0 r ih =>
    simp only [List.foldl_cons]
    rw [ih]
    by_cases e : k0 = k
    · subst e
      simp only [List.mem_cons, true_or, if_true]
      cases hg : AL.get? data k0 with
      | none => simp [setStep, hg]
      | some v => simp [setStep, hg, info_setProp_self _ _ _ (hd _ _ hg)]
    · have hstep : dictGet (setStep Info.setProp data t k0).items k = dictGet t.items k := by
        unfold setStep
        split
        · exact info_setProp_ne _ _ _ _ e
        · rfl
      have e' : ¬ k = k0 := fun x => e x.symm
      simp only [List.mem_cons, e', false_or, hstep]

theorem info_ser_get (i : DictObj) (k : String) :
    AL.get? (Info.ser none none i) k =
      if k ∈ AL.keys infoProperties ∧ dictGet i.items k ≠ pyNone then AL.get? i.items k else none := by
  unfold Info.ser
  rw [get?_serializeWith]
  simp [excluded_none, List.mem_filter]

/-- every Info property reads the same after the round trip into a new Info -/
theorem info_roundtrip (i t : DictObj) (hw : InfoWF i) (ht : ∀ k, dictGet t.items k = Info.default k)
    (k : String) (hk : k ∈ AL.keys infoProperties) :
    dictGet (Info.deser (Info.ser none none i) t).items k = dictGet i.items k := by
  unfold Info.deser
  rw [info_applySetters]
  · simp only [hk, if_true]
    rw [info_ser_get]
    by_cases hn : dictGet i.items k = pyNone
    · simp only [hk, hn, ne_eq, not_true_eq_false, and_false, if_false]
      rw [ht k, hw.none_is_default k hk hn]
    · simp only [hk, hn, ne_eq, not_false_eq_true, and_self, if_true]
      unfold dictGet at hn ⊢
      cases hg : AL.get? i.items k with
      | none => simp [hg] at hn
      | some v => simp
  · intro k' v hv
    rw [info_ser_get] at hv
    split at hv
    · rename_i hc
      intro hvn
      apply hc.2
      simp [dictGet, hv, hvn]
    · simp at hv


/-! ### wiring of the rebuilt glyph -/

theorem rebuiltFrom_childrenWired (g t : Glyph) : (Glyph.rebuiltFrom g t).ChildrenWired := by
  constructor
  · intro c hc
    rw [rb_contours] at hc
    rw [rb_disp]
    split at hc
    · simp at hc
    · simp only [List.mem_map] at hc
      obtain ⟨c0, _, rfl⟩ := hc
      exact ⟨rfl, rfl⟩
  · intro c hc
    rw [rb_components] at hc
    simp only [List.mem_map] at hc
    obtain ⟨c0, _, rfl⟩ := hc
    exact ⟨rfl, rfl⟩
  · intro c hc
    rw [rb_anchors] at hc
    simp only [List.mem_map] at hc
    obtain ⟨c0, _, rfl⟩ := hc
    exact ⟨rfl, rfl⟩
  · intro c hc
    rw [rb_guidelines] at hc
    simp only [List.mem_map] at hc
    obtain ⟨c0, _, rfl⟩ := hc
    exact ⟨rfl, rfl⟩
  · rw [rb_lib]; exact ⟨rfl, rfl⟩
  · rw [rb_tempLib]
  · intro i hi
    rw [rb_image] at hi
    cases hi
    exact ⟨rfl, rfl⟩

theorem rebuiltFrom_loaded_childrenWired (g t : Glyph) : (Glyph.rebuiltFrom g t).fullyLoad.ChildrenWired := by
  cases hs : g.shallow with
  | none =>
    rw [fullyLoad_noShallow _ (by rw [rb_shallow]; exact hs)]
    exact rebuiltFrom_childrenWired g t
  | some l =>
    rw [fullyLoad_shallow _ l (by rw [rb_shallow]; exact hs)]
    have h0 := rebuiltFrom_childrenWired g t
    constructor
    · intro c hc
      simp only [rb_contours, hs, Option.isSome_some, if_true, List.nil_append, List.mem_map] at hc
      obtain ⟨c0, _, rfl⟩ := hc
      exact ⟨rfl, rfl⟩
    · exact h0.components
    · exact h0.anchors
    · exact h0.guidelines
    · exact h0.lib
    · exact h0.tempLib
    · exact h0.image

theorem imageObj_observed (g : Glyph) (h : g.ChildrenWired) : g.imageObj.observed = g.disp := by
  unfold Glyph.imageObj
  cases hi : g.image with
  | none => rfl
  | some i => exact (h.image i hi).2

theorem mem_idx {α : Type} (l : List α) (x : String × α) (h : x ∈ idx l) : x.2 ∈ l := by
  unfold idx at h
  simp only [List.mem_map] at h
  obtain ⟨p, hp, rfl⟩ := h
  exact (List.mem_zipIdx hp).2.2 ▸ List.getElem_mem _

theorem glyph_propagation_true (g : Glyph) (p : String) (hw : g.Wired) :
    ∀ pb ∈ g.propagation p true, pb.2 = true := by
  intro pb hpb
  have hl := hw.loaded
  have hd : g.fullyLoad.disp = g.disp := by
    unfold Glyph.fullyLoad
    cases hs : g.shallow with
    | none => rfl
    | some l => simp only; rw [fullyLoad_fold]
  simp only [Glyph.propagation, hw.observed, Bool.and_self, Bool.true_and, List.mem_append, List.mem_cons,
    List.mem_map, List.mem_nil_iff, or_false] at hpb
  rcases hpb with (((((rfl | rfl | rfl) | ⟨ic, hic, rfl⟩) | ⟨ic, hic, rfl⟩) | ⟨ic, hic, rfl⟩) | ⟨ic, hic, rfl⟩)
  · rfl
  · simp [hw.children.lib.2, hw.disp]
  · simp [imageObj_observed g hw.children, hw.disp]
  · simp [(hl.contours _ (mem_idx _ _ hic)).2, hd, hw.disp]
  · simp [(hl.components _ (mem_idx _ _ hic)).2, hd, hw.disp]
  · simp [(hl.anchors _ (mem_idx _ _ hic)).2, hd, hw.disp]
  · simp [(hl.guidelines _ (mem_idx _ _ hic)).2, hd, hw.disp]

theorem layer_propagation_true (ly : Layer) (p : String) (hw : ly.Wired) :
    ∀ pb ∈ ly.propagation p true, pb.2 = true := by
  intro pb hpb
  simp only [Layer.propagation, hw.observed, Bool.and_self, Bool.true_and, List.mem_append, List.mem_cons,
    List.mem_flatMap, List.mem_nil_iff, or_false] at hpb
  rcases hpb with ((rfl | rfl) | ⟨ng, hng, hm⟩)
  · rfl
  · exact hw.lib.2
  · exact glyph_propagation_true ng.2 _ (hw.glyphs ng hng) pb hm

theorem layerSet_propagation_true (ls : LayerSet) (p : String) (hw : ls.Wired) :
    ∀ pb ∈ ls.propagation p true, pb.2 = true := by
  intro pb hpb
  simp only [LayerSet.propagation, List.mem_flatMap] at hpb
  obtain ⟨nl, hnl, hm⟩ := hpb
  exact layer_propagation_true nl.2 _ (hw.layers nl hnl) pb hm

theorem font_propagation_true (f : Font) (hw : f.Wired) : ∀ pb ∈ f.propagation, pb.2 = true := by
  intro pb hpb
  simp only [Font.propagation, List.mem_append, List.mem_cons, List.mem_map, List.mem_nil_iff, or_false,
    hw.layers.observed] at hpb
  rcases hpb with (((rfl | rfl | rfl | rfl | rfl | rfl | rfl) | hm) | ⟨ic, hic, rfl⟩)
  · exact hw.features.2
  · exact hw.data.2
  · exact hw.images.2
  · exact hw.groups.2
  · exact hw.kerning.2
  · exact hw.lib.2
  · exact hw.info.2
  · exact layerSet_propagation_true _ _ hw.layers pb hm
  · exact (hw.guidelines _ (mem_idx _ _ hic)).2

/-! ### wiring of rebuilt layers, layer sets, fonts -/

theorem rebuiltEntry_wired (ng : Val × Glyph) : (Layer.rebuiltEntry true ng).2.Wired := by
  have h1 := rebuiltFrom_childrenWired ng.2 (Layer.newGlyph true)
  have h2 := rebuiltFrom_loaded_childrenWired ng.2 (Layer.newGlyph true)
  refine ⟨rfl, rfl, rfl, ?_, ?_⟩
  · exact ⟨h1.contours, h1.components, h1.anchors, h1.guidelines, h1.lib, h1.tempLib, h1.image⟩
  · have e : ({ Glyph.rebuiltFrom ng.2 (Layer.newGlyph true) with name := ng.1, observed := true } : Glyph).fullyLoad
        = { (Glyph.rebuiltFrom ng.2 (Layer.newGlyph true)).fullyLoad with name := ng.1, observed := true } := by
      cases hs : ng.2.shallow with
      | none =>
        rw [fullyLoad_noShallow _ (by rw [rb_shallow]; exact hs), fullyLoad_noShallow _ (by show _ = none; rw [rb_shallow]; exact hs)]
      | some l =>
        rw [fullyLoad_shallow _ l (by rw [rb_shallow]; exact hs), fullyLoad_shallow _ l (by show _ = some l; rw [rb_shallow]; exact hs)]
    unfold Layer.rebuiltEntry
    simp only
    rw [e]
    exact ⟨h2.contours, h2.components, h2.anchors, h2.guidelines, h2.lib, h2.tempLib, h2.image⟩

theorem layer_rebuiltFrom_wired (ly t : Layer) (hp : t.parent = true) (ho : t.observed = true) (hd : t.disp = true) :
    (Layer.rebuiltFrom ly t).Wired := by
  refine ⟨hp, ho, ⟨rfl, hd⟩, rfl, ?_⟩
  intro ng hng
  simp only [Layer.rebuiltFrom, List.mem_map] at hng
  obtain ⟨ng0, _, rfl⟩ := hng
  rw [hd]
  exact rebuiltEntry_wired ng0

theorem layerSet_rebuiltFrom_wired (ls t : LayerSet) (hp : t.parent = true) (ho : t.observed = true)
    (hd : t.disp = true) : (LayerSet.rebuiltFrom ls t).Wired := by
  refine ⟨hp, ho, ?_⟩
  intro nl hnl
  simp only [LayerSet.rebuiltFrom, List.mem_map] at hnl
  obtain ⟨nl0, _, rfl⟩ := hnl
  rw [hd]
  exact layer_rebuiltFrom_wired nl0.2 _ rfl rfl rfl

theorem info_deser_flags (d : Dict) (i : DictObj) :
    (Info.deser d i).parent = i.parent ∧ (Info.deser d i).observed = i.observed := by
  unfold Info.deser applySetters
  generalize AL.keys infoProperties = ks
  induction ks generalizing i with
  | nil => exact ⟨rfl, rfl⟩
  | cons k r ih =>
    simp only [List.foldl_cons]
    have hs : (setStep Info.setProp d i k).parent = i.parent ∧ (setStep Info.setProp d i k).observed = i.observed := by
      unfold setStep
      split
      · unfold Info.setProp
        split <;> exact ⟨rfl, rfl⟩
      · exact ⟨rfl, rfl⟩
    have := ih (setStep Info.setProp d i k)
    exact ⟨this.1.trans hs.1, this.2.trans hs.2⟩

theorem font_rebuiltFrom_wired (f t : Font) : (Font.rebuiltFrom f t).Wired := by
  refine ⟨⟨rfl, rfl⟩, ⟨rfl, rfl⟩, ⟨rfl, rfl⟩, ⟨rfl, rfl⟩, ⟨rfl, rfl⟩, ⟨rfl, rfl⟩, rfl, ?_, ?_, ?_⟩
  · have := info_deser_flags (Info.ser none none f.info) (wired t.info)
    exact ⟨this.1, this.2⟩
  · exact layerSet_rebuiltFrom_wired f.layers _ rfl rfl rfl
  · intro a ha
    simp only [Font.rebuiltFrom, List.mem_map] at ha
    obtain ⟨a0, _, rfl⟩ := ha
    exact ⟨rfl, rfl⟩

/-! ### equal observable data, lifted -/

theorem listRel_map_left {α β : Type} (R : β → α → Prop) (f : α → β) (l : List α) (h : ∀ a ∈ l, R (f a) a) :
    ListRel R (l.map f) l := forall2_map_left R f l h

theorem layer_rebuiltFrom_obsEq (ly t : Layer) (hw : ly.WF) : (Layer.rebuiltFrom ly t).ObsEq ly := by
  refine ⟨rfl, DictEq.refl _, DictEq.refl _, ?_⟩
  show ListRel _ (ly.glyphs.map (Layer.rebuiltEntry t.disp)) ly.glyphs
  apply listRel_map_left
  intro ng hng
  refine ⟨rfl, ?_⟩
  have h := rebuiltFrom_obsEq ng.2 (Layer.newGlyph t.disp) (hw.glyphs ng hng).image
  exact ⟨(hw.keyed ng hng).symm, h.unicodes, h.width, h.height, h.note, h.lib, h.tempLib, h.image, h.pens,
    h.loadState, h.components, h.anchors, h.guidelines⟩

theorem layerSet_rebuiltFrom_obsEq (ls t : LayerSet) (hw : ls.WF) (hd : ls.default ∈ AL.keys ls.layers ∨ ls.default = pyNone) :
    (LayerSet.rebuiltFrom ls t).ObsEq ls := by
  refine ⟨?_, ?_⟩
  · show ListRel _ (ls.layers.map (LayerSet.rebuiltEntry t.disp t.peekAt)) ls.layers
    apply listRel_map_left
    intro nl hnl
    exact ⟨rfl, layer_rebuiltFrom_obsEq nl.2 _ (hw.layers nl hnl)⟩
  · show (if ls.default ∈ AL.keys ls.layers then ls.default else pyNone) = ls.default
    rcases hd with h | h
    · simp [h]
    · split
      · rfl
      · exact h.symm

theorem font_rebuiltFrom_obsEq (f t : Font) (hw : f.WF) (ht : t.Fresh) : (Font.rebuiltFrom f t).ObsEq f := by
  refine ⟨rfl, rfl, DictEq.refl _, DictEq.refl _, rfl, DictEq.refl _, DictEq.refl _, DictEq.refl _, DictEq.refl _,
    ?_, ?_, ?_⟩
  · intro k hk
    exact info_roundtrip f.info (wired t.info) hw.info ht.info k hk
  · exact layerSet_rebuiltFrom_obsEq f.layers _ hw.layers hw.layers.default
  · show ListRel _ (f.guidelines.map _) f.guidelines
    apply listRel_map_left
    intro a _
    have := guideline_build_attrs a.items
    exact this


/-! ### identifier registries of the rebuilt objects -/

theorem rebuiltFrom_loaded_reg (g t : Glyph) (hn : g.usedIds.Nodup) :
    (Glyph.rebuiltFrom g t).fullyLoad.reg = .ok g.usedIds := by
  unfold Glyph.usedIds at hn ⊢
  cases hs : g.shallow with
  | none =>
    rw [fullyLoad_noShallow _ (by rw [rb_shallow]; exact hs), rb_reg]
    simp only [hs, List.append_nil] at hn ⊢
    have := Reg.addAll_ok [] g.regIds (by simpa using hn)
    simpa using this
  | some l =>
    rw [fullyLoad_shallow _ l (by rw [rb_shallow]; exact hs)]
    simp only [rb_reg, hs] at hn ⊢
    rw [← Reg.addAll_append]
    have := Reg.addAll_ok [] (g.regIds ++ l.flatMap PenRec.ids) (by simpa using hn)
    simpa using this

theorem nodup_filter_of_append_left {l1 l2 : List Val} (h : ((l1 ++ l2).filter (· ≠ pyNone)).Nodup) :
    (l1.filter (· ≠ pyNone)).Nodup := by
  rw [List.filter_append, List.nodup_append] at h
  exact h.1

theorem rebuildError_none (g : Glyph) (hn : g.usedIds.Nodup) : g.rebuildError = none := by
  unfold Glyph.rebuildError
  have h1 : (g.regIds.filter (· ≠ pyNone)).Nodup := nodup_filter_of_append_left hn
  rw [Reg.addAll_ok [] g.regIds (by simpa using h1)]
  rfl

theorem foldl_orErr_none {α : Type} (l : List α) (f : α → Option String) (h : ∀ a ∈ l, f a = none) :
    l.foldl (fun e a => orErr e (f a)) none = none := by
  induction l with
  | nil => rfl
  | cons a r ih =>
    simp only [List.foldl_cons, h a (by simp), orErr]
    exact ih (fun b hb => h b (by simp [hb]))

theorem layer_rebuiltFrom_err (ly t : Layer) (hn : ly.IdsWF) : (Layer.rebuiltFrom ly t).err = none := by
  show ly.glyphs.foldl (fun e ng => orErr e ng.2.rebuildError) none = none
  exact foldl_orErr_none _ _ (fun ng hng => rebuildError_none ng.2 (hn ng hng))

theorem layerSet_rebuiltFrom_err (ls t : LayerSet) (hn : ls.IdsWF) : (LayerSet.rebuiltFrom ls t).err = none := by
  show ls.layers.foldl (fun e nl => orErr e (LayerSet.rebuiltEntry t.disp t.peekAt nl).2.err) none = none
  exact foldl_orErr_none _ _ (fun nl hnl => layer_rebuiltFrom_err nl.2 _ (hn nl hnl))

theorem font_rebuiltFrom_reg (f t : Font) (hn : f.usedIds.Nodup) :
    (Font.rebuiltFrom f t).reg = .ok f.usedIds := by
  show (Reg.ok []).addAll (f.guidelines.map dictIdent) = _
  have := Reg.addAll_ok [] (f.guidelines.map dictIdent) (by simpa [Font.usedIds] using hn)
  simpa [Font.usedIds] using this

theorem font_rebuiltFrom_error (f t : Font) (hg : f.layers.IdsWF) (hn : f.usedIds.Nodup) :
    (Font.rebuiltFrom f t).error = none := by
  unfold Font.error
  rw [font_rebuiltFrom_reg f t hn]
  have : (Font.rebuiltFrom f t).layers.err = none := layerSet_rebuiltFrom_err f.layers _ hg
  rw [this]
  rfl

/-! ### the unicode data of a rebuilt layer -/

theorem cmapOfGlyphs_append (a b : List (Val × Glyph)) : cmapOfGlyphs (a ++ b) = cmapOfGlyphs a ++ cmapOfGlyphs b := by
  simp [cmapOfGlyphs]

theorem cmapOfGlyphs_single (ng : Val × Glyph) :
    cmapOfGlyphs [ng] = if hasUnicodes ng.2.unicodes then [(ng.1, ng.2.unicodes)] else [] := by
  unfold cmapOfGlyphs
  split <;> simp [*]

/-- `_insertGlyph` keeps an existing unicode-data object right (and leaves a missing one missing) -/
theorem cacheInsert_ok (seen : List (Val × Glyph)) (c : Option (List (Val × Val))) (ng : Val × Glyph)
    (h : c = none ∨ c = some (cmapOfGlyphs seen)) :
    cacheInsert c ng.1 ng.2.unicodes = none ∨
    cacheInsert c ng.1 ng.2.unicodes = some (cmapOfGlyphs (seen ++ [ng])) := by
  rw [cmapOfGlyphs_append, cmapOfGlyphs_single]
  unfold cacheInsert
  rcases h with rfl | rfl
  · left; split <;> rfl
  · right; split <;> simp

/-- … whatever the observers' schedule: along `set_glyphs` the object is missing or says what the glyphs say -/
theorem cacheAlong_ok (disp : Bool) (pk : List Nat) (rest seen : List (Val × Glyph)) (c : Option (List (Val × Val)))
    (h : c = none ∨ c = some (cmapOfGlyphs seen)) :
    cacheAlong disp pk seen c rest = none ∨ cacheAlong disp pk seen c rest = some (cmapOfGlyphs (seen ++ rest)) := by
  induction rest generalizing seen c with
  | nil => simpa [cacheAlong] using h
  | cons ng rest ih =>
    simp only [cacheAlong]
    have h1 := cacheInsert_ok seen c ng h
    have := ih (seen ++ [ng])
      (if disp && pk.contains (seen ++ [ng]).length
        then some ((cacheInsert c ng.1 ng.2.unicodes).getD (cmapOfGlyphs (seen ++ [ng])))
        else cacheInsert c ng.1 ng.2.unicodes)
      (by
        split
        · right
          rcases h1 with h1 | h1 <;> simp [h1]
        · exact h1)
    simpa [List.append_assoc] using this

/-- an object that exists stays (a read never drops it, an insertion never drops it) -/
theorem cacheAlong_isSome (disp : Bool) (pk : List Nat) (rest seen : List (Val × Glyph)) (c : Option (List (Val × Val)))
    (h : c.isSome) : (cacheAlong disp pk seen c rest).isSome := by
  induction rest generalizing seen c with
  | nil => simpa [cacheAlong] using h
  | cons ng rest ih =>
    simp only [cacheAlong]
    apply ih
    have h1 : (cacheInsert c ng.1 ng.2.unicodes).isSome := by
      unfold cacheInsert
      split <;> simp [h]
    split
    · rfl
    · exact h1

theorem cmapOfGlyphs_rebuilt (disp : Bool) (gs : List (Val × Glyph)) :
    cmapOfGlyphs (gs.map (Layer.rebuiltEntry disp)) = cmapOfGlyphs gs := by
  induction gs with
  | nil => rfl
  | cons ng gs ih =>
    have e : ∀ (x : Val × Glyph) (l : List (Val × Glyph)), x :: l = [x] ++ l := fun _ _ => rfl
    rw [List.map_cons, e _ (gs.map _), e ng gs, cmapOfGlyphs_append, cmapOfGlyphs_append, ih, cmapOfGlyphs_single,
      cmapOfGlyphs_single, rebuiltEntry_fst, rebuiltEntry_unicodes]

/-- the rebuilt layer's unicode-data object is missing or right … -/
theorem layer_rebuiltFrom_cacheOK (ly t : Layer) (hc : t.ucache = none ∨ t.ucache = some []) :
    (Layer.rebuiltFrom ly t).CacheOK := by
  have := cacheAlong_ok t.disp t.peekAt (ly.glyphs.map (Layer.rebuiltEntry t.disp)) [] t.ucache
    (by simpa [cmapOfGlyphs] using hc)
  simpa [Layer.CacheOK, Layer.rebuiltFrom] using this

/-- … so `layer.unicodeData` answers what the ORIGINAL's glyphs say -/
theorem layer_rebuiltFrom_unicodeData (ly t : Layer) (hc : t.ucache = none ∨ t.ucache = some []) :
    (Layer.rebuiltFrom ly t).unicodeData = cmapOfGlyphs ly.glyphs := by
  have h := layer_rebuiltFrom_cacheOK ly t hc
  have hg : (Layer.rebuiltFrom ly t).glyphs = ly.glyphs.map (Layer.rebuiltEntry t.disp) := rfl
  unfold Layer.CacheOK at h
  unfold Layer.unicodeData
  rcases h with h | h <;> simp [h, hg, cmapOfGlyphs_rebuilt]

theorem layer_rebuiltFrom_built (ly t : Layer) (hc : t.ucache = some []) :
    (Layer.rebuiltFrom ly t).ucache = some (cmapOfGlyphs ly.glyphs) := by
  have h := layer_rebuiltFrom_cacheOK ly t (Or.inr hc)
  have hs : ((Layer.rebuiltFrom ly t).ucache).isSome :=
    cacheAlong_isSome t.disp t.peekAt _ [] t.ucache (by simp [hc])
  have hg : (Layer.rebuiltFrom ly t).glyphs = ly.glyphs.map (Layer.rebuiltEntry t.disp) := rfl
  unfold Layer.CacheOK at h
  rcases h with h | h
  · simp [h] at hs
  · rw [h, hg, cmapOfGlyphs_rebuilt]

theorem layerSet_rebuiltFrom_unicodeData (ls t : LayerSet) :
    (LayerSet.rebuiltFrom ls t).layers.map (fun nl => (nl.1, nl.2.unicodeData)) =
      ls.layers.map (fun nl => (nl.1, cmapOfGlyphs nl.2.glyphs)) := by
  show (ls.layers.map (LayerSet.rebuiltEntry t.disp t.peekAt)).map _ = _
  rw [List.map_map]
  apply List.map_congr_left
  intro nl _
  show (nl.1, (Layer.rebuiltFrom nl.2 (LayerSet.newLayer t.disp t.peekAt nl.1)).unicodeData) = _
  rw [layer_rebuiltFrom_unicodeData _ _ (Or.inl rfl)]


end Serial
end DefconModel
