/-
Helper lemmas for C14 (M-Serial).
-/
import DefconModel.Spec.Serial

namespace DefconModel
namespace Serial
open Gen.SerialTables

/-! ### association lists: folding `set` over a list with fresh, distinct keys appends it -/

theorem AL_set_append_fresh {α : Type} (l : List (String × α)) (k : String) (v : α) (h : k ∉ AL.keys l) :
    AL.set l k v = l ++ [(k, v)] := by
  induction l with
  | nil => rfl
  | cons p r ih =>
    obtain ⟨k', v'⟩ := p
    simp [AL.keys] at h
    have h1 : ¬ k' = k := fun e => h.1 e.symm
    simp [AL.set, h1]
    exact ih (by simpa [AL.keys] using h.2)

theorem foldl_set_append {α : Type} (d acc : List (String × α))
    (hd : (AL.keys (acc ++ d)).Nodup) :
    d.foldl (fun a p => AL.set a p.1 p.2) acc = acc ++ d := by
  induction d generalizing acc with
  | nil => simp
  | cons p r ih =>
    simp only [List.foldl_cons]
    have hk : p.1 ∉ AL.keys acc := by
      simp [AL.keys, List.nodup_append] at hd
      intro hm
      simp [AL.keys] at hm
      obtain ⟨v, hv⟩ := hm
      exact (hd.2.2 _ _ hv).1 rfl
    rw [AL_set_append_fresh acc p.1 p.2 hk]
    have : (AL.keys (acc ++ [(p.1, p.2)] ++ r)).Nodup := by simpa using hd
    rw [ih _ this]
    simp

theorem dictUpdate_nil (d : Dict) (h : DictWF d) : dictUpdate [] d = d := by
  unfold dictUpdate
  have := foldl_set_append d [] (by simpa [DictWF] using h)
  simpa using this

theorem fileSet_deser_items (d : Dict) (o : DictObj) (h : DictWF d) : (FileSet.deser d o).items = d := by
  unfold FileSet.deser
  have := foldl_set_append d [] (by simpa [DictWF] using h)
  simpa using this

/-! ### `_serialize` -/

theorem serializeWith_aux {σ δ : Type} (get : String → σ → Option δ) (wl bl : Option (List String)) (o : σ)
    (f : String → δ) (ks : List String) (acc : List (String × δ))
    (hg : ∀ k ∈ ks, get k o = some (f k)) (hn : (AL.keys acc ++ ks).Nodup) :
    ks.foldl (serStep get wl bl o) acc
      = acc ++ (ks.filter (fun k => !excluded wl bl k)).map (fun k => (k, f k)) := by
  induction ks generalizing acc with
  | nil => simp
  | cons k r ih =>
    simp only [List.foldl_cons]
    have hk : get k o = some (f k) := hg k (by simp)
    have hr : ∀ k' ∈ r, get k' o = some (f k') := fun k' h => hg k' (by simp [h])
    have hnk : k ∉ AL.keys acc := by
      rw [List.nodup_append] at hn
      intro hm
      exact hn.2.2 k hm k (by simp) rfl
    rw [List.nodup_append] at hn
    have h2 := List.nodup_cons.mp hn.2.1
    cases hx : excluded wl bl k with
    | true =>
      have : serStep get wl bl o acc k = acc := by simp [serStep, hx]
      rw [this, ih acc hr]
      · simp [hx]
      · rw [List.nodup_append]
        refine ⟨hn.1, h2.2, ?_⟩
        intro a ha b hb
        exact hn.2.2 a ha b (by simp [hb])
    | false =>
      have : serStep get wl bl o acc k = acc ++ [(k, f k)] := by
        simp [serStep, hx, hk, AL_set_append_fresh acc k (f k) hnk]
      rw [this, ih _ hr]
      · simp [hx]
      · have hkeys : AL.keys (acc ++ [(k, f k)]) = AL.keys acc ++ [k] := by simp [AL.keys]
        rw [hkeys, List.append_assoc, List.nodup_append]
        refine ⟨hn.1, ?_, ?_⟩
        · simpa using h2
        · intro a ha b hb
          simp at hb
          rcases hb with hb | hb
          · subst hb; intro e; subst e; exact hnk ha
          · exact hn.2.2 a ha b (by simp [hb])

/-- the data dictionary holds, in table order, exactly the admitted keys with their getter's value -/
theorem serializeWith_eq {σ δ : Type} (get : String → σ → Option δ) (wl bl : Option (List String)) (o : σ)
    (f : String → δ) (ks : List String) (hg : ∀ k ∈ ks, get k o = some (f k)) (hn : ks.Nodup) :
    serializeWith get wl bl o ks = (ks.filter (fun k => !excluded wl bl k)).map (fun k => (k, f k)) := by
  unfold serializeWith
  have := serializeWith_aux get wl bl o f ks [] hg (by simpa [AL.keys] using hn)
  simpa using this

theorem excluded_none (k : String) : excluded none none k = false := rfl

/-- `BaseDictObject.getDataForSerialization()` is the dictionary itself -/
theorem dictObj_ser (o : DictObj) (h : DictWF o.items) : o.ser none none = o.items := by
  unfold DictObj.ser
  rw [serializeWith_eq (fun k (o : DictObj) => AL.get? o.items k) none none o
    (fun k => (AL.get? o.items k).getD "") (AL.keys o.items) _ h]
  · simp only [excluded_none, Bool.not_false]
    have hf : (AL.keys o.items).filter (fun _ => true) = AL.keys o.items := by simp
    rw [hf]
    unfold AL.keys
    rw [List.map_map]
    conv => rhs; rw [← List.map_id o.items]
    apply List.map_congr_left
    intro p hp
    obtain ⟨k, v⟩ := p
    simp [AL.get?_of_mem_nodup h hp]
  · intro k hk
    simp [AL.keys] at hk
    obtain ⟨v, hv⟩ := hk
    simp [AL.get?_of_mem_nodup h hv]

/-! ### registry, leaf kinds -/

@[simp] theorem Reg.add_none (r : Reg) : r.add pyNone = r := by
  cases r <;> simp [Reg.add]

theorem Reg.addAll_append (r : Reg) (a b : List Val) : r.addAll (a ++ b) = (r.addAll a).addAll b := by
  simp [Reg.addAll, List.foldl_append]

@[simp] theorem Reg.addAll_nil (r : Reg) : r.addAll [] = r := rfl
theorem Reg.addAll_cons (r : Reg) (a : Val) (b : List Val) : r.addAll (a :: b) = (r.add a).addAll b := rfl

theorem component_rebuild (c t : Component) (r : Reg) (b : Bool) (ht : t.ident = pyNone) :
    Component.deser b (c.ser none none) (t, r) =
      ({ t with base := c.base, transformation := c.transformation, ident := c.ident },
       if b then r.add c.ident else r) := by
  simp [Component.deser, Component.ser, serializeWith, serStep, applySetters, setStep, componentGetters, componentSetters,
    excluded, Component.getField, Component.setField, AL.set, ht]
  intro h
  simp [h]

theorem contour_rebuild (c t : Contour) (r : Reg) (b : Bool) (ht : t.ident = pyNone) :
    Contour.deser b (c.ser none none) (t, r) =
      ({ t with ident := c.ident, points := c.points },
       if b then r.addAll c.ids else r) := by
  simp [Contour.deser, Contour.ser, serializeWith, serStep, contourGetters, excluded, Contour.getField, AL.set, ht,
    Contour.toPen, Contour.ids, Reg.addAll_cons]
  by_cases h : c.ident = pyNone
  · simp [h]
  · cases b <;> simp [h]

theorem buildContours_ser_aux (cs : List Contour) (acc : List Contour) (r : Reg) :
    (cs.map (Contour.ser none none)).foldl (fun (acc : List Contour × Reg) d =>
      let cr := Contour.deser true d ({ parent := true }, acc.2)
      (acc.1 ++ [cr.1], cr.2)) (acc, r)
    = (acc ++ cs.map (Contour.rebuilt false), r.addAll (cs.flatMap Contour.ids)) := by
  induction cs generalizing acc r with
  | nil => simp
  | cons c cs ih =>
    simp only [List.map_cons, List.foldl_cons]
    rw [contour_rebuild c _ r true rfl]
    simp only [if_true]
    rw [ih]
    simp [Contour.rebuilt, Reg.addAll_append]

theorem buildContours_ser (cs : List Contour) (r : Reg) :
    buildContours (cs.map (Contour.ser none none)) r
      = (cs.map (Contour.rebuilt false), r.addAll (cs.flatMap Contour.ids)) := by
  unfold buildContours
  simpa using buildContours_ser_aux cs [] r

theorem buildComponents_ser_aux (cs : List Component) (acc : List Component) (r : Reg) :
    (cs.map (Component.ser none none)).foldl (fun (acc : List Component × Reg) d =>
      let cr := Component.deser true d ({ parent := true }, acc.2)
      (acc.1 ++ [cr.1], cr.2)) (acc, r)
    = (acc ++ cs.map (Component.rebuilt false), r.addAll (cs.map (·.ident))) := by
  induction cs generalizing acc r with
  | nil => simp
  | cons c cs ih =>
    simp only [List.map_cons, List.foldl_cons]
    rw [component_rebuild c _ r true rfl]
    simp only [if_true]
    rw [ih]
    simp [Component.rebuilt, Reg.addAll_cons]

theorem buildComponents_ser (cs : List Component) (r : Reg) :
    buildComponents (cs.map (Component.ser none none)) r
      = (cs.map (Component.rebuilt false), r.addAll (cs.map (·.ident))) := by
  unfold buildComponents
  simpa using buildComponents_ser_aux cs [] r

/-! dict attribute setters -/

theorem dictGet_set_self (d : Dict) (k v : Val) : dictGet (AL.set d k v) k = v := by
  simp [dictGet]

theorem dictGet_set_ne (d : Dict) (k k' v : Val) (h : k ≠ k') : dictGet (AL.set d k v) k' = dictGet d k' := by
  simp [dictGet, AL.get?_set_ne _ _ _ _ h]

@[simp] theorem dictGet_setAttr_self (d : Dict) (k v : Val) : dictGet (setAttr d k v) k = v := by
  unfold setAttr
  split
  · assumption
  · exact dictGet_set_self d k v

theorem dictGet_setAttr_ne (d : Dict) (k k' v : Val) (h : k ≠ k') : dictGet (setAttr d k v) k' = dictGet d k' := by
  unfold setAttr
  split
  · rfl
  · exact dictGet_set_ne d k k' v h

theorem dictGet_erase_ne (d : Dict) (k k' : Val) (h : k ≠ k') : dictGet (AL.erase d k) k' = dictGet d k' := by
  simp [dictGet, AL.get?_erase_ne _ _ _ h]

theorem dictGet_setAttrDel_ne (d : Dict) (k k' v : Val) (h : k ≠ k') : dictGet (setAttrDel d k v) k' = dictGet d k' := by
  unfold setAttrDel
  split
  · rfl
  · split
    · exact dictGet_erase_ne d k k' h
    · exact dictGet_set_ne d k k' v h

@[simp] theorem dictGet_nil (k : Val) : dictGet [] k = pyNone := rfl

/-- on a dict where the key answers None (in particular a new one) `setAttrDel` stores the value -/
theorem dictGet_setAttrDel_self (d : Dict) (k v : Val) (h : dictGet d k = pyNone) :
    dictGet (setAttrDel d k v) k = v := by
  unfold setAttrDel
  split
  · assumption
  · split
    · rename_i h1 h2; rw [h2] at h1; exact absurd h h1
    · exact dictGet_set_self d k v

theorem anchor_ofDict (d : Dict) (r : Reg) :
    Anchor.ofDict d r = (Anchor.build d, r.add (dictGet d "identifier")) := by
  simp [Anchor.ofDict, Anchor.build, setIdent, dictGet_setAttr_ne]
  split <;> simp_all

theorem guideline_ofDict (d : Dict) (r : Reg) :
    Guideline.ofDict d r = (Guideline.build d, r.add (dictGet d "identifier")) := by
  simp [Guideline.ofDict, Guideline.build, setIdent, dictGet_setAttr_ne, dictGet_setAttrDel_ne]
  split <;> simp_all

/-- the five attribute getters of the anchor built from `d` answer what `d.get` answers -/
theorem anchor_build_attrs (d : Dict) : AttrEq anchorAttrs (Anchor.build d).items d := by
  intro k hk
  simp [anchorAttrs] at hk
  rcases hk with rfl | rfl | rfl | rfl | rfl <;>
    simp [Anchor.build, Anchor.ofDict, setIdent, dictGet_setAttr_ne] <;>
    (split <;> simp_all [dictGet_setAttr_ne, dictGet_set_ne, dictGet_set_self])

theorem guideline_build_attrs (d : Dict) : AttrEq guidelineAttrs (Guideline.build d).items d := by
  intro k hk
  simp [guidelineAttrs] at hk
  rcases hk with rfl | rfl | rfl | rfl | rfl | rfl <;>
    simp [Guideline.build, Guideline.ofDict, setIdent, dictGet_setAttr_ne, dictGet_setAttrDel_ne] <;>
    (split <;> simp_all [dictGet_setAttr_ne, dictGet_setAttrDel_ne, dictGet_set_ne, dictGet_set_self,
      dictGet_setAttrDel_self])

theorem buildDicts_aux (build : Dict → DictObj) (ds : List Dict) (acc : List DictObj) (r : Reg) :
    ds.foldl (fun (acc : List DictObj × Reg) d =>
      (acc.1 ++ [build d], acc.2.add (dictGet d "identifier"))) (acc, r)
    = (acc ++ ds.map build, r.addAll (ds.map (fun d => dictGet d "identifier"))) := by
  induction ds generalizing acc r with
  | nil => simp
  | cons d ds ih =>
    simp only [List.foldl_cons]
    rw [ih]
    simp [Reg.addAll_cons]

theorem buildDicts_eq (mk : Dict → Reg → DictObj × Reg) (build : Dict → DictObj)
    (hmk : ∀ d r, mk d r = (build d, r.add (dictGet d "identifier"))) (ds : List Dict) (r : Reg) :
    buildDicts mk ds r = (ds.map build, r.addAll (ds.map (fun d => dictGet d "identifier"))) := by
  unfold buildDicts
  have hfun : mk = fun d r => (build d, r.add (dictGet d "identifier")) := by
    funext d r; exact hmk d r
  subst hfun
  simpa using buildDicts_aux build ds [] r

/-- `dict.update`: the other dictionary's entries win -/
theorem get?_dictUpdate (b d : Dict) (k : Val) (h : DictWF d) :
    AL.get? (dictUpdate b d) k = (match AL.get? d k with | some v => some v | none => AL.get? b k) := by
  unfold dictUpdate
  induction d generalizing b with
  | nil => simp
  | cons p r ih =>
    obtain ⟨k', v'⟩ := p
    simp only [List.foldl_cons]
    have hr : DictWF r := by
      simp [DictWF, AL.keys] at h ⊢
      exact h.2
    rw [ih _ hr]
    by_cases e : k' = k
    · subst e
      have : AL.get? r k' = none := by
        apply AL.get?_eq_none_of_not_mem
        simp [DictWF, AL.keys] at h
        simpa [AL.keys] using h.1
      simp [this]
    · simp [e, AL.get?_set_ne _ _ _ _ e]

theorem dictGet_dictUpdate_of_contains (b d : Dict) (k : Val) (h : DictWF d) (hc : AL.contains d k = true) :
    dictGet (dictUpdate b d) k = dictGet d k := by
  unfold dictGet
  rw [get?_dictUpdate b d k h]
  rw [AL.contains_iff_get?] at hc
  obtain ⟨v, hv⟩ := hc
  simp [hv]

/-- `_set_image`: each of the eight entries of the glyph's image ends up as the given image says -/
theorem copyImage_attrs (temp items : Dict) : AttrEq imageAttrs (copyImage temp items) temp := by
  intro k hk
  simp [imageAttrs] at hk
  rcases hk with rfl | rfl | rfl | rfl | rfl | rfl | rfl | rfl <;>
    simp [copyImage, dictGet_setAttr_ne]

theorem get?_serFold {σ δ : Type} (get : String → σ → Option δ) (wl bl : Option (List String)) (o : σ)
    (ks : List String) (acc : List (String × δ)) (k : String) :
    AL.get? (ks.foldl (serStep get wl bl o) acc) k =
      (match (if k ∈ ks ∧ excluded wl bl k = false then get k o else none) with
       | some v => some v
       | none => AL.get? acc k) := by
  induction ks generalizing acc with
  | nil => simp
  | cons k0 r ih =>
    simp only [List.foldl_cons]
    rw [ih]
    by_cases hr : k ∈ r ∧ excluded wl bl k = false
    · have : k ∈ k0 :: r ∧ excluded wl bl k = false := ⟨by simp [hr.1], hr.2⟩
      simp only [hr, this, and_self, if_true]
      cases hg : get k o with
      | some v => rfl
      | none =>
        simp only [serStep]
        by_cases e : k0 = k
        · subst e; simp [hr.2, hg]
        · cases hx : excluded wl bl k0 with
          | true => simp
          | false =>
            cases hg0 : get k0 o with
            | none => simp
            | some v0 => simp [AL.get?_set_ne _ _ _ _ e]
    · rw [if_neg hr]
      simp only [serStep]
      by_cases e : k0 = k
      · subst e
        cases hx : excluded wl bl k0 with
        | true => simp
        | false =>
          simp
          cases hg0 : get k0 o with
          | none => simp
          | some v0 => simp
      · have : ¬ (k ∈ k0 :: r ∧ excluded wl bl k = false) := by
          intro h
          apply hr
          refine ⟨?_, h.2⟩
          have := h.1
          simp at this
          rcases this with h1 | h1
          · exact absurd h1.symm e
          · exact h1
        rw [if_neg this]
        cases hx : excluded wl bl k0 with
        | true => simp
        | false =>
          cases hg0 : get k0 o with
          | none => simp
          | some v0 => simp [AL.get?_set_ne _ _ _ _ e]

/-- looking a key up in the data dictionary: the getter's value if the key is in the table and admitted -/
theorem get?_serializeWith {σ δ : Type} (get : String → σ → Option δ) (wl bl : Option (List String)) (o : σ)
    (ks : List String) (k : String) :
    AL.get? (serializeWith get wl bl o ks) k =
      if k ∈ ks ∧ excluded wl bl k = false then get k o else none := by
  unfold serializeWith
  rw [get?_serFold]
  split <;> simp_all


/-! ### Glyph -/


theorem glyph_clear_fresh (t : Glyph) (h : t.Fresh) : t.clear = t := by
  obtain ⟨h1, h2, h3, h4, h5, h6, h7⟩ := h
  cases t
  simp_all [Glyph.clear, Glyph.fullyLoad]

theorem glyph_ser_full (g : Glyph) (hs : g.shallow = none) :
    g.ser none none =
      [("name", .val g.name), ("unicodes", .val g.unicodes), ("width", .val g.width), ("height", .val g.height),
       ("note", .val g.note), ("components", .dicts (g.components.map (Component.ser none none))),
       ("anchors", .dicts (g.anchors.map (DictObj.ser none none))),
       ("guidelines", .dicts (g.guidelines.map (DictObj.ser none none))),
       ("image", .dict (g.imageObj.ser none none)), ("lib", .dict (g.lib.ser none none)),
       ("tempLib", .dict (g.tempLib.ser none none)),
       ("_contours", .contours (g.contours.map (Contour.ser none none)))] := by
  simp [Glyph.ser, serializeWith, serStep, glyphGetters, glyphAltKey, glyphGetAlt, excluded, Glyph.getField, AL.set, hs]



theorem glyph_ser_shallow (g : Glyph) (l : List PenRec) (hs : g.shallow = some l) :
    g.ser none none =
      [("name", .val g.name), ("unicodes", .val g.unicodes), ("width", .val g.width), ("height", .val g.height),
       ("note", .val g.note), ("components", .dicts (g.components.map (Component.ser none none))),
       ("anchors", .dicts (g.anchors.map (DictObj.ser none none))),
       ("guidelines", .dicts (g.guidelines.map (DictObj.ser none none))),
       ("image", .dict (g.imageObj.ser none none)), ("lib", .dict (g.lib.ser none none)),
       ("tempLib", .dict (g.tempLib.ser none none)),
       ("_shallowLoadedContours", .shallow l)] := by
  simp [Glyph.ser, serializeWith, serStep, glyphGetters, glyphAltKey, glyphGetAlt, excluded, Glyph.getField, AL.set, hs]

theorem map_ser_dicts (l : List DictObj) (h : ∀ a ∈ l, DictWF a.items) :
    l.map (DictObj.ser none none) = l.map (·.items) := by
  apply List.map_congr_left
  intro a ha
  exact dictObj_ser a (h a ha)

theorem sf_name (v : Val) (g : Glyph) : Glyph.setField "name" (.val v) g = { g with name := v } := rfl
theorem sf_unicodes (v : Val) (g : Glyph) : Glyph.setField "unicodes" (.val v) g = { g with unicodes := v } := rfl
theorem sf_width (v : Val) (g : Glyph) : Glyph.setField "width" (.val v) g = { g with width := v } := rfl
theorem sf_height (v : Val) (g : Glyph) : Glyph.setField "height" (.val v) g = { g with height := v } := rfl
theorem sf_note (v : Val) (g : Glyph) : Glyph.setField "note" (.val v) g = { g with note := v } := rfl
theorem sf_lib (d : Dict) (g : Glyph) : Glyph.setField "lib" (.dict d) g = g.setLib d := rfl
theorem sf_tempLib (d : Dict) (g : Glyph) : Glyph.setField "tempLib" (.dict d) g = g.setTempLib d := rfl
theorem sf_shallow (l : List PenRec) (g : Glyph) :
    Glyph.setField "_shallowLoadedContours" (.shallow l) g = g.setShallow l := rfl
theorem sf_contours (l) (g : Glyph) : Glyph.setField "_contours" (.contours l) g = g.setContours l := rfl
theorem sf_components (l) (g : Glyph) : Glyph.setField "components" (.dicts l) g = g.setComponents l := rfl
theorem sf_guidelines (l) (g : Glyph) : Glyph.setField "guidelines" (.dicts l) g = g.setGuidelines l := rfl
theorem sf_anchors (l) (g : Glyph) : Glyph.setField "anchors" (.dicts l) g = g.setAnchors l := rfl
theorem sf_image (d : Dict) (g : Glyph) : Glyph.setField "image" (.dict d) g = g.setImage d := rfl

theorem fullyLoad_noShallow (g : Glyph) (h : g.shallow = none) : g.fullyLoad = g := by
  simp [Glyph.fullyLoad, h]

theorem setContours_ser (g : Glyph) (cs : List Contour) (h : g.shallow = none) :
    g.setContours (cs.map (Contour.ser none none)) =
      { g with reg := g.reg.addAll (cs.flatMap Contour.ids),
               contours := g.contours ++ cs.map (Contour.rebuilt g.disp) } := by
  unfold Glyph.setContours
  rw [buildContours_ser]
  cases cs with
  | nil => simp
  | cons c cs =>
    simp only [List.map_cons]
    rw [fullyLoad_noShallow _ (by simpa using h)]
    simp [Contour.rebuilt]

theorem setComponents_ser (g : Glyph) (cs : List Component) :
    g.setComponents (cs.map (Component.ser none none)) =
      { g with reg := g.reg.addAll (cs.map (·.ident)),
               components := g.components ++ cs.map (Component.rebuilt g.disp) } := by
  unfold Glyph.setComponents
  rw [buildComponents_ser]
  simp [Component.rebuilt]

theorem setGuidelines_items (g : Glyph) (ds : List DictObj) :
    g.setGuidelines (ds.map (·.items)) =
      { g with reg := g.reg.addAll (ds.map dictIdent),
               guidelines := ds.map (fun a => { Guideline.build a.items with observed := g.disp }) } := by
  unfold Glyph.setGuidelines
  rw [buildDicts_eq _ _ guideline_ofDict]
  simp [List.map_map, Function.comp_def]
  rfl

theorem setAnchors_items (g : Glyph) (ds : List DictObj) :
    g.setAnchors (ds.map (·.items)) =
      { g with reg := g.reg.addAll (ds.map dictIdent),
               anchors := ds.map (fun a => { Anchor.build a.items with observed := g.disp }) } := by
  unfold Glyph.setAnchors
  rw [buildDicts_eq _ _ anchor_ofDict]
  simp [List.map_map, Function.comp_def]
  rfl

theorem setImage_fresh (g : Glyph) (d : Dict) (h : g.image = none) :
    g.setImage d =
      { g with image := some { items := copyImage (dictUpdate imageDefaults d) imageDefaults,
                               parent := true, observed := g.disp } } := by
  simp [Glyph.setImage, h, freshImage]

theorem glyph_rebuild_full (g t : Glyph) (ht : t.Fresh) (hw : g.DictsWF) (hs : g.shallow = none) :
    Glyph.deser (g.ser none none) t = Glyph.rebuiltFrom g t := by
  unfold Glyph.deser Glyph.ser
  rw [glyph_clear_fresh t ht]
  obtain ⟨h1, h2, h3, h4, h5, h6, h7⟩ := ht
  simp only [applySetters, glyphSetters, List.foldl_cons, List.foldl_nil]
  simp only [setStep, get?_serializeWith, glyphGetters, glyphAltKey, glyphGetAlt, hs, excluded_none]
  simp only [Option.isSome_none, Bool.false_eq_true, ↓reduceIte, List.cons_append, List.nil_append, List.mem_cons,
    String.reduceEq, or_false, or_true, and_true, List.mem_nil_iff, Glyph.getField]
  rw [sf_name, sf_unicodes, sf_width, sf_height, sf_note, sf_lib, sf_tempLib, sf_contours, sf_components,
    sf_guidelines, sf_anchors, sf_image]
  rw [dictObj_ser _ hw.lib, dictObj_ser _ hw.tempLib, dictObj_ser _ hw.image,
    map_ser_dicts _ hw.anchors, map_ser_dicts _ hw.guidelines]
  rw [setContours_ser _ _ (by simpa [Glyph.setLib, Glyph.setTempLib] using h1), setComponents_ser, setGuidelines_items,
    setAnchors_items, setImage_fresh _ _ (by simpa [Glyph.setLib, Glyph.setTempLib] using h6)]
  cases t
  simp only at h1 h2 h3 h4 h5 h6 h7
  subst h1 h2 h3 h4 h5 h6 h7
  simp [Glyph.rebuiltFrom, Glyph.setLib, Glyph.setTempLib, dictUpdate_nil _ hw.lib, dictUpdate_nil _ hw.tempLib, hs,
    Glyph.regIds, Reg.addAll_append, Glyph.imageObj]

theorem glyph_rebuild_shallow (g t : Glyph) (ht : t.Fresh) (hw : g.DictsWF) (l : List PenRec)
    (hs : g.shallow = some l) :
    Glyph.deser (g.ser none none) t = Glyph.rebuiltFrom g t := by
  unfold Glyph.deser Glyph.ser
  rw [glyph_clear_fresh t ht]
  obtain ⟨h1, h2, h3, h4, h5, h6, h7⟩ := ht
  simp only [applySetters, glyphSetters, List.foldl_cons, List.foldl_nil]
  simp only [setStep, get?_serializeWith, glyphGetters, glyphAltKey, glyphGetAlt, hs, excluded_none]
  simp only [Option.isSome_some, ↓reduceIte, List.cons_append, List.nil_append, List.mem_cons,
    String.reduceEq, or_false, or_true, and_true, List.mem_nil_iff, Glyph.getField, hs, Option.map_some]
  rw [sf_name, sf_unicodes, sf_width, sf_height, sf_note, sf_lib, sf_tempLib, sf_shallow, sf_components,
    sf_guidelines, sf_anchors, sf_image]
  rw [dictObj_ser _ hw.lib, dictObj_ser _ hw.tempLib, dictObj_ser _ hw.image,
    map_ser_dicts _ hw.anchors, map_ser_dicts _ hw.guidelines]
  rw [setComponents_ser, setGuidelines_items,
    setAnchors_items, setImage_fresh _ _ (by simpa [Glyph.setLib, Glyph.setTempLib, Glyph.setShallow] using h6)]
  cases t
  simp only at h1 h2 h3 h4 h5 h6 h7
  subst h1 h2 h3 h4 h5 h6 h7
  simp [Glyph.rebuiltFrom, Glyph.setLib, Glyph.setTempLib, dictUpdate_nil _ hw.lib, dictUpdate_nil _ hw.tempLib, hs,
    Glyph.regIds, Reg.addAll_append, Glyph.imageObj, Glyph.setShallow]

/-- `setDataFromSerialization(g.getDataForSerialization())` on a new glyph, as one explicit record -/
theorem glyph_rebuild (g t : Glyph) (ht : t.Fresh) (hw : g.DictsWF) :
    Glyph.deser (g.ser none none) t = Glyph.rebuiltFrom g t := by
  cases hs : g.shallow with
  | none => exact glyph_rebuild_full g t ht hw hs
  | some l => exact glyph_rebuild_shallow g t ht hw l hs


end Serial
end DefconModel
