/-
Helper lemmas for M-Cross (C11, round 3).
-/
import DefconModel.Spec.Cross
import DefconModel.Lemmas.Parents

set_option linter.unusedSimpArgs false
set_option linter.unusedVariables false

namespace DefconModel
namespace Cross
open Parents

/-! ### Centres along owner pointers -/

theorem kind_ne_font_of_owner {h : Heap} {x p : Id} (ho : h.ownerOf x = some p) : h.kindOf x ≠ some .font := by
  intro k
  rw [ownerOf_font k] at ho; cases ho

theorem centreOf_nonfont {h : Heap} {x : Id} (k : h.kindOf x ≠ some .font) : centreOf h x = ancOf h .font x := by
  simp [centreOf, k]

theorem centreOf_font {h : Heap} {f : Id} (k : h.kindOf f = some .font) : centreOf h f = some f := by
  simp [centreOf, k]

/-- the container that owns an object has the object's centre, and conversely -/
theorem centreOf_step {ds} {h : Heap} (st : Struct ds h) {x p : Id} (ho : h.ownerOf x = some p) :
    centreOf h x = centreOf h p := by
  rw [centreOf_nonfont (kind_ne_font_of_owner ho), ancOf_rec st, ho]
  by_cases kp : h.kindOf p = some .font
  · simp [kp, centreOf]
  · simp [kp, centreOf]

theorem centreOf_loose {ds} {h : Heap} (st : Struct ds h) {x : Id} (ho : h.ownerOf x = none)
    (k : h.kindOf x ≠ some .font) : centreOf h x = none := by
  rw [centreOf_nonfont k, ancOf_none st ho]

theorem anc_Anc {h : Heap} {k : Kind} : ∀ (fuel : Nat) {x a : Id}, anc h k fuel x = some a → Anc h x a := by
  intro fuel
  induction fuel with
  | zero => intro x a e; simp [anc] at e
  | succ fuel ih =>
    intro x a e
    rw [anc_succ] at e
    cases ho : h.ownerOf x with
    | none => simp [ho] at e
    | some p =>
      simp only [ho] at e
      by_cases kp : h.kindOf p = some k
      · simp only [kp, if_true, Option.some.injEq] at e
        subst e
        exact Anc.step ho (Anc.refl _)
      · simp only [kp, if_false] at e
        exact Anc.step ho (ih e)

theorem centreOf_Anc {ds} {h : Heap} (st : Struct ds h) {x a : Id} (r : Anc h x a) : centreOf h a = centreOf h x := by
  induction r with
  | refl => rfl
  | step ho _ ih => rw [ih, centreOf_step st ho]

theorem centreOf_ancOf {ds} {h : Heap} (st : Struct ds h) {k : Kind} {x a : Id} (e : ancOf h k x = some a) :
    centreOf h a = centreOf h x := centreOf_Anc st (anc_Anc 4 e)

/-! ### Every registration is between objects of one font -/

/-- a parent<-child or self registration: observer and observable belong to the font whose centre holds it -/
theorem regs_in_font {h : Heap} (w : Wired h) {r : Reg} (hr : r ∈ h.regs) :
    centreOf h r.observable = some r.centre ∧ centreOf h r.observer = some r.centre := by
  obtain ⟨c, rest⟩ := w.regSound r hr
  refine ⟨c, ?_⟩
  rcases rest with ⟨_, e⟩ | ⟨_, hl⟩
  · rw [e]; exact c
  · rcases hl with ho | ⟨kl, ha⟩
    · rw [← centreOf_step w.toStruct ho]; exact c
    · have kf := ancOf_kind ha
      rw [centreOf_font kf]
      rw [centreOf_nonfont (by rw [kl]; simp), ha] at c
      exact c

theorem watchOf_some {s : State} {c : Id} {wt : Watch} (e : watchOf s c = some wt) :
    s.heap.kindOf c = some .component ∧ ∃ b f l, s.baseOf c = some b ∧ dispOf s.heap c = some f ∧ layerOf s.heap c = some l ∧
      wt = Watch.of l (s.heap.findNamed l .glyph b) := by
  unfold watchOf at e
  split at e
  · rename_i b kc eb
    split at e
    · rename_i f l ed el
      simp only [Option.some.injEq] at e
      exact ⟨kc, b, f, l, eb, ed, el, e.symm⟩
    · cases e
  · cases e

theorem imageWatch_some {h : Heap} {i l f : Id} (e : imageWatch h i = some (l, f)) :
    h.kindOf i = some .image ∧ fontOf h i = some f ∧ layerOf h i = some l := by
  unfold imageWatch at e
  split at e
  · rename_i ki
    split at e
    · rename_i f' l' ef el
      simp only [Option.some.injEq, Prod.mk.injEq] at e
      obtain ⟨e1, e2⟩ := e
      subst e1; subst e2
      exact ⟨ki, ef, el⟩
    · cases e
  · cases e

/-- the layer a leaf of a font answers belongs to that font -/
theorem layer_of_leaf_in_font {h : Heap} (w : Wired h) {x l : Id} {n : Node} (e : h.get x = some n)
    (kl : n.kind.isLeaf = true) (el : layerOf h x = some l) :
    h.kindOf l = some .layer ∧ centreOf h l = centreOf h x := by
  have st := w.toStruct
  rw [(leaf_exact st e kl).2.1] at el
  exact ⟨ancOf_kind el, centreOf_ancOf st el⟩

/-- a glyph object filed in a layer that belongs to a font belongs to that font -/
theorem filed_in_font {h : Heap} (w : Wired h) {l o f : Id} {name : String} (kl : h.kindOf l = some .layer)
    (cl : centreOf h l = some f) (ef : h.findNamed l .glyph name = some o) :
    h.ownerOf o = some l ∧ centreOf h o = some f := by
  have st := w.toStruct
  obtain ⟨hm, ko⟩ := findNamed_some ef
  obtain ⟨nl, enl, knl⟩ := kindOf_some kl
  have hal : h.alive l := by
    refine ⟨nl, enl, Or.inr ?_⟩
    intro eo
    have : h.ownerOf l = none := by rw [ownerOf_eq enl]; exact eo
    rw [centreOf_loose st this (by rw [kl]; simp)] at cl
    cases cl
  have ho := w.down l o hal (by simp) hm
  exact ⟨ho, by rw [centreOf_step st ho]; exact cl⟩

/-- what a component observes belongs to the component's font -/
theorem watch_in_font {s : State} (w : Wired s.heap) {c : Id} {wt : Watch} (e : watchOf s c = some wt) :
    ∃ f, dispOf s.heap c = some f ∧ centreOf s.heap c = some f ∧
      (∀ l o, wt = .glyph l o → centreOf s.heap l = some f ∧ centreOf s.heap o = some f ∧ s.heap.ownerOf o = some l) ∧
      (∀ l, wt = .layer l → centreOf s.heap l = some f) := by
  have st := w.toStruct
  obtain ⟨kc, b, f, l, eb, ed, el, ewt⟩ := watchOf_some e
  obtain ⟨n, en, kn⟩ := kindOf_some kc
  have cc : centreOf s.heap c = some f := by rw [← disp_exact st]; exact ed
  obtain ⟨kl, cl⟩ := layer_of_leaf_in_font w en (by rw [kn]; rfl) el
  rw [cc] at cl
  refine ⟨f, ed, cc, ?_, ?_⟩
  · intro l' o' e'
    rw [e'] at ewt
    cases ef : s.heap.findNamed l .glyph b with
    | none => rw [ef] at ewt; cases ewt
    | some o =>
      rw [ef] at ewt
      simp only [Watch.of, Watch.glyph.injEq] at ewt
      obtain ⟨e1, e2⟩ := ewt
      subst e1; subst e2
      obtain ⟨ho, co⟩ := filed_in_font w kl cl ef
      exact ⟨cl, co, ho⟩
  · intro l' e'
    rw [e'] at ewt
    cases ef : s.heap.findNamed l .glyph b with
    | none =>
      rw [ef] at ewt
      simp only [Watch.of, Watch.layer.injEq] at ewt
      subst ewt; exact cl
    | some o => rw [ef] at ewt; cases ewt

theorem mem_compRows {f c : Id} {wt : Watch} {r : XReg} (hr : r ∈ compRows f c wt) :
    r.centre = f ∧ r.observer = c ∧
      (match wt with
        | .glyph l o => r.observable = .node l ∨ r.observable = .node o
        | .layer l => r.observable = .node l) := by
  cases wt with
  | glyph l o =>
    simp only [compRows, List.mem_cons, List.mem_nil_iff, or_false] at hr
    rcases hr with h | h | h | h | h | h <;> subst h <;> simp
  | layer l =>
    simp only [compRows, List.mem_cons, List.mem_nil_iff, or_false] at hr
    rcases hr with h | h | h <;> subst h <;> simp

theorem mem_imageRows {c i l f : Id} {r : XReg} (hr : r ∈ imageRows c i l f) :
    r.centre = c ∧ r.observer = i ∧ (r.observable = .imageSet f ∨ r.observable = .node l) := by
  simp only [imageRows, List.mem_cons, List.mem_nil_iff, or_false] at hr
  rcases hr with h | h | h | h <;> subst h <;> simp

theorem mem_crossTable {s : State} {r : XReg} : r ∈ crossTable s ↔ ∃ x, x < s.heap.next ∧ r ∈ rowsOf s x := by
  simp [crossTable, List.mem_flatMap, List.mem_range]

/-- the rows of `x` have observer `x` -/
theorem rowsOf_observer {s : State} {x : Id} {r : XReg} (hr : r ∈ rowsOf s x) : r.observer = x := by
  unfold rowsOf at hr
  split at hr
  · cases hr
  · simp only [List.mem_append] at hr
    rcases hr with hr | hr
    · split at hr
      · exact (mem_compRows hr).2.1
      · cases hr
    · split at hr
      · exact (mem_imageRows hr).2.1
      · cases hr

/-- a cross link: observer and observable belong to the font whose centre holds it -/
theorem cross_in_font {s : State} (w : Wired s.heap) {r : XReg} (hr : r ∈ crossTable s) :
    centreOf s.heap r.observer = some r.centre ∧
      (match r.observable with
        | .node o => centreOf s.heap o = some r.centre
        | .imageSet f => f = r.centre) := by
  have st := w.toStruct
  obtain ⟨x, _, hx⟩ := mem_crossTable.mp hr
  unfold rowsOf at hx
  split at hx
  · cases hx
  · rename_i c ed
    have cx : centreOf s.heap x = some c := by rw [← disp_exact st]; exact ed
    simp only [List.mem_append] at hx
    rcases hx with hx | hx
    · split at hx
      · rename_i wt ew
        obtain ⟨f, ed', cc, rest1, rest2⟩ := watch_in_font w ew
        rw [ed] at ed'; cases ed'
        obtain ⟨e1, e2, e3⟩ := mem_compRows hx
        rw [e1, e2]
        refine ⟨cc, ?_⟩
        cases wt with
        | glyph l o =>
          simp only at e3
          have rest := rest1 l o rfl
          rcases e3 with e3 | e3 <;> rw [e3]
          · exact rest.1
          · exact rest.2.1
        | layer l =>
          simp only at e3
          rw [e3]; exact rest2 l rfl
      · cases hx
    · split at hx
      · rename_i l f ei
        obtain ⟨ki, ef, el⟩ := imageWatch_some ei
        obtain ⟨n, en, kn⟩ := kindOf_some ki
        obtain ⟨e1, e2, e3⟩ := mem_imageRows hx
        rw [e1, e2]
        refine ⟨cx, ?_⟩
        have ff : f = c := by
          have := (font_exact st en (by rw [kn]; simp)).1
          rw [ef] at this
          rw [centreOf_nonfont (by rw [ki]; simp), ← this] at cx
          exact Option.some.inj cx
        rcases e3 with e3 | e3 <;> rw [e3]
        · exact ff
        · obtain ⟨_, cl⟩ := layer_of_leaf_in_font w en (by rw [kn]; rfl) el
          show centreOf s.heap l = some c
          rw [cl]; exact cx
      · cases hx

/-- no registration of the complete table mentions an object that belongs to no font -/
theorem outside_unmentioned {s : State} (w : Wired s.heap) {x : Id} (hx : Outside s.heap x) : ¬ Mentioned s x := by
  unfold Outside at hx
  rintro (⟨r, hr, e⟩ | ⟨r, hr, e⟩)
  · obtain ⟨c1, c2⟩ := regs_in_font w hr
    rcases e with e | e
    · rw [e, hx] at c2; cases c2
    · rw [e, hx] at c1; cases c1
  · obtain ⟨c1, c2⟩ := cross_in_font w hr
    rcases e with e | e
    · rw [e, hx] at c1; cases c1
    · rw [e] at c2; simp only at c2; rw [hx] at c2; cases c2

/-! ### Delivery changes dirty flags only, and follows live links only -/

@[simp] theorem wd_regs (h : Heap) (d : List Id) : (wd h d).regs = h.regs := rfl
@[simp] theorem wd_next (h : Heap) (d : List Id) : (wd h d).next = h.next := rfl
@[simp] theorem wd_dirty (h : Heap) (d : List Id) : (wd h d).dirty = d := rfl
@[simp] theorem wd_kindOf (h : Heap) (d : List Id) (i : Id) : (wd h d).kindOf i = h.kindOf i := rfl
@[simp] theorem wd_dispOf (h : Heap) (d : List Id) (i : Id) : dispOf (wd h d) i = dispOf h i := rfl
@[simp] theorem wd_nodes (h : Heap) (d : List Id) : (wd h d).nodes = h.nodes := rfl
@[simp] theorem wd_wd (h : Heap) (d d' : List Id) : wd (wd h d) d' = wd h d' := rfl
theorem wd_self (h : Heap) : wd h h.dirty = h := rfl
theorem wd_watches (h : Heap) (d : List Id) (base : List (Id × String)) (k o : Id) :
    watches ⟨wd h d, base⟩ k o = watches ⟨h, base⟩ k o := rfl

theorem wd_setDirty (h : Heap) (d : List Id) (x : Id) :
    (wd h d).setDirty x = wd h (if x ∈ d then d else x :: d) := by
  unfold Heap.setDirty
  by_cases hx : x ∈ d
  · simp [hx, wd]
  · simp [hx, wd]

theorem foldl_inv {α β : Type} (P : β → Prop) (f : β → α → β) (xs : List α)
    (step : ∀ acc x, x ∈ xs → P acc → P (f acc x)) : ∀ acc, P acc → P (xs.foldl f acc) := by
  induction xs with
  | nil => intro acc h; exact h
  | cons x xs ih =>
    intro acc h
    rw [List.foldl_cons]
    exact ih (fun acc y hy => step acc y (by simp [hy])) _ (step acc x (by simp) h)

/-- who is registered for a component's `Component.BaseGlyphDataChanged`: the glyph that owns it -/
theorem baseData_observer_is_owner {h : Heap} (w : Wired h) {r : Reg} (hr : r ∈ h.regs)
    (hn : r.name = .componentBaseGlyphDataChanged) : h.ownerOf r.observable = some r.observer := by
  rcases (w.regSound r hr).2 with ⟨h1, _⟩ | ⟨h1, h2⟩
  · rw [hn] at h1; cases h1
  · rcases h2 with h2 | ⟨kl, h2⟩
    · exact h2
    · exfalso
      have kf := ancOf_kind h2
      rw [hn] at h1
      simp [namesFor, kf, kl, tableNames] at h1

/-- the invariant of the delivery loops: the heap differs from `h` in its dirty flags only, every sender so far
and every flag raised so far is reached from `s` along live links -/
def Sound (base : List (Id × String)) (h : Heap) (d : List Id) (s : Id) (acc : Heap × List Id) : Prop :=
  ∃ d', acc.1 = wd h d' ∧ (∀ a ∈ acc.2, Reach ⟨h, base⟩ s a) ∧ (∀ a ∈ d', a ∈ d ∨ Reach ⟨h, base⟩ s a)

theorem Sound.lift {base : List (Id × String)} {h : Heap} {d d1 : List Id} {s t : Id} {acc : Heap × List Id}
    (hst : ∀ a, Reach ⟨h, base⟩ t a → Reach ⟨h, base⟩ s a)
    (hd : ∀ a ∈ d1, a ∈ d ∨ Reach ⟨h, base⟩ s a) (pre : List Id) (hpre : ∀ a ∈ pre, Reach ⟨h, base⟩ s a)
    (sd : Sound base h d1 t acc) : Sound base h d s (acc.1, pre ++ acc.2) := by
  obtain ⟨d', e, p1, p2⟩ := sd
  refine ⟨d', e, ?_, ?_⟩
  · intro a ha
    simp only [List.mem_append] at ha
    rcases ha with ha | ha
    · exact hpre a ha
    · exact hst a (p1 a ha)
  · intro a ha
    rcases p2 a ha with h1 | h1
    · exact hd a h1
    · exact Or.inr (hst a h1)

theorem xpost_sound (base : List (Id × String)) {h : Heap} (w : Wired h) :
    ∀ (fuel : Nat) (d : List Id) (s : Id) (ev : Ev), Sound base h d s (xpost base fuel (wd h d) s ev) := by
  intro fuel
  induction fuel with
  | zero => intro d s ev; exact ⟨d, rfl, fun a ha => by simp [xpost] at ha, fun a ha => Or.inl ha⟩
  | succ fuel ih =>
    intro d s ev
    unfold xpost
    split
    · rename_i c ks hc hk
      have hk : h.kindOf s = some ks := hk
      cases ev with
      | changed =>
        simp only
        refine foldl_inv (Sound base h d s) _ _ ?_ _ ⟨d, rfl, fun a ha => by simp at ha; subst ha; exact Reach.refl _, fun a ha => Or.inl ha⟩
        intro acc r hr sd
        simp only [List.mem_filter, decide_eq_true_eq] at hr
        obtain ⟨hr0, _, h2, h3, h4⟩ := hr
        have hr0 : r ∈ h.regs := hr0
        have hor : h.ownerOf s = some r.observer := by
          have := changed_observer_is_owner w hr0 (by rw [h2]; exact hk) h3 (by rw [h2]; exact h4)
          rw [h2] at this; exact this
        have up : ∀ a, Reach ⟨h, base⟩ r.observer a → Reach ⟨h, base⟩ s a := fun a ra => Reach.up hor ra
        split
        · exact sd
        · obtain ⟨d1, e1, p1, p2⟩ := sd
          -- Glyph.ContoursChanged / ComponentsChanged
          have s0 : Sound base h d s
              ((if ks = .contour ∨ ks = .component then xpost base fuel acc.1 r.observer .data else (acc.1, [])).1,
               acc.2 ++ (if ks = .contour ∨ ks = .component then xpost base fuel acc.1 r.observer .data else (acc.1, [])).2) := by
            split
            · rw [e1]
              exact Sound.lift up p2 acc.2 p1 (ih d1 r.observer .data)
            · exact ⟨d1, e1, by simpa using p1, p2⟩
          obtain ⟨d2, e2, q1, q2⟩ := s0
          simp only at e2
          rw [e2, wd_setDirty]
          have q2' : ∀ a ∈ (if r.observer ∈ d2 then d2 else r.observer :: d2), a ∈ d ∨ Reach ⟨h, base⟩ s a := by
            intro a ha
            split at ha
            · exact q2 a ha
            · simp only [List.mem_cons] at ha
              rcases ha with ha | ha
              · subst ha; exact Or.inr (up _ (Reach.refl _))
              · exact q2 a ha
          have := Sound.lift up q2' _ q1 (ih (if r.observer ∈ d2 then d2 else r.observer :: d2) r.observer .changed)
          simpa [List.append_assoc] using this
      | data =>
        simp only
        refine foldl_inv (Sound base h d s) _ _ ?_ _ ⟨d, rfl, fun a ha => by simp at ha, fun a ha => Or.inl ha⟩
        intro acc k hk' sd
        simp only [List.mem_filter, List.mem_range] at hk'
        have hk2 : watches ⟨h, base⟩ k s = true := hk'.2
        have fol : ∀ a, Reach ⟨h, base⟩ k a → Reach ⟨h, base⟩ s a := fun a ra => Reach.follow hk2 ra
        obtain ⟨d1, e1, p1, p2⟩ := sd
        rw [e1]
        exact Sound.lift fol p2 acc.2 p1 (ih d1 k .baseData)
      | baseData =>
        simp only
        refine foldl_inv (Sound base h d s) _ _ ?_ _ ⟨d, rfl, fun a ha => by simp at ha, fun a ha => Or.inl ha⟩
        intro acc r hr sd
        simp only [List.mem_filter, decide_eq_true_eq] at hr
        obtain ⟨hr0, _, h2, h3⟩ := hr
        have hr0 : r ∈ h.regs := hr0
        have hor : h.ownerOf s = some r.observer := by
          have := baseData_observer_is_owner w hr0 h3
          rw [h2] at this; exact this
        have up : ∀ a, Reach ⟨h, base⟩ r.observer a → Reach ⟨h, base⟩ s a := fun a ra => Reach.up hor ra
        obtain ⟨d1, e1, p1, p2⟩ := sd
        have s0 : Sound base h d s ((xpost base fuel acc.1 r.observer .data).1, acc.2 ++ (xpost base fuel acc.1 r.observer .data).2) := by
          rw [e1]
          exact Sound.lift up p2 acc.2 p1 (ih d1 r.observer .data)
        obtain ⟨d2, e2, q1, q2⟩ := s0
        simp only at e2
        rw [e2]
        have := Sound.lift up q2 _ q1 (ih d2 r.observer .changed)
        simpa [List.append_assoc] using this
    · exact ⟨d, rfl, fun a ha => by simp at ha, fun a ha => Or.inl ha⟩

/-- what is reached along live links from an object of a font belongs to that font -/
theorem reach_in_font {s : State} (w : Wired s.heap) {x a : Id} (r : Reach s x a) :
    centreOf s.heap x ≠ none → centreOf s.heap a = centreOf s.heap x := by
  induction r with
  | refl => intro _; rfl
  | up ho _ ih =>
    intro hx
    rw [centreOf_step w.toStruct ho] at hx ⊢
    exact ih hx
  | @follow o c a hw _ ih =>
    intro hx
    unfold watches at hw
    split at hw
    · rename_i l o' ew
      simp only [decide_eq_true_eq] at hw
      subst hw
      obtain ⟨f, _, cc, rest, _⟩ := watch_in_font w ew
      rw [(rest l o' rfl).2.1, ← cc]
      exact ih (by rw [cc]; simp)
    · cases hw

/-- without a dispatcher nothing is delivered -/
theorem xpost_silent (base : List (Id × String)) (fuel : Nat) (h : Heap) (x : Id) (ev : Ev) (hd : dispOf h x = none) :
    xpost base fuel h x ev = (h, []) := by
  cases fuel with
  | zero => rfl
  | succ fuel => unfold xpost; simp [hd]

/-! ### The heap of the composite run stays wired -/

theorem xpost_wd (base : List (Id × String)) {h : Heap} (w : Wired h) (fuel : Nat) (d : List Id) (s : Id) (ev : Ev) :
    ∃ d', (xpost base fuel (wd h d) s ev).1 = wd h d' := by
  obtain ⟨d', e, _⟩ := xpost_sound base w fuel d s ev
  exact ⟨d', e⟩

theorem wired_wd {h : Heap} (w : Wired h) (d : List Id) : Wired (wd h d) := wired_same w (fun i => rfl) rfl

theorem xmutate_heap {s : State} (w : Wired s.heap) (x : Id) : ∃ d, (xmutate s x).1.heap = wd s.heap d ∧ (xmutate s x).1.base = s.base := by
  unfold xmutate
  cases hk : s.heap.kindOf x with
  | none => exact ⟨s.heap.dirty, rfl, rfl⟩
  | some k =>
    simp only
    by_cases hl : k.isLeaf = true
    · simp only [hl, if_true]
      obtain ⟨d', e⟩ := xpost_wd s.base w XFUEL s.heap.dirty x .changed
      rw [wd_self] at e
      exact ⟨d', e, by first | rfl | trivial⟩
    · simp only [hl]
      have e0 : s.heap.setDirty x = wd s.heap (if x ∈ s.heap.dirty then s.heap.dirty else x :: s.heap.dirty) := by
        have := wd_setDirty s.heap s.heap.dirty x
        rw [wd_self] at this; exact this
      obtain ⟨d', e⟩ := xpost_wd s.base w XFUEL (if x ∈ s.heap.dirty then s.heap.dirty else x :: s.heap.dirty) x .changed
      refine ⟨d', ?_, by first | rfl | trivial⟩
      simp only [Bool.false_eq_true, if_false]
      rw [e0]; exact e

theorem xwired_step {s : State} (w : Wired s.heap) (op : Op) : Wired (xstep s op).1.heap := by
  cases op with
  | base op =>
    cases op with
    | mutate x =>
      obtain ⟨d, e, _⟩ := xmutate_heap w x
      show Wired (xmutate s x).1.heap
      rw [e]; exact wired_wd w d
    | insertGlyph l src name =>
      have := wired_step w (.insertGlyph l src name)
      simp only [xstep]
      split <;> exact this
    | newFont => simp only [xstep]; exact wired_step w _
    | openFont layers => simp only [xstep]; exact wired_step w _
    | newLayer f name => simp only [xstep]; exact wired_step w _
    | delLayer f name => simp only [xstep]; exact wired_step w _
    | renameLayer l name => simp only [xstep]; exact wired_step w _
    | newGlyph l name => simp only [xstep]; exact wired_step w _
    | getGlyph l name spec => simp only [xstep]; exact wired_step w _
    | delGlyph l name => simp only [xstep]; exact wired_step w _
    | renameGlyph g name => simp only [xstep]; exact wired_step w _
    | new k => simp only [xstep]; exact wired_step w _
    | newGlyphObj => simp only [xstep]; exact wired_step w _
    | insert p x => simp only [xstep]; exact wired_step w _
    | remove p x => simp only [xstep]; exact wired_step w _
    | clear p role => simp only [xstep]; exact wired_step w _
    | clearAll g => simp only [xstep]; exact wired_step w _
    | setList p role xs => simp only [xstep]; exact wired_step w _
    | touch p what => simp only [xstep]; exact wired_step w _
    | clean => simp only [xstep]; exact wired_step w _
    | dump => simp only [xstep]; exact wired_step w _
  | newComp b => simp only [xstep]; exact wired_step w (.new .component)
  | setBase c b =>
    simp only [xstep]
    split
    · exact w
    · split
      · exact w
      · have key : ∀ base', Wired (xmutate ⟨s.heap, base'⟩ c).1.heap := fun base' => by
          obtain ⟨d, e, _⟩ := xmutate_heap (s := ⟨s.heap, base'⟩) w c
          rw [e]; exact wired_wd w d
        exact key _
  | load l name spec bases =>
    have := wired_step w (.getGlyph l name spec)
    simp only [xstep]
    split
    · split <;> exact this
    · exact this
  | decompose g c =>
    simp only [xstep]
    split
    · exact w
    · rename_i hk
      simp only [not_or, ne_eq, Decidable.not_not] at hk
      split
      · exact w
      · split
        · exact w
        · obtain ⟨w1, k1⟩ := wired_spawnMany (g := g) (k := .contour) (by simp [Kind.isLeaf]) _ w hk.1
          exact wired_removeChild w1 (k1 g _ hk.1)

theorem xwired_run (ops : List Op) : ∀ {s : State}, Wired s.heap → Wired (xrun s ops).heap := by
  induction ops with
  | nil => intro s w; exact w
  | cons op ops ih => intro s w; exact ih (xwired_step w op)

/-! ### Kinds of existing objects survive the removal paths -/

/-- every object of `h` keeps its kind in `h'` -/
def KK (h h' : Heap) : Prop := ∀ i k, h.kindOf i = some k → h'.kindOf i = some k

theorem KK.refl (h : Heap) : KK h h := fun _ _ e => e
theorem KK.trans {a b c : Heap} (x : KK a b) (y : KK b c) : KK a c := fun i k e => y i k (x i k e)
theorem KK.of_eq {h h' : Heap} (e : ∀ i, h'.kindOf i = h.kindOf i) : KK h h' := fun i k ek => by rw [e]; exact ek

theorem kk_unobserve (h : Heap) (x o : Id) (ns : List NName) : KK h (unobserve h x o ns) :=
  KK.of_eq fun i => by simp [Heap.kindOf]

theorem kk_endSelf (h : Heap) (x : Id) : KK h (endSelf h x) := by
  intro i k e
  simp only [Heap.kindOf, get_endSelf]
  by_cases c : x = i
  · subst c; simp only [if_true]; exact kindOf_cleared_map e
  · simp only [c, if_false]; exact e

theorem kk_foldl {α} (f : Heap → α → Heap) (hf : ∀ h a, KK h (f h a)) (xs : List α) : ∀ h, KK h (xs.foldl f h) := by
  induction xs with
  | nil => intro h; exact KK.refl h
  | cons x xs ih => intro h; rw [List.foldl_cons]; exact (hf h x).trans (ih _)

theorem kk_stepG (g : Id) (h : Heap) (k : Id) : KK h (stepG g h k) := by
  unfold stepG
  split
  · exact KK.of_eq (kindOf_detachSingleton h g k)
  · exact KK.of_eq (kindOf_detachSingleton h g k)
  · exact KK.of_eq (kindOf_detachChild h g k)
  · exact KK.refl h

theorem kk_endGlyph (h : Heap) (l g : Id) : KK h (endGlyph h l g) := by
  rw [endGlyph_eq]
  split
  · exact KK.refl h
  · exact ((kk_unobserve h g l _).trans (kk_foldl _ (kk_stepG g) _ _)).trans (kk_endSelf _ g)

theorem kk_unlist (h : Heap) (p x : Id) : KK h (h.unlist p x) := KK.of_eq (kindOf_unlist h p x)

theorem kk_stepL (l : Id) (h : Heap) (k : Id) : KK h (stepL l h k) := by
  unfold stepL
  split
  · exact kk_endGlyph h l k
  · exact KK.of_eq (kindOf_detachSingleton h l k)
  · exact KK.refl h

theorem kk_killLayer_from (h0 : Heap) (s l : Id) :
    KK h0 (match dispOf h0 l with
      | none => h0.unlist s l
      | some _ =>
        (endSelf (((unobserve h0 l s (namesFor h0 s l)).kidsOf l).foldl (stepL l) (unobserve h0 l s (namesFor h0 s l))) l).unlist s l) := by
  split
  · exact kk_unlist _ _ _
  · exact (((kk_unobserve h0 l s _).trans (kk_foldl _ (kk_stepL l) _ _)).trans (kk_endSelf _ l)).trans (kk_unlist _ _ _)

theorem kk_killLayer (h : Heap) (s l : Id) : KK h (killLayer h s l) := by
  rw [killLayer_eq]
  cases e : h.storedFont s with
  | none => exact kk_killLayer_from h s l
  | some f => exact (kk_unobserve h l f _).trans (kk_killLayer_from _ s l)

theorem kk_mark (h : Heap) (x : Id) : KK h (mark h x) := KK.of_eq fun i => kindOf_mark x i

theorem ownerOf_spawnMany {g : Id} {k : Kind} (n : Nat) :
    ∀ {h : Heap} {i q : Id}, h.ownerOf i = some q → (spawnMany h g k n).ownerOf i = some q := by
  induction n with
  | zero => intro h i q e; exact e
  | succ n ih => intro h i q e; unfold spawnMany; exact ih (ownerOf_spawn e)

/-! ### Small facts the property theorems use -/

/-- the heap of the composite after an M-Parents operation other than a change of an object -/
theorem xstep_base_heap (s : State) (op : Parents.Op) (hm : ∀ x, op ≠ .mutate x) :
    (xstep s (.base op)).1.heap = (step s.heap op).1 := by
  cases op with
  | mutate x => exact absurd rfl (hm x)
  | insertGlyph l src name => simp only [xstep]; split <;> rfl
  | newFont => simp only [xstep]
  | openFont layers => simp only [xstep]
  | newLayer f name => simp only [xstep]
  | delLayer f name => simp only [xstep]
  | renameLayer l name => simp only [xstep]
  | newGlyph l name => simp only [xstep]
  | getGlyph l name spec => simp only [xstep]
  | delGlyph l name => simp only [xstep]
  | renameGlyph g name => simp only [xstep]
  | new k => simp only [xstep]
  | newGlyphObj => simp only [xstep]
  | insert p x => simp only [xstep]
  | remove p x => simp only [xstep]
  | clear p role => simp only [xstep]
  | clearAll g => simp only [xstep]
  | setList p role xs => simp only [xstep]
  | touch p what => simp only [xstep]
  | clean => simp only [xstep]
  | dump => simp only [xstep]

/-- an object that points to no owner and is not a font belongs to no font -/
theorem outside_of_loose {h : Heap} (w : Wired h) {x : Id} (ho : h.ownerOf x = none) (k : h.kindOf x ≠ some .font) :
    Outside h x := centreOf_loose w.toStruct ho k

/-- what is owned by an object that belongs to no font belongs to no font -/
theorem outside_of_owner {h : Heap} (w : Wired h) {x p : Id} (ho : h.ownerOf x = some p) (hp : Outside h p) :
    Outside h x := by
  unfold Outside at hp ⊢
  rw [centreOf_step w.toStruct ho]; exact hp

/-- for anything but a font: to belong to font `f` is to be listed by a container that belongs to `f` -/
theorem in_font_iff_listed' {h : Heap} (w : Wired h) {x f : Id} (kx : h.kindOf x ≠ some .font) :
    centreOf h x = some f ↔ ∃ p, x ∈ h.kidsOf p ∧ centreOf h p = some f := by
  have st := w.toStruct
  constructor
  · intro c
    cases ho : h.ownerOf x with
    | none => rw [centreOf_loose st ho kx] at c; cases c
    | some p =>
      obtain ⟨n, e, eo⟩ := ownerOf_some ho
      exact ⟨p, w.up x n p e eo, by rw [← centreOf_step st ho]; exact c⟩
  · rintro ⟨p, hm, cp⟩
    obtain ⟨np, ep, _⟩ := mem_kidsOf hm
    have hal : h.alive p := by
      refine ⟨np, ep, ?_⟩
      by_cases kf : np.kind = .font
      · exact Or.inl kf
      · right
        intro eo
        have : h.ownerOf p = none := by rw [ownerOf_eq ep]; exact eo
        rw [centreOf_loose st this (by rw [kindOf_eq ep]; simpa using kf)] at cp
        cases cp
    have ho := w.down p x hal (by simp) hm
    rw [centreOf_step st ho]; exact cp

/-- the rows of the cross table whose observer is `c` are `rowsOf s c` -/
theorem mem_crossTable_observer {s : State} {c : Id} {n : Node} (e : s.heap.get c = some n) {r : XReg} :
    (r ∈ crossTable s ∧ r.observer = c) ↔ r ∈ rowsOf s c := by
  constructor
  · rintro ⟨hr, ho⟩
    obtain ⟨x, _, hx⟩ := mem_crossTable.mp hr
    have := rowsOf_observer hx
    rw [ho] at this; subst this
    exact hx
  · intro hr
    exact ⟨mem_crossTable.mpr ⟨c, get_lt e, hr⟩, rowsOf_observer hr⟩

end Cross
end DefconModel
