/-
Helper lemmas about M-Layers (several layers + default layer).  Property theorems live in Props/C09.lean.
-/
import DefconModel.Layers
import DefconModel.Lemmas.Layer

namespace DefconModel
namespace Layer

/-- A freshly opened layer is well formed. -/
theorem good_opened (disk : List (String × GRec)) (hk : (AL.keys disk).Nodup)
    (hr : ∀ p ∈ disk, p.2.unicodes.Nodup) : Good (opened disk) := by
  have habs : ∀ k, abs (opened disk) k = AL.get? disk k := by
    intro k; simp [abs, opened]
  refine ⟨?_, uniInv_none _, ?_⟩
  · constructor
    · exact hk
    · simp [opened, AL.keys]
    · simpa [opened, AL.keys] using hk
    · simp [opened]
    · intro m hm; simp [opened] at hm
    · intro m hm; simp [opened] at hm
    · intro k
      rw [habs]
      simp only [opened]
      constructor
      · intro hmem
        have : k ∈ AL.keys disk := by simpa [AL.keys] using hmem
        simp only [AL.keys, List.mem_map] at this
        obtain ⟨⟨k', v⟩, hp, rfl⟩ := this
        rw [AL.get?_of_mem_nodup hk hp]; rfl
      · intro hs
        cases hg : AL.get? disk k with
        | none => simp [hg] at hs
        | some v => simpa [AL.keys] using AL.mem_keys_of_get? hg
    · intro k r hl; simp [opened] at hl
  · intro n r hn _
    rw [habs] at hn
    exact hr _ (AL.mem_of_get? hn)

theorem good_empty : Good ({} : State) := good_opened [] (by simp [AL.keys]) (by simp)

end Layer

namespace Layers
open Layer

/-- every layer of the font is well formed and has a correct unicode map (if it has one) -/
def FGood (fs : FState) : Prop := ∀ p ∈ fs.layers, Good p.2

/-- arguments in the domain: what a rewritten GLIF holds repeats no code point -/
def FOpOK : FOp → Prop
  | .on _ op => OpOK (fun _ => none) op
  | .font op => OpOK (fun _ => none) op
  | _ => True

instance : (op : FOp) → Decidable (FOpOK op)
  | .on _ op => inferInstanceAs (Decidable (OpOK (fun _ => none) op))
  | .font op => inferInstanceAs (Decidable (OpOK (fun _ => none) op))
  | .setDefault _ => isTrue trivial
  | .newLayer _ => isTrue trivial
  | .save => isTrue trivial
  | .fwdOn .. => isTrue trivial
  | .pseudoOn .. => isTrue trivial

theorem opOK_any (f g : String → Option GRec) (op : Op) (h : OpOK f op) : OpOK g op := by
  cases op <;> exact h

theorem good_stepOn {fs : FState} (h : FGood fs) (l : String) (op : Op) (hop : OpOK (fun _ => none) op) :
    FGood (stepOn fs l op) := by
  unfold stepOn
  cases hg : AL.get? fs.layers l with
  | none => exact h
  | some s =>
    intro p hp
    rcases AL.mem_set hp with e | hm
    · subst e
      exact (step_refines op (h _ (AL.mem_of_get? hg)) (opOK_any _ _ op hop)).1
    · exact h p hm

theorem good_step {fs : FState} (h : FGood fs) (op : FOp) (hop : FOpOK op) : FGood (step fs op) := by
  cases op with
  | on l op => exact good_stepOn h l op hop
  | font op => exact good_stepOn h _ op hop
  | setDefault l =>
    simp only [step]
    split <;> exact h
  | newLayer l =>
    simp only [step]
    split
    · exact h
    · intro p hp
      simp only [List.mem_append, List.mem_singleton] at hp
      rcases hp with hp | hp
      · exact h p hp
      · subst hp; exact good_empty
  | save =>
    simp only [step]
    intro p hp
    simp only [List.mem_map] at hp
    obtain ⟨q, hq, rfl⟩ := hp
    exact (step_refines .save (h q hq) trivial).1
  | fwdOn l n =>
    exact good_stepOn (good_stepOn h l .touchUni trivial) _ (.fwd n) trivial
  | pseudoOn l n =>
    exact good_stepOn (good_stepOn h l .touchUni trivial) _ (.pseudo n) trivial

theorem good_run {fs : FState} (h : FGood fs) (ops : List FOp) (hops : ∀ op ∈ ops, FOpOK op) :
    FGood (run fs ops) := by
  induction ops generalizing fs with
  | nil => exact h
  | cons op ops ih =>
    unfold run
    simp only [List.foldl_cons]
    exact ih (good_step h op (hops op (by simp))) (fun o ho => hops o (by simp [ho]))

theorem good_opened (layers : List (String × List (String × GRec))) (default : String)
    (hk : ∀ p ∈ layers, (AL.keys p.2).Nodup) (hr : ∀ p ∈ layers, ∀ q ∈ p.2, q.2.unicodes.Nodup) :
    FGood (opened layers default) := by
  intro p hp
  simp only [opened, List.mem_map] at hp
  obtain ⟨q, hq, rfl⟩ := hp
  exact Layer.good_opened q.2 (hk q hq) (hr q hq)

theorem good_of_get {fs : FState} (h : FGood fs) {l : String} {s : Layer.State}
    (hg : AL.get? fs.layers l = some s) : Good s := h _ (AL.mem_of_get? hg)

end Layers
end DefconModel
