/-
Helper lemmas for C05 (M-Ext), round 3: the in-place save as a step of the induction.

`SyncedM` (in step except for glyphs that exist in memory only) is turned into `Synced` by a
completed in-place save; `Tidy` (nothing pending in the layer history, unique names on disk) is what
makes the replay of the layer history the identity.
-/
import DefconModel.Lemmas.Ext

namespace DefconModel
namespace Ext

/-! ### small facts -/

theorem Synced.toM {s : State} (h : Synced s) : SyncedM s where
  parts := h.parts
  order := h.order
  default := h.default
  layers := by
    intro ln hln
    obtain ⟨l, dl, h1, h2, h3⟩ := h.layers ln hln
    refine ⟨l, dl, h1, h2, ?_⟩
    exact {
      info := h3.info
      onDisk := fun gn hg => (h3.names gn).1 hg
      known := fun gn hg => Or.inl ((h3.names gn).2 (Or.inl hg))
      schedOnDisk := fun gn hg => (h3.names gn).2 (Or.inr hg)
      disjoint := h3.disjoint
      glyphs := fun gn g st hm hst _ => h3.glyphs gn g st hm hst
      sched := h3.sched
      gs := h3.gs
      loaded := h3.loaded
      nodupGlyphs := h3.nodupGlyphs }
  images := h.images
  data := h.data
  reader := h.reader
  nodupOrder := h.nodupOrder

/-- `Tidy` only looks at these components of the state -/
theorem Tidy.congr {s s' : State} (h : Tidy s) (h1 : s'.font.history = s.font.history)
    (h2 : s'.font.default = s.font.default)
    (h3 : s'.font.layers = s.font.layers)
    (h4 : s'.font.order = s.font.order) (h5 : s'.font.images = s.font.images)
    (h6 : s'.font.data = s.font.data) (h7 : DiskOk s'.disk) : Tidy s' where
  history := by rw [h1, h2]; exact h.history
  layersInOrder := by intro ln hc; rw [h3] at hc; rw [h4]; exact h.layersInOrder ln hc
  schedNodup := by rw [h3]; exact h.schedNodup
  imagesDisjoint := by rw [h5]; exact h.imagesDisjoint
  dataDisjoint := by rw [h6]; exact h.dataDisjoint
  disk := h7

/-! ### the core of `SyncedM`: everything but the reader (a save replaces the reader at its end) -/

structure SaveCore (s : State) : Prop where
  parts : ∀ p, PartAgree s p
  order : s.font.order = layerNames s.disk
  default : s.font.default = s.disk.default
  layers : ∀ ln, ln ∈ s.font.order →
    ∃ l dl, AL.get? s.font.layers ln = some l ∧ AL.get? s.disk.layers ln = some dl ∧ LayerSyncedM ln dl l
  images : FSSynced s.disk.images s.font.images
  data : FSSynced s.disk.data s.font.data
  nodupOrder : s.font.order.Nodup

theorem SyncedM.core {s : State} (h : SyncedM s) : SaveCore s :=
  ⟨h.parts, h.order, h.default, h.layers, h.images, h.data, h.nodupOrder⟩

/-! ### top-level files -/

theorem core_setPart {s : State} (h : SaveCore s) (p : Part) (mp : MPart)
    (hmp : mp.stamp.data = diskData s.disk p) : SaveCore (setPart s p mp) where
  parts := by
    intro p' mp' hg
    unfold getPart setPart at hg
    simp only at hg
    rw [AL.get?_set] at hg
    by_cases e : p = p'
    · subst e
      simp at hg; subst hg; exact hmp
    · simp [e] at hg
      exact h.parts p' mp' hg
  order := h.order
  default := h.default
  layers := h.layers
  images := h.images
  data := h.data
  nodupOrder := h.nodupOrder

theorem core_loadPart {s : State} (h : SaveCore s) (p : Part) : SaveCore (loadPart s p) := by
  have fl : ∀ {s : State}, SaveCore s → ∀ q, SaveCore (forceLoad s q) :=
    fun h q => core_setPart h q _ (stampOf_data _ q)
  unfold loadPart
  split
  · exact h
  · cases p
    · exact fl h _
    · exact fl (fl h _) _
    · exact fl (fl h _) _
    · exact fl h _
    · exact fl h _

theorem loadPart_font (s : State) (p : Part) :
    (loadPart s p).disk = s.disk ∧ (loadPart s p).zip = s.zip ∧ (loadPart s p).reader = s.reader ∧
    (loadPart s p).font.layers = s.font.layers ∧ (loadPart s p).font.order = s.font.order ∧
    (loadPart s p).font.default = s.font.default ∧ (loadPart s p).font.history = s.font.history ∧
    (loadPart s p).font.images = s.font.images ∧ (loadPart s p).font.data = s.font.data ∧
    (loadPart s p).lastReport = s.lastReport ∧ (loadPart s p).emptyGlyph = s.emptyGlyph := by
  unfold loadPart
  split
  · simp
  · cases p <;> simp [forceLoad, setPart]

theorem tidy_loadPart {s : State} (h : Tidy s) (p : Part) : Tidy (loadPart s p) := by
  obtain ⟨h1, _, _, h4, h5, h6, h7, h8, h9, _⟩ := loadPart_font s p
  exact h.congr h7 h6 h4 h5 h8 h9 (by rw [h1]; exact h.disk)

/-- what `writePart` does to the disk: only the top-level files change, and only the one of `p` -/
theorem writePart_spec (d : Disk) (p : Part) (v : Blob) (t : Time) :
    ∃ ps, writePart d p v t = { d with parts := ps } ∧ ∀ q, q ≠ p → AL.get? ps q = AL.get? d.parts q := by
  unfold writePart
  split
  · exact ⟨_, rfl, fun q hq => AL.get?_erase_ne _ _ _ (fun e => hq e.symm)⟩
  · refine ⟨_, rfl, fun q hq => ?_⟩
    unfold writeFile
    split
    · split
      · rfl
      · exact AL.get?_set_ne _ _ _ _ (fun e => hq e.symm)
    · exact AL.get?_set_ne _ _ _ _ (fun e => hq e.symm)

theorem diskOk_parts {d : Disk} (h : DiskOk d) (ps : List (Part × File)) : DiskOk { d with parts := ps } :=
  ⟨h.glifs, h.images, h.data⟩

theorem core_savePart {s : State} (h : SaveCore s) (tD tS : Time) (always : Bool) (p : Part) :
    SaveCore (savePart tD tS always s p) := by
  unfold savePart
  have h1 := core_loadPart h p
  cases hg : getPart (loadPart s p) p with
  | none => simpa [hg] using h1
  | some mp =>
    simp only [hg]
    split
    · obtain ⟨ps, hw, hne⟩ := writePart_spec (loadPart s p).disk p mp.value tD
      rw [hw]
      exact {
        parts := by
          intro p' mp' hg'
          unfold getPart setPart at hg'
          simp only at hg'
          rw [AL.get?_set] at hg'
          by_cases e : p = p'
          · subst e
            simp at hg'; subst hg'
            exact stampW_data _ _ _ _
          · simp [e] at hg'
            have := h1.parts p' mp' hg'
            rw [this]
            show (AL.get? (loadPart s p).disk.parts p').map (·.blob) = (AL.get? ps p').map (·.blob)
            rw [hne p' (fun x => e x.symm)]
        order := h1.order
        default := h1.default
        layers := h1.layers
        images := h1.images
        data := h1.data
        nodupOrder := h1.nodupOrder }
    · exact h1

theorem tidy_savePart {s : State} (h : Tidy s) (tD tS : Time) (always : Bool) (p : Part) :
    Tidy (savePart tD tS always s p) := by
  unfold savePart
  have h1 := tidy_loadPart h p
  cases hg : getPart (loadPart s p) p with
  | none => simpa [hg] using h1
  | some mp =>
    simp only [hg]
    split
    · obtain ⟨ps, hw, _⟩ := writePart_spec (loadPart s p).disk p mp.value tD
      rw [hw]
      exact h1.congr rfl rfl rfl rfl rfl rfl (diskOk_parts h1.disk ps)
    · exact h1

theorem savePart_zip (s : State) (tD tS : Time) (always : Bool) (p : Part) :
    (savePart tD tS always s p).zip = s.zip := by
  unfold savePart
  have := (loadPart_font s p).2.1
  cases hg : getPart (loadPart s p) p with
  | none => simpa [hg] using this
  | some mp =>
    simp only [hg]
    split
    · exact this
    · exact this


/-! ### images and data: `ImageSet.save / DataSet.save` -/

/-- what a write leaves in the file: the file as it was when it holds these bytes already -/
def writeAt (cur : Option File) (b : Blob) (t : Time) : File :=
  match cur with
  | some f => if f.blob = b then f else ⟨b, t⟩
  | none => ⟨b, t⟩

theorem writeAt_blob (cur : Option File) (b : Blob) (t : Time) : (writeAt cur b t).blob = b := by
  unfold writeAt
  split
  · split
    · assumption
    · rfl
  · rfl

theorem get?_writeFile {κ : Type} [DecidableEq κ] (files : List (κ × File)) (n m : κ) (b : Blob) (t : Time) :
    AL.get? (writeFile files n b t) m = if n = m then some (writeAt (AL.get? files n) b t) else AL.get? files m := by
  unfold writeFile writeAt
  cases hg : AL.get? files n with
  | none =>
    simp only
    rw [AL.get?_set]
  | some f =>
    simp only
    by_cases hb : f.blob = b
    · simp only [hb, if_true]
      by_cases e : n = m
      · subst e; simp [hg]
      · simp [e]
    · simp only [hb, if_false]
      rw [AL.get?_set]

theorem nodup_writeFile {κ : Type} [DecidableEq κ] (files : List (κ × File)) (n : κ) (b : Blob) (t : Time)
    (h : (AL.keys files).Nodup) : (AL.keys (writeFile files n b t)).Nodup := by
  unfold writeFile
  split
  · split
    · exact h
    · exact AL.nodup_keys_set _ _ _ h
  · exact AL.nodup_keys_set _ _ _ h

/-- the bytes an entry makes the save write: the data of a dirty entry -/
def writeOf (e : Entry) : Option Blob :=
  match e.dirty, e.data with
  | true, some b => some b
  | _, _ => none

def fsWriteStep (tD : Time) (fl : List (String × File)) (p : String × Entry) : List (String × File) :=
  match p.2.dirty, p.2.data with
  | true, some b => writeFile fl p.1 b tD
  | _, _ => fl

theorem fsWriteStep_eq (tD : Time) (fl : List (String × File)) (p : String × Entry) :
    fsWriteStep tD fl p = match writeOf p.2 with
      | some b => writeFile fl p.1 b tD
      | none => fl := by
  unfold fsWriteStep writeOf
  split <;> simp_all

theorem get?_foldl_write (tD : Time) (E : List (String × Entry)) (hn : (AL.keys E).Nodup)
    (fl : List (String × File)) (n : String) :
    AL.get? (E.foldl (fsWriteStep tD) fl) n =
      match (AL.get? E n).bind writeOf with
      | some b => some (writeAt (AL.get? fl n) b tD)
      | none => AL.get? fl n := by
  induction E generalizing fl with
  | nil => simp
  | cons p r ih =>
    obtain ⟨k, e⟩ := p
    simp only [AL.keys, List.map_cons, List.nodup_cons] at hn
    simp only [List.foldl_cons]
    rw [ih (by simpa [AL.keys] using hn.2)]
    by_cases hk : k = n
    · subst hk
      have hr : AL.get? r k = none := AL.get?_eq_none_of_not_mem (by simpa [AL.keys] using hn.1)
      simp only [hr, Option.bind_none, AL.get?_cons, if_true, Option.bind_some]
      rw [fsWriteStep_eq]
      cases writeOf e with
      | none => rfl
      | some b => simp [get?_writeFile]
    · simp only [AL.get?_cons, hk, if_false]
      have : AL.get? (fsWriteStep tD fl (k, e)) n = AL.get? fl n := by
        rw [fsWriteStep_eq]
        cases writeOf e with
        | none => rfl
        | some b => simp [get?_writeFile, hk]
      rw [this]

theorem nodup_foldl_write (tD : Time) (E : List (String × Entry)) (fl : List (String × File))
    (h : (AL.keys fl).Nodup) : (AL.keys (E.foldl (fsWriteStep tD) fl)).Nodup := by
  induction E generalizing fl with
  | nil => exact h
  | cons p r ih =>
    simp only [List.foldl_cons]
    apply ih
    rw [fsWriteStep_eq]
    cases writeOf p.2 with
    | none => exact h
    | some b => exact nodup_writeFile _ _ _ _ h

/-- the entry after the save -/
def savedEntry (zip : Bool) (tS : Time) (files2 : List (String × File)) (n : String) (e : Entry) : Entry :=
  match e.dirty, e.data with
  | true, some b => { e with dirty := false, onDisk := true, modTime := timeW zip tS files2 n, digest := some b }
  | _, _ => e

theorem savedEntry_of_write {zip : Bool} {tS : Time} {files2 : List (String × File)} {n : String} {e : Entry} {b : Blob}
    (h : writeOf e = some b) :
    savedEntry zip tS files2 n e =
      { e with dirty := false, onDisk := true, modTime := timeW zip tS files2 n, digest := some b } ∧ e.data = some b := by
  unfold writeOf at h
  unfold savedEntry
  split at h
  · rename_i b' hd hdata
    injection h with h
    subst h
    simp [hd, hdata]
  · cases h

theorem savedEntry_of_none {zip : Bool} {tS : Time} {files2 : List (String × File)} {n : String} {e : Entry}
    (h : writeOf e = none) : savedEntry zip tS files2 n e = e := by
  unfold writeOf at h
  unfold savedEntry
  split at h
  · cases h
  · rfl

theorem saveFS_eq (tD tS : Time) (s : State) (img : Bool) :
    saveFS tD tS s img =
      let fs := getFS s img
      let files1 := (AL.keys fs.sched).foldl (fun fl n => AL.erase fl n) (fsFiles s.disk img)
      let files2 := fs.entries.foldl (fsWriteStep tD) files1
      setFS { s with disk := setDiskFiles s.disk img files2 } img
        { entries := fs.entries.map fun p => (p.1, savedEntry s.zip tS files2 p.1 p.2), sched := [] } := by
  unfold saveFS
  simp only
  have e1 : (getFS s img).sched.foldl (fun fl p => AL.erase fl p.1) (fsFiles s.disk img) =
      (AL.keys (getFS s img).sched).foldl (fun fl n => AL.erase fl n) (fsFiles s.disk img) := by
    simp [AL.keys, List.foldl_map]
  rw [e1]
  have key : ∀ (files2 : List (String × File)) (E : List (String × Entry)),
      E.map (fun p => match p.2.dirty, p.2.data with
        | true, some b => (p.1, ({ p.2 with dirty := false, onDisk := true, modTime := timeW s.zip tS files2 p.1,
                                            digest := some b } : Entry))
        | _, _ => p) = E.map (fun p => (p.1, savedEntry s.zip tS files2 p.1 p.2)) := by
    intro files2 E
    apply List.map_congr_left
    intro p _
    unfold savedEntry
    split <;> simp_all
  exact congrArg (fun e => setFS _ img { entries := e, sched := [] }) (key _ _)

/-- the image / data set after the save is in step with the directory after the save -/
theorem fsSynced_save {files : List (String × File)} {fs : FileSet} (h : FSSynced files fs)
    (hd : ∀ n, AL.contains fs.entries n = true → AL.contains fs.sched n = false)
    (hf : (AL.keys files).Nodup) (zip : Bool) (tD tS : Time) :
    let files1 := (AL.keys fs.sched).foldl (fun fl n => AL.erase fl n) files
    let files2 := fs.entries.foldl (fsWriteStep tD) files1
    FSSynced files2 { entries := fs.entries.map fun p => (p.1, savedEntry zip tS files2 p.1 p.2), sched := [] } ∧
      (AL.keys files2).Nodup := by
  intro files1 files2
  have hf1 : (AL.keys files1).Nodup := AL.nodup_keys_foldl_erase _ _ hf
  have g1 : ∀ n, AL.get? files1 n = if n ∈ AL.keys fs.sched then none else AL.get? files n :=
    fun n => AL.get?_foldl_erase _ _ _ hf
  have g2 : ∀ n, AL.get? files2 n = match (AL.get? fs.entries n).bind writeOf with
      | some b => some (writeAt (AL.get? files1 n) b tD)
      | none => AL.get? files1 n := fun n => get?_foldl_write tD _ h.nodupEntries _ n
  have gE : ∀ n, AL.get? (fs.entries.map fun p => (p.1, savedEntry zip tS files2 p.1 p.2)) n =
      (AL.get? fs.entries n).map (savedEntry zip tS files2 n) :=
    fun n => get?_map_key_val (fun k e => savedEntry zip tS files2 k e) fs.entries n
  have kE : AL.keys (fs.entries.map fun p => (p.1, savedEntry zip tS files2 p.1 p.2)) = AL.keys fs.entries := by
    simp [AL.keys, List.map_map, Function.comp_def]
  have hnE : (AL.keys (fs.entries.map fun p => (p.1, savedEntry zip tS files2 p.1 p.2))).Nodup := by
    rw [kE]; exact h.nodupEntries
  -- an entry of the new set comes from an entry of the old one
  have back : ∀ n e', (n, e') ∈ (fs.entries.map fun p => (p.1, savedEntry zip tS files2 p.1 p.2)) →
      ∃ e, AL.get? fs.entries n = some e ∧ (n, e) ∈ fs.entries ∧ e' = savedEntry zip tS files2 n e := by
    intro n e' hm
    have := AL.get?_of_mem_nodup hnE hm
    rw [gE] at this
    cases hg : AL.get? fs.entries n with
    | none => simp [hg] at this
    | some e =>
      simp [hg] at this
      exact ⟨e, rfl, AL.mem_of_get? hg, this.symm⟩
  -- a listed name that is not scheduled keeps its file unless it is written
  have notSched : ∀ n e, AL.get? fs.entries n = some e → n ∉ AL.keys fs.sched := by
    intro n e hg hs
    have h1 := hd n (by simp [AL.contains, hg])
    rw [(AL_mem_keys_iff_contains _ _).1 hs] at h1
    cases h1
  refine ⟨?_, nodup_foldl_write tD _ _ hf1⟩
  exact {
    known := by
      intro n hn
      left
      have hc : AL.contains files2 n = true := (AL_mem_keys_iff_contains _ _).1 hn
      rw [AL.contains_iff_get?] at hc
      obtain ⟨f, hf2⟩ := hc
      rw [g2] at hf2
      show AL.contains (fs.entries.map fun p => (p.1, savedEntry zip tS files2 p.1 p.2)) n = true
      rw [← AL_mem_keys_iff_contains, kE, AL_mem_keys_iff_contains]
      cases hg : AL.get? fs.entries n with
      | some e => simp [AL.contains, hg]
      | none =>
        simp only [hg, Option.bind_none] at hf2
        rw [g1] at hf2
        by_cases hs : n ∈ AL.keys fs.sched
        · simp [hs] at hf2
        · simp only [hs, if_false] at hf2
          rcases h.known n (AL.mem_keys_of_get? hf2) with h1 | h1
          · simp [AL.contains, hg] at h1
          · exact absurd ((AL_mem_keys_iff_contains _ _).2 h1) hs
    onDisk := by
      intro n e' hm
      obtain ⟨e, hg, hmem, rfl⟩ := back n e' hm
      have hns := notSched n e hg
      unfold AL.contains
      rw [g2, hg]
      simp only [Option.bind_some]
      cases hw : writeOf e with
      | some b =>
        rw [(savedEntry_of_write hw).1]
        simp
      | none =>
        rw [savedEntry_of_none hw]
        simp only
        rw [g1]
        simp only [hns, if_false]
        exact h.onDisk n e hmem
    digest := by
      intro n e' f hm hf2 hdata
      obtain ⟨e, hg, hmem, rfl⟩ := back n e' hm
      have hns := notSched n e hg
      rw [g2, hg] at hf2
      simp only [Option.bind_some] at hf2
      cases hw : writeOf e with
      | some b =>
        rw [hw] at hf2
        simp only at hf2
        injection hf2 with hf2
        subst hf2
        rw [(savedEntry_of_write hw).1, writeAt_blob]
      | none =>
        rw [hw] at hf2
        simp only at hf2
        rw [g1] at hf2
        simp only [hns, if_false] at hf2
        rw [savedEntry_of_none hw] at hdata ⊢
        exact h.digest n e f hmem hf2 hdata
    unloaded := by
      intro n e' hm hdata
      obtain ⟨e, hg, hmem, rfl⟩ := back n e' hm
      cases hw : writeOf e with
      | some b =>
        rw [(savedEntry_of_write hw).1]
      | none =>
        rw [savedEntry_of_none hw] at hdata ⊢
        exact h.unloaded n e hmem hdata
    schedOnDisk := by intro n e hg; simp at hg
    schedDigest := by intro n e f hg; simp at hg
    schedUnloaded := by intro n e hg; simp at hg
    nodupSched := by simp [AL.keys]
    nodupEntries := hnE }


theorem core_saveFS {s : State} (h : SaveCore s) (ht : Tidy s) (tD tS : Time) (img : Bool) :
    SaveCore (saveFS tD tS s img) ∧ Tidy (saveFS tD tS s img) := by
  rw [saveFS_eq]
  cases img with
  | true =>
    obtain ⟨k1, k2⟩ := fsSynced_save h.images ht.imagesDisjoint ht.disk.images s.zip tD tS
    refine ⟨⟨h.parts, h.order, h.default, h.layers, k1, h.data, h.nodupOrder⟩, ?_⟩
    exact ⟨ht.history, ht.layersInOrder, ht.schedNodup, by intro n _; rfl, ht.dataDisjoint, ⟨ht.disk.glifs, k2, ht.disk.data⟩⟩
  | false =>
    obtain ⟨k1, k2⟩ := fsSynced_save h.data ht.dataDisjoint ht.disk.data s.zip tD tS
    refine ⟨⟨h.parts, h.order, h.default, h.layers, h.images, k1, h.nodupOrder⟩, ?_⟩
    exact ⟨ht.history, ht.layersInOrder, ht.schedNodup, ht.imagesDisjoint, by intro n _; rfl, ⟨ht.disk.glifs, ht.disk.images, k2⟩⟩

theorem saveFS_zip (tD tS : Time) (s : State) (img : Bool) : (saveFS tD tS s img).zip = s.zip := by
  rw [saveFS_eq]; cases img <;> rfl


/-! ### the layer history replayed over the UFO -/

theorem applyAction_tame {d : Disk} {a : Action} (h : TameAction d.default a) : applyAction d a = d := by
  cases a with
  | new n => rfl
  | delete n => exact absurd h (by simp [TameAction])
  | default new old =>
    obtain ⟨h1, h2⟩ := h
    have fin : (if AL.contains d.layers new = true then { d with default := some new } else d) = d := by
      by_cases hc : AL.contains d.layers new = true
      · simp only [hc, if_true]; cases d; simp_all
      · simp only [hc]; rfl
    cases old with
    | none => exact fin
    | some o =>
      have : d.default ≠ some o := by
        rw [h1]; intro e; injection e with e; subst e; exact h2 rfl
      unfold applyAction
      simp only [this, if_false]
      exact fin

theorem foldl_applyAction_tame {d : Disk} {hist : List Action} (h : ∀ a, a ∈ hist → TameAction d.default a) :
    hist.foldl applyAction d = d := by
  induction hist with
  | nil => rfl
  | cons a r ih =>
    simp only [List.foldl_cons]
    rw [applyAction_tame (h a (by simp))]
    exact ih fun b hb => h b (by simp [hb])

/-! ### one layer: `Layer.save`, layer info, stamps -/

def glyphWrite (g : MGlyph) : Option Blob := if g.dirty then some g.value else none

def glyphWriteStep (tD : Time) (fl : List (String × File)) (p : String × MGlyph) : List (String × File) :=
  if p.2.dirty then writeFile fl p.1 p.2.value tD else fl

theorem get?_foldl_glyphWrite (tD : Time) (G : List (String × MGlyph)) (hn : (AL.keys G).Nodup)
    (fl : List (String × File)) (n : String) :
    AL.get? (G.foldl (glyphWriteStep tD) fl) n =
      match (AL.get? G n).bind glyphWrite with
      | some b => some (writeAt (AL.get? fl n) b tD)
      | none => AL.get? fl n := by
  induction G generalizing fl with
  | nil => simp
  | cons p r ih =>
    obtain ⟨k, g⟩ := p
    simp only [AL.keys, List.map_cons, List.nodup_cons] at hn
    simp only [List.foldl_cons]
    rw [ih (by simpa [AL.keys] using hn.2)]
    by_cases hk : k = n
    · subst hk
      have hr : AL.get? r k = none := AL.get?_eq_none_of_not_mem (by simpa [AL.keys] using hn.1)
      simp only [hr, Option.bind_none, AL.get?_cons, if_true, Option.bind_some]
      unfold glyphWriteStep glyphWrite
      by_cases hd : g.dirty = true
      · simp [hd, get?_writeFile]
      · simp [hd]
    · simp only [AL.get?_cons, hk, if_false]
      have : AL.get? (glyphWriteStep tD fl (k, g)) n = AL.get? fl n := by
        unfold glyphWriteStep
        by_cases hd : g.dirty = true
        · simp [hd, get?_writeFile, hk]
        · simp [hd]
      rw [this]

theorem nodup_foldl_glyphWrite (tD : Time) (G : List (String × MGlyph)) (fl : List (String × File))
    (h : (AL.keys fl).Nodup) : (AL.keys (G.foldl (glyphWriteStep tD) fl)).Nodup := by
  induction G generalizing fl with
  | nil => exact h
  | cons p r ih =>
    simp only [List.foldl_cons]
    apply ih
    unfold glyphWriteStep
    split
    · exact nodup_writeFile _ _ _ _ h
    · exact h

/-- the glyph after the save -/
def savedGlyph (zip : Bool) (tS : Time) (glifs1 : List (String × File)) (n : String) (g : MGlyph) : MGlyph :=
  if g.dirty then
    { g with dirty := false, stamp := (AL.get? glifs1 n).map (fun f => ⟨f.blob, if zip then tS else f.mtime⟩) }
  else g

theorem saveLayer_eq (zip : Bool) (tD tS : Time) (dl : DLayer) (l : MLayer) :
    saveLayer zip tD tS dl l =
      let glifs1 := l.glyphs.foldl (glyphWriteStep tD) dl.glifs
      let glifs2 := (AL.keys l.sched).foldl (fun fl n => AL.erase fl n) glifs1
      ({ info := l.info, glifs := glifs2 },
       { l with glyphs := l.glyphs.map fun p => (p.1, savedGlyph zip tS glifs1 p.1 p.2), sched := [],
                infoStamp := some l.info }) := by
  unfold saveLayer
  simp only
  have e1 : ∀ fl : List (String × File), l.sched.foldl (fun fl p => AL.erase fl p.1) fl =
      (AL.keys l.sched).foldl (fun fl n => AL.erase fl n) fl := by
    intro fl; simp [AL.keys, List.foldl_map]
  rw [e1]
  have key : ∀ (glifs1 : List (String × File)) (G : List (String × MGlyph)),
      G.map (fun p => if p.2.dirty then
          (p.1, ({ p.2 with dirty := false,
                            stamp := (AL.get? glifs1 p.1).map (fun f => ⟨f.blob, if zip then tS else f.mtime⟩) } : MGlyph))
        else p) = G.map (fun p => (p.1, savedGlyph zip tS glifs1 p.1 p.2)) := by
    intro glifs1 G
    apply List.map_congr_left
    intro p _
    unfold savedGlyph
    split <;> rfl
  exact congrArg (fun g => (({ info := l.info, glifs := _ } : DLayer),
    ({ l with glyphs := g, sched := [], infoStamp := some l.info } : MLayer))) (key _ _)

/-- SAVE, one layer.  A layer in step except for memory-only glyphs, saved and re-bound to the glyph
set the writer leaves, is in step with the directory the save leaves. -/
theorem layerSynced_save {ln : String} {dl : DLayer} {l : MLayer} (h : LayerSyncedM ln dl l)
    (hnd : (AL.keys dl.glifs).Nodup) (zip : Bool) (tD tS : Time) :
    LayerSynced ln (saveLayer zip tD tS dl l).1
      { (saveLayer zip tD tS dl l).2 with gs := some ⟨ln, AL.keys (saveLayer zip tD tS dl l).1.glifs, true⟩ } ∧
    (AL.keys (saveLayer zip tD tS dl l).1.glifs).Nodup := by
  rw [saveLayer_eq]
  simp only
  generalize hg1 : l.glyphs.foldl (glyphWriteStep tD) dl.glifs = glifs1
  generalize hg2 : (AL.keys l.sched).foldl (fun fl n => AL.erase fl n) glifs1 = glifs2
  have hn1 : (AL.keys glifs1).Nodup := by rw [← hg1]; exact nodup_foldl_glyphWrite tD _ _ hnd
  have g1 : ∀ n, AL.get? glifs1 n = match (AL.get? l.glyphs n).bind glyphWrite with
      | some b => some (writeAt (AL.get? dl.glifs n) b tD)
      | none => AL.get? dl.glifs n := by
    intro n; rw [← hg1]; exact get?_foldl_glyphWrite tD _ h.nodupGlyphs _ n
  have g2 : ∀ n, AL.get? glifs2 n = if n ∈ AL.keys l.sched then none else AL.get? glifs1 n := by
    intro n; rw [← hg2]; exact AL.get?_foldl_erase _ _ _ hn1
  have hn2 : (AL.keys glifs2).Nodup := by rw [← hg2]; exact AL.nodup_keys_foldl_erase _ _ hn1
  have gG : ∀ n, AL.get? (l.glyphs.map fun p => (p.1, savedGlyph zip tS glifs1 p.1 p.2)) n =
      (AL.get? l.glyphs n).map (savedGlyph zip tS glifs1 n) :=
    fun n => get?_map_key_val (fun k g => savedGlyph zip tS glifs1 k g) l.glyphs n
  have kG : AL.keys (l.glyphs.map fun p => (p.1, savedGlyph zip tS glifs1 p.1 p.2)) = AL.keys l.glyphs := by
    simp [AL.keys, List.map_map, Function.comp_def]
  have hnG : (AL.keys (l.glyphs.map fun p => (p.1, savedGlyph zip tS glifs1 p.1 p.2))).Nodup := by
    rw [kG]; exact h.nodupGlyphs
  have back : ∀ n g', (n, g') ∈ (l.glyphs.map fun p => (p.1, savedGlyph zip tS glifs1 p.1 p.2)) →
      ∃ g, AL.get? l.glyphs n = some g ∧ (n, g) ∈ l.glyphs ∧ g' = savedGlyph zip tS glifs1 n g := by
    intro n g' hm
    have := AL.get?_of_mem_nodup hnG hm
    rw [gG] at this
    cases hg : AL.get? l.glyphs n with
    | none => simp [hg] at this
    | some g =>
      simp [hg] at this
      exact ⟨g, rfl, AL.mem_of_get? hg, this.symm⟩
  -- a key is not scheduled for deletion
  have keyNotSched : ∀ n, n ∈ l.keys → n ∉ AL.keys l.sched := by
    intro n hk hs
    have := h.disjoint n hk
    rw [(AL_mem_keys_iff_contains _ _).1 hs] at this
    cases this
  -- every key has a file after the glyphs were written
  have keyFile : ∀ n, n ∈ l.keys → ∃ f, AL.get? glifs1 n = some f := by
    intro n hk
    rw [g1]
    rcases h.known n hk with hd | ⟨g, hg, hdirty⟩
    · obtain ⟨f, hf⟩ := AL_get?_some_of_contains ((AL_mem_keys_iff_contains _ _).1 hd)
      cases (AL.get? l.glyphs n).bind glyphWrite with
      | none => exact ⟨f, hf⟩
      | some b => exact ⟨_, rfl⟩
    · simp [hg, glyphWrite, hdirty]
  refine ⟨?_, hn2⟩
  exact {
    info := rfl
    names := by
      intro n
      simp only [AL.contains, AL.get?_nil, Option.isSome_none, Bool.false_eq_true, or_false]
      constructor
      · intro hn
        obtain ⟨f, hf⟩ := AL_get?_some_of_contains ((AL_mem_keys_iff_contains _ _).1 hn)
        rw [g2] at hf
        by_cases hs : n ∈ AL.keys l.sched
        · simp [hs] at hf
        · simp only [hs, if_false] at hf
          rw [g1] at hf
          cases hg : AL.get? l.glyphs n with
          | some g => exact h.loaded n g (AL.mem_of_get? hg)
          | none =>
            simp only [hg, Option.bind_none] at hf
            rcases h.onDisk n (AL.mem_keys_of_get? hf) with hk | hk
            · exact hk
            · exact absurd ((AL_mem_keys_iff_contains _ _).2 hk) hs
      · intro hk
        obtain ⟨f, hf⟩ := keyFile n hk
        apply AL.mem_keys_of_get? (v := f)
        rw [g2]
        simp [keyNotSched n hk, hf]
    disjoint := by intro n _; rfl
    glyphs := by
      intro n g' st hm hst
      obtain ⟨g, hg, hmem, rfl⟩ := back n g' hm
      have hk := h.loaded n g hmem
      have hns := keyNotSched n hk
      rw [g2]
      simp only [hns, if_false]
      unfold savedGlyph at hst
      by_cases hd : g.dirty = true
      · simp only [hd, if_true] at hst
        obtain ⟨f, hf⟩ := keyFile n hk
        rw [hf] at hst
        simp only [Option.map_some, Option.some.injEq] at hst
        subst hst
        exact ⟨f, hf, rfl⟩
      · simp only [hd] at hst
        have hnot : (AL.get? l.glyphs n).bind glyphWrite = none := by simp [hg, glyphWrite, hd]
        rw [g1, hnot]
        have hon : n ∈ AL.keys dl.glifs := by
          rcases h.known n hk with hd' | ⟨g2', hg2', hdirty⟩
          · exact hd'
          · rw [hg] at hg2'; injection hg2' with e; subst e; exact absurd hdirty hd
        exact h.glyphs n g st hmem hst hon
    sched := by intro n st hg; simp at hg
    gs := ⟨_, rfl, rfl, rfl, fun _ => Iff.rfl⟩
    loaded := by
      intro n g' hm
      obtain ⟨g, _, hmem, _⟩ := back n g' hm
      exact h.loaded n g hmem
    nodupGlyphs := hnG }


/-! ### all layers of the order -/

theorem saveOneLayer_eq {s : State} {ln : String} {l : MLayer} {dl : DLayer} (tD tS : Time)
    (hl : getLayer s ln = some l) (hdl : AL.get? s.disk.layers ln = some dl) :
    saveOneLayer tD tS s ln =
      { s with disk := { s.disk with layers := AL.set s.disk.layers ln (saveLayer s.zip tD tS dl l).1 }
               font := { s.font with layers := AL.set s.font.layers ln (saveLayer s.zip tD tS dl l).2 } } := by
  unfold saveOneLayer
  simp only [hl]
  have hc : AL.contains s.disk.layers ln = true := by simp [AL.contains, hdl]
  simp only [hc, if_true, hdl, Option.getD_some]
  rfl

theorem foldl_saveOneLayer (tD tS : Time) (L : List String) (hL : L.Nodup) (s : State)
    (hall : ∀ ln, ln ∈ L → ∃ l dl, getLayer s ln = some l ∧ AL.get? s.disk.layers ln = some dl) :
    ∃ DL FL, L.foldl (saveOneLayer tD tS) s =
        { s with disk := { s.disk with layers := DL }, font := { s.font with layers := FL } } ∧
      AL.keys DL = AL.keys s.disk.layers ∧ AL.keys FL = AL.keys s.font.layers ∧
      (∀ ln, ln ∉ L → AL.get? FL ln = AL.get? s.font.layers ln ∧ AL.get? DL ln = AL.get? s.disk.layers ln) ∧
      (∀ ln, ln ∈ L → ∀ l dl, getLayer s ln = some l → AL.get? s.disk.layers ln = some dl →
        AL.get? FL ln = some (saveLayer s.zip tD tS dl l).2 ∧ AL.get? DL ln = some (saveLayer s.zip tD tS dl l).1) := by
  induction L generalizing s with
  | nil =>
    refine ⟨s.disk.layers, s.font.layers, rfl, rfl, rfl, fun _ _ => ⟨rfl, rfl⟩, ?_⟩
    intro ln hln; simp at hln
  | cons ln r ih =>
    simp only [List.nodup_cons] at hL
    obtain ⟨l, dl, hl, hdl⟩ := hall ln (by simp)
    simp only [List.foldl_cons]
    rw [saveOneLayer_eq tD tS hl hdl]
    generalize hs1 : ({ s with disk := { s.disk with layers := AL.set s.disk.layers ln (saveLayer s.zip tD tS dl l).1 }
                               font := { s.font with layers := AL.set s.font.layers ln (saveLayer s.zip tD tS dl l).2 } } : State) = s1
    have d1 : s1.disk.layers = AL.set s.disk.layers ln (saveLayer s.zip tD tS dl l).1 := by rw [← hs1]
    have f1 : s1.font.layers = AL.set s.font.layers ln (saveLayer s.zip tD tS dl l).2 := by rw [← hs1]
    have z1 : s1.zip = s.zip := by rw [← hs1]
    have hall1 : ∀ x, x ∈ r → ∃ l dl, getLayer s1 x = some l ∧ AL.get? s1.disk.layers x = some dl := by
      intro x hx
      have hne : ln ≠ x := fun e => hL.1 (e ▸ hx)
      obtain ⟨lx, dlx, h1, h2⟩ := hall x (by simp [hx])
      refine ⟨lx, dlx, ?_, ?_⟩
      · unfold getLayer; rw [f1, AL.get?_set_ne _ _ _ _ hne]; exact h1
      · rw [d1, AL.get?_set_ne _ _ _ _ hne]; exact h2
    obtain ⟨DL, FL, e, kD, kF, hout, hin⟩ := ih hL.2 s1 hall1
    refine ⟨DL, FL, ?_, ?_, ?_, ?_, ?_⟩
    · rw [e, ← hs1]
    · rw [kD, d1]; exact keys_set_of_get? _ hdl
    · rw [kF, f1]; exact keys_set_of_get? _ hl
    · intro x hx
      simp only [List.mem_cons, not_or] at hx
      obtain ⟨h1, h2⟩ := hout x hx.2
      have hne : ln ≠ x := fun e => hx.1 e.symm
      rw [h1, h2, f1, d1, AL.get?_set_ne _ _ _ _ hne, AL.get?_set_ne _ _ _ _ hne]
      exact ⟨rfl, rfl⟩
    · intro x hx lx dlx hlx hdlx
      simp only [List.mem_cons] at hx
      by_cases hxl : x = ln
      · subst hxl
        obtain ⟨h1, h2⟩ := hout x hL.1
        rw [h1, h2, f1, d1, AL.get?_set_self, AL.get?_set_self]
        rw [hl] at hlx; injection hlx with hlx; subst hlx
        rw [hdl] at hdlx; injection hdlx with hdlx; subst hdlx
        exact ⟨rfl, rfl⟩
      · have hxr : x ∈ r := by rcases hx with hx | hx; exact absurd hx hxl; exact hx
        have hne : ln ≠ x := fun e => hxl e.symm
        have := hin x hxr lx dlx (by unfold getLayer; rw [f1, AL.get?_set_ne _ _ _ _ hne]; exact hlx)
          (by rw [d1, AL.get?_set_ne _ _ _ _ hne]; exact hdlx)
        rw [z1] at this
        exact this

theorem filterMap_congr_mem {α β : Type} {f g : α → Option β} {l : List α} (h : ∀ x, x ∈ l → f x = g x) :
    l.filterMap f = l.filterMap g := by
  induction l with
  | nil => rfl
  | cons a r ih =>
    simp only [List.filterMap_cons]
    rw [h a (by simp), ih fun x hx => h x (by simp [hx])]

theorem filterMap_keys_self {α : Type} (l : List (String × α)) (hn : (AL.keys l).Nodup) :
    (AL.keys l).filterMap (fun n => (AL.get? l n).map fun v => (n, v)) = l := by
  induction l with
  | nil => rfl
  | cons p r ih =>
    obtain ⟨k, v⟩ := p
    simp only [AL.keys, List.map_cons, List.nodup_cons] at hn
    simp only [AL.keys, List.map_cons, List.filterMap_cons, AL.get?_cons, if_true, Option.map_some]
    congr 1
    have : ∀ n, n ∈ r.map Prod.fst →
        (if k = n then some v else AL.get? r n).map (fun v => (n, v)) = (AL.get? r n).map (fun v => (n, v)) := by
      intro n hn'
      have hne : k ≠ n := fun e => hn.1 (e ▸ hn')
      simp [hne]
    rw [filterMap_congr_mem this]
    exact ih (by simpa [AL.keys] using hn.2)

/-! ### a rewritten zip archive: every file gets a new time, no byte changes -/

theorem diskData_retime (t : Time) (d : Disk) (p : Part) : diskData (retime t d) p = diskData d p := by
  unfold diskData retime
  simp only
  rw [get?_retimeFiles]
  cases AL.get? d.parts p <;> rfl

theorem keys_retimeFiles {κ : Type} (t : Time) (files : List (κ × File)) :
    AL.keys (retimeFiles t files) = AL.keys files := by
  simp [AL.keys, retimeFiles, List.map_map, Function.comp_def]

theorem layerNames_retime (t : Time) (d : Disk) : layerNames (retime t d) = layerNames d := by
  simp [layerNames, retime, AL.keys, List.map_map, Function.comp_def]

theorem glifNames_retime (t : Time) (d : Disk) (ln : String) : glifNames (retime t d) ln = glifNames d ln := by
  unfold glifNames retime
  simp only
  rw [get?_retime_layers]
  cases AL.get? d.layers ln with
  | none => rfl
  | some dl => simp [keys_retimeFiles]

theorem contains_retimeFiles {κ : Type} [DecidableEq κ] (t : Time) (files : List (κ × File)) (k : κ) :
    AL.contains (retimeFiles t files) k = AL.contains files k := by
  unfold AL.contains
  rw [get?_retimeFiles]
  cases AL.get? files k <;> rfl

theorem layerSynced_retime {ln : String} {dl : DLayer} {l : MLayer} (h : LayerSynced ln dl l) (t : Time) :
    LayerSynced ln { dl with glifs := retimeFiles t dl.glifs } l where
  info := h.info
  names := by intro gn; rw [keys_retimeFiles]; exact h.names gn
  disjoint := h.disjoint
  glyphs := by
    intro gn g st hm hst
    obtain ⟨f, hf, hb⟩ := h.glyphs gn g st hm hst
    exact ⟨{ f with mtime := t }, by simp only; rw [get?_retimeFiles, hf]; rfl, hb⟩
  sched := by
    intro gn st hg
    obtain ⟨f, st', hf, h1, h2⟩ := h.sched gn st hg
    exact ⟨{ f with mtime := t }, st', by simp only; rw [get?_retimeFiles, hf]; rfl, h1, h2⟩
  gs := by
    obtain ⟨g, h1, h2, h3, h4⟩ := h.gs
    exact ⟨g, h1, h2, h3, by intro gn; rw [keys_retimeFiles]; exact h4 gn⟩
  loaded := h.loaded
  nodupGlyphs := h.nodupGlyphs

theorem fsSynced_retime {files : List (String × File)} {fs : FileSet} (h : FSSynced files fs) (t : Time) :
    FSSynced (retimeFiles t files) fs where
  known := by intro n hn; rw [keys_retimeFiles] at hn; exact h.known n hn
  onDisk := by intro n e hm; rw [contains_retimeFiles]; exact h.onDisk n e hm
  digest := by
    intro n e f hm hf hd
    rw [get?_retimeFiles] at hf
    cases hg : AL.get? files n with
    | none => simp [hg] at hf
    | some f0 =>
      simp [hg] at hf
      subst hf
      exact h.digest n e f0 hm hg hd
  unloaded := h.unloaded
  schedOnDisk := by intro n e hg hc; rw [contains_retimeFiles]; exact h.schedOnDisk n e hg hc
  schedDigest := by
    intro n e f hg hf
    rw [get?_retimeFiles] at hf
    cases hg' : AL.get? files n with
    | none => simp [hg'] at hf
    | some f0 =>
      simp [hg'] at hf
      subst hf
      exact h.schedDigest n e f0 hg hg'
  schedUnloaded := h.schedUnloaded
  nodupSched := h.nodupSched
  nodupEntries := h.nodupEntries

/-- the archive rewritten (times `tD`), the font's reader on an archive with the same bytes (times `tS`) -/
theorem synced_retime {s : State} (h : Synced s) (tD tS : Time) :
    Synced { s with disk := retime tD s.disk, reader := retime tS s.disk } where
  parts := by
    intro p mp hg
    show mp.stamp.data = diskData (retime tD s.disk) p
    rw [diskData_retime]
    exact h.parts p mp hg
  order := by
    show s.font.order = layerNames (retime tD s.disk)
    rw [layerNames_retime]; exact h.order
  default := h.default
  layers := by
    intro ln hln
    obtain ⟨l, dl, h1, h2, h3⟩ := h.layers ln hln
    refine ⟨l, { dl with glifs := retimeFiles tD dl.glifs }, h1, ?_, layerSynced_retime h3 tD⟩
    show AL.get? (retime tD s.disk).layers ln = _
    unfold retime
    simp only
    rw [get?_retime_layers, h2]
    rfl
  images := fsSynced_retime h.images tD
  data := fsSynced_retime h.data tD
  reader := by
    intro _
    show stripTimes (retime tS s.disk) = stripTimes (retime tD s.disk)
    rw [stripTimes_retime, stripTimes_retime]
  nodupOrder := h.nodupOrder

theorem diskOk_retime {d : Disk} (h : DiskOk d) (t : Time) : DiskOk (retime t d) where
  glifs := by
    intro ln dl hg
    unfold retime at hg
    simp only at hg
    rw [get?_retime_layers] at hg
    cases hd : AL.get? d.layers ln with
    | none => simp [hd] at hg
    | some dl0 =>
      simp [hd] at hg
      subst hg
      simp only
      rw [keys_retimeFiles]
      exact h.glifs ln dl0 hd
  images := by show (AL.keys (retimeFiles t d.images)).Nodup; rw [keys_retimeFiles]; exact h.images
  data := by show (AL.keys (retimeFiles t d.data)).Nodup; rw [keys_retimeFiles]; exact h.data


/-! ### the whole save -/

/-- `Font.save` after the top-level files, images and data have been written: the layer history is
replayed, the layers are written, layercontents.plist is written, the font gets a new reader -/
def saveRest (zip hazard : Bool) (tD tS : Time) (s7 : State) : Except Err State :=
  if hazard then .error .outsideDomain else
  let s8 : State := { s7 with disk := s7.font.history.foldl applyAction s7.disk }
  let s9 := s7.font.order.foldl (saveOneLayer tD tS) s8
  if (layerNames s9.disk).all (· ∈ s9.font.order) then
    let layers := s9.font.order.filterMap fun n => (AL.get? s9.disk.layers n).map fun dl => (n, dl)
    let d1 : Disk := { s9.disk with layers := layers }
    let d2 := if zip then retime tD d1 else d1
    let s10 := rebindAll { s9 with disk := d2
                                   font := { s9.font with history := (s9.font.order.filter (some · ≠ s9.font.default)).map Action.new } }
    .ok (if zip then { s10 with reader := retime tS d1 } else s10)
  else .error .outsideDomain

theorem save_eq (s : State) (tD tS : Time) :
    save s tD tS = saveRest s.zip (replayHazard s.disk s.font.history) tD tS
      (saveFS tD tS (saveFS tD tS (savePart tD tS false (savePart tD tS true (savePart tD tS false
        (savePart tD tS true (savePart tD tS true s .info) .groups) .kerning) .lib) .features) true) false) := rfl

theorem tame_news (dflt : Option String) (L : List String) : ∀ a, a ∈ L.map Action.new → TameAction dflt a := by
  intro a ha
  simp only [List.mem_map] at ha
  obtain ⟨n, _, rfl⟩ := ha
  trivial

theorem contains_map_val {κ α β : Type} [DecidableEq κ] (f : κ → α → β) (l : List (κ × α)) (k : κ) :
    AL.contains (l.map fun p => (p.1, f p.1 p.2)) k = AL.contains l k := by
  unfold AL.contains
  rw [get?_map_key_val]
  cases AL.get? l k <;> rfl

theorem saveRest_spec {s7 s' : State} {zip hazard : Bool} {tD tS : Time} (c : SaveCore s7) (t : Tidy s7)
    (hz : s7.zip = zip) (hr : saveRest zip hazard tD tS s7 = .ok s') : Synced s' ∧ Tidy s' := by
  unfold saveRest at hr
  split at hr
  · cases hr
  · have e8 : ({ s7 with disk := s7.font.history.foldl applyAction s7.disk } : State) = s7 := by
      rw [foldl_applyAction_tame (by rw [← c.default]; exact t.history)]
    simp only [e8] at hr
    have hall : ∀ ln, ln ∈ s7.font.order → ∃ l dl, getLayer s7 ln = some l ∧ AL.get? s7.disk.layers ln = some dl := by
      intro ln hln
      obtain ⟨l, dl, h1, h2, _⟩ := c.layers ln hln
      exact ⟨l, dl, h1, h2⟩
    obtain ⟨DL, FL, e9, kD, kF, _, hin⟩ := foldl_saveOneLayer tD tS s7.font.order c.nodupOrder s7 hall
    rw [e9] at hr
    simp only at hr
    have hord : s7.font.order = AL.keys DL := by rw [kD]; exact c.order
    have hnD : (AL.keys DL).Nodup := by rw [← hord]; exact c.nodupOrder
    have hcond : (layerNames { s7.disk with layers := DL }).all (· ∈ s7.font.order) = true := by
      rw [List.all_eq_true]
      intro x hx
      have : x ∈ AL.keys DL := hx
      rw [← hord] at this
      simpa using this
    rw [if_pos hcond] at hr
    have hfm : (s7.font.order.filterMap fun n => (AL.get? DL n).map fun dl => (n, dl)) = DL := by
      rw [hord]; exact filterMap_keys_self DL hnD
    rw [hfm] at hr
    -- the state before the zip archive is re-dated
    generalize hX : rebindAll { s7 with
        disk := { s7.disk with layers := DL }
        font := { s7.font with layers := FL, history := (s7.font.order.filter (some · ≠ s7.font.default)).map Action.new } } = X
    have layerOf : ∀ ln, ln ∈ s7.font.order → ∃ l dl, AL.get? s7.font.layers ln = some l ∧
        AL.get? s7.disk.layers ln = some dl ∧ LayerSyncedM ln dl l ∧
        AL.get? FL ln = some (saveLayer zip tD tS dl l).2 ∧ AL.get? DL ln = some (saveLayer zip tD tS dl l).1 := by
      intro ln hln
      obtain ⟨l, dl, h1, h2, h3⟩ := c.layers ln hln
      obtain ⟨h4, h5⟩ := hin ln hln l dl h1 h2
      rw [hz] at h4 h5
      exact ⟨l, dl, h1, h2, h3, h4, h5⟩
    have hXs : Synced X := by
      rw [← hX]
      exact {
        parts := c.parts
        order := hord
        default := c.default
        layers := by
          intro ln hln
          obtain ⟨l, dl, _, h2, h3, h4, h5⟩ := layerOf ln hln
          obtain ⟨k1, _⟩ := layerSynced_save h3 (t.disk.glifs ln dl h2) zip tD tS
          refine ⟨_, _, ?_, h5, k1⟩
          show AL.get? (FL.map fun p => (p.1, ({ p.2 with gs := some ⟨p.1, glifNames { s7.disk with layers := DL } p.1, true⟩ } : MLayer))) ln = _
          rw [get?_map_key_val (fun k (v : MLayer) => ({ v with gs := some ⟨k, glifNames { s7.disk with layers := DL } k, true⟩ } : MLayer)),
            h4]
          simp only [Option.map_some, glifNames, h5]
        images := c.images
        data := c.data
        reader := fun _ => rfl
        nodupOrder := c.nodupOrder }
    have hXt : Tidy X := by
      rw [← hX]
      exact {
        history := tame_news _ _
        layersInOrder := by
          intro ln hc
          have hc' : AL.contains (FL.map fun p => (p.1, ({ p.2 with gs := some ⟨p.1, glifNames { s7.disk with layers := DL } p.1, true⟩ } : MLayer))) ln = true := hc
          rw [contains_map_val (fun k (v : MLayer) => ({ v with gs := some ⟨k, glifNames { s7.disk with layers := DL } k, true⟩ } : MLayer))] at hc'
          apply t.layersInOrder
          rw [← AL_mem_keys_iff_contains, ← kF, AL_mem_keys_iff_contains]
          exact hc'
        schedNodup := by
          intro ln l' hg
          have hg' : AL.get? (FL.map fun p => (p.1, ({ p.2 with gs := some ⟨p.1, glifNames { s7.disk with layers := DL } p.1, true⟩ } : MLayer))) ln = some l' := hg
          rw [get?_map_key_val (fun k (v : MLayer) => ({ v with gs := some ⟨k, glifNames { s7.disk with layers := DL } k, true⟩ } : MLayer))] at hg'
          cases hf : AL.get? FL ln with
          | none => simp [hf] at hg'
          | some l0 =>
            simp [hf] at hg'
            subst hg'
            have hln : ln ∈ s7.font.order := by
              apply t.layersInOrder
              rw [← AL_mem_keys_iff_contains, ← kF]
              exact AL.mem_keys_of_get? hf
            obtain ⟨l, dl, _, _, _, h4, _⟩ := layerOf ln hln
            rw [hf] at h4
            injection h4 with h4
            subst h4
            rw [saveLayer_eq]
            simp [AL.keys]
        imagesDisjoint := t.imagesDisjoint
        dataDisjoint := t.dataDisjoint
        disk := {
          glifs := by
            intro ln dl' hg
            have hg' : AL.get? DL ln = some dl' := hg
            have hln : ln ∈ s7.font.order := by rw [hord]; exact AL.mem_keys_of_get? hg'
            obtain ⟨l, dl, _, h2, h3, _, h5⟩ := layerOf ln hln
            rw [h5] at hg'
            injection hg' with hg'
            subst hg'
            exact (layerSynced_save h3 (t.disk.glifs ln dl h2) zip tD tS).2
          images := t.disk.images
          data := t.disk.data } }
    cases zip with
    | false =>
      simp only [Bool.false_eq_true, if_false] at hr
      injection hr with hr
      rw [hX] at hr
      subst hr
      exact ⟨hXs, hXt⟩
    | true =>
      simp only [if_true] at hr
      injection hr with hr
      have hfin : s' = { X with disk := retime tD X.disk, reader := retime tS X.disk } := by
        rw [← hr, ← hX]
        unfold rebindAll
        simp only [State.mk.injEq, Font.mk.injEq, true_and, and_true]
        apply List.map_congr_left
        intro p _
        rw [glifNames_retime]
      rw [hfin]
      refine ⟨synced_retime hXs tD tS, ?_⟩
      exact hXt.congr rfl rfl rfl rfl rfl rfl (diskOk_retime hXt.disk tD)

/-- SAVE.  A completed in-place save of a font that is in step with its UFO except for glyphs that
exist in memory only, with nothing pending in the layer history, leaves the font in step. -/
theorem synced_save_M {s s' : State} (h : SyncedM s) (ht : Tidy s) {tD tS : Time} (hr : save s tD tS = .ok s') :
    Synced s' ∧ Tidy s' := by
  rw [save_eq] at hr
  have c1 := core_savePart h.core tD tS true .info
  have t1 := tidy_savePart ht tD tS true .info
  have c2 := core_savePart c1 tD tS true .groups
  have t2 := tidy_savePart t1 tD tS true .groups
  have c3 := core_savePart c2 tD tS false .kerning
  have t3 := tidy_savePart t2 tD tS false .kerning
  have c4 := core_savePart c3 tD tS true .lib
  have t4 := tidy_savePart t3 tD tS true .lib
  have c5 := core_savePart c4 tD tS false .features
  have t5 := tidy_savePart t4 tD tS false .features
  obtain ⟨c6, t6⟩ := core_saveFS c5 t5 tD tS true
  obtain ⟨c7, t7⟩ := core_saveFS c6 t6 tD tS false
  refine saveRest_spec c7 t7 ?_ hr
  simp only [saveFS_zip, savePart_zip]

theorem synced_save {s s' : State} (h : Synced s) (ht : Tidy s) {tD tS : Time} (hr : save s tD tS = .ok s') :
    Synced s' ∧ Tidy s' := synced_save_M h.toM ht hr


/-! ### nothing stays scheduled for deletion across a completed save -/

theorem saveFS_sched (tD tS : Time) (s : State) (img : Bool) :
    (getFS (saveFS tD tS s img) img).sched = [] ∧ getFS (saveFS tD tS s img) (!img) = getFS s (!img) := by
  rw [saveFS_eq]
  cases img <;> exact ⟨rfl, rfl⟩

theorem get?_rebind (D : Disk) (FL : List (String × MLayer)) (ln : String) (l : MLayer)
    (h : AL.get? (FL.map fun p => (p.1, ({ p.2 with gs := some ⟨p.1, glifNames D p.1, true⟩ } : MLayer))) ln = some l) :
    ∃ l0, AL.get? FL ln = some l0 ∧ l.sched = l0.sched := by
  rw [get?_map_key_val (fun k (v : MLayer) => ({ v with gs := some ⟨k, glifNames D k, true⟩ } : MLayer))] at h
  cases hf : AL.get? FL ln with
  | none => simp [hf] at h
  | some l0 =>
    simp [hf] at h
    exact ⟨l0, rfl, by rw [← h]⟩

theorem saveRest_sched {s7 s' : State} {zip hazard : Bool} {tD tS : Time} (c : SaveCore s7) (t : Tidy s7)
    (hz : s7.zip = zip) (hi : s7.font.images.sched = []) (hd : s7.font.data.sched = [])
    (hr : saveRest zip hazard tD tS s7 = .ok s') :
    (∀ ln l, ln ∈ s'.font.order → getLayer s' ln = some l → l.sched = []) ∧
      s'.font.images.sched = [] ∧ s'.font.data.sched = [] := by
  unfold saveRest at hr
  split at hr
  · cases hr
  · have e8 : ({ s7 with disk := s7.font.history.foldl applyAction s7.disk } : State) = s7 := by
      rw [foldl_applyAction_tame (by rw [← c.default]; exact t.history)]
    simp only [e8] at hr
    have hall : ∀ ln, ln ∈ s7.font.order → ∃ l dl, getLayer s7 ln = some l ∧ AL.get? s7.disk.layers ln = some dl := by
      intro ln hln
      obtain ⟨l, dl, h1, h2, _⟩ := c.layers ln hln
      exact ⟨l, dl, h1, h2⟩
    obtain ⟨DL, FL, e9, kD, kF, _, hin⟩ := foldl_saveOneLayer tD tS s7.font.order c.nodupOrder s7 hall
    rw [e9] at hr
    simp only at hr
    have hord : s7.font.order = AL.keys DL := by rw [kD]; exact c.order
    have hcond : (layerNames { s7.disk with layers := DL }).all (· ∈ s7.font.order) = true := by
      rw [List.all_eq_true]
      intro x hx
      have : x ∈ AL.keys DL := hx
      rw [← hord] at this
      simpa using this
    rw [if_pos hcond] at hr
    have key : ∀ (X : State), X.font.order = s7.font.order → X.font.images = s7.font.images → X.font.data = s7.font.data →
        (∀ ln l, AL.get? X.font.layers ln = some l → ∃ l0, AL.get? FL ln = some l0 ∧ l.sched = l0.sched) →
        (∀ ln l, ln ∈ X.font.order → getLayer X ln = some l → l.sched = []) ∧
          X.font.images.sched = [] ∧ X.font.data.sched = [] := by
      intro X h1 h2 h3 h4
      refine ⟨?_, by rw [h2]; exact hi, by rw [h3]; exact hd⟩
      intro ln l hln hl
      rw [h1] at hln
      obtain ⟨l0, dl0, g1, g2, _⟩ := c.layers ln hln
      obtain ⟨g3, _⟩ := hin ln hln l0 dl0 g1 g2
      obtain ⟨l1, g4, g5⟩ := h4 ln l hl
      rw [g3] at g4
      injection g4 with g4
      rw [g5, ← g4, saveLayer_eq]
    cases zip with
    | false =>
      simp only [Bool.false_eq_true, if_false] at hr
      injection hr with hr
      subst hr
      exact key _ rfl rfl rfl (fun ln l hl => get?_rebind _ FL ln l hl)
    | true =>
      simp only [if_true] at hr
      injection hr with hr
      subst hr
      exact key _ rfl rfl rfl (fun ln l hl => get?_rebind _ FL ln l hl)

theorem save_sched {s s' : State} (h : SyncedM s) (ht : Tidy s) {tD tS : Time} (hr : save s tD tS = .ok s') :
    (∀ ln l, ln ∈ s'.font.order → getLayer s' ln = some l → l.sched = []) ∧
      s'.font.images.sched = [] ∧ s'.font.data.sched = [] := by
  rw [save_eq] at hr
  have c1 := core_savePart h.core tD tS true .info
  have t1 := tidy_savePart ht tD tS true .info
  have c2 := core_savePart c1 tD tS true .groups
  have t2 := tidy_savePart t1 tD tS true .groups
  have c3 := core_savePart c2 tD tS false .kerning
  have t3 := tidy_savePart t2 tD tS false .kerning
  have c4 := core_savePart c3 tD tS true .lib
  have t4 := tidy_savePart t3 tD tS true .lib
  have c5 := core_savePart c4 tD tS false .features
  have t5 := tidy_savePart t4 tD tS false .features
  obtain ⟨c6, t6⟩ := core_saveFS c5 t5 tD tS true
  obtain ⟨c7, t7⟩ := core_saveFS c6 t6 tD tS false
  refine saveRest_sched c7 t7 ?_ ?_ ?_ hr
  · simp only [saveFS_zip, savePart_zip]
  · have a := (saveFS_sched tD tS (saveFS tD tS (savePart tD tS false (savePart tD tS true (savePart tD tS false
        (savePart tD tS true (savePart tD tS true s .info) .groups) .kerning) .lib) .features) true) false).2
    have b := (saveFS_sched tD tS (savePart tD tS false (savePart tD tS true (savePart tD tS false
        (savePart tD tS true (savePart tD tS true s .info) .groups) .kerning) .lib) .features) true).1
    have a' : (saveFS tD tS (saveFS tD tS (savePart tD tS false (savePart tD tS true (savePart tD tS false
        (savePart tD tS true (savePart tD tS true s .info) .groups) .kerning) .lib) .features) true) false).font.images =
        (saveFS tD tS (savePart tD tS false (savePart tD tS true (savePart tD tS false
        (savePart tD tS true (savePart tD tS true s .info) .groups) .kerning) .lib) .features) true).font.images := a
    rw [a']
    exact b
  · exact (saveFS_sched tD tS _ false).1

end Ext
end DefconModel
