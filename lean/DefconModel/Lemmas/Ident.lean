/-
Helper lemmas for C10 (M-Ident).  Counting arguments: every operation changes how often an
identifier is held and whether it is registered by the same amount.
-/
import DefconModel.Spec.Ident

namespace DefconModel
namespace Ident

/-! ### sums over edited lists -/

section sums
variable {α : Type}

theorem sum_map_insertAt (f : α → Nat) (n : Nat) (a : α) (l : List α) :
    ((insertAt n a l).map f).sum = f a + (l.map f).sum := by
  induction l generalizing n with
  | nil => cases n <;> simp [insertAt]
  | cons b l ih =>
    cases n with
    | zero => simp [insertAt]
    | succ n => simp [insertAt, ih]; omega

theorem sum_map_eraseIdx (f : α → Nat) (l : List α) (i : Nat) (a : α) (h : l[i]? = some a) :
    (l.map f).sum = f a + ((l.eraseIdx i).map f).sum := by
  induction l generalizing i with
  | nil => simp at h
  | cons b l ih =>
    cases i with
    | zero => simp at h; subst h; simp
    | succ i =>
      simp at h
      simp [ih i h]; omega

theorem sum_map_set (f : α → Nat) (l : List α) (i : Nat) (a b : α) (h : l[i]? = some a) :
    ((l.set i b).map f).sum + f a = (l.map f).sum + f b := by
  induction l generalizing i with
  | nil => simp at h
  | cons c l ih =>
    cases i with
    | zero => simp at h; subst h; simp; omega
    | succ i =>
      simp at h
      have := ih i h
      simp only [List.set_cons_succ, List.map_cons, List.sum_cons]; omega

theorem sum_map_append (f : α → Nat) (l1 l2 : List α) :
    ((l1 ++ l2).map f).sum = (l1.map f).sum + (l2.map f).sum := by
  simp [List.sum_append]

theorem sum_map_take_drop (f : α → Nat) (l : List α) (n : Nat) :
    ((l.take n).map f).sum + ((l.drop n).map f).sum = (l.map f).sum := by
  rw [← sum_map_append, List.take_append_drop]

theorem sum_map_reverse (f : α → Nat) (l : List α) : (l.reverse.map f).sum = (l.map f).sum := by
  induction l with
  | nil => rfl
  | cons a l ih => simp [List.sum_append]; omega

theorem sum_map_sublist (f : α → Nat) {l1 l2 : List α} (h : l1.Sublist l2) :
    (l1.map f).sum ≤ (l2.map f).sum := by
  induction h with
  | slnil => simp
  | cons a _ ih => simp; omega
  | cons_cons a _ ih => simp; omega

end sums

/-! ### the indicator of the registry -/

theorem ind_le_one (reg : List Id) (x : Id) : ind reg x ≤ 1 := by
  unfold ind; split <;> omega

theorem mem_of_ind_pos {reg : List Id} {x : Id} (h : 0 < ind reg x) : x ∈ reg := by
  unfold ind at h; split at h
  · assumption
  · omega

theorem ind_of_mem {reg : List Id} {x : Id} (h : x ∈ reg) : ind reg x = 1 := by
  unfold ind; simp [h]

theorem ind_of_not_mem {reg : List Id} {x : Id} (h : x ∉ reg) : ind reg x = 0 := by
  unfold ind; simp [h]

theorem mem_regAdd (reg : List Id) (y x : Id) : x ∈ regAdd reg y ↔ x = y ∨ x ∈ reg := by
  unfold regAdd
  split
  · constructor
    · exact Or.inr
    · rintro (rfl | h)
      · assumption
      · exact h
  · simp [List.mem_append]; exact Or.comm

theorem nodup_regAdd {reg : List Id} (h : reg.Nodup) (y : Id) : (regAdd reg y).Nodup := by
  unfold regAdd
  split
  · exact h
  · rename_i hy
    rw [List.nodup_append]
    refine ⟨h, by simp, ?_⟩
    intro a ha b hb
    simp at hb; subst hb
    intro e; subst e; exact hy ha

theorem ind_regAdd {reg : List Id} {y : Id} (hy : y ∉ reg) (x : Id) :
    ind (regAdd reg y) x = ind reg x + cntO x (some y) := by
  unfold ind cntO
  simp only [mem_regAdd]
  by_cases hxy : y = x
  · subst hxy; simp [hy]
  · have : ¬ x = y := fun e => hxy e.symm
    simp [hxy, this]

theorem ind_erase {reg : List Id} (hn : reg.Nodup) {y : Id} (hy : y ∈ reg) (x : Id) :
    ind (reg.erase y) x + cntO x (some y) = ind reg x := by
  unfold ind cntO
  simp only [hn.mem_erase_iff]
  by_cases hxy : y = x
  · subst hxy; simp [hy]
  · have : ¬ x = y := fun e => hxy e.symm
    simp [hxy, this]

theorem cntO_le_one (x : Id) (v : Option Id) : cntO x v ≤ 1 := by
  cases v with
  | none => simp [cntO]
  | some y => simp [cntO]; split <;> omega

@[simp] theorem cntO_none (x : Id) : cntO x none = 0 := rfl

theorem cntO_self (x : Id) : cntO x (some x) = 1 := by simp [cntO]

/-! ### the abstract invariant on (count function, registry) and its three moves -/

/-- `cnt` and `reg` agree -/
structure Ex (cnt : Id → Nat) (reg : List Id) : Prop where
  exact : ∀ x, cnt x = ind reg x
  nodup : reg.Nodup

theorem Inv.ex {g : Glyph} (h : Inv g) : Ex g.cnt g.reg := ⟨h.exact, h.nodup⟩
theorem Ex.inv {g : Glyph} (h : Ex g.cnt g.reg) : Inv g := ⟨h.exact, h.nodup⟩

theorem Ex.le_one {cnt : Id → Nat} {reg : List Id} (h : Ex cnt reg) (x : Id) : cnt x ≤ 1 := by
  rw [h.exact]; exact ind_le_one _ _

theorem Ex.mem_of_pos {cnt : Id → Nat} {reg : List Id} (h : Ex cnt reg) {x : Id} (hx : 0 < cnt x) :
    x ∈ reg := by
  rw [h.exact] at hx; exact mem_of_ind_pos hx

/-- nothing changes -/
theorem Ex.same {cnt cnt' : Id → Nat} {reg : List Id} (h : Ex cnt reg) (hc : ∀ x, cnt' x = cnt x) :
    Ex cnt' reg := ⟨fun x => by rw [hc, h.exact], h.nodup⟩

/-- a fresh identifier is registered and held once more -/
theorem Ex.claim {cnt cnt' : Id → Nat} {reg : List Id} (h : Ex cnt reg) {y : Id} (hy : y ∉ reg)
    (hc : ∀ x, cnt' x = cnt x + cntO x (some y)) : Ex cnt' (regAdd reg y) :=
  ⟨fun x => by rw [hc, h.exact, ind_regAdd hy], nodup_regAdd h.nodup y⟩

/-- an identifier is given up by its holder and freed -/
theorem Ex.free {cnt cnt' : Id → Nat} {reg : List Id} (h : Ex cnt reg) {y : Id}
    (hc : ∀ x, cnt' x + cntO x (some y) = cnt x) : y ∈ reg ∧ Ex cnt' (reg.erase y) := by
  have hy : y ∈ reg := h.mem_of_pos (by have := hc y; rw [cntO_self] at this; omega)
  refine ⟨hy, ⟨fun x => ?_, h.nodup.erase y⟩⟩
  have h1 := hc x
  have h2 := ind_erase h.nodup hy x
  have h3 := h.exact x
  omega

/-- `discard` of an optional identifier whose holder gives it up -/
theorem Ex.discard {cnt cnt' : Id → Nat} {reg : List Id} (h : Ex cnt reg) (v : Option Id)
    (hc : ∀ x, cnt' x + cntO x v = cnt x) : Ex cnt' (discardOpt reg v) := by
  cases v with
  | none => exact h.same (by intro x; have := hc x; simp at this; exact this)
  | some y => exact (h.free hc).2

/-- optional claim (`claimOpt`) -/
theorem Ex.claimOpt {cnt cnt' : Id → Nat} {reg r : List Id} (h : Ex cnt reg) {v : Option Id}
    (hr : claimOpt reg v = some r) (hc : ∀ x, cnt' x = cnt x + cntO x v) : Ex cnt' r := by
  cases v with
  | none => simp [Ident.claimOpt] at hr; subst hr; exact h.same (by simpa using hc)
  | some y =>
    simp only [Ident.claimOpt] at hr
    split at hr
    · simp at hr
    · rename_i hy; simp at hr; subst hr; exact h.claim hy hc

/-- optional release (`releaseOpt`) never fails when the holder is counted -/
theorem Ex.releaseOpt {cnt cnt' : Id → Nat} {reg : List Id} (h : Ex cnt reg) (v : Option Id)
    (hc : ∀ x, cnt' x + cntO x v = cnt x) : ∃ r, releaseOpt reg v = some r ∧ Ex cnt' r := by
  cases v with
  | none => exact ⟨reg, rfl, h.same (by intro x; have := hc x; simp at this; exact this)⟩
  | some y =>
    obtain ⟨hy, he⟩ := h.free hc
    exact ⟨reg.erase y, by simp [Ident.releaseOpt, hy], he⟩

/-! ### counting points -/

theorem cntPts_nil (x : Id) : cntPts x [] = 0 := rfl

theorem cntPts_insertAt (x : Id) (n : Nat) (p : Point) (l : List Point) :
    cntPts x (insertAt n p l) = cntO x p.id + cntPts x l := by
  unfold cntPts; exact sum_map_insertAt _ n p l

theorem cntPts_eraseIdx (x : Id) (l : List Point) (i : Nat) (p : Point) (h : l[i]? = some p) :
    cntPts x l = cntO x p.id + cntPts x (l.eraseIdx i) := by
  unfold cntPts; exact sum_map_eraseIdx _ l i p h

theorem cntPts_set (x : Id) (l : List Point) (i : Nat) (p q : Point) (h : l[i]? = some p) :
    cntPts x (l.set i q) + cntO x p.id = cntPts x l + cntO x q.id := by
  unfold cntPts; exact sum_map_set _ l i p q h

theorem cntPts_append (x : Id) (l1 l2 : List Point) :
    cntPts x (l1 ++ l2) = cntPts x l1 + cntPts x l2 := by
  unfold cntPts; exact sum_map_append _ l1 l2

theorem cntPts_cons (x : Id) (p : Point) (l : List Point) :
    cntPts x (p :: l) = cntO x p.id + cntPts x l := by
  unfold cntPts; simp

theorem cntPts_take_drop (x : Id) (l : List Point) (n : Nat) :
    cntPts x (l.take n) + cntPts x (l.drop n) = cntPts x l := by
  unfold cntPts; exact sum_map_take_drop _ l n

theorem cntPts_reverse (x : Id) (l : List Point) : cntPts x l.reverse = cntPts x l := by
  unfold cntPts; exact sum_map_reverse _ l

theorem cntPts_sublist (x : Id) {l1 l2 : List Point} (h : l1.Sublist l2) :
    cntPts x l1 ≤ cntPts x l2 := by
  unfold cntPts; exact sum_map_sublist _ h

/-! ### frame lemmas: replacing one contour of a container -/

theorem cntCs_set (x : Id) (cs : List Contour) (ci : Nat) (c c' : Contour) (h : cs[ci]? = some c) :
    cntCs x (cs.set ci c') + c.cnt x = cntCs x cs + c'.cnt x := by
  unfold cntCs; exact sum_map_set _ cs ci c c' h

theorem cnt_setPts (g : Glyph) (ci : Nat) (c : Contour) (pts : List Point)
    (h : g.contours[ci]? = some c) (x : Id) :
    (setPts g ci c pts).cnt x + cntPts x c.pts = g.cnt x + cntPts x pts := by
  have := cntCs_set x g.contours ci c { c with pts := pts } h
  simp only [Glyph.cnt, setPts, Contour.cnt] at this ⊢
  omega

@[simp] theorem reg_setPts (g : Glyph) (ci : Nat) (c : Contour) (pts : List Point) :
    (setPts g ci c pts).reg = g.reg := rfl

/-- changing only the registry does not change what is held -/
theorem cnt_withReg (g : Glyph) (r : List Id) (x : Id) : ({ g with reg := r } : Glyph).cnt x = g.cnt x := rfl

/-! ### contour operations preserve the invariant -/

theorem inv_insertPoint {g : Glyph} (h : Inv g) (ci idx : Nat) (p : Point) :
    Inv (insertPoint g ci idx p).1 := by
  unfold insertPoint
  split
  · exact h
  · rename_i c hc
    split
    · rename_i hp
      apply Ex.inv
      apply h.ex.same
      intro x
      have := cnt_setPts g ci c (insertAt idx p c.pts) hc x
      rw [cntPts_insertAt, hp] at this
      simp at this; omega
    · rename_i y hp
      split
      · exact h
      · rename_i hy
        apply Ex.inv
        refine h.ex.claim hy ?_
        intro x
        have := cnt_setPts g ci c (insertAt idx p c.pts) hc x
        rw [cntPts_insertAt, hp] at this
        simp only [cnt_withReg]
        omega

theorem inv_removePoint {g : Glyph} (h : Inv g) (ci pi : Nat) : Inv (removePoint g ci pi).1 := by
  unfold removePoint
  split
  · exact h
  · rename_i c hc
    split
    · exact h
    · rename_i p hp
      have key : ∀ x, (setPts g ci c (c.pts.eraseIdx pi)).cnt x + cntO x p.id = g.cnt x := by
        intro x
        have h1 := cnt_setPts g ci c (c.pts.eraseIdx pi) hc x
        have h2 := cntPts_eraseIdx x c.pts pi p hp
        omega
      split
      · rename_i hid
        apply Ex.inv
        apply h.ex.same
        intro x; have := key x; rw [hid] at this; simpa using this
      · rename_i y hid
        rw [hid] at key
        have := h.ex.free key
        split
        · exact Ex.inv this.2
        · rename_i hy; exact absurd this.1 hy

/-- under the invariant `removePoint` never raises KeyError -/
theorem removePoint_no_keyError {g : Glyph} (h : Inv g) (ci pi : Nat) :
    (removePoint g ci pi).2 ≠ .err .key := by
  unfold removePoint
  split
  · simp
  · rename_i c hc
    split
    · simp
    · rename_i p hp
      split
      · simp
      · rename_i y hid
        have key : ∀ x, (setPts g ci c (c.pts.eraseIdx pi)).cnt x + cntO x (some y) = g.cnt x := by
          intro x
          have h1 := cnt_setPts g ci c (c.pts.eraseIdx pi) hc x
          have h2 := cntPts_eraseIdx x c.pts pi p hp
          rw [hid] at h2
          omega
        have := (h.ex.free key).1
        simp [this]

theorem inv_dropPoint {g : Glyph} (h : Inv g) (ci pi : Nat) : Inv (dropPoint g ci pi) := by
  unfold dropPoint
  split
  · exact h
  · rename_i c hc
    split
    · exact h
    · rename_i p hp
      apply Ex.inv
      refine h.ex.discard p.id ?_
      intro x
      have h1 := cnt_setPts g ci c (c.pts.eraseIdx pi) hc x
      have h2 := cntPts_eraseIdx x c.pts pi p hp
      simp only [cnt_withReg]
      omega

/-! #### folds that discard identifiers -/

theorem mem_foldl_discard {α : Type} (step : List Id → α → List Id) (drop : α → Bool)
    (idOf : α → Option Id)
    (hstep : ∀ r e, step r e = if drop e = true then discardOpt r (idOf e) else r)
    (l : List α) (reg : List Id) (hn : reg.Nodup) :
    (l.foldl step reg).Nodup ∧
      ∀ x, x ∈ l.foldl step reg ↔ (x ∈ reg ∧ ¬ ∃ e ∈ l, drop e = true ∧ idOf e = some x) := by
  induction l generalizing reg with
  | nil => simp [hn]
  | cons e l ih =>
    simp only [List.foldl_cons]
    have hn' : (step reg e).Nodup := by
      rw [hstep]; split
      · cases h : idOf e with
        | none => simpa [discardOpt] using hn
        | some y => simpa [discardOpt] using hn.erase y
      · exact hn
    obtain ⟨h1, h2⟩ := ih (step reg e) hn'
    refine ⟨h1, fun x => ?_⟩
    rw [h2 x]
    have hmem : x ∈ step reg e ↔ (x ∈ reg ∧ ¬ (drop e = true ∧ idOf e = some x)) := by
      rw [hstep]; split
      · rename_i hd
        cases h : idOf e with
        | none => simp [discardOpt]
        | some y =>
          simp only [discardOpt, hn.mem_erase_iff, hd, true_and, Option.some.injEq]
          constructor
          · rintro ⟨a, b⟩; exact ⟨b, fun e => a e.symm⟩
          · rintro ⟨a, b⟩; exact ⟨fun e => b e.symm, a⟩
      · rename_i hd; simp [hd]
    rw [hmem]
    simp only [List.mem_cons, exists_eq_or_imp]
    constructor
    · rintro ⟨⟨a, b⟩, c⟩; exact ⟨a, fun h => h.elim b c⟩
    · rintro ⟨a, b⟩; exact ⟨⟨a, fun h => b (Or.inl h)⟩, fun h => b (Or.inr h)⟩

theorem cntPts_pos_iff (x : Id) (l : List Point) : 0 < cntPts x l ↔ ∃ p ∈ l, p.id = some x := by
  induction l with
  | nil => simp [cntPts]
  | cons p l ih =>
    rw [cntPts_cons]
    simp only [List.mem_cons, exists_eq_or_imp]
    rw [← ih]
    cases hp : p.id with
    | none => simp
    | some y =>
      simp only [cntO, Option.some.injEq]
      by_cases hy : y = x
      · simp [hy]; omega
      · simp [hy]

/-- several holders are replaced by a part of them; exactly the identifiers that disappear are freed -/
theorem Ex.replace {cnt cnt' : Id → Nat} {reg reg' : List Id} (h : Ex cnt reg) (a b rest : Id → Nat)
    (hc : ∀ x, cnt x = rest x + a x) (hc' : ∀ x, cnt' x = rest x + b x) (hle : ∀ x, b x ≤ a x)
    (hn : reg'.Nodup) (hm : ∀ x, x ∈ reg' ↔ (x ∈ reg ∧ ¬ (0 < a x ∧ b x = 0))) : Ex cnt' reg' := by
  refine ⟨fun x => ?_, hn⟩
  have h1 := h.exact x
  have h2 := ind_le_one reg x
  have h3 := hc x
  have h4 := hc' x
  have h5 := hle x
  by_cases hx : x ∈ reg
  · rw [ind_of_mem hx] at h1
    by_cases hd : 0 < a x ∧ b x = 0
    · have : x ∉ reg' := by rw [hm]; exact fun h => h.2 hd
      rw [ind_of_not_mem this]; omega
    · have : x ∈ reg' := by rw [hm]; exact ⟨hx, hd⟩
      rw [ind_of_mem this]; omega
  · rw [ind_of_not_mem hx] at h1
    have : x ∉ reg' := by rw [hm]; exact fun h => hx h.1
    rw [ind_of_not_mem this]; omega

theorem inv_clearContour {g : Glyph} (h : Inv g) (ci : Nat) : Inv (clearContour g ci).1 := by
  unfold clearContour
  split
  · exact h
  · rename_i c hc
    obtain ⟨hn, hm⟩ := mem_foldl_discard (fun r (p : Point) => discardOpt r p.id) (fun _ => true)
      (fun p => p.id) (by intro r e; simp) c.pts g.reg h.nodup
    apply Ex.inv
    refine h.ex.replace (fun x => cntPts x c.pts) (fun _ => 0) (fun x => g.cnt x - cntPts x c.pts)
      ?_ ?_ (fun _ => Nat.zero_le _) hn ?_
    · intro x
      have := cnt_setPts g ci c [] hc x
      simp [cntPts_nil] at this; omega
    · intro x
      have := cnt_setPts g ci c [] hc x
      simp only [cnt_withReg]
      simp [cntPts_nil] at this; omega
    · intro x
      rw [hm x, cntPts_pos_iff]
      simp

theorem cntPts_shiftTypes (x : Id) (t : Typ) (l : List Point) :
    cntPts x (shiftTypes t l) = cntPts x l := by
  induction l generalizing t with
  | nil => rfl
  | cons p l ih =>
    unfold shiftTypes
    split
    · rw [cntPts_cons, cntPts_cons, ih]
    · rw [cntPts_cons, cntPts_cons, ih]

/-- the reversed contour carries a part of the identifiers of the original -/
theorem cntPts_revPts_le (x : Id) (l : List Point) : cntPts x (revPts l) ≤ cntPts x l := by
  unfold revPts
  split
  · exact Nat.le_refl _
  · rename_i p0 rest
    split
    · rw [cntPts_shiftTypes]
      calc cntPts x (List.dropWhile _ (p0 :: rest).reverse)
          ≤ cntPts x (p0 :: rest).reverse := cntPts_sublist x (List.dropWhile_sublist _)
        _ = cntPts x (p0 :: rest) := cntPts_reverse x _
    · rw [cntPts_shiftTypes, cntPts_reverse, cntPts_append, cntPts_cons, cntPts_cons, cntPts_nil]
      omega

theorem mem_map_id_iff (x : Id) (l : List Point) : some x ∈ l.map (·.id) ↔ 0 < cntPts x l := by
  rw [cntPts_pos_iff]; simp [List.mem_map]

theorem inv_reverse {g : Glyph} (h : Inv g) (ci : Nat) : Inv (reverse g ci).1 := by
  unfold reverse
  split
  · exact h
  · rename_i c hc
    simp only
    split
    · exact h
    · obtain ⟨hn, hm⟩ := mem_foldl_discard (discardUnlessKept ((revPts c.pts).map (·.id)))
        (fun p => decide (p.id ∉ (revPts c.pts).map (·.id))) (fun p => p.id)
        (by
          intro r e
          unfold discardUnlessKept
          cases he : e.id with
          | none => simp [discardOpt]
          | some y => by_cases hk : some y ∈ (revPts c.pts).map (·.id) <;> simp [hk, discardOpt])
        c.pts g.reg h.nodup
      apply Ex.inv
      refine h.ex.replace (fun x => cntPts x c.pts) (fun x => cntPts x (revPts c.pts))
        (fun x => g.cnt x - cntPts x c.pts) ?_ ?_ (fun x => cntPts_revPts_le x c.pts) hn ?_
      · intro x
        have h0 := cnt_setPts g ci c [] hc x
        simp only [cntPts_nil] at h0
        omega
      · intro x
        have := cnt_setPts g ci c (revPts c.pts) hc x
        have h0 := cnt_setPts g ci c [] hc x
        simp only [cntPts_nil] at h0
        simp only [cnt_withReg]
        omega
      · intro x
        rw [hm x]
        have hk := mem_map_id_iff x (revPts c.pts)
        have hp := cntPts_pos_iff x c.pts
        constructor
        · rintro ⟨a, b⟩
          refine ⟨a, fun ⟨h1, h2⟩ => b ?_⟩
          obtain ⟨p, hp1, hp2⟩ := hp.mp h1
          refine ⟨p, hp1, ?_, hp2⟩
          simp only [decide_eq_true_eq]
          rw [hp2, hk]; omega
        · rintro ⟨a, b⟩
          refine ⟨a, fun ⟨p, hp1, hp2, hp3⟩ => b ⟨hp.mpr ⟨p, hp1, hp3⟩, ?_⟩⟩
          simp only [decide_eq_true_eq] at hp2
          rw [hp3, hk] at hp2; omega

theorem inv_setStart {g : Glyph} (h : Inv g) (ci pi : Nat) : Inv (setStart g ci pi).1 := by
  unfold setStart
  split
  · exact h
  · rename_i c hc
    split
    · exact h
    · split
      · exact h
      · split
        · exact h
        · split
          · exact h
          · split
            · exact h
            · apply Ex.inv
              apply h.ex.same
              intro x
              have h1 := cnt_setPts g ci c (c.pts.drop pi ++ c.pts.take pi) hc x
              have h2 := cntPts_take_drop x c.pts pi
              rw [cntPts_append] at h1
              dsimp only
              omega

/-! #### removeSegment: every step of the point-list edit preserves the invariant -/

theorem inv_Edit_remove {e : Edit} (h : Inv e.g) (ci lbl : Nat) : Inv (Edit.remove ci e lbl).1.g := by
  unfold Edit.remove
  split
  · exact h
  · exact inv_dropPoint h ci _

theorem inv_Edit_removeAll {e : Edit} (h : Inv e.g) (ci : Nat) (ls : List Nat) :
    Inv (Edit.removeAll ci e ls).1.g := by
  induction ls generalizing e with
  | nil => exact h
  | cons l ls ih =>
    unfold Edit.removeAll
    have h1 := inv_Edit_remove h ci l
    split
    · rename_i e' heq; rw [heq] at h1; exact ih h1
    · rename_i e' heq; rw [heq] at h1; exact h1

theorem inv_Edit_setTyp {e : Edit} (h : Inv e.g) (ci lbl : Nat) (t : Typ) :
    Inv (Edit.setTyp ci e lbl t).g := by
  unfold Edit.setTyp
  split
  · exact h
  · rename_i i _
    split
    · exact h
    · rename_i c hc
      split
      · exact h
      · rename_i p hp
        apply Ex.inv
        apply h.ex.same
        intro x
        have h1 := cnt_setPts e.g ci c (c.pts.set i { p with typ := t }) hc x
        have h2 := cntPts_set x c.pts i p { p with typ := t } hp
        dsimp only at h2 ⊢
        omega

theorem inv_Edit_insertOffs {e : Edit} (h : Inv e.g) (ci lbl : Nat) :
    Inv (Edit.insertOffs ci e lbl).1.g := by
  unfold Edit.insertOffs
  split
  · exact h
  · rename_i i _
    split
    · exact h
    · rename_i c hc
      apply Ex.inv
      apply h.ex.same
      intro x
      dsimp only
      split
      · have h1 := cnt_setPts e.g ci c (c.pts ++ [⟨.off, none⟩, ⟨.off, none⟩]) hc x
        have h3 : cntPts x [⟨.off, none⟩, ⟨.off, none⟩] = 0 := rfl
        rw [cntPts_append, h3] at h1
        omega
      · have h1 := cnt_setPts e.g ci c (c.pts.take i ++ [⟨.off, none⟩, ⟨.off, none⟩] ++ c.pts.drop i) hc x
        have h2 := cntPts_take_drop x c.pts i
        have h3 : cntPts x [⟨.off, none⟩, ⟨.off, none⟩] = 0 := rfl
        rw [cntPts_append, cntPts_append, h3] at h1
        omega

theorem inv_withRes {g : Glyph} (h : Inv g) (b : Bool) : Inv (g.withRes b).1 := by
  unfold Glyph.withRes; split <;> exact h

theorem inv_removeSegmentCore {g : Glyph} (h : Inv g) (ci n : Nat) (seg next prev : List LP)
    (preserve : Bool) : Inv (removeSegmentCore g ci n seg next prev preserve).1 := by
  unfold removeSegmentCore
  dsimp only
  have h0 : Inv ({ g := g, lbls := List.range n } : Edit).g := h
  have h1 := inv_Edit_removeAll h0 ci (seg.map (·.1))
  split
  · split
    · rename_i e1 heq; rw [heq] at h1; exact h1
    · rename_i e1 heq; rw [heq] at h1
      split
      · have h2 := inv_Edit_removeAll h1 ci (next.dropLast.map (·.1))
        split
        · rename_i e2 heq2; rw [heq2] at h2; exact h2
        · rename_i e2 heq2; rw [heq2] at h2
          split
          · exact h2
          · exact inv_Edit_setTyp h2 ci _ _
      · exact h1
  · split
    · exact h
    · split
      · exact h
      · split
        · exact h
        · split
          · exact h
          · split
            · rename_i e1 heq; rw [heq] at h1; exact h1
            · rename_i e1 heq; rw [heq] at h1
              split
              · split
                · exact h1
                · exact inv_withRes (inv_Edit_insertOffs (inv_Edit_setTyp h1 ci _ _) ci _) _
              · exact h1

theorem inv_removeSegment {g : Glyph} (h : Inv g) (ci si : Nat) (preserve : Bool) :
    Inv (removeSegment g ci si preserve).1 := by
  unfold removeSegment
  split
  · exact h
  · dsimp only
    split
    · exact h
    · exact inv_removeSegmentCore h _ _ _ _ _ _

/-! #### split: labelled points -/

theorem label_map_snd (pts : List Point) : (label pts).map (·.2) = pts := by
  unfold label
  rw [List.map_snd_zip]
  simp

theorem label_map_fst (pts : List Point) : (label pts).map (·.1) = List.range pts.length := by
  unfold label
  rw [List.map_fst_zip]
  simp

theorem label_fst_nodup (pts : List Point) : ((label pts).map (·.1)).Nodup := by
  rw [label_map_fst]; exact List.nodup_range

theorem inj_of_nodup_map {lp : List LP} (hn : (lp.map (·.1)).Nodup) {a b : LP} (ha : a ∈ lp) (hb : b ∈ lp)
    (hab : a.1 = b.1) : a = b := by
  induction lp with
  | nil => simp at ha
  | cons c l ih =>
    simp only [List.map_cons, List.nodup_cons, List.mem_map, not_exists, not_and] at hn
    simp only [List.mem_cons] at ha hb
    rcases ha with rfl | ha <;> rcases hb with rfl | hb
    · rfl
    · exact absurd hab.symm (hn.1 b hb)
    · exact absurd hab (hn.1 a ha)
    · exact ih hn.2 ha hb

/-- in a list with distinct labels, an element whose label occurs in a sub-collection is in it -/
theorem mem_of_label_mem {lp S : List LP} (hn : (lp.map (·.1)).Nodup) (hS : ∀ s ∈ S, s ∈ lp)
    {e : LP} (he : e ∈ lp) (hl : e.1 ∈ S.map (·.1)) : e ∈ S := by
  obtain ⟨s, hs, hse⟩ := List.mem_map.mp hl
  have : s = e := inj_of_nodup_map hn (hS s hs) he hse
  rw [← this]; exact hs

/-- two different positions of a list carry the same identifier: it is counted at least twice -/
theorem cntPts_two {lp : List LP} (hn : lp.Nodup) {e s : LP} (he : e ∈ lp) (hs : s ∈ lp) (hne : s ≠ e)
    {x : Id} (hex : e.2.id = some x) (hsx : s.2.id = some x) : 2 ≤ cntPts x (lp.map (·.2)) := by
  obtain ⟨l1, l2, rfl⟩ := List.append_of_mem he
  simp only [List.map_append, List.map_cons, cntPts_append, cntPts_cons, hex, cntO_self]
  have : s ∈ l1 ∨ s ∈ l2 := by
    simp only [List.mem_append, List.mem_cons] at hs
    rcases hs with h | h | h
    · exact Or.inl h
    · exact absurd h hne
    · exact Or.inr h
  rcases this with h | h
  · have : 0 < cntPts x (l1.map (·.2)) := (cntPts_pos_iff x _).mpr ⟨s.2, List.mem_map_of_mem h, hsx⟩
    omega
  · have : 0 < cntPts x (l2.map (·.2)) := (cntPts_pos_iff x _).mpr ⟨s.2, List.mem_map_of_mem h, hsx⟩
    omega

theorem splitKept_sublist (lp : List LP) (fi li : Nat) :
    ((splitKept lp fi li).1 ++ (splitKept lp fi li).2).Sublist lp := by
  unfold splitKept
  split
  · simp only [List.append_nil]
    exact (List.take_sublist _ _).trans (List.drop_sublist _ _)
  · rename_i hlt
    have hle : fi + 1 ≤ li := by omega
    have h1 : (lp.drop li).Sublist (lp.drop (fi + 1)) := by
      have : lp.drop li = (lp.drop (fi + 1)).drop (li - (fi + 1)) := by
        rw [List.drop_drop]; congr 1; omega
      rw [this]; exact List.drop_sublist _ _
    have h2 := List.Sublist.append (List.Sublist.refl (lp.take (fi + 1))) h1
    rw [List.take_append_drop] at h2
    exact h2

theorem inv_splitCore {g : Glyph} (h : Inv g) (ci : Nat) (c : Contour) (hc : g.contours[ci]? = some c)
    (fi li : Nat) (new : List Point) (hnew : ∀ x, cntPts x new = 0) :
    Inv (splitCore g ci c fi li new).1 := by
  unfold splitCore
  dsimp only
  have hsub := splitKept_sublist (label c.pts) fi li
  generalize splitKept (label c.pts) fi li = k at hsub ⊢
  have hlab := label_fst_nodup c.pts
  have hlpn : (label c.pts).Nodup :=
    List.Pairwise.of_map (·.1) (fun a b hne e => hne (by rw [e])) hlab
  have hS : ∀ s ∈ k.1 ++ k.2, s ∈ label c.pts := fun s hs => hsub.subset hs
  obtain ⟨hn, hm⟩ := mem_foldl_discard (discardUnlessLabel ((k.1 ++ k.2).map (·.1)))
    (fun e => decide (e.1 ∉ (k.1 ++ k.2).map (·.1))) (fun e => e.2.id)
    (by
      intro r e
      show (if e.1 ∈ (k.1 ++ k.2).map (·.1) then r else discardOpt r e.2.id) = _
      by_cases hk : e.1 ∈ (k.1 ++ k.2).map (·.1)
      · rw [if_pos hk, if_neg (by simp only [decide_eq_true_eq]; exact fun h => h hk)]
      · rw [if_neg hk, if_pos (by simp only [decide_eq_true_eq]; exact hk)])
    (label c.pts) g.reg h.nodup
  have hb : ∀ x, cntPts x (k.1.map (·.2) ++ new ++ k.2.map (·.2)) = cntPts x ((k.1 ++ k.2).map (·.2)) := by
    intro x
    rw [cntPts_append, cntPts_append, hnew, List.map_append, cntPts_append]; omega
  have hle : ∀ x, cntPts x ((k.1 ++ k.2).map (·.2)) ≤ cntPts x c.pts := by
    intro x
    have := cntPts_sublist x (hsub.map (·.2))
    rwa [label_map_snd] at this
  have h0 : ∀ x, cntPts x c.pts ≤ g.cnt x := by
    intro x
    have := cnt_setPts g ci c [] hc x
    simp only [cntPts_nil] at this; omega
  apply Ex.inv
  refine h.ex.replace (fun x => cntPts x c.pts) (fun x => cntPts x ((k.1 ++ k.2).map (·.2)))
    (fun x => g.cnt x - cntPts x c.pts) ?_ ?_ hle hn ?_
  · intro x; have := h0 x; omega
  · intro x
    have := cnt_setPts g ci c (k.1.map (·.2) ++ new ++ k.2.map (·.2)) hc x
    rw [hb] at this
    have := h0 x
    simp only [cnt_withReg]
    omega
  · intro x
    rw [hm x]
    have hone : cntPts x c.pts ≤ 1 := Nat.le_trans (h0 x) (h.ex.le_one x)
    constructor
    · rintro ⟨a, b⟩
      refine ⟨a, fun ⟨h1, h2⟩ => b ?_⟩
      rw [← label_map_snd c.pts, cntPts_pos_iff] at h1
      obtain ⟨p, hp1, hp2⟩ := h1
      obtain ⟨e, he1, he2⟩ := List.mem_map.mp hp1
      refine ⟨e, he1, ?_, by rw [he2]; exact hp2⟩
      simp only [decide_eq_true_eq]
      intro hl
      have heS := mem_of_label_mem hlab hS he1 hl
      have : 0 < cntPts x ((k.1 ++ k.2).map (·.2)) :=
        (cntPts_pos_iff x _).mpr ⟨e.2, List.mem_map_of_mem heS, by rw [he2]; exact hp2⟩
      omega
    · rintro ⟨a, b⟩
      refine ⟨a, fun ⟨e, he1, he2, he3⟩ => b ⟨?_, ?_⟩⟩
      · rw [← label_map_snd c.pts, cntPts_pos_iff]
        exact ⟨e.2, List.mem_map_of_mem he1, he3⟩
      · simp only [decide_eq_true_eq] at he2
        apply Nat.eq_zero_of_not_pos
        intro hpos
        obtain ⟨p, hp1, hp2⟩ := (cntPts_pos_iff x _).mp hpos
        obtain ⟨s, hs1, hs2⟩ := List.mem_map.mp hp1
        have hse : s ≠ e := by
          intro heq; subst heq
          exact he2 (List.mem_map_of_mem hs1)
        have := cntPts_two hlpn he1 (hS s hs1) hse he3 (by rw [hs2]; exact hp2)
        rw [label_map_snd] at this
        omega

theorem splitNew_noIds {t : Typ} {len : Nat} {new : List Point} (h : splitNew t len = .ok new) (x : Id) :
    cntPts x new = 0 := by
  unfold splitNew at h
  split at h
  · split at h
    · cases h; rfl
    · cases h
  · split at h
    · cases h; rfl
    · cases h
  · cases h

theorem inv_split {g : Glyph} (h : Inv g) (ci si : Nat) : Inv (split g ci si).1 := by
  unfold split
  split
  · exact h
  · rename_i c hc
    dsimp only
    split
    · exact h
    · split
      · split
        · exact h
        · rename_i new hnew
          exact inv_splitCore h ci c hc _ _ new (splitNew_noIds hnew)
      · exact h

/-! ### identifier setters and generators -/

theorem setIdent_cases (cur : Option Id) (reg : List Id) (v : Option Id) :
    ((setIdent cur reg v).1 = cur ∧ (setIdent cur reg v).2.1 = reg) ∨
    (∃ x, cur = none ∧ v = some x ∧ x ∉ reg ∧ (setIdent cur reg v).1 = some x ∧
      (setIdent cur reg v).2.1 = regAdd reg x ∧ (setIdent cur reg v).2.2 = .ok) := by
  unfold setIdent
  cases cur with
  | some c => simp
  | none =>
    cases v with
    | none => simp
    | some x =>
      by_cases hx : x ∈ reg
      · simp [hx]
      · right; exact ⟨x, rfl, rfl, hx, by simp [hx], by simp [hx], by simp [hx]⟩

/-- an object changes its identifier through the setter -/
theorem Ex.setIdent {cnt cnt' : Id → Nat} {reg : List Id} (h : Ex cnt reg) (cur v : Option Id)
    (hc : ∀ x, cnt' x + cntO x cur = cnt x + cntO x (setIdent cur reg v).1) :
    Ex cnt' (setIdent cur reg v).2.1 := by
  rcases setIdent_cases cur reg v with ⟨h1, h2⟩ | ⟨y, h1, _, h3, h4, h5, _⟩
  · rw [h2]; apply h.same; intro x; have := hc x; rw [h1] at this; omega
  · rw [h5]; apply h.claim h3; intro x; have := hc x; rw [h4, h1] at this; simp at this; omega

/-- a rejected setter changes nothing -/
theorem setIdent_err {cur : Option Id} {reg : List Id} {v : Option Id}
    (h : (setIdent cur reg v).2.2 ≠ .ok) :
    (setIdent cur reg v).1 = cur ∧ (setIdent cur reg v).2.1 = reg := by
  rcases setIdent_cases cur reg v with h1 | ⟨y, _, _, _, _, _, h6⟩
  · exact h1
  · exact absurd h6 h

theorem cntKs_set (x : Id) (ks : List Comp) (i : Nat) (k k' : Comp) (h : ks[i]? = some k) :
    cntKs x (ks.set i k') + cntO x k.id = cntKs x ks + cntO x k'.id := by
  unfold cntKs; exact sum_map_set _ ks i k k' h

theorem cntVs_set (x : Id) (vs : List (Option Id)) (i : Nat) (v v' : Option Id) (h : vs[i]? = some v) :
    cntVs x (vs.set i v') + cntO x v = cntVs x vs + cntO x v' := by
  unfold cntVs; exact sum_map_set _ vs i v v' h

theorem cntCs_insertAt (x : Id) (n : Nat) (c : Contour) (cs : List Contour) :
    cntCs x (insertAt n c cs) = c.cnt x + cntCs x cs := by
  unfold cntCs; exact sum_map_insertAt _ n c cs

theorem cntKs_insertAt (x : Id) (n : Nat) (k : Comp) (ks : List Comp) :
    cntKs x (insertAt n k ks) = cntO x k.id + cntKs x ks := by
  unfold cntKs; exact sum_map_insertAt _ n k ks

theorem cntVs_insertAt (x : Id) (n : Nat) (v : Option Id) (vs : List (Option Id)) :
    cntVs x (insertAt n v vs) = cntO x v + cntVs x vs := by
  unfold cntVs; exact sum_map_insertAt _ n v vs

theorem cntCs_eraseIdx (x : Id) (cs : List Contour) (i : Nat) (c : Contour) (h : cs[i]? = some c) :
    cntCs x cs = c.cnt x + cntCs x (cs.eraseIdx i) := by
  unfold cntCs; exact sum_map_eraseIdx _ cs i c h

theorem cntKs_eraseIdx (x : Id) (ks : List Comp) (i : Nat) (k : Comp) (h : ks[i]? = some k) :
    cntKs x ks = cntO x k.id + cntKs x (ks.eraseIdx i) := by
  unfold cntKs; exact sum_map_eraseIdx _ ks i k h

theorem cntVs_eraseIdx (x : Id) (vs : List (Option Id)) (i : Nat) (v : Option Id) (h : vs[i]? = some v) :
    cntVs x vs = cntO x v + cntVs x (vs.eraseIdx i) := by
  unfold cntVs; exact sum_map_eraseIdx _ vs i v h

theorem cntCs_append (x : Id) (l1 l2 : List Contour) : cntCs x (l1 ++ l2) = cntCs x l1 + cntCs x l2 := by
  unfold cntCs; exact sum_map_append _ l1 l2

theorem cntKs_append (x : Id) (l1 l2 : List Comp) : cntKs x (l1 ++ l2) = cntKs x l1 + cntKs x l2 := by
  unfold cntKs; exact sum_map_append _ l1 l2

theorem cntVs_append (x : Id) (l1 l2 : List (Option Id)) : cntVs x (l1 ++ l2) = cntVs x l1 + cntVs x l2 := by
  unfold cntVs; exact sum_map_append _ l1 l2

@[simp] theorem cntCs_nil (x : Id) : cntCs x [] = 0 := rfl
@[simp] theorem cntKs_nil (x : Id) : cntKs x [] = 0 := rfl
@[simp] theorem cntVs_nil (x : Id) : cntVs x [] = 0 := rfl
@[simp] theorem cntCs_single (x : Id) (c : Contour) : cntCs x [c] = c.cnt x := by simp [cntCs]
@[simp] theorem cntKs_single (x : Id) (k : Comp) : cntKs x [k] = cntO x k.id := by simp [cntKs]
@[simp] theorem cntVs_single (x : Id) (v : Option Id) : cntVs x [v] = cntO x v := by simp [cntVs]

theorem inv_setContourId {g : Glyph} (h : Inv g) (ci : Nat) (v : Option Id) :
    Inv (setContourId g ci v).1 := by
  unfold setContourId
  split
  · exact h
  · rename_i c hc
    apply Ex.inv
    dsimp only
    refine h.ex.setIdent c.id v ?_
    intro x
    have := cntCs_set x g.contours ci c { c with id := (setIdent c.id g.reg v).1 } hc
    simp only [Glyph.cnt, Contour.cnt] at this ⊢
    omega

theorem inv_genContourId {g : Glyph} (h : Inv g) (ci : Nat) (cands : List Id) :
    Inv (genContourId g ci cands).1 := by
  unfold genContourId
  split
  · exact h
  · rename_i c hc
    split
    · exact h
    · split
      · exact h
      · rename_i y _
        dsimp only
        split
        · apply Ex.inv
          dsimp only
          refine h.ex.setIdent c.id (some y) ?_
          intro x
          have := cntCs_set x g.contours ci c { c with id := (setIdent c.id g.reg (some y)).1 } hc
          simp only [Glyph.cnt, Contour.cnt] at this ⊢
          omega
        · exact h

theorem makeId_fresh {existing : List Id} {fuel : Nat} {cands : List Id} {x : Id}
    (h : makeId existing fuel cands = .ok x) : x ∉ existing := by
  induction fuel generalizing cands with
  | zero => simp [makeId] at h
  | succ n ih =>
    cases cands with
    | nil => simp [makeId] at h
    | cons c cs =>
      simp only [makeId] at h
      split at h
      · exact ih h
      · cases h; assumption

theorem makeId_mem {existing : List Id} {fuel : Nat} {cands : List Id} {x : Id}
    (h : makeId existing fuel cands = .ok x) : x ∈ cands := by
  induction fuel generalizing cands with
  | zero => simp [makeId] at h
  | succ n ih =>
    cases cands with
    | nil => simp [makeId] at h
    | cons c cs =>
      simp only [makeId] at h
      split at h
      · exact List.mem_cons_of_mem _ (ih h)
      · cases h; exact List.mem_cons_self

theorem inv_genPointId {g : Glyph} (h : Inv g) (ci pi : Nat) (cands : List Id) :
    Inv (genPointId g ci pi cands).1 := by
  unfold genPointId
  split
  · exact h
  · rename_i c hc
    split
    · exact h
    · rename_i p hp
      split
      · exact h
      · rename_i hid
        split
        · exact h
        · rename_i y hy
          apply Ex.inv
          refine h.ex.claim (makeId_fresh hy) ?_
          intro x
          have h1 := cnt_setPts g ci c (c.pts.set pi { p with id := some y }) hc x
          have h2 := cntPts_set x c.pts pi p { p with id := some y } hp
          rw [hid] at h2
          simp only [cnt_withReg]
          simp at h2
          omega

/-! ### inserting and removing whole objects -/

theorem count_cons_cntO (y x : Id) (ys : List Id) : (y :: ys).count x = ys.count x + cntO x (some y) := by
  simp only [List.count_cons, cntO, beq_iff_eq]

theorem cntO_eq_count (x : Id) (v : Option Id) : cntO x v = (optIds v).count x := by
  cases v with
  | none => simp [optIds]
  | some y => simp [optIds, cntO, List.count_cons]

theorem cntPts_eq_count (x : Id) (pts : List Point) : cntPts x pts = (ptIds pts).count x := by
  induction pts with
  | nil => simp [ptIds, cntPts]
  | cons p l ih =>
    rw [cntPts_cons, ih]
    unfold ptIds
    cases hp : p.id with
    | none => simp [hp]
    | some y => simp [hp, cntO, List.count_cons]; omega

theorem Contour.cnt_eq_count (x : Id) (c : Contour) : c.cnt x = c.ids.count x := by
  unfold Contour.cnt Contour.ids
  rw [List.count_append, cntO_eq_count, cntPts_eq_count]

theorem freshAll_spec {reg : List Id} {seen ids : List Id} (h : freshAll reg seen ids = true) :
    ids.Nodup ∧ ∀ y ∈ ids, y ∉ reg ∧ y ∉ seen := by
  induction ids generalizing seen with
  | nil => simp
  | cons y ys ih =>
    simp only [freshAll] at h
    split at h
    · simp at h
    · rename_i hy
      simp only [not_or] at hy
      obtain ⟨h1, h2⟩ := ih h
      refine ⟨?_, ?_⟩
      · rw [List.nodup_cons]
        exact ⟨fun hmem => (h2 y hmem).2 (by simp), h1⟩
      · intro z hz
        simp only [List.mem_cons] at hz
        rcases hz with rfl | hz
        · exact hy
        · exact ⟨(h2 z hz).1, fun hs => (h2 z hz).2 (by simp [hs])⟩

theorem freshAll_false_aux {reg : List Id} {ids : List Id} (seen : List Id)
    (hs : freshAll reg seen ids = false) : (∃ y ∈ ids, y ∈ reg ∨ y ∈ seen) ∨ ¬ ids.Nodup := by
  induction ids generalizing seen with
  | nil => simp [freshAll] at hs
  | cons y ys ih =>
    simp only [freshAll] at hs
    split at hs
    · rename_i hy; exact Or.inl ⟨y, by simp, hy⟩
    · rcases ih _ hs with ⟨z, hz, h1 | h1⟩ | h2
      · exact Or.inl ⟨z, by simp [hz], Or.inl h1⟩
      · simp only [List.mem_append, List.mem_singleton] at h1
        rcases h1 with h1 | rfl
        · exact Or.inl ⟨z, by simp [hz], Or.inr h1⟩
        · exact Or.inr (by rw [List.nodup_cons]; exact fun h => h.1 hz)
      · exact Or.inr (by rw [List.nodup_cons]; exact fun h => h2 h.2)

/-- a rejected contour: some identifier is registered already, or occurs twice in the contour -/
theorem freshAll_false {reg : List Id} {ids : List Id} (h : freshAll reg [] ids = false) :
    (∃ y ∈ ids, y ∈ reg) ∨ ¬ ids.Nodup := by
  rcases freshAll_false_aux [] h with ⟨y, hy, h1 | h1⟩ | h2
  · exact Or.inl ⟨y, hy, h1⟩
  · simp at h1
  · exact Or.inr h2

theorem Ex.claimAll {cnt cnt' : Id → Nat} {reg : List Id} (h : Ex cnt reg) {ids : List Id}
    (hn : ids.Nodup) (hd : ∀ y ∈ ids, y ∉ reg) (hc : ∀ x, cnt' x = cnt x + ids.count x) :
    Ex cnt' (regAddAll reg ids) := by
  induction ids generalizing cnt reg with
  | nil => exact h.same (by simpa using hc)
  | cons y ys ih =>
    rw [List.nodup_cons] at hn
    have hy : y ∉ reg := hd y (by simp)
    have h1 : Ex (fun x => cnt x + cntO x (some y)) (regAdd reg y) := h.claim hy (fun _ => rfl)
    unfold regAddAll
    simp only [List.foldl_cons]
    refine ih h1 hn.2 ?_ ?_
    · intro z hz hmem
      rw [mem_regAdd] at hmem
      rcases hmem with rfl | hmem
      · exact hn.1 hz
      · exact hd z (by simp [hz]) hmem
    · intro x; rw [hc, count_cons_cntO]; omega

theorem Ex.freeAll {cnt cnt' : Id → Nat} {reg : List Id} (h : Ex cnt reg) (ids : List Id)
    (hc : ∀ x, cnt' x + ids.count x = cnt x) : ∃ r, regRemoveAll reg ids = (r, true) ∧ Ex cnt' r := by
  induction ids generalizing cnt reg with
  | nil => exact ⟨reg, rfl, h.same (by simpa using hc)⟩
  | cons y ys ih =>
    have h1 := h.free (cnt' := fun x => cnt' x + ys.count x) (y := y)
      (by intro x; have := hc x; rw [count_cons_cntO] at this; omega)
    obtain ⟨r, hr, he⟩ := ih h1.2 (fun _ => rfl)
    exact ⟨r, by simp [regRemoveAll, h1.1, hr], he⟩

theorem inv_insertContour {g : Glyph} (h : Inv g) (idx : Nat) (c : Contour) :
    Inv (insertContour g idx c).1 := by
  unfold insertContour
  split
  · rename_i hf
    obtain ⟨h1, h2⟩ := freshAll_spec hf
    apply Ex.inv
    refine h.ex.claimAll h1 (fun y hy => (h2 y hy).1) ?_
    intro x
    have := cntCs_insertAt x idx c g.contours
    rw [Contour.cnt_eq_count] at this
    simp only [Glyph.cnt] at this ⊢
    omega
  · exact h

theorem removeContour_spec {g : Glyph} (h : Inv g) (ci : Nat) :
    Inv (removeContour g ci).1 ∧ (removeContour g ci).2.1 ≠ .err .key := by
  unfold removeContour
  split
  · exact ⟨h, by simp⟩
  · rename_i c hc
    have hcnt : ∀ x, ({ g with contours := g.contours.eraseIdx ci } : Glyph).cnt x + c.ids.count x = g.cnt x := by
      intro x
      have := cntCs_eraseIdx x g.contours ci c hc
      rw [Contour.cnt_eq_count] at this
      simp only [Glyph.cnt] at this ⊢
      omega
    obtain ⟨r, hr, he⟩ := h.ex.freeAll c.ids hcnt
    rw [hr]
    exact ⟨Ex.inv he, by simp⟩

theorem inv_removeContour {g : Glyph} (h : Inv g) (ci : Nat) : Inv (removeContour g ci).1 :=
  (removeContour_spec h ci).1

theorem clearContours_spec {g : Glyph} (h : Inv g) (n : Nat) :
    Inv (clearContours n g).1 ∧ (clearContours n g).2.1 ≠ .err .key := by
  induction n generalizing g with
  | zero => exact ⟨h, by simp [clearContours]⟩
  | succ n ih =>
    unfold clearContours
    have h1 := removeContour_spec h n
    split
    · rename_i g1 c heq
      rw [heq] at h1
      exact ih h1.1
    · rename_i g1 res o _ heq
      rw [heq] at h1
      exact h1

theorem inv_clearContours {g : Glyph} (h : Inv g) (n : Nat) : Inv (clearContours n g).1 :=
  (clearContours_spec h n).1

/-! ### components, anchors, guidelines -/

theorem inv_insertComp {g : Glyph} (h : Inv g) (idx : Nat) (k : Comp) : Inv (insertComp g idx k).1 := by
  unfold insertComp
  split
  · exact h
  · rename_i r hr
    apply Ex.inv
    refine h.ex.claimOpt hr ?_
    intro x
    have := cntKs_insertAt x idx k g.comps
    simp only [Glyph.cnt] at this ⊢
    omega

theorem removeComp_spec {g : Glyph} (h : Inv g) (i : Nat) :
    Inv (removeComp g i).1 ∧ (removeComp g i).2.1 ≠ .err .key := by
  unfold removeComp
  split
  · exact ⟨h, by simp⟩
  · rename_i k hk
    have hcnt : ∀ x, ({ g with comps := g.comps.eraseIdx i } : Glyph).cnt x + cntO x k.id = g.cnt x := by
      intro x
      have := cntKs_eraseIdx x g.comps i k hk
      simp only [Glyph.cnt] at this ⊢
      omega
    obtain ⟨r, hr, he⟩ := h.ex.releaseOpt k.id hcnt
    rw [hr]
    exact ⟨Ex.inv he, by simp⟩

theorem inv_removeComp {g : Glyph} (h : Inv g) (i : Nat) : Inv (removeComp g i).1 := (removeComp_spec h i).1

theorem clearComps_spec {g : Glyph} (h : Inv g) (n : Nat) :
    Inv (clearComps n g).1 ∧ (clearComps n g).2.1 ≠ .err .key := by
  induction n generalizing g with
  | zero => exact ⟨h, by simp [clearComps]⟩
  | succ n ih =>
    unfold clearComps
    have h1 := removeComp_spec h n
    split
    · rename_i g1 c heq
      rw [heq] at h1
      exact ih h1.1
    · rename_i g1 res o _ heq
      rw [heq] at h1
      exact h1

theorem inv_clearComps {g : Glyph} (h : Inv g) (n : Nat) : Inv (clearComps n g).1 := (clearComps_spec h n).1

theorem inv_setCompId {g : Glyph} (h : Inv g) (i : Nat) (v : Option Id) : Inv (setCompId g i v).1 := by
  unfold setCompId
  split
  · exact h
  · rename_i k hk
    apply Ex.inv
    dsimp only
    refine h.ex.setIdent k.id v ?_
    intro x
    have := cntKs_set x g.comps i k { k with id := (setIdent k.id g.reg v).1 } hk
    simp only [Glyph.cnt] at this ⊢
    omega

theorem inv_genCompId {g : Glyph} (h : Inv g) (i : Nat) (cands : List Id) : Inv (genCompId g i cands).1 := by
  unfold genCompId
  split
  · exact h
  · split
    · exact h
    · exact h
    · rename_i v _
      have := inv_setCompId h i v
      split
      · rename_i g1 heq; rw [heq] at this; exact this
      · exact h

theorem inv_insertAnchor {g : Glyph} (h : Inv g) (idx : Nat) (k : (Option Id)) : Inv (insertAnchor g idx k).1 := by
  unfold insertAnchor
  split
  · exact h
  · rename_i r hr
    apply Ex.inv
    refine h.ex.claimOpt hr ?_
    intro x
    have := cntVs_insertAt x idx k g.anchors
    simp only [Glyph.cnt] at this ⊢
    omega

theorem removeAnchor_spec {g : Glyph} (h : Inv g) (i : Nat) :
    Inv (removeAnchor g i).1 ∧ (removeAnchor g i).2.1 ≠ .err .key := by
  unfold removeAnchor
  split
  · exact ⟨h, by simp⟩
  · rename_i k hk
    have hcnt : ∀ x, ({ g with anchors := g.anchors.eraseIdx i } : Glyph).cnt x + cntO x k = g.cnt x := by
      intro x
      have := cntVs_eraseIdx x g.anchors i k hk
      simp only [Glyph.cnt] at this ⊢
      omega
    obtain ⟨r, hr, he⟩ := h.ex.releaseOpt k hcnt
    rw [hr]
    exact ⟨Ex.inv he, by simp⟩

theorem inv_removeAnchor {g : Glyph} (h : Inv g) (i : Nat) : Inv (removeAnchor g i).1 := (removeAnchor_spec h i).1

theorem clearAnchors_spec {g : Glyph} (h : Inv g) (n : Nat) :
    Inv (clearAnchors n g).1 ∧ (clearAnchors n g).2.1 ≠ .err .key := by
  induction n generalizing g with
  | zero => exact ⟨h, by simp [clearAnchors]⟩
  | succ n ih =>
    unfold clearAnchors
    have h1 := removeAnchor_spec h n
    split
    · rename_i g1 c heq
      rw [heq] at h1
      exact ih h1.1
    · rename_i g1 res o _ heq
      rw [heq] at h1
      exact h1

theorem inv_clearAnchors {g : Glyph} (h : Inv g) (n : Nat) : Inv (clearAnchors n g).1 := (clearAnchors_spec h n).1

theorem inv_setAnchorId {g : Glyph} (h : Inv g) (i : Nat) (v : Option Id) : Inv (setAnchorId g i v).1 := by
  unfold setAnchorId
  split
  · exact h
  · rename_i k hk
    apply Ex.inv
    dsimp only
    refine h.ex.setIdent k v ?_
    intro x
    have := cntVs_set x g.anchors i k (setIdent k g.reg v).1 hk
    simp only [Glyph.cnt] at this ⊢
    omega

theorem inv_genAnchorId {g : Glyph} (h : Inv g) (i : Nat) (cands : List Id) : Inv (genAnchorId g i cands).1 := by
  unfold genAnchorId
  split
  · exact h
  · split
    · exact h
    · exact h
    · rename_i v _
      have := inv_setAnchorId h i v
      split
      · rename_i g1 heq; rw [heq] at this; exact this
      · exact h

theorem inv_insertGuide {g : Glyph} (h : Inv g) (idx : Nat) (k : (Option Id)) : Inv (insertGuide g idx k).1 := by
  unfold insertGuide
  split
  · exact h
  · rename_i r hr
    apply Ex.inv
    refine h.ex.claimOpt hr ?_
    intro x
    have := cntVs_insertAt x idx k g.guides
    simp only [Glyph.cnt] at this ⊢
    omega

theorem removeGuide_spec {g : Glyph} (h : Inv g) (i : Nat) :
    Inv (removeGuide g i).1 ∧ (removeGuide g i).2.1 ≠ .err .key := by
  unfold removeGuide
  split
  · exact ⟨h, by simp⟩
  · rename_i k hk
    have hcnt : ∀ x, ({ g with guides := g.guides.eraseIdx i } : Glyph).cnt x + cntO x k = g.cnt x := by
      intro x
      have := cntVs_eraseIdx x g.guides i k hk
      simp only [Glyph.cnt] at this ⊢
      omega
    obtain ⟨r, hr, he⟩ := h.ex.releaseOpt k hcnt
    rw [hr]
    exact ⟨Ex.inv he, by simp⟩

theorem inv_removeGuide {g : Glyph} (h : Inv g) (i : Nat) : Inv (removeGuide g i).1 := (removeGuide_spec h i).1

theorem clearGuides_spec {g : Glyph} (h : Inv g) (n : Nat) :
    Inv (clearGuides n g).1 ∧ (clearGuides n g).2.1 ≠ .err .key := by
  induction n generalizing g with
  | zero => exact ⟨h, by simp [clearGuides]⟩
  | succ n ih =>
    unfold clearGuides
    have h1 := removeGuide_spec h n
    split
    · rename_i g1 c heq
      rw [heq] at h1
      exact ih h1.1
    · rename_i g1 res o _ heq
      rw [heq] at h1
      exact h1

theorem inv_clearGuides {g : Glyph} (h : Inv g) (n : Nat) : Inv (clearGuides n g).1 := (clearGuides_spec h n).1

theorem inv_setGuideId {g : Glyph} (h : Inv g) (i : Nat) (v : Option Id) : Inv (setGuideId g i v).1 := by
  unfold setGuideId
  split
  · exact h
  · rename_i k hk
    apply Ex.inv
    dsimp only
    refine h.ex.setIdent k v ?_
    intro x
    have := cntVs_set x g.guides i k (setIdent k g.reg v).1 hk
    simp only [Glyph.cnt] at this ⊢
    omega

theorem inv_genGuideId {g : Glyph} (h : Inv g) (i : Nat) (cands : List Id) : Inv (genGuideId g i cands).1 := by
  unfold genGuideId
  split
  · exact h
  · split
    · exact h
    · exact h
    · rename_i v _
      have := inv_setGuideId h i v
      split
      · rename_i g1 heq; rw [heq] at this; exact this
      · exact h

/-! ### counting = counting in the lists of identifiers -/

theorem cntCs_eq_count (x : Id) (cs : List Contour) : cntCs x cs = (cs.flatMap Contour.ids).count x := by
  induction cs with
  | nil => simp
  | cons c l ih =>
    simp only [List.flatMap_cons, List.count_append, ← ih, ← Contour.cnt_eq_count]
    simp [cntCs]

theorem cntKs_eq_count (x : Id) (ks : List Comp) : cntKs x ks = (ks.filterMap (·.id)).count x := by
  induction ks with
  | nil => simp
  | cons k l ih =>
    have : cntKs x (k :: l) = cntO x k.id + cntKs x l := by simp [cntKs]
    rw [this, ih]
    cases hk : k.id with
    | none => simp [hk]
    | some y => simp [hk, cntO, List.count_cons]; omega

theorem cntVs_eq_count (x : Id) (vs : List (Option Id)) : cntVs x vs = (vs.filterMap id).count x := by
  induction vs with
  | nil => simp
  | cons v l ih =>
    have : cntVs x (v :: l) = cntO x v + cntVs x l := by simp [cntVs]
    rw [this, ih]
    cases v with
    | none => simp
    | some y => simp [cntO, List.count_cons]; omega

theorem count_stagedIds (g : Glyph) (x : Id) :
    g.stagedIds.count x = cntCur x g.cur + cntCs x g.stC + cntKs x g.stK + cntVs x g.stA + cntVs x g.stG := by
  unfold Glyph.stagedIds
  simp only [List.count_append, ← cntCs_eq_count, ← cntKs_eq_count, ← cntVs_eq_count]
  cases g.cur with
  | none => simp [cntCur]
  | some c => simp [cntCur, Contour.cnt_eq_count]

theorem count_carried (g : Glyph) (x : Id) :
    g.carried.count x = cntCs x g.contours + cntKs x g.comps + cntVs x g.anchors + cntVs x g.guides := by
  unfold Glyph.carried
  simp only [List.count_append, ← cntCs_eq_count, ← cntKs_eq_count, ← cntVs_eq_count]

theorem count_held (g : Glyph) (x : Id) : g.held.count x = g.cnt x := by
  unfold Glyph.held
  simp only [List.count_append, count_carried, count_stagedIds, Glyph.cnt]
  omega

/-! ### shallow (lazily loaded) contours: loading them is invisible -/

theorem Ex.discardAll {cnt cnt' : Id → Nat} {reg : List Id} (h : Ex cnt reg) (ids : List Id)
    (hc : ∀ x, cnt' x + ids.count x = cnt x) : Ex cnt' (Ident.discardAll reg ids) := by
  induction ids generalizing cnt reg with
  | nil => exact h.same (by simpa using hc)
  | cons y ys ih =>
    have h1 := h.free (cnt' := fun x => cnt' x + ys.count x) (y := y)
      (by intro x; have := hc x; rw [count_cons_cntO] at this; omega)
    have : Ident.discardAll reg (y :: ys) = Ident.discardAll (reg.erase y) ys := by simp [Ident.discardAll]
    rw [this]
    exact ih h1.2 (fun _ => rfl)

/-- the deepening pen's points: the record's points come out as they are, each identifier is registered -/
theorem loadPoints_spec {cnt : Id → Nat} {reg : List Id} (h : Ex cnt reg) (acc ps : List Point)
    {r : List Id × List Point} (hl : loadPoints reg acc ps = some r) :
    r.2 = acc ++ ps ∧ Ex (fun x => cnt x + cntPts x ps) r.1 := by
  induction ps generalizing cnt reg acc with
  | nil =>
    simp only [loadPoints, Option.some.injEq] at hl
    subst hl
    exact ⟨by simp, h.same (by intro x; simp [cntPts_nil])⟩
  | cons p ps ih =>
    unfold loadPoints at hl
    split at hl
    · rename_i hp
      obtain ⟨h1, h2⟩ := ih h (acc ++ [p]) hl
      refine ⟨by simp [h1], h2.same ?_⟩
      intro x; simp only [cntPts_cons, hp, cntO_none]; omega
    · rename_i y hp
      split at hl
      · cases hl
      · rename_i hy
        obtain ⟨h1, h2⟩ := ih (h.claim hy (fun _ => rfl)) (acc ++ [p]) hl
        refine ⟨by simp [h1], h2.same ?_⟩
        intro x; simp only [cntPts_cons, hp]; omega

/-- … and it never rejects a point when nobody else holds the identifiers of the record -/
theorem loadPoints_ok {cnt : Id → Nat} {reg : List Id} (h : Ex cnt reg) (acc ps : List Point)
    (hle : ∀ x, cnt x + cntPts x ps ≤ 1) : ∃ r, loadPoints reg acc ps = some r := by
  induction ps generalizing cnt reg acc with
  | nil => exact ⟨_, rfl⟩
  | cons p ps ih =>
    unfold loadPoints
    split
    · rename_i hp
      exact ih h _ (by intro x; have := hle x; simp only [cntPts_cons, hp, cntO_none] at this; omega)
    · rename_i y hp
      have hy : y ∉ reg := by
        intro hm
        have h1 := h.exact y
        rw [ind_of_mem hm] at h1
        have := hle y
        simp only [cntPts_cons, hp, cntO_self] at this
        omega
      simp only [hy, if_false]
      exact ih (h.claim hy (fun _ => rfl)) _
        (by intro x; have := hle x; simp only [cntPts_cons, hp] at this; omega)

theorem loadContour_spec {cnt : Id → Nat} {reg : List Id} (h : Ex cnt reg) (c : Contour)
    {r : List Id × Contour} (hl : loadContour reg c = some r) :
    r.2 = c ∧ Ex (fun x => cnt x + c.cnt x) r.1 := by
  unfold loadContour at hl
  split at hl
  · rename_i hid
    split at hl
    · cases hl
    · rename_i r' hr
      simp only [Option.some.injEq] at hl
      subst hl
      obtain ⟨h1, h2⟩ := loadPoints_spec h [] c.pts hr
      refine ⟨?_, h2.same ?_⟩
      · cases c; simp_all
      · intro x; simp only [Contour.cnt, hid, cntO_none]; omega
  · rename_i y hid
    split at hl
    · cases hl
    · rename_i hy
      split at hl
      · cases hl
      · rename_i r' hr
        simp only [Option.some.injEq] at hl
        subst hl
        obtain ⟨h1, h2⟩ := loadPoints_spec (h.claim hy (fun _ => rfl)) [] c.pts hr
        refine ⟨?_, h2.same ?_⟩
        · cases c; simp_all
        · intro x; simp only [Contour.cnt, hid]; omega

theorem loadContour_ok {cnt : Id → Nat} {reg : List Id} (h : Ex cnt reg) (c : Contour)
    (hle : ∀ x, cnt x + c.cnt x ≤ 1) : ∃ r, loadContour reg c = some r := by
  unfold loadContour
  split
  · rename_i hid
    obtain ⟨r, hr⟩ := loadPoints_ok h [] c.pts
      (by intro x; have := hle x; simp only [Contour.cnt, hid, cntO_none] at this; omega)
    rw [hr]; exact ⟨_, rfl⟩
  · rename_i y hid
    have hy : y ∉ reg := by
      intro hm
      have h1 := h.exact y
      rw [ind_of_mem hm] at h1
      have := hle y
      simp only [Contour.cnt, hid, cntO_self] at this
      omega
    simp only [hy, if_false]
    obtain ⟨r, hr⟩ := loadPoints_ok (h.claim hy (fun _ => rfl)) [] c.pts
      (by intro x; have := hle x; simp only [Contour.cnt, hid] at this; omega)
    rw [hr]; exact ⟨_, rfl⟩

theorem loadContours_spec {cnt : Id → Nat} {reg : List Id} (h : Ex cnt reg) (acc cs : List Contour)
    {r : List Id × List Contour} (hl : loadContours reg acc cs = some r) :
    r.2 = acc ++ cs ∧ Ex (fun x => cnt x + cntCs x cs) r.1 := by
  induction cs generalizing cnt reg acc with
  | nil =>
    simp only [loadContours, Option.some.injEq] at hl
    subst hl
    exact ⟨by simp, h.same (by intro x; simp)⟩
  | cons c cs ih =>
    unfold loadContours at hl
    split at hl
    · cases hl
    · rename_i r' hr
      obtain ⟨h1, h2⟩ := loadContour_spec h c hr
      obtain ⟨h3, h4⟩ := ih h2 (acc ++ [r'.2]) hl
      refine ⟨by simp [h3, h1], h4.same ?_⟩
      intro x; simp only [cntCs, List.map_cons, List.sum_cons]; omega

theorem loadContours_ok {cnt : Id → Nat} {reg : List Id} (h : Ex cnt reg) (acc cs : List Contour)
    (hle : ∀ x, cnt x + cntCs x cs ≤ 1) : ∃ r, loadContours reg acc cs = some r := by
  induction cs generalizing cnt reg acc with
  | nil => exact ⟨_, rfl⟩
  | cons c cs ih =>
    unfold loadContours
    obtain ⟨r, hr⟩ := loadContour_ok h c
      (by intro x; have := hle x; simp only [cntCs, List.map_cons, List.sum_cons] at this; omega)
    rw [hr]
    obtain ⟨_, h2⟩ := loadContour_spec h c hr
    exact ih h2 _ (by intro x; have := hle x; simp only [cntCs, List.map_cons, List.sum_cons] at this ⊢; omega)

/-- what remains of a container's count when its contours are set aside -/
theorem cnt_split_contours (g : Glyph) (x : Id) :
    ({ g with contours := [] } : Glyph).cnt x + (g.contours.flatMap Contour.ids).count x = g.cnt x := by
  rw [← cntCs_eq_count]
  simp only [Glyph.cnt, cntCs_nil]
  omega

/-- In a container that satisfies the invariant the deepening pen never rejects anything: the read access that
loads shallow contours cannot raise. -/
theorem deepen_never_rejects {g : Glyph} (h : Inv g) :
    ∃ r, loadContours (discardAll g.reg (g.contours.flatMap Contour.ids)) [] g.contours = some r := by
  have h0 := h.ex.discardAll (cnt' := ({ g with contours := [] } : Glyph).cnt) _ (cnt_split_contours g)
  refine loadContours_ok h0 [] g.contours ?_
  intro x
  have h1 := cnt_split_contours g x
  rw [← cntCs_eq_count] at h1
  have := h.ex.le_one x
  omega

/-- `_fullyLoadShallowLoadedContours`: the same objects, the same identifiers registered (the registry may list
them in another order), the invariant kept. -/
theorem deepen_spec {g : Glyph} (h : Inv g) :
    Inv (deepen g) ∧ deepen g = { g with shallow := false, reg := (deepen g).reg } ∧
    ∀ x, x ∈ (deepen g).reg ↔ x ∈ g.reg := by
  have key : Inv (deepen g) ∧ deepen g = { g with shallow := false, reg := (deepen g).reg } := by
    unfold deepen
    split
    · obtain ⟨r, hr⟩ := deepen_never_rejects h
      have h0 := h.ex.discardAll (cnt' := ({ g with contours := [] } : Glyph).cnt) _ (cnt_split_contours g)
      obtain ⟨h1, h2⟩ := loadContours_spec h0 [] g.contours hr
      simp only [hr]
      rw [List.nil_append] at h1
      refine ⟨Ex.inv (h2.same ?_), ?_⟩
      · intro x
        have := cnt_split_contours g x
        rw [← cntCs_eq_count] at this
        simp only [h1]
        simp only [Glyph.cnt] at this ⊢
        omega
      · simp only [h1]
    · rename_i hs
      refine ⟨h, ?_⟩
      cases g
      simp only [Bool.not_eq_true] at hs
      subst hs
      rfl
  refine ⟨key.1, key.2, fun x => ?_⟩
  have e3 : (deepen g).cnt x = g.cnt x := by rw [key.2]; rfl
  have e1 : ind (deepen g).reg x = ind g.reg x := by rw [← key.1.exact x, ← h.exact x, e3]
  clear key e3
  unfold ind at e1
  constructor
  · intro hm
    by_cases hn : x ∈ g.reg
    · exact hn
    · simp [hm, hn] at e1
  · intro hm
    by_cases hn : x ∈ (deepen g).reg
    · exact hn
    · simp [hm, hn] at e1

theorem inv_deepen {g : Glyph} (h : Inv g) : Inv (deepen g) := (deepen_spec h).1

theorem deepen_cur (g : Glyph) : (deepen g).cur = g.cur := by
  unfold deepen; split
  · split <;> rfl
  · rfl

theorem deepen_of_loaded {g : Glyph} (h : g.shallow = false) : deepen g = g := by
  unfold deepen; simp [h]

theorem deepen_shallow (g : Glyph) : (deepen g).shallow = false := by
  unfold deepen; split
  · split <;> rfl
  · rename_i h; simpa using h

/-- `set_shallow_contours`: every identifier reserved so far is registered once more -/
theorem Ex.reserve {cnt : Id → Nat} {reg : List Id} (done ids : List Id)
    (h : Ex (fun x => cnt x + done.count x) reg) :
    Ex (fun x => cnt x + (Ident.reserve reg done ids).2.1.count x) (Ident.reserve reg done ids).1 ∧
    ((Ident.reserve reg done ids).2.2 = true → (Ident.reserve reg done ids).2.1 = done ++ ids) := by
  induction ids generalizing reg done with
  | nil => exact ⟨h, fun _ => by simp [Ident.reserve]⟩
  | cons y ys ih =>
    unfold Ident.reserve
    split
    · exact ⟨h, fun hf => by simp at hf⟩
    · rename_i hy
      have h1 : Ex (fun x => cnt x + (done ++ [y]).count x) (regAdd reg y) := by
        refine h.claim hy ?_
        intro x
        simp only [List.count_append, count_cons_cntO, List.count_nil]
        omega
      obtain ⟨h2, h3⟩ := ih (done ++ [y]) h1
      exact ⟨h2, fun hf => by rw [h3 hf]; simp⟩

/-! ### staged objects -/

theorem inv_abandon {g : Glyph} (h : Inv g) : Inv (abandon g) := by
  apply Ex.inv
  apply h.ex.same
  intro x
  have := count_stagedIds g x
  simp only [abandon, Glyph.cnt, List.count_append, cntCur, cntCs_nil, cntKs_nil, cntVs_nil] at this ⊢
  omega

theorem inv_dropCur {g : Glyph} (h : Inv g) : Inv (dropCur g) := by
  unfold dropCur
  split
  · rename_i c hc
    apply Ex.inv
    apply h.ex.same
    intro x
    simp only [Glyph.cnt, hc, cntCur, List.count_append, Contour.cnt_eq_count]
    omega
  · exact h

theorem dropCur_cur (g : Glyph) : (dropCur g).cur = none := by
  unfold dropCur
  split
  · rfl
  · rename_i hc; exact hc

theorem inv_penBeginCore {g : Glyph} (h : Inv g) (hcur : g.cur = none) (v : Option Id) (skip : Bool) :
    Inv (penBeginCore g v skip).1 := by
  have hempty : Inv ({ g with cur := some {} } : Glyph) := by
    apply Ex.inv
    apply h.ex.same
    intro x
    simp only [Glyph.cnt, hcur, cntCur, Contour.cnt, cntPts_nil, cntO_none]
  unfold penBeginCore
  split
  · exact hempty
  · rename_i y
    split
    · split <;> exact hempty
    · rename_i hy
      apply Ex.inv
      refine h.ex.claim hy ?_
      intro x
      simp only [Glyph.cnt, hcur, cntCur, Contour.cnt, cntPts_nil]
      omega

theorem inv_penBegin {g : Glyph} (h : Inv g) (v : Option Id) (skip : Bool) : Inv (penBegin g v skip).1 :=
  inv_penBeginCore (inv_dropCur h) (dropCur_cur g) v skip

theorem inv_penPoint {g : Glyph} (h : Inv g) (p : Point) (skip : Bool) : Inv (penPoint g p skip).1 := by
  unfold penPoint
  split
  · exact h
  · rename_i c hc
    split
    · rename_i hp
      apply Ex.inv
      apply h.ex.same
      intro x
      simp only [Glyph.cnt, hc, cntCur, Contour.cnt, cntPts_append, cntPts_cons, cntPts_nil, hp, cntO_none]
      omega
    · rename_i y hp
      split
      · split
        · apply Ex.inv
          apply h.ex.same
          intro x
          simp only [Glyph.cnt, hc, cntCur, Contour.cnt, cntPts_append, cntPts_cons, cntPts_nil, cntO_none]
          omega
        · exact h
      · rename_i hy
        apply Ex.inv
        refine h.ex.claim hy ?_
        intro x
        simp only [Glyph.cnt, hc, cntCur, Contour.cnt, cntPts_append, cntPts_cons, cntPts_nil, hp]
        omega

theorem inv_penEnd {g : Glyph} (h : Inv g) : Inv (penEnd g).1 := by
  unfold penEnd
  split
  · exact h
  · rename_i c hc
    have hd := inv_deepen h
    have hcur : (deepen g).cur = some c := by rw [deepen_cur]; exact hc
    apply Ex.inv
    apply hd.ex.same
    intro x
    simp only [Glyph.cnt, hcur, cntCur, cntCs_append, cntCs_single]
    omega

theorem inv_penPoints {g : Glyph} (h : Inv g) (skip : Bool) (ps : List Point) :
    Inv (penPoints skip g ps).1 := by
  induction ps generalizing g with
  | nil => exact h
  | cons p ps ih =>
    unfold penPoints
    have h1 := inv_penPoint h p skip
    split
    · rename_i g1 heq; rw [heq] at h1; exact ih h1
    · rename_i g1 heq; rw [heq] at h1; exact h1

theorem inv_penContour {g : Glyph} (h : Inv g) (skip : Bool) (c : Contour) :
    Inv (penContour skip g c).1 := by
  unfold penContour
  have h1 := inv_penBegin h c.id skip
  split
  · rename_i g1 heq; rw [heq] at h1; exact h1
  · rename_i g1 heq; rw [heq] at h1
    have h2 := inv_penPoints h1 skip c.pts
    split
    · rename_i g2 heq2; rw [heq2] at h2; exact h2
    · rename_i g2 heq2; rw [heq2] at h2; exact inv_penEnd h2

theorem inv_penContours {g : Glyph} (h : Inv g) (skip : Bool) (cs : List Contour) :
    Inv (penContours skip g cs).1 := by
  induction cs generalizing g with
  | nil => exact h
  | cons c cs ih =>
    unfold penContours
    have h1 := inv_penContour h skip c
    split
    · rename_i g1 heq; rw [heq] at h1; exact ih h1
    · rename_i g1 heq; rw [heq] at h1; exact h1

theorem inv_penComp {g : Glyph} (h : Inv g) (skip : Bool) (k : Comp) : Inv (penComp skip g k).1 := by
  unfold penComp
  split
  · rename_i hk
    apply Ex.inv
    apply h.ex.same
    intro x
    simp only [Glyph.cnt, cntKs_append, cntKs_single, hk, cntO_none]
    omega
  · rename_i y hk
    split
    · split
      · apply Ex.inv
        apply h.ex.same
        intro x
        simp only [Glyph.cnt, cntKs_append, cntKs_single, cntO_none]
        omega
      · exact h
    · rename_i hy
      apply Ex.inv
      refine h.ex.claim hy ?_
      intro x
      simp only [Glyph.cnt, cntKs_append, cntKs_single, hk]
      omega

theorem inv_penComps {g : Glyph} (h : Inv g) (skip : Bool) (ks : List Comp) :
    Inv (penComps skip g ks).1 := by
  induction ks generalizing g with
  | nil => exact h
  | cons k ks ih =>
    unfold penComps
    have h1 := inv_penComp h skip k
    split
    · rename_i g1 heq; rw [heq] at h1; exact ih h1
    · rename_i g1 heq; rw [heq] at h1; exact h1

theorem inv_drawOutline {g : Glyph} (h : Inv g) (cs : List Contour) (ks : List Comp) (skip : Bool) :
    Inv (drawOutline g cs ks skip).1 := by
  unfold drawOutline
  have h1 := inv_penContours h skip cs
  split
  · rename_i g1 heq; rw [heq] at h1; exact inv_abandon h1
  · rename_i g1 heq; rw [heq] at h1
    have h2 := inv_penComps h1 skip ks
    split
    · rename_i g2 heq2; rw [heq2] at h2; exact inv_abandon h2
    · rename_i g2 heq2; rw [heq2] at h2; exact h2

theorem inv_stageGuide {g : Glyph} (h : Inv g) (v : Option Id) : Inv (stageGuide g v).1 := by
  unfold stageGuide
  split
  · exact h
  · rename_i r hr
    apply Ex.inv
    refine h.ex.claimOpt hr ?_
    intro x
    simp only [Glyph.cnt, cntVs_append, cntVs_single]
    omega

theorem inv_stageAnchor {g : Glyph} (h : Inv g) (v : Option Id) : Inv (stageAnchor g v).1 := by
  unfold stageAnchor
  split
  · exact h
  · rename_i r hr
    apply Ex.inv
    refine h.ex.claimOpt hr ?_
    intro x
    simp only [Glyph.cnt, cntVs_append, cntVs_single]
    omega

theorem inv_stageComp {g : Glyph} (h : Inv g) (k : Comp) : Inv (stageComp g k).1 := by
  unfold stageComp
  split
  · exact h
  · rename_i r hr
    apply Ex.inv
    refine h.ex.claimOpt hr ?_
    intro x
    simp only [Glyph.cnt, cntKs_append, cntKs_single]
    omega

theorem inv_stageContour {g : Glyph} (h : Inv g) (c : Contour) : Inv (stageContour g c).1 := by
  unfold stageContour
  have h1 := inv_penBegin h c.id false
  split
  · rename_i g1 heq; rw [heq] at h1; exact h1
  · rename_i g1 heq; rw [heq] at h1
    have h2 := inv_penPoints h1 false c.pts
    split
    · rename_i g2 heq2; rw [heq2] at h2; exact h2
    · rename_i g2 heq2; rw [heq2] at h2
      split
      · exact h2
      · rename_i c' hc'
        apply Ex.inv
        apply h2.ex.same
        intro x
        simp only [Glyph.cnt, hc', cntCur, cntCs_append, cntCs_single]
        omega

theorem inv_stageAll {α : Type} (f : Glyph → α → Glyph × Bool)
    (hf : ∀ g a, Inv g → Inv (f g a).1) {g : Glyph} (h : Inv g) (l : List α) :
    Inv (stageAll f g l).1 := by
  induction l generalizing g with
  | nil => exact h
  | cons a l ih =>
    unfold stageAll
    have h1 := hf g a h
    split
    · rename_i g1 heq; rw [heq] at h1; exact ih h1
    · rename_i g1 heq; rw [heq] at h1; exact h1

theorem inv_commitGuides {g : Glyph} (h : Inv g) : Inv (commitGuides g).1 := by
  unfold commitGuides
  have h1 := inv_clearGuides h g.guides.length
  dsimp only
  split
  · apply Ex.inv
    apply h1.ex.same
    intro x
    simp only [Glyph.cnt, cntVs_append, cntVs_nil]
    omega
  · exact inv_abandon h1

theorem inv_commitAnchors {g : Glyph} (h : Inv g) : Inv (commitAnchors g).1 := by
  unfold commitAnchors
  have h1 := inv_clearAnchors h g.anchors.length
  dsimp only
  split
  · apply Ex.inv
    apply h1.ex.same
    intro x
    simp only [Glyph.cnt, cntVs_append, cntVs_nil]
    omega
  · exact inv_abandon h1

theorem inv_appendGuideDicts {g : Glyph} (h : Inv g) (vs : List (Option Id)) :
    Inv (appendGuideDicts g vs).1 := by
  induction vs generalizing g with
  | nil => exact h
  | cons v vs ih =>
    unfold appendGuideDicts
    have h1 := inv_insertGuide h g.guides.length v
    split
    · rename_i g1 heq; rw [heq] at h1; exact ih h1
    · rename_i g1 res _ heq; rw [heq] at h1; exact h1

theorem inv_appendAnchorDicts {g : Glyph} (h : Inv g) (vs : List (Option Id)) :
    Inv (appendAnchorDicts g vs).1 := by
  induction vs generalizing g with
  | nil => exact h
  | cons v vs ih =>
    unfold appendAnchorDicts
    have h1 := inv_insertAnchor h g.anchors.length v
    split
    · rename_i g1 heq; rw [heq] at h1; exact ih h1
    · rename_i g1 res _ heq; rw [heq] at h1; exact h1

theorem inv_setGuides {g : Glyph} (h : Inv g) (vs : List (Option Id)) : Inv (setGuides g vs).1 := by
  unfold setGuides
  have h1 := inv_clearGuides h g.guides.length
  dsimp only
  split
  · exact inv_appendGuideDicts h1 vs
  · exact h1

theorem inv_setAnchors {g : Glyph} (h : Inv g) (vs : List (Option Id)) : Inv (setAnchors g vs).1 := by
  unfold setAnchors
  have h1 := inv_clearAnchors h g.anchors.length
  dsimp only
  split
  · exact inv_appendAnchorDicts h1 vs
  · exact h1

theorem inv_clearGlyph {g : Glyph} (h : Inv g) : Inv (clearGlyph g).1 := by
  unfold clearGlyph
  have ha := inv_clearContours h g.contours.length
  dsimp only
  split
  · have hb := inv_clearComps ha (clearContours g.contours.length g).1.comps.length
    split
    · have hc := inv_clearAnchors hb (clearComps (clearContours g.contours.length g).1.comps.length
        (clearContours g.contours.length g).1).1.anchors.length
      split
      · exact inv_clearGuides hc _
      · exact hc
    · exact hb
  · exact ha

theorem inv_copyFrom {g : Glyph} (h : Inv g) (src : Glyph) : Inv (copyFrom g src).1 := by
  unfold copyFrom
  have h1 := inv_stageAll stageGuide (fun g a hg => inv_stageGuide hg a) h src.guides
  split
  · rename_i g1 heq; rw [heq] at h1; exact inv_abandon h1
  · rename_i g1 heq; rw [heq] at h1
    have ha := inv_commitGuides h1
    try dsimp only
    split
    · have h2 := inv_stageAll stageAnchor (fun g a hg => inv_stageAnchor hg a) ha src.anchors
      split
      · rename_i g2 heq2; rw [heq2] at h2; exact inv_abandon h2
      · rename_i g2 heq2; rw [heq2] at h2
        have hb := inv_commitAnchors h2
        try dsimp only
        split
        · exact inv_drawOutline hb _ _ _
        · exact hb
    · exact ha

theorem inv_moveStC {g : Glyph} (h : Inv g) :
    Inv ({ g with contours := g.contours ++ g.stC, stC := [] } : Glyph) := by
  apply Ex.inv
  apply h.ex.same
  intro x
  simp only [Glyph.cnt, cntCs_append, cntCs_nil]
  omega

theorem inv_moveStK {g : Glyph} (h : Inv g) :
    Inv ({ g with comps := g.comps ++ g.stK, stK := [] } : Glyph) := by
  apply Ex.inv
  apply h.ex.same
  intro x
  simp only [Glyph.cnt, cntKs_append, cntKs_nil]
  omega

theorem inv_deserializeTail {g1 : Glyph} (h1' : Inv g1) (src : Glyph) (rm : Removed) :
    Inv (deserializeTail g1 src rm).1 := by
  unfold deserializeTail
  have h2 := inv_stageAll stageComp (fun g a hg => inv_stageComp hg a) h1' src.comps
  try dsimp only
  split
  · rename_i g2 heq2; rw [heq2] at h2; exact inv_abandon h2
  · rename_i g2 heq2; rw [heq2] at h2
    have h2' := inv_moveStK h2
    have h3 := inv_stageAll stageGuide (fun g a hg => inv_stageGuide hg a) h2' src.guides
    try dsimp only
    split
    · rename_i g3 heq3; rw [heq3] at h3; exact inv_abandon h3
    · rename_i g3 heq3; rw [heq3] at h3
      have ha := inv_commitGuides h3
      try dsimp only
      split
      · have h4 := inv_stageAll stageAnchor (fun g a hg => inv_stageAnchor hg a) ha src.anchors
        split
        · rename_i g4 heq4; rw [heq4] at h4; exact inv_abandon h4
        · rename_i g4 heq4; rw [heq4] at h4
          exact inv_commitAnchors h4
      · exact ha

theorem inv_deserialize {g : Glyph} (h : Inv g) (src : Glyph) : Inv (deserialize g src).1 := by
  unfold deserialize
  have hc := inv_clearGlyph (inv_deepen h)
  try dsimp only
  split
  · split
    · -- the source is shallow: its records are taken over, their identifiers reserved one by one
      have hr := Ex.reserve (cnt := (clearGlyph (deepen g)).1.cnt) (reg := (clearGlyph (deepen g)).1.reg) []
        (src.contours.flatMap Contour.ids) (hc.ex.same (by intro x; simp))
      split
      · rename_i r done heq
        rw [heq] at hr
        apply Ex.inv
        refine hr.1.same ?_
        intro x
        simp only [Glyph.cnt, List.count_append]
        omega
      · rename_i r done heq
        rw [heq] at hr
        have hd : done = src.contours.flatMap Contour.ids := by simpa using hr.2 rfl
        refine inv_deserializeTail (Ex.inv (hr.1.same ?_)) src _
        intro x
        simp only [Glyph.cnt, cntCs_append, hd, cntCs_eq_count x src.contours]
        omega
    · have h1 := inv_stageAll stageContour (fun g a hg => inv_stageContour hg a) hc src.contours
      split
      · rename_i g1 heq; rw [heq] at h1; exact inv_abandon h1
      · rename_i g1 heq; rw [heq] at h1
        exact inv_deserializeTail (inv_moveStC h1) src _
  · exact hc

theorem inv_fontDeserialize {g : Glyph} (h : Inv g) : Inv (fontDeserialize g).1 := by
  unfold fontDeserialize
  have hr := inv_clearGuides h g.guides.length
  try dsimp only
  split
  · have h1 := inv_stageAll stageGuide (fun g a hg => inv_stageGuide hg a) hr g.guides
    split
    · rename_i g1 heq; rw [heq] at h1; exact inv_abandon h1
    · rename_i g1 heq; rw [heq] at h1
      exact inv_commitGuides h1
  · exact hr

theorem inv_readInto {g : Glyph} (h : Inv g) (d : Data) : Inv (readInto g d).1 := by
  unfold readInto
  have ho := inv_drawOutline h d.contours d.comps false
  try dsimp only
  split
  · have ha : Inv (if d.guides = [] then ((drawOutline g d.contours d.comps false).1, Res.ok, [])
        else setGuides (drawOutline g d.contours d.comps false).1 d.guides).1 := by
      split
      · exact ho
      · exact inv_setGuides ho _
    split
    · split
      · exact ha
      · exact inv_setAnchors ha _
    · exact ha
  · exact ho

theorem inv_markShallow {g : Glyph} (h : Inv g) : Inv (markShallow g) := ⟨h.exact, h.nodup⟩

theorem inv_reload {g : Glyph} (h : Inv g) (d : Data) : Inv (reload g d).1 := by
  unfold reload
  have hc := inv_clearGlyph h
  try dsimp only
  split
  · exact inv_readInto hc d
  · exact hc

theorem inv_decompose (ws : List Glyph) {g : Glyph} (h : Inv g) (i : Nat) : Inv (decompose ws g i).1 := by
  unfold decompose
  split
  · exact h
  · rename_i k _
    have h1 := inv_penContours h true (flatten ws 4 k.base)
    split
    · rename_i g1 heq; rw [heq] at h1; exact inv_abandon h1
    · rename_i g1 heq; rw [heq] at h1; exact inv_removeComp h1 i

theorem inv_decomposeAll (ws : List Glyph) {g : Glyph} (h : Inv g) (n : Nat) :
    Inv (decomposeAll ws n g).1 := by
  induction n generalizing g with
  | zero => exact h
  | succ n ih =>
    unfold decomposeAll
    have h1 := inv_decompose ws h 0
    split
    · rename_i g1 k heq; rw [heq] at h1; exact ih h1
    · rename_i g1 res o _ heq; rw [heq] at h1; exact h1

/-! ### the world -/

theorem inv_empty : Inv ({} : Glyph) := ⟨fun x => by simp [Glyph.cnt, cntCur, ind], by simp⟩

theorem winv_get {w : World} (h : WInv w) (t : Nat) : Inv (w.get t) := by
  unfold World.get
  cases hg : w.conts[t]? with
  | none => exact inv_empty
  | some g => exact h g (List.mem_of_getElem? hg)

theorem winv_put {w : World} (h : WInv w) {g : Glyph} (hg : Inv g) (t : Nat) : WInv (w.put t g) := by
  intro g' hg'
  simp only [World.put] at hg'
  rcases List.mem_or_eq_of_mem_set hg' with h1 | h1
  · exact h g' h1
  · rw [h1]; exact hg

theorem winv_on {w : World} (h : WInv w) (t : Nat) (f : Glyph → Glyph × Res)
    (hf : ∀ g, Inv g → Inv (f g).1) : WInv (w.on t f).1 := by
  unfold World.on
  exact winv_put h (hf _ (winv_get h t)) t

theorem inv_of_eq2 {α : Type} {f : Glyph × α} {g1 : Glyph} {a : α} (heq : f = (g1, a)) (h : Inv f.1) :
    Inv g1 := by subst heq; exact h

theorem inv_of_eq3 {α β : Type} {f : Glyph × α × β} {g1 : Glyph} {a : α} {b : β}
    (heq : f = (g1, a, b)) (h : Inv f.1) : Inv g1 := by subst heq; exact h

theorem winv_pushRemoved {w : World} (h : WInv w) (r : Removed) : WInv (w.pushRemoved r) := h

theorem winv_stepL {w : World} (h : WInv w) (op : Op) : WInv (stepL w op).1 := by
  cases op with
  | insContour t r c => exact winv_on h t _ (fun g hg => inv_insertContour hg _ _)
  | reinsContour t r k =>
    simp only [stepL]
    split
    · exact h
    · split
      · exact h
      · split
        · rename_i heq
          exact winv_put h (inv_of_eq2 heq (inv_insertContour (winv_get h t) _ _)) t
        · exact h
  | rmContour t r =>
    simp only [stepL]
    split
    · exact h
    · split <;>
        (rename_i heq; exact winv_put h (inv_of_eq3 heq (inv_removeContour (winv_get h t) _)) t)
  | clearContours t =>
    simp only [stepL]
    exact winv_put h (inv_clearContours (winv_get h t) _) t
  | insPoint t rc rp p =>
    simp only [stepL]
    split
    · exact h
    · exact winv_on h t _ (fun g hg => inv_insertPoint hg _ _ _)
  | addPoint t rc p =>
    simp only [stepL]
    split
    · exact h
    · exact winv_on h t _ (fun g hg => inv_insertPoint hg _ _ _)
  | rmPoint t rc rp =>
    simp only [stepL]
    split
    · exact h
    · split
      · exact h
      · exact winv_on h t _ (fun g hg => inv_removePoint hg _ _)
  | clearContour t rc =>
    simp only [stepL]
    split
    · exact h
    · exact winv_on h t _ (fun g hg => inv_clearContour hg _)
  | reverse t rc =>
    simp only [stepL]
    split
    · exact h
    · exact winv_on h t _ (fun g hg => inv_reverse hg _)
  | rmSegment t rc rs preserve =>
    simp only [stepL]
    split
    · exact h
    · split
      · exact h
      · exact winv_on h t _ (fun g hg => inv_removeSegment hg _ _ _)
  | split t rc rs =>
    simp only [stepL]
    split
    · exact h
    · split
      · exact h
      · exact winv_on h t _ (fun g hg => inv_split hg _ _)
  | setStart t rc rp =>
    simp only [stepL]
    split
    · exact h
    · split
      · exact h
      · exact winv_on h t _ (fun g hg => inv_setStart hg _ _)
  | setContourId t rc v =>
    simp only [stepL]
    split
    · exact h
    · exact winv_on h t _ (fun g hg => inv_setContourId hg _ _)
  | genContourId t rc cands =>
    simp only [stepL]
    split
    · exact h
    · exact winv_on h t _ (fun g hg => inv_genContourId hg _ _)
  | genPointId t rc rp cands =>
    simp only [stepL]
    split
    · exact h
    · split
      · exact h
      · exact winv_on h t _ (fun g hg => inv_genPointId hg _ _ _)
  | insComp t r k => exact winv_on h t _ (fun g hg => inv_insertComp hg _ _)
  | reinsComp t r k =>
    simp only [stepL]
    split
    · exact h
    · split
      · exact h
      · split
        · exact h
        · split
          · rename_i heq
            exact winv_put h (inv_of_eq2 heq (inv_insertComp (winv_get h t) _ _)) t
          · exact h
  | rmComp t r =>
    simp only [stepL]
    split
    · exact h
    · split <;>
        (rename_i heq; exact winv_put h (inv_of_eq3 heq (inv_removeComp (winv_get h t) _)) t)
  | clearComps t =>
    simp only [stepL]
    exact winv_put h (inv_clearComps (winv_get h t) _) t
  | setCompId t r v =>
    simp only [stepL]
    split
    · exact h
    · exact winv_on h t _ (fun g hg => inv_setCompId hg _ _)
  | genCompId t r cands =>
    simp only [stepL]
    split
    · exact h
    · exact winv_on h t _ (fun g hg => inv_genCompId hg _ _)
  | decompose t r =>
    simp only [stepL]
    split
    · exact h
    · split <;>
        (rename_i heq; exact winv_put h (inv_of_eq3 heq (inv_decompose _ (winv_get h t) _)) t)
  | decomposeAll t =>
    simp only [stepL]
    exact winv_put h (inv_decomposeAll _ (winv_get h t) _) t
  | insAnchor t r v d => exact winv_on h t _ (fun g hg => inv_insertAnchor hg _ _)
  | reinsAnchor t r k =>
    simp only [stepL]
    split
    · exact h
    · split
      · exact h
      · split
        · rename_i heq
          exact winv_put h (inv_of_eq2 heq (inv_insertAnchor (winv_get h t) _ _)) t
        · exact h
  | rmAnchor t r =>
    simp only [stepL]
    split
    · exact h
    · split <;>
        (rename_i heq; exact winv_put h (inv_of_eq3 heq (inv_removeAnchor (winv_get h t) _)) t)
  | clearAnchors t =>
    simp only [stepL]
    exact winv_put h (inv_clearAnchors (winv_get h t) _) t
  | setAnchorId t r v =>
    simp only [stepL]
    split
    · exact h
    · exact winv_on h t _ (fun g hg => inv_setAnchorId hg _ _)
  | genAnchorId t r cands =>
    simp only [stepL]
    split
    · exact h
    · exact winv_on h t _ (fun g hg => inv_genAnchorId hg _ _)
  | setAnchors t vs =>
    simp only [stepL]
    exact winv_put h (inv_setAnchors (winv_get h t) _) t
  | insGuide t r v d => exact winv_on h t _ (fun g hg => inv_insertGuide hg _ _)
  | reinsGuide t r k =>
    simp only [stepL]
    split
    · exact h
    · split
      · exact h
      · split
        · rename_i heq
          exact winv_put h (inv_of_eq2 heq (inv_insertGuide (winv_get h t) _ _)) t
        · exact h
  | rmGuide t r =>
    simp only [stepL]
    split
    · exact h
    · split <;>
        (rename_i heq; exact winv_put h (inv_of_eq3 heq (inv_removeGuide (winv_get h t) _)) t)
  | clearGuides t =>
    simp only [stepL]
    exact winv_put h (inv_clearGuides (winv_get h t) _) t
  | setGuideId t r v =>
    simp only [stepL]
    split
    · exact h
    · exact winv_on h t _ (fun g hg => inv_setGuideId hg _ _)
  | genGuideId t r cands =>
    simp only [stepL]
    split
    · exact h
    · exact winv_on h t _ (fun g hg => inv_genGuideId hg _ _)
  | setGuides t vs =>
    simp only [stepL]
    exact winv_put h (inv_setGuides (winv_get h t) _) t
  | limboSetId kind k v =>
    simp only [stepL]
    repeat' split
    all_goals exact h
  | limboGenId kind k cands =>
    simp only [stepL]
    repeat' split
    all_goals exact h
  | limboAddPoint k p =>
    simp only [stepL]
    repeat' split
    all_goals exact h
  | clearGlyph t =>
    simp only [stepL]
    exact winv_put h (inv_clearGlyph (winv_get h t)) t
  | draw t cs ks skip => exact winv_on h t _ (fun g hg => inv_drawOutline hg _ _ _)
  | drawFrom t src skip => exact winv_on h t _ (fun g hg => inv_drawOutline hg _ _ _)
  | copyFrom t src =>
    simp only [stepL]
    exact winv_put h (inv_copyFrom (winv_get h t) _) t
  | insertGlyph t src =>
    simp only [stepL]
    exact winv_put h (inv_copyFrom inv_empty _) t
  | roundtrip t =>
    simp only [stepL]
    exact winv_put h (inv_deserialize (winv_get h t) _) t
  | deserializeFrom t src =>
    simp only [stepL]
    exact winv_put h (inv_deserialize (winv_get h t) _) t
  | fontRoundtrip =>
    simp only [stepL]
    exact winv_put h (inv_fontDeserialize (winv_get h 3)) 3
  | instAnchor t v =>
    refine winv_on h t _ (fun g hg => ?_)
    have h1 := inv_stageAnchor hg v
    split
    · rename_i g1 heq; rw [heq] at h1; exact inv_abandon h1
    · rename_i g1 heq; rw [heq] at h1; exact h1
  | instGuide t v =>
    refine winv_on h t _ (fun g hg => ?_)
    have h1 := inv_stageGuide hg v
    split
    · rename_i g1 heq; rw [heq] at h1; exact inv_abandon h1
    · rename_i g1 heq; rw [heq] at h1; exact h1
  | reload t d =>
    simp only [stepL]
    exact winv_put h (inv_reload (winv_get h t) _) t
  | reopen ds fg thenAnchor =>
    simp only [stepL]
    have h1 : WInv { w with conts := [markShallow (readInto {} (ds[0]?.getD {})).1,
        markShallow (readInto {} (ds[1]?.getD {})).1, markShallow (readInto {} (ds[2]?.getD {})).1,
        (appendGuideDicts {} fg).1] } := by
      intro g hg
      simp only [List.mem_cons, List.not_mem_nil, or_false] at hg
      rcases hg with rfl | rfl | rfl | rfl
      · exact inv_markShallow (inv_readInto inv_empty _)
      · exact inv_markShallow (inv_readInto inv_empty _)
      · exact inv_markShallow (inv_readInto inv_empty _)
      · exact inv_appendGuideDicts inv_empty _
    split
    · exact h1
    · split
      · exact h1
      · exact winv_on h1 _ _ (fun g hg => inv_insertAnchor hg _ _)
  | rmAbsentPoint t rc =>
    simp only [stepL]
    repeat' split
    all_goals exact h
  | rmAbsent kind t k =>
    simp only [stepL]
    repeat' split
    all_goals exact h
  | rmForeign kind t src r =>
    simp only [stepL]
    repeat' split
    all_goals exact h
  | insAnchorBad t r v => exact h
  | insGuideBad t r v => exact h
  | setAnchorsBad t vs =>
    simp only [stepL]
    exact winv_put h (inv_setAnchors (winv_get h t) _) t
  | setGuidesBad t vs =>
    simp only [stepL]
    exact winv_put h (inv_setGuides (winv_get h t) _) t
  | load t => exact h
  | insertGlyphVia t src =>
    simp only [stepL]
    split
    · exact winv_put h (inv_copyFrom inv_empty _) t
    · exact h

theorem winv_load {w : World} (h : WInv w) (t : Nat) : WInv (w.load t) :=
  winv_put h (inv_deepen (winv_get h t)) t

theorem winv_preload {w : World} (h : WInv w) (op : Op) : WInv (preload w op) := by
  unfold preload
  repeat' split
  all_goals first | exact h | exact winv_load h _ | exact winv_load (winv_load h _) _

theorem winv_step {w : World} (h : WInv w) (op : Op) : WInv (step w op).1 :=
  winv_stepL (winv_preload h op) op

theorem winv_run {w : World} (h : WInv w) (ops : List Op) : WInv (run w ops) := by
  induction ops generalizing w with
  | nil => exact h
  | cons op ops ih => exact ih (winv_step h op)

theorem winv_init : WInv ({} : World) := by
  intro g hg
  simp only [List.mem_cons, List.not_mem_nil, or_false] at hg
  rcases hg with rfl | rfl | rfl | rfl <;> exact inv_empty

/-! ### a rejected single-object operation changes nothing -/

theorem set_self {α : Type} {l : List α} {i : Nat} {a : α} (h : l[i]? = some a) : l.set i a = l := by
  have hlt : i < l.length := by
    rcases Nat.lt_or_ge i l.length with hlt | hge
    · exact hlt
    · rw [List.getElem?_eq_none hge] at h; cases h
  have : l[i] = a := by rw [List.getElem?_eq_getElem hlt] at h; exact Option.some.inj h
  rw [← this]; exact List.set_getElem_self hlt

theorem put_get (w : World) (t : Nat) : w.put t (w.get t) = w := by
  unfold World.put World.get
  cases h : w.conts[t]? with
  | none =>
    have : w.conts.length ≤ t := by
      rcases Nat.lt_or_ge t w.conts.length with hlt | hge
      · rw [List.getElem?_eq_getElem hlt] at h; cases h
      · exact hge
    simp [List.set_eq_of_length_le this]
  | some g =>
    have hlt : t < w.conts.length := by
      rcases Nat.lt_or_ge t w.conts.length with hlt | hge
      · exact hlt
      · rw [List.getElem?_eq_none hge] at h; cases h
    have : w.conts[t] = g := by
      rw [List.getElem?_eq_getElem hlt] at h; exact Option.some.inj h
    simp [← this]

theorem on_unchanged (w : World) (t : Nat) (f : Glyph → Glyph × Res)
    (hf : (f (w.get t)).2 = .err .assertion → (f (w.get t)).1 = w.get t)
    (h : (w.on t f).2 = .err .assertion) : (w.on t f).1 = w := by
  unfold World.on at h ⊢
  simp only at h ⊢
  rw [hf h]; exact put_get w t

theorem insertPoint_unchanged (g : Glyph) (ci idx : Nat) (p : Point)
    (h : (insertPoint g ci idx p).2 = .err .assertion) : (insertPoint g ci idx p).1 = g := by
  unfold insertPoint at h ⊢
  cases hc : g.contours[ci]? with
  | none => simp only
  | some c =>
    simp only [hc] at h ⊢
    cases hp : p.id with
    | none => simp [hp] at h
    | some y =>
      simp only [hp] at h ⊢
      by_cases hy : y ∈ g.reg
      · simp [hy]
      · simp [hy] at h

theorem claim_unchanged (g : Glyph) (idx : Nat) (k : Comp) (v : Option Id) :
    ((insertComp g idx k).2 = .err .assertion → (insertComp g idx k).1 = g) ∧
    ((insertAnchor g idx v).2 = .err .assertion → (insertAnchor g idx v).1 = g) ∧
    ((insertGuide g idx v).2 = .err .assertion → (insertGuide g idx v).1 = g) := by
  refine ⟨?_, ?_, ?_⟩
  · unfold insertComp; cases claimOpt g.reg k.id <;> simp
  · unfold insertAnchor; cases claimOpt g.reg v <;> simp
  · unfold insertGuide; cases claimOpt g.reg v <;> simp

theorem setter_unchanged (g : Glyph) (i : Nat) (v : Option Id) :
    ((setContourId g i v).2 = .err .assertion → (setContourId g i v).1 = g) ∧
    ((setCompId g i v).2 = .err .assertion → (setCompId g i v).1 = g) ∧
    ((setAnchorId g i v).2 = .err .assertion → (setAnchorId g i v).1 = g) ∧
    ((setGuideId g i v).2 = .err .assertion → (setGuideId g i v).1 = g) := by
  refine ⟨?_, ?_, ?_, ?_⟩
  · unfold setContourId
    split
    · intro _; rfl
    · rename_i c hc
      intro h
      obtain ⟨h1, h2⟩ := setIdent_err (cur := c.id) (reg := g.reg) (v := v) (by simp only at h; rw [h]; simp)
      simp only [h1, h2]
      have hc' : ({ c with id := c.id } : Contour) = c := rfl
      rw [hc', set_self hc]
  · unfold setCompId
    split
    · intro _; rfl
    · rename_i c hc
      intro h
      obtain ⟨h1, h2⟩ := setIdent_err (cur := c.id) (reg := g.reg) (v := v) (by simp only at h; rw [h]; simp)
      simp only [h1, h2]
      have hc' : ({ c with id := c.id } : Comp) = c := rfl
      rw [hc', set_self hc]
  · unfold setAnchorId
    split
    · intro _; rfl
    · rename_i c hc
      intro h
      obtain ⟨h1, h2⟩ := setIdent_err (cur := c) (reg := g.reg) (v := v) (by simp only at h; rw [h]; simp)
      simp only [h1, h2]
      rw [set_self hc]
  · unfold setGuideId
    split
    · intro _; rfl
    · rename_i c hc
      intro h
      obtain ⟨h1, h2⟩ := setIdent_err (cur := c) (reg := g.reg) (v := v) (by simp only at h; rw [h]; simp)
      simp only [h1, h2]
      rw [set_self hc]

theorem gen_unchanged (g : Glyph) (i j : Nat) (cands : List Id) :
    ((genContourId g i cands).2 = .err .assertion → (genContourId g i cands).1 = g) ∧
    ((genPointId g i j cands).2 = .err .assertion → (genPointId g i j cands).1 = g) ∧
    ((genCompId g i cands).2 = .err .assertion → (genCompId g i cands).1 = g) ∧
    ((genAnchorId g i cands).2 = .err .assertion → (genAnchorId g i cands).1 = g) ∧
    ((genGuideId g i cands).2 = .err .assertion → (genGuideId g i cands).1 = g) := by
  refine ⟨?_, ?_, ?_, ?_, ?_⟩
  · unfold genContourId
    repeat' (first | split | dsimp only)
    all_goals first | (intro _; rfl) | (intro h; simp at h)
  · unfold genPointId
    repeat' split
    all_goals first | (intro _; rfl) | (intro h; simp at h)
  · unfold genCompId
    repeat' split
    all_goals first | (intro _; rfl) | (intro h; simp at h)
  · unfold genAnchorId
    repeat' split
    all_goals first | (intro _; rfl) | (intro h; simp at h)
  · unfold genGuideId
    repeat' split
    all_goals first | (intro _; rfl) | (intro h; simp at h)


end Ident
end DefconModel
