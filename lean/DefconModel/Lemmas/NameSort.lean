/-
Helper lemmas for M-Sort (`DefconModel/NameSort.lean`).  Property theorems are in `Props/C20.lean`.
-/
import DefconModel.NameSort
import DefconModel.Spec.NameSort

namespace DefconModel
namespace NameSort
open List

/-! ## `sorted` is a permutation -/

theorem insertBy_perm {α : Type} (lt : α → α → Bool) (a : α) (l : List α) :
    (insertBy lt a l).Perm (a :: l) := by
  induction l with
  | nil => exact Perm.refl _
  | cons b r ih =>
    unfold insertBy
    split
    · exact (Perm.cons b ih).trans (Perm.swap a b r)
    · exact Perm.refl _

theorem sortBy_perm {α : Type} (lt : α → α → Bool) (l : List α) : (sortBy lt l).Perm l := by
  induction l with
  | nil => exact Perm.refl _
  | cons a r ih =>
    show (insertBy lt a (sortBy lt r)).Perm (a :: r)
    exact (insertBy_perm lt a _).trans (Perm.cons a ih)

/-! ## small list facts -/

theorem flatten_map_reverse_perm {α : Type} (ls : List (List α)) :
    (ls.map List.reverse).flatten.Perm ls.flatten := by
  induction ls with
  | nil => exact Perm.refl _
  | cons a r ih =>
    simp only [map_cons, flatten_cons]
    exact Perm.append (reverse_perm a) ih

theorem filter_or_perm {α : Type} (p q : α → Bool) (l : List α) (h : ∀ a ∈ l, ¬ (p a = true ∧ q a = true)) :
    (l.filter (fun a => p a || q a)).Perm (l.filter p ++ l.filter q) := by
  induction l with
  | nil => exact Perm.refl _
  | cons a r ih =>
    have ih' := ih (fun b hb => h b (mem_cons_of_mem _ hb))
    have ha := h a mem_cons_self
    cases hp : p a <;> cases hq : q a <;> simp [hp, hq] at ha ⊢
    · exact ih'
    · exact (Perm.cons a ih').trans perm_middle.symm
    · exact ih'

theorem filter_not_perm {α : Type} (p : α → Bool) (l : List α) :
    (l.filter p ++ l.filter (fun a => !p a)).Perm l := filter_append_perm p l

theorem flatMap_append_perm' {α β : Type} (f g : α → List β) (l : List α) :
    (l.flatMap (fun a => f a ++ g a)).Perm (l.flatMap f ++ l.flatMap g) := by
  induction l with
  | nil => exact Perm.refl _
  | cons a r ih =>
    simp only [flatMap_cons]
    refine (Perm.append_left _ ih).trans ?_
    -- (f a ++ g a) ++ (F ++ G) ~ (f a ++ F) ++ (g a ++ G)
    simp only [append_assoc]
    refine Perm.append_left _ ?_
    rw [← append_assoc, ← append_assoc]
    exact Perm.append_right _ perm_append_comm

theorem flatMap_congr' {α β : Type} {f g : α → List β} {l : List α} (h : ∀ a ∈ l, f a = g a) :
    l.flatMap f = l.flatMap g := by
  induction l with
  | nil => rfl
  | cons a r ih =>
    simp only [flatMap_cons]
    rw [h a mem_cons_self, ih (fun b hb => h b (mem_cons_of_mem _ hb))]

/-- grouping by a key: for distinct keys `ks`, the concatenation of the groups is the part of `l`
whose key is among `ks` -/
theorem flatMap_filter_perm {α κ : Type} [DecidableEq κ] (key : α → κ) (l : List α) (ks : List κ)
    (hk : ks.Nodup) :
    (ks.flatMap (fun k => l.filter (fun a => decide (key a = k)))).Perm
      (l.filter (fun a => decide (key a ∈ ks))) := by
  induction ks with
  | nil => simp
  | cons k r ih =>
    rw [nodup_cons] at hk
    simp only [flatMap_cons]
    have h1 : (l.filter (fun a => decide (key a ∈ k :: r))) =
        l.filter (fun a => decide (key a = k) || decide (key a ∈ r)) := by
      congr 1; funext a; simp
    rw [h1]
    refine Perm.symm ((filter_or_perm _ _ l ?_).trans (Perm.append_left _ (ih hk.2).symm))
    intro a _ ⟨h2, h3⟩
    simp at h2 h3
    exact hk.1 (h2 ▸ h3)

/-! ## dict of lists -/

section Buckets
variable {κ α : Type} [DecidableEq κ]

theorem AL.perm_cons_erase {d : List (κ × α)} {k : κ} {v : α} (h : AL.get? d k = some v) :
    d.Perm ((k, v) :: AL.erase d k) := by
  induction d with
  | nil => simp at h
  | cons p r ih =>
    obtain ⟨k', v'⟩ := p
    by_cases h1 : k' = k
    · subst h1; simp at h; subst h; simp [AL.erase]
    · simp [h1] at h
      simp only [AL.erase, h1, if_false]
      exact (Perm.cons _ (ih h)).trans (Perm.swap _ _ _)

theorem AL.erase_of_get?_none {d : List (κ × α)} {k : κ} (h : AL.get? d k = none) : AL.erase d k = d := by
  induction d with
  | nil => rfl
  | cons p r ih =>
    obtain ⟨k', v'⟩ := p
    by_cases h1 : k' = k
    · simp [h1] at h
    · simp [h1] at h; simp [AL.erase, h1, ih h]

/-- the values of a dict, concatenated, split off one key -/
theorem values_split (d : List (κ × List α)) (k : κ) :
    (d.map Prod.snd).flatten.Perm (bucketOf d k ++ ((AL.erase d k).map Prod.snd).flatten) := by
  unfold bucketOf
  cases h : AL.get? d k with
  | none => simp [AL.erase_of_get?_none h]
  | some v =>
    have := ((AL.perm_cons_erase h).map Prod.snd).flatten
    simpa using this

theorem values_set_none (d : List (κ × List α)) (k : κ) (v : List α) (h : AL.get? d k = none) :
    ((AL.set d k v).map Prod.snd).flatten = (d.map Prod.snd).flatten ++ v := by
  induction d with
  | nil => simp [AL.set]
  | cons p r ih =>
    obtain ⟨k', v'⟩ := p
    by_cases h1 : k' = k
    · simp [h1] at h
    · simp [h1] at h; simp [AL.set, h1, ih h]

theorem values_set_some (d : List (κ × List α)) (k : κ) (l : List α) (a : α) (h : AL.get? d k = some l) :
    ((AL.set d k (l ++ [a])).map Prod.snd).flatten.Perm ((d.map Prod.snd).flatten ++ [a]) := by
  induction d with
  | nil => simp at h
  | cons p r ih =>
    obtain ⟨k', v'⟩ := p
    by_cases h1 : k' = k
    · subst h1; simp at h; subst h
      simp only [AL.set, if_true, map_cons, flatten_cons, append_assoc]
      exact Perm.append_left _ perm_append_comm
    · simp [h1] at h
      simp only [AL.set, h1, if_false, map_cons, flatten_cons, append_assoc]
      exact Perm.append_left _ (ih h)

theorem values_addTo (d : List (κ × List α)) (k : κ) (a : α) :
    ((addTo d k a).map Prod.snd).flatten.Perm ((d.map Prod.snd).flatten ++ [a]) := by
  unfold addTo
  cases h : AL.get? d k with
  | none => simp only; rw [values_set_none d k [a] h]
  | some l => exact values_set_some d k l a h

/-- every element lands in exactly one bucket: the buckets together hold the initial content plus the list -/
theorem values_buckets (key : α → κ) (init : List (κ × List α)) (l : List α) :
    ((buckets key init l).map Prod.snd).flatten.Perm ((init.map Prod.snd).flatten ++ l) := by
  induction l generalizing init with
  | nil => simp [buckets]
  | cons a r ih =>
    show ((buckets key (addTo init (key a) a) r).map Prod.snd).flatten.Perm _
    refine (ih _).trans ?_
    refine (Perm.append_right r (values_addTo init (key a) a)).trans ?_
    simp

theorem nodup_keys_addTo (d : List (κ × List α)) (k : κ) (a : α) (h : (AL.keys d).Nodup) :
    (AL.keys (addTo d k a)).Nodup := by
  unfold addTo; split <;> exact AL.nodup_keys_set _ _ _ h

theorem nodup_keys_buckets (key : α → κ) (init : List (κ × List α)) (l : List α)
    (h : (AL.keys init).Nodup) : (AL.keys (buckets key init l)).Nodup := by
  induction l generalizing init with
  | nil => exact h
  | cons a r ih => exact ih _ (nodup_keys_addTo init (key a) a h)

theorem bucketOf_addTo (d : List (κ × List α)) (k k2 : κ) (a : α) :
    bucketOf (addTo d k a) k2 = if k = k2 then bucketOf d k2 ++ [a] else bucketOf d k2 := by
  unfold addTo bucketOf
  by_cases h : k = k2
  · subst h; cases h2 : AL.get? d k <;> simp
  · cases h2 : AL.get? d k <;> simp [h]

/-- the bucket of a key = what the dict started with, then the elements with that key, in list order -/
theorem bucketOf_buckets (key : α → κ) (init : List (κ × List α)) (l : List α) (k : κ) :
    bucketOf (buckets key init l) k = bucketOf init k ++ l.filter (fun a => decide (key a = k)) := by
  induction l generalizing init with
  | nil => simp [buckets]
  | cons a r ih =>
    show bucketOf (buckets key (addTo init (key a) a) r) k = _
    rw [ih, bucketOf_addTo]
    by_cases h : key a = k <;> simp [h]

theorem get?_addTo_isSome (d : List (κ × List α)) (k k2 : κ) (a : α) :
    (AL.get? (addTo d k a) k2).isSome = (decide (k = k2) || (AL.get? d k2).isSome) := by
  unfold addTo
  by_cases h : k = k2
  · subst h; cases h2 : AL.get? d k <;> simp
  · cases h2 : AL.get? d k <;> simp [h]

theorem get?_buckets_isSome (key : α → κ) (init : List (κ × List α)) (l : List α) (k : κ) :
    (AL.get? (buckets key init l) k).isSome = ((AL.get? init k).isSome || l.any (fun a => decide (key a = k))) := by
  induction l generalizing init with
  | nil => simp [buckets]
  | cons a r ih =>
    show (AL.get? (buckets key (addTo init (key a) a) r) k).isSome = _
    rw [ih, get?_addTo_isSome]
    simp only [any_cons]
    cases decide (key a = k) <;> cases (AL.get? init k).isSome <;> simp

theorem get?_eq_some_bucketOf {d : List (κ × List α)} {k : κ} {v : List α} (h : AL.get? d k = some v) :
    bucketOf d k = v := by simp [bucketOf, h]

theorem bucketOf_of_none {d : List (κ × List α)} {k : κ} (h : AL.get? d k = none) :
    bucketOf d k = [] := by simp [bucketOf, h]

/-- for distinct keys covering the dict, the buckets in that order are all the values -/
theorem flatMap_bucketOf_perm (d : List (κ × List α)) (hd : (AL.keys d).Nodup) (ks : List κ)
    (hk : ks.Nodup) (hc : ∀ k ∈ AL.keys d, k ∈ ks) :
    (ks.flatMap (bucketOf d)).Perm (d.map Prod.snd).flatten := by
  induction d generalizing ks with
  | nil =>
    have : ∀ k, bucketOf ([] : List (κ × List α)) k = [] := fun k => rfl
    simp [this]
  | cons p r ih =>
    obtain ⟨k, v⟩ := p
    simp only [AL.keys, map_cons, nodup_cons] at hd
    have hkin : k ∈ ks := hc k (by simp [AL.keys])
    have hperm : ks.Perm (k :: ks.erase k) := perm_cons_erase hkin
    refine (hperm.flatMap_right _).trans ?_
    simp only [flatMap_cons, map_cons, flatten_cons]
    have h1 : bucketOf ((k, v) :: r) k = v := by simp [bucketOf]
    rw [h1]
    refine Perm.append_left _ ?_
    have hnd : (ks.erase k).Nodup := hk.erase k
    have hnot : k ∉ ks.erase k := fun h => by
      have := (hperm.nodup_iff.mp hk); rw [nodup_cons] at this; exact this.1 h
    have h2 : (ks.erase k).flatMap (bucketOf ((k, v) :: r)) = (ks.erase k).flatMap (bucketOf r) := by
      apply flatMap_congr'
      intro k2 hk2
      have : k ≠ k2 := fun e => hnot (e ▸ hk2)
      simp [bucketOf, this]
    rw [h2]
    apply ih (by simpa [AL.keys] using hd.2) _ hnd
    intro k2 hk2
    have hne : k2 ≠ k := fun e => hd.1 (by simpa [AL.keys, e] using hk2)
    exact (mem_erase_of_ne hne).mpr (hc k2 (by simp [AL.keys] at hk2 ⊢; exact Or.inr hk2))

end Buckets

/-! ## nested lists -/

theorem flattenList_map_names (ls : List (List Name)) : Blk.flattenList (ls.map .names) = ls.flatten := by
  induction ls with
  | nil => rfl
  | cons a r ih => simp [Blk.flattenList, Blk.flatten, ih]

@[simp] theorem flatten_namesBlocks (ls : List (List Name)) : (namesBlocks ls).flatten = ls.flatten := by
  simp [namesBlocks, Blk.flatten, flattenList_map_names]

/-- `_sortRecurse` only rearranges inside the innermost lists: if the method returns a permutation of
every list made of names of `S`, so does the recursion on every nested list made of names of `S` -/
theorem flatten_sortRecurse (m : List Name → Blk) (S : List Name)
    (hm : ∀ l, (∀ n ∈ l, n ∈ S) → (m l).flatten.Perm l) (b : Blk) :
    (∀ n ∈ b.flatten, n ∈ S) → (sortRecurse m b).flatten.Perm b.flatten := by
  induction b using Blk.rec (motive_2 := fun bs => (∀ n ∈ Blk.flattenList bs, n ∈ S) →
      (Blk.flattenList (sortRecurseList m bs)).Perm (Blk.flattenList bs)) with
  | names l =>
    intro h
    cases l with
    | nil => exact Perm.refl _
    | cons a r => exact hm _ h
  | blocks bs ih => intro h; exact ih h
  | nil => exact Perm.refl _
  | cons b r ihb ihr =>
    rename_i h
    simp only [sortRecurseList, Blk.flattenList] at h ⊢
    exact Perm.append (ihb (fun n hn => h n (mem_append_left _ hn)))
      (ihr (fun n hn => h n (mem_append_right _ hn)))

/-- the descriptor loop of `sortGlyphNames` over any method table -/
theorem sortWith_perm {τ : Type} (method : Desc τ → List Name → Blk) (ds : List (Desc τ)) (names : List Name)
    (hm : ∀ d ∈ ds, ∀ l, (∀ n ∈ l, n ∈ names) → (method d l).flatten.Perm l) :
    (sortWith method ds names).Perm names := by
  unfold sortWith
  suffices h : ∀ (ds : List (Desc τ)) (b : Blk), b.flatten.Perm names →
      (∀ d ∈ ds, ∀ l, (∀ n ∈ l, n ∈ names) → (method d l).flatten.Perm l) →
      (Blk.flattenList (ds.foldl (fun blocks d => descStep (method d) blocks) [b])).Perm names by
    exact h ds (.names names) (Perm.refl _) hm
  intro ds
  induction ds with
  | nil => intro b hb _; simpa [Blk.flattenList] using hb
  | cons d r ih =>
    intro b hb hm
    simp only [foldl_cons, descStep, map_cons, map_nil]
    apply ih _ _ (fun d' hd' => hm d' (mem_cons_of_mem _ hd'))
    have h1 : ∀ n ∈ (Blk.blocks [b]).flatten, n ∈ names := by
      intro n hn
      simp [Blk.flatten, Blk.flattenList] at hn
      exact hb.mem_iff.mp hn
    refine (flatten_sortRecurse (method d) names (hm d mem_cons_self) (.blocks [b]) h1).trans ?_
    simpa [Blk.flatten, Blk.flattenList] using hb

/-! ## the individual sort methods -/

theorem sortByAlphabet_perm (asc : Bool) (names : List Name) :
    (sortByAlphabet asc names).flatten.Perm names := by
  unfold sortByAlphabet
  simp only [Blk.flatten]
  split
  · exact sortBy_perm _ _
  · exact (reverse_perm _).trans (sortBy_perm _ _)

theorem get?_buckets_init_some {κ α : Type} [DecidableEq κ] (key : α → κ) (k : κ) (l : List α) :
    ∃ v, AL.get? (buckets key [(k, [])] l) k = some v := by
  have := get?_buckets_isSome key [(k, ([] : List α))] l k
  simp at this
  exact Option.isSome_iff_exists.mp this

theorem sortBySuffix_perm (names : List Name) : (sortBySuffix names).flatten.Perm names := by
  unfold sortBySuffix
  simp only [flatten_namesBlocks, flatten_cons]
  have h := values_split (buckets suffixKey [(none, [])] names) none
  have h2 := values_buckets suffixKey [(none, [])] names
  simp at h2
  refine Perm.trans ?_ (h.symm.trans h2)
  refine Perm.append_left _ ?_
  exact ((sortBy_perm keyLt _).map Prod.snd).flatten

theorem map_snd_filterMap_withValue (env : Env) (pseudo : Bool) (names : List Name) :
    (names.filterMap (withValue env pseudo)).map Prod.snd =
      names.filter (fun n => (valueFor env pseudo n).isSome) := by
  induction names with
  | nil => rfl
  | cons a r ih =>
    simp only [filterMap_cons, filter_cons, withValue]
    cases h : valueFor env pseudo a <;> simp [ih]

theorem sortByUnicode_perm (env : Env) (asc pseudo : Bool) (names : List Name) :
    (sortByUnicode env asc pseudo names).flatten.Perm names := by
  unfold sortByUnicode
  have h1 : ((sortBy natStrLt (names.filterMap (withValue env pseudo))).map Prod.snd).Perm
      (names.filter (fun n => (valueFor env pseudo n).isSome)) := by
    rw [← map_snd_filterMap_withValue]
    exact (sortBy_perm _ _).map _
  have h2 : (names.filter (fun n => (valueFor env pseudo n).isNone)) =
      names.filter (fun n => !(valueFor env pseudo n).isSome) := by
    congr 1; funext n; cases valueFor env pseudo n <;> rfl
  have h3 := filter_append_perm (fun n => (valueFor env pseudo n).isSome) names
  split
  · simp only [flatten_namesBlocks, flatten_cons, flatten_nil, append_nil]
    rw [h2]
    exact (Perm.append_right _ h1).trans h3
  · simp only [flatten_namesBlocks, flatten_cons, flatten_nil, append_nil]
    rw [h2]
    refine perm_append_comm.trans ?_
    exact (Perm.append ((reverse_perm _).trans h1) (reverse_perm _)).trans h3

/-- what `_sortByUnicodeLookup` returns, exactly: the names whose tag the ordered list knows - the
others are dropped (finding F21a), nothing is added, nothing is repeated -/
theorem sortByUnicodeLookup_perm_filter (tagOf : Name → String) (ordered : List String) (asc : Bool)
    (names : List Name) (hne : ordered ≠ []) (hnd : ordered.Nodup) :
    (sortByUnicodeLookup tagOf ordered asc names).flatten.Perm
      (names.filter (fun n => decide (tagOf n ∈ ordered))) := by
  unfold sortByUnicodeLookup
  have he : ordered.isEmpty = false := by cases ordered <;> simp_all
  simp only [he, Bool.false_eq_true, if_false]
  have key : ∀ ks : List String, (ks.filterMap (AL.get? (buckets tagOf [] names))).flatten =
      ks.flatMap (fun k => names.filter (fun a => decide (tagOf a = k))) := by
    intro ks
    induction ks with
    | nil => rfl
    | cons k r ih =>
      simp only [filterMap_cons, flatMap_cons]
      have hb := bucketOf_buckets tagOf [] names k
      cases hg : AL.get? (buckets tagOf [] names) k with
      | none =>
        simp only [bucketOf_of_none hg] at hb
        have : bucketOf ([] : List (String × List Name)) k = [] := rfl
        rw [this, nil_append] at hb
        rw [← hb, nil_append]; exact ih
      | some v =>
        rw [get?_eq_some_bucketOf hg] at hb
        have : bucketOf ([] : List (String × List Name)) k = [] := rfl
        rw [this, nil_append] at hb
        simp only [flatten_cons]; rw [ih, hb]
  have hres := (key ordered) ▸ flatMap_filter_perm tagOf names ordered hnd
  split
  · rw [flatten_namesBlocks]; exact hres
  · rw [flatten_namesBlocks]
    refine Perm.trans ?_ hres
    exact (reverse_perm _).flatten

theorem nodup_map_some {α : Type} (l : List α) : (l.map some).Nodup ↔ l.Nodup := by
  unfold Nodup; rw [pairwise_map]; simp

theorem filter_eq_self_of_all {α : Type} (p : α → Bool) (l : List α) (h : ∀ a ∈ l, p a = true) :
    l.filter p = l := filter_eq_self.mpr h

theorem mem_keys_buckets_nil {κ α : Type} [DecidableEq κ] (key : α → κ) (l : List α) (a : α) (ha : a ∈ l) :
    key a ∈ AL.keys (buckets key [] l) := by
  have h := get?_buckets_isSome key [] l (key a)
  have : (l.any fun b => decide (key b = key a)) = true := any_eq_true.mpr ⟨a, ha, by simp⟩
  simp [this] at h
  obtain ⟨v, hv⟩ := Option.isSome_iff_exists.mp h
  exact AL.mem_keys_of_get? hv

/-- with every tag covered (or an empty ordered list: the code then sorts the tags it met) the look-up
sort is a permutation -/
theorem sortByUnicodeLookup_perm (tagOf : Name → String) (ordered : List String) (asc : Bool)
    (names : List Name) (hnd : ordered.Nodup) (hc : TagsCovered tagOf ordered names) :
    (sortByUnicodeLookup tagOf ordered asc names).flatten.Perm names := by
  by_cases hne : ordered = []
  · -- ordered tags = the sorted keys of the dict
    subst hne
    unfold sortByUnicodeLookup
    simp only [isEmpty_nil, if_true]
    have hkn : (AL.keys (buckets tagOf [] names)).Nodup := nodup_keys_buckets tagOf [] names (by simp [AL.keys])
    have hsn : (sortBy strLt (AL.keys (buckets tagOf [] names))).Nodup :=
      (sortBy_perm _ _).nodup_iff.mpr hkn
    have key : ∀ ks : List String, (ks.filterMap (AL.get? (buckets tagOf [] names))).flatten =
        ks.flatMap (bucketOf (buckets tagOf [] names)) := by
      intro ks
      induction ks with
      | nil => rfl
      | cons k r ih =>
        simp only [filterMap_cons, flatMap_cons]
        cases hg : AL.get? (buckets tagOf [] names) k with
        | none => simp only [bucketOf_of_none hg, nil_append]; exact ih
        | some v => simp only [flatten_cons, get?_eq_some_bucketOf hg]; rw [ih]
    have hall := flatMap_bucketOf_perm (buckets tagOf [] names) hkn _ hsn
      (fun k hk => (sortBy_perm strLt _).mem_iff.mpr hk)
    have hv := values_buckets tagOf [] names
    simp at hv
    rw [← key] at hall
    split
    · rw [flatten_namesBlocks]; exact hall.trans hv
    · rw [flatten_namesBlocks]; exact ((reverse_perm _).flatten.trans hall).trans hv
  · rcases hc with hc | hc
    · exact absurd hc hne
    · have := sortByUnicodeLookup_perm_filter tagOf ordered asc names hne hnd
      rwa [filter_eq_self_of_all _ _ (fun n hn => by simpa using hc n hn)] at this

/-! ### decomposition base -/

/-- the names the `for base in noBase` loop processes (first occurrences not yet in `processed`) -/
def firsts : List Name → List Name → List Name
  | [], _ => []
  | b :: r, p => if p.contains b then firsts r p else b :: firsts r (b :: p)

theorem mem_firsts (r p : List Name) (x : Name) : x ∈ firsts r p ↔ x ∈ r ∧ x ∉ p := by
  induction r generalizing p with
  | nil => simp [firsts]
  | cons b r ih =>
    unfold firsts
    by_cases hb : p.contains b = true
    · simp only [hb, if_true, ih, mem_cons]
      constructor
      · rintro ⟨h1, h2⟩; exact ⟨Or.inr h1, h2⟩
      · rintro ⟨h1 | h1, h2⟩
        · subst h1; exact absurd (by simpa using hb) h2
        · exact ⟨h1, h2⟩
    · simp only [hb, Bool.false_eq_true, if_false, mem_cons, ih]
      have hb' : b ∉ p := by simpa using hb
      constructor
      · rintro (h | ⟨h1, h2⟩)
        · subst h; exact ⟨Or.inl rfl, hb'⟩
        · exact ⟨Or.inr h1, fun h => h2 (Or.inr h)⟩
      · rintro ⟨h1 | h1, h2⟩
        · exact Or.inl h1
        · by_cases hx : x = b
          · exact Or.inl hx
          · exact Or.inr ⟨h1, fun h => by rcases h with h | h; exact hx h; exact h2 h⟩

theorem nodup_firsts (r p : List Name) : (firsts r p).Nodup := by
  induction r generalizing p with
  | nil => simp [firsts]
  | cons b r ih =>
    unfold firsts
    split
    · exact ih p
    · rw [nodup_cons]
      refine ⟨?_, ih _⟩
      rw [mem_firsts]; simp

theorem flatten_decompLoop (noBase : List Name) (d : List (Option Name × List Name)) (r p : List Name) :
    (decompLoop noBase d r p).flatten =
      (firsts r p).flatMap (fun b => List.replicate (noBase.count b) b ++ bucketOf d (some b)) := by
  induction r generalizing p with
  | nil => rfl
  | cons b r ih =>
    unfold decompLoop firsts
    split
    · exact ih p
    · simp only [flatten_cons, flatMap_cons, ih]

theorem firsts_replicate_perm (l : List Name) :
    ((firsts l []).flatMap (fun b => List.replicate (l.count b) b)).Perm l := by
  have h := flatMap_filter_perm (fun n : Name => n) l (firsts l []) (nodup_firsts l [])
  have h1 : (fun b => List.replicate (l.count b) b) = fun k => l.filter (fun a => decide (a = k)) := by
    funext b
    rw [← filter_eq]
  rw [h1]
  refine h.trans ?_
  rw [filter_eq_self_of_all]
  intro a ha
  simp [mem_firsts, ha]

theorem sortByDecompositionBase_perm (env : Env) (asc pseudo : Bool) (names : List Name) :
    (sortByDecompositionBase env asc pseudo names).flatten.Perm names := by
  unfold sortByDecompositionBase
  generalize hd0 : buckets (decompKey env pseudo) [(none, [])] names = d0
  have hd0n : (AL.keys d0).Nodup := by
    rw [← hd0]; exact nodup_keys_buckets _ _ _ (by simp [AL.keys])
  have hvals : (d0.map Prod.snd).flatten.Perm names := by
    have := values_buckets (decompKey env pseudo) [(none, [])] names
    rw [hd0] at this; simpa using this
  generalize hnb : bucketOf d0 none = noBase
  generalize hd : AL.erase d0 none = d
  have hsplit : (d0.map Prod.snd).flatten.Perm (noBase ++ (d.map Prod.snd).flatten) := by
    have := values_split d0 none; rwa [hnb, hd] at this
  have hdn : (AL.keys d).Nodup := by rw [← hd]; exact AL.nodup_keys_erase _ _ hd0n
  have hdnone : bucketOf d none = [] := by
    rw [← hd]; exact bucketOf_of_none (AL.get?_erase_self_of_nodup _ _ hd0n)
  -- the keys the result walks through: none, the processed no-base names, the missing bases
  generalize hmiss : (sortBy strLt ((sortBy strLt (someKeys d)).filter (fun b => !noBase.contains b))) = missing
  have hmiss_mem : ∀ b, b ∈ missing ↔ b ∈ someKeys d ∧ b ∉ noBase := by
    intro b
    rw [← hmiss, (sortBy_perm _ _).mem_iff, mem_filter, (sortBy_perm _ _).mem_iff]
    simp
  have hsk_nd : (someKeys d).Nodup := by
    unfold someKeys
    have : ((AL.keys d).filterMap id).map some = (AL.keys d).filter Option.isSome := by
      induction AL.keys d with
      | nil => rfl
      | cons a r ih => cases a <;> simp [ih]
    have h2 : (((AL.keys d).filterMap id).map some).Nodup := by
      rw [this]; exact hdn.sublist filter_sublist
    exact (nodup_map_some _).mp h2
  have hmiss_nd : missing.Nodup := by
    rw [← hmiss]
    refine (sortBy_perm _ _).nodup_iff.mpr ?_
    exact ((sortBy_perm _ _).nodup_iff.mpr hsk_nd).sublist filter_sublist
  let ks : List (Option Name) := none :: ((firsts noBase [] ++ missing).map some)
  have hks_nd : ks.Nodup := by
    simp only [ks, nodup_cons, mem_map, reduceCtorEq, and_false, exists_false, not_false_eq_true, true_and]
    rw [nodup_map_some, nodup_append]
    refine ⟨nodup_firsts _ _, hmiss_nd, ?_⟩
    intro a ha b hb e
    subst e
    exact ((hmiss_mem a).mp hb).2 ((mem_firsts _ _ _).mp ha).1
  have hks_cov : ∀ k ∈ AL.keys d, k ∈ ks := by
    intro k hk
    cases k with
    | none => simp [ks]
    | some b =>
      simp only [ks, mem_cons, reduceCtorEq, mem_map, mem_append, Option.some.injEq, exists_eq_right, false_or]
      by_cases hb : b ∈ noBase
      · exact Or.inl ((mem_firsts _ _ _).mpr ⟨hb, by simp⟩)
      · refine Or.inr ((hmiss_mem b).mpr ⟨?_, hb⟩)
        unfold someKeys
        simp only [mem_filterMap, id_eq, exists_eq_right]
        exact hk
  have hall := flatMap_bucketOf_perm d hdn ks hks_nd hks_cov
  simp only [ks, flatMap_cons, hdnone, nil_append, flatMap_map, flatMap_append] at hall
  -- the result, flattened
  have hres : (decompLoop noBase d noBase [] ++ missing.map (fun b => bucketOf d (some b))).flatten.Perm
      (noBase ++ (d.map Prod.snd).flatten) := by
    rw [flatten_append, flatten_decompLoop]
    have h1 := flatMap_append_perm' (fun b => List.replicate (noBase.count b) b)
      (fun b => bucketOf d (some b)) (firsts noBase [])
    refine (Perm.append_right _ h1).trans ?_
    rw [append_assoc]
    refine Perm.append (firsts_replicate_perm noBase) ?_
    have : (missing.map (fun b => bucketOf d (some b))).flatten = missing.flatMap (fun b => bucketOf d (some b)) := by
      rw [flatMap_def]
    rw [this]
    exact hall
  have hfin := hres.trans (hsplit.symm.trans hvals)
  subst hmiss hnb hd
  split
  · rw [flatten_namesBlocks]; exact hfin
  · rw [flatten_namesBlocks]; exact (reverse_perm _).flatten.trans hfin

/-! ### weighted suffix, ligature, general type, whitespace, notdef -/

theorem sortByWeightedSuffix_perm (env : Env) (asc pseudo : Bool) (names : List Name) :
    (sortByWeightedSuffix env asc pseudo names).flatten.Perm names := by
  unfold sortByWeightedSuffix
  have hpart := filter_append_perm isPlain names
  simp only
  split
  · rename_i he
    simp only [Blk.flatten]
    have : names.filter (fun n => !isPlain n) = [] := by simpa using he
    rw [this, append_nil] at hpart
    exact hpart
  · generalize suffixToMagnet (names.filter fun n => !isPlain n) = m
    have hv := values_buckets (magnetOf m) [] (names.filter fun n => !isPlain n)
    simp at hv
    have hg : ((sortBy (weightLt env pseudo) (buckets (magnetOf m) [] (names.filter fun n => !isPlain n))).map
        Prod.snd).flatten.Perm (names.filter fun n => !isPlain n) :=
      (((sortBy_perm _ _).map Prod.snd).flatten).trans (by simpa using hv)
    split
    · rw [flatten_namesBlocks, flatten_cons]
      exact (Perm.append_left _ hg).trans hpart
    · rw [flatten_namesBlocks]
      refine (reverse_perm _).flatten.trans ?_
      rw [flatten_cons]
      exact (Perm.append_left _ ((flatten_map_reverse_perm _).trans hg)).trans hpart

theorem sortByLigature_perm (env : Env) (T : Tables) (asc pseudo : Bool) (names : List Name) :
    (sortByLigature env T asc pseudo names).flatten.Perm names := by
  unfold sortByLigature
  have h := filter_append_perm (isLigature env T pseudo) names
  simp only
  split
  · simp only [flatten_namesBlocks, flatten_cons, flatten_nil, append_nil]
    exact perm_append_comm.trans h
  · simp only [flatten_namesBlocks, flatten_cons, flatten_nil, append_nil]
    exact (Perm.append (reverse_perm _) (reverse_perm _)).trans h

theorem sortByGeneralType_perm (env : Env) (asc : Bool) (names : List Name) :
    (sortByGeneralType env asc names).flatten.Perm names := by
  unfold sortByGeneralType
  have h := flatMap_filter_perm (generalType env) names [.uni, .noUni, .suffix] (by decide)
  have hall : names.filter (fun a => decide (generalType env a ∈ [GenType.uni, .noUni, .suffix])) = names := by
    apply filter_eq_self_of_all
    intro a _
    cases generalType env a <;> simp
  rw [hall] at h
  simp only [flatMap_cons, flatMap_nil, append_nil] at h
  simp only
  split
  · simp only [flatten_namesBlocks, flatten_cons, flatten_nil, append_nil]
    exact h
  · simp only [flatten_namesBlocks, flatten_cons, flatten_nil, append_nil]
    exact (Perm.append (reverse_perm _) (Perm.append (reverse_perm _) (reverse_perm _))).trans h

theorem sortByWhitespace_perm (env : Env) (asc pseudo : Bool) (names : List Name) :
    (sortByWhitespace env asc pseudo names).flatten.Perm names := by
  unfold sortByWhitespace
  have h := filter_append_perm (fun n => env.categoryFor n pseudo == "Zs") names
  simp only
  split
  · simp only [flatten_namesBlocks, flatten_cons, flatten_nil, append_nil]
    exact h
  · simp only [flatten_namesBlocks, flatten_cons, flatten_nil, append_nil]
    exact perm_append_comm.trans ((Perm.append (reverse_perm _) (reverse_perm _)).trans h)

theorem sortByNotdef_perm (names : List Name) : (sortByNotdef names).flatten.Perm names := by
  unfold sortByNotdef
  simp only [Blk.flatten]
  exact perm_append_comm.trans (filter_append_perm isNotdef names)

/-! ### container partners (repaired loop) -/

theorem partnersLoop_perm (env : Env) (pseudo : Bool) (fuel : Nat) (rest order : List Name)
    (hf : rest.length ≤ fuel) : (partnersLoop env pseudo fuel rest order).Perm (order ++ rest) := by
  induction fuel generalizing rest order with
  | zero =>
    have : rest = [] := by cases rest <;> simp_all
    subst this; simp [partnersLoop]
  | succ fuel ih =>
    cases rest with
    | nil => simp [partnersLoop]
    | cons g rest =>
      simp only [length_cons, Nat.add_le_add_iff_right] at hf
      unfold partnersLoop
      cases hc : env.closeRelativeFor g pseudo with
      | none =>
        simp only
        refine (ih rest (order ++ [g]) hf).trans ?_
        simp
      | some c =>
        simp only
        split
        · rename_i hin
          have hmem : c ∈ rest := by simpa using hin
          have hl : (rest.erase c).length ≤ fuel := by
            rw [length_erase_of_mem hmem]; omega
          refine (ih (rest.erase c) (order ++ [g] ++ [c]) hl).trans ?_
          simp only [append_assoc, singleton_append]
          exact Perm.append_left _ (Perm.cons g (perm_cons_erase hmem).symm)
        · refine (ih rest (order ++ [g]) hf).trans ?_
          simp

theorem sortByContainerPartners_perm (env : Env) (asc pseudo : Bool) (names : List Name) :
    (sortByContainerPartners env asc pseudo names).flatten.Perm names := by
  unfold sortByContainerPartners
  have h := partnersLoop_perm env pseudo names.length names [] (Nat.le_refl _)
  simp only [nil_append] at h
  simp only [Blk.flatten]
  split
  · exact h
  · exact (reverse_perm _).trans h

/-! ### manual groups -/

/-- removing a sub-multiset element by element and putting it back is a permutation; in particular every
`list.remove` of the code finds its element -/
theorem foldl_erase_append_perm (t l : List Name) (h : ∀ x, t.count x ≤ l.count x) :
    (t.foldl List.erase l ++ t).Perm l := by
  induction t generalizing l with
  | nil => simp
  | cons a t ih =>
    have ha : a ∈ l := by
      have := h a
      simp only [count_cons_self] at this
      exact count_pos_iff.mp (by omega)
    have h' : ∀ x, t.count x ≤ (l.erase a).count x := by
      intro x
      have := h x
      rw [count_erase]
      rw [count_cons] at this
      by_cases hx : a = x
      · subst hx; simp at this ⊢; omega
      · have hx' : ¬ x = a := fun e => hx e.symm
        simp [hx, hx'] at *
        omega
    simp only [foldl_cons]
    refine Perm.trans ?_ (perm_cons_erase ha).symm
    refine perm_middle.trans (Perm.cons a (ih _ h'))

theorem moveBehindFirst_perm (names matched : List Name) (h : ∀ x, matched.count x ≤ names.count x) :
    (moveBehindFirst names matched).Perm names := by
  unfold moveBehindFirst
  split
  · rename_i m0 m1 ms
    have ht : ∀ x, (m1 :: ms).count x ≤ names.count x := by
      intro x
      have := h x
      rw [count_cons] at this
      omega
    have h1 := foldl_erase_append_perm (m1 :: ms) names ht
    refine Perm.trans ?_ h1
    generalize (m1 :: ms).foldl List.erase names = removed
    generalize removed.idxOf m0 + 1 = k
    rw [append_assoc]
    refine (Perm.append_left _ perm_append_comm).trans ?_
    rw [← append_assoc, take_append_drop]
  · exact Perm.refl _

/-- after `matched[1:]` has been removed, `matched[0]` is still in the list: `glyphNames.index` finds it -/
theorem moveBehindFirst_index_found (names : List Name) (m0 : Name) (tail : List Name)
    (h : ∀ x, (m0 :: tail).count x ≤ names.count x) : m0 ∈ tail.foldl List.erase names := by
  have ht : ∀ x, tail.count x ≤ names.count x := by
    intro x; have := h x; rw [count_cons] at this; omega
  have hp := foldl_erase_append_perm tail names ht
  have hc := hp.count_eq m0
  rw [count_append] at hc
  have := h m0
  simp only [count_cons_self] at this
  exact count_pos_iff.mp (by omega)

theorem count_le_of_perm_of_le {l l' m : List Name} (hp : l.Perm l') (h : ∀ x, m.count x ≤ l'.count x) :
    ∀ x, m.count x ≤ l.count x := fun x => by rw [hp.count_eq]; exact h x

theorem foldl_moveBehindFirst_perm (suffixes : List (Option String × List Name)) (names names0 : List Name)
    (hp : names.Perm names0) (h : ∀ p ∈ suffixes, ∀ x, p.2.count x ≤ names0.count x) :
    (suffixes.foldl (fun ns p => moveBehindFirst ns p.2) names).Perm names0 := by
  induction suffixes generalizing names with
  | nil => exact hp
  | cons p r ih =>
    simp only [foldl_cons]
    apply ih _ _ (fun q hq => h q (mem_cons_of_mem _ hq))
    exact (moveBehindFirst_perm names p.2 (count_le_of_perm_of_le hp (h p mem_cons_self))).trans hp

/-- the names matched by one manual group are a sub-multiset of the list -/
theorem matched_count_le (env : Env) (pseudo : Bool) (names0 : List Name) (pairGroup : List Nat)
    (hnd : pairGroup.Nodup) (x : Name) :
    (pairGroup.flatMap (fun u => bucketOf (buckets (valueFor env pseudo) [] names0) (some u))).count x ≤
      names0.count x := by
  have h1 : (pairGroup.flatMap (fun u => bucketOf (buckets (valueFor env pseudo) [] names0) (some u))) =
      (pairGroup.map some).flatMap (fun k => names0.filter (fun a => decide (valueFor env pseudo a = k))) := by
    rw [flatMap_map]
    apply flatMap_congr'
    intro u _
    rw [bucketOf_buckets]
    rfl
  rw [h1]
  have h2 := flatMap_filter_perm (valueFor env pseudo) names0 (pairGroup.map some) ((nodup_map_some _).mpr hnd)
  rw [h2.count_eq]
  exact filter_sublist.count_le x

theorem manualGroup_perm (env : Env) (pseudo : Bool) (names0 names : List Name) (pairGroup : List Nat)
    (hp : names.Perm names0) (hnd : pairGroup.Nodup) :
    (manualGroup (buckets (valueFor env pseudo) [] names0) names pairGroup).Perm names0 := by
  unfold manualGroup
  simp only
  generalize hm : (pairGroup.flatMap fun u => bucketOf (buckets (valueFor env pseudo) [] names0) (some u)) = matched
  have hle : ∀ x, matched.count x ≤ names0.count x := by
    intro x; rw [← hm]; exact matched_count_le env pseudo names0 pairGroup hnd x
  apply foldl_moveBehindFirst_perm _ _ _ hp
  intro p hpm x
  have hkn : (AL.keys (buckets manualSuffixKey [] matched)).Nodup :=
    nodup_keys_buckets _ _ _ (by simp [AL.keys])
  have hget := AL.get?_of_mem_nodup hkn (show (p.1, p.2) ∈ _ from hpm)
  have hb := bucketOf_buckets manualSuffixKey [] matched p.1
  rw [get?_eq_some_bucketOf hget] at hb
  have : bucketOf ([] : List (Option String × List Name)) p.1 = [] := rfl
  rw [this, nil_append] at hb
  rw [hb]
  exact Nat.le_trans (filter_sublist.count_le x) (hle x)

theorem sortByManualGroups_perm (env : Env) (T : Tables) (pseudo : Bool) (names : List Name)
    (hT : ∀ g ∈ T.manualGroups, g.Nodup) : (sortByManualGroups env T pseudo names).flatten.Perm names := by
  unfold sortByManualGroups
  simp only [Blk.flatten]
  suffices h : ∀ (gs : List (List Nat)) (ns : List Name), (∀ g ∈ gs, g.Nodup) → ns.Perm names →
      (gs.foldl (manualGroup (buckets (valueFor env pseudo) [] names)) ns).Perm names from
    h _ _ hT (Perm.refl _)
  intro gs
  induction gs with
  | nil => intro ns _ hp; exact hp
  | cons g r ih =>
    intro ns hg hp
    simp only [foldl_cons]
    exact ih _ (fun g' hg' => hg g' (mem_cons_of_mem _ hg'))
      (manualGroup_perm env pseudo names ns g hp (hg g mem_cons_self))

/-! ### dispatch and the canned sort -/

theorem TagsCovered.mono {tagOf : Name → String} {ordered : List String} {names l : List Name}
    (h : TagsCovered tagOf ordered names) (hl : ∀ n ∈ l, n ∈ names) : TagsCovered tagOf ordered l := by
  rcases h with h | h
  · exact Or.inl h
  · exact Or.inr (fun n hn => h n (hl n hn))

theorem BasicCovered.mono {env : Env} {T : Tables} {t : Basic} {pseudo : Bool} {names l : List Name}
    (h : BasicCovered env T t pseudo names) (hl : ∀ n ∈ l, n ∈ names) : BasicCovered env T t pseudo l := by
  cases t <;> first | exact TagsCovered.mono h hl | trivial

theorem basicMethod_perm (env : Env) (T : Tables) (hT : T.WF) (d : Desc Basic) (names : List Name)
    (hc : BasicCovered env T d.type d.pseudo names) : (basicMethod env T d names).flatten.Perm names := by
  obtain ⟨hs, hb, hcat, hm⟩ := hT
  unfold basicMethod
  cases ht : d.type <;> rw [ht] at hc <;> simp only
  · exact sortByAlphabet_perm _ _
  · exact sortByUnicode_perm _ _ _ _
  · exact sortByUnicodeLookup_perm _ _ _ _ hcat hc
  · exact sortByUnicodeLookup_perm _ _ _ _ hb hc
  · exact sortByUnicodeLookup_perm _ _ _ _ hs hc
  · exact sortBySuffix_perm _
  · exact sortByDecompositionBase_perm _ _ _ _
  · exact sortByWeightedSuffix_perm _ _ _ _
  · exact sortByLigature_perm _ _ _ _ _
  · exact sortByGeneralType_perm _ _ _
  · exact sortByWhitespace_perm _ _ _ _
  · exact sortByContainerPartners_perm _ _ _ _
  · exact sortByManualGroups_perm _ _ _ _ hm
  · exact sortByNotdef_perm _

theorem cannedSortDesign_perm (env : Env) (T : Tables) (hT : T.WF) (asc pseudo : Bool) (names : List Name)
    (hcat : BasicCovered env T .category pseudo names) (hscr : BasicCovered env T .script pseudo names) :
    (cannedSortDesign env T asc pseudo names).flatten.Perm names := by
  unfold cannedSortDesign
  have h1 : (sortWith (basicMethod env T) (cannedFirst pseudo) names).Perm names := by
    apply sortWith_perm
    intro d hd l hl
    apply basicMethod_perm env T hT
    simp only [cannedFirst, mem_cons, not_mem_nil, or_false] at hd
    rcases hd with h | h | h | h | h | h | h | h | h <;> subst h <;>
      first | exact hcat.mono hl | exact hscr.mono hl | trivial
  have h2 : (sortWith (basicMethod env T) (cannedSecond pseudo)
      (sortWith (basicMethod env T) (cannedFirst pseudo) names)).Perm
      (sortWith (basicMethod env T) (cannedFirst pseudo) names) := by
    apply sortWith_perm
    intro d hd l _
    apply basicMethod_perm env T hT
    simp only [cannedSecond, mem_cons, not_mem_nil, or_false] at hd
    rcases hd with h | h | h <;> subst h <;> trivial
  simp only [Blk.flatten]
  split
  · exact h2.trans h1
  · exact (reverse_perm _).trans (h2.trans h1)

theorem Covered.mono {env : Env} {T : Tables} {d : Desc SortType} {names l : List Name}
    (h : Covered env T d names) (hl : ∀ n ∈ l, n ∈ names) : Covered env T d l := by
  unfold Covered at h ⊢
  split
  · rename_i b hb; rw [hb] at h; exact BasicCovered.mono h hl
  · rename_i hb; rw [hb] at h; exact ⟨h.1.mono hl, h.2.mono hl⟩

theorem method_perm (env : Env) (T : Tables) (hT : T.WF) (d : Desc SortType) (names : List Name)
    (hc : Covered env T d names) : (method env T d names).flatten.Perm names := by
  unfold method
  unfold Covered at hc
  split
  · rename_i b hb; rw [hb] at hc
    exact basicMethod_perm env T hT ⟨b, d.ascending, d.pseudo⟩ names hc
  · rename_i hb; rw [hb] at hc
    exact cannedSortDesign_perm env T hT _ _ names hc.1 hc.2

/-! ## never more than was given: the sub-multiset versions (no coverage hypothesis) -/

theorem SubMultiset.refl (l : List Name) : SubMultiset l l := fun _ => Nat.le_refl _

theorem SubMultiset.trans {a b c : List Name} (h1 : SubMultiset a b) (h2 : SubMultiset b c) : SubMultiset a c :=
  fun x => Nat.le_trans (h1 x) (h2 x)

theorem SubMultiset.of_perm {a b : List Name} (h : a.Perm b) : SubMultiset a b :=
  fun x => Nat.le_of_eq (h.count_eq x)

theorem SubMultiset.append {a a' b b' : List Name} (h1 : SubMultiset a a') (h2 : SubMultiset b b') :
    SubMultiset (a ++ b) (a' ++ b') := fun x => by
  have := h1 x; have := h2 x; simp only [count_append]; omega

theorem SubMultiset.mem {a b : List Name} (h : SubMultiset a b) {n : Name} (hn : n ∈ a) : n ∈ b := by
  have := h n
  have h1 : 0 < a.count n := count_pos_iff.mpr hn
  exact count_pos_iff.mp (by omega)

theorem flatten_sortRecurse_sub (m : List Name → Blk) (hm : ∀ l, SubMultiset (m l).flatten l) (b : Blk) :
    SubMultiset (sortRecurse m b).flatten b.flatten := by
  induction b using Blk.rec (motive_2 := fun bs =>
      SubMultiset (Blk.flattenList (sortRecurseList m bs)) (Blk.flattenList bs)) with
  | names l =>
    cases l with
    | nil => exact SubMultiset.refl _
    | cons a r => exact hm _
  | blocks bs ih => exact ih
  | nil => exact SubMultiset.refl _
  | cons b r ihb ihr =>
    simp only [sortRecurseList, Blk.flattenList]
    exact SubMultiset.append ihb ihr

theorem sortWith_sub {τ : Type} (method : Desc τ → List Name → Blk) (ds : List (Desc τ)) (names : List Name)
    (hm : ∀ d l, SubMultiset (method d l).flatten l) : SubMultiset (sortWith method ds names) names := by
  unfold sortWith
  suffices h : ∀ (ds : List (Desc τ)) (b : Blk), SubMultiset b.flatten names →
      SubMultiset (Blk.flattenList (ds.foldl (fun blocks d => descStep (method d) blocks) [b])) names by
    exact h ds (.names names) (SubMultiset.refl _)
  intro ds
  induction ds with
  | nil => intro b hb; simpa [Blk.flattenList] using hb
  | cons d r ih =>
    intro b hb
    simp only [foldl_cons, descStep, map_cons, map_nil]
    apply ih
    refine (flatten_sortRecurse_sub (method d) (hm d) (.blocks [b])).trans ?_
    simpa [Blk.flatten, Blk.flattenList] using hb

theorem sortByUnicodeLookup_sub (tagOf : Name → String) (ordered : List String) (asc : Bool)
    (names : List Name) (hnd : ordered.Nodup) :
    SubMultiset (sortByUnicodeLookup tagOf ordered asc names).flatten names := by
  by_cases hne : ordered = []
  · exact SubMultiset.of_perm (sortByUnicodeLookup_perm tagOf ordered asc names hnd (Or.inl hne))
  · intro x
    rw [(sortByUnicodeLookup_perm_filter tagOf ordered asc names hne hnd).count_eq]
    exact filter_sublist.count_le x

theorem basicMethod_sub (env : Env) (T : Tables) (hT : T.WF) (d : Desc Basic) (names : List Name) :
    SubMultiset (basicMethod env T d names).flatten names := by
  by_cases h : d.type = .category ∨ d.type = .block ∨ d.type = .script
  · obtain ⟨hs, hb, hcat, _⟩ := hT
    unfold basicMethod
    rcases h with h | h | h <;> rw [h] <;> simp only
    · exact sortByUnicodeLookup_sub _ _ _ _ hcat
    · exact sortByUnicodeLookup_sub _ _ _ _ hb
    · exact sortByUnicodeLookup_sub _ _ _ _ hs
  · apply SubMultiset.of_perm
    apply basicMethod_perm env T hT
    cases ht : d.type <;> simp_all [BasicCovered]

theorem method_sub (env : Env) (T : Tables) (hT : T.WF) (d : Desc SortType) (names : List Name) :
    SubMultiset (method env T d names).flatten names := by
  unfold method
  split
  · exact basicMethod_sub env T hT _ names
  · unfold cannedSortDesign
    have h1 := sortWith_sub (basicMethod env T) (cannedFirst d.pseudo) names (basicMethod_sub env T hT)
    have h2 := sortWith_sub (basicMethod env T) (cannedSecond d.pseudo)
      (sortWith (basicMethod env T) (cannedFirst d.pseudo) names) (basicMethod_sub env T hT)
    simp only [Blk.flatten]
    split
    · exact h2.trans h1
    · exact (SubMultiset.of_perm (reverse_perm _)).trans (h2.trans h1)

/-! ## the empty list, the empty descriptor list -/

theorem flatten_sortRecurse_nil (m : List Name → Blk) (b : Blk) :
    b.flatten = [] → (sortRecurse m b).flatten = [] := by
  induction b using Blk.rec (motive_2 := fun bs =>
      Blk.flattenList bs = [] → Blk.flattenList (sortRecurseList m bs) = []) with
  | names l =>
    intro h
    cases l with
    | nil => rfl
    | cons a r => simp [Blk.flatten] at h
  | blocks bs ih => intro h; exact ih h
  | nil => rfl
  | cons b r ihb ihr =>
    rename_i h
    simp only [sortRecurseList, Blk.flattenList, append_eq_nil_iff] at h ⊢
    exact ⟨ihb h.1, ihr h.2⟩

theorem sortWith_nil {τ : Type} (method : Desc τ → List Name → Blk) (ds : List (Desc τ)) :
    sortWith method ds [] = [] := by
  unfold sortWith
  suffices h : ∀ (ds : List (Desc τ)) (b : Blk), b.flatten = [] →
      Blk.flattenList (ds.foldl (fun blocks d => descStep (method d) blocks) [b]) = [] by
    exact h ds (.names []) rfl
  intro ds
  induction ds with
  | nil => intro b hb; simpa [Blk.flattenList] using hb
  | cons d r ih =>
    intro b hb
    simp only [foldl_cons, descStep, map_cons, map_nil]
    apply ih
    apply flatten_sortRecurse_nil
    simpa [Blk.flatten, Blk.flattenList] using hb

/-- the `while glyphNames` loop needs at most one round per waiting name: more fuel changes nothing -/
theorem partnersLoop_fuel (env : Env) (pseudo : Bool) (fuel k : Nat) (rest order : List Name)
    (hf : rest.length ≤ fuel) :
    partnersLoop env pseudo (fuel + k) rest order = partnersLoop env pseudo fuel rest order := by
  induction fuel generalizing rest order with
  | zero =>
    have : rest = [] := by cases rest <;> simp_all
    subst this
    cases k <;> simp [partnersLoop]
  | succ fuel ih =>
    cases rest with
    | nil => rw [show fuel + 1 + k = (fuel + k) + 1 by omega]; simp [partnersLoop]
    | cons g rest =>
      simp only [length_cons, Nat.add_le_add_iff_right] at hf
      rw [show fuel + 1 + k = (fuel + k) + 1 by omega]
      unfold partnersLoop
      cases hc : env.closeRelativeFor g pseudo with
      | none => simp only; exact ih _ _ hf
      | some c =>
        simp only
        split
        · rename_i hin
          have hmem : c ∈ rest := by simpa using hin
          have hl : (rest.erase c).length ≤ fuel := by rw [length_erase_of_mem hmem]; omega
          exact ih _ _ hl
        · exact ih _ _ hf

/-- where `glyphNames = glyphNames[1:]` stands does not matter as long as no waiting name is its own close
relative: the head is then never what the search finds -/
theorem partnersLoopHeadWaiting_eq (env : Env) (pseudo : Bool) (fuel : Nat) (rest order : List Name)
    (hno : ∀ n ∈ rest, env.closeRelativeFor n pseudo ≠ some n) :
    partnersLoopHeadWaiting env pseudo fuel rest order = partnersLoop env pseudo fuel rest order := by
  induction fuel generalizing rest order with
  | zero => simp [partnersLoopHeadWaiting, partnersLoop]
  | succ fuel ih =>
    cases rest with
    | nil => simp [partnersLoopHeadWaiting, partnersLoop]
    | cons g rest =>
      have hrest : ∀ n ∈ rest, env.closeRelativeFor n pseudo ≠ some n :=
        fun n hn => hno n (mem_cons_of_mem _ hn)
      unfold partnersLoopHeadWaiting partnersLoop
      cases hc : env.closeRelativeFor g pseudo with
      | none => simp only; exact ih _ _ hrest
      | some c =>
        have hne : g ≠ c := by
          intro h
          exact hno g mem_cons_self (by rw [hc, h])
        have hcont : (g :: rest).contains c = rest.contains c := by
          simp [Ne.symm hne]
        have herase : ((g :: rest).erase c).tail = rest.erase c := by
          rw [List.erase_cons_tail (by simpa using hne)]; rfl
        simp only [hcont, herase]
        split
        · apply ih
          intro n hn
          exact hrest n (List.mem_of_mem_erase hn)
        · exact ih _ _ hrest

end NameSort
end DefconModel
