/-
Helper lemmas about pending copies of one notification in the hold queues of M-Notify, seen from
one observer: what posting, holding and releasing do to their number and to the deliveries, for a
centre whose callbacks issue no operations and in which nothing is disabled.  They carry the
conservation argument behind `overlapping_holds_deliver_once` (Props/C04.lean).
-/
import DefconModel.Lemmas.Notify

namespace DefconModel
namespace Notify

/-! ### weighted sums over association lists -/

def wsum {κ α : Type} (w : α → Nat) (l : List (κ × α)) : Nat := (l.map (fun p => w p.2)).sum

section
variable {κ α : Type} [DecidableEq κ]

theorem wsum_erase (w : α → Nat) (l : List (κ × α)) (k : κ) (v : α) (h : AL.get? l k = some v) :
    wsum w (AL.erase l k) + w v = wsum w l := by
  induction l with
  | nil => simp at h
  | cons p r ih =>
    obtain ⟨k', v'⟩ := p
    by_cases e : k' = k
    · simp only [AL.get?_cons, e, if_true, Option.some.injEq] at h
      subst h
      simp [AL.erase, e, wsum]
      omega
    · simp only [AL.get?_cons, e, if_false] at h
      have := ih h
      simp only [AL.erase, e, if_false, wsum, List.map_cons, List.sum_cons] at this ⊢
      omega

theorem wsum_set_some (w : α → Nat) (l : List (κ × α)) (k : κ) (v v' : α) (h : AL.get? l k = some v) :
    wsum w (AL.set l k v') + w v = wsum w l + w v' := by
  induction l with
  | nil => simp at h
  | cons p r ih =>
    obtain ⟨k', v0⟩ := p
    by_cases e : k' = k
    · simp only [AL.get?_cons, e, if_true, Option.some.injEq] at h
      subst h
      simp [AL.set, e, wsum]
      omega
    · simp only [AL.get?_cons, e, if_false] at h
      have := ih h
      simp only [AL.set, e, if_false, wsum, List.map_cons, List.sum_cons] at this ⊢
      omega

theorem wsum_set_none (w : α → Nat) (l : List (κ × α)) (k : κ) (v' : α) (h : AL.get? l k = none) :
    wsum w (AL.set l k v') = wsum w l + w v' := by
  induction l with
  | nil => simp [AL.set, wsum]
  | cons p r ih =>
    obtain ⟨k', v0⟩ := p
    by_cases e : k' = k
    · simp [AL.get?_cons, e] at h
    · simp only [AL.get?_cons, e, if_false] at h
      have := ih h
      simp only [AL.set, e, if_false, wsum, List.map_cons, List.sum_cons] at this ⊢
      omega

theorem wsum_ge (w : α → Nat) (l : List (κ × α)) (k : κ) (v : α) (h : AL.get? l k = some v) :
    w v ≤ wsum w l := by
  have := wsum_erase w l k v h
  omega

end

/-! ### pending copies: `pend` under the primitives -/

section
variable (n : Name) (s : Obj) (d : Data) (o : Obj)

theorem pend_eq (c : Center) : pend c n s d o = wsum (fun h => cntL n s d o h.queue) c.holds := rfl

theorem cntL_append_single (l : List Note) (q : Note) :
    cntL n s d o (l ++ [q]) = cntL n s d o l + (if Note.isFor n s d o q then 1 else 0) := by
  unfold cntL
  rw [List.filter_append, List.length_append]
  by_cases h : Note.isFor n s d o q = true
  · simp [List.filter, h]
  · simp [List.filter, h]

theorem cntL_cons (q : Note) (l : List Note) :
    cntL n s d o (q :: l) = (if Note.isFor n s d o q then 1 else 0) + cntL n s d o l := by
  unfold cntL
  by_cases h : Note.isFor n s d o q = true
  · simp [List.filter, h]; omega
  · simp [List.filter, h]

theorem cntL_pos_of_mem {l : List Note} {q : Note} (hm : q ∈ l) (hf : Note.isFor n s d o q = true) :
    0 < cntL n s d o l := by
  unfold cntL
  apply List.length_pos_of_mem (a := q)
  simp [List.mem_filter, hm, hf]

/-- a pending copy in some queue means `pend` is positive -/
theorem pend_pos_of_mem {c : Center} {hk : HKey} {h : Hold} {q : Note} (hg : AL.get? c.holds hk = some h)
    (hm : q ∈ h.queue) (hf : Note.isFor n s d o q = true) : 0 < pend c n s d o := by
  rw [pend_eq]
  have h1 : cntL n s d o h.queue ≤ wsum (fun h => cntL n s d o h.queue) c.holds :=
    wsum_ge (fun h => cntL n s d o h.queue) c.holds hk h hg
  have h2 := cntL_pos_of_mem n s d o hm hf
  omega

theorem enqueue_of_mem {c : Center} {hk : HKey} {h : Hold} {q : Note} (hg : AL.get? c.holds hk = some h)
    (hm : q ∈ h.queue) : enqueue c hk q = c := by
  simp [enqueue, hg, hm]

theorem enqueue_fresh_eq {c : Center} {hk : HKey} {h : Hold} {q : Note} (hg : AL.get? c.holds hk = some h)
    (hm : q ∉ h.queue) :
    enqueue c hk q = { c with holds := AL.set c.holds hk { h with queue := h.queue ++ [q] } } := by
  simp [enqueue, hg, hm]

theorem get?_enqueue_fresh {c : Center} {hk : HKey} {h : Hold} {q : Note} (hg : AL.get? c.holds hk = some h)
    (hm : q ∉ h.queue) :
    AL.get? (enqueue c hk q).holds hk = some { h with queue := h.queue ++ [q] } := by
  rw [enqueue_fresh_eq hg hm]; simp

theorem enqueue_of_absent {c : Center} {hk : HKey} {q : Note} (hg : AL.get? c.holds hk = none) :
    enqueue c hk q = c := by
  simp [enqueue, hg]

theorem pend_enqueue_fresh {c : Center} {hk : HKey} {h : Hold} {q : Note} (hg : AL.get? c.holds hk = some h)
    (hm : q ∉ h.queue) :
    pend (enqueue c hk q) n s d o = pend c n s d o + (if Note.isFor n s d o q then 1 else 0) := by
  have : enqueue c hk q = { c with holds := AL.set c.holds hk { h with queue := h.queue ++ [q] } } := by
    simp [enqueue, hg, hm]
  rw [this, pend_eq, pend_eq]
  have := wsum_set_some (fun h => cntL n s d o h.queue) c.holds hk h { h with queue := h.queue ++ [q] } hg
  simp only [cntL_append_single] at this
  simp only
  omega

/-- queueing something that is not a copy for `o` does not change the number of copies for `o` -/
theorem pend_enqueue_notFor (c : Center) (hk : HKey) (q : Note) (hf : Note.isFor n s d o q = false) :
    pend (enqueue c hk q) n s d o = pend c n s d o := by
  cases hg : AL.get? c.holds hk with
  | none => rw [enqueue_of_absent hg]
  | some h =>
    by_cases hm : q ∈ h.queue
    · rw [enqueue_of_mem hg hm]
    · rw [pend_enqueue_fresh n s d o hg hm]; simp [hf]

theorem pend_hold (c : Center) (hk : HKey) (note : Option Nat) :
    pend (hold c hk note) n s d o = pend c n s d o := by
  rw [pend_eq, pend_eq]
  unfold hold
  cases hg : AL.get? c.holds hk with
  | none =>
    simp only [Option.getD_none]
    rw [wsum_set_none _ _ _ _ hg]
    simp [cntL]
  | some h =>
    simp only [Option.getD_some]
    have key : ∀ h' : Hold, h'.queue = h.queue →
        wsum (fun h => cntL n s d o h.queue) (AL.set c.holds hk h') =
          wsum (fun h => cntL n s d o h.queue) c.holds := by
      intro h' e
      have := wsum_set_some (fun h => cntL n s d o h.queue) c.holds hk h h' hg
      rw [e] at this
      omega
    exact key _ rfl

end

/-! ### membership in a queue -/

def inQueue (c : Center) (hk : HKey) (e : Note) : Prop := ∃ h, AL.get? c.holds hk = some h ∧ e ∈ h.queue

theorem inQueue_enqueue_mono {c : Center} {hk : HKey} {e : Note} (hk' : HKey) (q : Note)
    (h : inQueue c hk e) : inQueue (enqueue c hk' q) hk e := by
  obtain ⟨hd, hg, hm⟩ := h
  unfold enqueue
  cases hg' : AL.get? c.holds hk' with
  | none => exact ⟨hd, hg, hm⟩
  | some h' =>
    simp only
    split
    · exact ⟨hd, hg, hm⟩
    · by_cases e' : hk' = hk
      · subst e'
        rw [hg] at hg'
        injection hg' with hg'
        subst hg'
        exact ⟨{ hd with queue := hd.queue ++ [q] }, by simp, by simp [hm]⟩
      · exact ⟨hd, by simp [AL.get?_set_ne _ _ _ _ e', hg], hm⟩

theorem inQueue_enqueue_self {c : Center} {hk : HKey} (e : Note) (h : AL.contains c.holds hk = true) :
    inQueue (enqueue c hk e) hk e := by
  rw [AL.contains_iff_get?] at h
  obtain ⟨hd, hg⟩ := h
  by_cases hm : e ∈ hd.queue
  · rw [enqueue_of_mem hg hm]; exact ⟨hd, hg, hm⟩
  · have : enqueue c hk e = { c with holds := AL.set c.holds hk { hd with queue := hd.queue ++ [e] } } := by
      simp [enqueue, hg, hm]
    rw [this]
    exact ⟨{ hd with queue := hd.queue ++ [e] }, by simp, by simp⟩

theorem firstHold_contains {c : Center} {ks : List HKey} {hk : HKey} (h : firstHold c ks = some hk) :
    AL.contains c.holds hk = true := by
  unfold firstHold at h
  have := List.find?_some h
  simpa using this

/-! ### a centre whose callbacks do nothing and in which nothing is disabled -/

structure Quiet (c : Center) : Prop where
  scripts : c.scripts = []
  disabled : c.disabled = []

/-- only the hold table differs -/
structure Frame (c c' : Center) : Prop where
  registry : c'.registry = c.registry
  disabled : c'.disabled = c.disabled
  dead : c'.dead = c.dead
  scripts : c'.scripts = c.scripts

theorem Frame.refl (c : Center) : Frame c c := ⟨rfl, rfl, rfl, rfl⟩

theorem Frame.trans {a b c : Center} (h1 : Frame a b) (h2 : Frame b c) : Frame a c :=
  ⟨h2.registry.trans h1.registry, h2.disabled.trans h1.disabled, h2.dead.trans h1.dead,
   h2.scripts.trans h1.scripts⟩

theorem SameShape.frame {c c' : Center} (h : SameShape c c') : Frame c c' :=
  ⟨h.registry, h.disabled, h.dead, h.scripts⟩

theorem Frame.quiet {c c' : Center} (h : Frame c c') (q : Quiet c) : Quiet c' :=
  ⟨by rw [h.scripts, q.scripts], by rw [h.disabled, q.disabled]⟩

theorem Frame.matching {c c' : Center} (h : Frame c c') (n : Name) (s : Obj) : matching c' n s = matching c n s := by
  unfold Notify.matching regsAt; rw [h.registry]

theorem Frame.due {c c' : Center} (h : Frame c c') (n : Name) (s : Obj) (d : Data) (o : Obj) :
    due c' n s d o = due c n s d o := by
  unfold Notify.due; rw [h.matching, h.dead]

theorem Quiet.notDisabled {c : Center} (q : Quiet c) (ks : List HKey) : isDisabled c ks = false := by
  unfold isDisabled
  simp [q.disabled, AL.contains]

/-- the body of the delivery loop when callbacks do nothing and nothing is disabled -/
theorem deliverOne_quiet (rec : Center → Op → Center × List Ev) (n : Name) (s : Obj) (d : Data) (t : Option Obj)
    {c : Center} (q : Quiet c) (r : Reg) :
    deliverOne rec n s d t c r =
      if t.isSome ∧ t ≠ some r.observer then (c, [])
      else match firstHold c (observerKeys n s r.observer) with
        | some hk => (enqueue c hk ⟨n, s, d, some r.observer⟩, [])
        | none => if r.observer ∈ c.dead then (c, []) else (c, [deliverEv n s d r]) := by
  unfold deliverOne
  simp only [q.notDisabled, Bool.false_eq_true, if_false]
  by_cases ht : t.isSome ∧ t ≠ some r.observer
  · simp only [if_pos ht]
  · simp only [if_neg ht]
    cases hf : firstHold c (observerKeys n s r.observer) with
    | some hk => rfl
    | none =>
      by_cases hdead : r.observer ∈ c.dead
      · simp [hdead]
      · simp [hdead, callback, q.scripts, deliverEv]

theorem deliverOne_sameShape (rec : Center → Op → Center × List Ev) (n : Name) (s : Obj) (d : Data) (t : Option Obj)
    {c : Center} (q : Quiet c) (r : Reg) : SameShape c (deliverOne rec n s d t c r).1 :=
  (deliverOne_noscript rec n s d t c r q.scripts).1

theorem runAll_append {α} (f : Center → α → Center × List Ev) (c : Center) (xs ys : List α) :
    runAll f c (xs ++ ys) =
      ((runAll f (runAll f c xs).1 ys).1, (runAll f c xs).2 ++ (runAll f (runAll f c xs).1 ys).2) := by
  induction xs generalizing c with
  | nil => simp [runAll]
  | cons x xs ih =>
    simp only [List.cons_append, runAll_cons, ih, List.append_assoc]

/-- with callbacks that do nothing the two nested loops of a post are one loop over `matching` -/
theorem runAll_deliverKey_flat (rec : Center → Op → Center × List Ev) (n : Name) (s : Obj) (d : Data)
    (t : Option Obj) (c0 : Center) (q0 : Quiet c0) (ks : List RKey) :
    ∀ c, SameShape c0 c →
      runAll (deliverKey rec n s d t) c ks = runAll (deliverOne rec n s d t) c (ks.flatMap (regsAt c0)) := by
  induction ks with
  | nil => intro c _; rfl
  | cons k ks ih =>
    intro c hsh
    rw [runAll_cons, List.flatMap_cons, runAll_append]
    have hk : deliverKey rec n s d t c k = runAll (deliverOne rec n s d t) c (regsAt c0 k) := by
      unfold deliverKey; rw [hsh.regsAt]
    rw [hk]
    have hsh' := (runAll_deliverOne_noscript rec n s d t c0 c (regsAt c0 k) q0.scripts hsh).1
    rw [ih _ hsh']

/-- a post when callbacks do nothing and nothing is disabled -/
theorem post_quiet (rec : Center → Op → Center × List Ev) {c : Center} (q : Quiet c) (n : Name) (s : Obj)
    (d : Data) (t : Option Obj) :
    post rec c n s d t =
      match firstHold c (senderKeys n s) with
      | some hk => (enqueue c hk ⟨n, s, d, t⟩, [])
      | none => runAll (deliverOne rec n s d t) c (matching c n s) := by
  unfold post
  simp only [q.notDisabled, Bool.false_eq_true, if_false]
  cases hf : firstHold c (senderKeys n s) with
  | some hk => rfl
  | none => exact runAll_deliverKey_flat rec n s d t c q _ c (SameShape.refl c)

theorem post_sameShape (rec : Center → Op → Center × List Ev) {c : Center} (q : Quiet c) (n : Name) (s : Obj)
    (d : Data) (t : Option Obj) : SameShape c (post rec c n s d t).1 := by
  rw [post_quiet rec q]
  split
  · exact sameShape_enqueue _ _ _
  · exact (runAll_deliverOne_noscript rec n s d t c c _ q.scripts (SameShape.refl c)).1

/-! ### one step of the delivery loop, seen from observer `o` and notification `(n, s, d)` -/

section
variable (rec : Center → Op → Center × List Ev) (n : Name) (s : Obj) (d : Data) (o : Obj)

/-- posting `(n', s', d')` to registration `r`: unless it is `(n, s, d)` going to `o`, the copies
pending for `o` and the deliveries to `o` are not concerned -/
theorem step_irrelevant (n' : Name) (s' : Obj) (d' : Data) (t : Option Obj) {c : Center} (q : Quiet c) (r : Reg)
    (h : ¬ (n' = n ∧ s' = s ∧ d' = d ∧ r.observer = o) ∨ (t.isSome ∧ t ≠ some r.observer)) :
    pend (deliverOne rec n' s' d' t c r).1 n s d o = pend c n s d o ∧
    delTo n s d o (deliverOne rec n' s' d' t c r).2 = [] := by
  rw [deliverOne_quiet rec n' s' d' t q r]
  by_cases ht : t.isSome ∧ t ≠ some r.observer
  · rw [if_pos ht]; exact ⟨rfl, rfl⟩
  · rw [if_neg ht]
    have h' : ¬ (n' = n ∧ s' = s ∧ d' = d ∧ r.observer = o) := by
      rcases h with h | h
      · exact h
      · exact absurd h ht
    split
    · refine ⟨?_, rfl⟩
      apply pend_enqueue_notFor
      simp only [Note.isFor, Bool.and_eq_false_iff, Bool.or_eq_false_iff, beq_eq_false_iff_ne, ne_eq,
        reduceCtorEq, not_false_eq_true, true_and, Option.some.injEq]
      by_cases h1 : n' = n
      · by_cases h2 : s' = s
        · by_cases h3 : d' = d
          · right; intro e; exact h' ⟨h1, h2, h3, e⟩
          · left; right; exact h3
        · left; left; right; exact h2
      · left; left; left; exact h1
    · split
      · exact ⟨rfl, rfl⟩
      · refine ⟨rfl, ?_⟩
        simp only [delTo, deliverEv, List.filter_cons, isDel, List.filter_nil]
        have : (r.observer == o && n' == n && s' == s && d' == d) = false := by
          simp only [Bool.and_eq_false_iff, beq_eq_false_iff_ne, ne_eq]
          by_cases h1 : n' = n
          · by_cases h2 : s' = s
            · by_cases h3 : d' = d
              · left; left; left; intro e; exact h' ⟨h1, h2, h3, e⟩
              · right; exact h3
            · left; right; exact h2
          · left; left; right; exact h1
        simp [this]

/-- a loop all of whose steps are irrelevant to `o` -/
theorem loop_irrelevant (n' : Name) (s' : Obj) (d' : Data) (t : Option Obj) (c0 : Center) (q0 : Quiet c0)
    (regs : List Reg)
    (h : ∀ r ∈ regs, ¬ (n' = n ∧ s' = s ∧ d' = d ∧ r.observer = o) ∨ (t.isSome ∧ t ≠ some r.observer)) :
    ∀ c, SameShape c0 c →
      pend (runAll (deliverOne rec n' s' d' t) c regs).1 n s d o = pend c n s d o ∧
      delTo n s d o (runAll (deliverOne rec n' s' d' t) c regs).2 = [] := by
  induction regs with
  | nil => intro c _; exact ⟨rfl, rfl⟩
  | cons r rs ih =>
    intro c hsh
    have qc : Quiet c := hsh.frame.quiet q0
    rw [runAll_cons]
    obtain ⟨h1, h2⟩ := step_irrelevant rec n s d o n' s' d' t qc r (h r (by simp))
    obtain ⟨h3, h4⟩ := ih (fun r' hr' => h r' (by simp [hr'])) _ (hsh.trans (deliverOne_sameShape rec n' s' d' t qc r))
    refine ⟨by rw [h3, h1], ?_⟩
    simp only [delTo, List.filter_append] at h2 h4 ⊢
    rw [h2, h4]; rfl

/-- `o` is not held: its registrations are served, nothing is queued for it -/
theorem loop_free (t : Option Obj) (ht : t = none ∨ t = some o) (c0 : Center) (q0 : Quiet c0)
    (hfree : firstHold c0 (observerKeys n s o) = none) (regs : List Reg) :
    ∀ c, SameShape c0 c →
      pend (runAll (deliverOne rec n s d t) c regs).1 n s d o = pend c n s d o ∧
      delTo n s d o (runAll (deliverOne rec n s d t) c regs).2 =
        (regs.filter (fun r => r.observer == o && !(c0.dead.contains o))).map (deliverEv n s d) := by
  induction regs with
  | nil => intro c _; exact ⟨rfl, rfl⟩
  | cons r rs ih =>
    intro c hsh
    have qc : Quiet c := hsh.frame.quiet q0
    rw [runAll_cons]
    obtain ⟨h3, h4⟩ := ih _ (hsh.trans (deliverOne_sameShape rec n s d t qc r))
    by_cases hro : r.observer = o
    · -- a registration of `o`
      have hstep : deliverOne rec n s d t c r = (c, if o ∈ c0.dead then [] else [deliverEv n s d r]) := by
        rw [deliverOne_quiet rec n s d t qc r]
        have ht' : ¬ (t.isSome ∧ t ≠ some r.observer) := by
          rcases ht with ht | ht
          · simp [ht]
          · simp [ht, hro]
        rw [if_neg ht', hsh.firstHold, hro, hfree, hsh.dead]
        simp only
        split <;> rfl
      rw [hstep] at h3 h4 ⊢
      refine ⟨h3, ?_⟩
      simp only [delTo, List.filter_append] at h4 ⊢
      rw [h4]
      by_cases hdead : o ∈ c0.dead
      · simp [hdead]
      · simp [hdead, hro, deliverEv, isDel]
    · obtain ⟨h1, h2⟩ := step_irrelevant rec n s d o n s d t qc r (Or.inl (fun h => hro h.2.2.2))
      refine ⟨by rw [h3, h1], ?_⟩
      simp only [delTo, List.filter_append] at h2 h4 ⊢
      rw [h2, h4]
      simp [hro]

/-- the copy restricted to `o` is already in `o`'s queue: the rest of the loop changes nothing for `o` -/
theorem loop_held_present (t : Option Obj) (c0 : Center) (q0 : Quiet c0) (hk : HKey)
    (hheld : firstHold c0 (observerKeys n s o) = some hk) (regs : List Reg) :
    ∀ c, SameShape c0 c → inQueue c hk ⟨n, s, d, some o⟩ →
      pend (runAll (deliverOne rec n s d t) c regs).1 n s d o = pend c n s d o ∧
      delTo n s d o (runAll (deliverOne rec n s d t) c regs).2 = [] := by
  induction regs with
  | nil => intro c _ _; exact ⟨rfl, rfl⟩
  | cons r rs ih =>
    intro c hsh hin
    have qc : Quiet c := hsh.frame.quiet q0
    rw [runAll_cons]
    have hsh' := hsh.trans (deliverOne_sameShape rec n s d t qc r)
    by_cases hrel : r.observer = o ∧ ¬ (t.isSome ∧ t ≠ some r.observer)
    · obtain ⟨hro, ht'⟩ := hrel
      have hstep : deliverOne rec n s d t c r = (c, []) := by
        rw [deliverOne_quiet rec n s d t qc r, if_neg ht', hsh.firstHold, hro, hheld]
        simp only
        obtain ⟨hd, hg, hm⟩ := hin
        rw [enqueue_of_mem hg hm]
      rw [hstep] at hsh' ⊢
      obtain ⟨h3, h4⟩ := ih _ hsh' hin
      exact ⟨h3, by simpa [delTo] using h4⟩
    · have hirr : ¬ (n = n ∧ s = s ∧ d = d ∧ r.observer = o) ∨ (t.isSome ∧ t ≠ some r.observer) := by
        by_cases hro : r.observer = o
        · right
          by_cases ht' : t.isSome ∧ t ≠ some r.observer
          · exact ht'
          · exact absurd ⟨hro, ht'⟩ hrel
        · left; intro h; exact hro h.2.2.2
      obtain ⟨h1, h2⟩ := step_irrelevant rec n s d o n s d t qc r hirr
      have hin' : inQueue (deliverOne rec n s d t c r).1 hk ⟨n, s, d, some o⟩ := by
        rw [deliverOne_quiet rec n s d t qc r]
        split
        · exact hin
        · split
          · exact inQueue_enqueue_mono _ _ hin
          · split <;> exact hin
      obtain ⟨h3, h4⟩ := ih _ hsh' hin'
      refine ⟨by rw [h3, h1], ?_⟩
      simp only [delTo, List.filter_append] at h2 h4 ⊢
      rw [h2, h4]; rfl

/-- `o` is held and has no pending copy yet: it gets exactly one, if it has a registration in the loop -/
theorem loop_held_fresh (t : Option Obj) (ht : t = none ∨ t = some o) (c0 : Center) (q0 : Quiet c0) (hk : HKey)
    (hheld : firstHold c0 (observerKeys n s o) = some hk) (regs : List Reg) :
    ∀ c, SameShape c0 c → pend c n s d o = 0 →
      pend (runAll (deliverOne rec n s d t) c regs).1 n s d o = (if ∃ r ∈ regs, r.observer = o then 1 else 0) ∧
      delTo n s d o (runAll (deliverOne rec n s d t) c regs).2 = [] := by
  induction regs with
  | nil => intro c _ hp; exact ⟨by simp [runAll, hp], rfl⟩
  | cons r rs ih =>
    intro c hsh hp
    have qc : Quiet c := hsh.frame.quiet q0
    rw [runAll_cons]
    have hsh' := hsh.trans (deliverOne_sameShape rec n s d t qc r)
    by_cases hro : r.observer = o
    · have ht' : ¬ (t.isSome ∧ t ≠ some r.observer) := by
        rcases ht with ht | ht
        · simp [ht]
        · simp [ht, hro]
      have hstep : deliverOne rec n s d t c r = (enqueue c hk ⟨n, s, d, some o⟩, []) := by
        rw [deliverOne_quiet rec n s d t qc r, if_neg ht', hsh.firstHold, hro, hheld]
      have hcont : AL.contains c.holds hk = true := by
        rw [hsh.holdKeys]; exact firstHold_contains hheld
      have hin : inQueue (enqueue c hk ⟨n, s, d, some o⟩) hk ⟨n, s, d, some o⟩ := inQueue_enqueue_self _ hcont
      have hfor : Note.isFor n s d o ⟨n, s, d, some o⟩ = true := by simp [Note.isFor]
      have hp1 : pend (enqueue c hk ⟨n, s, d, some o⟩) n s d o = 1 := by
        rw [AL.contains_iff_get?] at hcont
        obtain ⟨hd, hg⟩ := hcont
        have hm : (⟨n, s, d, some o⟩ : Note) ∉ hd.queue := by
          intro hm
          have := pend_pos_of_mem n s d o hg hm hfor
          omega
        rw [pend_enqueue_fresh n s d o hg hm, hp, hfor]; rfl
      rw [hstep] at hsh' ⊢
      obtain ⟨h3, h4⟩ := loop_held_present rec n s d o t c0 q0 hk hheld rs _ hsh' hin
      refine ⟨?_, by simpa [delTo] using h4⟩
      simp only at h3 ⊢
      rw [h3, hp1, if_pos ⟨r, by simp, hro⟩]
    · obtain ⟨h1, h2⟩ := step_irrelevant rec n s d o n s d t qc r (Or.inl (fun h => hro h.2.2.2))
      obtain ⟨h3, h4⟩ := ih _ hsh' (by rw [h1, hp])
      refine ⟨?_, ?_⟩
      · rw [h3]
        have : (∃ r' ∈ r :: rs, r'.observer = o) ↔ ∃ r' ∈ rs, r'.observer = o := by
          constructor
          · rintro ⟨r', hr', e⟩
            simp only [List.mem_cons] at hr'
            rcases hr' with rfl | hr'
            · exact absurd e hro
            · exact ⟨r', hr', e⟩
          · rintro ⟨r', hr', e⟩; exact ⟨r', by simp [hr'], e⟩
        simp only [this]
      · simp only [delTo, List.filter_append] at h2 h4 ⊢
        rw [h2, h4]; rfl

/-! ### a whole post, seen from `o` -/

/-- a post of another notification, or of a copy restricted to another observer -/
theorem post_irrelevant (n' : Name) (s' : Obj) (d' : Data) (t : Option Obj) {c : Center} (q : Quiet c)
    (h : ¬ (n' = n ∧ s' = s ∧ d' = d) ∨ (t.isSome ∧ t ≠ some o)) :
    pend (post rec c n' s' d' t).1 n s d o = pend c n s d o ∧ delTo n s d o (post rec c n' s' d' t).2 = [] := by
  rw [post_quiet rec q]
  split
  · refine ⟨?_, rfl⟩
    apply pend_enqueue_notFor
    simp only [Note.isFor, Bool.and_eq_false_iff, Bool.or_eq_false_iff, beq_eq_false_iff_ne, ne_eq]
    rcases h with h | ⟨h1, h2⟩
    · by_cases h1 : n' = n
      · by_cases h2 : s' = s
        · by_cases h3 : d' = d
          · exact absurd ⟨h1, h2, h3⟩ h
          · left; right; exact h3
        · left; left; right; exact h2
      · left; left; left; exact h1
    · right
      cases t with
      | none => simp at h1
      | some x => exact ⟨by simp, h2⟩
  · apply loop_irrelevant rec n s d o n' s' d' t c q _ _ c (SameShape.refl c)
    intro r _
    rcases h with h | ⟨h1, h2⟩
    · left; intro e; exact h ⟨e.1, e.2.1, e.2.2.1⟩
    · by_cases hro : r.observer = o
      · right; rw [hro]; exact ⟨h1, h2⟩
      · left; intro e; exact hro e.2.2.2

/-- a post of `(n, s, d)` that concerns `o`, none pending for `o` so far: afterwards one copy is
pending for `o` and nothing was delivered to it, or none is pending and it got all it is due -/
theorem post_relevant (t : Option Obj) (ht : t = none ∨ t = some o) {c : Center} (q : Quiet c)
    (hp : pend c n s d o = 0) :
    (pend (post rec c n s d t).1 n s d o = 1 ∧ delTo n s d o (post rec c n s d t).2 = []) ∨
    (pend (post rec c n s d t).1 n s d o = 0 ∧ delTo n s d o (post rec c n s d t).2 = due c n s d o) := by
  rw [post_quiet rec q]
  have hfor : Note.isFor n s d o ⟨n, s, d, t⟩ = true := by
    rcases ht with ht | ht <;> simp [Note.isFor, ht]
  cases hs : firstHold c (senderKeys n s) with
  | some hk =>
    left
    simp only
    refine ⟨?_, rfl⟩
    have hcont := firstHold_contains hs
    rw [AL.contains_iff_get?] at hcont
    obtain ⟨hd, hg⟩ := hcont
    have hm : (⟨n, s, d, t⟩ : Note) ∉ hd.queue := by
      intro hm
      have := pend_pos_of_mem n s d o hg hm hfor
      omega
    rw [pend_enqueue_fresh n s d o hg hm, hp, hfor]; rfl
  | none =>
    simp only
    cases ho : firstHold c (observerKeys n s o) with
    | some hk =>
      obtain ⟨h1, h2⟩ := loop_held_fresh rec n s d o t ht c q hk ho (matching c n s) c (SameShape.refl c) hp
      by_cases hex : ∃ r ∈ matching c n s, r.observer = o
      · left; rw [h1, if_pos hex]; exact ⟨rfl, h2⟩
      · right
        rw [h1, if_neg hex]
        refine ⟨rfl, ?_⟩
        rw [h2]
        unfold due
        have : (matching c n s).filter (fun r => r.observer == o && !(c.dead.contains o)) = [] := by
          rw [List.filter_eq_nil_iff]
          intro r hr
          have : r.observer ≠ o := fun e => hex ⟨r, hr, e⟩
          simp [this]
        rw [this]; rfl
    | none =>
      right
      obtain ⟨h1, h2⟩ := loop_free rec n s d o t ht c q ho (matching c n s) c (SameShape.refl c)
      exact ⟨by rw [h1, hp], h2⟩

end

end Notify
end DefconModel
