/-
Helper lemmas for M-SubFlags: the flag-level behaviour of the M-Layer operations, and the
preservation of "dirty is closed upwards" by every operation of the composed model.
-/
import DefconModel.Spec.SubFlags

namespace DefconModel
namespace SubFlags

/-! ### below the glyph -/

theorem allF_replicate (n : Nat) : allF (List.replicate n false) := by
  intro b hb; exact (List.eq_of_mem_replicate hb)

theorem allF_lower (l : List Bool) : allF (lower l) := by
  intro b hb; unfold lower at hb; simp at hb; exact hb.2

theorem allF_nil : allF [] := by intro b hb; simp at hb

theorem clean_default : ({} : Sub).Clean := by
  refine ⟨allF_nil, allF_nil, allF_nil, allF_nil, by simp, rfl⟩

theorem clean_loaded (sh : Shape) : (Sub.loaded sh).Clean := by
  refine ⟨allF_replicate _, allF_replicate _, allF_replicate _, allF_replicate _, ?_, rfl⟩
  unfold Sub.loaded; simp only; split <;> simp

theorem clean_cleared (s : Sub) : s.cleared.Clean := by
  refine ⟨allF_lower _, allF_lower _, allF_lower _, allF_lower _, ?_, rfl⟩
  unfold Sub.cleared; cases s.image <;> simp

theorem clean_written (s : Sub) : s.written.Clean := clean_cleared _

theorem clean_put {s : Sub} (h : s.Clean) (k : Kind) (l : List Bool) (hl : allF l) : (s.put k l).Clean := by
  obtain ⟨h1, h2, h3, h4, h5, h6⟩ := h
  cases k <;> exact ⟨by first | exact hl | assumption, by first | exact hl | assumption,
    by first | exact hl | assumption, by first | exact hl | assumption, h5, h6⟩

theorem clean_get {s : Sub} (h : s.Clean) (k : Kind) : allF (s.get k) := by
  obtain ⟨h1, h2, h3, h4, _, _⟩ := h
  cases k <;> assumption

/-- a step that does not execute `glyph.dirty = True` raises no flag below the glyph -/
theorem apply_clean {s : Sub} (h : s.Clean) (p : Prim) (hr : (p.apply s).2 = false) : (p.apply s).1.Clean := by
  cases p with
  | touch => simp [Prim.apply] at hr
  | insert k i b => simp [Prim.apply] at hr
  | append k b => simp [Prim.apply] at hr
  | clear k => exact clean_put h k [] allF_nil
  | edit k i =>
    simp only [Prim.apply] at hr ⊢
    split
    · rename_i hi; simp [hi] at hr
    · exact h
  | editAll k =>
    simp only [Prim.apply] at hr ⊢
    have : s.get k = [] := by simpa using hr
    rw [this]; exact clean_put h k _ allF_nil
  | imageGet =>
    obtain ⟨h1, h2, h3, h4, h5, h6⟩ := h
    refine ⟨h1, h2, h3, h4, ?_, h6⟩
    simp only [Prim.apply]
    cases hi : s.image with
    | none => simp
    | some b => cases b <;> simp_all
  | imageEdit fn => simp [Prim.apply] at hr
  | imageClear =>
    simp only [Prim.apply] at hr ⊢
    split
    · exact h
    · rename_i hi; simp [hi] at hr
  | libEdit => simp [Prim.apply] at hr

theorem applyAll_clean {s : Sub} (h : s.Clean) (ps : List Prim) (hr : (applyAll s ps).2 = false) :
    (applyAll s ps).1.Clean := by
  induction ps generalizing s with
  | nil => exact h
  | cons p ps ih =>
    simp only [applyAll, Bool.or_eq_false_iff] at hr ⊢
    exact ih (apply_clean h p hr.1) hr.2

/-! ### association lists -/

theorem get?_filter_ne {α : Type} (l : List (String × α)) (n k : String) :
    AL.get? (l.filter (fun p => p.1 ≠ n)) k = if k = n then none else AL.get? l k := by
  induction l with
  | nil => simp
  | cons p r ih =>
    obtain ⟨k', v⟩ := p
    by_cases h1 : k' = n
    · subst h1
      simp only [List.filter, ne_eq, not_true_eq_false, decide_false]
      rw [ih]
      by_cases h2 : k = k'
      · simp [h2]
      · have : ¬ k' = k := fun e => h2 e.symm
        simp [h2, this]
    · simp only [List.filter, ne_eq, h1, not_false_eq_true, decide_true, AL.get?_cons]
      rw [ih]
      by_cases h2 : k' = k
      · subst h2; simp [h1]
      · simp [h2]

theorem get?_drop (subs : List (String × Sub)) (n k : String) :
    AL.get? (drop subs n) k = if k = n then none else AL.get? subs k := get?_filter_ne subs n k

theorem get?_filterNat_ne {α : Type} (l : List (Nat × α)) (n k : Nat) :
    AL.get? (l.filter (fun p => p.1 ≠ n)) k = if k = n then none else AL.get? l k := by
  induction l with
  | nil => simp
  | cons p r ih =>
    obtain ⟨k', v⟩ := p
    by_cases h1 : k' = n
    · subst h1
      simp only [List.filter, ne_eq, not_true_eq_false, decide_false]
      rw [ih]
      by_cases h2 : k = k'
      · simp [h2]
      · have : ¬ k' = k := fun e => h2 e.symm
        simp [h2, this]
    · simp only [List.filter, ne_eq, h1, not_false_eq_true, decide_true, AL.get?_cons]
      rw [ih]
      by_cases h2 : k' = k
      · subst h2; simp [h1]
      · simp [h2]

/-- `get?` through a map that keeps the keys -/
theorem get?_mapKV {κ α β : Type} [DecidableEq κ] (g : κ → α → β) (l : List (κ × α)) (k : κ) :
    AL.get? (l.map (fun p => (p.1, g p.1 p.2))) k = (AL.get? l k).map (g k) := by
  induction l with
  | nil => simp
  | cons p r ih =>
    obtain ⟨k', v⟩ := p
    by_cases h : k' = k
    · subst h; simp
    · simp [h, ih]

/-! ### the glyph's flag under the M-Layer operations -/

theorem gdirty_of_none {s : Layer.State} {n : String} (h : AL.get? s.loaded n = none) : gdirty s n = false := by
  unfold gdirty; rw [h]

theorem gdirty_insertGlyph (s : Layer.State) (n : String) (r : Layer.GRec) (d : Bool) (k : String) :
    gdirty (Layer.insertGlyph s n r d) k = if n = k then d else gdirty s k := by
  unfold gdirty Layer.insertGlyph
  simp only [AL.get?_set]
  by_cases h : n = k <;> simp [h]

theorem gdirty_setLoaded (s : Layer.State) (n : String) (r : Layer.GRec) (u : Option Layer.Cmap) (k : String) :
    gdirty (Layer.setLoaded s n r u) k = if n = k then true else gdirty s k := by
  unfold gdirty Layer.setLoaded
  simp only [AL.get?_set]
  by_cases h : n = k <;> simp [h]

theorem gdirty_withUni (s : Layer.State) (u : Option Layer.Cmap) (k : String) :
    gdirty (Layer.withUni s u) k = gdirty s k := rfl

theorem gdirty_forgetUni (s : Layer.State) (n : String) (us : List Nat) (k : String) :
    gdirty (Layer.forgetUni s n us) k = gdirty s k := rfl

theorem gdirty_dropGlyph_ne (s : Layer.State) (n k : String) (h : n ≠ k) :
    gdirty (Layer.dropGlyph s n) k = gdirty s k := by
  unfold gdirty Layer.dropGlyph
  simp only [AL.get?_erase_ne _ _ _ h]

/-- reading a glyph changes no flag: the glyph that is read arrives clean -/
theorem gdirty_getItem {s s' : Layer.State} {n : String} {r : Layer.GRec}
    (h : Layer.getItem s n = .ok (s', r)) (k : String) : gdirty s' k = gdirty s k := by
  unfold Layer.getItem at h
  split at h
  · simp only [Except.ok.injEq, Prod.mk.injEq] at h; rw [← h.1]
  · rename_i hnone
    split at h
    · simp at h
    · rename_i s1 hl
      split at h
      · simp only [Except.ok.injEq, Prod.mk.injEq] at h
        rw [← h.1]
        unfold Layer.load at hl
        split at hl
        · simp at hl
        · split at hl
          · simp at hl
          · simp only [Except.ok.injEq] at hl
            rw [← hl, gdirty_withUni, gdirty_insertGlyph]
            split
            · rename_i e; subst e; exact (gdirty_of_none hnone).symm
            · rfl
      · simp at h

/-- after `layer[n]` the glyph is in `_glyphs` -/
theorem loaded_getItem {s s' : Layer.State} {n : String} {r : Layer.GRec}
    (h : Layer.getItem s n = .ok (s', r)) : ∃ d, AL.get? s'.loaded n = some (r, d) := by
  unfold Layer.getItem at h
  split at h
  · rename_i r0 d0 hs
    simp only [Except.ok.injEq, Prod.mk.injEq] at h
    rw [← h.1, ← h.2]; exact ⟨d0, hs⟩
  · split at h
    · simp at h
    · split at h
      · rename_i r0 d0 hs
        simp only [Except.ok.injEq, Prod.mk.injEq] at h
        rw [← h.1, ← h.2]; exact ⟨d0, hs⟩
      · simp at h

theorem sched_getItem {s s' : Layer.State} {n : String} {r : Layer.GRec}
    (h : Layer.getItem s n = .ok (s', r)) : s'.sched = s.sched := by
  unfold Layer.getItem at h
  split at h
  · simp only [Except.ok.injEq, Prod.mk.injEq] at h; rw [← h.1]
  · split at h
    · simp at h
    · rename_i s1 hl
      split at h
      · simp only [Except.ok.injEq, Prod.mk.injEq] at h
        rw [← h.1]
        unfold Layer.load at hl
        split at hl
        · simp at hl
        · split at hl
          · simp at hl
          · rename_i hns
            simp only [Except.ok.injEq] at hl
            rw [← hl]
            unfold Layer.withUni Layer.insertGlyph
            simp only
            rw [List.filter_eq_self]
            intro a ha
            simp only [ne_eq, decide_not, Bool.not_eq_eq_eq_not, Bool.not_true, decide_eq_false_iff_not]
            intro e; subst e; exact hns ha
      · simp at h

theorem gdirty_touch {s s' : Layer.State} {n : String} (h : Layer.touch s n = .ok s') (k : String) :
    gdirty s' k = if n = k then true else gdirty s k := by
  unfold Layer.touch at h
  split at h
  · simp at h
  · rename_i s1 r hg
    simp only [Except.ok.injEq] at h
    rw [← h, gdirty_setLoaded, gdirty_getItem hg]

theorem sched_touch {s s' : Layer.State} {n : String} (h : Layer.touch s n = .ok s') : s'.sched = s.sched := by
  unfold Layer.touch at h
  split at h
  · simp at h
  · rename_i s1 r hg
    simp only [Except.ok.injEq] at h
    rw [← h]; exact (sched_getItem hg : s1.sched = s.sched)

theorem gdirty_putGlyph {s s' : Layer.State} {n : String} {r : Layer.GRec} (h : Layer.putGlyph s n r = .ok s')
    (k : String) : gdirty s' k = if n = k then true else gdirty s k := by
  unfold Layer.putGlyph at h
  split at h
  · split at h
    · simp at h
    · rename_i s1 r0 hg
      simp only [Except.ok.injEq] at h
      rw [← h, gdirty_insertGlyph, gdirty_forgetUni, gdirty_getItem hg]
  · simp only [Except.ok.injEq] at h
    rw [← h, gdirty_insertGlyph]

theorem gdirty_newGlyph {s s' : Layer.State} {n : String} (h : Layer.newGlyph s n = .ok s') (k : String) :
    gdirty s' k = if n = k then true else gdirty s k := gdirty_putGlyph h k

theorem gdirty_deleteGlyph_ne {s s' : Layer.State} {n : String} (h : Layer.deleteGlyph s n = .ok s') (k : String)
    (hk : n ≠ k) : gdirty s' k = gdirty s k := by
  unfold Layer.deleteGlyph at h
  split at h
  · simp only [Except.ok.injEq] at h
    rw [← h, gdirty_dropGlyph_ne _ _ _ hk]
  · split at h
    · simp at h
    · rename_i s1 r hg
      simp only [Except.ok.injEq] at h
      rw [← h, gdirty_dropGlyph_ne _ _ _ hk, gdirty_forgetUni, gdirty_getItem hg]

theorem gdirty_delete_ne {s s' : Layer.State} {n : String} (h : Layer.delete s n = .ok s') (k : String)
    (hk : n ≠ k) : gdirty s' k = gdirty s k := by
  unfold Layer.delete at h
  split at h
  · exact gdirty_deleteGlyph_ne h k hk
  · simp at h

theorem gdirty_rename {s s' : Layer.State} {o n : String} (h : Layer.rename s o n = .ok s') :
    (o = n → ∀ k, gdirty s' k = gdirty s k) ∧
    (o ≠ n → gdirty s' n = true ∧ ∀ k, o ≠ k → n ≠ k → gdirty s' k = gdirty s k) := by
  unfold Layer.rename at h
  split at h
  · simp at h
  · rename_i s1 r hg
    split at h
    · rename_i e
      simp only [Except.ok.injEq] at h
      refine ⟨fun _ k => by rw [← h, gdirty_getItem hg], fun hne => absurd e hne⟩
    · rename_i hne
      split at h
      · simp at h
      · rename_i s2 hd
        refine ⟨fun e => absurd e hne, fun _ => ⟨?_, ?_⟩⟩
        · rw [gdirty_putGlyph h]; simp
        · intro k hok hnk
          rw [gdirty_putGlyph h, if_neg hnk, gdirty_forgetUni, gdirty_deleteGlyph_ne hd k hok,
            gdirty_getItem hg]

/-- `Layer.save`: every loaded glyph is clean afterwards -/
theorem gdirty_save (s : Layer.State) (k : String) : gdirty (Layer.save s) k = false := by
  unfold gdirty
  have : AL.get? (Layer.save s).loaded k = (AL.get? s.loaded k).map (fun v => (v.1, false)) := by
    unfold Layer.save; exact AL.get?_map_val (fun v : Layer.GRec × Bool => (v.1, false)) s.loaded k
  rw [this]
  cases AL.get? s.loaded k <;> rfl

/-! ### one layer: reading glyphs raises nothing -/

/-- `L'` is `L` with some more glyphs read in: no flag changed, the new glyphs hold only clean objects -/
structure Quiet (L L' : LayerF) : Prop where
  dirty : L'.dirty = L.dirty
  lib : L'.lib = L.lib
  shapes : L'.shapes = L.shapes
  glyph : ∀ k, gdirty L'.base k = gdirty L.base k
  sched : L'.base.sched = L.base.sched
  sub : ∀ k sb, AL.get? L'.subs k = some sb → AL.get? L.subs k = some sb ∨ sb.Clean

theorem Quiet.refl (L : LayerF) : Quiet L L := ⟨rfl, rfl, rfl, fun _ => rfl, rfl, fun _ _ h => Or.inl h⟩

theorem Quiet.trans {A B C : LayerF} (h1 : Quiet A B) (h2 : Quiet B C) : Quiet A C :=
  ⟨h2.dirty.trans h1.dirty, h2.lib.trans h1.lib, h2.shapes.trans h1.shapes,
   fun k => (h2.glyph k).trans (h1.glyph k), h2.sched.trans h1.sched,
   fun k sb h => (h2.sub k sb h).elim (fun h' => h1.sub k sb h') Or.inr⟩

theorem luc_of_quiet {L L' : LayerF} (q : Quiet L L') (h : LUC L) : LUC L' :=
  ⟨fun hl => by rw [q.dirty]; exact h.lib (q.lib ▸ hl),
   fun n hn => by rw [q.dirty]; exact h.glyph n ((q.glyph n) ▸ hn),
   fun n sb hs hc => by
     rw [q.glyph]
     rcases q.sub n sb hs with h' | h'
     · exact h.sub n sb h' hc
     · exact absurd h' hc⟩

theorem quiet_getGlyph {L L' : LayerF} {n : String} (h : getGlyph L n = .ok L') : Quiet L L' := by
  unfold getGlyph at h
  split at h
  · simp at h
  · rename_i b hb
    simp only [Except.ok.injEq] at h
    subst h
    simp only [Layer.step, Except.map] at hb
    split at hb
    · simp at hb
    · rename_i pr hg
      simp only [Except.ok.injEq] at hb
      subst hb
      obtain ⟨s1, r⟩ := pr
      refine ⟨rfl, rfl, rfl, fun k => gdirty_getItem hg k, sched_getItem hg, ?_⟩
      intro k sb hs
      simp only at hs
      split at hs
      · exact Or.inl hs
      · rw [AL.get?_set] at hs
        split at hs
        · simp only [Option.some.injEq] at hs; subst hs; exact Or.inr (clean_loaded _)
        · rename_i hne
          rw [get?_drop] at hs
          split at hs
          · simp at hs
          · exact Or.inl hs

theorem quiet_foldl {α : Type} (g : LayerF → α → LayerF) (hg : ∀ L a, Quiet L (g L a)) (l : List α) (L : LayerF) :
    Quiet L (l.foldl g L) := by
  induction l generalizing L with
  | nil => exact Quiet.refl L
  | cons a r ih => exact (hg L a).trans (ih (g L a))

theorem quiet_loadDeep (fuel : Nat) (L : LayerF) (n : String) : Quiet L (loadDeep fuel L n) := by
  induction fuel generalizing L n with
  | zero => exact Quiet.refl L
  | succ fuel ih =>
    unfold loadDeep
    split
    · exact Quiet.refl L
    · split
      · exact Quiet.refl L
      · rename_i L1 h1
        exact (quiet_getGlyph h1).trans (quiet_foldl _ (fun L b => ih L b) _ L1)

theorem quiet_fetch {L L' : LayerF} {n : String} (h : fetch L n = .ok L') : Quiet L L' := by
  unfold fetch at h
  split at h
  · simp at h
  · simp only [Except.ok.injEq] at h; subst h; exact quiet_loadDeep _ _ _

theorem quiet_needBases (L : LayerF) (bases : List String) : Quiet L (needBases L bases) :=
  quiet_foldl _ (fun L b => quiet_loadDeep _ L b) bases L

theorem quiet_loadAll (L : LayerF) : Quiet L (loadAll L) := by
  unfold loadAll
  refine quiet_foldl _ (fun L n => ?_) _ L
  split
  · rename_i L' h; exact quiet_getGlyph h
  · exact Quiet.refl L

/-- in a layer where dirty is closed upwards, a glyph that is not dirty holds only clean objects -/
theorem clean_subOf {L : LayerF} (h : LUC L) {n : String} (hn : gdirty L.base n = false) : (subOf L n).Clean := by
  unfold subOf
  cases hs : AL.get? L.subs n with
  | none => exact clean_default
  | some sb =>
    simp only [Option.getD_some]
    by_cases hc : sb.Clean
    · exact hc
    · have := h.sub n sb hs hc; rw [hn] at this; simp at this

theorem luc_default : LUC {} := ⟨by simp, fun n => by simp [gdirty], fun n sb h => by simp at h⟩

/-! ### one layer: the editing operations -/

/-- what the font needs to know of a layer operation: closure holds afterwards, and the layer's flag
is only raised together with the announcement -/
structure Step (L : LayerF) (r : LayerF × Bool) : Prop where
  luc : LUC r.1
  raised : r.1.dirty = true → L.dirty = true ∨ r.2 = true
  sched : SchedFlagged L → SchedFlagged r.1

theorem step_of_quiet {L L' : LayerF} (q : Quiet L L') (h : LUC L) : Step L (L', false) :=
  ⟨luc_of_quiet q h, fun hd => Or.inl (q.dirty ▸ hd), fun hs hne => by rw [q.dirty]; exact hs (q.sched ▸ hne)⟩

theorem step_editGlyph {L : LayerF} (h : LUC L) {n : String} {ps : List Prim} {bases : List String} {r : LayerF × Bool}
    (he : editGlyph L n ps bases = .ok r) : Step L r := by
  unfold editGlyph at he
  split at he
  · simp at he
  · rename_i L0 h0
    have q : Quiet L (needBases L0 bases) := (quiet_fetch h0).trans (quiet_needBases _ _)
    have h1 : LUC (needBases L0 bases) := luc_of_quiet q h
    generalize needBases L0 bases = L1 at he q h1
    simp only at he
    split at he
    · rename_i hr
      split at he
      · simp at he
      · rename_i b hb
        simp only [Except.ok.injEq] at he
        subst he
        simp only [Layer.step] at hb
        refine ⟨⟨fun _ => rfl, fun _ _ => rfl, ?_⟩, fun _ => Or.inr rfl, fun _ _ => rfl⟩
        intro k sb hs hc
        simp only at hs ⊢
        rw [gdirty_touch hb]
        rw [AL.get?_set] at hs
        split at hs
        · rename_i e; simp [e]
        · rename_i hne
          simp only [hne, if_false]
          exact h1.sub k sb hs hc
    · rename_i hr
      simp only [Except.ok.injEq] at he
      subst he
      have hr' : (applyAll (subOf L1 n) ps).2 = false := by simpa using hr
      refine ⟨⟨h1.lib, h1.glyph, ?_⟩, fun hd => Or.inl (q.dirty ▸ hd), fun hs hne => ?_⟩
      · intro k sb hs hc
        simp only at hs ⊢
        rw [AL.get?_set] at hs
        split at hs
        · rename_i e
          subst e
          simp only [Option.some.injEq] at hs
          subst hs
          cases hg : gdirty L1.base n with
          | true => rfl
          | false => exact absurd (applyAll_clean (clean_subOf h1 hg) ps hr') hc
        · exact h1.sub k sb hs hc
      · show L1.dirty = true
        rw [q.dirty]; exact hs (q.sched ▸ hne)

theorem step_newGlyph {L : LayerF} (h : LUC L) {n : String} {r : LayerF × Bool}
    (he : newGlyph L n = .ok r) : Step L r := by
  unfold newGlyph at he
  split at he
  · simp at he
  · rename_i b hb
    simp only [Except.ok.injEq] at he
    subst he
    simp only [Layer.step] at hb
    refine ⟨⟨fun _ => rfl, fun _ _ => rfl, ?_⟩, fun _ => Or.inr rfl, fun _ _ => rfl⟩
    intro k sb hs hc
    simp only at hs ⊢
    rw [gdirty_newGlyph hb]
    rw [AL.get?_set] at hs
    split at hs
    · rename_i e; simp [e]
    · rename_i hne
      simp only [hne, if_false]
      rw [get?_drop] at hs
      split at hs
      · simp at hs
      · exact h.sub k sb hs hc

theorem step_insertGlyph {L : LayerF} (h : LUC L) {n : String} {ps : List Prim} {bases : List String} {r : LayerF × Bool}
    (he : insertGlyph L n ps bases = .ok r) : Step L r := by
  unfold insertGlyph at he
  split at he
  · simp at he
  · rename_i L1 r1 h1
    split at he
    · simp at he
    · rename_i L2 r2 h2
      simp only [Except.ok.injEq] at he
      subst he
      have s1 := step_newGlyph h h1
      have s2 := step_editGlyph s1.luc h2
      exact ⟨s2.luc, fun _ => Or.inr rfl, fun hs => s2.sched (s1.sched hs)⟩

theorem step_delGlyph {L : LayerF} (h : LUC L) {n : String} {r : LayerF × Bool}
    (he : delGlyph L n = .ok r) : Step L r := by
  unfold delGlyph at he
  split at he
  · simp at he
  · rename_i b hb
    simp only [Except.ok.injEq] at he
    subst he
    simp only [Layer.step] at hb
    refine ⟨⟨fun _ => rfl, fun _ _ => rfl, ?_⟩, fun _ => Or.inr rfl, fun _ _ => rfl⟩
    intro k sb hs hc
    simp only at hs ⊢
    rw [get?_drop] at hs
    split at hs
    · simp at hs
    · rename_i hne
      rw [gdirty_delete_ne hb k (fun e => hne e.symm)]
      exact h.sub k sb hs hc

theorem step_renameGlyph {L : LayerF} (h : LUC L) {o n : String} {r : LayerF × Bool}
    (he : renameGlyph L o n = .ok r) : Step L r := by
  unfold renameGlyph at he
  split at he
  · simp at he
  · rename_i L1 h1
    have q := quiet_fetch h1
    have hl := luc_of_quiet q h
    split at he
    · simp at he
    · rename_i b hb
      simp only [Layer.step] at hb
      have hr := gdirty_rename hb
      split at he
      · rename_i e
        simp only [Except.ok.injEq] at he
        subst he
        have hg := hr.1 e
        refine ⟨⟨hl.lib, fun k hk => hl.glyph k ((hg k) ▸ hk), fun k sb hs hc => ?_⟩,
          fun hd => Or.inl (q.dirty ▸ hd), fun hs hne => ?_⟩
        · simp only at hs ⊢; rw [hg]; exact hl.sub k sb hs hc
        · show L1.dirty = true
          rw [q.dirty]
          apply hs
          -- the glyph set's pending deletions are untouched when the name does not change
          have : b.sched = L1.base.sched := by
            unfold Layer.rename at hb
            split at hb
            · simp at hb
            · rename_i s1 r1 hg1
              rw [if_pos e] at hb
              simp only [Except.ok.injEq] at hb
              rw [← hb]; exact sched_getItem hg1
          rw [← q.sched, ← this]; exact hne
      · rename_i hne
        simp only [Except.ok.injEq] at he
        subst he
        have hg := hr.2 hne
        refine ⟨⟨fun _ => rfl, fun _ _ => rfl, ?_⟩, fun _ => Or.inr rfl, fun _ _ => rfl⟩
        intro k sb hs hc
        simp only at hs ⊢
        rw [AL.get?_set] at hs
        split at hs
        · rename_i e; subst e; exact hg.1
        · rename_i hnk
          rw [get?_drop] at hs
          split at hs
          · simp at hs
          · rw [get?_drop] at hs
            split at hs
            · simp at hs
            · rename_i hko
              rw [hg.2 k (fun e => hko e.symm) hnk]
              exact hl.sub k sb hs hc

/-! ### one layer: saving -/

theorem layerClean_save_inPlace {L : LayerF} (h : LUC L) : LayerClean (lowerLayer (saveLayerInPlace L)) := by
  refine ⟨rfl, rfl, fun n => gdirty_save _ n, ?_⟩
  intro n sb hs
  simp only [lowerLayer, saveLayerInPlace] at hs
  rw [get?_mapKV (fun k (v : Sub) => if gdirty L.base k then v.written else v)] at hs
  cases h0 : AL.get? L.subs n with
  | none => rw [h0] at hs; simp at hs
  | some sb0 =>
    rw [h0] at hs
    simp only [Option.map_some, Option.some.injEq] at hs
    subst hs
    split
    · exact clean_written _
    · rename_i hg
      by_cases hc : sb0.Clean
      · exact hc
      · exact absurd (h.sub n sb0 h0 hc) hg

theorem layerClean_save_as (L : LayerF) : LayerClean (lowerLayer (saveLayerAs L)) := by
  refine ⟨rfl, rfl, ?_, ?_⟩
  · intro n
    simp only [lowerLayer, saveLayerAs, gdirty]
    rw [AL.get?_map_val (fun v : Layer.GRec × Bool => (v.1, false))]
    cases AL.get? (loadAll L).base.loaded n <;> rfl
  · intro n sb hs
    simp only [lowerLayer, saveLayerAs] at hs
    rw [get?_mapKV (fun _ (v : Sub) => v.written)] at hs
    cases h0 : AL.get? (loadAll L).subs n with
    | none => rw [h0] at hs; simp at hs
    | some sb0 =>
      rw [h0] at hs
      simp only [Option.map_some, Option.some.injEq] at hs
      subst hs
      exact clean_written _

theorem layerClean_save (sa : Bool) {L : LayerF} (h : LUC L) : LayerClean (lowerLayer (saveLayer sa L)) := by
  unfold saveLayer
  split
  · exact layerClean_save_as L
  · exact layerClean_save_inPlace h

theorem luc_of_layerClean {L : LayerF} (h : LayerClean L) : LUC L :=
  ⟨fun hl => by rw [h.lib] at hl; simp at hl, fun n hn => by rw [h.glyph] at hn; simp at hn,
   fun n sb hs hc => absurd (h.sub n sb hs) hc⟩

/-! ### the font -/

theorem luc_layerOf {f : FontF} (h : UC f) (lid : Nat) : LUC (layerOf f lid) := by
  unfold layerOf
  cases hl : AL.get? f.lf lid with
  | none => exact luc_default
  | some L => exact h.inner lid L hl

theorem dirty_layerOf {f : FontF} (h : UC f) (lid : Nat) (hd : (layerOf f lid).dirty = true) : f.lsDirty = true := by
  unfold layerOf at hd
  cases hl : AL.get? f.lf lid with
  | none => rw [hl] at hd; simp at hd
  | some L => rw [hl] at hd; exact h.layer lid L hl hd

theorem uc_raiseFont {f : FontF} (h : UC f) : UC (raiseFont f) :=
  ⟨fun _ => rfl, fun _ => rfl, fun _ => rfl, fun _ _ _ _ => rfl, h.layer, h.inner⟩

/-- raising the layer set (and the font) -/
theorem uc_raiseLS (f : FontF) (hi : ∀ lid L, AL.get? f.lf lid = some L → LUC L) : UC (raiseLS f) :=
  ⟨fun _ => rfl, fun _ => rfl, fun _ => rfl, fun _ _ _ _ => rfl, fun _ _ _ _ => rfl, hi⟩

theorem uc_afterLayer {f : FontF} (h : UC f) (lid : Nat) {r : LayerF × Bool} (hs : Step (layerOf f lid) r) :
    UC (afterLayer f lid r) := by
  have hin : ∀ k L, AL.get? (AL.set f.lf lid r.1) k = some L → LUC L := by
    intro k L hk
    rw [AL.get?_set] at hk
    split at hk
    · simp only [Option.some.injEq] at hk; subst hk; exact hs.luc
    · exact h.inner k L hk
  unfold afterLayer
  split
  · exact uc_raiseLS _ hin
  · rename_i hr
    refine ⟨h.ls, h.images, h.data, h.parts, ?_, hin⟩
    intro k L hk hd
    simp only [putLayer] at hk ⊢
    rw [AL.get?_set] at hk
    split at hk
    · simp only [Option.some.injEq] at hk
      subst hk
      rcases hs.raised hd with h' | h'
      · exact dirty_layerOf h lid h'
      · exact absurd h' hr
    · exact h.layer k L hk hd

theorem uc_layerStep {f f' : FontF} (h : UC f) {ln : String} {g : LayerF → Except Layer.Err (LayerF × Bool)}
    (hg : ∀ L r, LUC L → g L = .ok r → Step L r) (hs : layerStep f ln g = .ok f') : UC f' := by
  unfold layerStep at hs
  split at hs
  · simp at hs
  · rename_i lid _
    split at hs
    · simp at hs
    · rename_i r hr
      simp only [Except.ok.injEq] at hs
      subst hs
      exact uc_afterLayer h lid (hg _ r (luc_layerOf h lid) hr)

theorem uc_imageNotify {f : FontF} (h : UC f) (n : String) : UC (imageNotify f n) := by
  unfold imageNotify
  split
  · apply uc_raiseLS
    intro lid L hl
    simp only at hl
    rw [get?_mapKV (fun _ (L : LayerF) => if showsImage L n then { L with dirty := true } else L)] at hl
    cases h0 : AL.get? f.lf lid with
    | none => rw [h0] at hl; simp at hl
    | some L0 =>
      rw [h0] at hl
      simp only [Option.map_some, Option.some.injEq] at hl
      subst hl
      have := h.inner lid L0 h0
      split
      · exact ⟨fun _ => rfl, fun _ _ => rfl, this.sub⟩
      · exact this
  · exact h

theorem dirty_getItem_files {s s' : FileSet.State} {n : String} {b : Nat}
    (h : FileSet.getItem s n = .ok (s', b)) : s'.dirty = s.dirty := by
  unfold FileSet.getItem at h
  split at h
  · simp at h
  · split at h
    · simp only [Except.ok.injEq, Prod.mk.injEq] at h; rw [← h.1]
    · split at h
      · simp at h
      · simp only [Except.ok.injEq, Prod.mk.injEq] at h; rw [← h.1]

theorem dirty_step_get {sil : Bool} {s s' : FileSet.State} {n : String}
    (h : FileSet.step sil s (.get n) = .ok s') : s'.dirty = s.dirty := by
  simp only [FileSet.step, Except.map] at h
  split at h
  · simp at h
  · rename_i pr hg
    obtain ⟨s1, b⟩ := pr
    simp only [Except.ok.injEq] at h
    subst h
    exact dirty_getItem_files hg

theorem uc_imageStep {f f' : FontF} (h : UC f) (op : FileSet.Op) (mutates : Bool)
    (hm : mutates = false → ∃ n, op = .get n) (hs : imageStep f op mutates = .ok f') : UC f' := by
  unfold imageStep at hs
  split at hs
  · simp at hs
  · rename_i s' hst
    simp only [Except.ok.injEq] at hs
    have key : UC (announceSet { f with images := s' } mutates s'.dirty) := by
      unfold announceSet
      split
      · exact ⟨fun _ => rfl, fun _ => rfl, fun _ => rfl, fun _ _ _ _ => rfl, h.layer, h.inner⟩
      · rename_i hc
        refine ⟨h.ls, fun hd => h.images ?_, h.data, h.parts, h.layer, h.inner⟩
        cases mutates with
        | true => simp at hc; simp [hc] at hd
        | false =>
          obtain ⟨n, hn⟩ := hm rfl
          subst hn
          rw [← dirty_step_get hst]; exact hd
    subst hs
    split
    · split
      · exact uc_imageNotify key _
      · exact key
    · exact uc_imageNotify key _
    · exact key

theorem uc_dataStep {f f' : FontF} (h : UC f) (op : FileSet.Op) (mutates : Bool)
    (hm : mutates = false → ∃ n, op = .get n) (hs : dataStep f op mutates = .ok f') : UC f' := by
  unfold dataStep at hs
  split at hs
  · simp at hs
  · rename_i s' hst
    simp only [Except.ok.injEq] at hs
    subst hs
    unfold announceSet
    split
    · exact ⟨fun _ => rfl, fun _ => rfl, fun _ => rfl, fun _ _ _ _ => rfl, h.layer, h.inner⟩
    · rename_i hc
      refine ⟨h.ls, h.images, fun hd => h.data ?_, h.parts, h.layer, h.inner⟩
      cases mutates with
      | true => simp at hc; simp [hc] at hd
      | false =>
        obtain ⟨n, hn⟩ := hm rfl
        subst hn
        rw [← dirty_step_get hst]; exact hd

theorem uc_fileStep {f f' : FontF} (h : UC f) (images : Bool) (op : FileSet.Op) (mutates : Bool)
    (hm : mutates = false → ∃ n, op = .get n) (hs : fileStep f images op mutates = .ok f') : UC f' := by
  unfold fileStep at hs
  split at hs
  · exact uc_imageStep h op mutates hm hs
  · exact uc_dataStep h op mutates hm hs

/-! ### parts -/

theorem dirty_get_part {p : Parts.Part} (h : (Parts.get p).1.dirty = true) : p.dirty = true := by
  unfold Parts.get at h
  split at h
  · exact h
  · simp at h

theorem set_eq_get {p : Parts.Part} {b : Nat} (h : (Parts.get p).2 = b) : Parts.set p b = (Parts.get p).1 := by
  unfold Parts.set
  simp only [h, if_true]

theorem dirty_saveAlways (p : Parts.Part) : (Parts.saveAlways p).dirty = false := by
  unfold Parts.saveAlways; rfl

theorem dirty_saveIfDirty (sa : Bool) (p : Parts.Part) : (Parts.saveIfDirty sa p).dirty = false := by
  unfold Parts.saveIfDirty
  simp only
  split
  · rfl
  · rename_i hc
    simp only [not_or, Bool.not_eq_true] at hc
    exact hc.1

theorem savePart_eq (sa : Bool) (p : String × Parts.Part) :
    savePart sa p = (p.1, if p.1 = "kerning" ∨ p.1 = "features" then Parts.saveIfDirty sa p.2 else Parts.saveAlways p.2) := by
  unfold savePart; split <;> rfl

theorem parts_clean_after_save (sa : Bool) (ps : List (String × Parts.Part)) (w : String) (p : Parts.Part)
    (h : AL.get? (ps.map (savePart sa)) w = some p) : p.dirty = false := by
  induction ps with
  | nil => simp at h
  | cons a r ih =>
    rw [List.map_cons, savePart_eq] at h
    simp only [AL.get?_cons] at h
    split at h
    · simp only [Option.some.injEq] at h
      subst h
      split
      · exact dirty_saveIfDirty sa a.2
      · exact dirty_saveAlways a.2
    · exact ih h

/-- replacing a part by one whose flag is announced keeps the closure -/
theorem uc_setPart {f : FontF} (h : UC f) (w : String) (p' : Parts.Part) (hp : p'.dirty = true → f.dirty = true) :
    UC { f with parts := AL.set f.parts w p' } := by
  refine ⟨h.ls, h.images, h.data, ?_, h.layer, h.inner⟩
  intro k p hk hd
  simp only at hk
  rw [AL.get?_set] at hk
  split at hk
  · simp only [Option.some.injEq] at hk; subst hk; exact hp hd
  · exact h.parts k p hk hd

/-! ### saving the font -/

theorem nothingDirty_save {f f' : FontF} (h : UC f) {sa : Bool} (hs : step f (.save sa) = .ok f') : NothingDirty f' := by
  simp only [step] at hs
  split at hs
  · simp at hs
  · simp only [Except.ok.injEq] at hs
    subst hs
    refine ⟨rfl, rfl, ?_, ?_, ?_, ?_⟩
    · simp only [saveLayers]; split <;> rfl
    · simp only [saveLayers]; split <;> rfl
    · intro w p hp
      simp only [saveLayers] at hp
      exact parts_clean_after_save sa _ w p hp
    · intro lid L hl
      simp only [saveLayers] at hl
      rw [get?_mapKV (fun _ (L : LayerF) => lowerLayer (saveLayer sa L))] at hl
      cases h0 : AL.get? f.lf lid with
      | none => rw [h0] at hl; simp at hl
      | some L0 =>
        rw [h0] at hl
        simp only [Option.map_some, Option.some.injEq] at hl
        subst hl
        exact layerClean_save sa (h.inner lid L0 h0)

theorem uc_of_nothingDirty {f : FontF} (h : NothingDirty f) : UC f :=
  ⟨fun hl => by rw [h.ls] at hl; simp at hl, fun hl => by rw [h.images] at hl; simp at hl,
   fun hl => by rw [h.data] at hl; simp at hl,
   fun w p hp hd => by rw [h.parts w p hp] at hd; simp at hd,
   fun lid L hl hd => by rw [(h.layers lid L hl).dirty] at hd; simp at hd,
   fun lid L hl => luc_of_layerClean (h.layers lid L hl)⟩

/-- the converse direction of the closure: a clean font holds nothing that reports dirty -/
theorem nothingDirty_of_uc {f : FontF} (h : UC f) (hd : f.dirty = false) : NothingDirty f := by
  have hls : f.lsDirty = false := by
    cases hl : f.lsDirty with
    | false => rfl
    | true => rw [h.ls hl] at hd; simp at hd
  refine ⟨hd, hls, ?_, ?_, ?_, ?_⟩
  · cases hi : f.images.dirty with
    | false => rfl
    | true => rw [h.images hi] at hd; simp at hd
  · cases hi : f.data.dirty with
    | false => rfl
    | true => rw [h.data hi] at hd; simp at hd
  · intro w p hp
    cases hi : p.dirty with
    | false => rfl
    | true => rw [h.parts w p hp hi] at hd; simp at hd
  · intro lid L hl
    have hL := h.inner lid L hl
    have hLd : L.dirty = false := by
      cases hi : L.dirty with
      | false => rfl
      | true => rw [h.layer lid L hl hi] at hls; simp at hls
    have hg : ∀ n, gdirty L.base n = false := by
      intro n
      cases hi : gdirty L.base n with
      | false => rfl
      | true => rw [hL.glyph n hi] at hLd; simp at hLd
    refine ⟨hLd, ?_, hg, ?_⟩
    · cases hi : L.lib with
      | false => rfl
      | true => rw [hL.lib hi] at hLd; simp at hLd
    · intro n sb hs
      by_cases hc : sb.Clean
      · exact hc
      · have := hL.sub n sb hs hc; rw [hg n] at this; simp at this

/-! ### every operation keeps the closure -/

theorem luc_raise {L : LayerF} (h : LUC L) (lib : Bool) : LUC { L with lib := lib, dirty := true } :=
  ⟨fun _ => rfl, fun _ _ => rfl, h.sub⟩

theorem uc_ls {f : FontF} (h : UC f) (ls' : LayerSet.State) : UC { f with ls := ls' } :=
  ⟨h.ls, h.images, h.data, h.parts, h.layer, h.inner⟩

theorem uc_step {f f' : FontF} (h : UC f) (op : Op) (hs : step f op = .ok f') : UC f' := by
  cases op with
  | fileGet i n => exact uc_fileStep h i _ false (fun _ => ⟨n, rfl⟩) hs
  | fileSet i n b => exact uc_fileStep h i _ true (fun e => by simp at e) hs
  | fileDel i n => exact uc_fileStep h i _ true (fun e => by simp at e) hs
  | partGet w =>
    simp only [step] at hs
    split at hs
    · simp at hs
    · rename_i p hp
      simp only [Except.ok.injEq] at hs; subst hs
      exact uc_setPart h w _ (fun hd => h.parts w p hp (dirty_get_part hd))
  | partSet w b =>
    simp only [step] at hs
    split at hs
    · simp at hs
    · rename_i p hp
      simp only [Except.ok.injEq] at hs; subst hs
      split
      · rename_i e
        rw [set_eq_get e]
        exact uc_setPart h w _ (fun hd => h.parts w p hp (dirty_get_part hd))
      · exact ⟨fun _ => rfl, fun _ => rfl, fun _ => rfl, fun _ _ _ _ => rfl, h.layer, h.inner⟩
  | partQuiet w b =>
    simp only [step] at hs
    split at hs
    · simp at hs
    · simp only [Except.ok.injEq] at hs; subst hs
      exact ⟨fun _ => rfl, fun _ => rfl, fun _ => rfl, fun _ _ _ _ => rfl, h.layer, h.inner⟩
  | layerNew n =>
    simp only [step] at hs
    split at hs
    · simp at hs
    · simp only [Except.ok.injEq] at hs; subst hs
      apply uc_raiseLS
      intro lid L hl
      simp only at hl
      rw [AL.get?_set] at hl
      split at hl
      · simp only [Option.some.injEq] at hl; subst hl
        exact ⟨fun _ => rfl, fun _ _ => rfl, fun n sb hsb => by simp at hsb⟩
      · exact h.inner lid L hl
  | layerDel n =>
    simp only [step] at hs
    split at hs
    · simp at hs
    · simp only [Except.ok.injEq] at hs; subst hs
      apply uc_raiseLS
      intro lid L hl
      simp only at hl
      split at hl
      · unfold dropLayer at hl
        rw [get?_filterNat_ne] at hl
        split at hl
        · simp at hl
        · exact h.inner lid L hl
      · exact h.inner lid L hl
  | layerRename o n =>
    simp only [step] at hs
    split at hs
    · simp at hs
    · split at hs
      · simp only [Except.ok.injEq] at hs; subst hs; exact uc_ls h _
      · split at hs
        · simp at hs
        · rename_i lid _
          simp only [Except.ok.injEq] at hs; subst hs
          unfold putLayer
          apply uc_raiseLS
          intro k L hl
          simp only at hl
          rw [AL.get?_set] at hl
          split at hl
          · simp only [Option.some.injEq] at hl; subst hl
            have := luc_layerOf h lid
            exact ⟨fun _ => rfl, fun _ _ => rfl, this.sub⟩
          · exact h.inner k L hl
  | layerDefault n =>
    simp only [step] at hs
    split at hs
    · simp at hs
    · split at hs
      · simp only [Except.ok.injEq] at hs; subst hs; exact uc_ls h _
      · simp only [Except.ok.injEq] at hs; subst hs; exact uc_raiseLS _ h.inner
  | layerOrder o =>
    simp only [step] at hs
    split at hs
    · simp at hs
    · split at hs
      · simp only [Except.ok.injEq] at hs; subst hs; exact uc_ls h _
      · simp only [Except.ok.injEq] at hs; subst hs; exact uc_raiseLS _ h.inner
  | layerTouch ln =>
    simp only [step] at hs
    refine uc_layerStep h (fun L r hL hr => ?_) hs
    simp only [Except.ok.injEq] at hr; subst hr
    exact ⟨⟨fun _ => rfl, fun _ _ => rfl, hL.sub⟩, fun _ => Or.inr rfl, fun _ _ => rfl⟩
  | layerLibEdit ln =>
    simp only [step] at hs
    refine uc_layerStep h (fun L r hL hr => ?_) hs
    simp only [Except.ok.injEq] at hr; subst hr
    exact ⟨⟨fun _ => rfl, fun _ _ => rfl, hL.sub⟩, fun _ => Or.inr rfl, fun _ _ => rfl⟩
  | glyphGet ln gn =>
    simp only [step] at hs
    refine uc_layerStep h (fun L r hL hr => ?_) hs
    simp only [Except.map] at hr
    split at hr
    · simp at hr
    · rename_i L' hf
      simp only [Except.ok.injEq] at hr; subst hr
      exact step_of_quiet (quiet_fetch hf) hL
  | glyphNew ln gn => exact uc_layerStep h (fun L r hL hr => step_newGlyph hL hr) hs
  | glyphInsert ln gn ps bases => exact uc_layerStep h (fun L r hL hr => step_insertGlyph hL hr) hs
  | glyphDel ln gn => exact uc_layerStep h (fun L r hL hr => step_delGlyph hL hr) hs
  | glyphRename ln o n => exact uc_layerStep h (fun L r hL hr => step_renameGlyph hL hr) hs
  | glyphEdit ln gn ps bases => exact uc_layerStep h (fun L r hL hr => step_editGlyph hL hr) hs
  | save sa => exact uc_of_nothingDirty (nothingDirty_save h hs)

theorem uc_stepTotal {f : FontF} (h : UC f) (op : Op) : UC (stepTotal f op) := by
  unfold stepTotal
  split
  · rename_i f' hs; exact uc_step h op hs
  · exact h

theorem uc_run {f : FontF} (h : UC f) (ops : List Op) : UC (run f ops) := by
  induction ops generalizing f with
  | nil => exact h
  | cons op ops ih => exact ih (uc_stepTotal h op)

/-! ### the initial states -/

theorem uc_newFont : UC newFont := by
  refine ⟨fun _ => rfl, fun _ => rfl, fun _ => rfl, fun _ _ _ _ => rfl, fun _ _ _ _ => rfl, ?_⟩
  intro lid L hl
  simp only [newFont, AL.get?_cons, AL.get?_nil] at hl
  split at hl
  · simp only [Option.some.injEq] at hl; subst hl
    exact ⟨fun _ => rfl, fun _ _ => rfl, fun n sb hsb => by simp at hsb⟩
  · simp at hl

theorem gdirty_opened (d : List (String × Layer.GRec)) (n : String) : gdirty (Layer.opened d) n = false := rfl

/-- right after loading a UFO no object reports dirty -/
theorem nothingDirty_opened (imgs dats ps layers : List (String × Nat)) (defLid : Nat) (defName : String)
    (glyphs : List (Nat × List (String × Shape))) :
    NothingDirty (opened imgs dats ps layers defLid defName glyphs) := by
  refine ⟨rfl, rfl, rfl, rfl, ?_, ?_⟩
  · intro w p hp
    simp only [opened] at hp
    induction ps with
    | nil => simp at hp
    | cons a r ih =>
      simp only [List.map_cons, AL.get?_cons] at hp
      split at hp
      · simp only [Option.some.injEq] at hp; subst hp; rfl
      · exact ih hp
  · intro lid L hl
    simp only [opened] at hl
    induction layers with
    | nil => simp at hl
    | cons a r ih =>
      simp only [List.map_cons, AL.get?_cons] at hl
      split at hl
      · simp only [Option.some.injEq] at hl; subst hl
        exact ⟨rfl, rfl, fun n => rfl, fun n sb hsb => by simp at hsb⟩
      · exact ih hl

/-! ### pending deletions are announced -/

theorem sf_layerOf {f : FontF} (h : SF f) (lid : Nat) : SchedFlagged (layerOf f lid) := by
  unfold layerOf
  cases hl : AL.get? f.lf lid with
  | none => intro hne; exact absurd rfl hne
  | some L => exact h lid L hl

theorem sf_afterLayer {f : FontF} (h : SF f) (lid : Nat) {r : LayerF × Bool} (hs : Step (layerOf f lid) r) :
    SF (afterLayer f lid r) := by
  intro k L hk
  have hk' : AL.get? (AL.set f.lf lid r.1) k = some L := by
    unfold afterLayer at hk
    split at hk <;> exact hk
  rw [AL.get?_set] at hk'
  split at hk'
  · simp only [Option.some.injEq] at hk'; subst hk'; exact hs.sched (sf_layerOf h lid)
  · exact h k L hk'

theorem sf_layerStep {f f' : FontF} (hu : UC f) (h : SF f) {ln : String} {g : LayerF → Except Layer.Err (LayerF × Bool)}
    (hg : ∀ L r, LUC L → g L = .ok r → Step L r) (hs : layerStep f ln g = .ok f') : SF f' := by
  unfold layerStep at hs
  split at hs
  · simp at hs
  · rename_i lid _
    split at hs
    · simp at hs
    · rename_i r hr
      simp only [Except.ok.injEq] at hs
      subst hs
      exact sf_afterLayer h lid (hg _ r (luc_layerOf hu lid) hr)

theorem sf_imageNotify {f : FontF} (h : SF f) (n : String) : SF (imageNotify f n) := by
  unfold imageNotify
  split
  · intro lid L hl
    simp only [raiseLS] at hl
    rw [get?_mapKV (fun _ (L : LayerF) => if showsImage L n then { L with dirty := true } else L)] at hl
    cases h0 : AL.get? f.lf lid with
    | none => rw [h0] at hl; simp at hl
    | some L0 =>
      rw [h0] at hl
      simp only [Option.map_some, Option.some.injEq] at hl
      subst hl
      split
      · intro _; rfl
      · exact h lid L0 h0
  · exact h

theorem sf_congr {f f' : FontF} (h : SF f) (e : f'.lf = f.lf) : SF f' := by
  intro lid L hl; rw [e] at hl; exact h lid L hl

theorem sched_save (s : Layer.State) : (Layer.save s).sched = [] := rfl

theorem sf_step {f f' : FontF} (hu : UC f) (h : SF f) (op : Op) (hs : step f op = .ok f') : SF f' := by
  have file : ∀ i o m, fileStep f i o m = .ok f' → SF f' := by
    intro i o m hs
    unfold fileStep at hs
    split at hs
    · unfold imageStep at hs
      split at hs
      · simp at hs
      · simp only [Except.ok.injEq] at hs
        have key : ∀ s' d, SF (announceSet { f with images := s' } m d) := by
          intro s' d; unfold announceSet; split <;> exact sf_congr h rfl
        subst hs
        split
        · split
          · exact sf_imageNotify (key _ _) _
          · exact key _ _
        · exact sf_imageNotify (key _ _) _
        · exact key _ _
    · unfold dataStep at hs
      split at hs
      · simp at hs
      · simp only [Except.ok.injEq] at hs
        subst hs
        unfold announceSet; split <;> exact sf_congr h rfl
  cases op with
  | fileGet i n => exact file i _ _ hs
  | fileSet i n b => exact file i _ _ hs
  | fileDel i n => exact file i _ _ hs
  | partGet w =>
    simp only [step] at hs
    split at hs
    · simp at hs
    · simp only [Except.ok.injEq] at hs; subst hs; exact sf_congr h rfl
  | partSet w b =>
    simp only [step] at hs
    split at hs
    · simp at hs
    · simp only [Except.ok.injEq] at hs; subst hs
      split <;> exact sf_congr h rfl
  | partQuiet w b =>
    simp only [step] at hs
    split at hs
    · simp at hs
    · simp only [Except.ok.injEq] at hs; subst hs; exact sf_congr h rfl
  | layerNew n =>
    simp only [step] at hs
    split at hs
    · simp at hs
    · simp only [Except.ok.injEq] at hs; subst hs
      intro lid L hl
      simp only [raiseLS] at hl
      rw [AL.get?_set] at hl
      split at hl
      · simp only [Option.some.injEq] at hl; subst hl; intro _; rfl
      · exact h lid L hl
  | layerDel n =>
    simp only [step] at hs
    split at hs
    · simp at hs
    · simp only [Except.ok.injEq] at hs; subst hs
      intro lid L hl
      simp only [raiseLS] at hl
      split at hl
      · unfold dropLayer at hl
        rw [get?_filterNat_ne] at hl
        split at hl
        · simp at hl
        · exact h lid L hl
      · exact h lid L hl
  | layerRename o n =>
    simp only [step] at hs
    split at hs
    · simp at hs
    · split at hs
      · simp only [Except.ok.injEq] at hs; subst hs; exact sf_congr h rfl
      · split at hs
        · simp at hs
        · rename_i lid _
          simp only [Except.ok.injEq] at hs; subst hs
          intro k L hl
          simp only [raiseLS, putLayer] at hl
          rw [AL.get?_set] at hl
          split at hl
          · simp only [Option.some.injEq] at hl; subst hl; intro _; rfl
          · exact h k L hl
  | layerDefault n =>
    simp only [step] at hs
    split at hs
    · simp at hs
    · split at hs <;> (simp only [Except.ok.injEq] at hs; subst hs; exact sf_congr h rfl)
  | layerOrder o =>
    simp only [step] at hs
    split at hs
    · simp at hs
    · split at hs <;> (simp only [Except.ok.injEq] at hs; subst hs; exact sf_congr h rfl)
  | layerTouch ln =>
    simp only [step] at hs
    refine sf_layerStep hu h (fun L r hL hr => ?_) hs
    simp only [Except.ok.injEq] at hr; subst hr
    exact ⟨⟨fun _ => rfl, fun _ _ => rfl, hL.sub⟩, fun _ => Or.inr rfl, fun _ _ => rfl⟩
  | layerLibEdit ln =>
    simp only [step] at hs
    refine sf_layerStep hu h (fun L r hL hr => ?_) hs
    simp only [Except.ok.injEq] at hr; subst hr
    exact ⟨⟨fun _ => rfl, fun _ _ => rfl, hL.sub⟩, fun _ => Or.inr rfl, fun _ _ => rfl⟩
  | glyphGet ln gn =>
    simp only [step] at hs
    refine sf_layerStep hu h (fun L r hL hr => ?_) hs
    simp only [Except.map] at hr
    split at hr
    · simp at hr
    · rename_i L' hf
      simp only [Except.ok.injEq] at hr; subst hr
      exact step_of_quiet (quiet_fetch hf) hL
  | glyphNew ln gn => exact sf_layerStep hu h (fun L r hL hr => step_newGlyph hL hr) hs
  | glyphInsert ln gn ps bases => exact sf_layerStep hu h (fun L r hL hr => step_insertGlyph hL hr) hs
  | glyphDel ln gn => exact sf_layerStep hu h (fun L r hL hr => step_delGlyph hL hr) hs
  | glyphRename ln o n => exact sf_layerStep hu h (fun L r hL hr => step_renameGlyph hL hr) hs
  | glyphEdit ln gn ps bases => exact sf_layerStep hu h (fun L r hL hr => step_editGlyph hL hr) hs
  | save sa =>
    simp only [step] at hs
    split at hs
    · simp at hs
    · simp only [Except.ok.injEq] at hs; subst hs
      intro lid L hl
      simp only [saveLayers] at hl
      rw [get?_mapKV (fun _ (L : LayerF) => lowerLayer (saveLayer sa L))] at hl
      cases h0 : AL.get? f.lf lid with
      | none => rw [h0] at hl; simp at hl
      | some L0 =>
        rw [h0] at hl
        simp only [Option.map_some, Option.some.injEq] at hl
        subst hl
        intro hne
        exfalso; apply hne
        unfold saveLayer
        split <;> rfl

theorem inv_run {f : FontF} (hu : UC f) (h : SF f) (ops : List Op) : UC (run f ops) ∧ SF (run f ops) := by
  induction ops generalizing f with
  | nil => exact ⟨hu, h⟩
  | cons op ops ih =>
    show UC (run (stepTotal f op) ops) ∧ SF (run (stepTotal f op) ops)
    apply ih (uc_stepTotal hu op)
    unfold stepTotal
    split
    · rename_i f' hs; exact sf_step hu h op hs
    · exact h

theorem sf_newFont : SF newFont := by
  intro lid L hl
  simp only [newFont, AL.get?_cons, AL.get?_nil] at hl
  split at hl
  · simp only [Option.some.injEq] at hl; subst hl; intro _; rfl
  · simp at hl

theorem sf_opened (imgs dats ps layers : List (String × Nat)) (defLid : Nat) (defName : String)
    (glyphs : List (Nat × List (String × Shape))) : SF (opened imgs dats ps layers defLid defName glyphs) := by
  intro lid L hl
  simp only [opened] at hl
  induction layers with
  | nil => simp at hl
  | cons a r ih =>
    simp only [List.map_cons, AL.get?_cons] at hl
    split at hl
    · simp only [Option.some.injEq] at hl; subst hl; intro hne; exact absurd rfl hne
    · exact ih hl

theorem inv_initial {f : FontF} (h : Initial f) : UC f ∧ SF f := by
  rcases h with h | ⟨imgs, dats, ps, layers, defLid, defName, glyphs, h⟩
  · subst h; exact ⟨uc_newFont, sf_newFont⟩
  · subst h; exact ⟨uc_of_nothingDirty (nothingDirty_opened ..), sf_opened _ _ _ _ _ _ _⟩

/-- every state a history reaches -/
theorem inv_reachable {f0 : FontF} (h : Initial f0) (ops : List Op) : UC (run f0 ops) ∧ SF (run f0 ops) :=
  inv_run (inv_initial h).1 (inv_initial h).2 ops

end SubFlags
end DefconModel
