/-
Helper lemmas for M-Cells: reachability and denotation under heap extension and in-place writes,
the specification of `copyItems` / `copyAt`, conformance ⇒ alias-freedom.
-/
import DefconModel.Spec.Cells

namespace DefconModel
namespace Cells

/-! ### bounds -/

theorem InB.mono {h : Heap} (e : Heap) {v : Val} (hv : InB h v) : InB (h ++ e) v := by
  cases v with
  | atom a => trivial
  | ref p =>
    show p < (h ++ e).length
    rw [List.length_append]
    exact Nat.lt_of_lt_of_le hv (Nat.le_add_right _ _)

theorem reach_lt {h : Heap} {v : Val} {q : Addr} (hc : Closed h) (hv : InB h v) (r : Reach h v q) :
    q < h.length := by
  induction r with
  | here p => exact hv
  | step hp hm _ ih => exact ih (hc _ _ hp _ hm)

theorem bounded_of_closed {h : Heap} {v : Val} (hc : Closed h) (hv : InB h v) : Bounded h v :=
  fun _ r => reach_lt hc hv r

theorem Bounded.item {h : Heap} {p : Addr} {c : Cell} {v : Val} (hb : Bounded h (.ref p))
    (hp : h[p]? = some c) (hm : v ∈ c.items) : Bounded h v :=
  fun q r => hb q (Reach.step hp hm r)

theorem bounded_atom (h : Heap) (a : Atom) : Bounded h (.atom a) := by
  intro q r
  cases r

theorem getElem?_lt {h : Heap} {p : Addr} {c : Cell} (hp : h[p]? = some c) : p < h.length := by
  rcases Nat.lt_or_ge p h.length with hl | hl
  · exact hl
  · rw [List.getElem?_eq_none hl] at hp
    cases hp

theorem closed_snoc {h : Heap} {c : Cell} (hc : Closed h) (hi : ∀ v ∈ c.items, InB h v) :
    Closed (h ++ [c]) := by
  intro p c0 hp v hv
  rcases Nat.lt_or_ge p h.length with hl | hl
  · rw [List.getElem?_append_left hl] at hp
    exact (hc p c0 hp v hv).mono [c]
  · rw [List.getElem?_append_right hl] at hp
    have h0 : p - h.length = 0 := by
      rcases Nat.eq_zero_or_pos (p - h.length) with h0 | h0
      · exact h0
      · rw [List.getElem?_eq_none (by simpa using Nat.succ_le_of_lt h0)] at hp
        cases hp
    rw [h0] at hp
    simp only [List.getElem?_cons_zero, Option.some.injEq] at hp
    subst hp
    exact (hi v hv).mono [c]

/-! ### heap extension -/

theorem denote_append (h e : Heap) : ∀ (k : Nat) (v : Val), Bounded h v →
    denote (h ++ e) k v = denote h k v := by
  intro k
  induction k with
  | zero => intro v _; cases v <;> rfl
  | succ n ih =>
    intro v hb
    cases v with
    | atom a => rfl
    | ref p =>
      have hp : p < h.length := hb p (Reach.here p)
      have e1 : (h ++ e)[p]? = h[p]? := List.getElem?_append_left hp
      simp only [denote, e1]
      cases hc : h[p]? with
      | none => rfl
      | some c =>
        simp only []
        rw [List.map_congr_left (fun x hx => ih x (hb.item hc hx))]

theorem reach_of_append {h e : Heap} {v : Val} {q : Addr} (r : Reach (h ++ e) v q) :
    Bounded h v → Reach h v q := by
  induction r with
  | here p => intro _; exact Reach.here p
  | @step p q c v hp hm _ ih =>
    intro hb
    have hl : p < h.length := hb p (Reach.here p)
    rw [List.getElem?_append_left hl] at hp
    exact Reach.step hp hm (ih (hb.item hp hm))

theorem reach_append {h : Heap} (e : Heap) {v : Val} {q : Addr} (r : Reach h v q) : Reach (h ++ e) v q := by
  induction r with
  | here p => exact Reach.here p
  | @step p q c v hp hm _ ih =>
    have hl : p < h.length := getElem?_lt hp
    exact Reach.step (by rw [List.getElem?_append_left hl]; exact hp) hm ih

theorem reach_append_iff {h : Heap} (e : Heap) {v : Val} (hb : Bounded h v) (q : Addr) :
    Reach (h ++ e) v q ↔ Reach h v q :=
  ⟨fun r => reach_of_append r hb, reach_append e⟩

theorem bounded_append {h : Heap} (e : Heap) {v : Val} (hb : Bounded h v) : Bounded (h ++ e) v := by
  intro q r
  have := hb q (reach_of_append r hb)
  rw [List.length_append]
  exact Nat.lt_of_lt_of_le this (Nat.le_add_right _ _)

/-! ### writes in place -/

theorem denote_set (h : Heap) (p : Addr) (c : Cell) : ∀ (k : Nat) (v : Val), ¬ Reach h v p →
    denote (h.set p c) k v = denote h k v := by
  intro k
  induction k with
  | zero => intro v _; cases v <;> rfl
  | succ n ih =>
    intro v hn
    cases v with
    | atom a => rfl
    | ref q =>
      have hne : p ≠ q := fun e => hn (e ▸ Reach.here p)
      have e1 : (h.set p c)[q]? = h[q]? := List.getElem?_set_ne hne
      simp only [denote, e1]
      cases hc : h[q]? with
      | none => rfl
      | some c0 =>
        simp only []
        rw [List.map_congr_left (fun x hx => ih x (fun r => hn (Reach.step hc hx r)))]

theorem reach_of_set {h : Heap} {p : Addr} {c : Cell} {v : Val} {q : Addr} (r : Reach (h.set p c) v q) :
    ¬ Reach h v p → Reach h v q := by
  induction r with
  | here p0 => intro _; exact Reach.here p0
  | @step p0 q c0 v hp hm _ ih =>
    intro hn
    have hne : p ≠ p0 := fun e => hn (e ▸ Reach.here p)
    rw [List.getElem?_set_ne hne] at hp
    exact Reach.step hp hm (ih (fun r => hn (Reach.step hp hm r)))

theorem reach_set {h : Heap} {p : Addr} (c : Cell) {v : Val} {q : Addr} (r : Reach h v q) :
    ¬ Reach h v p → Reach (h.set p c) v q := by
  induction r with
  | here p0 => intro _; exact Reach.here p0
  | @step p0 q c0 v hp hm _ ih =>
    intro hn
    have hne : p ≠ p0 := fun e => hn (e ▸ Reach.here p)
    exact Reach.step (by rw [List.getElem?_set_ne hne]; exact hp) hm (ih (fun r => hn (Reach.step hp hm r)))

theorem reach_set_iff {h : Heap} {p : Addr} (c : Cell) {v : Val} (hn : ¬ Reach h v p) (q : Addr) :
    Reach (h.set p c) v q ↔ Reach h v q :=
  ⟨fun r => reach_of_set r hn, fun r => reach_set c r hn⟩

/-- one mutation that does not write into the state of `v` changes neither what `v` denotes nor what
it reaches -/
theorem mut_invisible (h : Heap) (m : Mut) (v : Val) (hb : Bounded h v)
    (hw : ∀ p c, m = .write p c → ¬ Reach h v p) :
    (∀ k, denote (m.apply h) k v = denote h k v) ∧ (∀ q, Reach (m.apply h) v q ↔ Reach h v q) ∧
      Bounded (m.apply h) v := by
  cases m with
  | write p c =>
    have hn := hw p c rfl
    refine ⟨fun k => denote_set h p c k v hn, fun q => reach_set_iff c hn q, ?_⟩
    intro q r
    have := hb q ((reach_set_iff c hn q).mp r)
    simpa [Mut.apply] using this
  | alloc c =>
    exact ⟨fun k => denote_append h [c] k v hb, fun q => reach_append_iff [c] hb q, bounded_append [c] hb⟩

theorem muts_invisible (ms : List Mut) : ∀ (h : Heap) (v : Val), Bounded h v →
    (∀ p c, Mut.write p c ∈ ms → ¬ Reach h v p) →
    (∀ k, denote (applyAll h ms) k v = denote h k v) ∧ (∀ q, Reach (applyAll h ms) v q ↔ Reach h v q) := by
  induction ms with
  | nil => intro h v _ _; exact ⟨fun _ => rfl, fun _ => Iff.rfl⟩
  | cons m ms ih =>
    intro h v hb hw
    obtain ⟨h1, h2, h3⟩ := mut_invisible h m v hb (fun p c e => hw p c (e ▸ List.mem_cons_self))
    have hw' : ∀ p c, Mut.write p c ∈ ms → ¬ Reach (m.apply h) v p := by
      intro p c hm r
      exact hw p c (List.mem_cons_of_mem _ hm) ((h2 p).mp r)
    obtain ⟨k1, k2⟩ := ih (m.apply h) v h3 hw'
    refine ⟨fun k => ?_, fun q => ?_⟩
    · show denote (applyAll (m.apply h) ms) k v = _
      rw [k1 k, h1 k]
    · show Reach (applyAll (m.apply h) ms) v q ↔ _
      rw [k2 q, h2 q]

/-! ### `allItems` -/

theorem allItems_congr {f g : String → Val → Bool} : ∀ (vs : List Val) (ks : List String),
    (∀ k v, v ∈ vs → f k v = g k v) → allItems f ks vs = allItems g ks vs := by
  intro vs
  induction vs with
  | nil => intro ks _; rfl
  | cons v vs ih =>
    intro ks hfg
    simp only [allItems]
    rw [hfg _ v List.mem_cons_self, ih ks.tail (fun k x hx => hfg k x (List.mem_cons_of_mem _ hx))]

theorem allItems_imp {f g : String → Val → Bool} : ∀ (vs : List Val) (ks : List String),
    (∀ k v, v ∈ vs → f k v = true → g k v = true) → allItems f ks vs = true → allItems g ks vs = true := by
  intro vs
  induction vs with
  | nil => intro ks _ _; rfl
  | cons v vs ih =>
    intro ks hfg
    simp only [allItems, Bool.and_eq_true]
    intro ⟨a, b⟩
    exact ⟨hfg _ v List.mem_cons_self a, ih ks.tail (fun k x hx => hfg k x (List.mem_cons_of_mem _ hx)) b⟩

/-! ### alias-freedom -/

theorem aliasFree_allDeep : ∀ (n : Nat) (path : Path) (h : Heap) (v : Val), aliasFree n allDeep path h v = true := by
  intro n path h v
  cases n <;> cases v <;> simp [aliasFree, allDeep]

theorem aliasFree_append (tbl : Path → Mode) (h e : Heap) : ∀ (n : Nat) (path : Path) (v : Val), Bounded h v →
    aliasFree n tbl path (h ++ e) v = aliasFree n tbl path h v := by
  intro n
  induction n with
  | zero => intro path v _; cases v <;> rfl
  | succ n ih =>
    intro path v hb
    cases v with
    | atom a => rfl
    | ref p =>
      have hp : p < h.length := hb p (Reach.here p)
      have e1 : (h ++ e)[p]? = h[p]? := List.getElem?_append_left hp
      simp only [aliasFree, e1]
      cases tbl path with
      | alias => rfl
      | deep => rfl
      | rebuild =>
        simp only []
        cases hc : h[p]? with
        | none => rfl
        | some c =>
          simp only []
          exact allItems_congr _ _ (fun k x hx => ih (path ++ [k]) x (hb.item hc hx))

/-- a value of the shape the types describe, copied by a table whose entries are all safe, hands no
cell over -/
theorem conforms_aliasFree (ty : Path → Ty) (tbl : Path → Mode)
    (hs : ∀ path, match ty path with
      | .atomic => True
      | .cell => tbl path ≠ .alias
      | .any => tbl path = .deep)
    (h : Heap) : ∀ (n : Nat) (path : Path) (v : Val),
    conforms n ty path h v = true → aliasFree n tbl path h v = true := by
  intro n
  induction n with
  | zero => intro path v _; cases v <;> rfl
  | succ n ih =>
    intro path v hc
    cases v with
    | atom a => rfl
    | ref p =>
      have hsp := hs path
      simp only [conforms] at hc
      simp only [aliasFree]
      cases hty : ty path with
      | atomic => rw [hty] at hc; cases hc
      | any =>
        rw [hty] at hsp
        simp only [] at hsp
        rw [hsp]
      | cell =>
        rw [hty] at hsp hc
        simp only [] at hsp hc
        cases hm : tbl path with
        | alias => exact absurd hm hsp
        | deep => rfl
        | rebuild =>
          simp only []
          cases hcell : h[p]? with
          | none => rfl
          | some c =>
            rw [hcell] at hc
            simp only [] at hc ⊢
            exact allItems_imp _ _ (fun k x _ hx => ih (path ++ [k]) x hx) hc

/-! ### the copy -/

/-- the copy `v'` (in `h'`) of `v` (in `h`): the heap only grew, stays well formed, the copy lives in
it and denotes what the source denotes -/
structure CopyOK (h : Heap) (v : Val) (h' : Heap) (v' : Val) : Prop where
  ext : ∃ e, h' = h ++ e
  closed : Closed h'
  inb : InB h' v'
  same : ∀ k, denote h' k v' = denote h k v

/-- every cell of the copy was allocated by the copy -/
def Fresh (h h' : Heap) (v' : Val) : Prop := ∀ q, Reach h' v' q → h.length ≤ q

theorem copyItems_spec (f : String → Heap → Val → Option (Heap × Val)) (G : String → Heap → Val → Bool)
    (hf : ∀ k h v h' v', Closed h → InB h v → f k h v = some (h', v') →
      CopyOK h v h' v' ∧ (G k h v = true → Fresh h h' v'))
    (hG : ∀ k h e v, Closed h → InB h v → G k (h ++ e) v = G k h v) :
    ∀ (vs : List Val) (ks : List String) (h h' : Heap) (vs' : List Val), Closed h → (∀ v ∈ vs, InB h v) →
      copyItems f ks h vs = some (h', vs') →
      (∃ e, h' = h ++ e) ∧ Closed h' ∧ (∀ v' ∈ vs', InB h' v') ∧
      (∀ k, vs'.map (denote h' k) = vs.map (denote h k)) ∧
      (allItems (fun k => G k h) ks vs = true → ∀ v' ∈ vs', Fresh h h' v') := by
  intro vs
  induction vs with
  | nil =>
    intro ks h h' vs' hc _ e
    simp only [copyItems, Option.some.injEq, Prod.mk.injEq] at e
    obtain ⟨rfl, rfl⟩ := e
    exact ⟨⟨[], by simp⟩, hc, by simp, fun _ => rfl, fun _ v' hv' => by cases hv'⟩
  | cons v vs ih =>
    intro ks h h' vs' hc hin e
    simp only [copyItems] at e
    cases e1 : f (ks.headD "*") h v with
    | none => rw [e1] at e; cases e
    | some r1 =>
      obtain ⟨h1, v1⟩ := r1
      rw [e1] at e
      simp only [] at e
      cases e2 : copyItems f ks.tail h1 vs with
      | none => rw [e2] at e; cases e
      | some r2 =>
        obtain ⟨h2, vs2⟩ := r2
        rw [e2] at e
        simp only [Option.some.injEq, Prod.mk.injEq] at e
        obtain ⟨rfl, rfl⟩ := e
        have hv : InB h v := hin v List.mem_cons_self
        obtain ⟨ok1, fr1⟩ := hf _ h v h1 v1 hc hv e1
        obtain ⟨x1, hx1⟩ := ok1.ext
        have hin1 : ∀ x ∈ vs, InB h1 x := by
          intro x hx
          rw [hx1]
          exact (hin x (List.mem_cons_of_mem _ hx)).mono x1
        obtain ⟨⟨x2, hx2⟩, c2, in2, same2, fr2⟩ := ih ks.tail h1 h2 vs2 ok1.closed hin1 e2
        have hb1 : Bounded h1 v1 := bounded_of_closed ok1.closed ok1.inb
        refine ⟨⟨x1 ++ x2, by rw [hx2, hx1, List.append_assoc]⟩, c2, ?_, ?_, ?_⟩
        · intro v' hv'
          rcases List.mem_cons.mp hv' with rfl | hm
          · rw [hx2]; exact ok1.inb.mono x2
          · exact in2 v' hm
        · intro k
          simp only [List.map_cons]
          rw [same2 k]
          congr 1
          · rw [hx2, denote_append h1 x2 k v1 hb1, ok1.same k]
          · rw [hx1]
            exact List.map_congr_left (fun x hx =>
              denote_append h x1 k x (bounded_of_closed hc (hin x (List.mem_cons_of_mem _ hx))))
        · intro hall v' hv'
          simp only [allItems, Bool.and_eq_true] at hall
          rcases List.mem_cons.mp hv' with rfl | hm
          · intro q r
            rw [hx2] at r
            exact fr1 hall.1 q ((reach_append_iff x2 hb1 q).mp r)
          · have hall2 : allItems (fun k => G k h1) ks.tail vs = true := by
              rw [← hall.2]
              apply allItems_congr
              intro k x hx
              rw [hx1]
              exact hG k h x1 x hc (hin x (List.mem_cons_of_mem _ hx))
            intro q r
            have := fr2 hall2 v' hm q r
            rw [hx1] at this
            simp only [List.length_append] at this
            omega

theorem copyAt_spec : ∀ (n : Nat) (tbl : Path → Mode) (path : Path) (h : Heap) (v : Val) (h' : Heap) (v' : Val),
    Closed h → InB h v → copyAt n tbl path h v = some (h', v') →
    CopyOK h v h' v' ∧ (aliasFree n tbl path h v = true → Fresh h h' v') := by
  intro n
  induction n with
  | zero =>
    intro tbl path h v h' v' hc hv e
    cases v with
    | atom a =>
      simp only [copyAt, Option.some.injEq, Prod.mk.injEq] at e
      obtain ⟨rfl, rfl⟩ := e
      exact ⟨⟨⟨[], by simp⟩, hc, trivial, fun _ => rfl⟩, fun _ q r => by cases r⟩
    | ref p => simp [copyAt] at e
  | succ n ih =>
    intro tbl path h v h' v' hc hv e
    cases v with
    | atom a =>
      simp only [copyAt, Option.some.injEq, Prod.mk.injEq] at e
      obtain ⟨rfl, rfl⟩ := e
      exact ⟨⟨⟨[], by simp⟩, hc, trivial, fun _ => rfl⟩, fun _ q r => by cases r⟩
    | ref p =>
      -- the part common to `deep` and `rebuild`
      have main : ∀ (tbl' : Path → Mode) (c : Cell) (h1 : Heap) (items' : List Val), h[p]? = some c →
          copyItems (fun k => copyAt n tbl' (path ++ [k])) c.pathKeys h c.items = some (h1, items') →
          CopyOK h (.ref p) (h1 ++ [{ c with items := items' }]) (.ref h1.length) ∧
          (allItems (fun k => aliasFree n tbl' (path ++ [k]) h) c.pathKeys c.items = true →
            Fresh h (h1 ++ [{ c with items := items' }]) (.ref h1.length)) := by
        intro tbl' c h1 items' hcell e1
        have hitems : ∀ x ∈ c.items, InB h x := hc p c hcell
        obtain ⟨⟨x1, hx1⟩, c1, in1, same1, fr1⟩ :=
          copyItems_spec (fun k => copyAt n tbl' (path ++ [k])) (fun k h v => aliasFree n tbl' (path ++ [k]) h v)
            (fun k h v h' v' a b c => ih tbl' (path ++ [k]) h v h' v' a b c)
            (fun k h e v a b => aliasFree_append tbl' h e n (path ++ [k]) v (bounded_of_closed a b))
            c.items c.pathKeys h h1 items' hc hitems e1
        have hcl : Closed (h1 ++ [{ c with items := items' }]) := closed_snoc c1 in1
        have hroot : (h1 ++ [{ c with items := items' }])[h1.length]? = some { c with items := items' } := by
          simp
        refine ⟨⟨⟨x1 ++ [{ c with items := items' }], by rw [hx1, List.append_assoc]⟩, hcl, ?_, ?_⟩, ?_⟩
        · simp [InB]
        · intro k
          cases k with
          | zero => rfl
          | succ k =>
            simp only [denote, hroot, hcell]
            have : items'.map (denote (h1 ++ [{ c with items := items' }]) k) = c.items.map (denote h k) := by
              rw [← same1 k]
              exact List.map_congr_left (fun x hx =>
                denote_append h1 _ k x (bounded_of_closed c1 (in1 x hx)))
            rw [this]
        · intro hall q r
          cases r with
          | here _ => rw [hx1]; simp only [List.length_append]; omega
          | @step _ _ c0 x hp hm r =>
            rw [hroot] at hp
            cases hp
            have r1 : Reach h1 x q := (reach_append_iff _ (bounded_of_closed c1 (in1 x hm)) q).mp r
            exact fr1 hall x hm q r1
      simp only [copyAt] at e
      cases hm : tbl path with
      | alias =>
        rw [hm] at e
        simp only [Option.some.injEq, Prod.mk.injEq] at e
        obtain ⟨rfl, rfl⟩ := e
        refine ⟨⟨⟨[], by simp⟩, hc, hv, fun _ => rfl⟩, ?_⟩
        intro ha
        simp [aliasFree, hm] at ha
      | deep =>
        rw [hm] at e
        simp only [] at e
        cases hcell : h[p]? with
        | none => rw [hcell] at e; cases e
        | some c =>
          rw [hcell] at e
          simp only [if_true] at e
          cases e1 : copyItems (fun k => copyAt n allDeep (path ++ [k])) c.pathKeys h c.items with
          | none => rw [e1] at e; cases e
          | some r1 =>
            obtain ⟨h1, items'⟩ := r1
            rw [e1] at e
            simp only [Option.some.injEq, Prod.mk.injEq] at e
            obtain ⟨rfl, rfl⟩ := e
            obtain ⟨ok, fr⟩ := main allDeep c h1 items' hcell e1
            refine ⟨ok, fun _ => fr ?_⟩
            exact allItems_congr (g := fun _ _ => true) _ _ (fun k x _ => aliasFree_allDeep n _ h x) ▸ (by
              clear e1 ok fr
              generalize c.pathKeys = ks
              induction c.items generalizing ks with
              | nil => rfl
              | cons _ _ ih2 => simp [allItems, ih2])
      | rebuild =>
        rw [hm] at e
        simp only [] at e
        cases hcell : h[p]? with
        | none => rw [hcell] at e; cases e
        | some c =>
          rw [hcell] at e
          simp only [reduceCtorEq, if_false] at e
          cases e1 : copyItems (fun k => copyAt n tbl (path ++ [k])) c.pathKeys h c.items with
          | none => rw [e1] at e; cases e
          | some r1 =>
            obtain ⟨h1, items'⟩ := r1
            rw [e1] at e
            simp only [Option.some.injEq, Prod.mk.injEq] at e
            obtain ⟨rfl, rfl⟩ := e
            obtain ⟨ok, fr⟩ := main tbl c h1 items' hcell e1
            refine ⟨ok, fun ha => fr ?_⟩
            simpa [aliasFree, hm, hcell] using ha

/-! ### tables -/

theorem Table.find_mem : ∀ (t : Table) (path : Path) (e : Entry), t.find path = some e → e ∈ t ∧ e.path = path := by
  intro t
  induction t with
  | nil => intro path e h; cases h
  | cons a r ih =>
    intro path e h
    simp only [Table.find] at h
    split at h
    · cases h
      exact ⟨List.mem_cons_self, by assumption⟩
    · obtain ⟨h1, h2⟩ := ih path e h
      exact ⟨List.mem_cons_of_mem _ h1, h2⟩

/-- a table whose entries are all safe is safe at every path (a path without entry is an assigned atom) -/
theorem Table.safe_at (t : Table) (hs : t.safe = true) (path : Path) :
    match t.ty path with
    | .atomic => True
    | .cell => t.mode path ≠ .alias
    | .any => t.mode path = .deep := by
  unfold Table.ty Table.mode
  cases hf : t.find path with
  | none => simp
  | some e =>
    have he : e.safe = true := by
      have := (Table.find_mem t path e hf).1
      exact (List.all_eq_true.mp hs) e this
    simp only [Option.map_some, Option.getD_some]
    unfold Entry.safe at he
    cases hty : e.ty with
    | atomic => trivial
    | cell => rw [hty] at he; simpa using he
    | any => rw [hty] at he; simpa using he

/-! ### well-formedness of a concrete heap, by evaluation -/

def inbB (h : Heap) : Val → Bool
  | .atom _ => true
  | .ref p => decide (p < h.length)

def closedB (h : Heap) : Bool := h.all fun c => c.items.all (inbB h)

theorem closed_of_closedB {h : Heap} (hb : closedB h = true) : Closed h := by
  intro p c hp v hv
  have hc : c ∈ h := List.mem_of_getElem? hp
  have h1 := (List.all_eq_true.mp hb) c hc
  have h2 := (List.all_eq_true.mp h1) v hv
  cases v with
  | atom a => trivial
  | ref q => simpa [inbB, InB] using h2

/-- the copy and its source after a copy by a table that hands no cell over -/
theorem copy_disjoint {n : Nat} {tbl : Path → Mode} {path : Path} {h h' : Heap} {v v' : Val}
    (hc : Closed h) (hv : InB h v) (e : copyAt n tbl path h v = some (h', v'))
    (ha : aliasFree n tbl path h v = true) :
    Disjoint h' v' v ∧ (∀ k, denote h' k v' = denote h k v) ∧ (∀ k, denote h' k v = denote h k v) ∧
      Bounded h' v ∧ Bounded h' v' := by
  obtain ⟨ok, fr⟩ := copyAt_spec n tbl path h v h' v' hc hv e
  obtain ⟨x, hx⟩ := ok.ext
  have hb : Bounded h v := bounded_of_closed hc hv
  refine ⟨?_, ok.same, ?_, ?_, bounded_of_closed ok.closed ok.inb⟩
  · intro q r1 r2
    have h1 : h.length ≤ q := fr ha q r1
    rw [hx] at r2
    have h2 : q < h.length := hb q (reach_of_append r2 hb)
    exact absurd h2 (Nat.not_lt.mpr h1)
  · intro k
    rw [hx]
    exact denote_append h x k v hb
  · rw [hx]
    exact bounded_append x hb

/-- reachability of a concrete heap, by evaluation (sound; used for witnesses only) -/
def reachB (h : Heap) : Nat → Val → Addr → Bool
  | _, .atom _, _ => false
  | 0, .ref p, q => decide (p = q)
  | n + 1, .ref p, q =>
    decide (p = q) ||
      match h[p]? with
      | none => false
      | some c => c.items.any fun v => reachB h n v q

theorem reach_of_reachB {h : Heap} : ∀ (n : Nat) (v : Val) (q : Addr), reachB h n v q = true → Reach h v q := by
  intro n
  induction n with
  | zero =>
    intro v q hr
    cases v with
    | atom a => simp [reachB] at hr
    | ref p =>
      simp only [reachB, decide_eq_true_eq] at hr
      subst hr
      exact Reach.here p
  | succ n ih =>
    intro v q hr
    cases v with
    | atom a => simp [reachB] at hr
    | ref p =>
      simp only [reachB, Bool.or_eq_true, decide_eq_true_eq] at hr
      rcases hr with rfl | hr
      · exact Reach.here p
      · cases hc : h[p]? with
        | none => rw [hc] at hr; cases hr
        | some c =>
          rw [hc] at hr
          simp only [List.any_eq_true] at hr
          obtain ⟨x, hx, hxr⟩ := hr
          exact Reach.step hc hx (ih x q hxr)

end Cells
end DefconModel
