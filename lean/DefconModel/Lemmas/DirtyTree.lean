/-
Helper lemmas about M-DirtyTree: chains in a well-formed tree, tree edits, and the chain invariant of M-Dirty
(`Lemmas/Dirty.lean`) along every step of the tree model.
-/
import DefconModel.Spec.DirtyTree
import DefconModel.Lemmas.Dirty

namespace DefconModel
namespace DirtyTree
open Dirty

/-! ### chains -/

theorem upFuel_succ (t : Tree) (hw : WF t) : ∀ f x, x ≤ f → upFuel t (f + 1) x = upFuel t f x := by
  intro f
  induction f with
  | zero =>
    intro x hx
    have hx0 : x = 0 := by omega
    subst hx0
    unfold upFuel
    cases hp : parentOf t 0 with
    | none => simp
    | some p => have := hw 0 p hp; omega
  | succ f ih =>
    intro x hx
    rw [upFuel]
    conv => rhs; rw [upFuel]
    cases hp : parentOf t x with
    | none => rfl
    | some p =>
      have := hw x p hp
      simp only
      rw [ih p (by omega)]

theorem upFuel_eq (t : Tree) (hw : WF t) : ∀ f x, x ≤ f → upFuel t f x = up t x := by
  intro f
  induction f with
  | zero => intro x hx; have : x = 0 := by omega
            subst this; rfl
  | succ f ih =>
    intro x hx
    by_cases h : x = f + 1
    · subst h; rfl
    · rw [upFuel_succ t hw f x (by omega)]; exact ih x (by omega)

theorem up_unfold (t : Tree) (hw : WF t) (x : Nat) :
    up t x = match parentOf t x with
      | some p => p :: up t p
      | none => [] := by
  cases x with
  | zero =>
    cases hp : parentOf t 0 with
    | none => rfl
    | some p => have := hw 0 p hp; omega
  | succ n =>
    show upFuel t (n + 1) (n + 1) = _
    rw [upFuel]
    cases hp : parentOf t (n + 1) with
    | none => rfl
    | some p =>
      have := hw (n + 1) p hp
      simp only
      rw [upFuel_eq t hw n p (by omega)]

theorem mem_up_lt (t : Tree) (hw : WF t) : ∀ x y, y ∈ up t x → y < x := by
  intro x
  induction x using Nat.strongRecOn with
  | _ x ih =>
    intro y hy
    rw [up_unfold t hw x] at hy
    cases hp : parentOf t x with
    | none => simp [hp] at hy
    | some p =>
      have hpx := hw x p hp
      simp only [hp, List.mem_cons] at hy
      rcases hy with rfl | hy
      · exact hpx
      · have := ih p hpx y hy; omega

/-- a node of a chain splits it: below it a part that does not contain it, from it upwards its own chain -/
theorem path_split (t : Tree) (hw : WF t) : ∀ x y, y ∈ path t x → ∃ pre, path t x = pre ++ path t y ∧ y ∉ pre := by
  intro x
  induction x using Nat.strongRecOn with
  | _ x ih =>
    intro y hy
    unfold path at hy
    simp only [List.mem_cons] at hy
    rcases hy with rfl | hy
    · exact ⟨[], rfl, by simp⟩
    · have hlt := mem_up_lt t hw x y hy
      rw [up_unfold t hw x] at hy
      cases hp : parentOf t x with
      | none => simp [hp] at hy
      | some p =>
        have hpx := hw x p hp
        simp only [hp] at hy
        obtain ⟨pre, h1, h2⟩ := ih p hpx y (by unfold path; exact hy)
        refine ⟨x :: pre, ?_, ?_⟩
        · show x :: up t x = x :: pre ++ path t y
          rw [up_unfold t hw x, hp]
          simp only [List.cons_append, List.cons.injEq, true_and]
          exact h1
        · simp only [List.mem_cons, not_or]
          exact ⟨by omega, h2⟩

theorem upFuel_congr (t t' : Tree) (hw : WF t) : ∀ f x, (∀ z, z ≤ x → parentOf t' z = parentOf t z) →
    upFuel t' f x = upFuel t f x := by
  intro f
  induction f with
  | zero => intro x _; rfl
  | succ f ih =>
    intro x h
    rw [upFuel, upFuel, h x (Nat.le_refl x)]
    cases hp : parentOf t x with
    | none => rfl
    | some p =>
      have := hw x p hp
      simp only
      rw [ih p (fun z hz => h z (by omega))]

/-- a tree that agrees with `t` on the parents of the nodes up to `x` has the same chain above `x` -/
theorem up_congr (t t' : Tree) (hw : WF t) (x : Nat) (h : ∀ z, z ≤ x → parentOf t' z = parentOf t z) : up t' x = up t x :=
  upFuel_congr t t' hw x x h

/-! ### tree edits -/

theorem parentOf_addNode_lt (t : Tree) (k : Kind) (p x : Nat) (hx : x < t.length) :
    parentOf (addNode t k p) x = parentOf t x := by
  unfold parentOf addNode
  rw [List.getElem?_append_left hx]

theorem parentOf_addNode_new (t : Tree) (k : Kind) (p : Nat) : parentOf (addNode t k p) t.length = some p := by
  unfold parentOf addNode
  simp

theorem parentOf_ge (t : Tree) (x : Nat) (hx : t.length ≤ x) : parentOf t x = none := by
  unfold parentOf
  rw [List.getElem?_eq_none hx]

theorem length_addNode (t : Tree) (k : Kind) (p : Nat) : (addNode t k p).length = t.length + 1 := by
  unfold addNode; simp

theorem wf_addNode (t : Tree) (k : Kind) (p : Nat) (hw : WF t) (hp : p < t.length) : WF (addNode t k p) := by
  intro x q hq
  by_cases h1 : x < t.length
  · rw [parentOf_addNode_lt t k p x h1] at hq; exact hw x q hq
  · by_cases h2 : x = t.length
    · subst h2; rw [parentOf_addNode_new] at hq
      cases hq; exact hp
    · rw [parentOf_ge _ x (by rw [length_addNode]; omega)] at hq
      cases hq

theorem length_markGone (t : Tree) (x : Nat) : (markGone t x).length = t.length := by
  unfold markGone
  split <;> simp

theorem parentOf_markGone (t : Tree) (x y : Nat) : parentOf (markGone t x) y = parentOf t y := by
  unfold markGone
  cases hx : t[x]? with
  | none => rfl
  | some n =>
    simp only
    unfold parentOf
    by_cases hxy : x = y
    · subst hxy
      have hlt : x < t.length := by
        rcases Nat.lt_or_ge x t.length with h | h
        · exact h
        · rw [List.getElem?_eq_none h] at hx; cases hx
      rw [List.getElem?_set_self hlt, hx]
    · rw [List.getElem?_set_ne hxy]

theorem wf_markGone (t : Tree) (x : Nat) (hw : WF t) : WF (markGone t x) := by
  intro y q hq
  rw [parentOf_markGone] at hq
  exact hw y q hq

theorem foldl_markGone (t : Tree) (xs : List Nat) :
    (xs.foldl markGone t).length = t.length ∧ ∀ y, parentOf (xs.foldl markGone t) y = parentOf t y := by
  induction xs generalizing t with
  | nil => exact ⟨rfl, fun _ => rfl⟩
  | cons a r ih =>
    simp only [List.foldl_cons]
    obtain ⟨h1, h2⟩ := ih (markGone t a)
    exact ⟨by rw [h1, length_markGone], fun y => by rw [h2 y, parentOf_markGone]⟩

theorem wf_of_wfb (t : Tree) (h : wfb t = true) : WF t := by
  intro x p hp
  by_cases hx : x < t.length
  · unfold wfb at h
    have := (List.all_eq_true.mp h) x (List.mem_range.mpr hx)
    rw [hp] at this
    simpa using this
  · rw [parentOf_ge t x (by omega)] at hp
    cases hp

/-! ### the M-Dirty state along the steps of the tree model -/

/-- same tree, and an M-Dirty state that has only grown (same holds, same disabled set) -/
structure Grows (a b : TState) : Prop where
  tree : b.tree = a.tree
  le : Le a.s b.s
  unwired : b.unwired = a.unwired

theorem Grows.refl (a : TState) : Grows a a := ⟨rfl, Le.refl _, rfl⟩

theorem Grows.trans {a b c : TState} (h1 : Grows a b) (h2 : Grows b c) : Grows a c :=
  ⟨h2.tree.trans h1.tree, h1.le.trans h2.le, h2.unwired.trans h1.unwired⟩

theorem grows_touchT (ts : TState) (x : Nat) : Grows ts (touchT ts x) :=
  ⟨rfl, le_touch _ _ _, rfl⟩

theorem grows_foldl {α : Type} (f : TState → α → TState) (hf : ∀ ts a, Grows ts (f ts a)) (l : List α) (ts : TState) :
    Grows ts (l.foldl f ts) := by
  induction l generalizing ts with
  | nil => exact Grows.refl ts
  | cons a r ih => simp only [List.foldl_cons]; exact (hf ts a).trans (ih _)

theorem grows_relayTo (ts : TState) (ns : List Nat) (tgt : Nat) : Grows ts (relayTo ts ns tgt) := by
  induction ns generalizing ts with
  | nil => exact grows_touchT ts tgt
  | cons n r ih =>
    unfold relayTo
    split
    · exact ⟨rfl, Le.refl _, rfl⟩
    · split
      · exact Grows.refl ts
      · exact ih ts

theorem grows_repost (ts : TState) (d : Deferred) : Grows ts (repost ts d) := grows_relayTo ts d.rest d.target

/-- touching `tg` (in the tree of the state) establishes the chain invariant on its chain -/
theorem inv_touchT (ts : TState) (tg : Nat) (hdis : ∀ a ∈ path ts.tree tg, a ∉ ts.s.disabled) :
    Inv (touchT ts tg).s (path ts.tree tg) :=
  touch_inv ts.s tg (up ts.tree tg) hdis

theorem inv_grows {a b : TState} (h : Grows a b) (c : List Nat) (hi : Inv a.s c) : Inv b.s c := inv_le h.le c hi

/-- a run of touches that contains `tg` leaves the invariant on the chain of `tg` -/
theorem inv_foldl_touchT (l : List Nat) (ts : TState) (tg : Nat) (htg : tg ∈ l)
    (hdis : ∀ a ∈ path ts.tree tg, a ∉ ts.s.disabled) : Inv (l.foldl touchT ts).s (path ts.tree tg) := by
  induction l generalizing ts with
  | nil => simp at htg
  | cons a r ih =>
    simp only [List.foldl_cons]
    by_cases h : tg = a
    · subst h
      exact inv_grows (grows_foldl touchT grows_touchT r _) _ (inv_touchT ts tg hdis)
    · have hr : tg ∈ r := by
        simp only [List.mem_cons] at htg
        rcases htg with e | e
        · exact absurd e h
        · exact e
      have := ih (touchT ts a) hr (by
        intro x hx
        show x ∉ (touch ts.s a (up ts.tree a)).disabled
        rw [(le_touch ts.s a (up ts.tree a)).disabled]; exact hdis x hx)
      exact this

/-! ### tree effects: the flags of new objects are set, no existing node changes its parent -/

/-- what a tree effect may do: the tree gets longer or keeps its length, old nodes keep their parents, the tree stays
well formed, the M-Dirty state only grows -/
structure Extends (recv : Nat) (a b : TState) : Prop where
  len : a.tree.length ≤ b.tree.length
  parents : ∀ z, z < a.tree.length → parentOf b.tree z = parentOf a.tree z
  wf : WF a.tree → recv < a.tree.length → WF b.tree
  le : Le a.s b.s
  deferred : b.deferred = a.deferred
  hits : b.hits = a.hits
  /-- only new objects can be layers the font does not listen to yet -/
  unwired : ∀ n, n ∈ b.unwired → n ∈ a.unwired ∨ a.tree.length ≤ n

theorem Extends.refl (recv : Nat) (a : TState) : Extends recv a a :=
  ⟨Nat.le_refl _, fun _ _ => rfl, fun h _ => h, Le.refl _, rfl, rfl, fun _ h => Or.inl h⟩

theorem Extends.trans {recv : Nat} {a b c : TState} (h1 : Extends recv a b) (h2 : Extends recv b c)
    (hw : WF a.tree) (hr : recv < a.tree.length) : Extends recv a c :=
  ⟨Nat.le_trans h1.len h2.len,
   fun z hz => by rw [h2.parents z (Nat.lt_of_lt_of_le hz h1.len), h1.parents z hz],
   fun _ _ => h2.wf (h1.wf hw hr) (Nat.lt_of_lt_of_le hr h1.len),
   h1.le.trans h2.le, h2.deferred.trans h1.deferred, h2.hits.trans h1.hits,
   fun n hn => by
     rcases h2.unwired n hn with h | h
     · exact h1.unwired n h
     · exact Or.inr (Nat.le_trans h1.len h)⟩

theorem le_flagIf (s : Dirty.State) (d : Bool) (x : Nat) : Le s (flagIf s d x) := by
  unfold flagIf
  split
  · exact le_setFlag s x
  · exact Le.refl s

/-- new objects under an existing parent `p` -/
theorem extends_addSubs (recv p : Nat) (sub : List (Kind × Bool)) (ts : TState) (hp : p < ts.tree.length) :
    Extends recv ts (addSubs ts p sub) ∧ (WF ts.tree → WF (addSubs ts p sub).tree) := by
  induction sub generalizing ts with
  | nil => exact ⟨Extends.refl recv ts, fun h => h⟩
  | cons kd r ih =>
    obtain ⟨k, d⟩ := kd
    unfold addSubs
    have hlen1 : (addNode ts.tree k p).length = ts.tree.length + 1 := length_addNode _ _ _
    obtain ⟨h1, h2⟩ := ih { ts with tree := addNode ts.tree k p, s := flagIf ts.s d ts.tree.length } (by
      show p < (addNode ts.tree k p).length
      rw [hlen1]; omega)
    have hl : ts.tree.length + 1 ≤ _ := hlen1 ▸ h1.len
    refine ⟨⟨Nat.le_trans (Nat.le_succ _) hl, ?_, ?_, ?_, ?_, ?_, ?_⟩, ?_⟩
    · intro z hz
      rw [h1.parents z (by show z < (addNode ts.tree k p).length; rw [hlen1]; omega)]
      exact parentOf_addNode_lt ts.tree k p z hz
    · intro hw _; exact h2 (wf_addNode ts.tree k p hw hp)
    · exact (le_flagIf ts.s d _).trans h1.le
    · exact h1.deferred
    · exact h1.hits
    · intro n hn
      rcases h1.unwired n hn with h | h
      · exact Or.inl h
      · exact Or.inr (by
          have : (addNode ts.tree k p).length ≤ n := h
          rw [hlen1] at this; omega)
    · intro hw; exact h2 (wf_addNode ts.tree k p hw hp)

theorem extends_addChild (ts : TState) (recv : Nat) (r : Kind) (d : Bool) (sub : List (Kind × Bool)) :
    Extends recv ts (addChild ts recv r d sub) := by
  unfold addChild
  simp only
  have hlen1 : (addNode ts.tree r recv).length = ts.tree.length + 1 := length_addNode _ _ _
  obtain ⟨h1, h2⟩ := extends_addSubs recv ts.tree.length sub
    { ts with tree := addNode ts.tree r recv, s := flagIf ts.s d ts.tree.length,
              unwired := if (r = .layer && held ts.s recv) = true then ts.unwired ++ [ts.tree.length] else ts.unwired } (by
      show ts.tree.length < (addNode ts.tree r recv).length
      rw [hlen1]; omega)
  have hl : ts.tree.length + 1 ≤ _ := hlen1 ▸ h1.len
  refine ⟨Nat.le_trans (Nat.le_succ _) hl, ?_, ?_, ?_, ?_, ?_, ?_⟩
  · intro z hz
    rw [h1.parents z (by show z < (addNode ts.tree r recv).length; rw [hlen1]; omega)]
    exact parentOf_addNode_lt ts.tree r recv z hz
  · intro hw hr; exact h2 (wf_addNode ts.tree r recv hw hr)
  · exact (le_flagIf ts.s d _).trans h1.le
  · exact h1.deferred
  · exact h1.hits
  · intro n hn
    rcases h1.unwired n hn with h | h
    · have h' : n ∈ (if (r = .layer && held ts.s recv) = true then ts.unwired ++ [ts.tree.length] else ts.unwired) := h
      split at h'
      · simp only [List.mem_append, List.mem_singleton] at h'
        rcases h' with h' | h'
        · exact Or.inl h'
        · exact Or.inr (by omega)
      · exact Or.inl h'
    · exact Or.inr (by
        have : (addNode ts.tree r recv).length ≤ n := h
        rw [hlen1] at this; omega)

theorem extends_applyEff (recv : Nat) (ts : TState) (eff : Eff) : Extends recv ts (applyEff recv ts eff) := by
  cases eff with
  | add r d sub => exact extends_addChild ts recv r d sub
  | addIfNone r d =>
    simp only [applyEff]
    split
    · exact extends_addChild ts recv r d []
    · exact Extends.refl recv ts
  | removeNewest r =>
    simp only [applyEff]
    split
    · rename_i c _
      exact ⟨by simp [length_markGone], fun z _ => parentOf_markGone _ _ _, fun hw _ => wf_markGone _ _ hw, Le.refl _, rfl, rfl,
        fun _ h => Or.inl h⟩
    · exact Extends.refl recv ts
  | removeAll r =>
    simp only [applyEff]
    obtain ⟨h1, h2⟩ := foldl_markGone ts.tree (children ts.tree recv r)
    refine ⟨by simp [h1], fun z _ => h2 z, ?_, Le.refl _, rfl, rfl, fun _ h => Or.inl h⟩
    intro hw _ x p hp
    rw [h2 x] at hp
    exact hw x p hp

theorem extends_effs (recv : Nat) (effs : List Eff) (ts : TState) (hw : WF ts.tree) (hr : recv < ts.tree.length) :
    Extends recv ts (effs.foldl (applyEff recv) ts) := by
  induction effs generalizing ts with
  | nil => exact Extends.refl recv ts
  | cons e r ih =>
    simp only [List.foldl_cons]
    have h1 := extends_applyEff recv ts e
    exact h1.trans (ih _ (h1.wf hw hr) (Nat.lt_of_lt_of_le hr h1.len)) hw hr

/-- the chain of an existing node is the same before and after the tree effects -/
theorem path_extends {recv : Nat} {a b : TState} (h : Extends recv a b) (hw : WF a.tree) (x : Nat) (hx : x < a.tree.length) :
    path b.tree x = path a.tree x := by
  unfold path
  rw [up_congr a.tree b.tree hw x (fun z hz => h.parents z (by omega))]

theorem mem_children_lt (t : Tree) (x : Nat) (r : Kind) (j : Nat) (h : j ∈ children t x r) : j < t.length := by
  unfold children at h
  exact List.mem_range.mp (List.mem_filter.mp h).1

theorem directTargets_lt (t : Tree) (recv : Nat) (e : Entry) (hr : recv < t.length) (tg : Nat)
    (h : tg ∈ directTargets t recv e) : tg < t.length := by
  unfold directTargets at h
  simp only [List.mem_flatMap] at h
  obtain ⟨tgt, _, h2⟩ := h
  cases tgt with
  | self => simp only [targetNodes, List.mem_singleton] at h2; omega
  | child r => exact mem_children_lt t recv r tg h2

/-! ### an effective call -/

/-- the state after the tree effects and the touches of the direct targets, before the relayed effect is posted -/
def afterTouches (ts : TState) (recv : Nat) (e : Entry) : TState :=
  (directTargets ts.tree recv e).foldl touchT (e.effs.foldl (applyEff recv) ts)

theorem applyEffective_grows (ts : TState) (recv : Nat) (e : Entry) :
    Grows (afterTouches ts recv e) (applyEffective ts recv e) := by
  unfold applyEffective afterTouches
  simp only
  cases relayNodes ts.tree recv e.relay with
  | none => exact Grows.refl _
  | some ns => exact grows_foldl _ (fun a l => grows_relayTo a ns l) _ _

theorem applyEffective_tree (ts : TState) (recv : Nat) (e : Entry) :
    (applyEffective ts recv e).tree = (e.effs.foldl (applyEff recv) ts).tree := by
  rw [(applyEffective_grows ts recv e).tree]
  unfold afterTouches
  exact (grows_foldl touchT grows_touchT _ _).tree

theorem applyEffective_disabled (ts : TState) (recv : Nat) (e : Entry) (hw : WF ts.tree) (hr : recv < ts.tree.length) :
    (applyEffective ts recv e).s.disabled = ts.s.disabled := by
  rw [(applyEffective_grows ts recv e).le.disabled]
  unfold afterTouches
  rw [(grows_foldl touchT grows_touchT _ _).le.disabled]
  exact (extends_effs recv e.effs ts hw hr).le.disabled

/-- after an effective call the chain invariant holds on the chain of every direct target -/
theorem inv_applyEffective (ts : TState) (recv : Nat) (e : Entry) (hw : WF ts.tree) (hr : recv < ts.tree.length)
    (tg : Nat) (htg : tg ∈ directTargets ts.tree recv e) (hdis : ∀ a ∈ path ts.tree tg, a ∉ ts.s.disabled) :
    Inv (applyEffective ts recv e).s (path ts.tree tg) := by
  have hext := extends_effs recv e.effs ts hw hr
  have hpath := path_extends hext hw tg (directTargets_lt ts.tree recv e hr tg htg)
  apply inv_grows (applyEffective_grows ts recv e)
  unfold afterTouches
  rw [← hpath]
  apply inv_foldl_touchT _ _ tg htg
  intro a ha
  rw [hext.le.disabled]
  rw [hpath] at ha
  exact hdis a ha

theorem wf_applyEffective (ts : TState) (recv : Nat) (e : Entry) (hw : WF ts.tree) (hr : recv < ts.tree.length) :
    WF (applyEffective ts recv e).tree := by
  rw [applyEffective_tree]
  exact (extends_effs recv e.effs ts hw hr).wf hw hr

theorem path_applyEffective (ts : TState) (recv : Nat) (e : Entry) (hw : WF ts.tree) (hr : recv < ts.tree.length)
    (x : Nat) (hx : x < ts.tree.length) : path (applyEffective ts recv e).tree x = path ts.tree x := by
  unfold path
  rw [applyEffective_tree]
  have := path_extends (extends_effs recv e.effs ts hw hr) hw x hx
  unfold path at this
  exact this

/-! ### releases -/

theorem releaseT_tree (ts : TState) (x : Nat) : (releaseT ts x).tree = ts.tree := by
  unfold releaseT
  simp only
  split
  · exact (grows_foldl repost grows_repost _ _).tree
  · rfl

theorem releaseT_disabled (ts : TState) (x : Nat) : (releaseT ts x).s.disabled = ts.s.disabled := by
  unfold releaseT
  simp only
  split
  · rw [(grows_foldl repost grows_repost _ _).le.disabled]
    exact release_disabled _ _ _
  · exact release_disabled _ _ _

/-- a release (of a hold on the chain or anywhere else) keeps the chain invariant, in a well-formed tree -/
theorem inv_releaseT (ts : TState) (hw : WF ts.tree) (tg x : Nat)
    (hdis : ∀ a ∈ path ts.tree tg, a ∉ ts.s.disabled) (hi : Inv ts.s (path ts.tree tg)) :
    Inv (releaseT ts x).s (path ts.tree tg) := by
  have h1 : Inv (release ts.s x (up ts.tree x)) (path ts.tree tg) := by
    apply release_inv ts.s (path ts.tree tg) x (up ts.tree x) _ hdis hi
    intro hx
    exact path_split ts.tree hw tg x hx
  unfold releaseT
  simp only
  split
  · exact inv_grows (grows_foldl repost grows_repost _ _) _ h1
  · exact h1

theorem inv_releaseAllT (ys : List Nat) (ts : TState) (hw : WF ts.tree) (tg : Nat)
    (hdis : ∀ a ∈ path ts.tree tg, a ∉ ts.s.disabled) (hi : Inv ts.s (path ts.tree tg)) :
    Inv (releaseAllT ts ys).s (path ts.tree tg) := by
  unfold releaseAllT
  induction ys generalizing ts with
  | nil => exact hi
  | cons y r ih =>
    simp only [List.foldl_cons]
    have ht := releaseT_tree ts y
    have := ih (releaseT ts y) (by rw [ht]; exact hw) (by rw [ht, releaseT_disabled]; exact hdis)
      (by rw [ht]; exact inv_releaseT ts hw tg y hdis hi)
    rw [ht] at this
    exact this

/-! ### the relayed effect (glyph-order update of `font.lib`) -/

/-- `Grows`, and no waiting notification is lost -/
structure GrowsD (a b : TState) : Prop where
  grows : Grows a b
  deferred : ∀ d, d ∈ a.deferred → d ∈ b.deferred

theorem GrowsD.refl (a : TState) : GrowsD a a := ⟨Grows.refl a, fun _ h => h⟩

theorem GrowsD.trans {a b c : TState} (h1 : GrowsD a b) (h2 : GrowsD b c) : GrowsD a c :=
  ⟨h1.grows.trans h2.grows, fun d h => h2.deferred d (h1.deferred d h)⟩

theorem growsD_touchT (ts : TState) (x : Nat) : GrowsD ts (touchT ts x) := ⟨grows_touchT ts x, fun _ h => h⟩

theorem growsD_relayTo (ts : TState) (ns : List Nat) (tgt : Nat) : GrowsD ts (relayTo ts ns tgt) := by
  induction ns generalizing ts with
  | nil => exact growsD_touchT ts tgt
  | cons n r ih =>
    unfold relayTo
    split
    · exact ⟨⟨rfl, Le.refl _, rfl⟩, fun d h => by simp [h]⟩
    · split
      · exact GrowsD.refl ts
      · exact ih ts

theorem growsD_repost (ts : TState) (d : Deferred) : GrowsD ts (repost ts d) := growsD_relayTo ts d.rest d.target

theorem growsD_foldl {α : Type} (f : TState → α → TState) (hf : ∀ ts a, GrowsD ts (f ts a)) (l : List α) (ts : TState) :
    GrowsD ts (l.foldl f ts) := by
  induction l generalizing ts with
  | nil => exact GrowsD.refl ts
  | cons a r ih => simp only [List.foldl_cons]; exact (hf ts a).trans (ih _)

/-- the relayed write of `tgt` has happened (the chain invariant holds on `c`, the chain of `tgt`), or the notification
that will cause it waits in the hold of a poster that is still held -/
def Arrives (ts : TState) (c : List Nat) (tgt : Nat) : Prop :=
  Inv ts.s c ∨ ∃ d, d ∈ ts.deferred ∧ d.target = tgt ∧ held ts.s d.holder = true ∧ ∀ n ∈ d.rest, n ∉ ts.unwired

theorem arrives_growsD {a b : TState} (h : GrowsD a b) (c : List Nat) (tgt : Nat) (ha : Arrives a c tgt) : Arrives b c tgt := by
  rcases ha with hi | ⟨d, hd, ht, hh, hu⟩
  · exact Or.inl (inv_grows h.grows c hi)
  · exact Or.inr ⟨d, h.deferred d hd, ht, by rw [held_le h.grows.le]; exact hh, by rw [h.grows.unwired]; exact hu⟩

/-- posted along posters the font listens to, the relayed write happens or waits at a held poster -/
theorem arrives_relayTo (ts : TState) (ns : List Nat) (tgt : Nat) (hdis : ∀ a ∈ path ts.tree tgt, a ∉ ts.s.disabled)
    (huw : ∀ n ∈ ns, n ∉ ts.unwired) : Arrives (relayTo ts ns tgt) (path ts.tree tgt) tgt := by
  induction ns generalizing ts with
  | nil => exact Or.inl (inv_touchT ts tgt hdis)
  | cons n r ih =>
    unfold relayTo
    split
    · rename_i hh
      exact Or.inr ⟨⟨n, r, tgt⟩, by simp, rfl, hh, fun m hm => huw m (by simp [hm])⟩
    · split
      · rename_i hn; exact absurd hn (huw n (by simp))
      · exact ih ts hdis (fun m hm => huw m (by simp [hm]))

/-- a run of re-posts that contains `d` makes the effect of `d` arrive -/
theorem arrives_foldl_repost (l : List Deferred) (ts : TState) (d : Deferred) (hd : d ∈ l)
    (hdis : ∀ a ∈ path ts.tree d.target, a ∉ ts.s.disabled) (huw : ∀ n ∈ d.rest, n ∉ ts.unwired) :
    Arrives (l.foldl repost ts) (path ts.tree d.target) d.target := by
  induction l generalizing ts with
  | nil => simp at hd
  | cons a r ih =>
    simp only [List.foldl_cons]
    by_cases h : d = a
    · subst h
      exact arrives_growsD (growsD_foldl repost growsD_repost r _) _ _ (arrives_relayTo ts d.rest d.target hdis huw)
    · have hr : d ∈ r := by
        simp only [List.mem_cons] at hd
        rcases hd with e | e
        · exact absurd e h
        · exact e
      have hg := grows_repost ts a
      have := ih (repost ts a) hr (by
        intro x hx
        rw [hg.tree] at hx
        rw [hg.le.disabled]; exact hdis x hx) (by rw [hg.unwired]; exact huw)
      rw [hg.tree] at this
      exact this

theorem held_release_ne (s : Dirty.State) (x : Nat) (rest : List Nat) (a : Nat) (h : a ≠ x) :
    held (release s x rest) a = held s a := by
  unfold release
  cases hg : AL.get? s.holds x with
  | none => rfl
  | some n =>
    simp only
    have hcb : AL.contains s.holds x = true := (AL.contains_iff_get? _ _).mpr ⟨n, hg⟩
    split
    · split
      · unfold held
        rw [(le_announce _ _).holds]
        exact held_erase_ne s x a h
      · exact held_erase_ne s x a h
    · exact held_set s x (n - 1) a hcb

theorem held_release_notlast (s : Dirty.State) (x : Nat) (rest : List Nat) (h : isLastHold s x = false) (a : Nat) :
    held (release s x rest) a = held s a := by
  unfold release
  unfold isLastHold at h
  cases hg : AL.get? s.holds x with
  | none => rfl
  | some n =>
    rw [hg] at h
    simp only [decide_eq_false_iff_not] at h
    simp only [h, if_false]
    exact held_set s x (n - 1) a ((AL.contains_iff_get? _ _).mpr ⟨n, hg⟩)

theorem mem_filter_sub {α : Type} (p : α → Bool) (l : List α) (a : α) (h : a ∈ l.filter p) : a ∈ l :=
  (List.mem_filter.mp h).1

/-- a release keeps `Arrives`: what waited in the released hold is re-posted, the rest goes on waiting -/
theorem arrives_releaseT (ts : TState) (hw : WF ts.tree) (tgt x : Nat)
    (hdis : ∀ a ∈ path ts.tree tgt, a ∉ ts.s.disabled) (ha : Arrives ts (path ts.tree tgt) tgt) :
    Arrives (releaseT ts x) (path ts.tree tgt) tgt := by
  rcases ha with hi | ⟨d, hd, ht, hh, hu⟩
  · exact Or.inl (inv_releaseT ts hw tgt x hdis hi)
  · unfold releaseT
    simp only
    by_cases hl : isLastHold ts.s x = true
    · simp only [hl, if_true]
      -- the font listens to at least the layers it listened to before
      have hu' : ∀ n ∈ d.rest, n ∉ ts.unwired.filter (fun l => decide (parentOf ts.tree l ≠ some x)) :=
        fun n hn hmem => hu n hn (mem_filter_sub _ _ n hmem)
      by_cases hx : d.holder = x
      · -- the notification is re-posted now
        have hmine : d ∈ ts.deferred.filter (fun d => d.holder = x) := by
          simp only [List.mem_filter, decide_eq_true_eq]; exact ⟨hd, hx⟩
        have := arrives_foldl_repost (ts.deferred.filter (fun d => d.holder = x))
          { ts with s := release ts.s x (up ts.tree x), deferred := ts.deferred.filter (fun d => d.holder ≠ x),
                    unwired := ts.unwired.filter (fun l => decide (parentOf ts.tree l ≠ some x)) } d hmine (by
            intro a ha'
            show a ∉ (release ts.s x (up ts.tree x)).disabled
            rw [release_disabled]
            rw [ht] at ha'
            exact hdis a ha') hu'
        rw [ht] at this
        exact this
      · -- it waits elsewhere
        apply arrives_growsD (growsD_foldl repost growsD_repost _ _)
        refine Or.inr ⟨d, ?_, ht, ?_, hu'⟩
        · show d ∈ ts.deferred.filter (fun d => d.holder ≠ x)
          simp only [List.mem_filter, ne_eq, decide_not, Bool.not_eq_eq_eq_not, Bool.not_true, decide_eq_false_iff_not]
          exact ⟨hd, hx⟩
        · show held (release ts.s x (up ts.tree x)) d.holder = true
          rw [held_release_ne _ _ _ _ hx]; exact hh
    · have hl' : isLastHold ts.s x = false := by
        cases h : isLastHold ts.s x
        · rfl
        · exact absurd h hl
      simp only [hl', Bool.false_eq_true, if_false]
      refine Or.inr ⟨d, hd, ht, ?_, hu⟩
      show held (release ts.s x (up ts.tree x)) d.holder = true
      rw [held_release_notlast _ _ _ hl']; exact hh

theorem arrives_releaseAllT (ys : List Nat) (ts : TState) (hw : WF ts.tree) (tgt : Nat)
    (hdis : ∀ a ∈ path ts.tree tgt, a ∉ ts.s.disabled) (ha : Arrives ts (path ts.tree tgt) tgt) :
    Arrives (releaseAllT ts ys) (path ts.tree tgt) tgt := by
  unfold releaseAllT
  induction ys generalizing ts with
  | nil => exact ha
  | cons y r ih =>
    simp only [List.foldl_cons]
    have ht := releaseT_tree ts y
    have := ih (releaseT ts y) (by rw [ht]; exact hw) (by rw [ht, releaseT_disabled]; exact hdis)
      (by rw [ht]; exact arrives_releaseT ts hw tgt y hdis ha)
    rw [ht] at this
    exact this

/-- with no hold left, what was to arrive has arrived -/
theorem arrived_of_no_holds (ts : TState) (c : List Nat) (tgt : Nat) (hh : ts.s.holds = []) (ha : Arrives ts c tgt) :
    ∀ a ∈ c, a ∈ ts.s.dirty ∧ a ∈ ts.s.log := by
  rcases ha with hi | ⟨d, _, _, hd, _⟩
  · exact all_done_of_no_holds ts.s c hh hi
  · simp [held, AL.contains, hh] at hd

/-- after an effective call of an entry with a relay, the write of `font.lib` arrives -/
theorem relayNodes_lt (t : Tree) (hw : WF t) (recv : Nat) (hr : recv < t.length) (rel : Relay) (ns : List Nat)
    (hns : relayNodes t recv rel = some ns) : ∀ n ∈ ns, n < t.length := by
  intro n hn
  cases rel with
  | none => simp [relayNodes] at hns
  | viaSelf =>
    simp only [relayNodes, Option.some.injEq] at hns
    subst hns
    simp only [List.mem_singleton] at hn
    omega
  | viaSelfAndParent =>
    simp only [relayNodes, Option.some.injEq] at hns
    subst hns
    simp only [List.mem_cons] at hn
    rcases hn with rfl | hn
    · exact hr
    · cases hp : parentOf t recv with
      | none => simp [hp] at hn
      | some p =>
        simp only [hp, Option.toList_some, List.mem_singleton] at hn
        have := hw recv p hp
        omega

theorem arrives_applyEffective (ts : TState) (recv : Nat) (e : Entry) (hw : WF ts.tree) (hr : recv < ts.tree.length)
    (ns : List Nat) (hns : relayNodes ts.tree recv e.relay = some ns) (huw : ∀ n ∈ ns, n ∉ ts.unwired)
    (l : Nat) (hl : l ∈ fontLib ts.tree recv) (hdis : ∀ a ∈ path ts.tree l, a ∉ ts.s.disabled) :
    Arrives (applyEffective ts recv e) (path ts.tree l) l := by
  have hext := extends_effs recv e.effs ts hw hr
  have hlt : l < ts.tree.length := mem_children_lt _ _ _ _ hl
  have hpath := path_extends hext hw l hlt
  unfold applyEffective
  simp only [hns]
  -- the state before the relays are posted
  have hg := grows_foldl touchT grows_touchT (directTargets ts.tree recv e) (e.effs.foldl (applyEff recv) ts)
  -- the posters are old nodes: no tree effect makes the font deaf to them
  have huw' : ∀ n ∈ ns, n ∉ (e.effs.foldl (applyEff recv) ts).unwired := by
    intro n hn hmem
    rcases hext.unwired n hmem with h | h
    · exact huw n hn h
    · have := relayNodes_lt ts.tree hw recv hr e.relay ns hns n hn
      omega
  have key : ∀ (libs : List Nat) (st : TState), st.tree = (e.effs.foldl (applyEff recv) ts).tree →
      st.s.disabled = ts.s.disabled → (∀ n ∈ ns, n ∉ st.unwired) → l ∈ libs →
      Arrives (libs.foldl (fun a l => relayTo a ns l) st) (path ts.tree l) l := by
    intro libs
    induction libs with
    | nil => intro st _ _ _ h; simp at h
    | cons a r ih =>
      intro st htree hdisab hst hmem
      simp only [List.foldl_cons]
      by_cases h : l = a
      · subst h
        apply arrives_growsD (growsD_foldl _ (fun a l => growsD_relayTo a ns l) r _)
        have := arrives_relayTo st ns l (by
          intro x hx
          rw [htree, hpath] at hx
          rw [hdisab]; exact hdis x hx) hst
        rw [htree, hpath] at this
        exact this
      · have hr' : l ∈ r := by
          simp only [List.mem_cons] at hmem
          rcases hmem with e' | e'
          · exact absurd e' h
          · exact e'
        have hgr := grows_relayTo st ns a
        exact ih (relayTo st ns a) (by rw [hgr.tree]; exact htree) (by rw [hgr.le.disabled]; exact hdisab)
          (by rw [hgr.unwired]; exact hst) hr'
  exact key (fontLib ts.tree recv) _ hg.tree (by rw [hg.le.disabled]; exact hext.le.disabled)
    (by rw [hg.unwired]; exact huw') hl

end DirtyTree
end DefconModel
