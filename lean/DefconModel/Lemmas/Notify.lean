/-
Helper lemmas about M-Notify.  Property theorems live in Props/C04.lean.
-/
import DefconModel.Notify
import DefconModel.Spec.Notify

namespace DefconModel
namespace Notify

/-! ### runAll -/

theorem runAll_nil {α} (f : Center → α → Center × List Ev) (c : Center) : runAll f c [] = (c, []) := rfl

theorem runAll_cons {α} (f : Center → α → Center × List Ev) (c : Center) (x : α) (xs : List α) :
    runAll f c (x :: xs) = ((runAll f (f c x).1 xs).1, (f c x).2 ++ (runAll f (f c x).1 xs).2) := rfl

/-- A state predicate preserved by every step is preserved by `runAll`. -/
theorem runAll_preserves {α} (P : Center → Prop) (f : Center → α → Center × List Ev)
    (hf : ∀ c x, P c → P (f c x).1) (c : Center) (xs : List α) (h : P c) : P (runAll f c xs).1 := by
  induction xs generalizing c with
  | nil => simpa [runAll]
  | cons x xs ih => rw [runAll_cons]; exact ih _ (hf c x h)

/-- A relation to the start state, reflexive/transitive along steps, carries through `runAll`. -/
theorem runAll_rel {α} (R : Center → Center → Prop) (hrefl : ∀ c, R c c)
    (htrans : ∀ a b c, R a b → R b c → R a c)
    (f : Center → α → Center × List Ev) (hf : ∀ c x, R c (f c x).1) (c : Center) (xs : List α) :
    R c (runAll f c xs).1 := by
  induction xs generalizing c with
  | nil => exact hrefl c
  | cons x xs ih => rw [runAll_cons]; exact htrans _ _ _ (hf c x) (ih _)

/-! ### regsAt facts under the invariant -/

theorem regsAt_nodup {c : Center} (h : Inv c) (k : RKey) : ((regsAt c k).map (·.observer)).Nodup := by
  unfold regsAt
  cases hg : AL.get? c.registry k with
  | none => simp
  | some regs => simpa using h.regObs _ (AL.mem_of_get? hg)

theorem hasReg_false_iff {c : Center} {k : RKey} {o : Obj} :
    hasReg c k o = false ↔ o ∉ (regsAt c k).map (·.observer) := by
  unfold hasReg
  simp [List.any_eq_false]

/-! ### Inv preservation, primitive by primitive -/

theorem inv_init : Inv {} := by
  constructor <;> simp [AL.keys]

theorem inv_add {c : Center} (h : Inv c) (o : Obj) (m : Meth) (k : RKey) (ident : Option String) :
    Inv (add c o m k ident).1 := by
  unfold add
  split
  · exact h
  · rename_i hno
    have hno' : hasReg c k o = false := by simpa using hno
    rw [hasReg_false_iff] at hno'
    refine { h with regKeys := ?_, regNonempty := ?_, regObs := ?_ }
    · exact AL.nodup_keys_set _ _ _ h.regKeys
    · intro kr hkr
      rcases AL.mem_set hkr with e | hm
      · subst e; simp
      · exact h.regNonempty _ hm
    · intro kr hkr
      rcases AL.mem_set hkr with e | hm
      · subst e
        simp only [List.map_append, List.map_cons, List.map_nil]
        rw [List.nodup_append]
        refine ⟨regsAt_nodup h k, by simp, ?_⟩
        intro a ha b hb
        simp at hb; subst hb
        intro e; subst e; exact hno' ha
      · exact h.regObs _ hm

theorem inv_removeKey {c : Center} (h : Inv c) (o : Obj) (k : RKey) : Inv (removeKey c o k) := by
  unfold removeKey
  split
  · exact h
  · rename_i regs hg
    simp only
    split
    · refine { h with regKeys := ?_, regNonempty := ?_, regObs := ?_ }
      · exact AL.nodup_keys_erase _ _ h.regKeys
      · intro kr hkr; exact h.regNonempty _ (AL.mem_erase hkr)
      · intro kr hkr; exact h.regObs _ (AL.mem_erase hkr)
    · rename_i hne
      refine { h with regKeys := ?_, regNonempty := ?_, regObs := ?_ }
      · exact AL.nodup_keys_set _ _ _ h.regKeys
      · intro kr hkr
        rcases AL.mem_set hkr with e | hm
        · subst e; simpa using hne
        · exact h.regNonempty _ hm
      · intro kr hkr
        rcases AL.mem_set hkr with e | hm
        · subst e
          have := h.regObs _ (AL.mem_of_get? hg)
          exact (List.Sublist.map _ (List.filter_sublist)).nodup this
        · exact h.regObs _ hm

theorem inv_foldl_removeKey {c : Center} (h : Inv c) (o : Obj) (ks : List RKey) :
    Inv (ks.foldl (fun c k => removeKey c o k) c) := by
  induction ks generalizing c with
  | nil => exact h
  | cons k ks ih => exact ih (inv_removeKey h o k)

theorem inv_removeAll {c : Center} (h : Inv c) (o : Obj) (s : Option Obj) : Inv (removeAll c o s).1 := by
  unfold removeAll
  split
  · exact h
  · exact inv_foldl_removeKey h o _

theorem inv_enqueue {c : Center} (h : Inv c) (hk : HKey) (note : Note) : Inv (enqueue c hk note) := by
  unfold enqueue
  split
  · exact h
  · rename_i hd hg
    split
    · exact h
    · rename_i hnot
      refine { h with holdKeys := ?_, holdPos := ?_, holdQueue := ?_ }
      · exact AL.nodup_keys_set _ _ _ h.holdKeys
      · intro kh hkh
        rcases AL.mem_set hkh with e | hm
        · subst e; exact h.holdPos (hk, hd) (AL.mem_of_get? hg)
        · exact h.holdPos _ hm
      · intro kh hkh
        rcases AL.mem_set hkh with e | hm
        · subst e
          simp only
          rw [List.nodup_append]
          refine ⟨h.holdQueue (hk, hd) (AL.mem_of_get? hg), by simp, ?_⟩
          intro a ha b hb
          simp at hb; subst hb
          intro e; subst e; exact hnot ha
        · exact h.holdQueue _ hm

theorem inv_hold {c : Center} (h : Inv c) (hk : HKey) (note : Option Nat) : Inv (hold c hk note) := by
  unfold hold
  refine { h with holdKeys := ?_, holdPos := ?_, holdQueue := ?_ }
  · exact AL.nodup_keys_set _ _ _ h.holdKeys
  · intro kh hkh
    rcases AL.mem_set hkh with e | hm
    · subst e; simp
    · exact h.holdPos _ hm
  · intro kh hkh
    rcases AL.mem_set hkh with e | hm
    · subst e
      simp only
      cases hg : AL.get? c.holds hk with
      | none => simp
      | some hd => simpa using h.holdQueue _ (AL.mem_of_get? hg)
    · exact h.holdQueue _ hm

theorem inv_disable {c : Center} (h : Inv c) (hk : HKey) : Inv (disable c hk) := by
  unfold disable
  refine { h with disKeys := ?_, disPos := ?_ }
  · exact AL.nodup_keys_set _ _ _ h.disKeys
  · intro kd hkd
    rcases AL.mem_set hkd with e | hm
    · subst e; simp
    · exact h.disPos _ hm

theorem inv_enable {c : Center} (h : Inv c) (hk : HKey) : Inv (enable c hk).1 := by
  unfold enable
  split
  · exact h
  · rename_i n hg
    split
    · refine { h with disKeys := ?_, disPos := ?_ }
      · exact AL.nodup_keys_erase _ _ h.disKeys
      · intro kd hkd; exact h.disPos _ (AL.mem_erase hkd)
    · rename_i hne
      refine { h with disKeys := ?_, disPos := ?_ }
      · exact AL.nodup_keys_set _ _ _ h.disKeys
      · intro kd hkd
        rcases AL.mem_set hkd with e | hm
        · subst e; simp only; omega
        · exact h.disPos _ hm

/-! ### The registry as a function `RKey → List Reg` (abstract view) -/

theorem regsAt_add_ok {c : Center} {o : Obj} {m : Meth} {k : RKey} {ident : Option String}
    (hno : hasReg c k o = false) (k2 : RKey) :
    regsAt (add c o m k ident).1 k2 = if k = k2 then regsAt c k ++ [⟨o, m, ident⟩] else regsAt c k2 := by
  unfold add
  simp only [hno, Bool.false_eq_true, if_false]
  unfold regsAt
  simp only [AL.get?_set]
  split <;> simp

theorem add_dup {c : Center} {o : Obj} {m : Meth} {k : RKey} {ident : Option String}
    (h : hasReg c k o = true) : add c o m k ident = (c, .err .assertionError) := by
  unfold add; simp [h]

theorem regsAt_removeKey {c : Center} (h : Inv c) (o : Obj) (k k2 : RKey) :
    regsAt (removeKey c o k) k2 =
      if k = k2 then (regsAt c k).filter (fun r => r.observer ≠ o) else regsAt c k2 := by
  unfold removeKey
  cases hg : AL.get? c.registry k with
  | none =>
    simp only
    split
    · rename_i e; subst e; simp [regsAt, hg]
    · rfl
  | some regs =>
    simp only
    split
    · rename_i hemp
      by_cases e : k = k2
      · subst e
        simp only [regsAt, if_true, hg, Option.getD_some]
        rw [AL.get?_erase_self_of_nodup _ _ h.regKeys]
        simp at hemp
        simp [List.filter_eq_nil_iff]
        exact hemp
      · simp [regsAt, e]
    · by_cases e : k = k2
      · subst e; simp [regsAt, hg]
      · simp [regsAt, e]

theorem filter_obs_idem (l : List Reg) (o : Obj) :
    (l.filter (fun r => r.observer ≠ o)).filter (fun r => r.observer ≠ o) = l.filter (fun r => r.observer ≠ o) := by
  simp [List.filter_filter]

theorem regsAt_foldl_removeKey {c : Center} (h : Inv c) (o : Obj) (ks : List RKey) (k2 : RKey) :
    regsAt (ks.foldl (fun c k => removeKey c o k) c) k2 =
      if k2 ∈ ks then (regsAt c k2).filter (fun r => r.observer ≠ o) else regsAt c k2 := by
  induction ks generalizing c with
  | nil => simp
  | cons k ks ih =>
    simp only [List.foldl_cons]
    rw [ih (inv_removeKey h o k), regsAt_removeKey h]
    by_cases e : k = k2
    · subst e; simp [filter_obs_idem]
    · have e' : ¬ k2 = k := fun x => e x.symm
      simp [e, e']

theorem mem_backtrack_iff {c : Center} (h : Inv c) (o : Obj) (s : Option Obj) (k : RKey) :
    k ∈ backtrack c o s ↔ k.2 = s ∧ hasReg c k o = true := by
  unfold backtrack hasReg regsAt
  simp only [List.mem_map, List.mem_filter, decide_eq_true_eq]
  constructor
  · rintro ⟨kr, ⟨hm, hs, ha⟩, rfl⟩
    obtain ⟨k', regs⟩ := kr
    have := AL.get?_of_mem_nodup h.regKeys hm
    simp only at hs ha ⊢
    simp [this, hs, ha]
  · rintro ⟨hs, ha⟩
    cases hg : AL.get? c.registry k with
    | none => simp [hg] at ha
    | some regs =>
      refine ⟨(k, regs), ⟨AL.mem_of_get? hg, hs, ?_⟩, rfl⟩
      simpa [hg] using ha

theorem regsAt_removeAll {c : Center} (h : Inv c) (o : Obj) (s : Option Obj) (k2 : RKey) :
    regsAt (removeAll c o s).1 k2 =
      if k2.2 = s then (regsAt c k2).filter (fun r => r.observer ≠ o) else regsAt c k2 := by
  have key : regsAt ((backtrack c o s).foldl (fun c k => removeKey c o k) c) k2 =
      if k2.2 = s then (regsAt c k2).filter (fun r => r.observer ≠ o) else regsAt c k2 := by
    rw [regsAt_foldl_removeKey h]
    have hb := mem_backtrack_iff h o s k2
    by_cases hs : k2.2 = s
    · by_cases hm : k2 ∈ backtrack c o s
      · simp [hs, hm]
      · have hn' : hasReg c k2 o = false := by
          cases hh : hasReg c k2 o with
          | false => rfl
          | true => exact absurd (hb.mpr ⟨hs, hh⟩) hm
        rw [hasReg_false_iff] at hn'
        simp only [hm, hs, if_false, if_true]
        symm
        rw [List.filter_eq_self]
        intro r hr
        simp only [ne_eq, decide_eq_true_eq]
        intro e; apply hn'; simp only [List.mem_map]; exact ⟨r, hr, e⟩
    · have hm : k2 ∉ backtrack c o s := fun hm => hs (hb.mp hm).1
      simp [hs, hm]
  unfold removeAll
  split
  · rename_i hnil
    rw [hnil] at key
    simpa using key
  · exact key

theorem removeAll_err_iff {c : Center} (h : Inv c) (o : Obj) (s : Option Obj) :
    (removeAll c o s).2 = .err .keyError ↔ ∀ k : RKey, k.2 = s → hasReg c k o = false := by
  unfold removeAll
  split
  · rename_i hnil
    simp only [true_iff]
    intro k hk
    have := mem_backtrack_iff h o s k
    rw [hnil] at this
    simp at this
    cases hh : hasReg c k o with
    | false => rfl
    | true => exact absurd hh (by simpa using this hk)
  · rename_i hne
    simp only [reduceCtorEq, false_iff]
    intro hall
    apply hne
    cases hb : backtrack c o s with
    | nil => rfl
    | cons k ks =>
      have : k ∈ backtrack c o s := by rw [hb]; simp
      rw [mem_backtrack_iff h] at this
      rw [hall k this.1] at this
      simp at this

/-- only the registry/holds/disabled tables matter to `Inv` -/
theorem inv_congr {c c' : Center} (h : Inv c) (h1 : c'.registry = c.registry) (h2 : c'.holds = c.holds)
    (h3 : c'.disabled = c.disabled) : Inv c' := by
  constructor
  · rw [h1]; exact h.regKeys
  · rw [h1]; exact h.regNonempty
  · rw [h1]; exact h.regObs
  · rw [h2]; exact h.holdKeys
  · rw [h2]; exact h.holdPos
  · rw [h2]; exact h.holdQueue
  · rw [h3]; exact h.disKeys
  · rw [h3]; exact h.disPos

/-! ### Inv through posting, for an arbitrary callback interpreter that preserves it -/

section
variable (rec : Center → Op → Center × List Ev) (hrec : ∀ c op, Inv c → Inv (rec c op).1)
include hrec

theorem inv_callback {c : Center} (h : Inv c) (r : Reg) (n : Name) (s : Obj) (d : Data) :
    Inv (callback rec c r n s d).1 := by
  unfold callback
  split
  · exact h
  · simp only
    apply runAll_preserves Inv rec hrec
    exact inv_congr h rfl rfl rfl

theorem inv_deliverOne {c : Center} (h : Inv c) (n : Name) (s : Obj) (d : Data) (t : Option Obj) (r : Reg) :
    Inv (deliverOne rec n s d t c r).1 := by
  unfold deliverOne
  split
  · exact h
  · split
    · exact h
    · split
      · exact inv_enqueue h _ _
      · split
        · exact h
        · exact inv_callback rec hrec h r n s d

theorem inv_deliverKey {c : Center} (h : Inv c) (n : Name) (s : Obj) (d : Data) (t : Option Obj) (k : RKey) :
    Inv (deliverKey rec n s d t c k).1 := by
  unfold deliverKey
  exact runAll_preserves Inv _ (fun c r hc => inv_deliverOne rec hrec hc n s d t r) c _ h

theorem inv_post {c : Center} (h : Inv c) (n : Name) (s : Obj) (d : Data) (t : Option Obj) :
    Inv (post rec c n s d t).1 := by
  unfold post
  split
  · exact h
  · split
    · exact inv_enqueue h _ _
    · exact runAll_preserves Inv _ (fun c k hc => inv_deliverKey rec hrec hc n s d t k) c _ h

theorem inv_repost {c : Center} (h : Inv c) (q : Note) : Inv (repost rec c q).1 := by
  unfold repost
  split
  · exact h
  · exact inv_post rec hrec h _ _ _ _

theorem inv_release {c : Center} (h : Inv c) (hk : HKey) : Inv (release rec c hk).1 := by
  unfold release
  split
  · exact h
  · rename_i hd hg
    split
    · simp only
      apply runAll_preserves Inv _ (fun c q hc => inv_repost rec hrec hc q)
      refine { h with holdKeys := ?_, holdPos := ?_, holdQueue := ?_ }
      · exact AL.nodup_keys_erase _ _ h.holdKeys
      · intro kh hkh; exact h.holdPos _ (AL.mem_erase hkh)
      · intro kh hkh; exact h.holdQueue _ (AL.mem_erase hkh)
    · rename_i hne
      refine { h with holdKeys := ?_, holdPos := ?_, holdQueue := ?_ }
      · exact AL.nodup_keys_set _ _ _ h.holdKeys
      · intro kh hkh
        rcases AL.mem_set hkh with e | hm
        · subst e; simp only; omega
        · exact h.holdPos _ hm
      · intro kh hkh
        rcases AL.mem_set hkh with e | hm
        · subst e; exact h.holdQueue (hk, hd) (AL.mem_of_get? hg)
        · exact h.holdQueue _ hm

theorem inv_step {c : Center} (h : Inv c) (op : Op) : Inv (step rec c op).1 := by
  cases op with
  | add o m n s ident => exact inv_add h o m (n, s) ident
  | remove o n s => exact inv_removeKey h o (n, s)
  | removeAll o s => exact inv_removeAll h o s
  | has o n s => exact h
  | find o n s pat => exact h
  | post n s d t => exact inv_post rec hrec h n s d t
  | hold n s o note => exact inv_hold h _ note
  | release n s o => exact inv_release rec hrec h _
  | disable n s o => exact inv_disable h _
  | enable n s o => exact inv_enable h _
  | areHeld n s o => exact h
  | areDisabled n s o => exact h
  | heldKeys => exact h
  | heldNotes n s o => simp only [step]; split <;> exact h
  | kill o => exact inv_congr h rfl rfl rfl
  | script o m ops => exact inv_congr h rfl rfl rfl

end

/-! ### Posting without callback scripts: exact deliveries -/

/-- `c'` differs from `c` at most in the *contents* of hold queues -/
structure SameShape (c c' : Center) : Prop where
  registry : c'.registry = c.registry
  disabled : c'.disabled = c.disabled
  dead : c'.dead = c.dead
  scripts : c'.scripts = c.scripts
  holdKeys : ∀ k, AL.contains c'.holds k = AL.contains c.holds k

theorem SameShape.refl (c : Center) : SameShape c c := ⟨rfl, rfl, rfl, rfl, fun _ => rfl⟩

theorem SameShape.trans {a b c : Center} (h1 : SameShape a b) (h2 : SameShape b c) : SameShape a c :=
  ⟨h2.registry.trans h1.registry, h2.disabled.trans h1.disabled, h2.dead.trans h1.dead,
   h2.scripts.trans h1.scripts, fun k => (h2.holdKeys k).trans (h1.holdKeys k)⟩

theorem sameShape_enqueue (c : Center) (hk : HKey) (note : Note) : SameShape c (enqueue c hk note) := by
  unfold enqueue
  split
  · exact SameShape.refl c
  · rename_i hd hg
    split
    · exact SameShape.refl c
    · refine ⟨rfl, rfl, rfl, rfl, ?_⟩
      intro k
      simp only [AL.contains_set]
      by_cases e : hk = k
      · subst e; simp [AL.contains, hg]
      · simp [e]

theorem SameShape.regsAt {c c' : Center} (h : SameShape c c') (k : RKey) : regsAt c' k = regsAt c k := by
  unfold Notify.regsAt; rw [h.registry]

theorem SameShape.isDisabled {c c' : Center} (h : SameShape c c') (ks : List HKey) :
    isDisabled c' ks = isDisabled c ks := by
  unfold Notify.isDisabled; rw [h.disabled]

theorem SameShape.firstHold {c c' : Center} (h : SameShape c c') (ks : List HKey) :
    firstHold c' ks = firstHold c ks := by
  unfold Notify.firstHold
  congr 1
  funext k
  exact h.holdKeys k

theorem SameShape.deliverable {c c' : Center} (h : SameShape c c') (n : Name) (s : Obj) (t : Option Obj) (r : Reg) :
    deliverable c' n s t r = deliverable c n s t r := by
  unfold Notify.deliverable
  rw [h.isDisabled, h.firstHold, h.dead]

theorem deliverOne_noscript (rec : Center → Op → Center × List Ev) (n : Name) (s : Obj) (d : Data)
    (t : Option Obj) (c : Center) (r : Reg) (hs : c.scripts = []) :
    SameShape c (deliverOne rec n s d t c r).1 ∧
    (deliverOne rec n s d t c r).2 = if deliverable c n s t r then [deliverEv n s d r] else [] := by
  unfold deliverOne deliverable
  by_cases ht : t.isSome ∧ t ≠ some r.observer
  · rw [if_pos ht]
    refine ⟨SameShape.refl c, ?_⟩
    obtain ⟨h1, h2⟩ := ht
    cases t with
    | none => simp at h1
    | some x => simp at h2; simp [h2]
  · have ht' : (t.isNone || t == some r.observer) = true := by
      cases t with
      | none => simp
      | some x =>
        simp at ht ⊢
        exact ht
    rw [if_neg ht]
    simp only [ht', Bool.true_and]
    by_cases hd : isDisabled c (observerKeys n s r.observer) = true
    · simp [hd, SameShape.refl]
    · simp only [hd, if_false]
      have hd' : isDisabled c (observerKeys n s r.observer) = false := by simpa using hd
      cases hf : firstHold c (observerKeys n s r.observer) with
      | some hk => simp [hd', sameShape_enqueue]
      | none =>
        simp only [hd']
        by_cases hdead : r.observer ∈ c.dead
        · simp [hdead, SameShape.refl]
        · simp [hdead, callback, hs, SameShape.refl, deliverEv]

theorem runAll_deliverOne_noscript (rec : Center → Op → Center × List Ev) (n : Name) (s : Obj) (d : Data)
    (t : Option Obj) (c0 c : Center) (regs : List Reg) (hs : c0.scripts = []) (hsh : SameShape c0 c) :
    SameShape c0 (runAll (deliverOne rec n s d t) c regs).1 ∧
    (runAll (deliverOne rec n s d t) c regs).2 =
      (regs.filter (deliverable c0 n s t)).map (deliverEv n s d) := by
  induction regs generalizing c with
  | nil => simp [runAll, hsh]
  | cons r rs ih =>
    rw [runAll_cons]
    have hsc : c.scripts = [] := by rw [hsh.scripts, hs]
    obtain ⟨h1, h2⟩ := deliverOne_noscript rec n s d t c r hsc
    obtain ⟨h3, h4⟩ := ih _ (hsh.trans h1)
    refine ⟨h3, ?_⟩
    simp only [h2, h4, hsh.deliverable]
    by_cases hdl : deliverable c0 n s t r = true
    · simp [hdl]
    · simp [hdl]

theorem runAll_deliverKey_noscript (rec : Center → Op → Center × List Ev) (n : Name) (s : Obj) (d : Data)
    (t : Option Obj) (c0 c : Center) (ks : List RKey) (hs : c0.scripts = []) (hsh : SameShape c0 c) :
    SameShape c0 (runAll (deliverKey rec n s d t) c ks).1 ∧
    (runAll (deliverKey rec n s d t) c ks).2 =
      ((ks.flatMap (regsAt c0)).filter (deliverable c0 n s t)).map (deliverEv n s d) := by
  induction ks generalizing c with
  | nil => simp [runAll, hsh]
  | cons k ks ih =>
    rw [runAll_cons]
    unfold deliverKey
    obtain ⟨h1, h2⟩ := runAll_deliverOne_noscript rec n s d t c0 c (regsAt c k) hs hsh
    obtain ⟨h3, h4⟩ := ih _ h1
    refine ⟨h3, ?_⟩
    unfold deliverKey at h4
    rw [h2, h4, hsh.regsAt]
    simp

/-- Exact deliveries of a post that no sender-side suspension catches, when callbacks issue no
operations: the matching registrations that are deliverable, in order. -/
theorem post_exact_aux (rec : Center → Op → Center × List Ev) (c : Center) (n : Name) (s : Obj) (d : Data)
    (t : Option Obj) (hs : c.scripts = []) (hd : isDisabled c (senderKeys n s) = false)
    (hh : firstHold c (senderKeys n s) = none) :
    SameShape c (post rec c n s d t).1 ∧
    (post rec c n s d t).2 = ((matching c n s).filter (deliverable c n s t)).map (deliverEv n s d) := by
  unfold post
  simp only [hd, Bool.false_eq_true, if_false, hh]
  exact runAll_deliverKey_noscript rec n s d t c c _ hs (SameShape.refl c)

theorem inv_exec_aux (fuel : Nat) : ∀ (c : Center) (op : Op), Inv c → Inv (exec fuel c op).1 := by
  induction fuel with
  | zero => intro c op h; exact h
  | succ f ih => intro c op h; exact inv_step (exec f) ih h op

end Notify
end DefconModel
