/-
Helper lemmas about the operations on the layer set and about histories in M-Conv
(`applyLayerOp`, `step`, `run` in `DefconModel/ConvSave.lean`).
-/
import DefconModel.Lemmas.ConvSaveFail

namespace DefconModel
namespace Conv

/-! ### lists of names -/

theorem map_rename_names (ls : List MLayer) (o n : String) :
    (ls.map (fun l => if l.name = o then { l with name := n } else l)).map (fun l => l.name) =
    (ls.map (fun l => l.name)).map (fun x => if x = o then n else x) := by
  simp only [List.map_map, Function.comp_def]
  apply List.map_congr_left
  intro l _
  by_cases h : l.name = o <;> simp [h]

theorem nodup_map_rename (xs : List String) (o n : String) (hn : xs.Nodup) (hfresh : n ∉ xs) :
    (xs.map (fun x => if x = o then n else x)).Nodup := by
  induction xs with
  | nil => simp
  | cons x r ih =>
    simp only [List.nodup_cons, List.mem_cons, not_or] at hn hfresh
    simp only [List.map_cons, List.nodup_cons]
    refine ⟨?_, ih hn.2 hfresh.2⟩
    intro hmem
    simp only [List.mem_map] at hmem
    obtain ⟨y, hy, hxy⟩ := hmem
    by_cases hx : x = o
    · by_cases hyo : y = o
      · rw [hx, ← hyo] at hn; exact hn.1 hy
      · simp only [hx, hyo, if_true, if_false] at hxy
        rw [hxy] at hy; exact hfresh.2 hy
    · by_cases hyo : y = o
      · simp only [hx, hyo, if_true, if_false] at hxy
        exact hfresh.1 hxy
      · simp only [hx, hyo, if_false] at hxy
        rw [hxy] at hy; exact hn.1 hy

theorem find?_of_name_mem (ls : List MLayer) (n : String) (h : n ∈ ls.map (fun l => l.name)) :
    ∃ l, ls.find? (fun l => l.name = n) = some l ∧ l.name = n ∧ l ∈ ls := by
  cases hf : ls.find? (fun l => decide (l.name = n)) with
  | none =>
    obtain ⟨l, hl, hln⟩ := List.mem_map.mp h
    have := List.find?_eq_none.mp hf l hl
    simp [hln] at this
  | some l =>
    have h1 := List.find?_some hf
    exact ⟨l, rfl, by simpa using h1, List.mem_of_find?_eq_some hf⟩

theorem names_filterMap_find (ls : List MLayer) (order : List String)
    (h : ∀ n ∈ order, n ∈ ls.map (fun l => l.name)) :
    (order.filterMap (fun n => ls.find? (fun l => l.name = n))).map (fun l => l.name) = order := by
  induction order with
  | nil => rfl
  | cons n r ih =>
    obtain ⟨l, hl, hln, _⟩ := find?_of_name_mem ls n (h n (by simp))
    simp only [List.filterMap_cons, hl, List.map_cons, hln]
    rw [ih (fun x hx => h x (by simp [hx]))]

theorem mem_filterMap_find (ls : List MLayer) (order : List String) (l : MLayer)
    (h : l ∈ order.filterMap (fun n => ls.find? (fun l => l.name = n))) : l ∈ ls := by
  simp only [List.mem_filterMap] at h
  obtain ⟨n, _, hn⟩ := h
  exact List.mem_of_find?_eq_some hn

/-! ### the invariants under the operations on the layer set -/

theorem applyLayerOp_bound (m m' : Mem) (op : LayerOp) (h : applyLayerOp m op = some m') :
    m'.bound = m.bound ∧ m'.fmt = m.fmt ∧ m'.maps = m.maps ∧ m'.parts = m.parts ∧ m'.images = m.images ∧
    m'.data = m.data := by
  cases op <;> simp only [applyLayerOp] at h <;> split at h <;>
    first
    | (simp only [Option.some.injEq] at h; subst h; exact ⟨rfl, rfl, rfl, rfl, rfl, rfl⟩)
    | cases h

theorem applyLayerOp_wf (m m' : Mem) (op : LayerOp) (wf : MemWF m) (h : applyLayerOp m op = some m') : MemWF m' := by
  obtain ⟨hb, hf, _, _, hi, hd⟩ := applyLayerOp_bound m m' op h
  have hrest : (AL.keys m'.images).Nodup ∧ (AL.keys m'.data).Nodup ∧ (∀ d, m'.bound = some d → m'.fmt = some d.fmt) :=
    ⟨by rw [hi]; exact wf.imageNames, by rw [hd]; exact wf.dataNames, by rw [hb, hf]; exact wf.boundFmt⟩
  suffices hs : (m'.layers.map (fun l => l.name)).Nodup ∧ ∀ l ∈ m'.layers, (AL.keys l.glyphs).Nodup from
    ⟨hs.1, hs.2, hrest.1, hrest.2.1, hrest.2.2⟩
  cases op with
  | rename o n =>
    simp only [applyLayerOp] at h
    split at h
    · rename_i hc
      simp only [Option.some.injEq] at h; subst h
      refine ⟨?_, ?_⟩
      · simp only [map_rename_names]
        exact nodup_map_rename _ o n wf.layerNames hc.2
      · intro l hl
        simp only [List.mem_map] at hl
        obtain ⟨a, ha, rfl⟩ := hl
        by_cases hao : a.name = o
        · simp only [hao, if_true]; exact wf.glyphNames a ha
        · simp only [hao, if_false]; exact wf.glyphNames a ha
    · cases h
  | new n =>
    simp only [applyLayerOp] at h
    split at h
    · rename_i hc
      simp only [Option.some.injEq] at h; subst h
      refine ⟨?_, ?_⟩
      · simp only [List.map_append, List.map_cons, List.map_nil]
        rw [List.nodup_append]
        refine ⟨wf.layerNames, by simp, ?_⟩
        intro a ha b hb'
        simp only [List.mem_singleton] at hb'
        subst hb'
        intro e; subst e; exact hc ha
      · intro l hl
        simp only [List.mem_append, List.mem_singleton] at hl
        rcases hl with hl | rfl
        · exact wf.glyphNames l hl
        · simp [AL.keys]
    · cases h
  | delete n =>
    simp only [applyLayerOp] at h
    split at h
    · simp only [Option.some.injEq] at h; subst h
      refine ⟨?_, ?_⟩
      · exact List.Nodup.sublist (List.Sublist.map _ List.filter_sublist) wf.layerNames
      · intro l hl
        exact wf.glyphNames l (List.mem_filter.mp hl).1
    · cases h
  | setDefault n =>
    simp only [applyLayerOp] at h
    split at h
    · simp only [Option.some.injEq] at h; subst h
      exact ⟨wf.layerNames, wf.glyphNames⟩
    · cases h
  | reorder order =>
    simp only [applyLayerOp] at h
    split at h
    · rename_i hc
      simp only [Option.some.injEq] at h; subst h
      have hp : order.Perm (layerNames m) := List.isPerm_iff.mp hc
      refine ⟨?_, ?_⟩
      · simp only
        rw [names_filterMap_find m.layers order (fun x hx => hp.subset hx)]
        exact hp.nodup_iff.mpr wf.layerNames
      · intro l hl
        exact wf.glyphNames l (mem_filterMap_find m.layers order l hl)
    · cases h
  | setInfo n b =>
    simp only [applyLayerOp] at h
    split at h
    · simp only [Option.some.injEq] at h; subst h
      refine ⟨?_, ?_⟩
      · have : (m.layers.map (fun l => if l.name = n then { l with info := b } else l)).map (fun l => l.name) =
            m.layers.map (fun l => l.name) := by
          simp only [List.map_map, Function.comp_def]
          apply List.map_congr_left
          intro l _
          by_cases hl : l.name = n <;> simp [hl]
        simp only
        rw [this]; exact wf.layerNames
      · intro l hl
        simp only [List.mem_map] at hl
        obtain ⟨a, ha, rfl⟩ := hl
        by_cases hao : a.name = n
        · simp only [hao, if_true]; exact wf.glyphNames a ha
        · simp only [hao, if_false]; exact wf.glyphNames a ha
    · cases h

/-! ### the invariants along a history -/

theorem keys_markLoaded {α : Type} (old : String → Option α) (names : List String) (l : List (String × Option α)) :
    AL.keys (markLoaded old names l) = AL.keys l := by
  simp only [markLoaded, AL.keys, List.map_map, Function.comp_def]
  apply List.map_congr_left
  intro p _
  split <;> rfl

theorem loadItems_wf (m : Mem) (gl : List (String × String)) (im da : List String) (wf : MemWF m) :
    MemWF (loadItems m gl im da) := by
  refine ⟨?_, ?_, ?_, ?_, wf.boundFmt⟩
  · simp only [loadItems, List.map_map, Function.comp_def]; exact wf.layerNames
  · intro l hl
    simp only [loadItems, List.mem_map] at hl
    obtain ⟨a, ha, rfl⟩ := hl
    simp only [keys_markLoaded]
    exact wf.glyphNames a ha
  · simp only [loadItems, keys_markLoaded]; exact wf.imageNames
  · simp only [loadItems, keys_markLoaded]; exact wf.dataNames

theorem map_if_name (ls : List MLayer) (ln : String) (f : MLayer → MLayer) (hf : ∀ l, (f l).name = l.name) :
    (ls.map (fun l => if l.name = ln then f l else l)).map (fun l => l.name) = ls.map (fun l => l.name) := by
  simp only [List.map_map, Function.comp_def]
  apply List.map_congr_left
  intro l _
  by_cases hl : l.name = ln <;> simp [hl, hf]

theorem setGlyph_wf (m : Mem) (ln gn : String) (g : Glyph) (wf : MemWF m) : MemWF (setGlyph m ln gn g) := by
  refine ⟨?_, ?_, wf.imageNames, wf.dataNames, wf.boundFmt⟩
  · simp only [setGlyph]
    rw [map_if_name m.layers ln (fun l => { l with glyphs := AL.set l.glyphs gn (some g) }) (fun _ => rfl)]
    exact wf.layerNames
  · intro l hl
    simp only [setGlyph, List.mem_map] at hl
    obtain ⟨a, ha, rfl⟩ := hl
    by_cases hao : a.name = ln
    · simp only [hao, if_true]; exact AL.nodup_keys_set _ _ _ (wf.glyphNames a ha)
    · simp only [hao, if_false]; exact wf.glyphNames a ha

theorem delGlyph_wf (m : Mem) (ln gn : String) (wf : MemWF m) : MemWF (delGlyph m ln gn) := by
  refine ⟨?_, ?_, wf.imageNames, wf.dataNames, wf.boundFmt⟩
  · simp only [delGlyph]
    rw [map_if_name m.layers ln (fun l => { l with glyphs := AL.erase l.glyphs gn }) (fun _ => rfl)]
    exact wf.layerNames
  · intro l hl
    simp only [delGlyph, List.mem_map] at hl
    obtain ⟨a, ha, rfl⟩ := hl
    by_cases hao : a.name = ln
    · simp only [hao, if_true]; exact AL.nodup_keys_erase _ _ (wf.glyphNames a ha)
    · simp only [hao, if_false]; exact wf.glyphNames a ha

/-- every step of a history keeps the two invariants -/
theorem step_wf (find : Finder) (m m' : Mem) (op : Op) (wf : MemWF m) (hb : BoundGlif1 m)
    (h : step find m op = some m') : MemWF m' ∧ BoundGlif1 m' := by
  cases op with
  | layer lop =>
    simp only [step] at h
    refine ⟨applyLayerOp_wf m m' lop wf h, ?_⟩
    intro d hd
    rw [(applyLayerOp_bound m m' lop h).1] at hd
    exact hb d hd
  | load gl im da =>
    simp only [step, Option.some.injEq] at h; subst h
    exact ⟨loadItems_wf m gl im da wf, hb⟩
  | setGlyph ln gn g =>
    simp only [step, Option.some.injEq] at h; subst h
    exact ⟨setGlyph_wf m ln gn g wf, hb⟩
  | delGlyph ln gn =>
    simp only [step, Option.some.injEq] at h; subst h
    exact ⟨delGlyph_wf m ln gn wf, hb⟩
  | setParts p =>
    simp only [step, Option.some.injEq] at h; subst h
    exact ⟨⟨wf.layerNames, wf.glyphNames, wf.imageNames, wf.dataNames, wf.boundFmt⟩, hb⟩
  | save t ip =>
    simp only [step] at h
    exact save_wf find m m' t ip wf h
  | saveFails t =>
    simp only [step] at h
    cases hc : observe m with
    | none => unfold saveFailsAtReplace at h; simp [hc] at h
    | some c =>
      have := saveFailsAtReplace_some find m m' t c hc h
      subst this
      exact ⟨preload_wf m c t true wf hc, hb⟩

theorem run_wf (find : Finder) (m m' : Mem) (ops : List Op) (wf : MemWF m) (hb : BoundGlif1 m)
    (h : run find m ops = some m') : MemWF m' ∧ BoundGlif1 m' := by
  induction ops generalizing m with
  | nil => simp only [run, Option.some.injEq] at h; subst h; exact ⟨wf, hb⟩
  | cons op rest ih =>
    simp only [run] at h
    cases hs : step find m op with
    | none => simp [hs] at h
    | some m1 =>
      simp only [hs] at h
      obtain ⟨wf1, hb1⟩ := step_wf find m m1 op wf hb hs
      exact ih m1 wf1 hb1 h

/-! ### what the getters show after an operation on the layer set -/

section AllSome2
variable {α α' β β' : Type}

theorem allSome_map_transfer' (f : α → Option β) (g : α' → Option β') (h : α → α') (k : β → β') (l : List α) (r : List β)
    (hs : allSome (l.map f) = some r) (hp : ∀ a ∈ l, ∀ b, f a = some b → g (h a) = some (k b)) :
    allSome ((l.map h).map g) = some (r.map k) := by
  induction l generalizing r with
  | nil => simp [allSome] at hs; subst hs; rfl
  | cons a l ih =>
    simp only [List.map_cons] at hs ⊢
    cases hfa : f a with
    | none => simp [allSome, hfa] at hs
    | some b =>
      simp only [allSome, hfa, Option.map_eq_some_iff] at hs
      obtain ⟨r', hr', rfl⟩ := hs
      have hga := hp a (by simp) b hfa
      simp only [allSome, hga]
      rw [ih r' hr' (fun a' ha' b' => hp a' (by simp [ha']) b')]
      rfl

theorem allSome_append (x y : List (Option β)) (rx ry : List β) (hx : allSome x = some rx) (hy : allSome y = some ry) :
    allSome (x ++ y) = some (rx ++ ry) := by
  induction x generalizing rx with
  | nil => simp [allSome] at hx; subst hx; simpa using hy
  | cons a x ih =>
    cases a with
    | none => simp [allSome] at hx
    | some v =>
      simp only [allSome, Option.map_eq_some_iff] at hx
      obtain ⟨r', hr', rfl⟩ := hx
      simp only [List.cons_append, allSome, ih r' hr']
      rfl

theorem allSome_filter (f : α → Option β) (p : α → Bool) (q : β → Bool) (l : List α) (r : List β)
    (hs : allSome (l.map f) = some r) (hp : ∀ a b, f a = some b → p a = q b) :
    allSome ((l.filter p).map f) = some (r.filter q) := by
  induction l generalizing r with
  | nil => simp [allSome] at hs; subst hs; rfl
  | cons a l ih =>
    simp only [List.map_cons] at hs
    cases hfa : f a with
    | none => simp [allSome, hfa] at hs
    | some b =>
      simp only [allSome, hfa, Option.map_eq_some_iff] at hs
      obtain ⟨r', hr', rfl⟩ := hs
      have hpq := hp a b hfa
      cases hq : q b with
      | true =>
        rw [hq] at hpq
        simp only [List.filter_cons, hpq, hq, if_true, List.map_cons, allSome, hfa, ih r' hr']
        rfl
      | false =>
        rw [hq] at hpq
        simp only [List.filter_cons, hpq, hq, Bool.false_eq_true, if_false]
        exact ih r' hr'

end AllSome2

theorem observeLayer_congr (m m' : Mem) (l : MLayer) (h : m'.bound = m.bound) : observeLayer m' l = observeLayer m l := by
  unfold observeLayer; rw [h]

/-- looking a layer up by its name gives the same on both sides of `observe` -/
theorem find?_observe (m : Mem) (ls : List MLayer) (cs : List DLayer) (n : String)
    (hs : allSome (ls.map (observeLayer m)) = some cs) :
    (ls.find? (fun l => l.name = n)).bind (observeLayer m) = cs.find? (fun l => l.name = n) ∧
    ((ls.find? (fun l => l.name = n)).isSome = (cs.find? (fun l => l.name = n)).isSome) := by
  induction ls generalizing cs with
  | nil => simp [allSome] at hs; subst hs; simp
  | cons a ls ih =>
    simp only [List.map_cons] at hs
    cases hfa : observeLayer m a with
    | none => simp [allSome, hfa] at hs
    | some b =>
      simp only [allSome, hfa, Option.map_eq_some_iff] at hs
      obtain ⟨r', hr', rfl⟩ := hs
      have hn : b.name = a.name := (observeLayer_some m a b hfa).1
      by_cases han : a.name = n
      · simp [List.find?_cons, han, hn, hfa]
      · have hbn : ¬ b.name = n := by rw [hn]; exact han
        simp only [List.find?_cons, han, hbn, decide_false]
        exact ih r' hr'

theorem allSome_reorder (m : Mem) (ls : List MLayer) (cs : List DLayer) (order : List String)
    (hs : allSome (ls.map (observeLayer m)) = some cs) :
    allSome ((order.filterMap (fun n => ls.find? (fun l => l.name = n))).map (observeLayer m)) =
      some (order.filterMap (fun n => cs.find? (fun l => l.name = n))) := by
  induction order with
  | nil => rfl
  | cons n r ih =>
    obtain ⟨h1, h2⟩ := find?_observe m ls cs n hs
    cases hl : ls.find? (fun l => decide (l.name = n)) with
    | none =>
      rw [hl] at h2
      have hc : cs.find? (fun l => decide (l.name = n)) = none := by
        cases hcf : cs.find? (fun l => decide (l.name = n)) with
        | none => rfl
        | some x => rw [hcf] at h2; simp at h2
      simp only [List.filterMap_cons, hl, hc]
      exact ih
    | some a =>
      rw [hl] at h1
      simp only [Option.bind_some] at h1
      simp only [List.filterMap_cons, hl, ← h1]
      cases hoa : observeLayer m a with
      | none =>
        -- `a` is one of the layers, all of which are observable
        exfalso
        rw [hoa] at h1
        rw [hl, ← h1] at h2
        simp at h2
      | some b =>
        simp only [List.map_cons, allSome, hoa, ih]
        rfl

/-- **the getters after an operation on the layer set**: nothing but the layer set changes -/
theorem observe_applyLayerOp (m m' : Mem) (op : LayerOp) (c : Full) (hc : observe m = some c)
    (h : applyLayerOp m op = some m') : observe m' = some (applyFull c op) := by
  obtain ⟨hl, him, hda, hdn, hpa⟩ := observe_some m c hc
  obtain ⟨hb, _, _, hp, hi, hd⟩ := applyLayerOp_bound m m' op h
  have hO : ∀ l, observeLayer m' l = observeLayer m l := fun l => observeLayer_congr m m' l hb
  have hfun : observeLayer m' = observeLayer m := funext hO
  have key : ∀ (ls' : List DLayer) (dn : String), allSome (m'.layers.map (observeLayer m')) = some ls' →
      m'.defaultName = dn → observe m' = some ⟨ls', dn, c.parts, c.images, c.data⟩ := by
    intro ls' dn h1 h2
    unfold observe
    rw [h1, hb, hi, hd, him, hda, h2, hp, hpa]
    rfl
  cases op with
  | rename o n =>
    simp only [applyLayerOp] at h
    split at h
    · simp only [Option.some.injEq] at h; subst h
      rw [key (c.layers.map (fun l => if l.name = o then { l with name := n } else l))
        (if c.defaultName = o then n else c.defaultName)]
      · simp [applyFull]
      · rw [hfun]
        apply allSome_map_transfer' (observeLayer m) _ _ _ m.layers c.layers hl
        intro a _ b hab
        obtain ⟨h1, h2, h3⟩ := observeLayer_some m a b hab
        by_cases hao : a.name = o
        · have hbo : b.name = o := by rw [h1]; exact hao
          simp only [hao, hbo, if_true]
          unfold observeLayer at hab ⊢
          simp only [Option.map_eq_some_iff] at hab ⊢
          obtain ⟨gs, hgs, rfl⟩ := hab
          exact ⟨gs, hgs, rfl⟩
        · have hbo : ¬ b.name = o := by rw [h1]; exact hao
          simp only [hao, hbo, if_false]
          exact hab
      · simp only [hdn]
    · cases h
  | new n =>
    simp only [applyLayerOp] at h
    split at h
    · simp only [Option.some.injEq] at h; subst h
      rw [key (c.layers ++ [⟨n, [], 0⟩]) c.defaultName]
      · simp [applyFull]
      · rw [hfun]
        simp only [List.map_append]
        apply allSome_append _ _ _ _ hl
        simp [observeLayer, fill, allSome]
      · exact hdn.symm
    · cases h
  | delete n =>
    simp only [applyLayerOp] at h
    split at h
    · simp only [Option.some.injEq] at h; subst h
      rw [key (c.layers.filter (fun l => l.name ≠ n)) c.defaultName]
      · simp [applyFull]
      · rw [hfun]
        apply allSome_filter (observeLayer m) _ _ m.layers c.layers hl
        intro a b hab
        rw [(observeLayer_some m a b hab).1]
      · exact hdn.symm
    · cases h
  | setDefault n =>
    simp only [applyLayerOp] at h
    split at h
    · simp only [Option.some.injEq] at h; subst h
      rw [key c.layers n]
      · simp [applyFull]
      · rw [hfun]; exact hl
      · rfl
    · cases h
  | reorder order =>
    simp only [applyLayerOp] at h
    split at h
    · simp only [Option.some.injEq] at h; subst h
      rw [key (order.filterMap (fun n => c.layers.find? (fun l => l.name = n))) c.defaultName]
      · simp [applyFull]
      · rw [hfun]
        exact allSome_reorder m m.layers c.layers order hl
      · exact hdn.symm
    · cases h
  | setInfo n b =>
    simp only [applyLayerOp] at h
    split at h
    · simp only [Option.some.injEq] at h; subst h
      rw [key (c.layers.map (fun l => if l.name = n then { l with info := b } else l)) c.defaultName]
      · simp [applyFull]
      · rw [hfun]
        apply allSome_map_transfer' (observeLayer m) _ _ _ m.layers c.layers hl
        intro a _ b' hab
        obtain ⟨h1, h2, h3⟩ := observeLayer_some m a b' hab
        by_cases hao : a.name = n
        · have hbo : b'.name = n := by rw [h1]; exact hao
          simp only [hao, hbo, if_true]
          unfold observeLayer at hab ⊢
          simp only [Option.map_eq_some_iff] at hab ⊢
          obtain ⟨gs, hgs, rfl⟩ := hab
          exact ⟨gs, hgs, rfl⟩
        · have hbo : ¬ b'.name = n := by rw [h1]; exact hao
          simp only [hao, hbo, if_false]
          exact hab
      · exact hdn.symm
    · cases h

/-! ### a save below format 3 after the layer set changed -/

/-- a save below format 3 writes (the feature splitter never asserts for a well-behaved finder) -/
theorem write_below3_some (find : Finder) (hf : FinderOK find) (t : Fmt) (ht : t.below3 = true) (maps : Option Maps)
    (c : Full) : ∃ d, write find t maps c = some d := by
  cases t with
  | f3 => simp [Fmt.below3] at ht
  | f2 => exact ⟨_, rfl⟩
  | f1 =>
    obtain ⟨cl, fs, hsplit, _⟩ := split_ok_lossless find hf c.parts.features
    simp only [write, hsplit]
    exact ⟨_, rfl⟩

/-- which glyph directory every layer reads from after a save -/
theorem save_rebinds (find : Finder) (m m' : Mem) (t : Fmt) (ip : Bool) (h : save find m t ip = some m') :
    ∀ l ∈ m'.layers, l.src = if t.below3 then (if l.name = m.defaultName then some "public.default" else none)
      else some l.name := by
  cases hc : observe m with
  | none => unfold save at h; simp [hc] at h
  | some c =>
    obtain ⟨d, _, rfl⟩ := save_some find m m' t ip c hc h
    intro l hl
    simp only [afterSave_layers, List.mem_map] at hl
    obtain ⟨a, _, rfl⟩ := hl
    simp only [rebind, preloadLayer_name]

end Conv
end DefconModel
