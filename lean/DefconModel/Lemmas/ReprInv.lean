/-
Preservation of the cache invariant by the operations of M-Repr.
-/
import DefconModel.Lemmas.Repr

namespace DefconModel
namespace Repr

variable {V : Type}

theorem Dom.congr {w w' : World V} (h : SameStruct w w') (hd : Dom w) : Dom w' := by
  obtain ⟨b, wa, wi, ids⟩ := hd
  refine ⟨by rw [h.glyphs, h.fuel]; exact b, by rw [h.glyphs]; exact wa, by rw [h.glyphs]; exact wi, ?_⟩
  obtain ⟨a1, a2, a3, a4, a5⟩ := ids
  refine ⟨?_, ?_, ?_, ?_, ?_⟩
  · rw [h.glyphs, h.looseC]; exact a1
  · rw [h.glyphs, h.looseK]; exact a2
  · rw [h.glyphs]; exact a3
  · rw [h.glyphs]; exact a4
  · rw [h.glyphs]; exact a5

/-- One glyph record `h` is replaced (`g ↦ g'`), the glyph posts `ns`, everything delivered is in
`ds`.  The operation supplies what happens to glyph `h` itself, to contours, and to the components it
touches; every other glyph and component is handled here: either its view does not read `h`, or the
cascade reaches it and the coverage obligation says its entries are destroyed. -/
theorem inv_glyph_local (P : Params V) (T : Tables) (hcov : Coverage T = true) (w w1 : World V)
    (h : String) (g g' : GlyphS) (ns : List String) (ds : List (Obj × String))
    (hinv : Inv P T w)
    (hg : AL.get? w.glyphs h = some g)
    (hgs : w1.glyphs = AL.set w.glyphs h g') (hf : w1.fuel = w.fuel) (hr : w1.regs = w.regs)
    (hgv : w1.groupsVer = w.groupsVer)
    (hdom : Dom w1)
    (hD : ∀ y, y ∈ glyphDeliv w1.fuel T w1.glyphs h ns → y ∈ ds)
    (hrel : relays ns = true ∨ (g'.contours = g.contours ∧ g'.comps = g.comps))
    (hsub : ∀ o nm sk v, (cacheOf w1 o).get? nm sk = some v → (cacheOf w o).get? nm sk = some v)
    (hloose : LooseEmpty w1)
    (hglyph : ∀ nm sk v, (cacheOf (applyDeliv T w1 ds) (.glyph h)).get? nm sk = some v →
      viewOf T w1 (.glyph h) nm = viewOf T w (.glyph h) nm)
    (hcont : ∀ cid nm sk v, (cacheOf (applyDeliv T w1 ds) (.contour cid)).get? nm sk = some v →
      viewOf T w1 (.contour cid) nm = viewOf T w (.contour cid) nm)
    (hcomp : ∀ kid, findComp w1 kid = findComp w kid ∨
      ∀ nm sk v, (cacheOf (applyDeliv T w1 ds) (.comp kid)).get? nm sk = some v →
        viewOf T w1 (.comp kid) nm = viewOf T w (.comp kid) nm) :
    Inv P T (applyDeliv T w1 ds) := by
  have hss := sameStruct_applyDeliv T w1 ds
  have hbg := cov_glyphOutline hcov (m := "_componentBaseGlyphDataChanged") (by simp [glyphOutlineMethods])
  have hcb := cov_compCallback hcov (cb := "baseGlyphDataChangedNotificationCallback") (by simp [compCallbacks])
  have hW : ∀ m x, ReadsN w1.glyphs m x h → ∀ x' gx k, AL.get? w1.glyphs x' = some gx → k ∈ gx.comps →
      k.base = some x → k.watch = Watch.base := by
    intro m x hx x' gx k hgx hk hb
    apply hdom.watch x' gx k x hgx hk hb
    -- x is present: it is h (m = 0) or it has components
    cases hx with
    | refl => rw [hgs]; simp [AL.contains]
    | step g1 k1 hg1 _ _ _ => simp [AL.contains, hg1]
  refine ⟨?_, ?_, ?_, ?_⟩
  · -- coherence
    intro o nm sk v hs
    have h1 := (get?_applyDeliv T w1 ds o nm sk v hs).1
    have h0 := hsub _ _ _ _ h1
    have hv := hinv.coh _ _ _ _ h0
    rw [hv]
    unfold fresh
    rw [viewOf_congr T hss]
    congr 1
    symm
    cases o with
    | groups => simp [viewOf, hgv]
    | contour cid => exact hcont cid nm sk v hs
    | glyph x =>
      by_cases e : h = x
      · subst e; exact hglyph nm sk v hs
      · by_cases hex : ∃ gx k c m, AL.get? w1.glyphs x = some gx ∧ k ∈ gx.comps ∧ k.base = some c ∧
            ReadsN w1.glyphs m c h
        · rcases hrel with hrel | hrel
          · exfalso
            obtain ⟨gx, k, c, m, hgx, hk, hb, hrd⟩ := hex
            have hreg := hinv.creg _ _ _ _ h0
            obtain ⟨d, y, hd, hy, hh⟩ := hits_of_hitsAll (regs := w.regs) hinv.rdef hbg.1 hreg
            have hdel := cascade_glyph T w1.glyphs w1.fuel h ns hbg.2 hcb.2 hdom.bounded hW hrel hrd hgx hk hb hy
            exact not_survivor hs (by rw [hr]; exact hd) (hD _ hdel) hh
          · exact view_glyph_other T w w1 h g g' hg hgs hf x e nm (Or.inl hrel)
        · exact view_glyph_other T w w1 h g g' hg hgs hf x e nm
            (Or.inr (fun gx k c m a1 a2 a3 a4 => hex ⟨gx, k, c, m, a1, a2, a3, a4⟩))
    | comp kid =>
      rcases hcomp kid with hsame | hother
      · cases hk : findComp w kid with
        | none => simp [viewOf, hsame, hk]
        | some k =>
          have hk1 : findComp w1 kid = some k := by rw [hsame, hk]
          by_cases hex : ∃ c m, k.base = some c ∧ ReadsN w1.glyphs m c h
          · rcases hrel with hrel | hrel
            · by_cases hbi : isBuiltin T "Component" nm = true
              · exfalso
                obtain ⟨c, m, hb, hrd⟩ := hex
                -- attached, else nothing is cached
                have hatt : attached w1 (.comp kid) = true := by
                  cases hc : attached w1 (.comp kid) with
                  | true => rfl
                  | false =>
                    have := hloose (.comp kid) hc nm sk
                    rw [this] at h1; cases h1
                obtain ⟨x', gx', hgx', hkm⟩ := findComp_attached w1 hdom.ids.keys kid k hatt hk1
                have hdel := (cascade_complete T w1.glyphs w1.fuel h ns hbg.2 hcb.2 hdom.bounded hW hrel
                  m c hrd x' gx' k hgx' hkm hb).1
                -- the built-in factory registered under nm
                unfold isBuiltin at hbi
                rw [List.any_eq_true] at hbi
                obtain ⟨p, hp, hpn⟩ := hbi
                simp only [decide_eq_true_eq] at hpn
                have := List.all_eq_true.mp hcb.1 p hp
                rw [List.any_eq_true] at this
                obtain ⟨y, hy, hh⟩ := this
                have hkid : k.id = kid := by
                  unfold findComp at hk1
                  cases hh' : hostOfComp w1.glyphs kid with
                  | none =>
                    rw [hh'] at hk1
                    have := List.find?_some hk1
                    simpa using this
                  | some q =>
                    rw [hh'] at hk1
                    have := List.find?_some hk1
                    simpa using this
                have hmem : (nm, p.2) ∈ facsOf T w1.regs "Component" := by
                  rw [← hpn]; exact mem_facsOf_builtin hp
                exact not_survivor hs hmem (hD _ (by rw [← hkid]; exact hdel y hy)) hh
              · -- a default-registered factory reads only the component's own record
                unfold viewOf
                simp only [hk1, hk, Option.map_some, Option.getD_some]
                unfold compView
                simp [hbi]
            · exact view_comp_same T w w1 h g g' hg hgs hf kid k hk1 hk nm (Or.inl hrel)
          · exact view_comp_same T w w1 h g g' hg hgs hf kid k hk1 hk nm
              (Or.inr (fun c m a1 a2 => hex ⟨c, m, a1, a2⟩))
      · exact hother nm sk v hs
  · -- loose objects stay empty
    intro o ha nm sk
    rw [attached_congr hss] at ha
    cases hc : (cacheOf (applyDeliv T w1 ds) o).get? nm sk with
    | none => rfl
    | some v =>
      have := (get?_applyDeliv T w1 ds o nm sk v hc).1
      rw [hloose o ha nm sk] at this
      cases this
  · intro o nm sk v hs
    have h1 := (get?_applyDeliv T w1 ds o nm sk v hs).1
    rw [hss.regs, hr]
    exact hinv.creg _ _ _ _ (hsub _ _ _ _ h1)
  · intro r hr'
    rw [hss.regs, hr] at hr'
    exact hinv.rdef r hr'

theorem fuel_pos {gs : Layer} {fuel : Nat} (hb : Bounded gs fuel) : ∃ j, fuel = j + 1 :=
  ⟨fuel - 1, by have := hb 0 "" "" (ReadsN.refl ""); omega⟩

theorem glyphDeliv_self' {fuel : Nat} {T : Tables} {gs : Layer} {a : String} {ns : List String} {y : String}
    (hb : Bounded gs fuel) (hy : y ∈ ns) : (Obj.glyph a, y) ∈ glyphDeliv fuel T gs a ns := by
  obtain ⟨j, hj⟩ := fuel_pos hb
  subst hj
  exact glyphDeliv_self hy

theorem cacheOf_eq_of_caches {w w1 : World V} (h : w1.caches = w.caches) (o : Obj) : cacheOf w1 o = cacheOf w o := by
  unfold cacheOf; rw [h]

/-- an attribute mutator of a glyph (`gmut`) -/
theorem inv_gmut (P : Params V) (T : Tables) (hcov : Coverage T = true) (w : World V) (g meth : String)
    (hinv : Inv P T w) (hdom : Dom w) (hdom' : Dom (doGmut T w g meth).1) : Inv P T (doGmut T w g meth).1 := by
  unfold doGmut at hdom' ⊢
  by_cases hm : glyphMutators.contains meth = true
  · by_cases hc : AL.contains w.glyphs g = true
    · simp only [hm, hc, Bool.not_true, Bool.false_eq_true, if_false] at hdom' ⊢
      obtain ⟨r, hr⟩ := (AL.contains_iff_get? _ _).mp hc
      unfold glyphChange at hdom' ⊢
      have hgs : ({ tick w with glyphs := updGlyph (tick w).glyphs g fun r => { r with attr := w.clock } } : World V).glyphs
          = AL.set w.glyphs g { r with attr := w.clock } := updGlyph_eq_set _ hr
      have hd1 := Dom.congr (sameStruct_applyDeliv T _ _).symm hdom'
      have hposts : hitsReg T "Glyph" (T.postsOf "Glyph" meth) = true := by
        have h1 : glyphMutators.all (fun m => hitsReg T "Glyph" (T.postsOf "Glyph" m)) = true :=
          cov_mem hcov (by simp [covList])
        exact List.all_eq_true.mp h1 meth (by simpa using hm)
      refine inv_glyph_local P T hcov w _ g r { r with attr := w.clock } (T.postsOf "Glyph" meth) _ hinv hr hgs rfl rfl rfl
        hd1 (fun y hy => hy) (Or.inr ⟨rfl, rfl⟩) (fun o nm sk v hv => hv) ?_ ?_ ?_ ?_
      · -- loose
        intro o ha
        have : attached w o = false := by
          rw [← ha]; symm
          cases o with
          | contour cid => exact attached_contour_set w _ g r _ hdom.ids.keys hr hgs cid rfl
          | comp kid => exact attached_comp_set w _ g r _ hdom.ids.keys hr hgs kid rfl
          | glyph x => exact attached_glyph_set w _ g r _ hr hgs x
          | groups => rfl
        exact hinv.loose o this
      · -- the glyph itself
        intro nm sk v hs
        by_cases hbi : isBuiltin T "Glyph" nm = true
        · exact view_glyph_self_builtin T w _ g r _ hr hgs rfl rfl rfl nm hbi
        · exfalso
          have h1 := (get?_applyDeliv T _ _ _ nm sk v hs).1
          have hreg := hinv.creg _ _ _ _ h1
          obtain ⟨d, y, hd, hy, hh⟩ := hits_of_hitsReg (regs := w.regs) hinv.rdef hposts hreg (by simpa using hbi)
          exact not_survivor hs hd (glyphDeliv_self' hd1.bounded hy) hh
      · -- contours
        intro cid nm sk v _
        exact viewOf_contour_of_find T (findContour_set w _ g r _ hdom.ids.keys hr hgs rfl cid rfl rfl) nm
      · intro kid
        exact Or.inl (findComp_set w _ g r _ hdom.ids.keys hr hgs rfl kid rfl rfl)
    · simp only [hm, hc, Bool.not_true, Bool.false_eq_true, if_false, Bool.not_false, if_true]
      simpa using hinv
  · simp only [hm, Bool.not_false, if_true]
    simpa using hinv

end Repr
end DefconModel
