/-
Preservation of the cache invariant by the operations of M-Repr.
-/
import DefconModel.Lemmas.Repr

namespace DefconModel
namespace Repr

variable {V : Type}

theorem Dom.congr {w w' : World V} (h : SameStruct w w') (hd : Dom w) : Dom w' := by
  obtain ⟨b, wa, wi, ids⟩ := hd
  refine ⟨by rw [h.glyphs, h.fuel]; exact b, by rw [h.glyphs]; exact wa, by rw [h.glyphs]; exact wi, ?_⟩
  obtain ⟨a1, a2, a3, a4, a5⟩ := ids
  refine ⟨?_, ?_, ?_, ?_, ?_⟩
  · rw [h.glyphs, h.looseC]; exact a1
  · rw [h.glyphs, h.looseK]; exact a2
  · rw [h.glyphs]; exact a3
  · rw [h.glyphs]; exact a4
  · rw [h.glyphs]; exact a5

/-- the watching hypothesis of `cascade_complete`, from the domain predicates -/
theorem watch_of_dom {gs : Layer} {h : String} (hw : WatchOK gs) (hh : AL.contains gs h = true) :
    ∀ m x, ReadsN gs m x h → ∀ x' gx k, AL.get? gs x' = some gx → k ∈ gx.comps →
      k.base = some x → k.watch = Watch.base := by
  intro m x hx x' gx k hgx hk hb
  apply hw x' gx k x hgx hk hb
  cases hx with
  | refl => exact hh
  | step g1 k1 hg1 _ _ _ => simp [AL.contains, hg1]

/-- a component whose base reads `h` loses its built-in representations when `h` posts `ns` -/
theorem cascade_hits_comp (T : Tables) (hcov : Coverage T = true) (gs : Layer) (fuel : Nat) (h : String)
    (ns : List String) (hb : Bounded gs fuel) (hw : WatchOK gs) (hh : AL.contains gs h = true)
    (hrel : relays ns = true) {x' : String} {gx : GlyphS} {k : CompS} {c : String} {m : Nat}
    (hgx : AL.get? gs x' = some gx) (hk : k ∈ gx.comps) (hbase : k.base = some c) (hrd : ReadsN gs m c h)
    {nm : String} (hbi : isBuiltin T "Component" nm = true) :
    ∃ d y, (nm, d) ∈ T.factoriesOf "Component" ∧ (Obj.comp k.id, y) ∈ glyphDeliv fuel T gs h ns ∧
      d.hit y = true := by
  have hbg := cov_glyphOutline hcov (m := "_componentBaseGlyphDataChanged") (by simp [glyphOutlineMethods])
  have hcb := cov_compCallback hcov (cb := "baseGlyphDataChangedNotificationCallback") (by simp [compCallbacks])
  have hdel := (cascade_complete T gs fuel h ns hbg.2 hcb.2 hb (watch_of_dom hw hh) hrel
    m c hrd x' gx k hgx hk hbase).1
  unfold isBuiltin at hbi
  rw [List.any_eq_true] at hbi
  obtain ⟨p, hp, hpn⟩ := hbi
  simp only [decide_eq_true_eq] at hpn
  have := List.all_eq_true.mp hcb.1 p hp
  rw [List.any_eq_true] at this
  obtain ⟨y, hy, hhit⟩ := this
  exact ⟨p.2, y, by rw [← hpn]; exact hp, hdel y hy, hhit⟩

/-- the glyph that holds such a component loses every representation -/
theorem cascade_hits_glyph (T : Tables) (hcov : Coverage T = true) (gs : Layer) (fuel : Nat) (h : String)
    (ns : List String) (hb : Bounded gs fuel) (hw : WatchOK gs) (hh : AL.contains gs h = true)
    (hrel : relays ns = true) {x' : String} {gx : GlyphS} {k : CompS} {c : String} {m : Nat}
    (hgx : AL.get? gs x' = some gx) (hk : k ∈ gx.comps) (hbase : k.base = some c) (hrd : ReadsN gs m c h)
    {regs : List (String × String × Destr)} (hreg : ∀ r, r ∈ regs → r.2.2 = T.defaultDestr r.1) {nm : String}
    (hnm : (facsOf T regs "Glyph").any (fun p => p.1 = nm) = true) :
    ∃ d y, (nm, d) ∈ facsOf T regs "Glyph" ∧ (Obj.glyph x', y) ∈ glyphDeliv fuel T gs h ns ∧ d.hit y = true := by
  have hbg := cov_glyphOutline hcov (m := "_componentBaseGlyphDataChanged") (by simp [glyphOutlineMethods])
  have hcb := cov_compCallback hcov (cb := "baseGlyphDataChangedNotificationCallback") (by simp [compCallbacks])
  obtain ⟨d, y, hd, hy, hhit⟩ := hits_of_hitsAll hreg hbg.1 hnm
  exact ⟨d, y, hd, cascade_glyph T gs fuel h ns hbg.2 hcb.2 hb (watch_of_dom hw hh) hrel hrd hgx hk hbase hy, hhit⟩

theorem findComp_id {w : World V} {kid : Nat} {k : CompS} (h : findComp w kid = some k) : k.id = kid := by
  unfold findComp at h
  cases hh : hostOfComp w.glyphs kid with
  | none => rw [hh] at h; simpa using List.find?_some h
  | some q => rw [hh] at h; simpa [compIn] using List.find?_some h

/-- One glyph record `h` is replaced (`g ↦ g'`), the glyph posts `ns`, everything delivered is in
`ds`.  The operation supplies what happens to glyph `h` itself, to contours, and to the components it
touches; every other glyph and component is handled here: either its view does not read `h`, or the
cascade reaches it and the coverage obligation says its entries are destroyed. -/
theorem inv_glyph_local (P : Params V) (T : Tables) (hcov : Coverage T = true) (w w1 : World V)
    (h : String) (g g' : GlyphS) (ns : List String) (ds : List (Obj × String))
    (hinv : Inv P T w)
    (hg : AL.get? w.glyphs h = some g)
    (hgs : w1.glyphs = AL.set w.glyphs h g') (hf : w1.fuel = w.fuel) (hr : w1.regs = w.regs)
    (hgv : w1.groupsVer = w.groupsVer)
    (hdom : Dom w1)
    (hD : ∀ y, y ∈ glyphDeliv w1.fuel T w1.glyphs h ns → y ∈ ds)
    (hrel : relays ns = true ∨ (g'.contours = g.contours ∧ g'.comps = g.comps))
    (hsub : ∀ o nm sk v, (∀ cid, o ≠ .contour cid) → (cacheOf w1 o).get? nm sk = some v →
      (cacheOf w o).get? nm sk = some v)
    (hcreg : CachedRegistered T w1)
    (hloose : LooseEmpty w1)
    (hglyph : ∀ nm sk v, (cacheOf (applyDeliv T w1 ds) (.glyph h)).get? nm sk = some v →
      viewOf T w1 (.glyph h) nm = viewOf T w (.glyph h) nm)
    (hcont : ∀ cid nm sk v, (cacheOf (applyDeliv T w1 ds) (.contour cid)).get? nm sk = some v →
      v = P.f "Contour" nm (viewOf T w1 (.contour cid) nm) sk)
    (hcomp : ∀ kid, findComp w1 kid = findComp w kid ∨
      ∀ nm sk v, (cacheOf (applyDeliv T w1 ds) (.comp kid)).get? nm sk = some v →
        viewOf T w1 (.comp kid) nm = viewOf T w (.comp kid) nm) :
    Inv P T (applyDeliv T w1 ds) := by
  have hss := sameStruct_applyDeliv T w1 ds
  have hh : AL.contains w1.glyphs h = true := by rw [hgs]; simp [AL.contains]
  refine ⟨?_, ?_, ?_, ?_⟩
  · -- coherence
    intro o nm sk v hs
    have h1 := (get?_applyDeliv T w1 ds o nm sk v hs).1
    unfold fresh
    rw [viewOf_congr T hss]
    cases o with
    | contour cid => exact hcont cid nm sk v hs
    | groups =>
      have h0 := hsub _ _ _ _ (by intro cid e; cases e) h1
      rw [hinv.coh _ _ _ _ h0]
      simp [fresh, viewOf, hgv]
    | glyph x =>
      have h0 := hsub _ _ _ _ (by intro cid e; cases e) h1
      rw [hinv.coh _ _ _ _ h0]
      unfold fresh
      congr 1
      symm
      by_cases e : h = x
      · subst e; exact hglyph nm sk v hs
      · by_cases hex : ∃ gx k c m, AL.get? w1.glyphs x = some gx ∧ k ∈ gx.comps ∧ k.base = some c ∧
            ReadsN w1.glyphs m c h
        · rcases hrel with hrel | hrel
          · exfalso
            obtain ⟨gx, k, c, m, hgx, hk, hb, hrd⟩ := hex
            obtain ⟨d, y, hd, hy, hhit⟩ := cascade_hits_glyph T hcov w1.glyphs w1.fuel h ns hdom.bounded hdom.watch
              hh hrel hgx hk hb hrd (regs := w.regs) hinv.rdef (hinv.creg _ _ _ _ h0).1
            exact not_survivor hs (by rw [hr]; exact hd) (hD _ hy) hhit
          · exact view_glyph_other T w w1 h g g' hg hgs hf x e nm (Or.inl hrel)
        · exact view_glyph_other T w w1 h g g' hg hgs hf x e nm
            (Or.inr (fun gx k c m a1 a2 a3 a4 => hex ⟨gx, k, c, m, a1, a2, a3, a4⟩))
    | comp kid =>
      have h0 := hsub _ _ _ _ (by intro cid e; cases e) h1
      rw [hinv.coh _ _ _ _ h0]
      unfold fresh
      congr 1
      symm
      rcases hcomp kid with hsame | hother
      · cases hk : findComp w kid with
        | none => simp [viewOf, hsame, hk]
        | some k =>
          have hk1 : findComp w1 kid = some k := by rw [hsame, hk]
          by_cases hex : ∃ c m, k.base = some c ∧ ReadsN w1.glyphs m c h
          · rcases hrel with hrel | hrel
            · by_cases hbi : isBuiltin T "Component" nm = true
              · exfalso
                obtain ⟨c, m, hb, hrd⟩ := hex
                -- attached, else nothing is cached
                have hatt : attached w1 (.comp kid) = true := by
                  cases hc : attached w1 (.comp kid) with
                  | true => rfl
                  | false =>
                    have := hloose (.comp kid) hc nm sk
                    rw [this] at h1; cases h1
                obtain ⟨x', gx', hgx', hkm⟩ := findComp_attached w1 hdom.ids.keys kid k hatt hk1
                obtain ⟨d, y, hd, hy, hhit⟩ := cascade_hits_comp T hcov w1.glyphs w1.fuel h ns hdom.bounded
                  hdom.watch hh hrel hgx' hkm hb hrd hbi
                rw [findComp_id hk1] at hy
                exact not_survivor hs (mem_facsOf_builtin hd) (hD _ hy) hhit
              · -- a default-registered factory reads only the component's own record
                unfold viewOf
                simp only [hk1, hk, Option.map_some, Option.getD_some]
                unfold compView
                simp [hbi]
            · exact view_comp_same T w w1 h g g' hg hgs hf kid k hk1 hk nm (Or.inl hrel)
          · exact view_comp_same T w w1 h g g' hg hgs hf kid k hk1 hk nm
              (Or.inr (fun c m a1 a2 => hex ⟨c, m, a1, a2⟩))
      · exact hother nm sk v hs
  · -- loose objects stay empty
    intro o ha nm sk
    rw [attached_congr hss] at ha
    cases hc : (cacheOf (applyDeliv T w1 ds) o).get? nm sk with
    | none => rfl
    | some v =>
      have := (get?_applyDeliv T w1 ds o nm sk v hc).1
      rw [hloose o ha nm sk] at this
      cases this
  · intro o nm sk v hs
    have h1 := (get?_applyDeliv T w1 ds o nm sk v hs).1
    rw [hss.regs]
    exact hcreg _ _ _ _ h1
  · intro r hr'
    rw [hss.regs, hr] at hr'
    exact hinv.rdef r hr'

/-- contours: an entry that was cached before and whose view is unchanged stays right -/
theorem cont_of_view (P : Params V) (T : Tables) {w w1 : World V} (hinv : Inv P T w) {cid : Nat} {nm : String}
    {sk : SubKey} {v : V} (h0 : (cacheOf w (.contour cid)).get? nm sk = some v)
    (hv : viewOf T w1 (.contour cid) nm = viewOf T w (.contour cid) nm) :
    v = P.f "Contour" nm (viewOf T w1 (.contour cid) nm) sk := by
  rw [hv]; exact hinv.coh _ _ _ _ h0

theorem fuel_pos {gs : Layer} {fuel : Nat} (hb : Bounded gs fuel) : ∃ j, fuel = j + 1 :=
  ⟨fuel - 1, by have := hb 0 "" "" (ReadsN.refl ""); omega⟩

theorem glyphDeliv_self' {fuel : Nat} {T : Tables} {gs : Layer} {a : String} {ns : List String} {y : String}
    (hb : Bounded gs fuel) (hy : y ∈ ns) : (Obj.glyph a, y) ∈ glyphDeliv fuel T gs a ns := by
  obtain ⟨j, hj⟩ := fuel_pos hb
  subst hj
  exact glyphDeliv_self hy

theorem cacheOf_eq_of_caches {w w1 : World V} (h : w1.caches = w.caches) (o : Obj) : cacheOf w1 o = cacheOf w o := by
  unfold cacheOf; rw [h]

/-- the glyph that posted a list which `hitsAll` keeps no entry -/
theorem glyph_self_dead (T : Tables) {w w1 : World V} (hrdef : RegsDefault T w) (hr : w1.regs = w.regs)
    {h : String} {ns : List String} {ds : List (Obj × String)} (hall : hitsAll T "Glyph" ns = true)
    (hb : Bounded w1.glyphs w1.fuel) (hD : ∀ y, y ∈ glyphDeliv w1.fuel T w1.glyphs h ns → y ∈ ds)
    (hcreg : CachedRegistered T w1) {nm : String} {sk : SubKey} {v : V}
    (hs : (cacheOf (applyDeliv T w1 ds) (.glyph h)).get? nm sk = some v) : False := by
  have h1 := (get?_applyDeliv T w1 ds _ nm sk v hs).1
  have hreg := (hcreg _ _ _ _ h1).1
  obtain ⟨d, y, hd, hy, hh⟩ := hits_of_hitsAll (regs := w1.regs) (by rw [hr]; exact hrdef) hall hreg
  exact not_survivor hs hd (hD _ (glyphDeliv_self' hb hy)) hh

/-- no entry at all: nothing to check -/
theorem no_entry_of_loose {w : World V} (hl : LooseEmpty w) {o : Obj} (ha : attached w o = false)
    {w1 : World V} (hc : w1.caches = w.caches) {T : Tables} {ds : List (Obj × String)} {nm : String} {sk : SubKey}
    {v : V} (hs : (cacheOf (applyDeliv T w1 ds) o).get? nm sk = some v) : False := by
  have h1 := (get?_applyDeliv T w1 ds _ nm sk v hs).1
  rw [cacheOf_eq_of_caches hc, hl o ha nm sk] at h1
  cases h1

theorem hasContour_insertAt (r : GlyphS) (idx : Nat) (c : ContourS) (cid : Nat) (hne : c.id ≠ cid) :
    hasContour cid { r with contours := insertAt r.contours idx c } = hasContour cid r := by
  unfold hasContour
  exact any_insertAt _ _ _ _ (by simpa using hne)

theorem contourIn_insertAt (r : GlyphS) (idx : Nat) (c : ContourS) (cid : Nat) (hne : c.id ≠ cid) :
    contourIn { r with contours := insertAt r.contours idx c } cid = contourIn r cid := by
  unfold contourIn
  exact find?_insertAt _ _ _ _ (by simpa using hne)

/-- `insertContour` of a loose contour -/
theorem inv_insContour (P : Params V) (T : Tables) (hcov : Coverage T = true) (w : World V) (g : String)
    (cid idx : Nat) (hinv : Inv P T w) (hdom : Dom w) (hdom' : Dom (doInsContour T w g cid idx).1) :
    Inv P T (doInsContour T w g cid idx).1 := by
  unfold doInsContour at hdom' ⊢
  cases hr : AL.get? w.glyphs g with
  | none => simpa [hr] using hinv
  | some r =>
    cases hc : w.looseC.find? (fun c => c.id = cid) with
    | none => simpa [hr, hc] using hinv
    | some c =>
      simp only [hr, hc] at hdom' ⊢
      unfold glyphChange at hdom' ⊢
      have hcid : c.id = cid := by simpa using List.find?_some hc
      have hcm : c ∈ w.looseC := List.mem_of_find?_eq_some hc
      have hnatt : attached w (.contour cid) = false := by
        have := hdom.ids.looseC c hcm
        rw [hcid] at this
        simpa [attached] using this
      generalize hw1 : ({ ({ w with looseC := w.looseC.filter (fun c => c.id != cid) } : World V) with
          glyphs := updGlyph w.glyphs g fun r => { r with contours := insertAt r.contours idx c } } : World V) = w1
          at hdom' ⊢
      have hgs : w1.glyphs = AL.set w.glyphs g { r with contours := insertAt r.contours idx c } := by
        rw [← hw1]; exact updGlyph_eq_set _ hr
      have hf : w1.fuel = w.fuel := by rw [← hw1]
      have hrg : w1.regs = w.regs := by rw [← hw1]
      have hgv : w1.groupsVer = w.groupsVer := by rw [← hw1]
      have hca : w1.caches = w.caches := by rw [← hw1]
      have hlc : w1.looseC = w.looseC.filter (fun c => c.id != cid) := by rw [← hw1]
      have hlk : w1.looseK = w.looseK := by rw [← hw1]
      have hd1 := Dom.congr (sameStruct_applyDeliv T _ _).symm hdom'
      have hcg := cov_glyphOutline hcov (m := "insertContour") (by simp [glyphOutlineMethods])
      have hcreg1 : CachedRegistered T w1 := by
        intro o nm sk v hv
        rw [cacheOf_eq_of_caches hca] at hv
        rw [hrg]; exact hinv.creg _ _ _ _ hv
      refine inv_glyph_local P T hcov w w1 g r _ (T.postsOf "Glyph" "insertContour") _ hinv hr hgs hf hrg hgv
        hd1 (fun y hy => hy) (Or.inl hcg.2) (fun o nm sk v _ hv => by rw [cacheOf_eq_of_caches hca] at hv; exact hv)
        hcreg1 ?_ ?_ ?_ ?_
      · -- loose
        intro o ha
        rw [cacheOf_eq_of_caches hca]
        by_cases e : o = .contour cid
        · subst e; exact hinv.loose _ hnatt
        · have : attached w o = false := by
            rw [← ha]; symm
            cases o with
            | contour cid' =>
              have hne : c.id ≠ cid' := by rw [hcid]; intro e'; exact e (by rw [e'])
              exact attached_contour_set w w1 g r _ hdom.ids.keys hr hgs cid' (hasContour_insertAt r idx c cid' hne)
            | comp kid => exact attached_comp_set w w1 g r _ hdom.ids.keys hr hgs kid rfl
            | glyph x => exact attached_glyph_set w w1 g r _ hr hgs x
            | groups => rfl
          exact hinv.loose o this
      · intro nm sk v hs
        exact (glyph_self_dead T hinv.rdef hrg hcg.1 hd1.bounded (fun y hy => hy) hcreg1 hs).elim
      · intro cid' nm sk v hs
        by_cases e : cid' = cid
        · subst e
          exact (no_entry_of_loose hinv.loose hnatt hca hs).elim
        · have hne : c.id ≠ cid' := by rw [hcid]; exact fun e' => e e'.symm
          have h1 := (get?_applyDeliv T _ _ _ nm sk v hs).1
          rw [cacheOf_eq_of_caches hca] at h1
          refine cont_of_view P T hinv h1
            (viewOf_contour_of_find T (findContour_set w w1 g r _ hdom.ids.keys hr hgs cid' ?_
              (hasContour_insertAt r idx c cid' hne) (contourIn_insertAt r idx c cid' hne)) nm)
          rw [hlc]
          exact find?_filter_of_imp _ _ _ (by
            intro x hx
            simp only [decide_eq_true_eq] at hx
            simp only [bne_iff_ne, ne_eq]
            rw [hx]; exact e)
      · intro kid
        exact Or.inl (findComp_set w w1 g r _ hdom.ids.keys hr hgs kid (by rw [hlk]) rfl rfl)

theorem ne_imp_bne {cid cid' : Nat} (e : cid' ≠ cid) (x : ContourS) (hx : decide (x.id = cid') = true) :
    (x.id != cid) = true := by
  simp only [decide_eq_true_eq] at hx
  simp only [bne_iff_ne, ne_eq]
  rw [hx]; exact e

theorem ne_imp_bneK {kid kid' : Nat} (e : kid' ≠ kid) (x : CompS) (hx : decide (x.id = kid') = true) :
    (x.id != kid) = true := by
  simp only [decide_eq_true_eq] at hx
  simp only [bne_iff_ne, ne_eq]
  rw [hx]; exact e

/-- `removeContour` -/
theorem inv_remContour (P : Params V) (T : Tables) (hcov : Coverage T = true) (w : World V) (g : String)
    (cid : Nat) (hinv : Inv P T w) (hdom : Dom w) (hdom' : Dom (doRemContour T w g cid).1) :
    Inv P T (doRemContour T w g cid).1 := by
  unfold doRemContour at hdom' ⊢
  cases hr : AL.get? w.glyphs g with
  | none => simpa [hr] using hinv
  | some r =>
    cases hc : contourIn r cid with
    | none => simpa [hr, hc] using hinv
    | some c =>
      simp only [hr, hc] at hdom' ⊢
      unfold glyphChange at hdom' ⊢
      have hcid : c.id = cid := by simpa [contourIn] using List.find?_some hc
      generalize hw1 : ({ (dropCache ({ w with looseC := w.looseC ++ [c] } : World V) (.contour cid)) with
          glyphs := updGlyph (dropCache ({ w with looseC := w.looseC ++ [c] } : World V) (.contour cid)).glyphs g
            fun r => { r with contours := r.contours.filter fun c => c.id != cid } } : World V) = w1
          at hdom' ⊢
      have hgs : w1.glyphs = AL.set w.glyphs g { r with contours := r.contours.filter fun c => c.id != cid } := by
        rw [← hw1]; exact updGlyph_eq_set _ hr
      have hf : w1.fuel = w.fuel := by rw [← hw1]; rfl
      have hrg : w1.regs = w.regs := by rw [← hw1]; rfl
      have hgv : w1.groupsVer = w.groupsVer := by rw [← hw1]; rfl
      have hca : ∀ o, cacheOf w1 o = if Obj.contour cid = o then [] else cacheOf w o := by
        intro o; rw [← hw1]; exact cacheOf_dropCache _ _ o
      have hlc : w1.looseC = w.looseC ++ [c] := by rw [← hw1]; rfl
      have hlk : w1.looseK = w.looseK := by rw [← hw1]; rfl
      have hsub : ∀ o nm sk v, (cacheOf w1 o).get? nm sk = some v → (cacheOf w o).get? nm sk = some v := by
        intro o nm sk v hv
        rw [hca] at hv
        by_cases e : Obj.contour cid = o
        · simp [e, Cache.get?] at hv
        · simpa [e] using hv
      have hd1 := Dom.congr (sameStruct_applyDeliv T _ _).symm hdom'
      have hcg := cov_glyphOutline hcov (m := "removeContour") (by simp [glyphOutlineMethods])
      have hcreg1 : CachedRegistered T w1 := by
        intro o nm sk v hv
        rw [hrg]; exact hinv.creg _ _ _ _ (hsub _ _ _ _ hv)
      have hgone : ∀ nm sk, (cacheOf w1 (.contour cid)).get? nm sk = none := by
        intro nm sk; rw [hca]; simp [Cache.get?]
      refine inv_glyph_local P T hcov w w1 g r _ (T.postsOf "Glyph" "removeContour") _ hinv hr hgs hf hrg hgv
        hd1 (fun y hy => hy) (Or.inl hcg.2) (fun o nm sk v _ hv => hsub o nm sk v hv)
        hcreg1 ?_ ?_ ?_ ?_
      · -- loose
        intro o ha nm sk
        by_cases e : o = .contour cid
        · subst e; exact hgone nm sk
        · have : attached w o = false := by
            rw [← ha]; symm
            cases o with
            | contour cid' =>
              have hne : cid' ≠ cid := by intro e'; exact e (by rw [e'])
              exact attached_contour_set w w1 g r _ hdom.ids.keys hr hgs cid'
                (any_filter_of_imp _ _ _ (ne_imp_bne hne))
            | comp kid => exact attached_comp_set w w1 g r _ hdom.ids.keys hr hgs kid rfl
            | glyph x => exact attached_glyph_set w w1 g r _ hr hgs x
            | groups => rfl
          cases hv : (cacheOf w1 o).get? nm sk with
          | none => rfl
          | some v =>
            have h2 := hsub _ _ _ _ hv
            rw [hinv.loose o this nm sk] at h2
            cases h2
      · intro nm sk v hs
        exact (glyph_self_dead T hinv.rdef hrg hcg.1 hd1.bounded (fun y hy => hy) hcreg1 hs).elim
      · intro cid' nm sk v hs
        have h1 := (get?_applyDeliv T _ _ _ nm sk v hs).1
        by_cases e : cid' = cid
        · subst e
          rw [hgone] at h1; cases h1
        · have hne : c.id ≠ cid' := by rw [hcid]; exact fun e' => e e'.symm
          refine cont_of_view P T hinv (hsub _ _ _ _ h1)
            (viewOf_contour_of_find T (findContour_set w w1 g r _ hdom.ids.keys hr hgs cid' ?_
              (any_filter_of_imp _ _ _ (ne_imp_bne e)) (find?_filter_of_imp _ _ _ (ne_imp_bne e))) nm)
          rw [hlc]
          exact find?_append_single _ _ _ (by simpa using hne)
      · intro kid
        exact Or.inl (findComp_set w w1 g r _ hdom.ids.keys hr hgs kid (by rw [hlk]) rfl rfl)

/-- `insertComponent` of a loose component -/
theorem inv_insComp (P : Params V) (T : Tables) (hcov : Coverage T = true) (w : World V) (g : String)
    (kid idx : Nat) (hinv : Inv P T w) (hdom : Dom w) (hdom' : Dom (doInsComp T w g kid idx).1) :
    Inv P T (doInsComp T w g kid idx).1 := by
  unfold doInsComp at hdom' ⊢
  cases hr : AL.get? w.glyphs g with
  | none => simpa [hr] using hinv
  | some r =>
    cases hc : w.looseK.find? (fun k => k.id = kid) with
    | none => simpa [hr, hc] using hinv
    | some k =>
      simp only [hr, hc] at hdom' ⊢
      unfold glyphChange at hdom' ⊢
      have hkid : k.id = kid := by simpa using List.find?_some hc
      have hkm : k ∈ w.looseK := List.mem_of_find?_eq_some hc
      have hnatt : attached w (.comp kid) = false := by
        have := hdom.ids.looseK k hkm
        rw [hkid] at this
        simpa [attached] using this
      generalize hw1 : ({ ({ w with looseK := w.looseK.filter (fun k => k.id != kid) } : World V) with
          glyphs := updGlyph w.glyphs g fun r =>
            { r with comps := insertAt r.comps idx { k with watch := watchFor w.glyphs k.base } } } : World V) = w1
          at hdom' ⊢
      have hgs : w1.glyphs = AL.set w.glyphs g
          { r with comps := insertAt r.comps idx { k with watch := watchFor w.glyphs k.base } } := by
        rw [← hw1]; exact updGlyph_eq_set _ hr
      have hf : w1.fuel = w.fuel := by rw [← hw1]
      have hrg : w1.regs = w.regs := by rw [← hw1]
      have hgv : w1.groupsVer = w.groupsVer := by rw [← hw1]
      have hca : w1.caches = w.caches := by rw [← hw1]
      have hlc : w1.looseC = w.looseC := by rw [← hw1]
      have hlk : w1.looseK = w.looseK.filter (fun k => k.id != kid) := by rw [← hw1]
      have hd1 := Dom.congr (sameStruct_applyDeliv T _ _).symm hdom'
      have hcg := cov_glyphOutline hcov (m := "insertComponent") (by simp [glyphOutlineMethods])
      have hcreg1 : CachedRegistered T w1 := by
        intro o nm sk v hv
        rw [cacheOf_eq_of_caches hca] at hv
        rw [hrg]; exact hinv.creg _ _ _ _ hv
      have hother : ∀ kid', kid' ≠ kid →
          hasComp kid' { r with comps := insertAt r.comps idx { k with watch := watchFor w.glyphs k.base } } = hasComp kid' r ∧
          compIn { r with comps := insertAt r.comps idx { k with watch := watchFor w.glyphs k.base } } kid' = compIn r kid' := by
        intro kid' e
        have hne : ¬ (k.id = kid') := by rw [hkid]; exact fun e' => e e'.symm
        exact ⟨any_insertAt _ _ _ _ (by simpa using hne), find?_insertAt _ _ _ _ (by simpa using hne)⟩
      refine inv_glyph_local P T hcov w w1 g r _ (T.postsOf "Glyph" "insertComponent") _ hinv hr hgs hf hrg hgv
        hd1 (fun y hy => hy) (Or.inl hcg.2) (fun o nm sk v _ hv => by rw [cacheOf_eq_of_caches hca] at hv; exact hv)
        hcreg1 ?_ ?_ ?_ ?_
      · -- loose
        intro o ha
        rw [cacheOf_eq_of_caches hca]
        by_cases e : o = .comp kid
        · subst e; exact hinv.loose _ hnatt
        · have : attached w o = false := by
            rw [← ha]; symm
            cases o with
            | contour cid' => exact attached_contour_set w w1 g r _ hdom.ids.keys hr hgs cid' rfl
            | comp kid' =>
              have hne : kid' ≠ kid := by intro e'; exact e (by rw [e'])
              exact attached_comp_set w w1 g r _ hdom.ids.keys hr hgs kid' (hother kid' hne).1
            | glyph x => exact attached_glyph_set w w1 g r _ hr hgs x
            | groups => rfl
          exact hinv.loose o this
      · intro nm sk v hs
        exact (glyph_self_dead T hinv.rdef hrg hcg.1 hd1.bounded (fun y hy => hy) hcreg1 hs).elim
      · intro cid' nm sk v hs
        have h1 := (get?_applyDeliv T _ _ _ nm sk v hs).1
        rw [cacheOf_eq_of_caches hca] at h1
        exact cont_of_view P T hinv h1
          (viewOf_contour_of_find T (findContour_set w w1 g r _ hdom.ids.keys hr hgs cid' (by rw [hlc]) rfl rfl) nm)
      · intro kid'
        by_cases e : kid' = kid
        · subst e
          exact Or.inr (fun nm sk v hs => (no_entry_of_loose hinv.loose hnatt hca hs).elim)
        · refine Or.inl (findComp_set w w1 g r _ hdom.ids.keys hr hgs kid' ?_ (hother kid' e).1 (hother kid' e).2)
          rw [hlk]
          exact find?_filter_of_imp _ _ _ (ne_imp_bneK e)

/-- `removeComponent` -/
theorem inv_remComp (P : Params V) (T : Tables) (hcov : Coverage T = true) (w : World V) (g : String)
    (kid : Nat) (hinv : Inv P T w) (hdom : Dom w) (hdom' : Dom (doRemComp T w g kid).1) :
    Inv P T (doRemComp T w g kid).1 := by
  unfold doRemComp at hdom' ⊢
  cases hr : AL.get? w.glyphs g with
  | none => simpa [hr] using hinv
  | some r =>
    cases hc : compIn r kid with
    | none => simpa [hr, hc] using hinv
    | some k =>
      simp only [hr, hc] at hdom' ⊢
      unfold glyphChange at hdom' ⊢
      have hkid : k.id = kid := by simpa [compIn] using List.find?_some hc
      generalize hw1 : ({ (dropCache ({ w with looseK := w.looseK ++ [{ k with watch := Watch.none }] } : World V) (.comp kid)) with
          glyphs := updGlyph (dropCache ({ w with looseK := w.looseK ++ [{ k with watch := Watch.none }] } : World V) (.comp kid)).glyphs g
            fun r => { r with comps := r.comps.filter fun k => k.id != kid } } : World V) = w1
          at hdom' ⊢
      have hgs : w1.glyphs = AL.set w.glyphs g { r with comps := r.comps.filter fun k => k.id != kid } := by
        rw [← hw1]; exact updGlyph_eq_set _ hr
      have hf : w1.fuel = w.fuel := by rw [← hw1]; rfl
      have hrg : w1.regs = w.regs := by rw [← hw1]; rfl
      have hgv : w1.groupsVer = w.groupsVer := by rw [← hw1]; rfl
      have hca : ∀ o, cacheOf w1 o = if Obj.comp kid = o then [] else cacheOf w o := by
        intro o; rw [← hw1]; exact cacheOf_dropCache _ _ o
      have hlc : w1.looseC = w.looseC := by rw [← hw1]; rfl
      have hlk : w1.looseK = w.looseK ++ [{ k with watch := Watch.none }] := by rw [← hw1]; rfl
      have hsub : ∀ o nm sk v, (cacheOf w1 o).get? nm sk = some v → (cacheOf w o).get? nm sk = some v := by
        intro o nm sk v hv
        rw [hca] at hv
        by_cases e : Obj.comp kid = o
        · simp [e, Cache.get?] at hv
        · simpa [e] using hv
      have hd1 := Dom.congr (sameStruct_applyDeliv T _ _).symm hdom'
      have hcg := cov_glyphOutline hcov (m := "removeComponent") (by simp [glyphOutlineMethods])
      have hcreg1 : CachedRegistered T w1 := by
        intro o nm sk v hv
        rw [hrg]; exact hinv.creg _ _ _ _ (hsub _ _ _ _ hv)
      have hgone : ∀ nm sk, (cacheOf w1 (.comp kid)).get? nm sk = none := by
        intro nm sk; rw [hca]; simp [Cache.get?]
      refine inv_glyph_local P T hcov w w1 g r _ (T.postsOf "Glyph" "removeComponent") _ hinv hr hgs hf hrg hgv
        hd1 (fun y hy => hy) (Or.inl hcg.2) (fun o nm sk v _ hv => hsub o nm sk v hv)
        hcreg1 ?_ ?_ ?_ ?_
      · -- loose
        intro o ha nm sk
        by_cases e : o = .comp kid
        · subst e; exact hgone nm sk
        · have : attached w o = false := by
            rw [← ha]; symm
            cases o with
            | contour cid' => exact attached_contour_set w w1 g r _ hdom.ids.keys hr hgs cid' rfl
            | comp kid' =>
              have hne : kid' ≠ kid := by intro e'; exact e (by rw [e'])
              exact attached_comp_set w w1 g r _ hdom.ids.keys hr hgs kid'
                (any_filter_of_imp _ _ _ (ne_imp_bneK hne))
            | glyph x => exact attached_glyph_set w w1 g r _ hr hgs x
            | groups => rfl
          cases hv : (cacheOf w1 o).get? nm sk with
          | none => rfl
          | some v =>
            have h2 := hsub _ _ _ _ hv
            rw [hinv.loose o this nm sk] at h2
            cases h2
      · intro nm sk v hs
        exact (glyph_self_dead T hinv.rdef hrg hcg.1 hd1.bounded (fun y hy => hy) hcreg1 hs).elim
      · intro cid' nm sk v hs
        have h1 := (get?_applyDeliv T _ _ _ nm sk v hs).1
        exact cont_of_view P T hinv (hsub _ _ _ _ h1)
          (viewOf_contour_of_find T (findContour_set w w1 g r _ hdom.ids.keys hr hgs cid' (by rw [hlc]) rfl rfl) nm)
      · intro kid'
        by_cases e : kid' = kid
        · subst e
          refine Or.inr (fun nm sk v hs => ?_)
          have h1 := (get?_applyDeliv T _ _ _ nm sk v hs).1
          rw [hgone] at h1; cases h1
        · refine Or.inl (findComp_set w w1 g r _ hdom.ids.keys hr hgs kid' ?_
            (any_filter_of_imp _ _ _ (ne_imp_bneK e)) (find?_filter_of_imp _ _ _ (ne_imp_bneK e)))
          rw [hlk]
          have hne : ¬ (k.id = kid') := by rw [hkid]; exact fun e' => e e'.symm
          exact find?_append_single _ _ _ (by simpa using hne)

/-- nothing an attached object can see changes, the caches are kept -/
theorem inv_of_same_views (P : Params V) (T : Tables) (w w' : World V) (hinv : Inv P T w)
    (hca : w'.caches = w.caches) (hrg : w'.regs = w.regs)
    (hatt : ∀ o, attached w' o = attached w o)
    (hview : ∀ o nm, attached w o = true → viewOf T w' o nm = viewOf T w o nm) : Inv P T w' := by
  refine ⟨?_, ?_, ?_, ?_⟩
  · intro o nm sk v hv
    rw [cacheOf_eq_of_caches hca] at hv
    have ha : attached w o = true := by
      cases h : attached w o with
      | true => rfl
      | false => rw [hinv.loose o h nm sk] at hv; cases hv
    unfold fresh
    rw [hview o nm ha]
    exact hinv.coh _ _ _ _ hv
  · intro o ha nm sk
    rw [cacheOf_eq_of_caches hca]
    exact hinv.loose o (by rw [← hatt]; exact ha) nm sk
  · intro o nm sk v hv
    rw [cacheOf_eq_of_caches hca] at hv
    rw [hrg]; exact hinv.creg _ _ _ _ hv
  · intro r hr; rw [hrg] at hr; exact hinv.rdef r hr

/-- a change to the loose lists only -/
theorem inv_loose_change (P : Params V) (T : Tables) (w w' : World V) (hinv : Inv P T w)
    (hca : w'.caches = w.caches) (hrg : w'.regs = w.regs) (hgl : w'.glyphs = w.glyphs) (hf : w'.fuel = w.fuel)
    (hgv : w'.groupsVer = w.groupsVer) : Inv P T w' := by
  apply inv_of_same_views P T w w' hinv hca hrg
  · intro o; cases o <;> simp [attached, hgl]
  · intro o nm ha
    cases o with
    | contour cid =>
      simp only [attached] at ha
      simp only [viewOf, findContour, hgl]
      cases hh : hostOfContour w.glyphs cid with
      | none => rw [hh] at ha; cases ha
      | some p => rfl
    | comp kid =>
      simp only [attached] at ha
      simp only [viewOf, findComp, hgl, hf]
      cases hh : hostOfComp w.glyphs kid with
      | none => rw [hh] at ha; cases ha
      | some p => rfl
    | glyph x => simp only [viewOf, hgl, hf]
    | groups => simp only [viewOf, hgv]

theorem host_get_contour {gs : Layer} {cid : Nat} {h : String × GlyphS} (hn : (AL.keys gs).Nodup)
    (hh : hostOfContour gs cid = some h) : AL.get? gs h.1 = some h.2 ∧ hasContour cid h.2 = true := by
  unfold hostOfContour at hh
  exact ⟨AL.get?_of_mem_nodup hn (List.mem_of_find?_eq_some hh), by simpa using List.find?_some hh⟩

theorem host_get_comp {gs : Layer} {kid : Nat} {h : String × GlyphS} (hn : (AL.keys gs).Nodup)
    (hh : hostOfComp gs kid = some h) : AL.get? gs h.1 = some h.2 ∧ hasComp kid h.2 = true := by
  unfold hostOfComp at hh
  exact ⟨AL.get?_of_mem_nodup hn (List.mem_of_find?_eq_some hh), by simpa using List.find?_some hh⟩

theorem find?_map_self {α : Type} (l : List α) (fn : α → α) (q : α → Bool) (h : ∀ x, q (fn x) = q x) :
    (l.map fun x => if q x then fn x else x).find? q = (l.find? q).map fn := by
  induction l with
  | nil => rfl
  | cons a r ih =>
    simp only [List.map_cons, List.find?_cons]
    cases hq : q a with
    | true => simp [h a, hq]
    | false => simp [hq, ih]

theorem bumpContour_id (clock : Nat) (cell : CCell) (c : ContourS) : (bumpContour clock cell c).id = c.id := by
  cases cell <;> rfl

theorem bumpComp_id (clock : Nat) (cell : CCell) (k : CompS) : (bumpComp clock cell k).id = k.id := by
  cases cell <;> rfl

theorem hasContour_mapContours (cid cid' : Nat) (fn : ContourS → ContourS) (hid : ∀ c, (fn c).id = c.id)
    (r : GlyphS) : hasContour cid' (mapContours cid fn r) = hasContour cid' r := by
  unfold hasContour mapContours
  apply any_map_pres
  intro x
  by_cases e : x.id = cid <;> simp [e, hid]

theorem contourIn_mapContours_other (cid cid' : Nat) (hne : cid' ≠ cid) (fn : ContourS → ContourS)
    (hid : ∀ c, (fn c).id = c.id) (r : GlyphS) : contourIn (mapContours cid fn r) cid' = contourIn r cid' := by
  unfold contourIn mapContours
  apply find?_map_id_pres
  · intro x
    by_cases e : x.id = cid <;> simp [e, hid]
  · intro x hx
    simp only [decide_eq_true_eq] at hx
    have : ¬ x.id = cid := by rw [hx]; exact hne
    simp [this]

theorem contourIn_mapContours_self (cid : Nat) (fn : ContourS → ContourS)
    (hid : ∀ c, (fn c).id = c.id) (r : GlyphS) :
    contourIn (mapContours cid fn r) cid = (contourIn r cid).map fn := by
  unfold contourIn mapContours
  have := find?_map_self r.contours fn (fun c => decide (c.id = cid)) (by intro x; simp [hid])
  simpa using this

theorem hasComp_mapComps (kid kid' : Nat) (fn : CompS → CompS) (hid : ∀ c, (fn c).id = c.id)
    (r : GlyphS) : hasComp kid' (mapComps kid fn r) = hasComp kid' r := by
  unfold hasComp mapComps
  apply any_map_pres
  intro x
  by_cases e : x.id = kid <;> simp [e, hid]

theorem compIn_mapComps_other (kid kid' : Nat) (hne : kid' ≠ kid) (fn : CompS → CompS)
    (hid : ∀ c, (fn c).id = c.id) (r : GlyphS) : compIn (mapComps kid fn r) kid' = compIn r kid' := by
  unfold compIn mapComps
  apply find?_map_id_pres
  · intro x
    by_cases e : x.id = kid <;> simp [e, hid]
  · intro x hx
    simp only [decide_eq_true_eq] at hx
    have : ¬ x.id = kid := by rw [hx]; exact hne
    simp [this]

theorem compIn_mapComps_self (kid : Nat) (fn : CompS → CompS)
    (hid : ∀ c, (fn c).id = c.id) (r : GlyphS) :
    compIn (mapComps kid fn r) kid = (compIn r kid).map fn := by
  unfold compIn mapComps
  have := find?_map_self r.comps fn (fun c => decide (c.id = kid)) (by intro x; simp [hid])
  simpa using this

theorem changed_lit : ("Contour" ++ ".Changed") = "Contour.Changed" := by decide
theorem changed_litK : ("Component" ++ ".Changed") = "Component.Changed" := by decide

theorem contourDeliv_self {n : Nat} {T : Tables} {gs : Layer} {h : String} {cid : Nat} {ns : List String}
    {y : String} (hy : y ∈ ns) : (Obj.contour cid, y) ∈ contourDeliv n T gs h cid ns := by
  unfold contourDeliv
  apply List.mem_append_left
  rw [List.mem_map]; exact ⟨y, hy, rfl⟩

theorem contourDeliv_glyph {n : Nat} {T : Tables} {gs : Layer} {h : String} {cid : Nat} {ns : List String}
    (hc : ns.contains "Contour.Changed" = true) {y : Obj × String}
    (hy : y ∈ glyphDeliv n T gs h (T.postsOf "Glyph" "_contourChanged")) : y ∈ contourDeliv n T gs h cid ns := by
  unfold contourDeliv
  apply List.mem_append_right
  simp only [hc, if_true]; exact hy

theorem findContour_at_host (w w1 : World V) (cid : Nat) (h : String × GlyphS) (g' : GlyphS)
    (hn : (AL.keys w.glyphs).Nodup) (hh : hostOfContour w.glyphs cid = some h)
    (hgs : w1.glyphs = AL.set w.glyphs h.1 g') (hhas : hasContour cid g' = hasContour cid h.2) :
    findContour w1 cid = contourIn g' cid ∧ findContour w cid = contourIn h.2 cid := by
  obtain ⟨hg, _⟩ := host_get_contour hn hh
  unfold findContour
  refine ⟨?_, by rw [hh]⟩
  unfold hostOfContour at hh ⊢
  rcases host_set w w1 h.1 h.2 g' (hasContour cid) hn hg hgs hhas with ⟨_, h2⟩ | ⟨p, h2, ⟨_, _, h1⟩ | ⟨e1, _⟩⟩
  · rw [hh] at h2; cases h2
  · rw [h1]
  · rw [hh] at h2; cases h2; exact absurd rfl e1

theorem findComp_at_host (w w1 : World V) (kid : Nat) (h : String × GlyphS) (g' : GlyphS)
    (hn : (AL.keys w.glyphs).Nodup) (hh : hostOfComp w.glyphs kid = some h)
    (hgs : w1.glyphs = AL.set w.glyphs h.1 g') (hhas : hasComp kid g' = hasComp kid h.2) :
    findComp w1 kid = compIn g' kid ∧ findComp w kid = compIn h.2 kid := by
  obtain ⟨hg, _⟩ := host_get_comp hn hh
  unfold findComp
  refine ⟨?_, by rw [hh]⟩
  unfold hostOfComp at hh ⊢
  rcases host_set w w1 h.1 h.2 g' (hasComp kid) hn hg hgs hhas with ⟨_, h2⟩ | ⟨p, h2, ⟨_, _, h1⟩ | ⟨e1, _⟩⟩
  · rw [hh] at h2; cases h2
  · rw [h1]
  · rw [hh] at h2; cases h2; exact absurd rfl e1

theorem contourIn_of_has {r : GlyphS} {cid : Nat} (h : hasContour cid r = true) : ∃ c, contourIn r cid = some c := by
  unfold hasContour at h
  unfold contourIn
  rw [List.any_eq_true] at h
  obtain ⟨c, hc, hq⟩ := h
  cases hf : r.contours.find? (fun c => decide (c.id = cid)) with
  | some c' => exact ⟨c', rfl⟩
  | none =>
    have := List.find?_eq_none.mp hf c hc
    exact absurd hq this

theorem compIn_of_has {r : GlyphS} {kid : Nat} (h : hasComp kid r = true) : ∃ c, compIn r kid = some c := by
  unfold hasComp at h
  unfold compIn
  rw [List.any_eq_true] at h
  obtain ⟨c, hc, hq⟩ := h
  cases hf : r.comps.find? (fun c => decide (c.id = kid)) with
  | some c' => exact ⟨c', rfl⟩
  | none =>
    have := List.find?_eq_none.mp hf c hc
    exact absurd hq this

/-- a declared Contour mutator (`cmut`) -/
theorem inv_cmut (P : Params V) (T : Tables) (hcov : Coverage T = true) (w : World V) (cid : Nat) (meth : String)
    (hinv : Inv P T w) (hdom : Dom w) (hdom' : Dom (doCmut T w cid meth).1) : Inv P T (doCmut T w cid meth).1 := by
  unfold doCmut at hdom' ⊢
  cases hm : AL.get? contourMutators meth with
  | none => simpa [hm] using hinv
  | some cell =>
    cases hh : hostOfContour w.glyphs cid with
    | none =>
      simp only [hm, hh] at hdom' ⊢
      by_cases hl : w.looseC.any (fun c => c.id = cid) = true
      · simp only [hl, if_true]
        exact inv_loose_change P T w _ hinv rfl rfl rfl rfl rfl
      · simp only [hl]; simpa using hinv
    | some h =>
      simp only [hm, hh] at hdom' ⊢
      obtain ⟨hg, hhas⟩ := host_get_contour hdom.ids.keys hh
      have hcc : covCell T "Contour" cell (T.postsOf "Contour" meth) = true := by
        have h1 : contourMutators.all (fun p => covCell T "Contour" p.2 (T.postsOf "Contour" p.1)) = true :=
          cov_mem hcov (by simp [covList])
        exact List.all_eq_true.mp h1 (meth, cell) (AL.mem_of_get? hm)
      unfold covCell at hcc
      rw [Bool.and_eq_true, changed_lit] at hcc
      generalize hw1 : (tick ({ w with glyphs := updGlyph w.glyphs h.1 (mapContours cid (bumpContour w.clock cell)) }
          : World V) : World V) = w1 at hdom' ⊢
      have hgs : w1.glyphs = AL.set w.glyphs h.1 (mapContours cid (bumpContour w.clock cell) h.2) := by
        rw [← hw1]; exact updGlyph_eq_set _ hg
      have hf : w1.fuel = w.fuel := by rw [← hw1]; rfl
      have hrg : w1.regs = w.regs := by rw [← hw1]; rfl
      have hgv : w1.groupsVer = w.groupsVer := by rw [← hw1]; rfl
      have hca : w1.caches = w.caches := by rw [← hw1]; rfl
      have hlc : w1.looseC = w.looseC := by rw [← hw1]; rfl
      have hlk : w1.looseK = w.looseK := by rw [← hw1]; rfl
      have hd1 := Dom.congr (sameStruct_applyDeliv T _ _).symm hdom'
      have hcg := cov_glyphOutline hcov (m := "_contourChanged") (by simp [glyphOutlineMethods])
      have hcreg1 : CachedRegistered T w1 := by
        intro o nm sk v hv
        rw [cacheOf_eq_of_caches hca] at hv
        rw [hrg]; exact hinv.creg _ _ _ _ hv
      have hid := bumpContour_id w.clock cell
      refine inv_glyph_local P T hcov w w1 h.1 h.2 _ (T.postsOf "Glyph" "_contourChanged") _ hinv hg hgs hf hrg hgv
        hd1 (fun y hy => contourDeliv_glyph hcc.1 hy) (Or.inl hcg.2)
        (fun o nm sk v _ hv => by rw [cacheOf_eq_of_caches hca] at hv; exact hv) hcreg1 ?_ ?_ ?_ ?_
      · intro o ha
        rw [cacheOf_eq_of_caches hca]
        have : attached w o = false := by
          rw [← ha]; symm
          cases o with
          | contour cid' =>
            exact attached_contour_set w w1 h.1 h.2 _ hdom.ids.keys hg hgs cid' (hasContour_mapContours cid cid' _ hid h.2)
          | comp kid => exact attached_comp_set w w1 h.1 h.2 _ hdom.ids.keys hg hgs kid rfl
          | glyph x => exact attached_glyph_set w w1 h.1 h.2 _ hg hgs x
          | groups => rfl
        exact hinv.loose o this
      · intro nm sk v hs
        exact (glyph_self_dead T hinv.rdef hrg hcg.1 hd1.bounded (fun y hy => contourDeliv_glyph hcc.1 hy) hcreg1 hs).elim
      · intro cid' nm sk v hs
        have h1 := (get?_applyDeliv T _ _ _ nm sk v hs).1
        rw [cacheOf_eq_of_caches hca] at h1
        by_cases e : cid' = cid
        · subst e
          obtain ⟨c0, hc0⟩ := contourIn_of_has hhas
          obtain ⟨hf1, hf0⟩ := findContour_at_host w w1 cid' h _ hdom.ids.keys hh hgs (hasContour_mapContours cid' cid' _ hid h.2)
          rw [contourIn_mapContours_self cid' _ hid h.2, hc0] at hf1
          rw [hc0] at hf0
          have hv0 := hinv.coh _ _ _ _ h1
          simp only [fresh, viewOf, hf0, Option.map_some, Option.getD_some] at hv0
          simp only [viewOf, hf1, Option.map_some, Option.getD_some]
          by_cases hkeep : cell = CCell.attr ∧ isBuiltin T "Contour" nm = true
          · rw [hv0]
            obtain ⟨hc1, hbi⟩ := hkeep
            subst hc1
            simp [contourView, hbi, bumpContour, contourToks, Obj.cls]
          · exfalso
            have hreg := (hinv.creg _ _ _ _ h1).1
            have : ∃ d y, (nm, d) ∈ facsOf T w.regs "Contour" ∧ y ∈ T.postsOf "Contour" meth ∧ d.hit y = true := by
              by_cases hc1 : cell = CCell.attr
              · simp only [hc1, if_true] at hcc
                have hnb : isBuiltin T "Contour" nm = false := by
                  cases hb : isBuiltin T "Contour" nm with
                  | false => rfl
                  | true => exact absurd ⟨hc1, hb⟩ hkeep
                exact hits_of_hitsReg hinv.rdef hcc.2 hreg hnb
              · simp only [hc1, if_false] at hcc
                exact hits_of_hitsAll hinv.rdef hcc.2 hreg
            obtain ⟨d, y, hd, hy, hhit⟩ := this
            exact not_survivor hs (by rw [hrg]; exact hd) (contourDeliv_self hy) hhit
        · exact cont_of_view P T hinv h1
            (viewOf_contour_of_find T (findContour_set w w1 h.1 h.2 _ hdom.ids.keys hg hgs cid' (by rw [hlc])
              (hasContour_mapContours cid cid' _ hid h.2) (contourIn_mapContours_other cid cid' e _ hid h.2)) nm)
      · intro kid
        exact Or.inl (findComp_set w w1 h.1 h.2 _ hdom.ids.keys hg hgs kid (by rw [hlk]) rfl rfl)

/-- the base of a component never reads the glyph that holds the component (no cycles) -/
theorem base_not_reads_host {gs : Layer} {fuel : Nat} (hb : Bounded gs fuel) {h : String} {g : GlyphS} {k : CompS}
    (hg : AL.get? gs h = some g) (hk : k ∈ g.comps) : ∀ c m, k.base = some c → ¬ ReadsN gs m c h := by
  intro c m hbase hrd
  have := no_cycle hb (ReadsN.step g k hg hk hbase hrd)
  omega

theorem compDeliv_self {n : Nat} {T : Tables} {gs : Layer} {h : String} {kid : Nat} {cn : List String}
    {y : String} (hy : y ∈ cn) : (Obj.comp kid, y) ∈ compDeliv n T gs h kid cn := compRelay_self hy

theorem compDeliv_changed {n : Nat} {T : Tables} {gs : Layer} {h : String} {kid : Nat} {cn : List String}
    (hc : cn.contains "Component.Changed" = true) {y : Obj × String}
    (hy : y ∈ glyphDeliv n T gs h (T.postsOf "Glyph" "_componentChanged")) : y ∈ compDeliv n T gs h kid cn :=
  compRelay_changed hc hy

/-- shared part of the two component mutators: the record of component `kid` in glyph `h` is rewritten
by `fn` (which keeps the id) and the component posts `cn`; `keep nm` says which names may survive on
the component itself and must then see no change -/
theorem inv_comp_change (P : Params V) (T : Tables) (hcov : Coverage T = true) (w w1 : World V) (kid : Nat)
    (h : String × GlyphS) (fn : CompS → CompS) (cn : List String) (hid : ∀ c, (fn c).id = c.id)
    (hinv : Inv P T w) (hdom : Dom w) (hh : hostOfComp w.glyphs kid = some h)
    (hgs : w1.glyphs = AL.set w.glyphs h.1 (mapComps kid fn h.2)) (hf : w1.fuel = w.fuel) (hrg : w1.regs = w.regs)
    (hgv : w1.groupsVer = w.groupsVer) (hca : w1.caches = w.caches) (hlc : w1.looseC = w.looseC)
    (hlk : w1.looseK = w.looseK)
    (hdom' : Dom (applyDeliv T w1 (compDeliv w1.fuel T w1.glyphs h.1 kid cn)))
    (hchg : cn.contains "Component.Changed" = true)
    (hself : ∀ k0 nm sk v, compIn h.2 kid = some k0 →
      (cacheOf (applyDeliv T w1 (compDeliv w1.fuel T w1.glyphs h.1 kid cn)) (.comp kid)).get? nm sk = some v →
      (isBuiltin T "Component" nm = true ∧ (fn k0).base = k0.base ∧ (fn k0).data = k0.data)) :
    Inv P T (applyDeliv T w1 (compDeliv w1.fuel T w1.glyphs h.1 kid cn)) := by
  obtain ⟨hg, hhas⟩ := host_get_comp hdom.ids.keys hh
  have hd1 := Dom.congr (sameStruct_applyDeliv T _ _).symm hdom'
  have hcg := cov_glyphOutline hcov (m := "_componentChanged") (by simp [glyphOutlineMethods])
  have hcreg1 : CachedRegistered T w1 := by
    intro o nm sk v hv
    rw [cacheOf_eq_of_caches hca] at hv
    rw [hrg]; exact hinv.creg _ _ _ _ hv
  refine inv_glyph_local P T hcov w w1 h.1 h.2 _ (T.postsOf "Glyph" "_componentChanged") _ hinv hg hgs hf hrg hgv
    hd1 (fun y hy => compDeliv_changed hchg hy) (Or.inl hcg.2)
    (fun o nm sk v _ hv => by rw [cacheOf_eq_of_caches hca] at hv; exact hv) hcreg1 ?_ ?_ ?_ ?_
  · intro o ha
    rw [cacheOf_eq_of_caches hca]
    have : attached w o = false := by
      rw [← ha]; symm
      cases o with
      | contour cid' => exact attached_contour_set w w1 h.1 h.2 _ hdom.ids.keys hg hgs cid' rfl
      | comp kid' =>
        exact attached_comp_set w w1 h.1 h.2 _ hdom.ids.keys hg hgs kid' (hasComp_mapComps kid kid' _ hid h.2)
      | glyph x => exact attached_glyph_set w w1 h.1 h.2 _ hg hgs x
      | groups => rfl
    exact hinv.loose o this
  · intro nm sk v hs
    exact (glyph_self_dead T hinv.rdef hrg hcg.1 hd1.bounded (fun y hy => compDeliv_changed hchg hy) hcreg1 hs).elim
  · intro cid' nm sk v hs
    have h1 := (get?_applyDeliv T _ _ _ nm sk v hs).1
    rw [cacheOf_eq_of_caches hca] at h1
    exact cont_of_view P T hinv h1
      (viewOf_contour_of_find T (findContour_set w w1 h.1 h.2 _ hdom.ids.keys hg hgs cid' (by rw [hlc]) rfl rfl) nm)
  · intro kid'
    by_cases e : kid' = kid
    · subst e
      refine Or.inr (fun nm sk v hs => ?_)
      obtain ⟨k0, hk0⟩ := compIn_of_has hhas
      obtain ⟨hbi, hbase, hdata⟩ := hself k0 nm sk v hk0 hs
      obtain ⟨hf1, hf0⟩ := findComp_at_host w w1 kid' h _ hdom.ids.keys hh hgs (hasComp_mapComps kid' kid' _ hid h.2)
      rw [compIn_mapComps_self kid' _ hid h.2, hk0] at hf1
      rw [hk0] at hf0
      simp only [viewOf, hf1, hf0, Option.map_some, Option.getD_some, hf]
      unfold compView
      simp only [hbi, if_true]
      unfold compToks
      -- the new record sits in the new glyph record
      have hmem : fn k0 ∈ (mapComps kid' fn h.2).comps := by
        have : compIn (mapComps kid' fn h.2) kid' = some (fn k0) := by
          rw [compIn_mapComps_self kid' _ hid h.2, hk0]; rfl
        exact List.mem_of_find?_eq_some this
      have hg1 : AL.get? w1.glyphs h.1 = some (mapComps kid' fn h.2) := by rw [hgs]; simp
      have hno := base_not_reads_host hd1.bounded hg1 hmem
      have e1 : compHead (outline w.fuel w1.glyphs) (fn k0) = compHead (outline w.fuel w1.glyphs) k0 := by
        unfold compHead; rw [hbase, hdata]
      rw [e1, hgs]
      symm
      apply compHead_set _ _ _ _ _ hg
      refine Or.inr (fun c m hb => ?_)
      have := hno c m (by rw [hbase]; exact hb)
      rw [hgs] at this; exact this
    · exact Or.inl (findComp_set w w1 h.1 h.2 _ hdom.ids.keys hg hgs kid' (by rw [hlk])
        (hasComp_mapComps kid kid' _ hid h.2) (compIn_mapComps_other kid kid' e _ hid h.2))

/-- a declared Component mutator (`kmut`) -/
theorem inv_kmut (P : Params V) (T : Tables) (hcov : Coverage T = true) (w : World V) (kid : Nat) (meth : String)
    (hinv : Inv P T w) (hdom : Dom w) (hdom' : Dom (doKmut T w kid meth).1) : Inv P T (doKmut T w kid meth).1 := by
  unfold doKmut at hdom' ⊢
  cases hm : AL.get? compMutators meth with
  | none => simpa [hm] using hinv
  | some cell =>
    cases hh : hostOfComp w.glyphs kid with
    | none =>
      simp only [hm, hh] at hdom' ⊢
      by_cases hl : w.looseK.any (fun c => c.id = kid) = true
      · simp only [hl, if_true]
        exact inv_loose_change P T w _ hinv rfl rfl rfl rfl rfl
      · simp only [hl]; simpa using hinv
    | some h =>
      simp only [hm, hh] at hdom' ⊢
      have hcc : covCell T "Component" cell (T.postsOf "Component" meth) = true := by
        have h1 : compMutators.all (fun p => covCell T "Component" p.2 (T.postsOf "Component" p.1)) = true :=
          cov_mem hcov (by simp [covList])
        exact List.all_eq_true.mp h1 (meth, cell) (AL.mem_of_get? hm)
      unfold covCell at hcc
      rw [Bool.and_eq_true, changed_litK] at hcc
      obtain ⟨hg, _⟩ := host_get_comp hdom.ids.keys hh
      generalize hw1 : (tick ({ w with glyphs := updGlyph w.glyphs h.1 (mapComps kid (bumpComp w.clock cell)) }
          : World V) : World V) = w1 at hdom' ⊢
      have hgs : w1.glyphs = AL.set w.glyphs h.1 (mapComps kid (bumpComp w.clock cell) h.2) := by
        rw [← hw1]; exact updGlyph_eq_set _ hg
      have hrg : w1.regs = w.regs := by rw [← hw1]; rfl
      refine inv_comp_change P T hcov w w1 kid h _ _ (bumpComp_id w.clock cell) hinv hdom hh hgs
        (by rw [← hw1]; rfl) hrg (by rw [← hw1]; rfl) (by rw [← hw1]; rfl) (by rw [← hw1]; rfl)
        (by rw [← hw1]; rfl) hdom' hcc.1 ?_
      intro k0 nm sk v _ hs
      by_cases hkeep : cell = CCell.attr ∧ isBuiltin T "Component" nm = true
      · obtain ⟨hc1, hbi⟩ := hkeep
        subst hc1
        exact ⟨hbi, rfl, rfl⟩
      · exfalso
        have h1 := (get?_applyDeliv T _ _ _ nm sk v hs).1
        have hca : w1.caches = w.caches := by rw [← hw1]; rfl
        rw [cacheOf_eq_of_caches hca] at h1
        have hreg := (hinv.creg _ _ _ _ h1).1
        have : ∃ d y, (nm, d) ∈ facsOf T w.regs "Component" ∧ y ∈ T.postsOf "Component" meth ∧ d.hit y = true := by
          by_cases hc1 : cell = CCell.attr
          · simp only [hc1, if_true] at hcc
            have hnb : isBuiltin T "Component" nm = false := by
              cases hb : isBuiltin T "Component" nm with
              | false => rfl
              | true => exact absurd ⟨hc1, hb⟩ hkeep
            exact hits_of_hitsReg hinv.rdef hcc.2 hreg hnb
          · simp only [hc1, if_false] at hcc
            exact hits_of_hitsAll hinv.rdef hcc.2 hreg
        obtain ⟨d, y, hd, hy, hhit⟩ := this
        exact not_survivor hs (by rw [hrg]; exact hd) (compDeliv_self hy) hhit

/-- the `baseGlyph` setter of a component (`ksetBase`) -/
theorem inv_ksetBase (P : Params V) (T : Tables) (hcov : Coverage T = true) (w : World V) (kid : Nat)
    (base : Option String) (hinv : Inv P T w) (hdom : Dom w) (hdom' : Dom (doKsetBase T w kid base).1) :
    Inv P T (doKsetBase T w kid base).1 := by
  unfold doKsetBase at hdom' ⊢
  cases hh : hostOfComp w.glyphs kid with
  | none =>
    simp only [hh] at hdom' ⊢
    by_cases hl : w.looseK.any (fun c => c.id = kid) = true
    · simp only [hl, if_true]
      exact inv_loose_change P T w _ hinv rfl rfl rfl rfl rfl
    · simp only [hl]; simpa using hinv
  | some h =>
    simp only [hh] at hdom' ⊢
    have hcc : covCell T "Component" .pts (T.postsOf "Component" "_set_baseGlyph") = true :=
      cov_mem hcov (by simp [covList])
    unfold covCell at hcc
    rw [Bool.and_eq_true, changed_litK] at hcc
    simp only [reduceCtorEq, if_false] at hcc
    obtain ⟨hg, _⟩ := host_get_comp hdom.ids.keys hh
    generalize hw1 : (tick ({ w with glyphs := updGlyph w.glyphs h.1 (mapComps kid (setBase w.clock base (watchFor w.glyphs base))) } : World V) : World V) = w1 at hdom' ⊢
    have hgs : w1.glyphs = AL.set w.glyphs h.1 (mapComps kid (setBase w.clock base (watchFor w.glyphs base)) h.2) := by
      rw [← hw1]; exact updGlyph_eq_set _ hg
    have hrg : w1.regs = w.regs := by rw [← hw1]; rfl
    refine inv_comp_change P T hcov w w1 kid h (setBase w.clock base (watchFor w.glyphs base)) _ (fun c => rfl) hinv hdom hh hgs
      (by rw [← hw1]; rfl) hrg (by rw [← hw1]; rfl) (by rw [← hw1]; rfl) (by rw [← hw1]; rfl)
      (by rw [← hw1]; rfl) hdom' hcc.1 ?_
    intro k0 nm sk v _ hs
    exfalso
    have h1 := (get?_applyDeliv T _ _ _ nm sk v hs).1
    have hca : w1.caches = w.caches := by rw [← hw1]; rfl
    rw [cacheOf_eq_of_caches hca] at h1
    obtain ⟨d, y, hd, hy, hhit⟩ := hits_of_hitsAll hinv.rdef hcc.2 (hinv.creg _ _ _ _ h1).1
    exact not_survivor hs (by rw [hrg]; exact hd) (compDeliv_self hy) hhit

theorem bounds_noKw {nm : String} (h : nm ∈ boundsNames) : acceptsKw nm = false := by
  simp only [boundsNames, List.mem_cons, List.mem_nil_iff, or_false] at h
  rcases h with h | h <;> subst h <;> decide

/-- `Contour.move` (`cmove`): the two bounds entries are patched, everything else on the contour goes -/
theorem inv_cmove (P : Params V) (T : Tables) (hcov : Coverage T = true) (hpatch : PatchOK P) (w : World V)
    (cid : Nat) (dx dy : Int) (hinv : Inv P T w) (hdom : Dom w) (hdom' : Dom (doCmove P T w cid dx dy).1) :
    Inv P T (doCmove P T w cid dx dy).1 := by
  unfold doCmove at hdom' ⊢
  cases hh : hostOfContour w.glyphs cid with
  | none =>
    simp only [hh] at hdom' ⊢
    by_cases hl : w.looseC.any (fun c => c.id = cid) = true
    · simp only [hl, if_true]
      exact inv_loose_change P T w _ hinv rfl rfl rfl rfl rfl
    · simp only [hl]; simpa using hinv
  | some h =>
    simp only [hh] at hdom' ⊢
    obtain ⟨hg, hhas⟩ := host_get_contour hdom.ids.keys hh
    have hcc : covCell T "Contour" .attr (moveNotifs T) = true := cov_mem hcov (by simp [covList])
    unfold covCell at hcc
    rw [Bool.and_eq_true, changed_lit] at hcc
    simp only [if_true] at hcc
    have hcb : boundsNames.all (isBuiltin T "Contour") = true := cov_mem hcov (by simp [covList])
    have hcp : (T.factoriesOf "Contour").all
        (fun p => boundsNames.contains p.1 || p.2.hit "Contour.PointsChanged") = true := cov_mem hcov (by simp [covList])
    generalize hw2 : (setCache ({ w with glyphs := updGlyph w.glyphs h.1 (mapContours cid (shiftContour dx dy)) } : World V)
        (.contour cid) (moveCache P (facsOf T ({ w with glyphs := updGlyph w.glyphs h.1 (mapContours cid (shiftContour dx dy)) } : World V).regs "Contour")
          (cacheOf ({ w with glyphs := updGlyph w.glyphs h.1 (mapContours cid (shiftContour dx dy)) } : World V) (.contour cid)) dx dy) : World V) = w2
        at hdom' ⊢
    have hgs : w2.glyphs = AL.set w.glyphs h.1 (mapContours cid (shiftContour dx dy) h.2) := by
      rw [← hw2]; exact updGlyph_eq_set _ hg
    have hf : w2.fuel = w.fuel := by rw [← hw2]; rfl
    have hrg : w2.regs = w.regs := by rw [← hw2]; rfl
    have hgv : w2.groupsVer = w.groupsVer := by rw [← hw2]; rfl
    have hlc : w2.looseC = w.looseC := by rw [← hw2]; rfl
    have hlk : w2.looseK = w.looseK := by rw [← hw2]; rfl
    have hca : ∀ o, cacheOf w2 o = if Obj.contour cid = o then
        moveCache P (facsOf T w.regs "Contour") (cacheOf w (.contour cid)) dx dy else cacheOf w o := by
      intro o; rw [← hw2]; exact cacheOf_setCache _ _ o _
    have hother : ∀ o, Obj.contour cid ≠ o → cacheOf w2 o = cacheOf w o := by
      intro o e; rw [hca]; simp [e]
    -- every entry of the new cache has a predecessor under the same key
    have hpred : ∀ o nm sk v, (cacheOf w2 o).get? nm sk = some v → ∃ v0, (cacheOf w o).get? nm sk = some v0 := by
      intro o nm sk v hv
      by_cases e : Obj.contour cid = o
      · subst e
        rw [hca, if_pos rfl] at hv
        rcases Cache.get?_moveCache _ _ _ _ _ _ _ _ hv with ⟨_, hsk, v0, hv0, _⟩ | ⟨h0, _, _⟩
        · subst hsk; exact ⟨v0, hv0⟩
        · exact ⟨v, h0⟩
      · rw [hother o e] at hv; exact ⟨v, hv⟩
    have hd1 := Dom.congr (sameStruct_applyDeliv T _ _).symm hdom'
    have hcg := cov_glyphOutline hcov (m := "_contourChanged") (by simp [glyphOutlineMethods])
    have hcreg1 : CachedRegistered T w2 := by
      intro o nm sk v hv
      obtain ⟨v0, hv0⟩ := hpred o nm sk v hv
      rw [hrg]; exact hinv.creg _ _ _ _ hv0
    have hid : ∀ c, (shiftContour dx dy c).id = c.id := fun _ => rfl
    refine inv_glyph_local P T hcov w w2 h.1 h.2 _ (T.postsOf "Glyph" "_contourChanged") _ hinv hg hgs hf hrg hgv
      hd1 (fun y hy => contourDeliv_glyph hcc.1 hy) (Or.inl hcg.2)
      (fun o nm sk v hne hv => by rw [hother o (fun e => hne cid e.symm)] at hv; exact hv) hcreg1 ?_ ?_ ?_ ?_
    · intro o ha nm sk
      have : attached w o = false := by
        rw [← ha]; symm
        cases o with
        | contour cid' =>
          exact attached_contour_set w w2 h.1 h.2 _ hdom.ids.keys hg hgs cid' (hasContour_mapContours cid cid' _ hid h.2)
        | comp kid => exact attached_comp_set w w2 h.1 h.2 _ hdom.ids.keys hg hgs kid rfl
        | glyph x => exact attached_glyph_set w w2 h.1 h.2 _ hg hgs x
        | groups => rfl
      cases hv : (cacheOf w2 o).get? nm sk with
      | none => rfl
      | some v =>
        obtain ⟨v0, hv0⟩ := hpred o nm sk v hv
        rw [hinv.loose o this nm sk] at hv0; cases hv0
    · intro nm sk v hs
      exact (glyph_self_dead T hinv.rdef hrg hcg.1 hd1.bounded (fun y hy => contourDeliv_glyph hcc.1 hy) hcreg1 hs).elim
    · intro cid' nm sk v hs
      have h1 := (get?_applyDeliv T _ _ _ nm sk v hs).1
      by_cases e : cid' = cid
      · subst e
        obtain ⟨c0, hc0⟩ := contourIn_of_has hhas
        obtain ⟨hf1, hf0⟩ := findContour_at_host w w2 cid' h _ hdom.ids.keys hh hgs (hasContour_mapContours cid' cid' _ hid h.2)
        rw [contourIn_mapContours_self cid' _ hid h.2, hc0] at hf1
        rw [hc0] at hf0
        simp only [viewOf, hf1, Option.map_some, Option.getD_some]
        rw [hca, if_pos rfl] at h1
        rcases Cache.get?_moveCache _ _ _ _ _ _ _ _ h1 with ⟨hb, hsk, v0, hv0, hv⟩ | ⟨h0, hbk, hnh⟩
        · subst hsk
          have hbi : isBuiltin T "Contour" nm = true := List.all_eq_true.mp hcb nm hb
          have hc := hinv.coh _ _ _ _ hv0
          simp only [fresh, viewOf, hf0, Option.map_some, Option.getD_some, Obj.cls] at hc
          rw [hv, hc]
          simp only [contourView, hbi, if_true, contourToks, shiftContour]
          exact (hpatch nm hb c0.ver c0.ox c0.oy dx dy).symm
        · exfalso
          by_cases hb : nm ∈ boundsNames
          · exact hbk hb ((hinv.creg _ _ _ _ h0).2 (bounds_noKw hb))
          · by_cases hbi : isBuiltin T "Contour" nm = true
            · unfold isBuiltin at hbi
              rw [List.any_eq_true] at hbi
              obtain ⟨p, hp, hpn⟩ := hbi
              simp only [decide_eq_true_eq] at hpn
              have h3 := List.all_eq_true.mp hcp p hp
              have hnc : boundsNames.contains p.1 = false := by
                rw [hpn]
                cases hc : boundsNames.contains nm with
                | false => rfl
                | true => exact absurd (by simpa using hc) hb
              rw [hnc, Bool.false_or] at h3
              have := hnh hb p.2 (by rw [← hpn]; exact mem_facsOf_builtin hp)
              rw [h3] at this; cases this
            · obtain ⟨d, y, hd, hy, hhit⟩ := hits_of_hitsReg hinv.rdef hcc.2 (hinv.creg _ _ _ _ h0).1
                (by simpa using hbi)
              exact not_survivor hs (by rw [hrg]; exact hd) (contourDeliv_self hy) hhit
      · rw [hother _ (fun e' => e (by cases e'; rfl))] at h1
        exact cont_of_view P T hinv h1
          (viewOf_contour_of_find T (findContour_set w w2 h.1 h.2 _ hdom.ids.keys hg hgs cid' (by rw [hlc])
            (hasContour_mapContours cid cid' _ hid h.2) (contourIn_mapContours_other cid cid' e _ hid h.2)) nm)
    · intro kid
      exact Or.inl (findComp_set w w2 h.1 h.2 _ hdom.ids.keys hg hgs kid (by rw [hlk]) rfl rfl)

/-- an attribute mutator of a glyph (`gmut`) -/
theorem inv_gmut (P : Params V) (T : Tables) (hcov : Coverage T = true) (w : World V) (g meth : String)
    (hinv : Inv P T w) (hdom : Dom w) (hdom' : Dom (doGmut T w g meth).1) : Inv P T (doGmut T w g meth).1 := by
  unfold doGmut at hdom' ⊢
  by_cases hm : glyphMutators.contains meth = true
  · by_cases hc : AL.contains w.glyphs g = true
    · simp only [hm, hc, Bool.not_true, Bool.false_eq_true, if_false] at hdom' ⊢
      obtain ⟨r, hr⟩ := (AL.contains_iff_get? _ _).mp hc
      unfold glyphChange at hdom' ⊢
      have hgs : ({ tick w with glyphs := updGlyph (tick w).glyphs g fun r => { r with attr := w.clock } } : World V).glyphs
          = AL.set w.glyphs g { r with attr := w.clock } := updGlyph_eq_set _ hr
      have hd1 := Dom.congr (sameStruct_applyDeliv T _ _).symm hdom'
      have hposts : hitsReg T "Glyph" (T.postsOf "Glyph" meth) = true := by
        have h1 : glyphMutators.all (fun m => hitsReg T "Glyph" (T.postsOf "Glyph" m)) = true :=
          cov_mem hcov (by simp [covList])
        exact List.all_eq_true.mp h1 meth (by simpa using hm)
      refine inv_glyph_local P T hcov w _ g r { r with attr := w.clock } (T.postsOf "Glyph" meth) _ hinv hr hgs rfl rfl rfl
        hd1 (fun y hy => hy) (Or.inr ⟨rfl, rfl⟩) (fun o nm sk v _ hv => hv) hinv.creg ?_ ?_ ?_ ?_
      · -- loose
        intro o ha
        have : attached w o = false := by
          rw [← ha]; symm
          cases o with
          | contour cid => exact attached_contour_set w _ g r _ hdom.ids.keys hr hgs cid rfl
          | comp kid => exact attached_comp_set w _ g r _ hdom.ids.keys hr hgs kid rfl
          | glyph x => exact attached_glyph_set w _ g r _ hr hgs x
          | groups => rfl
        exact hinv.loose o this
      · -- the glyph itself
        intro nm sk v hs
        by_cases hbi : isBuiltin T "Glyph" nm = true
        · exact view_glyph_self_builtin T w _ g r _ hr hgs rfl rfl rfl nm hbi
        · exfalso
          have h1 := (get?_applyDeliv T _ _ _ nm sk v hs).1
          have hreg := (hinv.creg _ _ _ _ h1).1
          obtain ⟨d, y, hd, hy, hh⟩ := hits_of_hitsReg (regs := w.regs) hinv.rdef hposts hreg (by simpa using hbi)
          exact not_survivor hs hd (glyphDeliv_self' hd1.bounded hy) hh
      · -- contours
        intro cid nm sk v hs
        exact cont_of_view P T hinv (get?_applyDeliv T _ _ _ nm sk v hs).1
          (viewOf_contour_of_find T (findContour_set w _ g r _ hdom.ids.keys hr hgs cid rfl rfl rfl) nm)
      · intro kid
        exact Or.inl (findComp_set w _ g r _ hdom.ids.keys hr hgs kid rfl rfl rfl)
    · simp only [hm, hc, Bool.not_true, Bool.false_eq_true, if_false, Bool.not_false, if_true]
      simpa using hinv
  · simp only [hm, Bool.not_false, if_true]
    simpa using hinv

/-! ### requests and the cache API -/

theorem viewOf_setCache (T : Tables) (w : World V) (o : Obj) (c : Cache V) (o' : Obj) (nm : String) :
    viewOf T (setCache w o c) o' nm = viewOf T w o' nm := viewOf_congr T (sameStruct_setCache w o c) o' nm

/-- the cache of one object is replaced by one that holds only old entries -/
theorem inv_shrink (P : Params V) (T : Tables) (w : World V) (o : Obj) (c' : Cache V) (hinv : Inv P T w)
    (hsub : ∀ nm sk v, c'.get? nm sk = some v → (cacheOf w o).get? nm sk = some v) : Inv P T (setCache w o c') := by
  have hent : ∀ o' nm sk v, (cacheOf (setCache w o c') o').get? nm sk = some v →
      (cacheOf w o').get? nm sk = some v := by
    intro o' nm sk v hv
    rw [cacheOf_setCache] at hv
    by_cases e : o = o'
    · subst e; simp only [if_true] at hv; exact hsub _ _ _ hv
    · simpa [e] using hv
  refine ⟨?_, ?_, ?_, ?_⟩
  · intro o' nm sk v hv
    unfold fresh; rw [viewOf_setCache]
    exact hinv.coh _ _ _ _ (hent _ _ _ _ hv)
  · intro o' ha nm sk
    rw [attached_congr (sameStruct_setCache w o c')] at ha
    cases hv : (cacheOf (setCache w o c') o').get? nm sk with
    | none => rfl
    | some v => have := hent _ _ _ _ hv; rw [hinv.loose o' ha nm sk] at this; cases this
  · intro o' nm sk v hv
    exact hinv.creg _ _ _ _ (hent _ _ _ _ hv)
  · exact hinv.rdef

/-- one `getRepresentation` on an attached object -/
theorem inv_getOne (P : Params V) (T : Tables) (w : World V) (o : Obj) (name : String) (sk : SubKey)
    (hinv : Inv P T w) (ha : attached w o = true)
    (hreg : (facsOf T w.regs o.cls).any (fun p => p.1 = name) = true) (hkw : acceptsKw name = false → sk = none) :
    Inv P T (getOne P T w o name sk).1 := by
  unfold getOne Cache.lookupOrStore
  cases hc : (cacheOf w o).get? name sk with
  | some v0 =>
    simp only
    exact inv_shrink P T w o _ hinv (fun _ _ _ h => h)
  | none =>
    simp only
    have hent : ∀ o' nm sk' v,
        (cacheOf (setCache w o ((cacheOf w o).store name sk (fresh P T w o name sk))) o').get? nm sk' = some v →
        (o = o' ∧ name = nm ∧ sk = sk' ∧ v = fresh P T w o name sk) ∨ (cacheOf w o').get? nm sk' = some v := by
      intro o' nm sk' v hv
      rw [cacheOf_setCache] at hv
      by_cases e : o = o'
      · subst e
        simp only [if_true] at hv
        rw [Cache.get?_store] at hv
        by_cases e2 : name = nm ∧ sk = sk'
        · rw [if_pos e2] at hv
          exact Or.inl ⟨rfl, e2.1, e2.2, (Option.some.inj hv).symm⟩
        · rw [if_neg e2] at hv; exact Or.inr hv
      · simp only [e, if_false] at hv; exact Or.inr hv
    refine ⟨?_, ?_, ?_, ?_⟩
    · intro o' nm sk' v hv
      unfold fresh; rw [viewOf_setCache]
      rcases hent _ _ _ _ hv with ⟨e1, e2, e3, e4⟩ | h0
      · subst e1; subst e2; subst e3; rw [e4]; rfl
      · exact hinv.coh _ _ _ _ h0
    · intro o' ha' nm sk'
      rw [attached_congr (sameStruct_setCache w o _)] at ha'
      cases hv : (cacheOf (setCache w o ((cacheOf w o).store name sk (fresh P T w o name sk))) o').get? nm sk' with
      | none => rfl
      | some v =>
        rcases hent _ _ _ _ hv with ⟨e1, _, _, _⟩ | h0
        · subst e1; rw [ha] at ha'; cases ha'
        · rw [hinv.loose o' ha' nm sk'] at h0; cases h0
    · intro o' nm sk' v hv
      rcases hent _ _ _ _ hv with ⟨e1, e2, e3, _⟩ | h0
      · subst e1; subst e2; subst e3; exact ⟨hreg, hkw⟩
      · exact hinv.creg _ _ _ _ h0
    · exact hinv.rdef

theorem getOne_struct (P : Params V) (T : Tables) (w : World V) (o : Obj) (name : String) (sk : SubKey) :
    SameStruct w (getOne P T w o name sk).1 := sameStruct_setCache _ _ _

theorem makeSubKey_none_of_nil {kw : KwArgs} (h : kw.isEmpty = true) : makeSubKey kw = none := by
  cases kw with
  | nil => rfl
  | cons a r => cases h

theorem inv_get (P : Params V) (T : Tables) (w : World V) (o : Obj) (name : String) (kw : KwArgs)
    (hinv : Inv P T w) : Inv P T (doGet P T w o name kw).1 := by
  unfold doGet
  by_cases h1 : exists? w o = true
  · by_cases h2 : (facsOf T w.regs o.cls).any (fun p => p.1 = name) = true
    · by_cases h3 : (!kw.isEmpty && !acceptsKw name) = true
      · simpa [h1, h2, h3] using hinv
      · by_cases h4 : attached w o = true
        · have hkw : acceptsKw name = false → makeSubKey kw = none := by
            intro ha
            apply makeSubKey_none_of_nil
            cases hk : kw.isEmpty with
            | true => rfl
            | false => exact absurd (by simp [hk, ha]) h3
          simp only [h1, h2, h3, h4, Bool.not_true, Bool.false_eq_true, if_false]
          cases hn : (if o = Obj.groups then nestedName name else none) with
          | none =>
            simp only
            exact inv_getOne P T w o name _ hinv h4 h2 hkw
          | some inner =>
            simp only
            by_cases h5 : (facsOf T w.regs o.cls).any (fun p => p.1 = inner) = true
            · simp only [h5, Bool.not_true, Bool.false_eq_true, if_false]
              cases hc : (cacheOf w o).get? name (makeSubKey kw) with
              | some _ => simpa using hinv
              | none =>
                simp only
                have i1 := inv_getOne P T w o inner none hinv h4 h5 (fun _ => rfl)
                have s1 := getOne_struct P T w o inner none
                exact inv_getOne P T _ o name _ i1 (by rw [attached_congr s1]; exact h4)
                  (by rw [s1.regs]; exact h2) hkw
            · simpa [h5] using hinv
        · simpa [h1, h2, h3, h4] using hinv
    · simpa [h1, h2] using hinv
  · simpa [h1] using hinv

theorem inv_register (P : Params V) (T : Tables) (w : World V) (cls name : String) (hinv : Inv P T w) :
    Inv P T ({ w with regs := w.regs ++ [(cls, name, T.defaultDestr cls)] } : World V) := by
  refine ⟨?_, ?_, ?_, ?_⟩
  · intro o nm sk v hv
    have := hinv.coh o nm sk v hv
    rw [this]; unfold fresh
    congr 1
  · intro o ha nm sk
    exact hinv.loose o (by rw [← ha]; rfl) nm sk
  · intro o nm sk v hv
    obtain ⟨h1, h2⟩ := hinv.creg o nm sk v hv
    refine ⟨?_, h2⟩
    rw [List.any_eq_true] at h1 ⊢
    obtain ⟨p, hp, hpn⟩ := h1
    refine ⟨p, ?_, hpn⟩
    unfold facsOf at hp ⊢
    rw [List.mem_append] at hp ⊢
    rcases hp with hp | hp
    · exact Or.inl hp
    · refine Or.inr ?_
      rw [List.filterMap_append, List.mem_append]
      exact Or.inl hp
  · intro r hr
    simp only [List.mem_append, List.mem_cons, List.mem_nil_iff, or_false] at hr
    rcases hr with hr | hr
    · exact hinv.rdef r hr
    · subst hr; rfl

/-- a declared Groups mutator (`gset`) -/
theorem inv_gset (P : Params V) (T : Tables) (hcov : Coverage T = true) (w : World V) (meth : String)
    (hinv : Inv P T w) : Inv P T (doGset T w meth).1 := by
  unfold doGset
  by_cases hm : groupsMutators.contains meth = true
  · simp only [hm, Bool.not_true, Bool.false_eq_true, if_false]
    have hall : hitsAll T "Groups" (T.postsOf "Groups" meth) = true := by
      have h1 : groupsMutators.all (fun m => hitsAll T "Groups" (T.postsOf "Groups" m)) = true :=
        cov_mem hcov (by simp [covList])
      exact List.all_eq_true.mp h1 meth (by simpa using hm)
    generalize hw1 : (tick ({ w with groupsVer := w.clock } : World V) : World V) = w1
    have hca : w1.caches = w.caches := by rw [← hw1]; rfl
    have hrg : w1.regs = w.regs := by rw [← hw1]; rfl
    have hss := sameStruct_applyDeliv T w1 ((T.postsOf "Groups" meth).map fun n => (Obj.groups, n))
    have hatt : ∀ o, attached w1 o = attached w o := by intro o; rw [← hw1]; cases o <;> rfl
    refine ⟨?_, ?_, ?_, ?_⟩
    · intro o nm sk v hs
      have h1 := (get?_applyDeliv T w1 _ o nm sk v hs).1
      rw [cacheOf_eq_of_caches hca] at h1
      cases o with
      | groups =>
        exfalso
        obtain ⟨d, y, hd, hy, hhit⟩ := hits_of_hitsAll hinv.rdef hall (hinv.creg _ _ _ _ h1).1
        exact not_survivor hs (by rw [hrg]; exact hd) (by rw [List.mem_map]; exact ⟨y, hy, rfl⟩) hhit
      | contour cid =>
        rw [hinv.coh _ _ _ _ h1]; unfold fresh; rw [viewOf_congr T hss]; congr 1; rw [← hw1]; rfl
      | comp kid =>
        rw [hinv.coh _ _ _ _ h1]; unfold fresh; rw [viewOf_congr T hss]; congr 1; rw [← hw1]; rfl
      | glyph x =>
        rw [hinv.coh _ _ _ _ h1]; unfold fresh; rw [viewOf_congr T hss]; congr 1; rw [← hw1]; rfl
    · intro o ha nm sk
      rw [attached_congr hss, hatt] at ha
      cases hv : (cacheOf (applyDeliv T w1 _) o).get? nm sk with
      | none => rfl
      | some v =>
        have h1 := (get?_applyDeliv T w1 _ o nm sk v hv).1
        rw [cacheOf_eq_of_caches hca, hinv.loose o ha nm sk] at h1; cases h1
    · intro o nm sk v hs
      have h1 := (get?_applyDeliv T w1 _ o nm sk v hs).1
      rw [cacheOf_eq_of_caches hca] at h1
      rw [hss.regs, hrg]; exact hinv.creg _ _ _ _ h1
    · intro r hr; rw [hss.regs, hrg] at hr; exact hinv.rdef r hr
  · have hm' : groupsMutators.contains meth = false := by simpa using hm
    simp only [hm', Bool.not_false, if_true]
    exact hinv

/-- delivering anything at all to a world that satisfies the invariant keeps it (nothing was rewritten) -/
theorem inv_skeleton' (P : Params V) (T : Tables) (w : World V) (ds : List (Obj × String)) (hinv : Inv P T w) :
    Inv P T (applyDeliv T w ds) := by
  have hss := sameStruct_applyDeliv T w ds
  refine ⟨?_, ?_, ?_, ?_⟩
  · intro o nm sk v hs
    have h1 := (get?_applyDeliv T w ds o nm sk v hs).1
    unfold fresh
    rw [viewOf_congr T hss]
    exact hinv.coh _ _ _ _ h1
  · intro o ha nm sk
    rw [attached_congr hss] at ha
    cases hc : (cacheOf (applyDeliv T w ds) o).get? nm sk with
    | none => rfl
    | some v =>
      have := (get?_applyDeliv T w ds o nm sk v hc).1
      rw [hinv.loose o ha nm sk] at this; cases this
  · intro o nm sk v hs
    have h1 := (get?_applyDeliv T w ds o nm sk v hs).1
    rw [hss.regs]
    exact hinv.creg _ _ _ _ h1
  · intro r hr'
    rw [hss.regs] at hr'
    exact hinv.rdef r hr'

/-- operations that change which glyph a name denotes -/
def Op.isNameOp : Op → Bool
  | .newGlyph _ => true
  | .delGlyph _ => true
  | .rename _ _ => true
  | _ => false

/-- every operation that leaves the layer's name map alone preserves the cache invariant -/
theorem step_inv_local (P : Params V) (T : Tables) (hcov : Coverage T = true) (hpatch : PatchOK P) (w : World V)
    (op : Op) (hn : op.isNameOp = false) (hinv : Inv P T w) (hdom : Dom w) (hdom' : Dom (step P T w op).1) :
    Inv P T (step P T w op).1 := by
  cases op with
  | register cls name => exact inv_register P T w cls name hinv
  | get o name kw => exact inv_get P T w o name kw hinv
  | has o name kw => exact hinv
  | keys o => exact hinv
  | destroy o name kw =>
    unfold step
    cases kw with
    | nil =>
      refine inv_shrink P T w o _ hinv (fun nm sk v h => ?_)
      rw [Cache.get?_destroyName] at h
      by_cases e : name = nm
      · simp [e] at h
      · simpa [e] using h
    | cons a r =>
      refine inv_shrink P T w o _ hinv (fun nm sk v h => ?_)
      rw [Cache.get?_destroyOne] at h
      by_cases e : name = nm ∧ makeSubKey (a :: r) = sk
      · simp [e] at h
      · simpa [e] using h
  | destroyAll o =>
    exact inv_shrink P T w o [] hinv (fun nm sk v h => by simp [Cache.get?] at h)
  | mkContour cid =>
    unfold step
    by_cases h : exists? w (.contour cid) = true
    · simpa [h] using hinv
    · simp only [h]
      exact inv_loose_change P T w _ hinv rfl rfl rfl rfl rfl
  | mkComp kid base =>
    unfold step
    by_cases h : exists? w (.comp kid) = true
    · simpa [h] using hinv
    · simp only [h]
      exact inv_loose_change P T w _ hinv rfl rfl rfl rfl rfl
  | cmut cid meth => exact inv_cmut P T hcov w cid meth hinv hdom hdom'
  | cmove cid dx dy => exact inv_cmove P T hcov hpatch w cid dx dy hinv hdom hdom'
  | kmut kid meth => exact inv_kmut P T hcov w kid meth hinv hdom hdom'
  | ksetBase kid base => exact inv_ksetBase P T hcov w kid base hinv hdom hdom'
  | gmut g meth => exact inv_gmut P T hcov w g meth hinv hdom hdom'
  | insContour g cid idx => exact inv_insContour P T hcov w g cid idx hinv hdom hdom'
  | remContour g cid => exact inv_remContour P T hcov w g cid hinv hdom hdom'
  | insComp g kid idx => exact inv_insComp P T hcov w g kid idx hinv hdom hdom'
  | remComp g kid => exact inv_remComp P T hcov w g kid hinv hdom hdom'
  | newGlyph name => cases hn
  | delGlyph name => cases hn
  | rename old new => cases hn
  | gset meth => exact inv_gset P T hcov w meth hinv
  | touch o meth =>
    -- nothing is rewritten: whatever is delivered only removes entries
    exact inv_skeleton' P T w _ hinv

end Repr
end DefconModel
