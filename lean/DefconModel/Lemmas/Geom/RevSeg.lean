/-
M-Geom helper lemmas: a segment drawn backwards contributes the opposite area; the reversed cycle
of segments has the opposite cyclic sum.
-/
import DefconModel.Lemmas.Geom.Cyclic

namespace DefconModel
namespace Geom

/-- segment `s`, which was drawn from `e`, drawn backwards: from its end point back to `e` -/
def revSeg (e : Pt) (s : Segm) : Segm := { ty := s.ty, pts := s.pts.dropLast.reverse ++ [e], blob := false }

/-- the segments drawn backwards in reverse order, `e` being where the first one started -/
def revFrom (e : Pt) : List Segm → List Segm
  | [] => []
  | s :: r => revFrom (s.endOr e) r ++ [revSeg e s]

theorem revSeg_ok {s : Segm} (h : s.Ok) (e : Pt) : (revSeg e s).Ok := by
  refine ⟨rfl, ?_, by simp [revSeg]⟩
  have hb := h.bad
  simp only [Segm.bad, revSeg] at hb ⊢
  have hlen : (s.pts.dropLast.reverse ++ [e]).length = s.pts.length := by
    have := h.ne
    simp only [List.length_append, List.length_reverse, List.length_dropLast, List.length_cons, List.length_nil]
    have : 0 < s.pts.length := List.length_pos_iff.2 this
    omega
  cases hty : s.ty with
  | move => exact absurd hty h.ty_ne_move
  | line => rw [hty] at hb; simpa [hlen] using hb
  | curve => rw [hty] at hb; simpa [hlen] using hb
  | qcurve => rfl

theorem revSeg_endOr (e e' : Pt) (s : Segm) : (revSeg e s).endOr e' = e := by
  simp [revSeg, Segm.endOr]

/-! ### one segment -/

theorem mid_comm (a b : Pt) : mid a b = mid b a := by
  simp only [mid, Pt.mk.injEq]
  constructor <;> ring

/-- the area term of one quadratic from `e` via `a` to `q`, as AreaPen adds it -/
def quadTerm (e a q : Pt) : Rat := drawSum e [Prim.qCurveTo a q]

theorem quadTerm_anti (e a q : Pt) : quadTerm q a e = - quadTerm e a q := by
  simp only [quadTerm, drawSum, List.foldl_cons, List.foldl_nil, areaStep, areaQuad, areaLine]
  ring

/-- the chain of quadratics `decomposeQuad` makes of `offs ++ [q]`, from `e` -/
def quadChain (e : Pt) (pts : List Pt) : Rat := drawSum e ((decomposeQuad pts).map quadPrim)

theorem quads_isDraw (pts : List Pt) : ∀ pr ∈ (decomposeQuad pts).map quadPrim, pr.isDraw = true :=
  decomposeQuad_map_isDraw pts

theorem quadChain_two (e a q : Pt) : quadChain e [a, q] = quadTerm e a q := rfl

theorem quadChain_cons (e a b : Pt) (c : Pt) (rest : List Pt) :
    quadChain e (a :: b :: c :: rest) = quadTerm e a (mid a b) + quadChain (mid a b) (b :: c :: rest) := by
  unfold quadChain
  simp only [decomposeQuad, List.map_cons]
  have := drawSum_append e [quadPrim (a, mid a b)] ((decomposeQuad (b :: c :: rest)).map quadPrim)
    (by intro pr h; simp at h; subst h; rfl) (quads_isDraw _)
  simp only [List.singleton_append] at this
  rw [this.1]
  rfl

/-- the same chain, peeled from the back -/
theorem quadChain_snoc (e : Pt) (r : List Pt) (a b q : Pt) :
    quadChain e (r ++ [a, b, q]) = quadChain e (r ++ [a, mid a b]) + quadTerm (mid a b) b q := by
  induction r generalizing e with
  | nil =>
    simp only [List.nil_append]
    rw [quadChain_cons, quadChain_two, quadChain_two]
  | cons x r ih =>
    cases r with
    | nil =>
      simp only [List.cons_append, List.nil_append]
      rw [quadChain_cons, quadChain_cons, quadChain_cons, quadChain_two, quadChain_two]
      ring
    | cons y r =>
      have h1 : x :: y :: r ++ [a, b, q] = x :: y :: (r ++ [a, b, q]) := rfl
      have h2 : x :: y :: r ++ [a, mid a b] = x :: y :: (r ++ [a, mid a b]) := rfl
      rw [h1, h2]
      have ih' := ih (mid x y)
      simp only [List.cons_append] at ih'
      cases hr : r ++ [a, b, q] with
      | nil => simp at hr
      | cons z zs =>
        cases hr2 : r ++ [a, mid a b] with
        | nil => simp at hr2
        | cons z2 zs2 =>
          rw [quadChain_cons, quadChain_cons, ← hr, ← hr2, ih']
          ring

/-- a chain of quadratics drawn backwards (through the reversed off-curves) adds the opposite -/
theorem quadChain_anti (offs : List Pt) (e q : Pt) (hne : offs ≠ []) :
    quadChain q (offs.reverse ++ [e]) = - quadChain e (offs ++ [q]) := by
  induction offs using List.reverseRecOn generalizing q with
  | nil => exact absurd rfl hne
  | append_singleton r b ih =>
    cases r using List.reverseRecOn with
    | nil =>
      simp only [List.nil_append, List.reverse_cons, List.reverse_nil, List.singleton_append]
      rw [quadChain_two, quadChain_two, quadTerm_anti]
    | append_singleton r a _ =>
      -- offs = r ++ [a, b]
      have hfwd : r ++ [a] ++ [b] ++ [q] = r ++ [a, b, q] := by simp
      have hbwd : (r ++ [a] ++ [b]).reverse ++ [e] = b :: a :: (r.reverse ++ [e]) := by simp
      rw [hfwd, hbwd, quadChain_snoc]
      have ih' := ih (mid a b) (by simp)
      have hrev : (r ++ [a]).reverse ++ [e] = a :: (r.reverse ++ [e]) := by simp
      rw [hrev] at ih'
      cases hx : r.reverse ++ [e] with
      | nil => simp at hx
      | cons z zs =>
        rw [quadChain_cons, ← hx, mid_comm b a, ih', quadTerm_anti]
        have : r ++ [a] ++ [mid a b] = r ++ [a, mid a b] := by simp
        rw [this]
        ring

theorem lineTerm_anti (e q : Pt) : drawSum q [Prim.lineTo e] = - drawSum e [Prim.lineTo q] := by
  simp only [drawSum, List.foldl_cons, List.foldl_nil, areaStep, areaLine]
  ring

theorem cubicTerm_anti (e a b q : Pt) : drawSum q [Prim.curveTo b a e] = - drawSum e [Prim.curveTo a b q] := by
  simp only [drawSum, List.foldl_cons, List.foldl_nil, areaStep, areaCubic, areaLine]
  ring

theorem expandQ_drawSum (e : Pt) (pts : List Pt) (h : 2 ≤ pts.length) :
    drawSum e (expandQ pts) = quadChain e pts := by
  match pts, h with
  | a :: b :: rest, _ => rfl

theorem prims_of_calls (cs : List Call) : expand cs = cs.flatMap expandCall := rfl

/-- A segment drawn backwards adds the opposite of what it added forwards. -/
theorem segTerm_anti {s : Segm} (h : s.Ok) (e q : Pt) (hq : s.pts.getLast? = some q) :
    drawSum q (revSeg e s).prims = - drawSum e s.prims := by
  have hb := h.bad
  have hsplit : s.pts = s.pts.dropLast ++ [q] := by
    have := List.dropLast_append_getLast? q hq
    exact this.symm
  generalize hoffs : s.pts.dropLast = offs at hsplit
  have hrev : (revSeg e s).pts = offs.reverse ++ [e] := by simp [revSeg, hoffs]
  have hrevl : (revSeg e s).pts.getLast? = some e := by simp [hrev]
  cases hty : s.ty with
  | move => exact absurd hty h.ty_ne_move
  | line =>
    have h1 : s.prims = [Prim.lineTo q] := by
      simp [Segm.prims, Segm.calls, hty, hq, expand, expandCall]
    have h2 : (revSeg e s).prims = [Prim.lineTo e] := by
      have : (revSeg e s).ty = .line := hty
      simp [Segm.prims, Segm.calls, this, hrevl, expand, expandCall]
    rw [h1, h2, lineTerm_anti]
  | qcurve =>
    have hty2 : (revSeg e s).ty = .qcurve := hty
    have h1 : s.prims = expandQ s.pts := by
      simp [Segm.prims, Segm.calls, hty, h.blob, expand, expandCall]
    have h2 : (revSeg e s).prims = expandQ (offs.reverse ++ [e]) := by
      simp only [Segm.prims, Segm.calls, hty2, expand, List.flatMap_cons, List.flatMap_nil, List.append_nil,
        expandCall]
      simp [revSeg, hoffs]
    rw [h1, h2, hsplit]
    cases hoe : offs with
    | nil => simp only [List.reverse_nil, List.nil_append, expandQ]; exact lineTerm_anti e q
    | cons o os =>
      rw [expandQ_drawSum _ _ (by simp), expandQ_drawSum _ _ (by simp)]
      exact quadChain_anti (o :: os) e q (by simp)
  | curve =>
    have hty2 : (revSeg e s).ty = .curve := hty
    have h1 : s.prims = expandCall (.curveTo s.pts) := by
      simp [Segm.prims, Segm.calls, hty, expand]
    have h2 : (revSeg e s).prims = expandCall (.curveTo (offs.reverse ++ [e])) := by
      simp only [Segm.prims, Segm.calls, hty2, expand, List.flatMap_cons, List.flatMap_nil, List.append_nil]
      simp [revSeg, hoffs]
    simp only [Segm.bad, hty] at hb
    rw [h1, h2, hsplit]
    rw [hsplit] at hb
    match offs, hb with
    | [], _ => simp only [List.reverse_nil, List.nil_append, expandCall]; exact lineTerm_anti e q
    | [a], _ =>
      simp only [List.reverse_cons, List.reverse_nil, List.nil_append, List.singleton_append, expandCall, expandQ,
        decomposeQuad, List.map_cons, List.map_nil]
      exact quadTerm_anti e a q
    | [a, b], _ =>
      simp only [List.reverse_cons, List.reverse_nil, List.nil_append, List.cons_append, expandCall]
      exact cubicTerm_anti e a b q
    | a :: b :: c :: r, hb' => simp at hb'

/-- the reversed run of segments ends where the forward run started, and sums to the opposite -/
theorem revFrom_sum (e : Pt) (segs : List Segm) (h : ∀ s ∈ segs, s.Ok) :
    (∀ s ∈ revFrom e segs, s.Ok) ∧
    sumFrom (endFrom e segs) (revFrom e segs) = - sumFrom e segs ∧
    (segs ≠ [] → ∀ x, endFrom x (revFrom e segs) = e) := by
  induction segs generalizing e with
  | nil => exact ⟨by simp [revFrom], by simp [revFrom, sumFrom], fun h => absurd rfl h⟩
  | cons s r ih =>
    have hs := h s (List.mem_cons_self ..)
    have hr : ∀ q ∈ r, q.Ok := fun q hq => h q (List.mem_cons_of_mem _ hq)
    obtain ⟨q, hq⟩ := getLast?_isSome_of_ne_nil hs.ne
    have he1 : s.endOr e = q := by simp [Segm.endOr, hq]
    obtain ⟨i1, i2, i3⟩ := ih q hr
    simp only [revFrom, endFrom, he1]
    refine ⟨?_, ?_, ?_⟩
    · intro x hx
      rcases List.mem_append.1 hx with hx | hx
      · exact i1 x hx
      · simp only [List.mem_singleton] at hx; subst hx; exact revSeg_ok hs e
    · obtain ⟨a1, _⟩ := sumFrom_append (endFrom q r) (revFrom q r) [revSeg e s]
      rw [a1, i2]
      have hend : endFrom (endFrom q r) (revFrom q r) = q := by
        by_cases hre : r = []
        · subst hre; rfl
        · exact i3 hre _
      rw [hend]
      simp only [sumFrom, add_zero]
      rw [segTerm_anti hs e q hq, he1]
      ring
    · intro _ x
      rw [(sumFrom_append x (revFrom q r) [revSeg e s]).2]
      simp [endFrom, revSeg_endOr]

/-- The cycle of segments run backwards has the opposite cyclic sum. -/
theorem cyclicSum_revFrom (segs : List Segm) (hne : segs ≠ []) (h : ∀ s ∈ segs, s.Ok) :
    cyclicSum (revFrom (endFrom ⟨0, 0⟩ segs) segs) = - cyclicSum segs := by
  obtain ⟨_, i2, i3⟩ := revFrom_sum (endFrom ⟨0, 0⟩ segs) segs h
  unfold cyclicSum
  rw [i3 hne]
  have : endFrom (endFrom ⟨0, 0⟩ segs) segs = endFrom ⟨0, 0⟩ segs := endFrom_indep _ _ segs hne h
  rw [← this] at i2 ⊢
  rw [this] at i2 ⊢
  -- the cycle is closed: the forward run started where it ends
  have hclosed : sumFrom (endFrom ⟨0, 0⟩ segs) (revFrom (endFrom ⟨0, 0⟩ segs) segs) =
      sumFrom (endFrom (endFrom ⟨0, 0⟩ segs) segs) (revFrom (endFrom ⟨0, 0⟩ segs) segs) := by rw [this]
  rw [hclosed, i2]

end Geom
end DefconModel
