/-
M-Geom helper lemmas: affine transformations commute with BasePen's expansion; a component moved
by (dx, dy) draws the translated outline.
-/
import DefconModel.Lemmas.Geom.Pens

namespace DefconModel
namespace Geom

def Prim.transform (t : Transform) : Prim → Prim
  | .moveTo p => .moveTo (t.apply p)
  | .lineTo p => .lineTo (t.apply p)
  | .curveTo a b p => .curveTo (t.apply a) (t.apply b) (t.apply p)
  | .qCurveTo a p => .qCurveTo (t.apply a) (t.apply p)
  | .closePath => .closePath
  | .endPath => .endPath

variable (t : Transform)

theorem mid_apply (a b : Pt) : mid (t.apply a) (t.apply b) = t.apply (mid a b) := by
  simp only [mid, Transform.apply, Pt.mk.injEq]
  constructor <;> ring

theorem decomposeQuad_apply (pts : List Pt) :
    decomposeQuad (pts.map t.apply) = (decomposeQuad pts).map (fun ab => (t.apply ab.1, t.apply ab.2)) := by
  match pts with
  | [] => rfl
  | [_] => rfl
  | [a, b] => rfl
  | a :: b :: c :: rest =>
    have ih := decomposeQuad_apply (b :: c :: rest)
    simp only [List.map_cons] at ih
    simp only [List.map_cons, decomposeQuad, ih, mid_apply]

theorem expandQ_apply (pts : List Pt) :
    expandQ (pts.map t.apply) = (expandQ pts).map (Prim.transform t) := by
  match pts with
  | [] => rfl
  | [p] => rfl
  | a :: b :: rest =>
    have := decomposeQuad_apply t (a :: b :: rest)
    simp only [List.map_cons] at this
    simp only [List.map_cons, expandQ, this, List.map_map]
    apply List.map_congr_left
    intro ab _
    rfl

theorem expandCall_transform (c : Call) :
    expandCall (c.transform t) = (expandCall c).map (Prim.transform t) := by
  cases c with
  | moveTo p => rfl
  | lineTo p => rfl
  | closePath => rfl
  | endPath => rfl
  | curveTo pts =>
    match pts with
    | [] => rfl
    | [p] => rfl
    | [a, p] => exact expandQ_apply t [a, p]
    | [a, b, p] => rfl
    | a :: b :: c :: d :: rest => rfl
  | qCurveTo pts blob =>
    cases blob with
    | false => simpa [Call.transform, expandCall] using expandQ_apply t pts
    | true =>
      simp only [Call.transform, expandCall, if_true, List.getLast?_map, List.head?_map]
      cases hl : pts.getLast? with
      | none => rfl
      | some l =>
        cases hh : pts.head? with
        | none => rfl
        | some f =>
          simp only [Option.map_some, mid_apply, List.map_cons, Prim.transform]
          have := expandQ_apply t (pts ++ [mid l f])
          simp only [List.map_append, List.map_cons, List.map_nil] at this
          rw [this]

theorem expand_transform (cs : List Call) :
    expand (cs.map (Call.transform t)) = (expand cs).map (Prim.transform t) := by
  induction cs with
  | nil => rfl
  | cons c cs ih => simp only [List.map_cons, expand_cons, ih, expandCall_transform, List.map_append]

@[simp] theorem Prim.transform_isDraw (pr : Prim) : (pr.transform t).isDraw = pr.isDraw := by
  cases pr <;> rfl

theorem Blocks.transform {ps : List Prim} (h : Blocks ps) : Blocks (ps.map (Prim.transform t)) := by
  induction h with
  | nil => exact Blocks.nil
  | cons p body fin rest h1 h2 _ ih =>
    have := Blocks.cons (t.apply p) (body.map (Prim.transform t)) (fin.transform t) _ ?_ ?_ ih
    · simpa [Prim.transform] using this
    · intro pr hpr
      simp only [List.mem_map] at hpr
      obtain ⟨q, hq, rfl⟩ := hpr
      simpa using h1 q hq
    · rcases h2 with rfl | rfl <;> simp [Prim.transform]

/-! ### translating a transformation -/

/-- what `Component.move` does to the transformation -/
def Transform.moved (t : Transform) (dx dy : Rat) : Transform := { t with dx := t.dx + dx, dy := t.dy + dy }

variable (dx dy : Rat)

theorem Transform.apply_moved (p : Pt) : (t.moved dx dy).apply p = (t.apply p).shift dx dy := by
  simp only [Transform.apply, Transform.moved, Pt.shift, Pt.mk.injEq]
  constructor <;> ring

theorem Transform.compose_moved (inner : Transform) :
    (t.moved dx dy).compose inner = (t.compose inner).moved dx dy := by
  simp only [Transform.compose, Transform.moved, Transform.mk.injEq]
  refine ⟨trivial, trivial, trivial, trivial, ?_, ?_⟩ <;> ring

theorem Call.transform_moved (c : Call) : c.transform (t.moved dx dy) = (c.transform t).shift dx dy := by
  cases c <;> simp [Call.transform, Call.shift, Transform.apply_moved]

theorem transformCalls_moved (cs : List Call) :
    transformCalls (some (t.moved dx dy)) cs = (transformCalls (some t) cs).map (Call.shift dx dy) := by
  simp [transformCalls, Call.transform_moved]

def mapCalls (f : Call → Call) : Except Err (List Call) → Except Err (List Call)
  | .ok cs => .ok (cs.map f)
  | .error e => .error e

theorem ownCalls_moved (g : Glyph) :
    ownCalls (some (t.moved dx dy)) g = mapCalls (Call.shift dx dy) (ownCalls (some t) g) := by
  unfold ownCalls
  cases contoursErr g.contours with
  | some e => rfl
  | none => simp only [transformCalls_moved, mapCalls]

theorem compStep_moved (w : World) (rec : Option Transform → Glyph → Except Err (List Call))
    (hrec : ∀ (t : Transform) g, rec (some (t.moved dx dy)) g = mapCalls (Call.shift dx dy) (rec (some t) g))
    (acc : Except Err (List Call)) (k : Component) :
    compStep w rec (some (t.moved dx dy)) (mapCalls (Call.shift dx dy) acc) k =
      mapCalls (Call.shift dx dy) (compStep w rec (some t) acc k) := by
  cases acc with
  | error e => rfl
  | ok cs =>
    simp only [compStep, mapCalls]
    cases AL.get? w.glyphs k.base with
    | none => rfl
    | some bg =>
      simp only [composeO, Transform.compose_moved, hrec]
      cases rec (some (t.compose k.t)) bg with
      | error e => rfl
      | ok cs2 => simp [mapCalls]

theorem foldl_compStep_moved (w : World) (rec : Option Transform → Glyph → Except Err (List Call))
    (hrec : ∀ (t : Transform) g, rec (some (t.moved dx dy)) g = mapCalls (Call.shift dx dy) (rec (some t) g))
    (ks : List Component) (acc : Except Err (List Call)) :
    ks.foldl (compStep w rec (some (t.moved dx dy))) (mapCalls (Call.shift dx dy) acc) =
      mapCalls (Call.shift dx dy) (ks.foldl (compStep w rec (some t)) acc) := by
  induction ks generalizing acc with
  | nil => rfl
  | cons k ks ih => simp only [List.foldl_cons, compStep_moved t dx dy w rec hrec, ih]

/-- A glyph drawn under a transformation moved by (dx, dy) sends the translated calls. -/
theorem glyphCalls_moved (w : World) (fuel : Nat) (t : Transform) (g : Glyph) :
    glyphCalls w fuel (some (t.moved dx dy)) g = mapCalls (Call.shift dx dy) (glyphCalls w fuel (some t) g) := by
  induction fuel generalizing t g with
  | zero => rfl
  | succ fuel ih =>
    simp only [glyphCalls, ownCalls_moved]
    exact foldl_compStep_moved t dx dy w _ (fun t g => ih t g) _ _

end Geom
end DefconModel
