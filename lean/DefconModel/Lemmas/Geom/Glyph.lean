/-
M-Geom helper lemmas: glyph-level bounds under `Glyph.move`; reading bounds twice; margins.
-/
import DefconModel.Lemmas.Geom.Cache
import DefconModel.Lemmas.Geom.Transform

namespace DefconModel
namespace Geom

/-! ### whatever a glyph sends to a pen consists of whole sub paths -/

theorem expand_flatMap {α : Type} (l : List α) (f : α → List Call) :
    expand (l.flatMap f) = l.flatMap (fun a => expand (f a)) := by
  induction l with
  | nil => rfl
  | cons a l ih => simp only [List.flatMap_cons, expand_append, ih]

theorem Blocks.flatMap_prims (cs : List Contour) : Blocks (cs.flatMap (fun c => expand (drawCalls c.points))) := by
  induction cs with
  | nil => exact Blocks.nil
  | cons c cs ih =>
    simp only [List.flatMap_cons]
    exact Blocks.append (Blocks.prims c.points) ih

theorem Blocks.transformCalls (t : Option Transform) (cs : List Contour) :
    Blocks (expand (transformCalls t (cs.flatMap (fun c => drawCalls c.points)))) := by
  cases t with
  | none =>
    simp only [Geom.transformCalls, expand_flatMap]
    exact Blocks.flatMap_prims cs
  | some t =>
    simp only [Geom.transformCalls, expand_transform, expand_flatMap]
    exact Blocks.transform t (Blocks.flatMap_prims cs)

theorem Blocks.ownCalls {t : Option Transform} {g : Glyph} {cs : List Call} (h : ownCalls t g = .ok cs) :
    Blocks (expand cs) := by
  unfold Geom.ownCalls at h
  split at h
  · cases h
  · cases h; exact Blocks.transformCalls t g.contours

theorem Blocks.compStep {w : World} {rec : Option Transform → Glyph → Except Err (List Call)}
    (hrec : ∀ t g cs, rec t g = .ok cs → Blocks (expand cs)) {t : Option Transform}
    {acc : Except Err (List Call)} (hacc : ∀ cs, acc = .ok cs → Blocks (expand cs)) (k : Component) :
    ∀ cs, Geom.compStep w rec t acc k = .ok cs → Blocks (expand cs) := by
  intro cs h
  unfold Geom.compStep at h
  cases acc with
  | error e => cases h
  | ok cs0 =>
    simp only at h
    cases hb : AL.get? w.glyphs k.base with
    | none => rw [hb] at h; cases h; exact hacc _ rfl
    | some bg =>
      rw [hb] at h
      simp only at h
      cases hr : rec (some (composeO t k.t)) bg with
      | error e => rw [hr] at h; cases h
      | ok cs2 =>
        rw [hr] at h; cases h
        rw [expand_append]
        exact Blocks.append (hacc _ rfl) (hrec _ _ _ hr)

theorem Blocks.glyphCalls (w : World) (fuel : Nat) (t : Option Transform) (g : Glyph) :
    ∀ cs, Geom.glyphCalls w fuel t g = .ok cs → Blocks (expand cs) := by
  induction fuel generalizing t g with
  | zero => intro cs h; cases h
  | succ fuel ih =>
    simp only [Geom.glyphCalls]
    have key : ∀ (ks : List Component) (acc : Except Err (List Call)),
        (∀ cs, acc = .ok cs → Blocks (expand cs)) →
        ∀ cs, ks.foldl (Geom.compStep w (Geom.glyphCalls w fuel) t) acc = .ok cs → Blocks (expand cs) := by
      intro ks
      induction ks with
      | nil => intro acc hacc cs h; exact hacc cs h
      | cons k ks ihk =>
        intro acc hacc cs h
        simp only [List.foldl_cons] at h
        exact ihk _ (Blocks.compStep (fun t g cs h => ih t g cs h) hacc k) cs h
    exact key g.components _ (fun cs h => Blocks.ownCalls h)

/-! ### component bounds -/

variable (dx dy : Rat)

theorem Component.move_t (k : Component) : (k.move dx dy).t = k.t.moved dx dy := rfl

theorem componentCalls_move (w : World) (k : Component) :
    componentCalls w (k.move dx dy) = mapCalls (Call.shift dx dy) (componentCalls w k) := by
  unfold componentCalls
  have : (k.move dx dy).base = k.base := rfl
  rw [this]
  cases AL.get? w.glyphs k.base with
  | none => rfl
  | some bg =>
    simp only
    rw [Component.move_t, glyphCalls_moved]

theorem Blocks.componentCalls (w : World) (k : Component) :
    ∀ cs, Geom.componentCalls w k = .ok cs → Blocks (expand cs) := by
  intro cs h
  unfold Geom.componentCalls at h
  cases hb : AL.get? w.glyphs k.base with
  | none => rw [hb] at h; cases h; exact Blocks.nil
  | some bg => rw [hb] at h; exact Blocks.glyphCalls w _ _ _ cs h

/-- `Component.move` translates the component's bounds -/
theorem Component.bounds_move {o : CurveOracle} (ho : o.Lawful) (w : World) (k : Component) :
    (k.move dx dy).bounds o w = (k.bounds o w).map (Option.map (·.shift dx dy)) := by
  unfold Component.bounds
  rw [componentCalls_move]
  cases h : Geom.componentCalls w k with
  | error e => rfl
  | ok cs =>
    simp only [mapCalls, Except.map]
    rw [expand_shift, (bndBox_shift dx dy ho (Blocks.componentCalls w k cs h)).1]

/-- `Component.move` translates the component's control-point bounds -/
theorem Component.cpb_move (w : World) (k : Component) :
    (k.move dx dy).cpb w = (k.cpb w).map (Option.map (·.shift dx dy)) := by
  unfold Component.cpb
  rw [componentCalls_move]
  cases h : Geom.componentCalls w k with
  | error e => rfl
  | ok cs =>
    simp only [mapCalls, Except.map]
    rw [expand_shift, ctrlBox_shift]

/-! ### glyph bounds -/

theorem unionOO_shift (a b : Option Box) :
    unionOO (a.map (·.shift dx dy)) (b.map (·.shift dx dy)) = (unionOO a b).map (·.shift dx dy) := by
  cases b with
  | none => rfl
  | some b => simp [unionOO, unionO_shift]

/-- the loop over the contours, on moved contours -/
theorem contoursBoxes_move (get : Contour → Contour × Except Err (Option Box))
    (hget : ∀ c, get (c.move dx dy) = ((get c).1.move dx dy, (get c).2.map (Option.map (·.shift dx dy))))
    (cs : List Contour) (acc : Option Box) :
    contoursBoxes get (cs.map (·.move dx dy)) (acc.map (·.shift dx dy)) =
      ((contoursBoxes get cs acc).1.map (·.move dx dy),
       (contoursBoxes get cs acc).2.map (Option.map (·.shift dx dy))) := by
  induction cs generalizing acc with
  | nil => rfl
  | cons c cs ih =>
    simp only [List.map_cons, contoursBoxes, hget]
    cases hg : get c with
    | mk c' r =>
      cases r with
      | error e => simp [Except.map]
      | ok b =>
        simp only [Except.map, unionOO_shift, ih]
        simp

theorem componentsBoxes_move (get : Component → Except Err (Option Box))
    (hget : ∀ k, get (k.move dx dy) = (get k).map (Option.map (·.shift dx dy)))
    (ks : List Component) (acc : Option Box) :
    componentsBoxes get (ks.map (·.move dx dy)) (acc.map (·.shift dx dy)) =
      (componentsBoxes get ks acc).map (Option.map (·.shift dx dy)) := by
  induction ks generalizing acc with
  | nil => rfl
  | cons k ks ih =>
    simp only [List.map_cons, componentsBoxes, hget]
    cases hg : get k with
    | error e => rfl
    | ok b => simp only [Except.map, unionOO_shift, ih]

theorem thenComponents_move (get : Component → Except Err (Option Box))
    (hget : ∀ k, get (k.move dx dy) = (get k).map (Option.map (·.shift dx dy)))
    (ks : List Component) (r : Except Err (Option Box)) :
    thenComponents get (ks.map (·.move dx dy)) (r.map (Option.map (·.shift dx dy))) =
      (thenComponents get ks r).map (Option.map (·.shift dx dy)) := by
  cases r with
  | error e => rfl
  | ok acc => exact componentsBoxes_move dx dy get hget ks acc

/-- `bounds` of the moved glyph = moved `bounds` (base glyphs looked up in the same layer `w`) -/
theorem Glyph.getBounds_move {o : CurveOracle} (ho : o.Lawful) (w : World) (g : Glyph) :
    (g.move dx dy).getBounds o w =
      ((g.getBounds o w).1.move dx dy, (g.getBounds o w).2.map (Option.map (·.shift dx dy))) := by
  have h1 := contoursBoxes_move dx dy (Contour.getBounds o w.caching) (Contour.getBounds_move dx dy ho w.caching)
    g.contours none
  simp only [Option.map_none] at h1
  have hc : (g.move dx dy).contours = g.contours.map (·.move dx dy) := rfl
  have hk : (g.move dx dy).components = g.components.map (·.move dx dy) := rfl
  simp only [Glyph.getBounds, hc, hk, h1, thenComponents_move dx dy _ (Component.bounds_move dx dy ho w)]
  simp [Glyph.move]

theorem Glyph.getCpb_move (w : World) (g : Glyph) :
    (g.move dx dy).getCpb w =
      ((g.getCpb w).1.move dx dy, (g.getCpb w).2.map (Option.map (·.shift dx dy))) := by
  have h1 := contoursBoxes_move dx dy (Contour.getCpb w.caching) (Contour.getCpb_move dx dy w.caching) g.contours none
  simp only [Option.map_none] at h1
  have hc : (g.move dx dy).contours = g.contours.map (·.move dx dy) := rfl
  have hk : (g.move dx dy).components = g.components.map (·.move dx dy) := rfl
  simp only [Glyph.getCpb, hc, hk, h1, thenComponents_move dx dy _ (Component.cpb_move dx dy w)]
  simp [Glyph.move]

/-! ### glyph area under `Glyph.move` -/

theorem contoursErr_move (cs : List Contour) : contoursErr (cs.map (·.move dx dy)) = contoursErr cs := by
  induction cs with
  | nil => rfl
  | cons c cs ih =>
    simp only [List.map_cons, contoursErr]
    have : (c.move dx dy).points = c.points.map (·.move dx dy) := rfl
    rw [this, drawErr_move, ih]

theorem flatMap_drawCalls_move (cs : List Contour) :
    (cs.map (·.move dx dy)).flatMap (fun c => drawCalls c.points) =
      (cs.flatMap (fun c => drawCalls c.points)).map (Call.shift dx dy) := by
  induction cs with
  | nil => rfl
  | cons c cs ih =>
    have : (c.move dx dy).points = c.points.map (·.move dx dy) := rfl
    simp only [List.map_cons, List.flatMap_cons, List.map_append, ih, this, drawCalls_move]

theorem ownCalls_none_move (g : Glyph) :
    ownCalls none (g.move dx dy) = mapCalls (Call.shift dx dy) (ownCalls none g) := by
  unfold ownCalls
  have hc : (g.move dx dy).contours = g.contours.map (·.move dx dy) := rfl
  rw [hc, contoursErr_move]
  cases contoursErr g.contours with
  | some e => rfl
  | none => simp only [transformCalls, flatMap_drawCalls_move, mapCalls]

theorem compStep_none_move (w : World) (fuel : Nat) (acc : Except Err (List Call)) (k : Component) :
    compStep w (glyphCalls w fuel) none (mapCalls (Call.shift dx dy) acc) (k.move dx dy) =
      mapCalls (Call.shift dx dy) (compStep w (glyphCalls w fuel) none acc k) := by
  cases acc with
  | error e => rfl
  | ok cs =>
    simp only [compStep, mapCalls]
    have hb : (k.move dx dy).base = k.base := rfl
    rw [hb]
    cases AL.get? w.glyphs k.base with
    | none => rfl
    | some bg =>
      simp only [composeO, Component.move_t, glyphCalls_moved]
      cases glyphCalls w fuel (some k.t) bg with
      | error e => rfl
      | ok cs2 => simp [mapCalls]

/-- a moved glyph sends the translated calls to a pen -/
theorem glyphCalls_none_move (w : World) (fuel : Nat) (g : Glyph) :
    glyphCalls w fuel none (g.move dx dy) = mapCalls (Call.shift dx dy) (glyphCalls w fuel none g) := by
  cases fuel with
  | zero => rfl
  | succ fuel =>
    simp only [glyphCalls, ownCalls_none_move]
    have hk : (g.move dx dy).components = g.components.map (·.move dx dy) := rfl
    rw [hk]
    generalize ownCalls none g = acc
    induction g.components generalizing acc with
    | nil => rfl
    | cons k ks ih => simp only [List.map_cons, List.foldl_cons, compStep_none_move, ih]

/-- `Glyph.move` leaves the glyph's area alone (base glyphs looked up in the same layer) -/
theorem Glyph.area_move (w : World) (g : Glyph) : (g.move dx dy).area w = g.area w := by
  unfold Glyph.area
  rw [glyphCalls_none_move]
  cases h : glyphCalls w fuelDefault none g with
  | error e => rfl
  | ok cs =>
    simp only [mapCalls]
    rw [expand_shift]
    have hsame := areaRun_shift dx dy false (Blocks.glyphCalls w _ _ _ cs h)
    obtain ⟨h1, h2⟩ := hsame
    rw [h1]
    cases he : (areaRun false (expand cs)).openErr with
    | true => rfl
    | false => simp only [h2 he]

/-! ### reading twice; bounds depend on contours and components only -/

theorem getRep_idem {β : Type} (k : Bool) (cache : Option β) (err : Option Err) (fresh : β) :
    getRep k (getRep k cache err fresh).1 err fresh = getRep k cache err fresh := by
  cases cache with
  | some v => rfl
  | none =>
    cases err with
    | some e => rfl
    | none => cases k <;> rfl

theorem Contour.getBounds_idem (o : CurveOracle) (k : Bool) (c : Contour) :
    (c.getBounds o k).1.getBounds o k = c.getBounds o k := by
  simp only [Contour.getBounds, getRep_idem]

theorem contoursBoxes_idem (get : Contour → Contour × Except Err (Option Box))
    (hget : ∀ c, get (get c).1 = get c) (cs : List Contour) (acc : Option Box) :
    contoursBoxes get (contoursBoxes get cs acc).1 acc = contoursBoxes get cs acc := by
  induction cs generalizing acc with
  | nil => rfl
  | cons c cs ih =>
    simp only [contoursBoxes]
    cases hg : get c with
    | mk c' r =>
      have h1 : get c' = (c', r) := by
        have := hget c
        rw [hg] at this
        exact this
      cases r with
      | error e => simp only [contoursBoxes, h1]
      | ok b => simp only [contoursBoxes, h1, ih]

/-- reading `bounds` a second time gives the same answer and changes nothing -/
theorem Glyph.getBounds_idem (o : CurveOracle) (w : World) (g : Glyph) :
    (g.getBounds o w).1.getBounds o w = g.getBounds o w := by
  have h := contoursBoxes_idem (Contour.getBounds o w.caching) (Contour.getBounds_idem o w.caching) g.contours none
  simp only [Glyph.getBounds, h]

/-- `bounds` looks at the contours and components only -/
theorem Glyph.getBounds_congr (o : CurveOracle) (w : World) (g g' : Glyph) (hc : g'.contours = g.contours)
    (hk : g'.components = g.components) : (g'.getBounds o w).2 = (g.getBounds o w).2 := by
  simp only [Glyph.getBounds, hc, hk]

@[simp] theorem Box.shift_zero (b : Box) : b.shift 0 0 = b := by
  cases b; simp [Box.shift]

/-! ### the four margin setters -/

/-- `leftMargin = v`: afterwards `bounds` is the old box moved by `v - xMin` -/
theorem setLeftMargin_bounds {o : CurveOracle} (ho : o.Lawful) (w : World) (g : Glyph) (b : Box) (v : Rat)
    (hb : (g.getBounds o w).2 = .ok (some b)) :
    ((setLeftMargin (g.getBounds o w).1 (some b) v).getBounds o w).2 = .ok (some (b.shift (v - b.xMin) 0)) := by
  have hidem := Glyph.getBounds_idem o w g
  unfold setLeftMargin
  simp only
  split
  · rename_i hne
    refine Eq.trans (Glyph.getBounds_congr o w (((g.getBounds o w).1).move (v - b.xMin) 0) _ ?_ ?_) ?_
    · rfl
    · rfl
    · rw [Glyph.getBounds_move _ _ ho, hidem, hb]
      rfl
  · rename_i heq
    have : v = b.xMin := by
      by_contra hh; exact heq hh
    rw [hidem, hb, this]
    simp

theorem setLeftMargin_metrics (g : Glyph) (b : Box) (v : Rat) :
    (setLeftMargin g (some b) v).width = g.width + (v - b.xMin) ∧
    (setLeftMargin g (some b) v).height = g.height ∧ (setLeftMargin g (some b) v).vo = g.vo := by
  unfold setLeftMargin
  simp only
  split
  · exact ⟨rfl, rfl, rfl⟩
  · rename_i heq
    have : v = b.xMin := by
      by_contra hh; exact heq hh
    rw [this]; simp

theorem setRightMargin_outline (g : Glyph) (b : Option Box) (v : Rat) :
    (setRightMargin g b v).contours = g.contours ∧ (setRightMargin g b v).components = g.components ∧
    (setRightMargin g b v).height = g.height ∧ (setRightMargin g b v).vo = g.vo := by
  unfold setRightMargin
  cases b with
  | none => exact ⟨rfl, rfl, rfl, rfl⟩
  | some b => simp only; split <;> exact ⟨rfl, rfl, rfl, rfl⟩

theorem setRightMargin_law (g : Glyph) (b : Box) (v : Rat) :
    rightMarginOf (setRightMargin g (some b) v) (some b) = some v ∧
    (setRightMargin g (some b) v).width = g.width + (v - (g.width - b.xMax)) := by
  unfold setRightMargin rightMarginOf
  simp only
  split
  · simp only [Option.map_some, Option.some.injEq]
    constructor <;> ring
  · rename_i heq
    have : g.width - b.xMax = v := by
      by_contra hh; exact heq hh
    simp only [Option.map_some, Option.some.injEq]
    constructor
    · exact this
    · rw [this]; ring

theorem setBottomMargin_outline (g : Glyph) (b : Option Box) (v : Rat) :
    (setBottomMargin g b v).contours = g.contours ∧ (setBottomMargin g b v).components = g.components ∧
    (setBottomMargin g b v).width = g.width := by
  unfold setBottomMargin
  cases b with
  | none => exact ⟨rfl, rfl, rfl⟩
  | some b => simp only; split_ifs <;> cases g.vo <;> exact ⟨rfl, rfl, rfl⟩

theorem setBottomMargin_law (g : Glyph) (b : Box) (v old : Rat) (hold : bottomMarginOf g (some b) = some old) :
    bottomMarginOf (setBottomMargin g (some b) v) (some b) = some v ∧
    topMarginOf (setBottomMargin g (some b) v) (some b) = topMarginOf g (some b) ∧
    (setBottomMargin g (some b) v).height = g.height + (v - old) := by
  cases hvo : g.vo with
  | none =>
    simp only [bottomMarginOf, hvo, Option.map_some, Option.some.injEq] at hold
    subst hold
    by_cases h : v = b.yMin
    · subst h
      simp [setBottomMargin, bottomMarginOf, topMarginOf, hvo]
    · simp [setBottomMargin, bottomMarginOf, topMarginOf, hvo, h]
  | some vo =>
    simp only [bottomMarginOf, hvo, Option.map_some, Option.some.injEq] at hold
    subst hold
    by_cases h : v = b.yMin - (vo - g.height)
    · subst h
      simp [setBottomMargin, bottomMarginOf, topMarginOf, hvo]
    · simp [setBottomMargin, bottomMarginOf, topMarginOf, hvo, h]
      ring

theorem setTopMargin_outline (g : Glyph) (b : Option Box) (v : Rat) :
    (setTopMargin g b v).contours = g.contours ∧ (setTopMargin g b v).components = g.components ∧
    (setTopMargin g b v).width = g.width := by
  unfold setTopMargin
  cases b with
  | none => exact ⟨rfl, rfl, rfl⟩
  | some b => simp only; split_ifs <;> exact ⟨rfl, rfl, rfl⟩

theorem setTopMargin_law (g : Glyph) (b : Box) (v old : Rat) (hold : topMarginOf g (some b) = some old) :
    topMarginOf (setTopMargin g (some b) v) (some b) = some v ∧
    bottomMarginOf (setTopMargin g (some b) v) (some b) = bottomMarginOf g (some b) ∧
    (setTopMargin g (some b) v).height = g.height + (v - old) := by
  cases hvo : g.vo with
  | none =>
    simp only [topMarginOf, hvo, Option.map_some, Option.some.injEq] at hold
    subst hold
    by_cases h : g.height - b.yMax = v
    · subst h
      simp [setTopMargin, bottomMarginOf, topMarginOf, hvo]
    · simp [setTopMargin, bottomMarginOf, topMarginOf, hvo, h]
      ring
  | some vo =>
    simp only [topMarginOf, hvo, Option.map_some, Option.some.injEq] at hold
    subst hold
    by_cases h : vo - b.yMax = v
    · subst h
      simp [setTopMargin, bottomMarginOf, topMarginOf, hvo]
    · simp [setTopMargin, bottomMarginOf, topMarginOf, hvo, h]
      ring

end Geom
end DefconModel
