/-
M-Geom helper lemmas: `Contour.setStartPoint`.
-/
import DefconModel.Lemmas.Geom.Reverse

namespace DefconModel
namespace Geom

theorem pyIndex_lt {n : Nat} {i : Int} {k : Nat} (h : pyIndex n i = some k) : k < n := by
  unfold pyIndex at h
  split at h
  · split at h
    · cases h; assumption
    · cases h
  · split at h
    · cases h
      rename_i h1 h2
      omega
    · cases h

/-- what a successful `setStartPoint` did: nothing (fewer than two on-curve points, or an open
contour), or a rotation that brings an on-curve point of a closed contour to the front and drops
the cached representations -/
theorem setStartPoint_ok {c c' : Contour} {i : Int} (h : c.setStartPoint i = .ok c') :
    (c' = c ∧ (onCurveCount c.points < 2 ∨ isOpen c.points = true)) ∨
    (∃ k p, pyIndex c.points.length i = some k ∧ c.points[k]? = some p ∧ p.onCurve = true ∧
      isOpen c.points = false ∧ 2 ≤ onCurveCount c.points ∧
      c' = { points := c.points.drop k ++ c.points.take k }) := by
  unfold Contour.setStartPoint at h
  split at h
  · rename_i h1; cases h; exact Or.inl ⟨rfl, Or.inl h1⟩
  · rename_i h1
    split at h
    · rename_i h2; cases h; exact Or.inl ⟨rfl, Or.inr h2⟩
    · rename_i h2
      split at h
      · cases h
      · rename_i k hk
        split at h
        · cases h
        · rename_i p hp
          split at h
          · cases h
          · rename_i hon
            cases h
            refine Or.inr ⟨k, p, hk, hp, ?_, by simpa using h2, by omega, rfl⟩
            cases hs : p.seg with
            | none => exact absurd hs hon
            | some t => simp [Point.onCurve, hs]

theorem drop_append_take_perm {α : Type} (l : List α) (k : Nat) : (l.drop k ++ l.take k).Perm l := by
  have := List.perm_append_comm (l₁ := l.drop k) (l₂ := l.take k)
  rw [List.take_append_drop] at this
  exact this

/-- rotating a closed contour onto an on-curve point keeps it closed -/
theorem isOpen_rotate {pts : List Point} {k : Nat} {p : Point} (hp : pts[k]? = some p)
    (hm : noMove pts = true) : isOpen (pts.drop k ++ pts.take k) = false := by
  have hk : k < pts.length := by
    rcases Nat.lt_or_ge k pts.length with h | h
    · exact h
    · rw [List.getElem?_eq_none h] at hp; cases hp
  have hd : pts.drop k = p :: pts.drop (k + 1) := by
    rw [List.getElem?_eq_getElem hk] at hp
    cases hp
    exact List.drop_eq_getElem_cons hk
  rw [hd, List.cons_append, isOpen_cons]
  simp only [noMove, List.all_eq_true, decide_eq_true_eq] at hm
  have : p ∈ pts := List.mem_of_getElem? hp
  simpa using hm p this

end Geom
end DefconModel
