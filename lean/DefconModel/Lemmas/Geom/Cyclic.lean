/-
M-Geom helper lemmas: the area of a closed contour as a cyclic sum over its segments; invariance
under a change of start point.
-/
import DefconModel.Lemmas.Geom.Cache
import DefconModel.Lemmas.Geom.SetStart

namespace DefconModel
namespace Geom

/-! ### AreaPen on drawing primitives: additive, independent of the sub path's start -/

theorem areaStep_draw_start (ic : Bool) (st : AreaSt) (pr : Prim) (h : pr.isDraw = true) :
    (areaStep ic st pr).start = st.start ∧ (areaStep ic st pr).openErr = st.openErr := by
  cases pr <;> simp [Prim.isDraw] at h <;> simp [areaStep, areaLine, areaQuad, areaCubic]

/-- what drawing primitives add to the pen's value, from current point `p0` -/
def drawSum (p0 : Pt) (ps : List Prim) : Rat := (ps.foldl (areaStep true) { value := 0, p0 := p0, start := p0 }).value

/-- where drawing primitives leave the pen -/
def drawEnd (p0 : Pt) (ps : List Prim) : Pt := (ps.foldl (areaStep true) { value := 0, p0 := p0, start := p0 }).p0

theorem areaStep_draw_ic (ic : Bool) (st : AreaSt) (pr : Prim) (h : pr.isDraw = true) :
    areaStep ic st pr = areaStep true st pr := by
  cases pr <;> simp [Prim.isDraw] at h <;> rfl

theorem areaFold_draw_ic (ic : Bool) (ps : List Prim) (h : ∀ pr ∈ ps, pr.isDraw = true) (st : AreaSt) :
    ps.foldl (areaStep ic) st = ps.foldl (areaStep true) st := by
  induction ps generalizing st with
  | nil => rfl
  | cons pr ps ih =>
    simp only [List.foldl_cons]
    rw [areaStep_draw_ic ic st pr (h pr (List.mem_cons_self ..)),
      ih (fun q hq => h q (List.mem_cons_of_mem _ hq))]

theorem areaStep_draw_additive (st : AreaSt) (pr : Prim) (h : pr.isDraw = true) :
    (areaStep true st pr).value = st.value + (areaStep true { value := 0, p0 := st.p0, start := st.p0 } pr).value ∧
    (areaStep true st pr).p0 = (areaStep true { value := 0, p0 := st.p0, start := st.p0 } pr).p0 := by
  cases pr <;> simp [Prim.isDraw] at h <;> simp [areaStep, areaLine, areaQuad, areaCubic] <;> ring

theorem areaFold_draw_true (ps : List Prim) (h : ∀ pr ∈ ps, pr.isDraw = true) (st : AreaSt) :
    (ps.foldl (areaStep true) st).value = st.value + drawSum st.p0 ps ∧
    (ps.foldl (areaStep true) st).p0 = drawEnd st.p0 ps ∧
    (ps.foldl (areaStep true) st).start = st.start ∧
    (ps.foldl (areaStep true) st).openErr = st.openErr := by
  induction ps generalizing st with
  | nil => simp [drawSum, drawEnd]
  | cons pr ps ih =>
    have hpr := h pr (List.mem_cons_self ..)
    have hps : ∀ q ∈ ps, q.isDraw = true := fun q hq => h q (List.mem_cons_of_mem _ hq)
    obtain ⟨a1, a2⟩ := areaStep_draw_additive st pr hpr
    obtain ⟨a3, a4⟩ := areaStep_draw_start true st pr hpr
    obtain ⟨i1, i2, i3, i4⟩ := ih hps (areaStep true st pr)
    obtain ⟨j1, j2, _, _⟩ := ih hps (areaStep true { value := 0, p0 := st.p0, start := st.p0 } pr)
    simp only [List.foldl_cons, drawSum, drawEnd] at *
    refine ⟨?_, ?_, ?_, ?_⟩
    · rw [i1, a1, j1, a2]; ring
    · rw [i2, j2, a2]
    · rw [i3, a3]
    · rw [i4, a4]

theorem areaFold_draw (ic : Bool) (ps : List Prim) (h : ∀ pr ∈ ps, pr.isDraw = true) (st : AreaSt) :
    (ps.foldl (areaStep ic) st).value = st.value + drawSum st.p0 ps ∧
    (ps.foldl (areaStep ic) st).p0 = drawEnd st.p0 ps ∧
    (ps.foldl (areaStep ic) st).start = st.start ∧
    (ps.foldl (areaStep ic) st).openErr = st.openErr := by
  rw [areaFold_draw_ic ic ps h st]
  exact areaFold_draw_true ps h st

theorem drawSum_append (p0 : Pt) (a b : List Prim) (ha : ∀ pr ∈ a, pr.isDraw = true)
    (hb : ∀ pr ∈ b, pr.isDraw = true) :
    drawSum p0 (a ++ b) = drawSum p0 a + drawSum (drawEnd p0 a) b ∧
    drawEnd p0 (a ++ b) = drawEnd (drawEnd p0 a) b := by
  have h := areaFold_draw true b hb (a.foldl (areaStep true) { value := 0, p0 := p0, start := p0 })
  have k := areaFold_draw true a ha { value := 0, p0 := p0, start := p0 }
  obtain ⟨h1, h2, _, _⟩ := h
  obtain ⟨k1, k2, _, _⟩ := k
  have e1 : drawSum p0 (a ++ b) = (b.foldl (areaStep true) (a.foldl (areaStep true) { value := 0, p0 := p0, start := p0 })).value := by
    simp [drawSum, List.foldl_append]
  have e2 : drawEnd p0 (a ++ b) = (b.foldl (areaStep true) (a.foldl (areaStep true) { value := 0, p0 := p0, start := p0 })).p0 := by
    simp [drawEnd, List.foldl_append]
  rw [e1, e2, h1, h2, k2, k1]
  simp

theorem drawSum_nil (p0 : Pt) : drawSum p0 [] = 0 ∧ drawEnd p0 [] = p0 := ⟨rfl, rfl⟩

/-! ### segments as they are drawn when no line is omitted -/

/-- the calls a segment is flushed as (the implied closing line included) -/
def Segm.calls (s : Segm) : List Call :=
  match s.ty with
  | .line =>
    match s.pts.getLast? with
    | some pt => [.lineTo pt]
    | none => []
  | .curve => [.curveTo s.pts]
  | .qcurve => [.qCurveTo s.pts s.blob]
  | .move => []

def Segm.prims (s : Segm) : List Prim := expand s.calls

def segsPrims (segs : List Segm) : List Prim := segs.flatMap Segm.prims

theorem Segm.prims_isDraw (s : Segm) (hb : s.blob = false) : ∀ pr ∈ s.prims, pr.isDraw = true := by
  apply expand_isDraw
  intro c hc
  unfold Segm.calls at hc
  cases hty : s.ty with
  | line =>
    rw [hty] at hc
    simp only at hc
    cases hl : s.pts.getLast? with
    | none => rw [hl] at hc; simp at hc
    | some pt => rw [hl] at hc; simp at hc; subst hc; rfl
  | curve => rw [hty] at hc; simp at hc; subst hc; rfl
  | qcurve => rw [hty] at hc; simp at hc; subst hc; simp [Call.isDraw, hb]
  | move => rw [hty] at hc; simp at hc

theorem segsPrims_isDraw (segs : List Segm) (hb : ∀ s ∈ segs, s.blob = false) :
    ∀ pr ∈ segsPrims segs, pr.isDraw = true := by
  intro pr hpr
  simp only [segsPrims, List.mem_flatMap] at hpr
  obtain ⟨s, hs, hpr⟩ := hpr
  exact s.prims_isDraw (hb s hs) pr hpr

theorem segsPrims_append (a b : List Segm) : segsPrims (a ++ b) = segsPrims a ++ segsPrims b := by
  simp [segsPrims]

theorem segsPrims_cons (s : Segm) (r : List Segm) : segsPrims (s :: r) = s.prims ++ segsPrims r := by
  simp [segsPrims]

theorem areaStep_draw_p0 (st : AreaSt) (pr : Prim) (h : pr.isDraw = true) :
    (areaStep true st pr).p0 = pr.endPt st.p0 := by
  cases pr <;> simp [Prim.isDraw] at h <;> simp [areaStep, areaLine, areaQuad, areaCubic, Prim.endPt]

/-- where a list of primitives leaves the pen -/
def endFold (c : Pt) (ps : List Prim) : Pt := ps.foldl (fun c pr => pr.endPt c) c

theorem foldl_areaStep_p0 (ps : List Prim) (h : ∀ pr ∈ ps, pr.isDraw = true) (st : AreaSt) :
    (ps.foldl (areaStep true) st).p0 = endFold st.p0 ps := by
  induction ps generalizing st with
  | nil => rfl
  | cons pr ps ih =>
    simp only [List.foldl_cons, endFold]
    rw [ih (fun q hq => h q (List.mem_cons_of_mem _ hq)), areaStep_draw_p0 st pr (h pr (List.mem_cons_self ..))]
    rfl

theorem drawEnd_eq_endFold (p0 : Pt) (ps : List Prim) (h : ∀ pr ∈ ps, pr.isDraw = true) :
    drawEnd p0 ps = endFold p0 ps := foldl_areaStep_p0 ps h _

theorem endFold_quads (c : Pt) (pts : List Pt) (hlen : 2 ≤ pts.length) (last : Pt) (hl : pts.getLast? = some last) :
    endFold c ((decomposeQuad pts).map quadPrim) = last := by
  match pts, hlen with
  | [a, b], _ =>
    simp at hl; subst hl
    simp [decomposeQuad, endFold, quadPrim, Prim.endPt]
  | a :: b :: d :: rest, _ =>
    have hl' : (b :: d :: rest).getLast? = some last := by
      simpa [List.getLast?_cons_cons] using hl
    have ih := endFold_quads (mid a b) (b :: d :: rest) (by simp) last hl'
    simp only [decomposeQuad, List.map_cons, endFold, List.foldl_cons, quadPrim, Prim.endPt] at ih ⊢
    exact ih

theorem expandQ_end (c : Pt) (pts : List Pt) (last : Pt) (hl : pts.getLast? = some last) :
    endFold c (expandQ pts) = last := by
  match pts with
  | [] => simp at hl
  | [p] => simp at hl; subst hl; simp [expandQ, endFold, Prim.endPt]
  | a :: b :: rest =>
    simp only [expandQ]
    exact endFold_quads c (a :: b :: rest) (by simp) last hl

/-- a segment the pens accept, as `group` builds it -/
structure Segm.Ok (s : Segm) : Prop where
  blob : s.blob = false
  bad : s.bad false = none
  ne : s.pts ≠ []

theorem Segm.Ok.ty_ne_move {s : Segm} (h : s.Ok) : s.ty ≠ .move := by
  intro hm
  have := h.bad
  simp [Segm.bad, hm] at this

/-- the pen ends a drawn segment at the segment's last point -/
theorem Segm.Ok.prims_end {s : Segm} (h : s.Ok) (c pt : Pt) (hp : s.pts.getLast? = some pt) :
    endFold c s.prims = pt := by
  unfold Segm.prims Segm.calls
  have hbad := h.bad
  cases hty : s.ty with
  | move => exact absurd hty h.ty_ne_move
  | line =>
    simp only [hp]
    simp [expand, expandCall, endFold, Prim.endPt]
  | qcurve =>
    simp only [h.blob]
    simp only [expand, List.flatMap_cons, List.flatMap_nil, List.append_nil, expandCall]
    exact expandQ_end c s.pts pt hp
  | curve =>
    simp only [Segm.bad, hty] at hbad
    simp only [expand, List.flatMap_cons, List.flatMap_nil, List.append_nil, expandCall]
    match hs : s.pts with
    | [] => rw [hs] at hp; simp at hp
    | [p] => rw [hs] at hp; simp at hp; subst hp; simp [endFold, Prim.endPt]
    | [a, p] => rw [hs] at hp; exact expandQ_end c [a, p] pt hp
    | [a, b, p] => rw [hs] at hp; simp at hp; subst hp; simp [endFold, Prim.endPt]
    | a :: b :: d :: e :: rest => rw [hs] at hbad; simp at hbad

def Segm.endOr (s : Segm) (e : Pt) : Pt := s.pts.getLast?.getD e

/-- the area terms of consecutive segments, the first starting at `e` -/
def sumFrom (e : Pt) : List Segm → Rat
  | [] => 0
  | s :: r => drawSum e s.prims + sumFrom (s.endOr e) r

/-- where consecutive segments end -/
def endFrom (e : Pt) : List Segm → Pt
  | [] => e
  | s :: r => endFrom (s.endOr e) r

theorem Segm.Ok.drawEnd {s : Segm} (h : s.Ok) (e : Pt) : Geom.drawEnd e s.prims = s.endOr e := by
  obtain ⟨pt, hpt⟩ := getLast?_isSome_of_ne_nil h.ne
  rw [drawEnd_eq_endFold e s.prims (s.prims_isDraw h.blob), h.prims_end e pt hpt]
  simp [Segm.endOr, hpt]

theorem drawSum_segsPrims (e : Pt) (segs : List Segm) (h : ∀ s ∈ segs, s.Ok) :
    drawSum e (segsPrims segs) = sumFrom e segs ∧ Geom.drawEnd e (segsPrims segs) = endFrom e segs := by
  induction segs generalizing e with
  | nil => exact ⟨rfl, rfl⟩
  | cons s r ih =>
    have hs := h s (List.mem_cons_self ..)
    have hr : ∀ q ∈ r, q.Ok := fun q hq => h q (List.mem_cons_of_mem _ hq)
    obtain ⟨a1, a2⟩ := drawSum_append e s.prims (segsPrims r) (s.prims_isDraw hs.blob)
      (segsPrims_isDraw r (fun q hq => (hr q hq).blob))
    obtain ⟨i1, i2⟩ := ih (s.endOr e) hr
    rw [segsPrims_cons, a1, a2, hs.drawEnd e, i1, i2]
    exact ⟨rfl, rfl⟩

theorem sumFrom_append (e : Pt) (a b : List Segm) :
    sumFrom e (a ++ b) = sumFrom e a + sumFrom (endFrom e a) b ∧ endFrom e (a ++ b) = endFrom (endFrom e a) b := by
  induction a generalizing e with
  | nil => simp [sumFrom, endFrom]
  | cons s r ih =>
    obtain ⟨i1, i2⟩ := ih (s.endOr e)
    simp only [List.cons_append, sumFrom, endFrom, i1, i2]
    exact ⟨by ring, trivial⟩

/-- a non-empty run of good segments ends where its last segment ends, wherever it started -/
theorem endFrom_indep (e e' : Pt) (segs : List Segm) (hne : segs ≠ []) (h : ∀ s ∈ segs, s.Ok) :
    endFrom e segs = endFrom e' segs := by
  induction segs generalizing e e' with
  | nil => exact absurd rfl hne
  | cons s r ih =>
    have hs := h s (List.mem_cons_self ..)
    obtain ⟨pt, hpt⟩ := getLast?_isSome_of_ne_nil hs.ne
    simp only [endFrom, Segm.endOr, hpt, Option.getD_some]

/-- the cyclic sum: every segment starts where the previous one (cyclically) ends -/
def cyclicSum (segs : List Segm) : Rat := sumFrom (endFrom ⟨0, 0⟩ segs) segs

/-- Rotating the cycle of segments does not change the cyclic sum. -/
theorem cyclicSum_rotate (a b : List Segm) (ha : ∀ s ∈ a, s.Ok) (hb : ∀ s ∈ b, s.Ok) :
    cyclicSum (a ++ b) = cyclicSum (b ++ a) := by
  by_cases hae : a = []
  · subst hae; simp
  by_cases hbe : b = []
  · subst hbe; simp
  unfold cyclicSum
  obtain ⟨s1, e1⟩ := sumFrom_append (endFrom ⟨0, 0⟩ (a ++ b)) a b
  obtain ⟨s2, e2⟩ := sumFrom_append (endFrom ⟨0, 0⟩ (b ++ a)) b a
  rw [s1, s2]
  have hab : endFrom ⟨0, 0⟩ (a ++ b) = endFrom ⟨0, 0⟩ b := by
    rw [(sumFrom_append ⟨0, 0⟩ a b).2]; exact endFrom_indep _ _ b hbe hb
  have hba : endFrom ⟨0, 0⟩ (b ++ a) = endFrom ⟨0, 0⟩ a := by
    rw [(sumFrom_append ⟨0, 0⟩ b a).2]; exact endFrom_indep _ _ a hae ha
  rw [hab, hba, endFrom_indep (endFrom ⟨0, 0⟩ b) ⟨0, 0⟩ a hae ha, endFrom_indep (endFrom ⟨0, 0⟩ a) ⟨0, 0⟩ b hbe hb]
  ring

/-! ### from the pen pipeline to the cyclic sum -/

theorem Segm.Ok.calls_line {s : Segm} (h : s.Ok) (hty : s.ty = .line) :
    ∃ pt, s.pts.getLast? = some pt ∧ s.calls = [.lineTo pt] := by
  obtain ⟨pt, hpt⟩ := getLast?_isSome_of_ne_nil h.ne
  exact ⟨pt, hpt, by simp [Segm.calls, hty, hpt]⟩

/-- while segments follow, a segment is flushed as its own calls -/
theorem flushLoop_cons_ne (closed : Bool) (lp : Option Pt) (s : Segm) (rest : List Segm) (hne : rest ≠ [])
    (hok : s.Ok) : ∃ lp', flushLoop closed lp (s :: rest) = s.calls ++ flushLoop closed lp' rest := by
  have hne' : rest.isEmpty = false := by
    cases rest with
    | nil => exact absurd rfl hne
    | cons _ _ => rfl
  rw [flushLoop.eq_2]
  cases hty : s.ty with
  | move => exact absurd hty hok.ty_ne_move
  | line =>
    obtain ⟨pt, hpt, hc⟩ := hok.calls_line hty
    simp only [hpt, hne', hc]
    exact ⟨some pt, by simp⟩
  | curve => exact ⟨s.endPt, by simp [Segm.calls, hty]⟩
  | qcurve => exact ⟨s.endPt, by simp [Segm.calls, hty]⟩

theorem areaLine_start_twice (st : AreaSt) :
    (areaLine (areaLine st st.start) st.start).value = (areaLine st st.start).value := by
  simp [areaLine]

theorem expand_close (cs : List Call) : expand (cs ++ [Call.closePath]) = expand cs ++ [Prim.closePath] := by
  rw [expand_append]; rfl

theorem expand_calls (s : Segm) : expand s.calls = s.prims := rfl

/-- AreaPen does not notice whether the implied closing line was sent or left to `closePath` -/
theorem area_flushLoop_close (segs : List Segm) (hok : ∀ s ∈ segs, s.Ok) (lp : Option Pt) (st : AreaSt)
    (hstart : ∀ s, segs.getLast? = some s → s.pts.getLast? = some st.start) :
    ((expand (flushLoop true lp segs) ++ [Prim.closePath]).foldl (areaStep true) st).value =
    ((segsPrims segs ++ [Prim.closePath]).foldl (areaStep true) st).value := by
  induction segs generalizing lp st with
  | nil => rfl
  | cons s rest ih =>
    have hs := hok s (List.mem_cons_self ..)
    have hr : ∀ q ∈ rest, q.Ok := fun q hq => hok q (List.mem_cons_of_mem _ hq)
    by_cases hne : rest = []
    · subst hne
      have hseg : segsPrims [s] = s.prims := by simp [segsPrims]
      rw [hseg, flushLoop.eq_2]
      cases hty : s.ty with
      | move => exact absurd hty hs.ty_ne_move
      | curve =>
        have : s.calls = [Call.curveTo s.pts] := by simp [Segm.calls, hty]
        simp only [flushLoop, ← this, expand_calls]
      | qcurve =>
        have : s.calls = [Call.qCurveTo s.pts s.blob] := by simp [Segm.calls, hty]
        simp only [flushLoop, ← this, expand_calls]
      | line =>
        obtain ⟨pt, hpt, hc⟩ := hs.calls_line hty
        have hpt2 : pt = st.start := by
          have := hstart s rfl
          rw [hpt] at this
          simpa using this
        subst hpt2
        simp only [hpt]
        split
        · simp only [flushLoop, ← hc, expand_calls]
        · have hp : s.prims = [Prim.lineTo st.start] := by
            rw [← expand_calls, hc]; rfl
          rw [hp]
          simp only [flushLoop, expand, List.flatMap_nil, List.nil_append, List.cons_append, List.foldl_cons,
            List.foldl_nil, areaStep]
          have : (areaLine st st.start).start = st.start := rfl
          rw [← this]
          exact (areaLine_start_twice st).symm
    · obtain ⟨lp', hfl⟩ := flushLoop_cons_ne true lp s rest hne hs
      rw [hfl, expand_append, expand_calls, segsPrims_cons, List.append_assoc, List.append_assoc,
        List.foldl_append, List.foldl_append (l := s.prims)]
      have hd := s.prims_isDraw hs.blob
      have hst := (areaFold_draw true s.prims hd st).2.2.1
      apply ih hr
      intro q hq
      rw [hst]
      apply hstart
      cases rest with
      | nil => exact absurd rfl hne
      | cons r rs => simpa [List.getLast?_cons_cons] using hq

/-- every segment `group` builds from points none of which is a `move` and which draw without
error is good -/
theorem group_ty (acc : List Pt) (pts : List Point) : ∀ s ∈ group acc pts, ∃ p ∈ pts, p.seg = some s.ty := by
  induction pts generalizing acc with
  | nil => simp [group]
  | cons p ps ih =>
    rw [group.eq_2]
    cases h : p.seg with
    | none =>
      intro s hs
      obtain ⟨q, hq, hq2⟩ := ih _ s hs
      exact ⟨q, List.mem_cons_of_mem _ hq, hq2⟩
    | some t =>
      intro s hs
      simp only [List.mem_cons] at hs
      rcases hs with rfl | hs
      · exact ⟨p, List.mem_cons_self .., h⟩
      · obtain ⟨q, hq, hq2⟩ := ih _ s hs
        exact ⟨q, List.mem_cons_of_mem _ hq, hq2⟩

theorem segsBad_none {first : Bool} {segs : List Segm} (h : segsBad first segs = none) :
    ∀ s ∈ segs, s.ty ≠ .move → s.bad false = none := by
  induction segs generalizing first with
  | nil => simp
  | cons s r ih =>
    rw [segsBad.eq_2] at h
    cases hb : s.bad first with
    | some e => rw [hb] at h; cases h
    | none =>
      rw [hb] at h
      simp only at h
      intro q hq hm
      simp only [List.mem_cons] at hq
      rcases hq with rfl | hq
      · cases first with
        | false => exact hb
        | true =>
          simp only [Segm.bad] at hb ⊢
          cases hty : q.ty with
          | move => exact absurd hty hm
          | line => rw [hty] at hb; exact hb
          | curve => rw [hty] at hb; exact hb
          | qcurve => rfl
      · exact ih h q hq hm

theorem mem_rotOn {pts : List Point} {i : Nat} {p : Point} (h : p ∈ rotOn pts i) : p ∈ pts := by
  unfold rotOn at h
  rcases List.mem_append.1 h with h | h
  · exact List.mem_of_mem_drop h
  · exact List.mem_of_mem_take h

/-- the segments of a closed contour that has an on-curve point, no `move`, and draws without error -/
theorem closed_segs_ok {pts : List Point} (hm : noMove pts = true) {i : Nat} {segs : List Segm}
    (hsegs : toSegments pts = some segs) (hg : segs = group [] (rotOn pts i)) (herr : drawErr pts = none) :
    ∀ s ∈ segs, s.Ok := by
  intro s hs
  have hty : s.ty ≠ .move := by
    subst hg
    obtain ⟨p, hp, hp2⟩ := group_ty _ _ s hs
    simp only [noMove, List.all_eq_true, decide_eq_true_eq] at hm
    intro h
    exact hm p (mem_rotOn hp) (by rw [hp2, h])
  have hbad : segsBad true segs = none := by
    simpa [drawErr, hsegs] using herr
  refine ⟨?_, segsBad_none hbad s hs hty, ?_⟩
  · subst hg; exact group_noBlob _ _ s hs
  · subst hg; exact group_pts_ne_nil _ _ s hs

theorem toSegments_closed (p0 p1 : Point) (rest : List Point) (h : p0.seg ≠ some .move) (i : Nat)
    (hf : firstOnCurve? (p0 :: p1 :: rest) = some i) :
    toSegments (p0 :: p1 :: rest) = some (group [] (rotOn (p0 :: p1 :: rest) i)) := by
  simp [toSegments, h, hf, rotOn]

theorem endFrom_last (e : Pt) (segs : List Segm) (h : ∀ s ∈ segs, s.Ok) (sl : Segm) (hsl : segs.getLast? = some sl)
    (pt : Pt) (hpt : sl.pts.getLast? = some pt) : endFrom e segs = pt := by
  induction segs generalizing e with
  | nil => simp at hsl
  | cons s r ih =>
    cases r with
    | nil =>
      simp at hsl; subst hsl
      simp [endFrom, Segm.endOr, hpt]
    | cons r0 rs =>
      simp only [endFrom]
      apply ih _ (fun q hq => h q (List.mem_cons_of_mem _ hq))
      simpa [List.getLast?_cons_cons] using hsl

/-- The signed area AreaPen computes for a closed contour is the cyclic sum of the area terms of
its segments. -/
theorem freshArea_closed (p0 p1 : Point) (rest : List Point) (hm : noMove (p0 :: p1 :: rest) = true)
    (herr : drawErr (p0 :: p1 :: rest) = none) (i : Nat) (hf : firstOnCurve? (p0 :: p1 :: rest) = some i) :
    freshArea (p0 :: p1 :: rest) = cyclicSum (group [] (rotOn (p0 :: p1 :: rest) i)) := by
  have h0 : p0.seg ≠ some .move := by
    simp only [noMove, List.all_eq_true, decide_eq_true_eq] at hm
    exact hm p0 (List.mem_cons_self ..)
  have hts := toSegments_closed p0 p1 rest h0 i hf
  have hok := closed_segs_ok hm hts rfl herr
  obtain ⟨q, hq, hq2⟩ := firstOnCurve?_some hf
  have hne : group [] (rotOn (p0 :: p1 :: rest) i) ≠ [] :=
    group_ne_nil_of_onCurve _ _ ⟨q, mem_rotOn_of_getElem? hq, hq2⟩
  generalize hsegs : group [] (rotOn (p0 :: p1 :: rest) i) = segs at *
  match segs, hne with
  | s0 :: srest, _ =>
    obtain ⟨sl, hsl⟩ := getLast?_isSome_of_ne_nil (l := s0 :: srest) (by simp)
    have hslm : sl ∈ s0 :: srest := List.mem_of_getLast? hsl
    obtain ⟨e, he⟩ := getLast?_isSome_of_ne_nil (hok sl hslm).ne
    have hmove : (s0 :: srest).getLast?.bind Segm.endPt = some e := by
      simp [hsl, Segm.endPt, (hok sl hslm).blob, he]
    have hprims : prims (p0 :: p1 :: rest) =
        Prim.moveTo e :: (expand (flushLoop true (some e) (s0 :: srest)) ++ [Prim.closePath]) := by
      rw [prims, drawCalls_closed p0 p1 rest h0 i hf, hsegs,
        flush_closed s0 srest (hok s0 (List.mem_cons_self ..)).ty_ne_move, hmove]
      simp [moveCall, expand_append, expand_cons, expandCall, expand]
    have hend : endFrom ⟨0, 0⟩ (s0 :: srest) = e := endFrom_last _ _ hok sl hsl e he
    have hend2 : endFrom e (s0 :: srest) = e := endFrom_last _ _ hok sl hsl e he
    unfold freshArea areaRun cyclicSum
    rw [hprims, hend, List.foldl_cons]
    have hst : areaStep true {} (Prim.moveTo e) = { value := 0, p0 := e, start := e } := rfl
    rw [hst, area_flushLoop_close (s0 :: srest) hok (some e) _ (by
      intro s hs
      rw [hsl] at hs
      cases hs
      exact he)]
    rw [List.foldl_append]
    have hd := segsPrims_isDraw (s0 :: srest) (fun s hs => (hok s hs).blob)
    obtain ⟨f1, f2, f3, _⟩ := areaFold_draw true (segsPrims (s0 :: srest)) hd { value := 0, p0 := e, start := e }
    obtain ⟨g1, g2⟩ := drawSum_segsPrims e (s0 :: srest) hok
    simp only [List.foldl_cons, List.foldl_nil, areaStep, areaLine]
    rw [f1, f2, f3, g1, g2, hend2]
    simp

end Geom
end DefconModel
