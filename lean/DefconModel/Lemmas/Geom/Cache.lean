/-
M-Geom helper lemmas: representations of a moved contour; the cache invariant.
-/
import DefconModel.Lemmas.Geom.Bounds

namespace DefconModel
namespace Geom

variable (dx dy : Rat)

theorem freshCpb_move (pts : List Point) :
    freshCpb (pts.map (·.move dx dy)) = (freshCpb pts).map (·.shift dx dy) := by
  unfold freshCpb
  rw [prims_move, ctrlBox_shift]

theorem freshBnd_move {o : CurveOracle} (ho : o.Lawful) (pts : List Point) :
    freshBnd o (pts.map (·.move dx dy)) = (freshBnd o pts).map (·.shift dx dy) := by
  unfold freshBnd
  rw [prims_move]
  exact (bndBox_shift dx dy ho (Blocks.prims pts)).1

theorem areaStep_true_openErr (st : AreaSt) (pr : Prim) : (areaStep true st pr).openErr = st.openErr := by
  cases pr <;> simp [areaStep, areaLine, areaQuad, areaCubic]

theorem areaFold_true_openErr (ps : List Prim) (st : AreaSt) :
    (ps.foldl (areaStep true) st).openErr = st.openErr := by
  induction ps generalizing st with
  | nil => rfl
  | cons pr ps ih => simp only [List.foldl_cons, ih, areaStep_true_openErr]

theorem freshArea_move (pts : List Point) : freshArea (pts.map (·.move dx dy)) = freshArea pts := by
  unfold freshArea
  rw [prims_move]
  have h := areaRun_shift dx dy true (Blocks.prims pts)
  exact h.2 (areaFold_true_openErr _ _)

/-! ### Reading a representation commutes with moving the contour -/

theorem getRep_shift (k : Bool) (cache : Option (Option Box)) (err : Option Err) (fresh : Option Box) :
    getRep k (shiftCache cache dx dy) err (fresh.map (·.shift dx dy)) =
      (shiftCache (getRep k cache err fresh).1 dx dy,
       (getRep k cache err fresh).2.map (Option.map (·.shift dx dy))) := by
  cases cache with
  | some v => cases v <;> rfl
  | none =>
    cases err with
    | some e => rfl
    | none =>
      cases k <;> cases fresh <;> rfl

/-- `bounds` of the moved contour = moved `bounds`; and the caches agree too: reading then moving
leaves the same contour as moving then reading -/
theorem Contour.getBounds_move {o : CurveOracle} (ho : o.Lawful) (k : Bool) (c : Contour) :
    (c.move dx dy).getBounds o k =
      (((c.getBounds o k).1).move dx dy, ((c.getBounds o k).2).map (Option.map (·.shift dx dy))) := by
  simp only [Contour.getBounds, Contour.move, drawErr_move, freshBnd_move dx dy ho, getRep_shift]

theorem Contour.getCpb_move (k : Bool) (c : Contour) :
    (c.move dx dy).getCpb k =
      (((c.getCpb k).1).move dx dy, ((c.getCpb k).2).map (Option.map (·.shift dx dy))) := by
  simp only [Contour.getCpb, Contour.move, drawErr_move, freshCpb_move, getRep_shift]

theorem Contour.getArea_move (k : Bool) (c : Contour) :
    (c.move dx dy).getArea k = (((c.getArea k).1).move dx dy, (c.getArea k).2) := by
  simp only [Contour.getArea, Contour.move, drawErr_move, freshArea_move]

/-! ### The cache invariant -/

theorem getRep_spec {β : Type} (k : Bool) (cache : Option β) (err : Option Err) (fresh : β)
    (hc : ∀ v, cache = some v → err = none ∧ v = fresh) :
    (getRep k cache err fresh).2 = answer err fresh ∧
    (∀ v, (getRep k cache err fresh).1 = some v → err = none ∧ v = fresh) := by
  cases cache with
  | some v =>
    obtain ⟨h1, h2⟩ := hc v rfl
    subst h1 h2
    exact ⟨rfl, fun v hv => by cases hv; exact ⟨rfl, rfl⟩⟩
  | none =>
    cases err with
    | some e => exact ⟨rfl, fun v hv => by cases hv⟩
    | none =>
      refine ⟨rfl, fun v hv => ?_⟩
      cases k with
      | true => cases hv; exact ⟨rfl, rfl⟩
      | false => cases hv

theorem Contour.CacheOK.getBounds {o : CurveOracle} {c : Contour} (h : c.CacheOK o) (k : Bool) :
    (c.getBounds o k).1.CacheOK o ∧ (c.getBounds o k).1.points = c.points ∧
    (c.getBounds o k).2 = answer (drawErr c.points) (freshBnd o c.points) := by
  obtain ⟨h1, h2⟩ := getRep_spec k c.bnd (drawErr c.points) (freshBnd o c.points) h.bnd
  exact ⟨⟨h2, h.cpb, h.area⟩, rfl, h1⟩

theorem Contour.CacheOK.getCpb {o : CurveOracle} {c : Contour} (h : c.CacheOK o) (k : Bool) :
    (c.getCpb k).1.CacheOK o ∧ (c.getCpb k).1.points = c.points ∧
    (c.getCpb k).2 = answer (drawErr c.points) (freshCpb c.points) := by
  obtain ⟨h1, h2⟩ := getRep_spec k c.cpb (drawErr c.points) (freshCpb c.points) h.cpb
  exact ⟨⟨h.bnd, h2, h.area⟩, rfl, h1⟩

theorem Contour.CacheOK.getArea {o : CurveOracle} {c : Contour} (h : c.CacheOK o) (k : Bool) :
    (c.getArea k).1.CacheOK o ∧ (c.getArea k).1.points = c.points ∧
    (c.getArea k).2 = answer (drawErr c.points) (freshArea c.points) := by
  obtain ⟨h1, h2⟩ := getRep_spec k c.area (drawErr c.points) (freshArea c.points) h.area
  exact ⟨⟨h.bnd, h.cpb, h2⟩, rfl, h1⟩

theorem shiftCache_some {b : Option (Option Box)} {v : Option Box} (h : shiftCache b dx dy = some v) :
    ∃ v0, b = some v0 ∧ v = v0.map (·.shift dx dy) := by
  cases b with
  | none => cases h
  | some v0 =>
    cases v0 with
    | none => cases h; exact ⟨none, rfl, rfl⟩
    | some b0 => cases h; exact ⟨some b0, rfl, rfl⟩

/-- the in-place patch of `Contour.move` keeps every cached representation right -/
theorem Contour.CacheOK.move {o : CurveOracle} (ho : o.Lawful) {c : Contour} (h : c.CacheOK o) :
    (c.move dx dy).CacheOK o := by
  refine ⟨?_, ?_, ?_⟩
  · intro b hb
    obtain ⟨v0, h1, rfl⟩ := shiftCache_some dx dy hb
    obtain ⟨h2, rfl⟩ := h.bnd v0 h1
    exact ⟨by simpa [Contour.move, drawErr_move] using h2, by simp [Contour.move, freshBnd_move dx dy ho]⟩
  · intro b hb
    obtain ⟨v0, h1, rfl⟩ := shiftCache_some dx dy hb
    obtain ⟨h2, rfl⟩ := h.cpb v0 h1
    exact ⟨by simpa [Contour.move, drawErr_move] using h2, by simp [Contour.move, freshCpb_move]⟩
  · intro a ha
    obtain ⟨h2, rfl⟩ := h.area a ha
    exact ⟨by simpa [Contour.move, drawErr_move] using h2, by simp [Contour.move, freshArea_move]⟩

theorem Contour.CacheOK.ofFresh (o : CurveOracle) (pts : List Point) : ({ points := pts } : Contour).CacheOK o :=
  ⟨(fun _ h => by cases h), (fun _ h => by cases h), (fun _ h => by cases h)⟩

theorem Contour.CacheOK.reverse (o : CurveOracle) (c : Contour) : c.reverse.CacheOK o := Contour.CacheOK.ofFresh o _

theorem Contour.CacheOK.setStartPoint {o : CurveOracle} {c c' : Contour} (h : c.CacheOK o) (i : Int)
    (hs : c.setStartPoint i = .ok c') : c'.CacheOK o := by
  unfold Contour.setStartPoint at hs
  split at hs
  · cases hs; exact h
  · split at hs
    · cases hs; exact h
    · split at hs
      · cases hs
      · split at hs
        · cases hs
        · split at hs
          · cases hs
          · cases hs; exact Contour.CacheOK.ofFresh o _

end Geom
end DefconModel
