/-
M-Geom helper lemmas: `setStartPoint` keeps the area (the segments are the same cycle).
-/
import DefconModel.Lemmas.Geom.Cyclic
import DefconModel.Lemmas.Geom.Reverse
import Mathlib.Data.List.Rotate

namespace DefconModel
namespace Geom

theorem freshArea_closed' (pts : List Point) (hlen : 2 ≤ pts.length) (hm : noMove pts = true)
    (herr : drawErr pts = none) (i : Nat) (hf : firstOnCurve? pts = some i) :
    freshArea pts = cyclicSum (group [] (rotOn pts i)) := by
  match pts, hlen with
  | p0 :: p1 :: rest, _ => exact freshArea_closed p0 p1 rest hm herr i hf

theorem rotOn_eq_rotate (pts : List Point) (i : Nat) (h : i < pts.length) : rotOn pts i = pts.rotate (i + 1) := by
  unfold rotOn
  rw [List.rotate_eq_drop_append_take (by omega)]

theorem toSegments_closed' (pts : List Point) (hlen : 2 ≤ pts.length) (hm : noMove pts = true) (i : Nat)
    (hf : firstOnCurve? pts = some i) : toSegments pts = some (group [] (rotOn pts i)) := by
  match pts, hlen with
  | a :: b :: r, _ =>
    apply toSegments_closed a b r _ i hf
    simp only [noMove, List.all_eq_true, decide_eq_true_eq] at hm
    exact hm a (List.mem_cons_self ..)

/-- `group` splits at an on-curve point -/
theorem group_append (acc : List Pt) (X Y : List Point)
    (h : X = [] ∨ ∃ p, X.getLast? = some p ∧ p.onCurve = true) :
    group acc (X ++ Y) = (if X = [] then group acc Y else group acc X ++ group [] Y) := by
  induction X generalizing acc with
  | nil => simp
  | cons x xs ih =>
    simp only [List.cons_append, reduceCtorEq, if_false]
    have hxs : xs = [] ∨ ∃ p, xs.getLast? = some p ∧ p.onCurve = true := by
      cases xs with
      | nil => exact Or.inl rfl
      | cons y ys =>
        right
        rcases h with h | ⟨p, hp, hp2⟩
        · cases h
        · exact ⟨p, by simpa [List.getLast?_cons_cons] using hp, hp2⟩
    rw [group.eq_2, group.eq_2]
    cases hs : x.seg with
    | some t =>
      simp only
      rw [ih [] hxs]
      split
      · rename_i he; subst he; simp [group]
      · rfl
    | none =>
      simp only
      rw [ih _ hxs]
      split
      · rename_i he
        subst he
        -- then x itself is the last point, which is an on-curve point: contradiction
        rcases h with h | ⟨p, hp, hp2⟩
        · cases h
        · simp at hp; subst hp; simp [Point.onCurve, hs] at hp2
      · rfl

theorem firstOnCurve?_le {pts : List Point} {f k : Nat} {p : Point} (hf : firstOnCurve? pts = some f)
    (hp : pts[k]? = some p) (hon : p.onCurve = true) : f ≤ k := by
  induction pts generalizing f k with
  | nil => simp at hp
  | cons q qs ih =>
    rw [firstOnCurve?.eq_2] at hf
    split at hf
    · cases hf; omega
    · rename_i hq
      simp only [Option.map_eq_some_iff] at hf
      obtain ⟨j, hj, rfl⟩ := hf
      cases k with
      | zero => simp at hp; subst hp; exact absurd hon hq
      | succ k =>
        have := ih hj (by simpa using hp)
        omega

theorem firstOnCurve?_lt_length {pts : List Point} {f : Nat} (hf : firstOnCurve? pts = some f) : f < pts.length := by
  obtain ⟨p, hp, _⟩ := firstOnCurve?_some hf
  rcases Nat.lt_or_ge f pts.length with h | h
  · exact h
  · rw [List.getElem?_eq_none h] at hp; cases hp

theorem segsBad_of_ok (first : Bool) (segs : List Segm) (h : ∀ s ∈ segs, s.Ok) : segsBad first segs = none := by
  induction segs generalizing first with
  | nil => rfl
  | cons s r ih =>
    rw [segsBad.eq_2]
    have hs := h s (List.mem_cons_self ..)
    have hb : s.bad first = none := by
      have := hs.bad
      cases first with
      | false => exact this
      | true =>
        simp only [Segm.bad] at this ⊢
        cases hty : s.ty with
        | move => exact absurd hty hs.ty_ne_move
        | line => rw [hty] at this; exact this
        | curve => rw [hty] at this; exact this
        | qcurve => rfl
    rw [hb]
    exact ih false (fun q hq => h q (List.mem_cons_of_mem _ hq))

theorem exists_firstOnCurve {pts : List Point} {k : Nat} {p : Point} (hp : pts[k]? = some p)
    (hon : p.onCurve = true) : ∃ f, firstOnCurve? pts = some f := by
  cases hfo : firstOnCurve? pts with
  | some f => exact ⟨f, rfl⟩
  | none =>
    exfalso
    have : ∀ (l : List Point) (j : Nat) (q : Point), firstOnCurve? l = none → l[j]? = some q → q.onCurve = false := by
      intro l
      induction l with
      | nil => intro j q _ h; simp at h
      | cons a as ih =>
        intro j q hn hq
        rw [firstOnCurve?.eq_2] at hn
        split at hn
        · cases hn
        · rename_i ha
          cases j with
          | zero => simp at hq; subst hq; simpa using ha
          | succ j =>
            simp only [Option.map_eq_none_iff] at hn
            exact ih j q hn (by simpa using hq)
    have := this pts k p hfo hp
    rw [hon] at this; cases this

/-- The segments of a closed contour seen from any of its on-curve points `k` are the same cycle as
seen from the first one: good segments, same cyclic sum. -/
theorem cyclic_onCurve (pts : List Point) (hm : noMove pts = true) (herr : drawErr pts = none)
    (h2 : 2 ≤ pts.length) (f : Nat) (hf : firstOnCurve? pts = some f)
    (k : Nat) (p : Point) (hp : pts[k]? = some p) (hon : p.onCurve = true) :
    (∀ s ∈ group [] (rotOn pts k), s.Ok) ∧
    cyclicSum (group [] (rotOn pts k)) = cyclicSum (group [] (rotOn pts f)) := by
  have hk : k < pts.length := by
    rcases Nat.lt_or_ge k pts.length with h | h
    · exact h
    · rw [List.getElem?_eq_none h] at hp; cases hp
  have hfk : f ≤ k := firstOnCurve?_le hf hp hon
  have hfl : f < pts.length := firstOnCurve?_lt_length hf
  set L := pts.rotate (f + 1) with hL
  have hLlen : L.length = pts.length := by rw [hL, List.length_rotate]
  have hrotOn : rotOn pts f = L := rotOn_eq_rotate pts f hfl
  have hrotOn' : rotOn pts k = L.rotate (k - f) := by
    rw [rotOn_eq_rotate pts k hk, hL, List.rotate_rotate]
    congr 1; omega
  set m := k - f with hmdef
  have hmlt : m < L.length := by omega
  have hLm : L.rotate m = L.drop m ++ L.take m := List.rotate_eq_drop_append_take (by omega)
  have hLsplit : L = L.take m ++ L.drop m := (List.take_append_drop m L).symm
  have hX : L.take m = [] ∨ ∃ q, (L.take m).getLast? = some q ∧ q.onCurve = true := by
    by_cases hm0 : m = 0
    · left; simp [hm0]
    · right
      refine ⟨p, ?_, hon⟩
      rw [List.getLast?_take]
      have hm1 : m - 1 < L.length := by omega
      simp only [hm0, if_false]
      rw [List.getElem?_eq_getElem hm1]
      simp only [Option.getD_some, hL]
      rw [List.getElem_rotate]
      have hidx : (m - 1 + (f + 1)) % pts.length = k := by
        have : m - 1 + (f + 1) = k := by omega
        rw [this]; exact Nat.mod_eq_of_lt hk
      rw [List.getElem?_eq_getElem hk] at hp
      cases hp
      simp [hidx]
  obtain ⟨pf, hpf, hpfon⟩ := firstOnCurve?_some hf
  have hY : L.drop m = [] ∨ ∃ q, (L.drop m).getLast? = some q ∧ q.onCurve = true := by
    right
    refine ⟨pf, ?_, hpfon⟩
    rw [List.getLast?_drop]
    have : ¬ L.length ≤ m := by omega
    simp only [this, if_false]
    rw [List.getLast?_eq_getElem?, hLlen]
    have hl1 : pts.length - 1 < L.length := by omega
    rw [List.getElem?_eq_getElem hl1]
    simp only [hL]
    rw [List.getElem_rotate]
    have hidx : (pts.length - 1 + (f + 1)) % pts.length = f := by
      have : pts.length - 1 + (f + 1) = f + pts.length := by omega
      rw [this, Nat.add_mod_right]; exact Nat.mod_eq_of_lt hfl
    rw [List.getElem?_eq_getElem hfl] at hpf
    cases hpf
    simp [hidx]
  have hYne : L.drop m ≠ [] := by
    intro h
    have := congrArg List.length h
    simp at this
    omega
  have hsegs : group [] (rotOn pts f) =
      (if L.take m = [] then group [] (L.drop m) else group [] (L.take m) ++ group [] (L.drop m)) := by
    rw [hrotOn]
    conv_lhs => rw [hLsplit]
    exact group_append [] _ _ hX
  have hsegs' : group [] (rotOn pts k) = group [] (L.drop m) ++ group [] (L.take m) := by
    rw [hrotOn', hLm, group_append [] _ _ hY]
    simp [hYne]
  have hts : toSegments pts = some (group [] (rotOn pts f)) := toSegments_closed' pts h2 hm f hf
  have hok := closed_segs_ok hm hts rfl herr
  have hokX : ∀ s ∈ group [] (L.take m), s.Ok := by
    intro s hs
    apply hok s
    rw [hsegs]
    split
    · rename_i he; rw [he] at hs; simp [group] at hs
    · exact List.mem_append_left _ hs
  have hokY : ∀ s ∈ group [] (L.drop m), s.Ok := by
    intro s hs
    apply hok s
    rw [hsegs]
    split
    · exact hs
    · exact List.mem_append_right _ hs
  constructor
  · intro s hs
    rw [hsegs'] at hs
    rcases List.mem_append.1 hs with h | h
    · exact hokY s h
    · exact hokX s h
  · rw [hsegs', hsegs]
    split
    · rename_i he
      rw [he]
      simp [group]
    · exact (cyclicSum_rotate _ _ hokX hokY).symm

/-- Rotating a closed contour by any number of points keeps its signed area (and it still draws
without error). -/
theorem freshArea_rotate_any (pts : List Point) (hm : noMove pts = true) (herr : drawErr pts = none)
    (h2 : 2 ≤ pts.length) (hon : hasOn pts = true) (j : Nat) :
    freshArea (pts.rotate j) = freshArea pts ∧ drawErr (pts.rotate j) = none ∧ noMove (pts.rotate j) = true := by
  set pts' := pts.rotate j with hpts'
  have hlen' : pts'.length = pts.length := by rw [hpts', List.length_rotate]
  have hm' : noMove pts' = true := by
    simp only [noMove, List.all_eq_true, decide_eq_true_eq] at hm ⊢
    intro q hq
    exact hm q (List.mem_rotate.1 hq)
  have hon' : hasOn pts' = true := by
    simp only [hasOn, List.any_eq_true] at hon ⊢
    obtain ⟨q, hq, hq2⟩ := hon
    exact ⟨q, List.mem_rotate.2 hq, hq2⟩
  -- first on-curve points of both lists
  obtain ⟨f, hf⟩ : ∃ f, firstOnCurve? pts = some f := by
    simp only [hasOn, List.any_eq_true] at hon
    obtain ⟨q, hq, hq2⟩ := hon
    obtain ⟨i, hi⟩ := List.getElem?_of_mem hq
    exact exists_firstOnCurve hi hq2
  obtain ⟨f', hf'⟩ : ∃ f', firstOnCurve? pts' = some f' := by
    simp only [hasOn, List.any_eq_true] at hon'
    obtain ⟨q, hq, hq2⟩ := hon'
    obtain ⟨i, hi⟩ := List.getElem?_of_mem hq
    exact exists_firstOnCurve hi hq2
  have hfl' : f' < pts'.length := firstOnCurve?_lt_length hf'
  obtain ⟨q, hq, hqon⟩ := firstOnCurve?_some hf'
  have hn : 0 < pts.length := by omega
  -- the same point in the original list
  set k := (f' + j) % pts.length with hk
  have hkl : k < pts.length := Nat.mod_lt _ hn
  have hpk : pts[k]? = some q := by
    rw [List.getElem?_eq_getElem hfl'] at hq
    rw [List.getElem?_eq_getElem hkl]
    simp only [hpts', List.getElem_rotate] at hq
    exact hq
  have hrot : rotOn pts' f' = rotOn pts k := by
    rw [rotOn_eq_rotate pts' f' hfl', rotOn_eq_rotate pts k hkl, hpts', List.rotate_rotate]
    rw [← List.rotate_mod pts (j + (f' + 1)), ← List.rotate_mod pts (k + 1)]
    congr 1
    rw [hk]
    have : j + (f' + 1) = (f' + j) + 1 := by omega
    rw [this, Nat.add_mod ((f' + j)) 1, Nat.add_mod ((f' + j) % pts.length) 1, Nat.mod_mod]
  obtain ⟨hok, hsum⟩ := cyclic_onCurve pts hm herr h2 f hf k q hpk hqon
  have hts' : toSegments pts' = some (group [] (rotOn pts' f')) := toSegments_closed' pts' (by omega) hm' f' hf'
  have herr' : drawErr pts' = none := by
    unfold drawErr
    rw [hts', hrot]
    exact segsBad_of_ok true _ hok
  refine ⟨?_, herr', hm'⟩
  rw [freshArea_closed' pts' (by omega) hm' herr' f' hf', freshArea_closed' pts h2 hm herr f hf, hrot, hsum]

/-- Rotating a closed contour onto one of its on-curve points keeps its signed area. -/
theorem freshArea_rotate (pts : List Point) (hm : noMove pts = true) (herr : drawErr pts = none)
    (k : Nat) (p : Point) (hp : pts[k]? = some p) (hon : p.onCurve = true) (h2 : 2 ≤ pts.length) :
    freshArea (pts.drop k ++ pts.take k) = freshArea pts ∧ drawErr (pts.drop k ++ pts.take k) = none := by
  have hk : k < pts.length := by
    rcases Nat.lt_or_ge k pts.length with h | h
    · exact h
    · rw [List.getElem?_eq_none h] at hp; cases hp
  have hrot : pts.drop k ++ pts.take k = pts.rotate k := by
    rw [List.rotate_eq_drop_append_take (by omega)]
  have hhas : hasOn pts = true := by
    simp only [hasOn, List.any_eq_true]
    exact ⟨p, List.mem_of_getElem? hp, hon⟩
  rw [hrot]
  obtain ⟨h1, h2', _⟩ := freshArea_rotate_any pts hm herr h2 hhas k
  exact ⟨h1, h2'⟩

end Geom
end DefconModel
