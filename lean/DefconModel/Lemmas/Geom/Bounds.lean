/-
M-Geom helper lemmas: BoundsPen's box lies within ControlBoundsPen's and contains the outline.
-/
import DefconModel.Lemmas.Geom.Hull
import DefconModel.Lemmas.Geom.Pens

namespace DefconModel
namespace Geom

theorem OWithin.refl (a : Option Box) : OWithin a a := by
  cases a with
  | none => trivial
  | some a => exact Box.within_refl a

theorem addPt_within {bx : Option Box} {c : Box} (p : Pt) (h : OWithin bx (some c)) :
    OWithin (addPt bx p) (some (c.add p)) := by
  cases bx with
  | none => exact Box.ofPt_within (Box.has_add_self c p)
  | some b => exact Box.add_within (Box.within_trans h (Box.within_add c p)) (Box.has_add_self c p)

theorem unionO_within {bx : Option Box} {d c : Box} (h : OWithin bx (some c)) (hd : d.Within c) :
    OWithin (unionO bx d) (some c) := by
  cases bx with
  | none => exact hd
  | some b => exact Box.union_within h hd

theorem OWithin.mono {bx : Option Box} {c c' : Box} (h : OWithin bx (some c)) (hc : c.Within c') :
    OWithin bx (some c') := by
  cases bx with
  | none => trivial
  | some b => exact Box.within_trans h hc

/-- BoundsPen and ControlBoundsPen side by side -/
def BndCtrl (st : BndSt) (cb : Option Box) : Prop := ∃ c, cb = some c ∧ c.Has st.cur ∧ OWithin st.box (some c)

theorem bndStep_ctrlStep {o : CurveOracle} (ho : o.Lawful) {st : BndSt} {cb : Option Box} (h : BndCtrl st cb)
    (pr : Prim) : BndCtrl (bndStep o st pr) (ctrlStep cb pr) := by
  obtain ⟨c, rfl, hc, hw⟩ := h
  cases pr with
  | moveTo p => exact ⟨c.add p, rfl, Box.has_add_self c p, addPt_within p hw⟩
  | lineTo p => exact ⟨c.add p, rfl, Box.has_add_self c p, addPt_within p hw⟩
  | closePath => exact ⟨c, rfl, hc, hw⟩
  | endPath => exact ⟨c, rfl, hc, hw⟩
  | curveTo a b p =>
    refine ⟨((c.add a).add b).add p, rfl, ?_, ?_⟩
    · simp only [bndStep]; split <;> exact Box.has_add_self _ p
    · have h3 : c.Within (((c.add a).add b).add p) :=
        Box.within_trans (Box.within_add c a) (Box.within_trans (Box.within_add _ b) (Box.within_add _ p))
      have hbx : OWithin (addPt st.box p) (some (((c.add a).add b).add p)) := by
        have := addPt_within p (hw.mono (Box.within_trans (Box.within_add c a) (Box.within_add _ b)))
        exact this
      simp only [bndStep]
      split
      · exact hbx
      · apply unionO_within hbx
        apply ho.cubic_within
        · exact Box.has_of_within h3 hc
        · exact Box.has_add_of_has p (Box.has_add_of_has b (Box.has_add_self c a))
        · exact Box.has_add_of_has p (Box.has_add_self _ b)
        · exact Box.has_add_self _ p
  | qCurveTo a p =>
    refine ⟨(c.add a).add p, rfl, ?_, ?_⟩
    · simp only [bndStep]; split <;> exact Box.has_add_self _ p
    · have h3 : c.Within ((c.add a).add p) := Box.within_trans (Box.within_add c a) (Box.within_add _ p)
      have hbx : OWithin (addPt st.box p) (some ((c.add a).add p)) :=
        addPt_within p (hw.mono (Box.within_add c a))
      simp only [bndStep]
      split
      · exact hbx
      · apply unionO_within hbx
        apply ho.quad_within
        · exact Box.has_of_within h3 hc
        · exact Box.has_add_of_has p (Box.has_add_self c a)
        · exact Box.has_add_self _ p

theorem bndFold_ctrlFold {o : CurveOracle} (ho : o.Lawful) (ps : List Prim) {st : BndSt} {cb : Option Box}
    (h : BndCtrl st cb) : BndCtrl (ps.foldl (bndStep o) st) (ps.foldl ctrlStep cb) := by
  induction ps generalizing st cb with
  | nil => exact h
  | cons pr ps ih => exact ih (bndStep_ctrlStep ho h pr)

/-- BoundsPen's box lies within ControlBoundsPen's box, for any lawful curve-extrema oracle -/
theorem bndBox_within_ctrlBox {o : CurveOracle} (ho : o.Lawful) {ps : List Prim} (h : Blocks ps) :
    OWithin (bndBox o ps) (ctrlBox ps) := by
  rcases h.head with rfl | ⟨p, rest, rfl⟩
  · trivial
  · have h0 : BndCtrl (bndStep o {} (.moveTo p)) (ctrlStep none (.moveTo p)) :=
      ⟨Box.ofPt p, rfl, Box.has_ofPt p, Box.within_refl _⟩
    obtain ⟨c, h1, _, h3⟩ := bndFold_ctrlFold ho rest h0
    simp only [bndBox, bndRun, ctrlBox, List.foldl_cons]
    rw [h1]
    exact h3

/-! ### BoundsPen's box contains the outline -/

/-- the pen state the specification tracks agrees with BoundsPen's, and its points are in the box -/
def BndHolds (pst : Option (Pt × Pt)) (st : BndSt) : Prop :=
  ∀ s c, pst = some (s, c) → st.cur = c ∧ ∃ b, st.box = some b ∧ b.Has s ∧ b.Has c

theorem addPt_grows (bx : Option Box) (p : Pt) :
    ∃ b', addPt bx p = some b' ∧ b'.Has p ∧ ∀ b, bx = some b → b.Within b' := addPt_isSome bx p

theorem unionO_grows (bx : Option Box) (d : Box) :
    ∃ b', unionO bx d = some b' ∧ d.Within b' ∧ ∀ b, bx = some b → b.Within b' := by
  cases bx with
  | none => exact ⟨d, rfl, Box.within_refl d, by intro b h; cases h⟩
  | some b0 =>
    exact ⟨b0.union d, rfl, Box.within_union_right _ _, by intro b h; cases h; exact Box.within_union_left _ _⟩

/-- one step of BoundsPen only grows the box -/
theorem bndStep_grows (o : CurveOracle) (st : BndSt) (pr : Prim) (b : Box) (h : st.box = some b) :
    ∃ b', (bndStep o st pr).box = some b' ∧ b.Within b' := by
  cases pr with
  | moveTo p => obtain ⟨b', h1, _, h3⟩ := addPt_grows st.box p; exact ⟨b', h1, h3 b h⟩
  | lineTo p => obtain ⟨b', h1, _, h3⟩ := addPt_grows st.box p; exact ⟨b', h1, h3 b h⟩
  | closePath => exact ⟨b, h, Box.within_refl b⟩
  | endPath => exact ⟨b, h, Box.within_refl b⟩
  | curveTo a b2 p =>
    obtain ⟨b1, h1, _, h3⟩ := addPt_grows st.box p
    simp only [bndStep]
    split
    · exact ⟨b1, h1, h3 b h⟩
    · obtain ⟨b', h4, _, h6⟩ := unionO_grows (addPt st.box p) (o.cubic st.cur a b2 p)
      exact ⟨b', h4, Box.within_trans (h3 b h) (h6 b1 h1)⟩
  | qCurveTo a p =>
    obtain ⟨b1, h1, _, h3⟩ := addPt_grows st.box p
    simp only [bndStep]
    split
    · exact ⟨b1, h1, h3 b h⟩
    · obtain ⟨b', h4, _, h6⟩ := unionO_grows (addPt st.box p) (o.quad st.cur a p)
      exact ⟨b', h4, Box.within_trans (h3 b h) (h6 b1 h1)⟩

theorem bndFold_grows (o : CurveOracle) (ps : List Prim) (st : BndSt) (b : Box) (h : st.box = some b) :
    ∃ b', (ps.foldl (bndStep o) st).box = some b' ∧ b.Within b' := by
  induction ps generalizing st b with
  | nil => exact ⟨b, h, Box.within_refl b⟩
  | cons pr ps ih =>
    obtain ⟨b1, h1, h2⟩ := bndStep_grows o st pr b h
    obtain ⟨b', h3, h4⟩ := ih _ b1 h1
    exact ⟨b', h3, Box.within_trans h2 h4⟩

/-- one step: what the primitive draws from a current point is inside the new box -/
theorem bndStep_spec {o : CurveOracle} (ho : o.Lawful) (pr : Prim) (s c : Pt) (st : BndSt)
    (hcur : st.cur = c) (b : Box) (hb : st.box = some b) (hs : b.Has s) (hc : b.Has c) :
    ∃ b1, (bndStep o st pr).box = some b1 ∧ b.Within b1 ∧ (∀ p ∈ pr.pts, b1.Has (pr.endPt c) ∧ True) ∧
      (bndStep o st pr).cur = pr.endPt c ∧ b1.Has (pr.endPt c) ∧
      ∀ t : Rat, 0 ≤ t → t ≤ 1 → b1.Has (pr.at s c t) := by
  subst hcur
  cases pr with
  | moveTo p =>
    refine ⟨b.add p, by simp [bndStep, hb, addPt], Box.within_add b p, ?_, rfl, Box.has_add_self b p, ?_⟩
    · intro q _; exact ⟨Box.has_add_self b p, trivial⟩
    · intro t _ _; exact Box.has_add_self b p
  | lineTo p =>
    refine ⟨b.add p, by simp [bndStep, hb, addPt], Box.within_add b p, ?_, rfl, Box.has_add_self b p, ?_⟩
    · intro q _; exact ⟨Box.has_add_self b p, trivial⟩
    · intro t h0 h1
      exact Box.has_lerp h0 h1 (Box.has_add_of_has p hc) (Box.has_add_self b p)
  | closePath =>
    refine ⟨b, hb, Box.within_refl b, ?_, rfl, hc, ?_⟩
    · intro q hq; simp [Prim.pts] at hq
    · intro t h0 h1; exact Box.has_lerp h0 h1 hc hs
  | endPath =>
    refine ⟨b, hb, Box.within_refl b, ?_, rfl, hc, ?_⟩
    · intro q hq; simp [Prim.pts] at hq
    · intro t _ _; exact hc
  | curveTo a b2 p =>
    have hbx : addPt st.box p = some (b.add p) := by simp [hb, addPt]
    simp only [bndStep, hbx, containsO]
    split
    · rename_i hin
      simp only [Bool.and_eq_true, Box.contains_iff] at hin
      refine ⟨b.add p, rfl, Box.within_add b p, ?_, rfl, Box.has_add_self b p, ?_⟩
      · intro q _; exact ⟨Box.has_add_self b p, trivial⟩
      · intro t h0 h1
        exact Box.has_bez3 h0 h1 (Box.has_add_of_has p hc) hin.1 hin.2 (Box.has_add_self b p)
    · refine ⟨(b.add p).union (o.cubic st.cur a b2 p), rfl,
        Box.within_trans (Box.within_add b p) (Box.within_union_left _ _), ?_, rfl,
        Box.has_of_within (Box.within_union_left _ _) (Box.has_add_self b p), ?_⟩
      · intro q _
        exact ⟨Box.has_of_within (Box.within_union_left _ _) (Box.has_add_self b p), trivial⟩
      · intro t h0 h1
        exact Box.has_of_within (Box.within_union_right _ _) (ho.cubic_has _ _ _ _ t h0 h1)
  | qCurveTo a p =>
    have hbx : addPt st.box p = some (b.add p) := by simp [hb, addPt]
    simp only [bndStep, hbx, containsO]
    split
    · rename_i hin
      simp only [Box.contains_iff] at hin
      refine ⟨b.add p, rfl, Box.within_add b p, ?_, rfl, Box.has_add_self b p, ?_⟩
      · intro q _; exact ⟨Box.has_add_self b p, trivial⟩
      · intro t h0 h1
        exact Box.has_bez2 h0 h1 (Box.has_add_of_has p hc) hin (Box.has_add_self b p)
    · refine ⟨(b.add p).union (o.quad st.cur a p), rfl,
        Box.within_trans (Box.within_add b p) (Box.within_union_left _ _), ?_, rfl,
        Box.has_of_within (Box.within_union_left _ _) (Box.has_add_self b p), ?_⟩
      · intro q _
        exact ⟨Box.has_of_within (Box.within_union_left _ _) (Box.has_add_self b p), trivial⟩
      · intro t h0 h1
        exact Box.has_of_within (Box.within_union_right _ _) (ho.quad_has _ _ _ t h0 h1)

/-- no drawing primitive is met without a current point -/
def Good : Option (Pt × Pt) → List Prim → Prop
  | _, [] => True
  | st, pr :: r => (st = none → pr.isDraw = false) ∧ Good (nextState st pr) r

theorem nextState_draw_some {sc : Pt × Pt} {pr : Prim} (h : pr.isDraw = true) :
    nextState (some sc) pr = some (sc.1, pr.endPt sc.2) := by
  cases pr <;> simp [Prim.isDraw] at h <;> rfl

theorem Good.of_draws (body : List Prim) (hb : ∀ pr ∈ body, pr.isDraw = true) (sc : Pt × Pt) (r : List Prim)
    (hr : ∀ sc', Good (some sc') r) : Good (some sc) (body ++ r) := by
  induction body generalizing sc with
  | nil => exact hr sc
  | cons pr body ih =>
    refine ⟨(fun h => nomatch h), ?_⟩
    rw [nextState_draw_some (hb pr (List.mem_cons_self ..))]
    exact ih (fun q hq => hb q (List.mem_cons_of_mem _ hq)) _

theorem Good.of_blocks {ps : List Prim} (h : Blocks ps) : Good none ps := by
  induction h with
  | nil => trivial
  | cons p body fin rest h1 h2 _ ih =>
    refine ⟨by intro _; rfl, ?_⟩
    have : (body ++ [fin]) ++ rest = body ++ (fin :: rest) := by simp
    show Good (some (p, p)) ((body ++ [fin]) ++ rest)
    rw [this]
    apply Good.of_draws body h1
    intro sc'
    rcases h2 with rfl | rfl
    · exact ⟨(fun h => nomatch h), ih⟩
    · exact ⟨(fun h => nomatch h), ih⟩

/-- Every point of the outline lies in the box BoundsPen ends with. -/
theorem onPath_in_bndFold {o : CurveOracle} (ho : o.Lawful) (ps : List Prim) (pst : Option (Pt × Pt))
    (st : BndSt) (q : Pt) (hg : Good pst ps) (hst : BndHolds pst st) (hq : OnPath pst ps q) :
    ∃ b', (ps.foldl (bndStep o) st).box = some b' ∧ b'.Has q := by
  induction ps generalizing pst st with
  | nil => simp [OnPath] at hq
  | cons pr ps ih =>
    obtain ⟨hg1, hg2⟩ := hg
    simp only [List.foldl_cons]
    cases pst with
    | none =>
      have hnd := hg1 rfl
      cases pr with
      | lineTo p => simp [Prim.isDraw] at hnd
      | curveTo a b p => simp [Prim.isDraw] at hnd
      | qCurveTo a p => simp [Prim.isDraw] at hnd
      | moveTo p =>
        obtain ⟨b1, h1, h2, _⟩ := addPt_grows st.box p
        have hb1 : (bndStep o st (.moveTo p)).box = some b1 := h1
        rcases hq with hq | hq
        · simp only [OnPrim, Prim.pts, List.mem_singleton] at hq
          subst hq
          obtain ⟨b', h3, h4⟩ := bndFold_grows o ps _ b1 hb1
          exact ⟨b', h3, Box.has_of_within h4 h2⟩
        · apply ih _ _ hg2 _ hq
          intro s c hsc
          simp only [nextState, Option.some.injEq, Prod.mk.injEq] at hsc
          obtain ⟨rfl, rfl⟩ := hsc
          exact ⟨rfl, b1, hb1, h2, h2⟩
      | closePath =>
        rcases hq with hq | hq
        · simp [OnPrim, Prim.pts] at hq
        · exact ih _ _ hg2 (by intro s c h; simp [nextState] at h) hq
      | endPath =>
        rcases hq with hq | hq
        · simp [OnPrim, Prim.pts] at hq
        · exact ih _ _ hg2 (by intro s c h; simp [nextState] at h) hq
    | some sc =>
      obtain ⟨s, c⟩ := sc
      obtain ⟨hcur, b, hb, hs, hc⟩ := hst s c rfl
      obtain ⟨b1, h1, hw, _, hcur1, hend, hat⟩ := bndStep_spec ho pr s c st hcur b hb hs hc
      rcases hq with ⟨t, h0, h1', rfl⟩ | hq
      · obtain ⟨b', h3, h4⟩ := bndFold_grows o ps _ b1 h1
        exact ⟨b', h3, Box.has_of_within h4 (hat t h0 h1')⟩
      · apply ih _ _ hg2 _ hq
        intro s' c' hsc
        cases pr with
        | moveTo p =>
          simp only [nextState, Option.some.injEq, Prod.mk.injEq] at hsc
          obtain ⟨rfl, rfl⟩ := hsc
          exact ⟨hcur1, b1, h1, hend, hend⟩
        | closePath => simp [nextState] at hsc
        | endPath => simp [nextState] at hsc
        | lineTo p =>
          simp only [nextState, Option.map_some, Option.some.injEq, Prod.mk.injEq] at hsc
          obtain ⟨rfl, rfl⟩ := hsc
          exact ⟨hcur1, b1, h1, Box.has_of_within hw hs, hend⟩
        | curveTo a b2 p =>
          simp only [nextState, Option.map_some, Option.some.injEq, Prod.mk.injEq] at hsc
          obtain ⟨rfl, rfl⟩ := hsc
          exact ⟨hcur1, b1, h1, Box.has_of_within hw hs, hend⟩
        | qCurveTo a p =>
          simp only [nextState, Option.map_some, Option.some.injEq, Prod.mk.injEq] at hsc
          obtain ⟨rfl, rfl⟩ := hsc
          exact ⟨hcur1, b1, h1, Box.has_of_within hw hs, hend⟩

/-- … for whole sub paths, from the pen's initial state -/
theorem onPath_in_bndBox {o : CurveOracle} (ho : o.Lawful) {ps : List Prim} (h : Blocks ps) (q : Pt)
    (hq : OnPath none ps q) : ∃ b, bndBox o ps = some b ∧ b.Has q :=
  onPath_in_bndFold ho ps none {} q (Good.of_blocks h) (by intro s c hsc; cases hsc) hq

/-- `hullOracle` (the box of the control points) obeys the oracle laws -/
theorem hullOracle_lawful : hullOracle.Lawful where
  cubic_has := by
    intro p0 a b p t h0 h1
    apply Box.has_bez3 h0 h1
    · exact Box.has_add_of_has _ (Box.has_add_of_has _ (Box.has_add_of_has _ (Box.has_ofPt p0)))
    · exact Box.has_add_of_has _ (Box.has_add_of_has _ (Box.has_add_self _ a))
    · exact Box.has_add_of_has _ (Box.has_add_self _ b)
    · exact Box.has_add_self _ p
  quad_has := by
    intro p0 a p t h0 h1
    apply Box.has_bez2 h0 h1
    · exact Box.has_add_of_has _ (Box.has_add_of_has _ (Box.has_ofPt p0))
    · exact Box.has_add_of_has _ (Box.has_add_self _ a)
    · exact Box.has_add_self _ p
  cubic_within := by
    intro p0 a b p bx h0 ha hb hp
    exact Box.add_within (Box.add_within (Box.add_within (Box.ofPt_within h0) ha) hb) hp
  quad_within := by
    intro p0 a p bx h0 ha hp
    exact Box.add_within (Box.add_within (Box.ofPt_within h0) ha) hp
  cubic_shift := by
    intro p0 a b p dx dy
    simp [hullOracle, Box.shift_add, Box.shift_ofPt]
  quad_shift := by
    intro p0 a p dx dy
    simp [hullOracle, Box.shift_add, Box.shift_ofPt]

end Geom
end DefconModel
