/-
M-Geom helper lemmas: the shape of what a contour sends to a pen
(one `moveTo`, drawing primitives, one `closePath`/`endPath`).
-/
import DefconModel.Lemmas.Geom.Basic

namespace DefconModel
namespace Geom

def Prim.isDraw : Prim → Bool
  | .lineTo _ => true
  | .curveTo _ _ _ => true
  | .qCurveTo _ _ => true
  | _ => false

def Call.isDraw : Call → Bool
  | .lineTo _ => true
  | .curveTo _ => true
  | .qCurveTo _ blob => !blob
  | _ => false

theorem group_noBlob (acc : List Pt) (pts : List Point) : ∀ s ∈ group acc pts, s.blob = false := by
  induction pts generalizing acc with
  | nil => simp [group]
  | cons p ps ih =>
    unfold group
    cases h : p.seg with
    | none => simpa using ih _
    | some t =>
      intro s hs
      simp only [List.mem_cons] at hs
      rcases hs with rfl | hs
      · rfl
      · exact ih _ s hs

theorem flushLoop_isDraw (closed : Bool) (lp : Option Pt) (segs : List Segm) (h : ∀ s ∈ segs, s.blob = false) :
    ∀ c ∈ flushLoop closed lp segs, c.isDraw = true := by
  induction segs generalizing lp with
  | nil => simp [flushLoop]
  | cons s rest ih =>
    have hr : ∀ s ∈ rest, s.blob = false := fun s hs => h s (List.mem_cons_of_mem _ hs)
    have hs : s.blob = false := h s (List.mem_cons_self ..)
    unfold flushLoop
    cases hty : s.ty with
    | line =>
      simp only
      cases hl : s.pts.getLast? with
      | none => simpa using ih _ hr
      | some pt =>
        simp only
        split
        · intro c hc
          simp only [List.mem_cons] at hc
          rcases hc with rfl | hc
          · rfl
          · exact ih _ hr c hc
        · exact ih _ hr
    | curve =>
      intro c hc
      simp only [List.mem_cons] at hc
      rcases hc with rfl | hc
      · rfl
      · exact ih _ hr c hc
    | qcurve =>
      intro c hc
      simp only [List.mem_cons] at hc
      rcases hc with rfl | hc
      · simp [Call.isDraw, hs]
      · exact ih _ hr c hc
    | move => simpa using ih _ hr

theorem decomposeQuad_map_isDraw (pts : List Pt) : ∀ pr ∈ (decomposeQuad pts).map quadPrim, pr.isDraw = true := by
  intro pr h
  simp only [List.mem_map] at h
  obtain ⟨ab, _, rfl⟩ := h
  rfl

theorem expandQ_isDraw (pts : List Pt) : ∀ pr ∈ expandQ pts, pr.isDraw = true := by
  unfold expandQ
  split
  · simp
  · intro pr h; simp at h; subst h; rfl
  · exact decomposeQuad_map_isDraw pts

theorem expandCall_isDraw (c : Call) (h : c.isDraw = true) : ∀ pr ∈ expandCall c, pr.isDraw = true := by
  cases c with
  | moveTo p => simp [Call.isDraw] at h
  | closePath => simp [Call.isDraw] at h
  | endPath => simp [Call.isDraw] at h
  | lineTo p => intro pr hp; simp [expandCall] at hp; subst hp; rfl
  | curveTo pts =>
    simp only [expandCall]
    split
    · intro pr hp; simp at hp; subst hp; rfl
    · exact expandQ_isDraw _
    · intro pr hp; simp at hp; subst hp; rfl
    · simp
  | qCurveTo pts blob =>
    simp [Call.isDraw] at h
    subst h
    simp only [expandCall]
    exact expandQ_isDraw _

theorem expand_isDraw (cs : List Call) (h : ∀ c ∈ cs, c.isDraw = true) : ∀ pr ∈ expand cs, pr.isDraw = true := by
  intro pr hp
  simp only [expand, List.mem_flatMap] at hp
  obtain ⟨c, hc, hp⟩ := hp
  exact expandCall_isDraw c (h c hc) pr hp

theorem expand_append (a b : List Call) : expand (a ++ b) = expand a ++ expand b := by
  simp [expand]

theorem expand_cons (c : Call) (cs : List Call) : expand (c :: cs) = expandCall c ++ expand cs := by
  simp [expand]

/-! ### the cases of `toSegments` / `drawCalls` -/

theorem drawCalls_nil : drawCalls [] = [] := rfl

theorem drawCalls_single (p : Point) : drawCalls [p] = [.moveTo p.pt, .endPath] := by
  simp [drawCalls, toSegments, flush, flushLoop]

theorem drawCalls_open (p0 p1 : Point) (rest : List Point) (h : p0.seg = some .move) :
    drawCalls (p0 :: p1 :: rest) =
      .moveTo p0.pt :: (flushLoop false (some p0.pt) (group [] (p1 :: rest)) ++ [.endPath]) := by
  simp [drawCalls, toSegments, h, flush]

theorem drawCalls_blob (p0 p1 : Point) (rest : List Point) (h : p0.seg ≠ some .move)
    (hf : firstOnCurve? (p0 :: p1 :: rest) = none) :
    drawCalls (p0 :: p1 :: rest) = [.qCurveTo ((p0 :: p1 :: rest).map (·.pt)) true, .closePath] := by
  simp [drawCalls, toSegments, h, hf, flush, flushLoop, Segm.endPt, moveCall]

/-- the rotation `points[firstOnCurve + 1:] + points[:firstOnCurve + 1]` -/
def rotOn (pts : List Point) (i : Nat) : List Point := pts.drop (i + 1) ++ pts.take (i + 1)

theorem group_ne_nil_of_onCurve (acc : List Pt) (pts : List Point) (h : ∃ p ∈ pts, p.onCurve = true) :
    group acc pts ≠ [] := by
  induction pts generalizing acc with
  | nil => simp at h
  | cons p ps ih =>
    unfold group
    cases hs : p.seg with
    | none =>
      simp only
      apply ih
      obtain ⟨q, hq, hq2⟩ := h
      rcases List.mem_cons.1 hq with rfl | hq
      · simp [Point.onCurve, hs] at hq2
      · exact ⟨q, hq, hq2⟩
    | some t => simp

theorem firstOnCurve?_some {pts : List Point} {i : Nat} (h : firstOnCurve? pts = some i) :
    ∃ p, pts[i]? = some p ∧ p.onCurve = true := by
  induction pts generalizing i with
  | nil => simp [firstOnCurve?] at h
  | cons q qs ih =>
    unfold firstOnCurve? at h
    split at h
    · cases h; exact ⟨q, rfl, by assumption⟩
    · simp only [Option.map_eq_some_iff] at h
      obtain ⟨j, hj, rfl⟩ := h
      obtain ⟨p, hp, hp2⟩ := ih hj
      exact ⟨p, by simpa using hp, hp2⟩

theorem drawCalls_closed (p0 p1 : Point) (rest : List Point) (h : p0.seg ≠ some .move) (i : Nat)
    (hf : firstOnCurve? (p0 :: p1 :: rest) = some i) :
    drawCalls (p0 :: p1 :: rest) = flush (group [] (rotOn (p0 :: p1 :: rest) i)) := by
  simp [drawCalls, toSegments, h, hf, rotOn]

/-- `flush` on segments that do not start with a `move` segment -/
theorem flush_closed (s0 : Segm) (rest : List Segm) (h : s0.ty ≠ .move) :
    flush (s0 :: rest) =
      moveCall ((s0 :: rest).getLast?.bind Segm.endPt) ++
        flushLoop true ((s0 :: rest).getLast?.bind Segm.endPt) (s0 :: rest) ++ [.closePath] := by
  simp [flush, h]

theorem flush_open (s0 : Segm) (rest : List Segm) (h : s0.ty = .move) (mp : Pt) (hp : s0.pts.getLast? = some mp) :
    flush (s0 :: rest) = .moveTo mp :: (flushLoop false (some mp) rest ++ [.endPath]) := by
  simp [flush, h, hp]


theorem group_pts_ne_nil (acc : List Pt) (pts : List Point) : ∀ s ∈ group acc pts, s.pts ≠ [] := by
  induction pts generalizing acc with
  | nil => simp [group]
  | cons p ps ih =>
    unfold group
    cases h : p.seg with
    | none => simpa using ih _
    | some t =>
      intro s hs
      simp only [List.mem_cons] at hs
      rcases hs with rfl | hs
      · simp
      · exact ih _ s hs

theorem getLast?_isSome_of_ne_nil {α : Type} {l : List α} (h : l ≠ []) : ∃ a, l.getLast? = some a := by
  cases hl : l.getLast? with
  | none => exact absurd (List.getLast?_eq_none_iff.1 hl) h
  | some a => exact ⟨a, rfl⟩

/-- `flush` of what `group` builds: one `moveTo`, drawing calls, one `closePath`/`endPath` -/
theorem flush_group_shape (segs : List Segm) (hne : segs ≠ []) (hb : ∀ s ∈ segs, s.blob = false)
    (hp : ∀ s ∈ segs, s.pts ≠ []) :
    ∃ p body fin, flush segs = .moveTo p :: (body ++ [fin]) ∧ (∀ c ∈ body, c.isDraw = true) ∧
      (fin = .closePath ∨ fin = .endPath) := by
  match segs, hne with
  | s0 :: rest, _ =>
    by_cases hm : s0.ty = .move
    · obtain ⟨mp, hmp⟩ := getLast?_isSome_of_ne_nil (hp s0 (List.mem_cons_self ..))
      refine ⟨mp, flushLoop false (some mp) rest, .endPath, flush_open s0 rest hm mp hmp, ?_, Or.inr rfl⟩
      exact flushLoop_isDraw _ _ _ (fun s hs => hb s (List.mem_cons_of_mem _ hs))
    · obtain ⟨sl, hsl⟩ := getLast?_isSome_of_ne_nil (l := s0 :: rest) (by simp)
      have hmem : sl ∈ s0 :: rest := List.mem_of_getLast? hsl
      obtain ⟨mp, hmp⟩ := getLast?_isSome_of_ne_nil (hp sl hmem)
      have he : (s0 :: rest).getLast?.bind Segm.endPt = some mp := by
        simp [hsl, Segm.endPt, hb sl hmem, hmp]
      refine ⟨mp, flushLoop true (some mp) (s0 :: rest), .closePath, ?_, ?_, Or.inl rfl⟩
      · rw [flush_closed s0 rest hm, he]; simp [moveCall]
      · exact flushLoop_isDraw _ _ _ hb

theorem mem_rotOn_of_getElem? {pts : List Point} {i : Nat} {q : Point} (h : pts[i]? = some q) :
    q ∈ rotOn pts i := by
  have hlt : i < pts.length := by
    rcases Nat.lt_or_ge i pts.length with h' | h'
    · exact h'
    · rw [List.getElem?_eq_none h'] at h; cases h
  have : q ∈ pts.take (i + 1) := by
    rw [List.mem_take_iff_getElem]
    refine ⟨i, ?_, ?_⟩
    · omega
    · rw [List.getElem?_eq_getElem hlt] at h; cases h; rfl
  unfold rotOn
  exact List.mem_append_right _ this

/-- What a contour sends to a segment pen (after `BasePen`): nothing, or exactly one `moveTo`, then
drawing primitives only, then exactly one `closePath` or `endPath`. -/
theorem prims_shape (pts : List Point) :
    prims pts = [] ∨ ∃ p body fin, prims pts = .moveTo p :: (body ++ [fin]) ∧
      (∀ pr ∈ body, pr.isDraw = true) ∧ (fin = .closePath ∨ fin = .endPath) := by
  match pts with
  | [] => left; rfl
  | [p] =>
    right
    exact ⟨p.pt, [], .endPath, by simp [prims, drawCalls_single, expand, expandCall], by simp, Or.inr rfl⟩
  | p0 :: p1 :: rest =>
    right
    by_cases hm : p0.seg = some .move
    · refine ⟨p0.pt, expand (flushLoop false (some p0.pt) (group [] (p1 :: rest))), .endPath, ?_, ?_, Or.inr rfl⟩
      · rw [prims, drawCalls_open p0 p1 rest hm, expand_cons, expand_append]
        simp [expandCall, expand]
      · exact expand_isDraw _ (flushLoop_isDraw _ _ _ (group_noBlob _ _))
    · cases hf : firstOnCurve? (p0 :: p1 :: rest) with
      | none =>
        obtain ⟨l, hl⟩ := getLast?_isSome_of_ne_nil (l := (p0 :: p1 :: rest).map (·.pt)) (by simp)
        refine ⟨mid l p0.pt, expandQ ((p0 :: p1 :: rest).map (·.pt) ++ [mid l p0.pt]), .closePath, ?_, ?_, Or.inl rfl⟩
        · rw [prims, drawCalls_blob p0 p1 rest hm hf]
          simp only [expand, List.flatMap_cons, List.flatMap_nil, expandCall, if_true, hl]
          simp
        · exact expandQ_isDraw _
      | some i =>
        obtain ⟨q, hq, hq2⟩ := firstOnCurve?_some hf
        have hne : group [] (rotOn (p0 :: p1 :: rest) i) ≠ [] :=
          group_ne_nil_of_onCurve _ _ ⟨q, mem_rotOn_of_getElem? hq, hq2⟩
        obtain ⟨p, body, fin, h1, h2, h3⟩ := flush_group_shape _ hne (group_noBlob _ _) (group_pts_ne_nil _ _)
        rcases h3 with rfl | rfl
        · refine ⟨p, expand body, .closePath, ?_, expand_isDraw _ h2, Or.inl rfl⟩
          rw [prims, drawCalls_closed p0 p1 rest hm i hf, h1, expand_cons, expand_append]
          simp [expandCall, expand]
        · refine ⟨p, expand body, .endPath, ?_, expand_isDraw _ h2, Or.inr rfl⟩
          rw [prims, drawCalls_closed p0 p1 rest hm i hf, h1, expand_cons, expand_append]
          simp [expandCall, expand]

end Geom
end DefconModel
