/-
M-Geom helper lemmas: reversing a closed contour negates the area AreaPen computes.
-/
import DefconModel.Lemmas.Geom.RevSeg
import DefconModel.Lemmas.Geom.Rotate

namespace DefconModel
namespace Geom

/-! ### point lists as lists of (off-curve run, on-curve point) -/

abbrev PSeg := List Point × Point

def PSeg.Wf (g : PSeg) : Prop := (∀ o ∈ g.1, o.seg = none) ∧ g.2.seg ≠ none

def flat (T : List PSeg) : List Point := T.flatMap (fun g => g.1 ++ [g.2])

def tyOf (q : Point) : Seg := q.seg.getD .line

def PSeg.toSegm (g : PSeg) : Segm := ⟨tyOf g.2, g.1.map (·.pt) ++ [g.2.pt], false⟩

def segsOf (T : List PSeg) : List Segm := T.map PSeg.toSegm

theorem flat_cons (g : PSeg) (r : List PSeg) : flat (g :: r) = g.1 ++ g.2 :: flat r := by
  simp [flat]

theorem flat_append (a b : List PSeg) : flat (a ++ b) = flat a ++ flat b := by
  simp [flat]

theorem seg_some_tyOf {q : Point} (h : q.seg ≠ none) : q.seg = some (tyOf q) := by
  cases hs : q.seg with
  | none => exact absurd hs h
  | some t => simp [tyOf, hs]

theorem group_offs (acc : List Pt) (O l : List Point) (hO : ∀ o ∈ O, o.seg = none) :
    group acc (O ++ l) = group (acc ++ O.map (·.pt)) l := by
  induction O generalizing acc with
  | nil => simp
  | cons o os ih =>
    have ho := hO o (List.mem_cons_self ..)
    simp only [List.cons_append, List.map_cons]
    rw [group.eq_2]
    simp only [ho]
    rw [ih _ (fun x hx => hO x (List.mem_cons_of_mem _ hx))]
    simp

theorem group_flat (T : List PSeg) (h : ∀ g ∈ T, g.Wf) : group [] (flat T) = segsOf T := by
  induction T with
  | nil => rfl
  | cons g r ih =>
    have hg := h g (List.mem_cons_self ..)
    rw [flat_cons, group_offs [] g.1 _ hg.1, group.eq_2]
    simp only [seg_some_tyOf hg.2, List.nil_append]
    rw [ih (fun x hx => h x (List.mem_cons_of_mem _ hx))]
    rfl

theorem split_first_on (l : List Point) (h : hasOn l = true) :
    ∃ O q l', l = O ++ q :: l' ∧ (∀ o ∈ O, o.seg = none) ∧ q.seg ≠ none := by
  induction l with
  | nil => simp [hasOn] at h
  | cons p ps ih =>
    cases hs : p.seg with
    | some t => exact ⟨[], p, ps, rfl, by simp, by rw [hs]; simp⟩
    | none =>
      rw [hasOn_cons, hs] at h
      obtain ⟨O, q, l', h1, h2, h3⟩ := ih (by simpa using h)
      refine ⟨p :: O, q, l', by rw [h1]; rfl, ?_, h3⟩
      intro o ho
      rcases List.mem_cons.1 ho with rfl | ho
      · exact hs
      · exact h2 o ho

/-- every point list that is empty or ends with an on-curve point is such a list of runs -/
theorem exists_flat (l : List Point) (h : l = [] ∨ ∃ p, l.getLast? = some p ∧ p.onCurve = true) :
    ∃ T, (∀ g ∈ T, g.Wf) ∧ flat T = l := by
  generalize hn : l.length = n
  induction n using Nat.strong_induction_on generalizing l with
  | _ n ih =>
    by_cases hl : l = []
    · exact ⟨[], by simp, by simp [flat, hl]⟩
    · have hlast : ∃ p, l.getLast? = some p ∧ p.onCurve = true := by
        rcases h with h | h
        · exact absurd h hl
        · exact h
      obtain ⟨p, hp, hpon⟩ := hlast
      have hon : hasOn l = true := by
        simp only [hasOn, List.any_eq_true]
        exact ⟨p, List.mem_of_getLast? hp, hpon⟩
      obtain ⟨O, q, l', h1, h2, h3⟩ := split_first_on l hon
      have hl' : l' = [] ∨ ∃ p, l'.getLast? = some p ∧ p.onCurve = true := by
        by_cases he : l' = []
        · exact Or.inl he
        · right
          refine ⟨p, ?_, hpon⟩
          rw [h1, List.getLast?_append_of_ne_nil _ (by simp), List.getLast?_cons_of_ne_nil he] at hp
          · exact hp
      obtain ⟨T', hT1, hT2⟩ := ih l'.length (by rw [← hn, h1]; simp; omega) l' hl' rfl
      refine ⟨(O, q) :: T', ?_, ?_⟩
      · intro g hg
        rcases List.mem_cons.1 hg with rfl | hg
        · exact ⟨h2, h3⟩
        · exact hT1 g hg
      · rw [flat_cons, hT2, h1]

/-! ### retyping a list of runs -/

def retypeT (a : Seg) : List PSeg → List PSeg
  | [] => []
  | g :: r => (g.1, { g.2 with seg := some a }) :: retypeT (tyOf g.2) r

theorem retype_offs (a : Option Seg) (O l : List Point) (hO : ∀ o ∈ O, o.seg = none) :
    retype a (O ++ l) = O ++ retype a l := by
  induction O with
  | nil => rfl
  | cons o os ih =>
    have ho := hO o (List.mem_cons_self ..)
    simp only [List.cons_append]
    rw [retype_cons_off a o _ ho, ih (fun x hx => hO x (List.mem_cons_of_mem _ hx))]

theorem retype_flat (a : Seg) (T : List PSeg) (h : ∀ g ∈ T, g.Wf) :
    retype (some a) (flat T) = flat (retypeT a T) := by
  induction T generalizing a with
  | nil => rfl
  | cons g r ih =>
    have hg := h g (List.mem_cons_self ..)
    rw [flat_cons, retype_offs _ _ _ hg.1, retype_cons_on _ g.2 _ (tyOf g.2) (seg_some_tyOf hg.2),
      ih _ (fun x hx => h x (List.mem_cons_of_mem _ hx))]
    simp [retypeT, flat_cons]

theorem retypeT_wf (a : Seg) (T : List PSeg) (h : ∀ g ∈ T, g.Wf) : ∀ g ∈ retypeT a T, g.Wf := by
  induction T generalizing a with
  | nil => simp [retypeT]
  | cons g r ih =>
    have hg := h g (List.mem_cons_self ..)
    intro x hx
    simp only [retypeT, List.mem_cons] at hx
    rcases hx with rfl | hx
    · exact ⟨hg.1, by simp⟩
    · exact ih _ (fun y hy => h y (List.mem_cons_of_mem _ hy)) x hx

/-- the type the retyping loop carries after the runs `X` -/
def lastTy (a : Seg) (X : List PSeg) : Seg :=
  match X.getLast? with
  | some l => tyOf l.2
  | none => a

theorem lastTy_cons (a : Seg) (x : PSeg) (xs : List PSeg) : lastTy a (x :: xs) = lastTy (tyOf x.2) xs := by
  cases xs with
  | nil => rfl
  | cons y ys =>
    obtain ⟨l, hl⟩ := getLast?_isSome_of_ne_nil (l := y :: ys) (by simp)
    simp [lastTy, List.getLast?_cons_cons, hl]

theorem retypeT_append (a : Seg) (X : List PSeg) (g : PSeg) :
    retypeT a (X ++ [g]) = retypeT a X ++ [(g.1, { g.2 with seg := some (lastTy a X) })] := by
  induction X generalizing a with
  | nil => rfl
  | cons x xs ih =>
    simp only [List.cons_append, retypeT]
    rw [ih, lastTy_cons]

/-! ### a list of runs traversed backwards -/

/-- `prev` is the on-curve point before the first run -/
def revT (prev : Point) : List PSeg → List PSeg
  | [] => []
  | g :: r => revT g.2 r ++ [(g.1.reverse, prev)]

theorem revT_wf (prev : Point) (hp : prev.seg ≠ none) (T : List PSeg) (h : ∀ g ∈ T, g.Wf) :
    ∀ g ∈ revT prev T, g.Wf := by
  induction T generalizing prev with
  | nil => simp [revT]
  | cons g r ih =>
    have hg := h g (List.mem_cons_self ..)
    intro x hx
    simp only [revT, List.mem_append, List.mem_singleton] at hx
    rcases hx with hx | rfl
    · exact ih g.2 hg.2 (fun y hy => h y (List.mem_cons_of_mem _ hy)) x hx
    · exact ⟨by intro o ho; exact hg.1 o (List.mem_reverse.1 ho), hp⟩

theorem revT_getLast (prev : Point) (T : List PSeg) (hne : T ≠ []) :
    ∃ O, (revT prev T).getLast? = some (O, prev) := by
  cases T with
  | nil => exact absurd rfl hne
  | cons g r => exact ⟨g.1.reverse, by simp [revT]⟩

theorem flat_ne_nil (T : List PSeg) (hne : T ≠ []) : flat T ≠ [] := by
  cases T with
  | nil => exact absurd rfl hne
  | cons g r => rw [flat_cons]; simp

/-- the backwards traversal, as a point list: the reversed list with its first point moved to the end -/
theorem flat_revT (prev : Point) (T : List PSeg) (hne : T ≠ []) :
    flat (revT prev T) = (flat T).reverse.tail ++ [prev] := by
  induction T generalizing prev with
  | nil => exact absurd rfl hne
  | cons g r ih =>
    simp only [revT]
    rw [flat_append, flat_cons]
    by_cases hr : r = []
    · subst hr
      simp [revT, flat]
    · rw [ih g.2 hr, flat_cons g r]
      have hfr := flat_ne_nil r hr
      have : (g.1 ++ g.2 :: flat r).reverse = (flat r).reverse ++ (g.2 :: g.1.reverse) := by simp
      rw [this]
      have hrne : (flat r).reverse ≠ [] := by simpa using hfr
      rw [List.tail_append_of_ne_nil hrne]
      simp [flat]

/-- The segments of the backwards traversal, retyped as `ReverseContourPointPen` does, are the
segments drawn backwards. -/
theorem segsOf_retypeT_revT (prev : Point) (T : List PSeg) (hne : T ≠ []) (a : Seg)
    (ha : ∃ l, T.getLast? = some l ∧ a = tyOf l.2) :
    segsOf (retypeT a (revT prev T)) = revFrom prev.pt (segsOf T) := by
  induction T generalizing prev with
  | nil => exact absurd rfl hne
  | cons g r ih =>
    simp only [revT, segsOf, List.map_cons, revFrom]
    rw [retypeT_append, List.map_append]
    have hend : (PSeg.toSegm g).endOr prev.pt = g.2.pt := by simp [PSeg.toSegm, Segm.endOr]
    rw [hend]
    by_cases hr : r = []
    · subst hr
      obtain ⟨l, hl, hal⟩ := ha
      simp at hl; subst hl
      simp [revT, retypeT, revFrom, revSeg, PSeg.toSegm, tyOf, hal, lastTy]
    · have ha' : ∃ l, r.getLast? = some l ∧ a = tyOf l.2 := by
        obtain ⟨l, hl, hal⟩ := ha
        exact ⟨l, by rw [List.getLast?_cons_of_ne_nil hr] at hl; exact hl, hal⟩
      have ih' := ih g.2 hr ha'
      simp only [segsOf] at ih'
      rw [ih']
      obtain ⟨O, hO⟩ := revT_getLast g.2 r hr
      simp [lastTy, hO, revSeg, PSeg.toSegm, tyOf]

/-! ### a closed contour that starts on an on-curve point -/

theorem flat_getLast (T : List PSeg) (l : PSeg) (h : T.getLast? = some l) : (flat T).getLast? = some l.2 := by
  induction T with
  | nil => simp at h
  | cons g r ih =>
    rw [flat_cons]
    by_cases hr : r = []
    · subst hr
      simp at h; subst h
      simp [flat]
    · rw [List.getLast?_cons_of_ne_nil hr] at h
      have := ih h
      rw [List.getLast?_append_of_ne_nil _ (by simp), List.getLast?_cons_of_ne_nil (flat_ne_nil r hr)]
      exact this

theorem noMove_retype (a : Seg) (ha : a ≠ .move) (l : List Point) (h : noMove l = true) :
    noMove (retype (some a) l) = true := by
  induction l generalizing a with
  | nil => rfl
  | cons p ps ih =>
    simp only [noMove, List.all_cons, Bool.and_eq_true, decide_eq_true_eq] at h
    cases hs : p.seg with
    | none =>
      rw [retype_cons_off _ p ps hs]
      simp only [noMove, List.all_cons, Bool.and_eq_true, decide_eq_true_eq]
      exact ⟨h.1, by simpa [noMove] using ih a ha (by simpa [noMove] using h.2)⟩
    | some t =>
      rw [retype_cons_on _ p ps t hs]
      have ht : t ≠ .move := by
        intro hh; exact h.1 (by rw [hs, hh])
      simp only [noMove, List.all_cons, Bool.and_eq_true, decide_eq_true_eq]
      exact ⟨by simpa using ha, by simpa [noMove] using ih t ht (by simpa [noMove] using h.2)⟩

theorem hasOn_of_head (q : Point) (r : List Point) (h : q.seg ≠ none) : hasOn (q :: r) = true := by
  rw [hasOn_cons]
  cases hs : q.seg with
  | none => exact absurd hs h
  | some t => rfl

/-- Reversing a closed contour that starts with an on-curve point negates its signed area. -/
theorem reverse_area_onStart (q : Point) (rest : List Point) (hq : q.seg ≠ none) (hlen : 1 ≤ rest.length)
    (hm : noMove (q :: rest) = true) (herr : drawErr (q :: rest) = none) :
    freshArea (reversePoints (q :: rest)) = - freshArea (q :: rest) ∧
    drawErr (reversePoints (q :: rest)) = none ∧ noMove (reversePoints (q :: rest)) = true ∧
    hasOn (reversePoints (q :: rest)) = true := by
  have hq0 : q.seg ≠ some .move := by
    simp only [noMove, List.all_eq_true, decide_eq_true_eq] at hm
    exact hm q (List.mem_cons_self ..)
  have htq := seg_some_tyOf hq
  have hqon : q.onCurve = true := by simp [Point.onCurve, htq]
  -- the runs of the contour read from just after q round to q
  set N := rest ++ [q] with hN
  obtain ⟨T, hTwf, hTflat⟩ := exists_flat N (Or.inr ⟨q, by simp [hN], hqon⟩)
  have hTne : T ≠ [] := by
    intro h; rw [h] at hTflat; simp [flat, hN] at hTflat
  obtain ⟨lT, hlT⟩ := getLast?_isSome_of_ne_nil hTne
  have hlTq : lT.2 = q := by
    have := flat_getLast T lT hlT
    rw [hTflat] at this
    have h2 : q = lT.2 := by simpa [hN] using this
    exact h2.symm
  -- forward: the area is the cyclic sum over these runs
  have hf0 : firstOnCurve? (q :: rest) = some 0 := by
    rw [firstOnCurve?.eq_2]; simp [hqon]
  have hrot0 : rotOn (q :: rest) 0 = N := by simp [rotOn, hN]
  have hfwd := freshArea_closed' (q :: rest) (by simp; omega) hm herr 0 hf0
  rw [hrot0, ← hTflat, group_flat T hTwf] at hfwd
  have hts := toSegments_closed' (q :: rest) (by simp; omega) hm 0 hf0
  have hok : ∀ s ∈ segsOf T, s.Ok := by
    have := closed_segs_ok hm hts rfl herr
    rw [hrot0, ← hTflat, group_flat T hTwf] at this
    exact this
  -- the reversed contour
  obtain ⟨a, ha⟩ : ∃ a, firstOnType? N = some a := by
    cases h : firstOnType? N with
    | some a => exact ⟨a, rfl⟩
    | none =>
      have := firstOnType?_eq_none.1 h
      rw [hN, hasOn_append] at this
      simp [hasOn, hqon] at this
  have hane : a ≠ .move := by
    apply firstOnType?_ne_move ha
    intro p hp
    simp only [noMove, List.all_eq_true, decide_eq_true_eq] at hm
    apply hm p
    rw [hN] at hp
    rcases List.mem_append.1 hp with hp | hp
    · exact List.mem_cons_of_mem _ hp
    · simp at hp; subst hp; exact List.mem_cons_self ..
  have hR : reversePoints (q :: rest) =
      ({ q with seg := some a } : Point) :: retype (some (tyOf q)) rest.reverse := by
    rw [reversePoints_closed q rest hq0, ← hN, ha, retype_cons_on _ q _ (tyOf q) htq]
  set q' : Point := { q with seg := some a } with hq'
  set R := reversePoints (q :: rest) with hRdef
  have hRlen : R.length = rest.length + 1 := by rw [hR]; simp [retype_length]
  have hq'on : q'.onCurve = true := by simp [hq', Point.onCurve]
  have hfR : firstOnCurve? R = some 0 := by
    rw [hR, firstOnCurve?.eq_2]; simp [hq'on]
  have hcarry : carry (tyOf q) rest.reverse = a := by
    have := carry_reverse_of_firstOnType? ha a
    rw [hN, List.reverse_append, List.reverse_singleton, List.singleton_append,
      carry_cons_on a q _ (tyOf q) htq] at this
    exact this
  have hrotR : rotOn R 0 = flat (retypeT (tyOf q) (revT q T)) := by
    have h1 : rotOn R 0 = retype (some (tyOf q)) rest.reverse ++ [q'] := by rw [hR]; simp [rotOn]
    have h2 : flat (revT q T) = rest.reverse ++ [q] := by
      rw [flat_revT q T hTne, hTflat, hN]; simp
    rw [h1, ← retype_flat (tyOf q) (revT q T) (revT_wf q hq T hTwf), h2, retype_append, hcarry,
      retype_cons_on _ q [] (tyOf q) htq]
    rfl
  have hsegsR : group [] (rotOn R 0) = revFrom q.pt (segsOf T) := by
    rw [hrotR, group_flat _ (retypeT_wf _ _ (revT_wf q hq T hTwf)),
      segsOf_retypeT_revT q T hTne (tyOf q) ⟨lT, hlT, by rw [hlTq]⟩]
  obtain ⟨hokR, _, _⟩ := revFrom_sum q.pt (segsOf T) hok
  have hmR : noMove R = true := by
    rw [hRdef, reversePoints_closed q rest hq0, ← hN, ha]
    apply noMove_retype a hane
    simp only [noMove, List.all_eq_true, decide_eq_true_eq] at hm ⊢
    intro p hp
    apply hm p
    rcases List.mem_cons.1 hp with rfl | hp
    · exact List.mem_cons_self ..
    · exact List.mem_cons_of_mem _ (List.mem_reverse.1 hp)
  have htsR := toSegments_closed' R (by omega) hmR 0 hfR
  have herrR : drawErr R = none := by
    unfold drawErr
    rw [htsR, hsegsR]
    exact segsBad_of_ok true _ hokR
  have hbwd := freshArea_closed' R (by omega) hmR herrR 0 hfR
  rw [hsegsR] at hbwd
  -- the cycle starts and ends at q
  have hsegne : segsOf T ≠ [] := by simpa [segsOf] using hTne
  have hend : endFrom ⟨0, 0⟩ (segsOf T) = q.pt := by
    apply endFrom_last _ _ hok lT.toSegm (by simp [segsOf, hlT]) q.pt
    simp [PSeg.toSegm, hlTq]
  have hneg := cyclicSum_revFrom (segsOf T) hsegne hok
  rw [hend] at hneg
  refine ⟨by rw [hbwd, hneg, hfwd], herrR, hmR, ?_⟩
  rw [hR]
  exact hasOn_of_head _ _ (by simp [hq'])

/-- a reversed closed contour still has no `move` -/
theorem noMove_reversePoints (pts : List Point) (hm : noMove pts = true) : noMove (reversePoints pts) = true := by
  match pts with
  | [] => rfl
  | p0 :: rest =>
    have hm0 : ∀ p ∈ p0 :: rest, p.seg ≠ some .move := by simpa [noMove] using hm
    have hp0 := hm0 p0 (List.mem_cons_self ..)
    rw [reversePoints_closed p0 rest hp0]
    have hmr : noMove (p0 :: rest.reverse) = true := by
      simp only [noMove, List.all_eq_true, decide_eq_true_eq]
      intro p hp
      apply hm0 p
      rcases List.mem_cons.1 hp with rfl | hp
      · exact List.mem_cons_self ..
      · exact List.mem_cons_of_mem _ (List.mem_reverse.1 hp)
    cases hf : firstOnType? (rest ++ [p0]) with
    | none =>
      have hno : hasOn (p0 :: rest.reverse) = false := by
        have h1 := firstOnType?_eq_none.1 hf
        have : p0 :: rest.reverse = (rest ++ [p0]).reverse := by simp
        rw [this, hasOn_reverse]; exact h1
      rw [retype_noOn _ _ hno]; exact hmr
    | some a =>
      apply noMove_retype a _ _ hmr
      apply firstOnType?_ne_move hf
      intro p hp
      apply hm0 p
      rcases List.mem_append.1 hp with hp | hp
      · exact List.mem_cons_of_mem _ hp
      · simp at hp; subst hp; exact List.mem_cons_self ..

/-! ### any start point: reversal commutes with rotation -/

theorem carry_indep (x y : Seg) (l : List Point) (h : hasOn l = true) : carry x l = carry y l := by
  induction l generalizing x y with
  | nil => simp [hasOn] at h
  | cons p ps ih =>
    cases hs : p.seg with
    | some t => rw [carry_cons_on x p ps t hs, carry_cons_on y p ps t hs]
    | none =>
      rw [carry_cons_off x p ps hs, carry_cons_off y p ps hs]
      apply ih
      rw [hasOn_cons, hs] at h
      simpa using h

/-- cyclically consistent retyping commutes with rotation -/
theorem retype_rotate_cyclic (U V : List Point) (a1 a2 : Seg) (h1 : ∀ x, carry x (U ++ V) = a1)
    (h2 : ∀ x, carry x (V ++ U) = a2) (hon : hasOn (U ++ V) = true) :
    retype (some a2) (V ++ U) = (retype (some a1) (U ++ V)).rotate U.length := by
  have e1 : carry (carry a1 U) V = a1 := by rw [← carry_append]; exact h1 a1
  have e2 : carry (carry a2 V) U = a2 := by rw [← carry_append]; exact h2 a2
  have hUV : hasOn U = true ∨ hasOn V = true := by
    rw [hasOn_append] at hon
    simpa using hon
  have k1 : a2 = carry a1 U := by
    cases hU : hasOn U with
    | true => rw [← e2]; exact carry_indep _ _ U hU
    | false =>
      have hV : hasOn V = true := by
        rcases hUV with h | h
        · rw [hU] at h; cases h
        · exact h
      rw [carry_noOn _ _ hU] at e1 e2 ⊢
      rw [← e2, ← e1]
      exact carry_indep _ _ V hV
  have k2 : carry a2 V = a1 := by
    cases hV : hasOn V with
    | true => rw [← e1]; exact carry_indep _ _ V hV
    | false =>
      have hU : hasOn U = true := by
        rcases hUV with h | h
        · exact h
        · rw [hV] at h; cases h
      rw [carry_noOn _ _ hV] at e1 e2 ⊢
      rw [← e2, ← e1]
      exact carry_indep _ _ U hU
  rw [retype_append, retype_append, k2, ← k1]
  have hl : (retype (some a1) U).length = U.length := retype_length _ _
  rw [← hl, List.rotate_append_length_eq]

theorem reversePoints_closed' (p0 : Point) (rest : List Point) (h : p0.seg ≠ some .move) :
    reversePoints (p0 :: rest) =
      retype (firstOnType? ((p0 :: rest).rotate 1)) ((p0 :: rest).rotate 1).reverse := by
  rw [reversePoints_closed p0 rest h]
  simp [List.rotate_cons_succ]

theorem hasOn_rotate (l : List Point) (j : Nat) : hasOn (l.rotate j) = hasOn l := by
  rw [Bool.eq_iff_iff]
  simp only [hasOn, List.any_eq_true, List.mem_rotate]

theorem firstOnType?_some_of_hasOn {l : List Point} (h : hasOn l = true) : ∃ a, firstOnType? l = some a := by
  cases hf : firstOnType? l with
  | some a => exact ⟨a, rfl⟩
  | none => rw [firstOnType?_eq_none.1 hf] at h; cases h

/-- The reversal of a rotated closed contour is a rotation of the reversal. -/
theorem reversePoints_rotate (pts : List Point) (hm : noMove pts = true) (hon : hasOn pts = true)
    (f : Nat) (hf : f < pts.length) :
    ∃ j, reversePoints pts = (reversePoints (pts.rotate f)).rotate j := by
  have hn : 0 < pts.length := by omega
  set Z := pts.rotate 1 with hZ
  have hZlen : Z.length = pts.length := by rw [hZ, List.length_rotate]
  -- both contours as cons lists whose head is not a move
  obtain ⟨p0, rest, hpts⟩ : ∃ p0 rest, pts = p0 :: rest := by
    cases pts with
    | nil => simp at hn
    | cons a b => exact ⟨a, b, rfl⟩
  have hm0 : ∀ p ∈ pts, p.seg ≠ some .move := by
    simpa [noMove] using hm
  have hp0 : p0.seg ≠ some .move := hm0 p0 (by rw [hpts]; exact List.mem_cons_self ..)
  set P := pts.rotate f with hP
  have hPlen : P.length = pts.length := by rw [hP, List.length_rotate]
  obtain ⟨q0, qrest, hPc⟩ : ∃ q0 qrest, P = q0 :: qrest := by
    cases hc : P with
    | nil => rw [hc] at hPlen; simp at hPlen; omega
    | cons a b => exact ⟨a, b, rfl⟩
  have hq0 : q0.seg ≠ some .move := by
    apply hm0 q0
    have : q0 ∈ P := by rw [hPc]; exact List.mem_cons_self ..
    rw [hP] at this
    exact List.mem_rotate.1 this
  have hPZ : P.rotate 1 = Z.rotate f := by
    rw [hP, hZ, List.rotate_rotate, List.rotate_rotate, Nat.add_comm]
  -- the two lists that get retyped
  set A := Z.take f with hA
  set B := Z.drop f with hB
  have hZAB : Z = A ++ B := (List.take_append_drop f Z).symm
  have hZrot : Z.rotate f = B ++ A := by
    rw [List.rotate_eq_drop_append_take (by omega)]
  have hAlen : A.length = f := by rw [hA, List.length_take]; omega
  obtain ⟨a1, ha1⟩ := firstOnType?_some_of_hasOn (l := Z) (by rw [hZ, hasOn_rotate]; exact hon)
  obtain ⟨a2, ha2⟩ := firstOnType?_some_of_hasOn (l := Z.rotate f) (by rw [hasOn_rotate, hZ, hasOn_rotate]; exact hon)
  have h1 : ∀ x, carry x (B.reverse ++ A.reverse) = a1 := by
    intro x
    have := carry_reverse_of_firstOnType? ha1 x
    rw [hZAB, List.reverse_append] at this
    exact this
  have h2 : ∀ x, carry x (A.reverse ++ B.reverse) = a2 := by
    intro x
    have := carry_reverse_of_firstOnType? ha2 x
    rw [hZrot, List.reverse_append] at this
    exact this
  have honUV : hasOn (B.reverse ++ A.reverse) = true := by
    rw [← List.reverse_append, hasOn_reverse, ← hZAB, hZ, hasOn_rotate]; exact hon
  have hkey := retype_rotate_cyclic B.reverse A.reverse a1 a2 h1 h2 honUV
  have hrev1 : reversePoints pts = retype (some a1) (B.reverse ++ A.reverse) := by
    rw [hpts, reversePoints_closed' p0 rest hp0, ← hpts, ← hZ, ha1]
    rw [hZAB, List.reverse_append]
  have hrev2 : reversePoints P = retype (some a2) (A.reverse ++ B.reverse) := by
    rw [hPc, reversePoints_closed' q0 qrest hq0, ← hPc, hPZ, ha2, hZrot, List.reverse_append]
  refine ⟨pts.length - B.reverse.length, ?_⟩
  rw [hrev2, hkey, ← hrev1, List.rotate_rotate]
  have hlenR : (reversePoints pts).length = pts.length := by
    rw [hrev1, retype_length]
    simp only [List.length_append, List.length_reverse]
    rw [Nat.add_comm, ← List.length_append, ← hZAB, hZlen]
  have hBle : B.reverse.length ≤ pts.length := by
    rw [List.length_reverse, hB, List.length_drop]; omega
  have : B.reverse.length + (pts.length - B.reverse.length) = (reversePoints pts).length := by
    rw [hlenR]; omega
  rw [this, List.rotate_length]

/-- Reversing a closed contour that has an on-curve point negates the signed area AreaPen computes,
wherever the contour starts. -/
theorem reverse_area (pts : List Point) (hm : noMove pts = true) (herr : drawErr pts = none)
    (hon : hasOn pts = true) (h2 : 2 ≤ pts.length) :
    freshArea (reversePoints pts) = - freshArea pts ∧ drawErr (reversePoints pts) = none := by
  -- rotate so that the contour starts with its first on-curve point
  obtain ⟨f, hf⟩ : ∃ f, firstOnCurve? pts = some f := by
    simp only [hasOn, List.any_eq_true] at hon
    obtain ⟨q, hq, hq2⟩ := hon
    obtain ⟨i, hi⟩ := List.getElem?_of_mem hq
    exact exists_firstOnCurve hi hq2
  have hfl := firstOnCurve?_lt_length hf
  obtain ⟨q, hq, hqon⟩ := firstOnCurve?_some hf
  obtain ⟨hA1, hA2, hA3⟩ := freshArea_rotate_any pts hm herr h2 hon f
  set P := pts.rotate f with hP
  have hPlen : P.length = pts.length := by rw [hP, List.length_rotate]
  have hPhead : ∃ rest, P = q :: rest := by
    have : P = pts.drop f ++ pts.take f := by rw [hP, List.rotate_eq_drop_append_take (by omega)]
    rw [List.getElem?_eq_getElem hfl] at hq
    cases hq
    exact ⟨pts.drop (f + 1) ++ pts.take f, by rw [this, List.drop_eq_getElem_cons hfl]; rfl⟩
  obtain ⟨rest, hPc⟩ := hPhead
  have hqs : q.seg ≠ none := by
    cases hs : q.seg with
    | none => simp [Point.onCurve, hs] at hqon
    | some t => simp
  have hrl : 1 ≤ rest.length := by
    have := hPlen
    rw [hPc] at this
    simp at this
    omega
  rw [hPc] at hA1 hA2 hA3
  obtain ⟨hB1, hB2, hB3, hB4⟩ := reverse_area_onStart q rest hqs hrl hA3 hA2
  obtain ⟨j, hj⟩ := reversePoints_rotate pts hm hon f hfl
  rw [← hP, hPc] at hj
  have hRlen : 2 ≤ (reversePoints (q :: rest)).length := by
    rw [reversePoints_closed q rest (by
      simp only [noMove, List.all_eq_true, decide_eq_true_eq] at hA3
      exact hA3 q (List.mem_cons_self ..)), retype_length]
    simp; omega
  obtain ⟨hC1, hC2, _⟩ := freshArea_rotate_any _ hB3 hB2 hRlen hB4 j
  rw [hj, hC1, hB1, hA1]
  exact ⟨rfl, hC2⟩

end Geom
end DefconModel
