/-
M-Geom helper lemmas: the cache layer (`cstep`) answers what the functional definition (`xstep`)
answers, and keeps every cached component / glyph representation equal to a fresh computation.
-/
import DefconModel.Lemmas.Geom.Uses

namespace DefconModel
namespace Geom

/-! ### association lists: filtering and re-keying -/

theorem get?_filter_key {κ α : Type} [DecidableEq κ] (p : κ → Bool) (l : List (κ × α)) (k : κ) :
    AL.get? (l.filter (fun e => p e.1)) k = if p k = true then AL.get? l k else none := by
  induction l with
  | nil => simp
  | cons e r ih =>
    obtain ⟨k', v⟩ := e
    by_cases hp : p k' = true
    · by_cases hk : k' = k
      · subst hk; simp [List.filter_cons, hp]
      · simp [List.filter_cons, hp, hk, ih]
    · by_cases hk : k' = k
      · subst hk; simp [List.filter_cons, hp, ih]
      · simp [List.filter_cons, hp, hk, ih]

theorem set_of_get? {κ α : Type} [DecidableEq κ] {l : List (κ × α)} {k : κ} {v : α} (h : AL.get? l k = some v) :
    AL.set l k v = l := by
  induction l with
  | nil => simp at h
  | cons e r ih =>
    obtain ⟨k', v'⟩ := e
    by_cases hk : k' = k
    · subst hk
      simp only [AL.get?_cons, if_true, Option.some.injEq] at h
      subst h
      simp [AL.set]
    · simp only [AL.get?_cons, hk, if_false] at h
      simp [AL.set, hk, ih h]

theorem get?_isSome_of_mem {κ α : Type} [DecidableEq κ] {l : List (κ × α)} {e : κ × α} (h : e ∈ l) :
    ∃ v, AL.get? l e.1 = some v := by
  induction l with
  | nil => cases h
  | cons e' r ih =>
    obtain ⟨k', v'⟩ := e'
    by_cases hk : k' = e.1
    · exact ⟨v', by simp [hk]⟩
    · rcases List.mem_cons.1 h with rfl | h'
      · exact absurd rfl hk
      · obtain ⟨v, hv⟩ := ih h'
        exact ⟨v, by simp [hk, hv]⟩

theorem get?_rekeyK_new {β : Type} (g new : String) (l : List (KKey × β)) (hnew : ∀ e ∈ l, e.1.1 ≠ new) (j : Nat) :
    AL.get? (l.map (rekeyK g new)) (new, j) = AL.get? l (g, j) := by
  induction l with
  | nil => rfl
  | cons e r ih =>
    obtain ⟨⟨B, i⟩, v⟩ := e
    have hB : B ≠ new := hnew _ (List.mem_cons_self ..)
    have ih' := ih (fun e he => hnew e (List.mem_cons_of_mem _ he))
    by_cases hg : B = g
    · subst hg
      by_cases hij : i = j
      · subst hij; simp [rekeyK]
      · simp [rekeyK, hij, ih']
    · simp [rekeyK, hg, hB, ih']

theorem get?_rekeyK_other {β : Type} (g new : String) (l : List (KKey × β)) (B : String) (hB : B ≠ g) (hB' : B ≠ new)
    (j : Nat) : AL.get? (l.map (rekeyK g new)) (B, j) = AL.get? l (B, j) := by
  induction l with
  | nil => rfl
  | cons e r ih =>
    obtain ⟨⟨B0, i⟩, v⟩ := e
    by_cases hg : B0 = g
    · subst hg
      have h1 : ¬ B0 = B := fun h => hB h.symm
      have h2 : ¬ new = B := fun h => hB' h.symm
      simp [rekeyK, h1, h2, ih]
    · by_cases hb : B0 = B
      · subst hb
        by_cases hij : i = j
        · subst hij; simp [rekeyK, hg]
        · simp [rekeyK, hg, hij, ih]
      · simp [rekeyK, hg, hb, ih]

theorem get?_rekeyK_old {β : Type} (g new : String) (hne : new ≠ g) (l : List (KKey × β)) (j : Nat) :
    AL.get? (l.map (rekeyK g new)) (g, j) = none := by
  induction l with
  | nil => rfl
  | cons e r ih =>
    obtain ⟨⟨B0, i⟩, v⟩ := e
    by_cases hg : B0 = g
    · subst hg; simp [rekeyK, hne, ih]
    · simp [rekeyK, hg, ih]

theorem get?_rekeyA_new {β : Type} (g new : String) (l : List (String × β)) (hnew : ∀ e ∈ l, e.1 ≠ new) :
    AL.get? (l.map (rekeyA g new)) new = AL.get? l g := by
  induction l with
  | nil => rfl
  | cons e r ih =>
    obtain ⟨B, v⟩ := e
    have hB : B ≠ new := hnew _ (List.mem_cons_self ..)
    have ih' := ih (fun e he => hnew e (List.mem_cons_of_mem _ he))
    by_cases hg : B = g
    · subst hg; simp [rekeyA]
    · simp [rekeyA, hg, hB, ih']

theorem get?_rekeyA_other {β : Type} (g new : String) (l : List (String × β)) (B : String) (hB : B ≠ g) (hB' : B ≠ new) :
    AL.get? (l.map (rekeyA g new)) B = AL.get? l B := by
  induction l with
  | nil => rfl
  | cons e r ih =>
    obtain ⟨B0, v⟩ := e
    by_cases hg : B0 = g
    · subst hg
      have h1 : ¬ B0 = B := fun h => hB h.symm
      have h2 : ¬ new = B := fun h => hB' h.symm
      simp [rekeyA, h1, h2, ih]
    · by_cases hb : B0 = B
      · subst hb; simp [rekeyA, hg]
      · simp [rekeyA, hg, hb, ih]

theorem get?_rekeyA_old {β : Type} (g new : String) (hne : new ≠ g) (l : List (String × β)) :
    AL.get? (l.map (rekeyA g new)) g = none := by
  induction l with
  | nil => rfl
  | cons e r ih =>
    obtain ⟨B0, v⟩ := e
    by_cases hg : B0 = g
    · subst hg; simp [rekeyA, hne, ih]
    · simp [rekeyA, hg, ih]

/-! ### worlds -/

theorem get?_putGlyph_self (w : World) (name : String) (g : Glyph) : AL.get? (putGlyph w name g).glyphs name = some g := by
  simp [putGlyph]

theorem get?_putGlyph_ne (w : World) {name m : String} (g : Glyph) (h : name ≠ m) :
    AL.get? (putGlyph w name g).glyphs m = AL.get? w.glyphs m := by
  simp [putGlyph, h]

theorem putGlyph_same {w : World} {name : String} {g : Glyph} (h : AL.get? w.glyphs name = some g) :
    putGlyph w name g = w := by
  unfold putGlyph; rw [set_of_get? h]

theorem get?_dropGlyph (w : World) (name m : String) :
    AL.get? (dropGlyph w name).glyphs m = if m = name then none else AL.get? w.glyphs m := by
  have := get?_filter_key (fun k => decide (k ≠ name)) w.glyphs m
  simp only [dropGlyph]
  rw [this]
  by_cases h : m = name <;> simp [h]

theorem compAt_congr {w w' : World} {key : KKey} (h : AL.get? w'.glyphs key.1 = AL.get? w.glyphs key.1) :
    compAt w' key = compAt w key := by
  simp only [compAt, h]

theorem compAt_of_relO {w w' : World} {key : KKey} {k : Component} (h : RelO (AL.get? w.glyphs key.1) (AL.get? w'.glyphs key.1))
    (hk : compAt w key = some k) : compAt w' key = some k := by
  unfold compAt at hk ⊢
  cases h1 : AL.get? w.glyphs key.1 with
  | none => rw [h1] at hk; cases hk
  | some g =>
    cases h2 : AL.get? w'.glyphs key.1 with
    | none => rw [h1, h2] at h; exact h.elim
    | some g' =>
      rw [h1, h2] at h
      rw [h1] at hk
      simp only at hk ⊢
      rw [h.2]; exact hk

theorem nameIs_false {n m : String} : nameIs n m = false ↔ m ≠ n := by simp [nameIs]
theorem keyOf_false {n : String} {key : KKey} : keyOf n key = false ↔ key.1 ≠ n := by simp [keyOf]

theorem agreeOff_putGlyph (w : World) (name : String) (g : Glyph) : w.AgreeOff (nameIs name) (putGlyph w name g) := by
  intro m hm
  rw [get?_putGlyph_ne w g (fun h => (nameIs_false.1 hm) h.symm)]
  exact RelO.refl _

theorem agreeOff_dropGlyph (w : World) (name : String) : w.AgreeOff (nameIs name) (dropGlyph w name) := by
  intro m hm
  rw [get?_dropGlyph, if_neg (nameIs_false.1 hm)]
  exact RelO.refl _

/-- replacing a glyph by one that draws the same changes nothing for anybody -/
theorem agreeOff_putGlyph_same {w : World} {name : String} {g g' : Glyph} (hg : AL.get? w.glyphs name = some g)
    (h : g.SameOutline g') : w.AgreeOff (fun _ => false) (putGlyph w name g') := by
  intro m _
  by_cases hm : name = m
  · subst hm; rw [get?_putGlyph_self, hg]; exact h
  · rw [get?_putGlyph_ne w g' hm]; exact RelO.refl _

/-! ### valid tables -/

/-- every entry of a component table equals the fresh computation in `w` -/
def KValid (w : World) (fresh : World → Component → Except Err (Option Box)) (l : List (KKey × Option Box)) : Prop :=
  ∀ key v, AL.get? l key = some v → ∃ k, compAt w key = some k ∧ fresh w k = .ok v

def AValid (w : World) (l : List (String × Rat)) : Prop :=
  ∀ n a, AL.get? l n = some a → ∃ g, AL.get? w.glyphs n = some g ∧ g.area w = .ok a

/-- a factory that looks at what the component draws only -/
def FreshCongr (fresh : World → Component → Except Err (Option Box)) : Prop :=
  ∀ (w w' : World) (S : String → Bool) (k : Component), w.AgreeOff S w' → usesK w S k = false → fresh w' k = fresh w k

theorem freshCongr_bounds (o : CurveOracle) : FreshCongr (fun w k => k.bounds o w) :=
  fun _ _ _ _ hw hu => Component.bounds_congr hw hu

theorem freshCongr_cpb : FreshCongr (fun w k => k.cpb w) :=
  fun _ _ _ _ hw hu => Component.cpb_congr hw hu

theorem CWorld.OK.iff (o : CurveOracle) (cw : CWorld) :
    cw.OK o ↔ KValid cw.w (fun w k => k.bounds o w) cw.kb ∧ KValid cw.w (fun w k => k.cpb w) cw.kc ∧ AValid cw.w cw.ga :=
  ⟨fun h => ⟨h.kb, h.kc, h.ga⟩, fun h => ⟨h.1, h.2.1, h.2.2⟩⟩

theorem KValid.nil (w : World) (fresh : World → Component → Except Err (Option Box)) : KValid w fresh [] := by
  intro key v h; simp at h

theorem AValid.nil (w : World) : AValid w [] := by
  intro key v h; simp at h

theorem KValid.evict {fresh : World → Component → Except Err (Option Box)} (hf : FreshCongr fresh) {w w' : World}
    {S : String → Bool} {selfK : KKey → Bool} {l : List (KKey × Option Box)} (h : KValid w fresh l)
    (hw : w.AgreeOff S w')
    (hk : ∀ key k, selfK key = false → compAt w key = some k → compAt w' key = some k) :
    KValid w' fresh (evictK w S selfK l) := by
  intro key v hget
  unfold evictK at hget
  rw [get?_filter_key (fun key => !kEvicted w S selfK key)] at hget
  split at hget
  · rename_i hp
    obtain ⟨k, hk1, hk2⟩ := h key v hget
    simp only [kEvicted, hk1, Bool.not_eq_true', Bool.or_eq_false_iff] at hp
    exact ⟨k, hk key k hp.1 hk1, by rw [hf w w' S k hw hp.2]; exact hk2⟩
  · cases hget

theorem AValid.evict {w w' : World} {S : String → Bool} {selfA : String → Bool} {l : List (String × Rat)}
    (h : AValid w l) (hw : w.AgreeOff S w')
    (hg : ∀ n g, selfA n = false → AL.get? w.glyphs n = some g → ∃ g', AL.get? w'.glyphs n = some g' ∧ g.SameOutline g') :
    AValid w' (evictA w S selfA l) := by
  intro n a hget
  unfold evictA at hget
  rw [get?_filter_key (fun n => !aEvicted w S selfA n)] at hget
  split at hget
  · rename_i hp
    obtain ⟨g, hg1, hg2⟩ := h n a hget
    simp only [aEvicted, hg1, Bool.not_eq_true', Bool.or_eq_false_iff] at hp
    obtain ⟨g', hg1', hso⟩ := hg n g hp.1 hg1
    exact ⟨g', hg1', by rw [Glyph.area_congr hw hso hp.2]; exact hg2⟩
  · cases hget

/-- the tables stay valid when the layer changes into one that draws the same everywhere -/
theorem KValid.transfer {fresh : World → Component → Except Err (Option Box)} (hf : FreshCongr fresh) {w w' : World}
    {l : List (KKey × Option Box)} (h : KValid w fresh l) (hw : w.AgreeOff (fun _ => false) w') : KValid w' fresh l := by
  intro key v hget
  obtain ⟨k, hk1, hk2⟩ := h key v hget
  exact ⟨k, compAt_of_relO (hw key.1 rfl) hk1, by rw [hf w w' _ k hw (usesK_none w k)]; exact hk2⟩

theorem AValid.transfer {w w' : World} {l : List (String × Rat)} (h : AValid w l)
    (hw : w.AgreeOff (fun _ => false) w') : AValid w' l := by
  intro n a hget
  obtain ⟨g, hg1, hg2⟩ := h n a hget
  have hrel := hw n rfl
  rw [hg1] at hrel
  cases h2 : AL.get? w'.glyphs n with
  | none => rw [h2] at hrel; exact hrel.elim
  | some g' =>
    rw [h2] at hrel
    exact ⟨g', rfl, by rw [Glyph.area_congr hw hrel (usesS_none w _ g)]; exact hg2⟩

theorem CWorld.OK.transfer {o : CurveOracle} {cw : CWorld} (h : cw.OK o) {w' : World}
    (hw : cw.w.AgreeOff (fun _ => false) w') : ({ cw with w := w' } : CWorld).OK o :=
  ⟨KValid.transfer (freshCongr_bounds o) h.kb hw, KValid.transfer freshCongr_cpb h.kc hw, AValid.transfer h.ga hw⟩

theorem KValid.set {fresh : World → Component → Except Err (Option Box)} {w : World} {l : List (KKey × Option Box)}
    (h : KValid w fresh l) {key : KKey} {k : Component} {v : Option Box} (hk : compAt w key = some k)
    (hv : fresh w k = .ok v) : KValid w fresh (AL.set l key v) := by
  intro key' v' hget
  rw [AL.get?_set] at hget
  split at hget
  · rename_i heq
    subst heq
    cases hget
    exact ⟨k, hk, hv⟩
  · exact h key' v' hget

theorem CWorld.OK.evict {o : CurveOracle} {cw : CWorld} (h : cw.OK o) {w' : World} {S : String → Bool}
    {selfK : KKey → Bool} {selfA : String → Bool} (hw : cw.w.AgreeOff S w')
    (hk : ∀ key k, selfK key = false → compAt cw.w key = some k → compAt w' key = some k)
    (hg : ∀ n g, selfA n = false → AL.get? cw.w.glyphs n = some g → ∃ g', AL.get? w'.glyphs n = some g' ∧ g.SameOutline g') :
    (cw.evict w' S selfK selfA).OK o :=
  ⟨KValid.evict (freshCongr_bounds o) h.kb hw hk, KValid.evict freshCongr_cpb h.kc hw hk, AValid.evict h.ga hw hg⟩

/-- a mutation of the glyph `name` alone, followed by the eviction for `name` -/
theorem CWorld.OK.evict_put {o : CurveOracle} {cw : CWorld} (h : cw.OK o) (name : String) (g' : Glyph)
    (selfK : KKey → Bool)
    (hk : ∀ j k, selfK (name, j) = false → compAt cw.w (name, j) = some k → g'.components[j]? = some k) :
    (cw.evict (putGlyph cw.w name g') (nameIs name) selfK (nameIs name)).OK o := by
  apply h.evict (agreeOff_putGlyph cw.w name g')
  · intro key k hs hc
    obtain ⟨B, j⟩ := key
    by_cases hB : B = name
    · subst hB
      have := hk j k hs hc
      simp only [compAt, get?_putGlyph_self]
      exact this
    · rw [compAt_congr (get?_putGlyph_ne cw.w g' (fun hh => hB hh.symm))]
      exact hc
  · intro n g hn hg
    rw [get?_putGlyph_ne cw.w g' (fun hh => (nameIs_false.1 hn) hh.symm)]
    exact ⟨g, hg, Glyph.SameOutline.refl g⟩

/-! ### reading through a table -/

theorem getK_spec {κ β : Type} [DecidableEq κ] (caching : Bool) (cache : List (κ × β)) (key : κ) (fresh : Except Err β)
    (hhit : ∀ v, AL.get? cache key = some v → fresh = .ok v) :
    (getK caching cache key fresh).2 = fresh ∧
    ((getK caching cache key fresh).1 = cache ∨
      ∃ v, fresh = .ok v ∧ (getK caching cache key fresh).1 = AL.set cache key v) := by
  unfold getK
  cases h : AL.get? cache key with
  | some v => exact ⟨(hhit v h).symm, Or.inl rfl⟩
  | none =>
    cases fresh with
    | error e => exact ⟨rfl, Or.inl rfl⟩
    | ok v =>
      cases caching
      · exact ⟨rfl, Or.inl rfl⟩
      · exact ⟨rfl, Or.inr ⟨v, rfl, rfl⟩⟩

/-- asking the components through their caches gives what asking their factories gives, and stores
only what the factories give -/
theorem compsFold_spec (caching : Bool) (fresh : Component → Except Err (Option Box)) (name : String)
    (comps : List Component) (P : KKey → Option Box → Prop)
    (hstore : ∀ j k v, comps[j]? = some k → fresh k = .ok v → P (name, j) v)
    (hhit : ∀ j v, P (name, j) v → ∃ k, comps[j]? = some k ∧ fresh k = .ok v) :
    ∀ (ks : List Component) (j : Nat) (table : List (KKey × Option Box)) (acc : Option Box),
      (∀ i, ks[i]? = comps[j + i]?) → (∀ key v, AL.get? table key = some v → P key v) →
      (compsFold caching fresh name table j ks acc).2 = componentsBoxes fresh ks acc ∧
      (∀ key v, AL.get? (compsFold caching fresh name table j ks acc).1 key = some v → P key v) := by
  intro ks
  induction ks with
  | nil => intro j table acc _ hT; exact ⟨rfl, hT⟩
  | cons k ks ih =>
    intro j table acc hks hT
    have hk : comps[j]? = some k := by
      have := hks 0
      simpa using this.symm
    have hh : ∀ v, AL.get? table (name, j) = some v → fresh k = .ok v := by
      intro v hv
      obtain ⟨k', hk', hv'⟩ := hhit j v (hT _ _ hv)
      rw [hk] at hk'
      cases hk'
      exact hv'
    obtain ⟨h2, h1⟩ := getK_spec caching table (name, j) (fresh k) hh
    simp only [compsFold, componentsBoxes]
    cases hgk : getK caching table (name, j) (fresh k) with
    | mk t' r =>
      rw [hgk] at h1 h2
      simp only at h1 h2
      subst h2
      have hT' : ∀ key v, AL.get? t' key = some v → P key v := by
        rcases h1 with rfl | ⟨v, hv, rfl⟩
        · exact hT
        · intro key v' hget
          rw [AL.get?_set] at hget
          split at hget
          · rename_i heq
            subst heq
            cases hget
            exact hstore j k v hk hv
          · exact hT key v' hget
      cases hf : fresh k with
      | error e => exact ⟨rfl, hT'⟩
      | ok b =>
        simp only
        apply ih (j + 1) t' (unionOO acc b) _ hT'
        intro i
        have := hks (i + 1)
        simp only [List.getElem?_cons_succ] at this
        rw [this]
        congr 1
        omega

theorem cGlyphBox_spec (caching : Bool) (getC : Contour → Contour × Except Err (Option Box))
    (fresh : Component → Except Err (Option Box)) (table : List (KKey × Option Box)) (name : String) (gl : Glyph)
    (P : KKey → Option Box → Prop)
    (hstore : ∀ j k v, gl.components[j]? = some k → fresh k = .ok v → P (name, j) v)
    (hhit : ∀ j v, P (name, j) v → ∃ k, gl.components[j]? = some k ∧ fresh k = .ok v)
    (hT : ∀ key v, AL.get? table key = some v → P key v) :
    (cGlyphBox caching getC fresh table name gl).1 = { gl with contours := (contoursBoxes getC gl.contours none).1 } ∧
    (cGlyphBox caching getC fresh table name gl).2.2 =
      thenComponents fresh gl.components (contoursBoxes getC gl.contours none).2 ∧
    (∀ key v, AL.get? (cGlyphBox caching getC fresh table name gl).2.1 key = some v → P key v) := by
  simp only [cGlyphBox]
  cases hr : (contoursBoxes getC gl.contours none).2 with
  | error e => exact ⟨rfl, rfl, hT⟩
  | ok acc =>
    obtain ⟨h1, h2⟩ := compsFold_spec caching fresh name gl.components P hstore hhit gl.components 0 table acc
      (by intro i; simp) hT
    exact ⟨rfl, h1, h2⟩

/-! ### the shape of what the first layer returns -/

theorem onGlyph_none {w : World} {name : String} (f : Glyph → Glyph × Res) (h : AL.get? w.glyphs name = none) :
    onGlyph w name f = (w, .err .key) := by
  simp only [onGlyph, h]

theorem onGlyph_some {w : World} {name : String} (f : Glyph → Glyph × Res) {g : Glyph}
    (h : AL.get? w.glyphs name = some g) : onGlyph w name f = (putGlyph w name (f g).1, (f g).2) := by
  simp only [onGlyph, h]

theorem onContour_none {w : World} {name : String} (i : Nat) (f : Contour → Contour × Res)
    (h : AL.get? w.glyphs name = none) : onContour w name i f = (w, .err .key) := by
  simp only [onContour, h]

theorem onContour_noc {w : World} {name : String} {i : Nat} (f : Contour → Contour × Res) {g : Glyph}
    (h : AL.get? w.glyphs name = some g) (hc : g.contours[i]? = none) : onContour w name i f = (w, .err .index) := by
  simp only [onContour, h, hc]

theorem onContour_some {w : World} {name : String} {i : Nat} (f : Contour → Contour × Res) {g : Glyph} {c : Contour}
    (h : AL.get? w.glyphs name = some g) (hc : g.contours[i]? = some c) :
    onContour w name i f = (putGlyph w name { g with contours := setAt g.contours i (f c).1 }, (f c).2) := by
  simp only [onContour, h, hc, putContour]

theorem set_eq_self_of_getElem? {α : Type} {l : List α} {i : Nat} {a : α} (h : l[i]? = some a) : l.set i a = l := by
  induction l generalizing i with
  | nil => rfl
  | cons b r ih =>
    cases i with
    | zero => simp at h; subst h; rfl
    | succ i => simp at h; simp [ih h]

theorem map_points_setAt {cs : List Contour} {i : Nat} {c c' : Contour} (hc : cs[i]? = some c)
    (hp : c'.points = c.points) : (setAt cs i c').map (·.points) = cs.map (·.points) := by
  simp only [setAt, List.map_set, hp]
  apply set_eq_self_of_getElem?
  simp [hc]

theorem Component.move_zero (k : Component) : k.move 0 0 = k := by
  cases k with
  | mk base t => cases t; simp [Component.move]

theorem map_move_zero (ks : List Component) : ks.map (·.move 0 0) = ks := by
  simp [Component.move_zero]

/-- what a mutation of one glyph has to satisfy for `CWorld.after` -/
def MutOf (cw : CWorld) (r : World × Res) (doEvict : Bool) (name : String) (selfK : KKey → Bool) : Prop :=
  r.1 = cw.w ∨ ∃ g g', AL.get? cw.w.glyphs name = some g ∧ r.1 = putGlyph cw.w name g' ∧
    (doEvict = false → g.SameOutline g') ∧
    (∀ j k, selfK (name, j) = false → g.components[j]? = some k → g'.components[j]? = some k)

theorem CWorld.after_spec {o : CurveOracle} {cw : CWorld} (h : cw.OK o) (r : World × Res) (doEvict : Bool)
    (name : String) (selfK : KKey → Bool) (hr : MutOf cw r doEvict name selfK) :
    (cw.after r doEvict name selfK).1.w = r.1 ∧ (cw.after r doEvict name selfK).2 = r.2 ∧
    (cw.after r doEvict name selfK).1.OK o := by
  unfold CWorld.after
  cases doEvict with
  | false =>
    refine ⟨rfl, rfl, ?_⟩
    simp only [Bool.false_eq_true, if_false]
    rcases hr with hw | ⟨g, g', hg, hw, hso, _⟩
    · rw [hw]; exact h.transfer (World.AgreeOff.refl _ _)
    · rw [hw]; exact h.transfer (agreeOff_putGlyph_same hg (hso rfl))
  | true =>
    refine ⟨rfl, rfl, ?_⟩
    simp only [if_true]
    rcases hr with hw | ⟨g, g', hg, hw, _, hk⟩
    · rw [hw]
      exact h.evict (World.AgreeOff.refl _ _) (fun _ _ _ hc => hc) (fun n g _ hg => ⟨g, hg, Glyph.SameOutline.refl g⟩)
    · rw [hw]
      apply h.evict_put
      intro j k hs hc
      simp only [compAt, hg] at hc
      exact hk j k hs hc

theorem mutOf_onContour (cw : CWorld) (name : String) (i : Nat) (f : Contour → Contour × Res) (doEvict : Bool)
    (selfK : KKey → Bool)
    (hsame : ∀ g c, AL.get? cw.w.glyphs name = some g → g.contours[i]? = some c → doEvict = false →
      (f c).1.points = c.points) :
    MutOf cw (onContour cw.w name i f) doEvict name selfK := by
  cases hg : AL.get? cw.w.glyphs name with
  | none => left; rw [onContour_none i f hg]
  | some g =>
    cases hc : g.contours[i]? with
    | none => left; rw [onContour_noc f hg hc]
    | some c =>
      right
      refine ⟨g, { g with contours := setAt g.contours i (f c).1 }, hg, by rw [onContour_some f hg hc], ?_,
        fun _ _ _ hk => hk⟩
      intro hd
      exact ⟨map_points_setAt hc (hsame g c hg hc hd), rfl⟩

theorem mutOf_onGlyph (cw : CWorld) (name : String) (f : Glyph → Glyph × Res) (doEvict : Bool) (selfK : KKey → Bool)
    (hsame : ∀ g, AL.get? cw.w.glyphs name = some g → doEvict = false → g.SameOutline (f g).1)
    (hkeep : ∀ g j k, AL.get? cw.w.glyphs name = some g → selfK (name, j) = false → g.components[j]? = some k →
      (f g).1.components[j]? = some k) :
    MutOf cw (onGlyph cw.w name f) doEvict name selfK := by
  cases hg : AL.get? cw.w.glyphs name with
  | none => left; rw [onGlyph_none f hg]
  | some g =>
    right
    exact ⟨g, (f g).1, hg, by rw [onGlyph_some f hg], hsame g hg, fun j k => hkeep g j k hg⟩

theorem MutOf.agree {cw : CWorld} {r : World × Res} {name : String} {selfK : KKey → Bool}
    (h : MutOf cw r false name selfK) : cw.w.AgreeOff (fun _ => false) r.1 := by
  rcases h with hw | ⟨g, g', hg, hw, hso, _⟩
  · rw [hw]; exact World.AgreeOff.refl _ _
  · rw [hw]; exact agreeOff_putGlyph_same hg (hso rfl)

/-! ### the cache layer refines the functional definition, operation by operation -/

/-- on this operation the cache layer ends in the same layer, gives the same answer, and keeps its
tables valid -/
def Refines (o : CurveOracle) (cw : CWorld) (op : XOp) : Prop :=
  (cstep o cw op).1.w = (xstep o cw.w op).1 ∧ (cstep o cw op).2 = (xstep o cw.w op).2 ∧ (cstep o cw op).1.OK o

variable {o : CurveOracle} {cw : CWorld}

theorem refines_newGlyph (h : cw.OK o) (name : String) (g : Glyph) : Refines o cw (.base (.newGlyph name g)) := by
  refine ⟨rfl, rfl, ?_⟩
  simp only [cstep]
  apply h.evict_put
  intro j k hs _
  simp [keyOf] at hs

theorem refines_cMove (h : cw.OK o) (g : String) (i : Nat) (dx dy : Rat) :
    Refines o cw (.base (.cMove g i dx dy)) := by
  unfold Refines
  simp only [cstep, xstep]
  apply CWorld.after_spec h
  apply mutOf_onContour cw g i (fun c => (c.move dx dy, .ok))
  intro g0 c hg hc hd
  rw [show step o cw.w (.cMove g i dx dy) = onContour cw.w g i (fun c => (c.move dx dy, .ok)) from rfl,
    onContour_some _ hg hc] at hd
  simp [isOk] at hd

theorem Contour.getArea_points (k : Bool) (c : Contour) : (c.getArea k).1.points = c.points := rfl

theorem refines_cReverse (h : cw.OK o) (g : String) (i : Nat) : Refines o cw (.base (.cReverse g i)) := by
  unfold Refines
  simp only [cstep, xstep]
  apply CWorld.after_spec h
  simp only [step]
  apply mutOf_onContour
  intro g0 c hg hc hd
  rw [onContour_some _ hg hc] at hd
  have hp := Contour.getArea_points cw.w.caching c
  revert hd hp
  cases c.getArea cw.w.caching with
  | mk c1 r =>
    cases r with
    | error e => intro _ hp; exact hp
    | ok a => intro hd; simp [isOk] at hd

theorem setStartPoint_noop {c c' : Contour} {index : Int} (h : c.setStartPoint index = .ok c')
    (hn : (!(decide (onCurveCount c.points < 2) || isOpen c.points)) = false) : c' = c := by
  unfold Contour.setStartPoint at h
  by_cases h1 : onCurveCount c.points < 2
  · rw [if_pos h1] at h; cases h; rfl
  · rw [if_neg h1] at h
    by_cases h2 : isOpen c.points = true
    · rw [if_pos h2] at h; cases h; rfl
    · simp [h1, h2] at hn

theorem refines_cSetStart (h : cw.OK o) (g : String) (i : Nat) (index : Int) :
    Refines o cw (.base (.cSetStart g i index)) := by
  unfold Refines
  simp only [cstep, xstep]
  apply CWorld.after_spec h
  simp only [step]
  apply mutOf_onContour
  intro g0 c hg hc hd
  rw [onContour_some _ hg hc] at hd
  simp only [startRotates, hg, hc] at hd
  revert hd
  cases hss : c.setStartPoint index with
  | error e => intro _; rfl
  | ok c' =>
    intro hd
    simp only [isOk, Bool.true_and] at hd
    simp only
    rw [setStartPoint_noop hss hd]

theorem refines_cSetClockwise (h : cw.OK o) (g : String) (i : Nat) (value : Bool) :
    Refines o cw (.base (.cSetClockwise g i value)) := by
  unfold Refines
  simp only [cstep, xstep]
  apply CWorld.after_spec h
  simp only [step]
  apply mutOf_onContour
  intro g0 c hg hc hd
  rw [onContour_some _ hg hc] at hd
  simp only [clockwiseReverses, hg, hc] at hd
  have hp := Contour.getArea_points cw.w.caching c
  revert hd hp
  unfold Contour.setClockwise
  cases c.getArea cw.w.caching with
  | mk c1 r =>
    cases r with
    | error e => intro _ hp; exact hp
    | ok a =>
      simp only
      by_cases hne : decide (a < 0) ≠ value
      · intro hd; simp [hne, isOk] at hd
      · intro _ hp; simp only [hne, if_false]; exact hp

theorem refines_kMove (h : cw.OK o) (g : String) (j : Nat) (dx dy : Rat) :
    Refines o cw (.base (.kMove g j dx dy)) := by
  unfold Refines
  simp only [cstep, xstep]
  apply CWorld.after_spec h
  simp only [step]
  apply mutOf_onGlyph
  · intro g0 hg hd
    rw [onGlyph_some _ hg] at hd
    revert hd
    cases hk : g0.components[j]? with
    | none => intro _; exact Glyph.SameOutline.refl g0
    | some k =>
      intro hd
      simp only [isOk, Bool.true_and, Bool.not_eq_false', decide_eq_true_eq] at hd
      obtain ⟨rfl, rfl⟩ := hd
      refine ⟨rfl, ?_⟩
      simp only [setAt, Component.move_zero]
      exact set_eq_self_of_getElem? hk
  · intro g0 j' k' _ hs hk'
    have hj : j' ≠ j := by
      intro hh; subst hh; simp [keyIs] at hs
    cases hk : g0.components[j]? with
    | none => exact hk'
    | some k =>
      simp only [setAt]
      rw [List.getElem?_set_ne (fun hh => hj hh.symm)]
      exact hk'

theorem refines_gMove (h : cw.OK o) (g : String) (dx dy : Rat) : Refines o cw (.base (.gMove g dx dy)) := by
  unfold Refines
  simp only [cstep, xstep]
  apply CWorld.after_spec h
  simp only [step]
  apply mutOf_onGlyph
  · intro g0 hg hd
    rw [onGlyph_some _ hg] at hd
    simp only [isOk, Bool.true_and, glyphHas, hg, Bool.or_eq_false_iff, Bool.not_eq_false', Bool.and_eq_false_iff,
      List.isEmpty_iff, decide_eq_true_eq] at hd
    obtain ⟨hc, hk⟩ := hd
    refine ⟨?_, ?_⟩
    · simp [Glyph.move, hc]
    · show g0.components.map (·.move dx dy) = g0.components
      rcases hk with hz | he
      · obtain ⟨rfl, rfl⟩ := hz; exact map_move_zero _
      · rw [he]; rfl
  · intro g0 j k _ hs hk
    by_cases hz : dx = 0 ∧ dy = 0
    · obtain ⟨rfl, rfl⟩ := hz
      show (g0.components.map (·.move 0 0))[j]? = some k
      rw [map_move_zero]; exact hk
    · simp [hz, keyOf] at hs

theorem mutOf_editContour (cw : CWorld) (name : String) (i : Nat) (f0 : List Point → Except Err (List Point)) :
    MutOf cw (editContour cw.w name i f0) (isOk (editContour cw.w name i f0).2) name noKey := by
  unfold editContour
  apply mutOf_onContour
  intro g0 c hg hc hd
  rw [onContour_some _ hg hc] at hd
  revert hd
  cases f0 c.points with
  | error e => intro _; rfl
  | ok pts => intro hd; simp [isOk] at hd

theorem refines_cSetPoint (h : cw.OK o) (g : String) (i j : Nat) (x y : Rat) : Refines o cw (.cSetPoint g i j x y) := by
  unfold Refines
  simp only [cstep, xstep]
  exact CWorld.after_spec h _ _ _ _ (mutOf_editContour cw g i _)

theorem refines_cInsertPoint (h : cw.OK o) (g : String) (i j : Nat) (p : Point) : Refines o cw (.cInsertPoint g i j p) := by
  unfold Refines
  simp only [cstep, xstep]
  exact CWorld.after_spec h _ _ _ _ (mutOf_editContour cw g i _)

theorem refines_cRemovePoint (h : cw.OK o) (g : String) (i j : Nat) : Refines o cw (.cRemovePoint g i j) := by
  unfold Refines
  simp only [cstep, xstep]
  exact CWorld.after_spec h _ _ _ _ (mutOf_editContour cw g i _)

theorem mutOf_editComponent (cw : CWorld) (name : String) (j : Nat) (fk : Component → Component) (changed : Bool)
    (hch : ∀ k, compAt cw.w (name, j) = some k → changed = false → fk k = k) :
    MutOf cw (editComponent cw.w name j fk) (isOk (editComponent cw.w name j fk).2 && changed) name (keyIs name j) := by
  unfold editComponent
  apply mutOf_onGlyph
  · intro g0 hg hd
    rw [onGlyph_some _ hg] at hd
    revert hd
    cases hk : g0.components[j]? with
    | none => intro _; exact Glyph.SameOutline.refl g0
    | some k =>
      intro hd
      simp only [isOk, Bool.true_and] at hd
      have hc : compAt cw.w (name, j) = some k := by simp [compAt, hg, hk]
      refine ⟨rfl, ?_⟩
      simp only [setAt, hch k hc hd]
      exact set_eq_self_of_getElem? hk
  · intro g0 j' k' _ hs hk'
    have hj : j' ≠ j := by
      intro hh; subst hh; simp [keyIs] at hs
    cases hk : g0.components[j]? with
    | none => exact hk'
    | some k =>
      simp only [setAt]
      rw [List.getElem?_set_ne (fun hh => hj hh.symm)]
      exact hk'

theorem refines_kSetT (h : cw.OK o) (g : String) (j : Nat) (t : Transform) : Refines o cw (.kSetT g j t) := by
  unfold Refines
  simp only [cstep, xstep]
  apply CWorld.after_spec h
  apply mutOf_editComponent
  intro k hk hc
  rw [hk] at hc
  simp only [Option.any_some, decide_eq_false_iff_not, not_not] at hc
  cases k; simp_all

theorem refines_kSetBase (h : cw.OK o) (g : String) (j : Nat) (b : String) : Refines o cw (.kSetBase g j b) := by
  unfold Refines
  simp only [cstep, xstep]
  apply CWorld.after_spec h
  apply mutOf_editComponent
  intro k hk hc
  rw [hk] at hc
  simp only [Option.any_some, decide_eq_false_iff_not, not_not] at hc
  cases k; simp_all

/-! ### reads -/

theorem AValid.set {w : World} {l : List (String × Rat)} (h : AValid w l) {n : String} {g : Glyph} {a : Rat}
    (hg : AL.get? w.glyphs n = some g) (ha : g.area w = .ok a) : AValid w (AL.set l n a) := by
  intro n' a' hget
  rw [AL.get?_set] at hget
  split at hget
  · rename_i heq
    subst heq
    cases hget
    exact ⟨g, hg, ha⟩
  · exact h n' a' hget

theorem compAt_eq {w : World} {name : String} {gl : Glyph} (hg : AL.get? w.glyphs name = some gl) (j : Nat) :
    compAt w (name, j) = gl.components[j]? := by
  simp [compAt, hg]

theorem refines_kBounds (h : cw.OK o) (g : String) (j : Nat) : Refines o cw (.base (.kBounds g j)) := by
  unfold Refines
  simp only [cstep, xstep, step]
  cases hg : AL.get? cw.w.glyphs g with
  | none => rw [onGlyph_none _ hg]; exact ⟨rfl, rfl, h⟩
  | some gl =>
    rw [onGlyph_some _ hg]
    try simp only []
    cases hk : gl.components[j]? with
    | none => exact ⟨(putGlyph_same hg).symm, rfl, h⟩
    | some k =>
      simp only []
      have hh : ∀ v, AL.get? cw.kb (g, j) = some v → k.bounds o cw.w = .ok v := by
        intro v hv
        obtain ⟨k', hk', hv'⟩ := h.kb _ _ hv
        rw [compAt_eq hg, hk] at hk'
        cases hk'
        exact hv'
      obtain ⟨h2, h1⟩ := getK_spec cw.w.caching cw.kb (g, j) (k.bounds o cw.w) hh
      refine ⟨(putGlyph_same hg).symm, by rw [h2], ?_⟩
      refine ⟨?_, h.kc, h.ga⟩
      rcases h1 with h1 | ⟨v, hv, h1⟩
      · show KValid cw.w _ _
        rw [h1]; exact h.kb
      · show KValid cw.w _ _
        rw [h1]
        exact KValid.set h.kb (by rw [compAt_eq hg, hk]) hv

theorem refines_kCpb (h : cw.OK o) (g : String) (j : Nat) : Refines o cw (.base (.kCpb g j)) := by
  unfold Refines
  simp only [cstep, xstep, step]
  cases hg : AL.get? cw.w.glyphs g with
  | none => rw [onGlyph_none _ hg]; exact ⟨rfl, rfl, h⟩
  | some gl =>
    rw [onGlyph_some _ hg]
    try simp only []
    cases hk : gl.components[j]? with
    | none => exact ⟨(putGlyph_same hg).symm, rfl, h⟩
    | some k =>
      simp only []
      have hh : ∀ v, AL.get? cw.kc (g, j) = some v → k.cpb cw.w = .ok v := by
        intro v hv
        obtain ⟨k', hk', hv'⟩ := h.kc _ _ hv
        rw [compAt_eq hg, hk] at hk'
        cases hk'
        exact hv'
      obtain ⟨h2, h1⟩ := getK_spec cw.w.caching cw.kc (g, j) (k.cpb cw.w) hh
      refine ⟨(putGlyph_same hg).symm, by rw [h2], ?_⟩
      refine ⟨h.kb, ?_, h.ga⟩
      rcases h1 with h1 | ⟨v, hv, h1⟩
      · show KValid cw.w _ _
        rw [h1]; exact h.kc
      · show KValid cw.w _ _
        rw [h1]
        exact KValid.set h.kc (by rw [compAt_eq hg, hk]) hv

theorem refines_gArea (h : cw.OK o) (g : String) : Refines o cw (.base (.gArea g)) := by
  unfold Refines
  simp only [cstep, xstep, step]
  cases hg : AL.get? cw.w.glyphs g with
  | none => rw [onGlyph_none _ hg]; exact ⟨rfl, rfl, h⟩
  | some gl =>
    rw [onGlyph_some _ hg]
    try simp only []
    have hh : ∀ a, AL.get? cw.ga g = some a → gl.area cw.w = .ok a := by
      intro a ha
      obtain ⟨g', hg', ha'⟩ := h.ga _ _ ha
      rw [hg] at hg'
      cases hg'
      exact ha'
    obtain ⟨h2, h1⟩ := getK_spec cw.w.caching cw.ga g (gl.area cw.w) hh
    refine ⟨(putGlyph_same hg).symm, by rw [h2], ?_⟩
    refine ⟨h.kb, h.kc, ?_⟩
    rcases h1 with h1 | ⟨v, hv, h1⟩
    · show AValid cw.w _
      rw [h1]; exact h.ga
    · show AValid cw.w _
      rw [h1]
      exact AValid.set h.ga hg hv

theorem contoursBoxes_points (get : Contour → Contour × Except Err (Option Box))
    (hget : ∀ c, (get c).1.points = c.points) (cs : List Contour) (acc : Option Box) :
    (contoursBoxes get cs acc).1.map (·.points) = cs.map (·.points) := by
  induction cs generalizing acc with
  | nil => rfl
  | cons c cs ih =>
    simp only [contoursBoxes]
    have h0 := hget c
    cases hg : get c with
    | mk c' r =>
      rw [hg] at h0
      simp only at h0
      cases r with
      | error e => simp [h0]
      | ok b => simp [h0, ih]

/-- reading the glyph-level boxes through the tables: same glyph, same answer as the functional
definition, tables still valid -/
theorem cGlyphBounds_spec (h : cw.OK o) {name : String} {gl : Glyph} (hg : AL.get? cw.w.glyphs name = some gl) :
    (cGlyphBounds o cw name gl).1 = (gl.getBounds o cw.w).1 ∧
    (cGlyphBounds o cw name gl).2.2 = (gl.getBounds o cw.w).2 ∧
    KValid cw.w (fun w k => k.bounds o w) (cGlyphBounds o cw name gl).2.1 ∧
    gl.SameOutline (cGlyphBounds o cw name gl).1 := by
  have := cGlyphBox_spec cw.w.caching (Contour.getBounds o cw.w.caching) (Component.bounds o cw.w) cw.kb name gl
    (fun key v => ∃ k, compAt cw.w key = some k ∧ k.bounds o cw.w = .ok v)
    (fun j k v hk hv => ⟨k, by rw [compAt_eq hg, hk], hv⟩)
    (fun j v hp => by
      obtain ⟨k, hk, hv⟩ := hp
      rw [compAt_eq hg] at hk
      exact ⟨k, hk, hv⟩)
    h.kb
  obtain ⟨h1, h2, h3⟩ := this
  refine ⟨h1, h2, h3, ?_⟩
  unfold cGlyphBounds
  rw [h1]
  exact ⟨contoursBoxes_points _ (fun _ => rfl) _ _, rfl⟩

theorem cGlyphCpb_spec (h : cw.OK o) {name : String} {gl : Glyph} (hg : AL.get? cw.w.glyphs name = some gl) :
    (cGlyphCpb cw name gl).1 = (gl.getCpb cw.w).1 ∧
    (cGlyphCpb cw name gl).2.2 = (gl.getCpb cw.w).2 ∧
    KValid cw.w (fun w k => k.cpb w) (cGlyphCpb cw name gl).2.1 ∧
    gl.SameOutline (cGlyphCpb cw name gl).1 := by
  have := cGlyphBox_spec cw.w.caching (Contour.getCpb cw.w.caching) (Component.cpb cw.w) cw.kc name gl
    (fun key v => ∃ k, compAt cw.w key = some k ∧ k.cpb cw.w = .ok v)
    (fun j k v hk hv => ⟨k, by rw [compAt_eq hg, hk], hv⟩)
    (fun j v hp => by
      obtain ⟨k, hk, hv⟩ := hp
      rw [compAt_eq hg] at hk
      exact ⟨k, hk, hv⟩)
    h.kc
  obtain ⟨h1, h2, h3⟩ := this
  refine ⟨h1, h2, h3, ?_⟩
  unfold cGlyphCpb
  rw [h1]
  exact ⟨contoursBoxes_points _ (fun _ => rfl) _ _, rfl⟩

/-- the state after a read of glyph-level bounds: new component table, contour caches filled -/
theorem ok_after_boundsRead (h : cw.OK o) {name : String} {gl g1 : Glyph} {kb : List (KKey × Option Box)}
    (hg : AL.get? cw.w.glyphs name = some gl) (hkb : KValid cw.w (fun w k => k.bounds o w) kb)
    (hso : gl.SameOutline g1) : ({ cw with w := putGlyph cw.w name g1, kb := kb } : CWorld).OK o := by
  have h1 : ({ cw with kb := kb } : CWorld).OK o := ⟨hkb, h.kc, h.ga⟩
  exact h1.transfer (agreeOff_putGlyph_same hg hso)

theorem ok_after_cpbRead (h : cw.OK o) {name : String} {gl g1 : Glyph} {kc : List (KKey × Option Box)}
    (hg : AL.get? cw.w.glyphs name = some gl) (hkc : KValid cw.w (fun w k => k.cpb w) kc)
    (hso : gl.SameOutline g1) : ({ cw with w := putGlyph cw.w name g1, kc := kc } : CWorld).OK o := by
  have h1 : ({ cw with kc := kc } : CWorld).OK o := ⟨h.kb, hkc, h.ga⟩
  exact h1.transfer (agreeOff_putGlyph_same hg hso)

theorem refines_gBounds (h : cw.OK o) (g : String) : Refines o cw (.base (.gBounds g)) := by
  unfold Refines
  simp only [cstep, xstep, step]
  cases hg : AL.get? cw.w.glyphs g with
  | none => rw [onGlyph_none _ hg]; exact ⟨rfl, rfl, h⟩
  | some gl =>
    rw [onGlyph_some _ hg]
    try simp only []
    obtain ⟨h1, h2, h3, h4⟩ := cGlyphBounds_spec h hg
    refine ⟨by rw [h1], by rw [h2], ?_⟩
    exact ok_after_boundsRead h hg h3 h4

theorem refines_gCpb (h : cw.OK o) (g : String) : Refines o cw (.base (.gCpb g)) := by
  unfold Refines
  simp only [cstep, xstep, step]
  cases hg : AL.get? cw.w.glyphs g with
  | none => rw [onGlyph_none _ hg]; exact ⟨rfl, rfl, h⟩
  | some gl =>
    rw [onGlyph_some _ hg]
    try simp only []
    obtain ⟨h1, h2, h3, h4⟩ := cGlyphCpb_spec h hg
    refine ⟨by rw [h1], by rw [h2], ?_⟩
    exact ok_after_cpbRead h hg h3 h4

theorem refines_gMargins (h : cw.OK o) (g : String) : Refines o cw (.base (.gMargins g)) := by
  unfold Refines
  simp only [cstep, xstep, step]
  cases hg : AL.get? cw.w.glyphs g with
  | none => rw [onGlyph_none _ hg]; exact ⟨rfl, rfl, h⟩
  | some gl =>
    rw [onGlyph_some _ hg]
    try simp only []
    obtain ⟨h1, h2, h3, h4⟩ := cGlyphBounds_spec h hg
    revert h1 h2 h3 h4
    cases cGlyphBounds o cw g gl with
    | mk g1 rest =>
      cases rest with
      | mk kb r =>
        intro h1 h2 h3 h4
        simp only at h1 h2 h3 h4
        cases hr : gl.getBounds o cw.w with
        | mk g1' r' =>
          rw [hr] at h1 h2
          simp only at h1 h2
          subst h1 h2
          cases r with
          | error e => exact ⟨rfl, rfl, ok_after_boundsRead h hg h3 h4⟩
          | ok b => exact ⟨rfl, rfl, ok_after_boundsRead h hg h3 h4⟩

/-! ### the margin setters -/

theorem cWithBounds_spec (h : cw.OK o) (name : String) (f : Glyph → Option Box → Glyph) (moves : Option Box → Bool)
    (hf : ∀ g1 b, moves b = false → (f g1 b).contours = g1.contours ∧ (f g1 b).components = g1.components) :
    (cWithBounds o cw name f moves).1.w = (withBounds o cw.w name f).1 ∧
    (cWithBounds o cw name f moves).2 = (withBounds o cw.w name f).2 ∧
    (cWithBounds o cw name f moves).1.OK o := by
  unfold cWithBounds withBounds
  cases hg : AL.get? cw.w.glyphs name with
  | none => rw [onGlyph_none _ hg]; exact ⟨rfl, rfl, h⟩
  | some gl =>
    rw [onGlyph_some _ hg]
    try simp only []
    obtain ⟨h1, h2, h3, h4⟩ := cGlyphBounds_spec h hg
    revert h1 h2 h3 h4
    cases cGlyphBounds o cw name gl with
    | mk g1 rest =>
      cases rest with
      | mk kb r =>
        intro h1 h2 h3 h4
        simp only at h1 h2 h3 h4
        cases hr : gl.getBounds o cw.w with
        | mk g1' r' =>
          rw [hr] at h1 h2
          simp only at h1 h2
          subst h1 h2
          cases r with
          | error e => exact ⟨rfl, rfl, ok_after_boundsRead h hg h3 h4⟩
          | ok b =>
            simp only
            have hcw1 : ({ cw with kb := kb } : CWorld).OK o := ⟨h3, h.kc, h.ga⟩
            cases hm : moves b with
            | true =>
              refine ⟨rfl, rfl, ?_⟩
              simp only [if_true]
              apply CWorld.OK.evict_put hcw1
              intro j k hs _
              simp [keyOf] at hs
            | false =>
              refine ⟨rfl, rfl, ?_⟩
              simp only [Bool.false_eq_true, if_false]
              obtain ⟨hc, hk⟩ := hf g1 b hm
              have hso : gl.SameOutline (f g1 b) := ⟨by rw [hc]; exact h4.1, by rw [hk]; exact h4.2⟩
              exact hcw1.transfer (agreeOff_putGlyph_same hg hso)

theorem refines_setLeft (h : cw.OK o) (g : String) (v : Rat) : Refines o cw (.base (.setLeft g v)) := by
  unfold Refines
  simp only [cstep, xstep, step]
  apply cWithBounds_spec h
  intro g1 b hm
  cases b with
  | none => exact ⟨rfl, rfl⟩
  | some bx =>
    simp only [leftMoves, decide_eq_false_iff_not, not_not] at hm
    simp [setLeftMargin, hm]

theorem refines_setRight (h : cw.OK o) (g : String) (v : Rat) : Refines o cw (.base (.setRight g v)) := by
  unfold Refines
  simp only [cstep, xstep, step]
  apply cWithBounds_spec h
  intro g1 b _
  exact ⟨(setRightMargin_outline g1 b v).1, (setRightMargin_outline g1 b v).2.1⟩

theorem refines_setBottom (h : cw.OK o) (g : String) (v : Rat) : Refines o cw (.base (.setBottom g v)) := by
  unfold Refines
  simp only [cstep, xstep, step]
  apply cWithBounds_spec h
  intro g1 b _
  exact ⟨(setBottomMargin_outline g1 b v).1, (setBottomMargin_outline g1 b v).2.1⟩

theorem refines_setTop (h : cw.OK o) (g : String) (v : Rat) : Refines o cw (.base (.setTop g v)) := by
  unfold Refines
  simp only [cstep, xstep, step]
  apply cWithBounds_spec h
  intro g1 b _
  exact ⟨(setTopMargin_outline g1 b v).1, (setTopMargin_outline g1 b v).2.1⟩

/-! ### operations that leave every outline alone -/

theorem refines_of_agree (h : cw.OK o) (op : Op)
    (hc : cstep o cw (.base op) = ({ cw with w := (step o cw.w op).1 }, (step o cw.w op).2))
    (ha : cw.w.AgreeOff (fun _ => false) (step o cw.w op).1) : Refines o cw (.base op) := by
  unfold Refines
  rw [hc]
  exact ⟨rfl, rfl, h.transfer ha⟩

theorem agree_onContour (w : World) (name : String) (i : Nat) (f : Contour → Contour × Res)
    (hf : ∀ c, (f c).1.points = c.points) : w.AgreeOff (fun _ => false) (onContour w name i f).1 :=
  (mutOf_onContour { w := w } name i f false noKey (fun _ c _ _ _ => hf c)).agree

theorem agree_onGlyph (w : World) (name : String) (f : Glyph → Glyph × Res)
    (hf : ∀ g : Glyph, g.SameOutline (f g).1) : w.AgreeOff (fun _ => false) (onGlyph w name f).1 :=
  (mutOf_onGlyph { w := w } name f false noKey (fun g _ _ => hf g) (fun g j k _ _ hk => by
    rw [(hf g).2]; exact hk)).agree

/-! ### deleting and renaming -/

theorem get?_cases (w : World) (g : String) :
    AL.get? w.glyphs g = none ∨ ∃ gl, AL.get? w.glyphs g = some gl := by
  cases AL.get? w.glyphs g with
  | none => exact Or.inl rfl
  | some gl => exact Or.inr ⟨gl, rfl⟩

theorem refines_gDelete (h : cw.OK o) (g : String) : Refines o cw (.gDelete g) := by
  unfold Refines
  simp only [cstep, xstep]
  rcases get?_cases cw.w g with hg | ⟨gl, hg⟩
  · simp only [hg, isOk, Bool.false_eq_true, if_false]
    exact ⟨trivial, trivial, h⟩
  · simp only [hg, isOk, if_true]
    refine ⟨rfl, trivial, ?_⟩
    apply h.evict (agreeOff_dropGlyph cw.w g)
    · intro key k hs hc
      rw [compAt_congr (w := cw.w)]
      · exact hc
      · rw [get?_dropGlyph, if_neg (keyOf_false.1 hs)]
    · intro n g0 hn hg0
      rw [get?_dropGlyph, if_neg (nameIs_false.1 hn)]
      exact ⟨g0, hg0, Glyph.SameOutline.refl g0⟩

theorem evictK_get? {w : World} {S : String → Bool} {selfK : KKey → Bool} {l : List (KKey × Option Box)} {key : KKey}
    {v : Option Box} (h : AL.get? (evictK w S selfK l) key = some v) :
    AL.get? l key = some v ∧ kEvicted w S selfK key = false := by
  unfold evictK at h
  rw [get?_filter_key (fun key => !kEvicted w S selfK key)] at h
  split at h
  · rename_i hp
    exact ⟨h, by simpa using hp⟩
  · cases h

theorem evictA_get? {w : World} {S : String → Bool} {selfA : String → Bool} {l : List (String × Rat)} {n : String}
    {a : Rat} (h : AL.get? (evictA w S selfA l) n = some a) :
    AL.get? l n = some a ∧ aEvicted w S selfA n = false := by
  unfold evictA at h
  rw [get?_filter_key (fun n => !aEvicted w S selfA n)] at h
  split at h
  · rename_i hp
    exact ⟨h, by simpa using hp⟩
  · cases h

theorem mem_evictK {w : World} {S : String → Bool} {selfK : KKey → Bool} {l : List (KKey × Option Box)}
    {e : KKey × Option Box} (h : e ∈ evictK w S selfK l) : e ∈ l := (List.mem_filter.1 h).1

theorem mem_evictA {w : World} {S : String → Bool} {selfA : String → Bool} {l : List (String × Rat)}
    {e : String × Rat} (h : e ∈ evictA w S selfA l) : e ∈ l := (List.mem_filter.1 h).1

/-- the world after renaming `g` (holding `gl`) to the unused name `new` -/
theorem agreeOff_rename (w : World) (g new : String) (gl : Glyph) :
    w.AgreeOff (nameIn2 g new) (putGlyph (dropGlyph w g) new gl) := by
  intro m hm
  simp only [nameIn2, decide_eq_false_iff_not, not_or] at hm
  rw [get?_putGlyph_ne _ gl (fun hh => hm.2 hh.symm), get?_dropGlyph, if_neg hm.1]
  exact RelO.refl _

theorem KValid.rename {fresh : World → Component → Except Err (Option Box)} (hf : FreshCongr fresh) {w : World}
    {l : List (KKey × Option Box)} (h : KValid w fresh l) {g new : String} {gl : Glyph}
    (hg : AL.get? w.glyphs g = some gl) (hnew : AL.get? w.glyphs new = none) (hne : new ≠ g) :
    KValid (putGlyph (dropGlyph w g) new gl) fresh ((evictK w (nameIn2 g new) noKey l).map (rekeyK g new)) := by
  have hw := agreeOff_rename w g new gl
  have hmem : ∀ e ∈ evictK w (nameIn2 g new) noKey l, e.1.1 ≠ new := by
    intro e he hh
    obtain ⟨v, hv⟩ := get?_isSome_of_mem (mem_evictK he)
    obtain ⟨k, hk, _⟩ := h _ _ hv
    simp only [compAt, hh, hnew] at hk
    cases hk
  intro key v hget
  obtain ⟨B, j⟩ := key
  -- the entry under its old key
  have key_fact : ∀ B0, AL.get? (evictK w (nameIn2 g new) noKey l) (B0, j) = some v →
      ∃ k, compAt w (B0, j) = some k ∧ fresh (putGlyph (dropGlyph w g) new gl) k = .ok v := by
    intro B0 h0
    obtain ⟨h1, h2⟩ := evictK_get? h0
    obtain ⟨k, hk1, hk2⟩ := h _ _ h1
    simp only [kEvicted, hk1, noKey, Bool.false_or] at h2
    exact ⟨k, hk1, by rw [hf w _ _ k hw h2]; exact hk2⟩
  by_cases hB : B = new
  · subst hB
    rw [get?_rekeyK_new g B _ hmem j] at hget
    obtain ⟨k, hk1, hk2⟩ := key_fact g hget
    refine ⟨k, ?_, hk2⟩
    rw [compAt_eq hg] at hk1
    rw [compAt_eq (get?_putGlyph_self _ _ _)]
    exact hk1
  · by_cases hBg : B = g
    · subst hBg
      rw [get?_rekeyK_old B new hne] at hget
      cases hget
    · rw [get?_rekeyK_other g new _ B hBg hB j] at hget
      obtain ⟨k, hk1, hk2⟩ := key_fact B hget
      refine ⟨k, ?_, hk2⟩
      rw [compAt_congr (w := w)]
      · exact hk1
      · show AL.get? (putGlyph (dropGlyph w g) new gl).glyphs B = AL.get? w.glyphs B
        rw [get?_putGlyph_ne _ gl (fun hh => hB hh.symm), get?_dropGlyph, if_neg hBg]

theorem AValid.rename {w : World} {l : List (String × Rat)} (h : AValid w l) {g new : String} {gl : Glyph}
    (hg : AL.get? w.glyphs g = some gl) (hnew : AL.get? w.glyphs new = none) (hne : new ≠ g) :
    AValid (putGlyph (dropGlyph w g) new gl) ((evictA w (nameIn2 g new) (fun _ => false) l).map (rekeyA g new)) := by
  have hw := agreeOff_rename w g new gl
  have hmem : ∀ e ∈ evictA w (nameIn2 g new) (fun _ => false) l, e.1 ≠ new := by
    intro e he hh
    obtain ⟨v, hv⟩ := get?_isSome_of_mem (mem_evictA he)
    obtain ⟨g0, hg0, _⟩ := h _ _ hv
    rw [hh, hnew] at hg0
    cases hg0
  have key_fact : ∀ B0 a, AL.get? (evictA w (nameIn2 g new) (fun _ => false) l) B0 = some a →
      ∃ g0, AL.get? w.glyphs B0 = some g0 ∧ g0.area (putGlyph (dropGlyph w g) new gl) = .ok a := by
    intro B0 a h0
    obtain ⟨h1, h2⟩ := evictA_get? h0
    obtain ⟨g0, hg1, hg2⟩ := h _ _ h1
    simp only [aEvicted, hg1, Bool.false_or] at h2
    exact ⟨g0, hg1, by rw [Glyph.area_congr hw (Glyph.SameOutline.refl g0) h2]; exact hg2⟩
  intro B a hget
  by_cases hB : B = new
  · subst hB
    rw [get?_rekeyA_new g B _ hmem] at hget
    obtain ⟨g0, hg1, hg2⟩ := key_fact g a hget
    rw [hg] at hg1
    cases hg1
    exact ⟨gl, get?_putGlyph_self _ _ _, hg2⟩
  · by_cases hBg : B = g
    · subst hBg
      rw [get?_rekeyA_old B new hne] at hget
      cases hget
    · rw [get?_rekeyA_other g new _ B hBg hB] at hget
      obtain ⟨g0, hg1, hg2⟩ := key_fact B a hget
      refine ⟨g0, ?_, hg2⟩
      rw [get?_putGlyph_ne _ gl (fun hh => hB hh.symm), get?_dropGlyph, if_neg hBg]
      exact hg1

theorem refines_gRename (h : cw.OK o) (g new : String) : Refines o cw (.gRename g new) := by
  unfold Refines
  simp only [cstep, xstep]
  rcases get?_cases cw.w g with hg | ⟨gl, hg⟩
  · simp only [hg, isOk, Bool.false_and, Bool.false_eq_true, if_false]
    exact ⟨trivial, trivial, h.transfer (World.AgreeOff.refl _ _)⟩
  · by_cases hne : new = g
    · simp only [hg, hne, if_true, isOk, ne_eq, not_true_eq_false, decide_false, Bool.and_false, Bool.false_eq_true,
        if_false]
      exact ⟨trivial, trivial, h.transfer (World.AgreeOff.refl _ _)⟩
    · rcases get?_cases cw.w new with hn | ⟨g2, hn⟩
      · simp only [hg, hn, hne, if_false, Option.isSome_none, Bool.false_eq_true, isOk, ne_eq, not_false_eq_true,
          decide_true, Bool.and_self, if_true]
        exact ⟨trivial, trivial, KValid.rename (freshCongr_bounds o) h.kb hg hn hne,
          KValid.rename freshCongr_cpb h.kc hg hn hne, AValid.rename h.ga hg hn hne⟩
      · simp only [hg, hn, hne, if_false, Option.isSome_some, if_true, isOk, Bool.false_and, Bool.false_eq_true]
        exact ⟨trivial, trivial, h.transfer (World.AgreeOff.refl _ _)⟩

/-! ### every operation, every history -/

theorem cstep_refines (h : cw.OK o) (op : XOp) : Refines o cw op := by
  cases op with
  | base op =>
    cases op with
    | newGlyph name g => exact refines_newGlyph h name g
    | cBounds g i => exact refines_of_agree h _ rfl (agree_onContour _ _ _ _ (fun _ => rfl))
    | cCpb g i => exact refines_of_agree h _ rfl (agree_onContour _ _ _ _ (fun _ => rfl))
    | cArea g i => exact refines_of_agree h _ rfl (agree_onContour _ _ _ _ (fun _ => rfl))
    | cOpen g i => exact refines_of_agree h _ rfl (agree_onContour _ _ _ _ (fun _ => rfl))
    | cPoints g i => exact refines_of_agree h _ rfl (agree_onContour _ _ _ _ (fun _ => rfl))
    | cSegments g i => exact refines_of_agree h _ rfl (agree_onContour _ _ _ _ (fun _ => rfl))
    | kBounds g j => exact refines_kBounds h g j
    | kCpb g j => exact refines_kCpb h g j
    | kTransform g j =>
      refine refines_of_agree h _ rfl (agree_onGlyph _ _ _ (fun gl => ?_))
      cases gl.components[j]? <;> exact Glyph.SameOutline.refl gl
    | gBounds g => exact refines_gBounds h g
    | gCpb g => exact refines_gCpb h g
    | gArea g => exact refines_gArea h g
    | gMargins g => exact refines_gMargins h g
    | gMetrics g => exact refines_of_agree h _ rfl (agree_onGlyph _ _ _ (fun gl => Glyph.SameOutline.refl gl))
    | gAnchors g => exact refines_of_agree h _ rfl (agree_onGlyph _ _ _ (fun gl => Glyph.SameOutline.refl gl))
    | gImage g => exact refines_of_agree h _ rfl (agree_onGlyph _ _ _ (fun gl => Glyph.SameOutline.refl gl))
    | cMove g i dx dy => exact refines_cMove h g i dx dy
    | cReverse g i => exact refines_cReverse h g i
    | cSetStart g i index => exact refines_cSetStart h g i index
    | cSetClockwise g i value => exact refines_cSetClockwise h g i value
    | kMove g j dx dy => exact refines_kMove h g j dx dy
    | aMove g j dx dy =>
      refine refines_of_agree h _ rfl (agree_onGlyph _ _ _ (fun gl => ?_))
      cases gl.anchors[j]? <;> exact ⟨rfl, rfl⟩
    | iMove g dx dy => exact refines_of_agree h _ rfl (agree_onGlyph _ _ _ (fun gl => ⟨rfl, rfl⟩))
    | gMove g dx dy => exact refines_gMove h g dx dy
    | setLeft g v => exact refines_setLeft h g v
    | setRight g v => exact refines_setRight h g v
    | setBottom g v => exact refines_setBottom h g v
    | setTop g v => exact refines_setTop h g v
    | setWidth g v => exact refines_of_agree h _ rfl (agree_onGlyph _ _ _ (fun gl => ⟨rfl, rfl⟩))
    | setHeight g v => exact refines_of_agree h _ rfl (agree_onGlyph _ _ _ (fun gl => ⟨rfl, rfl⟩))
    | setVO g v => exact refines_of_agree h _ rfl (agree_onGlyph _ _ _ (fun gl => ⟨rfl, rfl⟩))
  | cSetPoint g i j x y => exact refines_cSetPoint h g i j x y
  | cInsertPoint g i j p => exact refines_cInsertPoint h g i j p
  | cRemovePoint g i j => exact refines_cRemovePoint h g i j
  | kSetT g j t => exact refines_kSetT h g j t
  | kSetBase g j b => exact refines_kSetBase h g j b
  | gDelete g => exact refines_gDelete h g
  | gRename g new => exact refines_gRename h g new

theorem CWorld.OK.empty (o : CurveOracle) (w : World) : ({ w := w } : CWorld).OK o :=
  ⟨KValid.nil _ _, KValid.nil _ _, AValid.nil _⟩

theorem crun_refines (h : cw.OK o) (ops : List XOp) :
    (crun o cw ops).1.w = (xrun o cw.w ops).1 ∧ (crun o cw ops).2 = (xrun o cw.w ops).2 ∧ (crun o cw ops).1.OK o := by
  induction ops generalizing cw with
  | nil => exact ⟨rfl, rfl, h⟩
  | cons op ops ih =>
    obtain ⟨h1, h2, h3⟩ := cstep_refines h op
    obtain ⟨i1, i2, i3⟩ := ih h3
    simp only [crun, xrun]
    rw [h1] at i1 i2
    exact ⟨i1, by rw [h2, i2], i3⟩

end Geom
end DefconModel
