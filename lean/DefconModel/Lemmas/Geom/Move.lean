/-
M-Geom helper lemmas: translating a point list translates everything a pen sees of it.
-/
import DefconModel.Lemmas.Geom.Shape

namespace DefconModel
namespace Geom

def Segm.shift (dx dy : Rat) (s : Segm) : Segm := { s with pts := s.pts.map (·.shift dx dy) }

def Call.shift (dx dy : Rat) : Call → Call
  | .moveTo p => .moveTo (p.shift dx dy)
  | .lineTo p => .lineTo (p.shift dx dy)
  | .curveTo pts => .curveTo (pts.map (·.shift dx dy))
  | .qCurveTo pts blob => .qCurveTo (pts.map (·.shift dx dy)) blob
  | .closePath => .closePath
  | .endPath => .endPath

def Prim.shift (dx dy : Rat) : Prim → Prim
  | .moveTo p => .moveTo (p.shift dx dy)
  | .lineTo p => .lineTo (p.shift dx dy)
  | .curveTo a b p => .curveTo (a.shift dx dy) (b.shift dx dy) (p.shift dx dy)
  | .qCurveTo a p => .qCurveTo (a.shift dx dy) (p.shift dx dy)
  | .closePath => .closePath
  | .endPath => .endPath

variable (dx dy : Rat)

@[simp] theorem Point.move_seg (p : Point) : (p.move dx dy).seg = p.seg := rfl
@[simp] theorem Point.move_pt (p : Point) : (p.move dx dy).pt = p.pt.shift dx dy := rfl
@[simp] theorem Point.move_onCurve (p : Point) : (p.move dx dy).onCurve = p.onCurve := rfl

theorem firstOnCurve?_move (pts : List Point) :
    firstOnCurve? (pts.map (·.move dx dy)) = firstOnCurve? pts := by
  induction pts with
  | nil => rfl
  | cons p ps ih => simp [firstOnCurve?, ih]

theorem group_move (acc : List Pt) (pts : List Point) :
    group (acc.map (·.shift dx dy)) (pts.map (·.move dx dy)) = (group acc pts).map (Segm.shift dx dy) := by
  induction pts generalizing acc with
  | nil => simp [group]
  | cons p ps ih =>
    simp only [List.map_cons]
    unfold group
    simp only [Point.move_seg]
    cases h : p.seg with
    | none =>
      simp only
      have := ih (acc ++ [p.pt])
      simpa using this
    | some t =>
      simp only [List.map_cons]
      have := ih []
      simp only [List.map_nil] at this
      rw [this]
      simp [Segm.shift]

theorem toSegments_move (pts : List Point) :
    toSegments (pts.map (·.move dx dy)) = (toSegments pts).map (List.map (Segm.shift dx dy)) := by
  match pts with
  | [] => rfl
  | [p] => simp [toSegments, Segm.shift]
  | p0 :: p1 :: rest =>
    have hg := group_move dx dy [] (p1 :: rest)
    simp only [List.map_nil, List.map_cons] at hg
    have hf := firstOnCurve?_move dx dy (p0 :: p1 :: rest)
    simp only [List.map_cons] at hf
    simp only [List.map_cons, toSegments, Point.move_seg, hf]
    split
    · simp [hg, Segm.shift]
    · cases h : firstOnCurve? (p0 :: p1 :: rest) with
      | none => simp [Segm.shift]
      | some i =>
        simp only [Option.map_some]
        have := group_move dx dy [] (List.drop (i + 1) (p0 :: p1 :: rest) ++ List.take (i + 1) (p0 :: p1 :: rest))
        simp only [List.map_nil, List.map_append, List.map_drop, List.map_take, List.map_cons] at this
        rw [this]

theorem beq_shift (pt : Pt) (lp : Option Pt) :
    (some (pt.shift dx dy) == lp.map (·.shift dx dy)) = (some pt == lp) := by
  cases lp with
  | none => rfl
  | some q =>
    simp only [Option.map_some]
    rw [Bool.eq_iff_iff]
    simp [Pt.shift_inj]

theorem Segm.endPt_shift (s : Segm) : (s.shift dx dy).endPt = s.endPt.map (·.shift dx dy) := by
  unfold Segm.endPt Segm.shift
  split <;> simp [List.getLast?_map]

theorem flushLoop_move (closed : Bool) (lp : Option Pt) (segs : List Segm) :
    flushLoop closed (lp.map (·.shift dx dy)) (segs.map (Segm.shift dx dy)) =
      (flushLoop closed lp segs).map (Call.shift dx dy) := by
  induction segs generalizing lp with
  | nil => simp [flushLoop]
  | cons s rest ih =>
    simp only [List.map_cons]
    unfold flushLoop
    have hty : (s.shift dx dy).ty = s.ty := rfl
    rw [hty]
    cases hs : s.ty with
    | line =>
      simp only
      have hl : (s.shift dx dy).pts.getLast? = s.pts.getLast?.map (·.shift dx dy) := by
        simp [Segm.shift, List.getLast?_map]
      rw [hl]
      cases hp : s.pts.getLast? with
      | none => simpa using ih lp
      | some pt =>
        simp only [Option.map_some, beq_shift, List.isEmpty_map]
        split
        · simp only [List.map_cons, Call.shift]
          have := ih (some pt)
          simp only [Option.map_some] at this
          rw [this]
        · exact ih lp
    | curve =>
      simp only [List.map_cons]
      rw [Segm.endPt_shift, ih]
      simp [Call.shift, Segm.shift]
    | qcurve =>
      simp only [List.map_cons]
      rw [Segm.endPt_shift, ih]
      simp [Call.shift, Segm.shift]
    | move => simpa using ih lp

theorem moveCall_shift (mp : Option Pt) :
    moveCall (mp.map (·.shift dx dy)) = (moveCall mp).map (Call.shift dx dy) := by
  cases mp <;> simp [moveCall, Call.shift]

theorem flush_nil : flush [] = [] := rfl

theorem flush_open_none (s0 : Segm) (rest : List Segm) (h : s0.ty = .move) (hp : s0.pts.getLast? = none) :
    flush (s0 :: rest) = [] := by
  simp [flush, h, hp]

theorem flush_move (segs : List Segm) :
    flush (segs.map (Segm.shift dx dy)) = (flush segs).map (Call.shift dx dy) := by
  match segs with
  | [] => rfl
  | s0 :: rest =>
    simp only [List.map_cons]
    have hty : (s0.shift dx dy).ty = s0.ty := rfl
    have hl : (s0.shift dx dy).pts.getLast? = s0.pts.getLast?.map (·.shift dx dy) := by
      simp [Segm.shift, List.getLast?_map]
    by_cases hm : s0.ty = .move
    · cases hp : s0.pts.getLast? with
      | none =>
        rw [flush_open_none s0 rest hm hp, flush_open_none _ _ (hty.trans hm) (by rw [hl, hp]; rfl)]
        rfl
      | some mp =>
        rw [flush_open s0 rest hm mp hp, flush_open _ _ (hty.trans hm) (mp.shift dx dy) (by rw [hl, hp]; rfl)]
        simp only [List.map_cons, List.map_append, List.map_nil, Call.shift]
        have := flushLoop_move dx dy false (some mp) rest
        simp only [Option.map_some] at this
        rw [this]
    · have he : ((s0.shift dx dy :: List.map (Segm.shift dx dy) rest).getLast?.bind Segm.endPt) =
          ((s0 :: rest).getLast?.bind Segm.endPt).map (·.shift dx dy) := by
        have : (s0.shift dx dy :: List.map (Segm.shift dx dy) rest) = (s0 :: rest).map (Segm.shift dx dy) := by simp
        rw [this, List.getLast?_map]
        cases (s0 :: rest).getLast? with
        | none => rfl
        | some sl => simp [Segm.endPt_shift]
      rw [flush_closed s0 rest hm, flush_closed _ _ (by rw [hty]; exact hm), he, moveCall_shift]
      have := flushLoop_move dx dy true ((s0 :: rest).getLast?.bind Segm.endPt) (s0 :: rest)
      simp only [List.map_cons] at this
      rw [this]
      simp [Call.shift]

theorem drawCalls_move (pts : List Point) :
    drawCalls (pts.map (·.move dx dy)) = (drawCalls pts).map (Call.shift dx dy) := by
  unfold drawCalls
  rw [toSegments_move]
  cases toSegments pts with
  | none => rfl
  | some segs => simp [flush_move]

theorem mid_shift (a b : Pt) : mid (a.shift dx dy) (b.shift dx dy) = (mid a b).shift dx dy := by
  simp only [mid, Pt.shift, Pt.mk.injEq]
  constructor <;> ring

theorem decomposeQuad_shift (pts : List Pt) :
    decomposeQuad (pts.map (·.shift dx dy)) =
      (decomposeQuad pts).map (fun ab => (ab.1.shift dx dy, ab.2.shift dx dy)) := by
  match pts with
  | [] => rfl
  | [_] => rfl
  | [a, b] => rfl
  | a :: b :: c :: rest =>
    have ih := decomposeQuad_shift (b :: c :: rest)
    simp only [List.map_cons] at ih
    simp only [List.map_cons, decomposeQuad, ih, mid_shift]

theorem expandQ_shift (pts : List Pt) :
    expandQ (pts.map (·.shift dx dy)) = (expandQ pts).map (Prim.shift dx dy) := by
  match pts with
  | [] => rfl
  | [p] => rfl
  | a :: b :: rest =>
    have := decomposeQuad_shift dx dy (a :: b :: rest)
    simp only [List.map_cons] at this
    simp only [List.map_cons, expandQ, this, List.map_map]
    apply List.map_congr_left
    intro ab _
    rfl

theorem expandCall_shift (c : Call) :
    expandCall (c.shift dx dy) = (expandCall c).map (Prim.shift dx dy) := by
  cases c with
  | moveTo p => rfl
  | lineTo p => rfl
  | closePath => rfl
  | endPath => rfl
  | curveTo pts =>
    match pts with
    | [] => rfl
    | [p] => rfl
    | [a, p] => exact expandQ_shift dx dy [a, p]
    | [a, b, p] => rfl
    | a :: b :: c :: d :: rest => rfl
  | qCurveTo pts blob =>
    cases blob with
    | false => simpa [Call.shift, expandCall] using expandQ_shift dx dy pts
    | true =>
      simp only [Call.shift, expandCall, if_true, List.getLast?_map, List.head?_map]
      cases hl : pts.getLast? with
      | none => rfl
      | some l =>
        cases hh : pts.head? with
        | none => rfl
        | some f =>
          simp only [Option.map_some, mid_shift, List.map_cons, Prim.shift]
          have := expandQ_shift dx dy (pts ++ [mid l f])
          simp only [List.map_append, List.map_cons, List.map_nil] at this
          rw [this]

theorem expand_shift (cs : List Call) :
    expand (cs.map (Call.shift dx dy)) = (expand cs).map (Prim.shift dx dy) := by
  induction cs with
  | nil => rfl
  | cons c cs ih => simp only [List.map_cons, expand_cons, ih, expandCall_shift, List.map_append]

/-- translating the points translates every primitive the pens receive -/
theorem prims_move (pts : List Point) :
    prims (pts.map (·.move dx dy)) = (prims pts).map (Prim.shift dx dy) := by
  unfold prims
  rw [drawCalls_move, expand_shift]

theorem segsBad_shift (first : Bool) (segs : List Segm) :
    segsBad first (segs.map (Segm.shift dx dy)) = segsBad first segs := by
  induction segs generalizing first with
  | nil => rfl
  | cons s rest ih =>
    simp only [List.map_cons, segsBad]
    have : (s.shift dx dy).bad first = s.bad first := by
      simp [Segm.bad, Segm.shift]
    rw [this, ih]

theorem drawErr_move (pts : List Point) : drawErr (pts.map (·.move dx dy)) = drawErr pts := by
  unfold drawErr
  rw [toSegments_move]
  cases toSegments pts with
  | none => rfl
  | some segs => simp [segsBad_shift]

end Geom
end DefconModel
