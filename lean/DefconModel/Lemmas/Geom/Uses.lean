/-
M-Geom helper lemmas: what a glyph sends to a pen depends only on the glyphs its components reach
(by name, through every nesting level), and only on their point lists and components.
-/
import DefconModel.Spec.GeomCache
import DefconModel.Lemmas.Geom.Glyph

namespace DefconModel
namespace Geom

theorem Glyph.SameOutline.refl (g : Glyph) : g.SameOutline g := ⟨rfl, rfl⟩

theorem Glyph.SameOutline.symm {g g' : Glyph} (h : g.SameOutline g') : g'.SameOutline g := ⟨h.1.symm, h.2.symm⟩

theorem Glyph.SameOutline.trans {a b c : Glyph} (h1 : a.SameOutline b) (h2 : b.SameOutline c) : a.SameOutline c :=
  ⟨h2.1.trans h1.1, h2.2.trans h1.2⟩

theorem RelO.refl (a : Option Glyph) : RelO a a := by
  cases a with
  | none => trivial
  | some g => exact Glyph.SameOutline.refl g

theorem RelO.symm {a b : Option Glyph} (h : RelO a b) : RelO b a := by
  cases a <;> cases b <;> first | trivial | exact h.elim | exact Glyph.SameOutline.symm h

theorem World.AgreeOff.refl (S : String → Bool) (w : World) : w.AgreeOff S w := fun m _ => RelO.refl _

theorem World.AgreeOff.symm {S : String → Bool} {w w' : World} (h : w.AgreeOff S w') : w'.AgreeOff S w :=
  fun m hm => (h m hm).symm

/-! ### drawing looks at the point lists only -/

def contoursErrP : List (List Point) → Option Err
  | [] => none
  | pts :: r => match drawErr pts with
    | some e => some e
    | none => contoursErrP r

theorem contoursErr_eq (cs : List Contour) : contoursErr cs = contoursErrP (cs.map (·.points)) := by
  induction cs with
  | nil => rfl
  | cons c cs ih =>
    simp only [contoursErr, List.map_cons, contoursErrP, ih]
    cases drawErr c.points <;> rfl

theorem flatMap_drawCalls_eq (cs : List Contour) :
    cs.flatMap (fun c => drawCalls c.points) = (cs.map (·.points)).flatMap drawCalls := by
  induction cs with
  | nil => rfl
  | cons c cs ih => simp only [List.flatMap_cons, List.map_cons, ih]

theorem ownCalls_congr (t : Option Transform) {g g' : Glyph} (h : g.SameOutline g') : ownCalls t g' = ownCalls t g := by
  unfold ownCalls
  rw [contoursErr_eq g'.contours, contoursErr_eq g.contours, flatMap_drawCalls_eq g'.contours,
    flatMap_drawCalls_eq g.contours, h.1]

/-! ### … and at the glyphs that are reached -/

theorem usesS_succ_false {w : World} {S : String → Bool} {f : Nat} {g : Glyph} (h : usesS w S (f + 1) g = false) :
    ∀ k ∈ g.components, S k.base = false ∧
      ∀ bg, AL.get? w.glyphs k.base = some bg → usesS w S f bg = false := by
  intro k hk
  simp only [usesS, List.any_eq_false] at h
  have hk' := h k hk
  simp only [Bool.or_eq_true, not_or, Bool.not_eq_true] at hk'
  refine ⟨hk'.1, ?_⟩
  intro bg hbg
  have := hk'.2
  rw [hbg] at this
  exact this

theorem foldl_compStep_congr {w w' : World} {rec rec' : Option Transform → Glyph → Except Err (List Call)}
    (t : Option Transform) (ks : List Component)
    (h : ∀ k ∈ ks, ∀ acc, compStep w' rec' t acc k = compStep w rec t acc k) (acc : Except Err (List Call)) :
    ks.foldl (compStep w' rec' t) acc = ks.foldl (compStep w rec t) acc := by
  induction ks generalizing acc with
  | nil => rfl
  | cons k ks ih =>
    simp only [List.foldl_cons]
    rw [h k (List.mem_cons_self ..) acc]
    exact ih (fun k' hk' => h k' (List.mem_cons_of_mem _ hk')) _

/-- Two layers that agree off `S` make a glyph that reaches no name of `S` send the same calls. -/
theorem glyphCalls_congr {w w' : World} {S : String → Bool} (hw : w.AgreeOff S w') (f : Nat) :
    ∀ (t : Option Transform) (g g' : Glyph), g.SameOutline g' → usesS w S f g = false →
      glyphCalls w' f t g' = glyphCalls w f t g := by
  induction f with
  | zero => intro t g g' _ _; rfl
  | succ f ih =>
    intro t g g' hg hu
    simp only [glyphCalls]
    rw [ownCalls_congr t hg, hg.2]
    apply foldl_compStep_congr
    intro k hk acc
    obtain ⟨hS, hrec⟩ := usesS_succ_false hu k hk
    have hrel := hw k.base hS
    cases acc with
    | error e => rfl
    | ok cs =>
      simp only [compStep]
      cases h1 : AL.get? w.glyphs k.base with
      | none =>
        cases h2 : AL.get? w'.glyphs k.base with
        | none => rfl
        | some bg' => rw [h1, h2] at hrel; exact hrel.elim
      | some bg =>
        cases h2 : AL.get? w'.glyphs k.base with
        | none => rw [h1, h2] at hrel; exact hrel.elim
        | some bg' =>
          rw [h1, h2] at hrel
          simp only
          rw [ih _ bg bg' hrel (hrec bg h1)]

theorem usesK_false {w : World} {S : String → Bool} {k : Component} (h : usesK w S k = false) :
    S k.base = false ∧ ∀ bg, AL.get? w.glyphs k.base = some bg → usesS w S fuelDefault bg = false := by
  simp only [usesK, Bool.or_eq_false_iff] at h
  refine ⟨h.1, ?_⟩
  intro bg hbg
  have := h.2
  rw [hbg] at this
  exact this

/-- … the same for what a component draws -/
theorem componentCalls_congr {w w' : World} {S : String → Bool} (hw : w.AgreeOff S w') {k : Component}
    (hu : usesK w S k = false) : componentCalls w' k = componentCalls w k := by
  obtain ⟨hS, hrec⟩ := usesK_false hu
  have hrel := hw k.base hS
  unfold componentCalls
  cases h1 : AL.get? w.glyphs k.base with
  | none =>
    cases h2 : AL.get? w'.glyphs k.base with
    | none => rfl
    | some bg' => rw [h1, h2] at hrel; exact hrel.elim
  | some bg =>
    cases h2 : AL.get? w'.glyphs k.base with
    | none => rw [h1, h2] at hrel; exact hrel.elim
    | some bg' =>
      rw [h1, h2] at hrel
      exact glyphCalls_congr hw _ _ bg bg' hrel (hrec bg h1)

theorem Component.bounds_congr {o : CurveOracle} {w w' : World} {S : String → Bool} (hw : w.AgreeOff S w')
    {k : Component} (hu : usesK w S k = false) : k.bounds o w' = k.bounds o w := by
  unfold Component.bounds; rw [componentCalls_congr hw hu]

theorem Component.cpb_congr {w w' : World} {S : String → Bool} (hw : w.AgreeOff S w')
    {k : Component} (hu : usesK w S k = false) : k.cpb w' = k.cpb w := by
  unfold Component.cpb; rw [componentCalls_congr hw hu]

theorem Glyph.area_congr {w w' : World} {S : String → Bool} (hw : w.AgreeOff S w') {g g' : Glyph}
    (hg : g.SameOutline g') (hu : usesS w S fuelDefault g = false) : g'.area w' = g.area w := by
  unfold Glyph.area; rw [glyphCalls_congr hw _ _ g g' hg hu]

/-! ### nothing is reached in the empty set -/

theorem usesS_none (w : World) (f : Nat) (g : Glyph) : usesS w (fun _ => false) f g = false := by
  induction f generalizing g with
  | zero => rfl
  | succ f ih =>
    simp only [usesS, List.any_eq_false, Bool.false_or]
    intro k _
    cases AL.get? w.glyphs k.base with
    | none => simp
    | some bg => simp [ih bg]

theorem usesK_none (w : World) (k : Component) : usesK w (fun _ => false) k = false := by
  simp only [usesK, Bool.false_or]
  cases AL.get? w.glyphs k.base with
  | none => rfl
  | some bg => exact usesS_none w _ bg

end Geom
end DefconModel
