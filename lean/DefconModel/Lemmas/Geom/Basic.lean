/-
M-Geom helper lemmas: min/max, boxes.
-/
import DefconModel.Geom
import DefconModel.Spec.Geom
import Mathlib.Tactic.Ring
import Mathlib.Tactic.Linarith

namespace DefconModel
namespace Geom

theorem mn_le_left (a b : Rat) : mn a b ≤ a := by unfold mn; split_ifs <;> linarith
theorem mn_le_right (a b : Rat) : mn a b ≤ b := by unfold mn; split_ifs <;> linarith
theorem le_mn {a b c : Rat} (h1 : c ≤ a) (h2 : c ≤ b) : c ≤ mn a b := by unfold mn; split_ifs <;> linarith
theorem le_mx_left (a b : Rat) : a ≤ mx a b := by unfold mx; split_ifs <;> linarith
theorem le_mx_right (a b : Rat) : b ≤ mx a b := by unfold mx; split_ifs <;> linarith
theorem mx_le {a b c : Rat} (h1 : a ≤ c) (h2 : b ≤ c) : mx a b ≤ c := by unfold mx; split_ifs <;> linarith
theorem mn_add (a b d : Rat) : mn (a + d) (b + d) = mn a b + d := by unfold mn; split_ifs <;> linarith
theorem mx_add (a b d : Rat) : mx (a + d) (b + d) = mx a b + d := by unfold mx; split_ifs <;> linarith
theorem mn_comm (a b : Rat) : mn a b = mn b a := by unfold mn; split_ifs <;> linarith
theorem mx_comm (a b : Rat) : mx a b = mx b a := by unfold mx; split_ifs <;> linarith
theorem mn_assoc (a b c : Rat) : mn (mn a b) c = mn a (mn b c) := by
  unfold mn; split_ifs <;> linarith
theorem mx_assoc (a b c : Rat) : mx (mx a b) c = mx a (mx b c) := by
  unfold mx; split_ifs <;> linarith
theorem mn_eq_left {a b : Rat} (h : a ≤ b) : mn a b = a := by unfold mn; simp [h]
theorem mx_eq_left {a b : Rat} (h : b ≤ a) : mx a b = a := by
  unfold mx; split_ifs <;> linarith

/-! ### boxes -/

theorem Box.has_ofPt (p : Pt) : (Box.ofPt p).Has p := by
  simp [Box.Has, Box.ofPt]

theorem Box.has_add_self (b : Box) (p : Pt) : (b.add p).Has p :=
  ⟨mn_le_right _ _, le_mx_right _ _, mn_le_right _ _, le_mx_right _ _⟩

theorem Box.has_add_of_has {b : Box} {q : Pt} (p : Pt) (h : b.Has q) : (b.add p).Has q :=
  ⟨le_trans (mn_le_left _ _) h.1, le_trans h.2.1 (le_mx_left _ _),
   le_trans (mn_le_left _ _) h.2.2.1, le_trans h.2.2.2 (le_mx_left _ _)⟩

theorem Box.within_refl (b : Box) : b.Within b := ⟨le_refl _, le_refl _, le_refl _, le_refl _⟩

theorem Box.within_trans {a b c : Box} (h1 : a.Within b) (h2 : b.Within c) : a.Within c :=
  ⟨le_trans h2.1 h1.1, le_trans h1.2.1 h2.2.1, le_trans h2.2.2.1 h1.2.2.1, le_trans h1.2.2.2 h2.2.2.2⟩

theorem Box.has_of_within {a b : Box} {p : Pt} (h : a.Within b) (hp : a.Has p) : b.Has p :=
  ⟨le_trans h.1 hp.1, le_trans hp.2.1 h.2.1, le_trans h.2.2.1 hp.2.2.1, le_trans hp.2.2.2 h.2.2.2⟩

theorem Box.within_add (b : Box) (p : Pt) : b.Within (b.add p) :=
  ⟨mn_le_left _ _, le_mx_left _ _, mn_le_left _ _, le_mx_left _ _⟩

theorem Box.add_within {b c : Box} {p : Pt} (h : b.Within c) (hp : c.Has p) : (b.add p).Within c :=
  ⟨le_mn h.1 hp.1, mx_le h.2.1 hp.2.1, le_mn h.2.2.1 hp.2.2.1, mx_le h.2.2.2 hp.2.2.2⟩

theorem Box.within_union_left (a b : Box) : a.Within (a.union b) :=
  ⟨mn_le_left _ _, le_mx_left _ _, mn_le_left _ _, le_mx_left _ _⟩

theorem Box.within_union_right (a b : Box) : b.Within (a.union b) :=
  ⟨mn_le_right _ _, le_mx_right _ _, mn_le_right _ _, le_mx_right _ _⟩

theorem Box.union_within {a b c : Box} (h1 : a.Within c) (h2 : b.Within c) : (a.union b).Within c :=
  ⟨le_mn h1.1 h2.1, mx_le h1.2.1 h2.2.1, le_mn h1.2.2.1 h2.2.2.1, mx_le h1.2.2.2 h2.2.2.2⟩

theorem Box.ofPt_within {c : Box} {p : Pt} (hp : c.Has p) : (Box.ofPt p).Within c :=
  ⟨hp.1, hp.2.1, hp.2.2.1, hp.2.2.2⟩

theorem Box.contains_iff (b : Box) (p : Pt) : b.contains p = true ↔ b.Has p := by
  simp [Box.contains, Box.Has, and_assoc]

theorem Box.shift_add (b : Box) (p : Pt) (dx dy : Rat) :
    (b.add p).shift dx dy = (b.shift dx dy).add (p.shift dx dy) := by
  simp [Box.add, Box.shift, Pt.shift, mn_add, mx_add]

theorem Box.shift_union (a b : Box) (dx dy : Rat) :
    (a.union b).shift dx dy = (a.shift dx dy).union (b.shift dx dy) := by
  simp [Box.union, Box.shift, mn_add, mx_add]

theorem Box.shift_ofPt (p : Pt) (dx dy : Rat) : (Box.ofPt p).shift dx dy = Box.ofPt (p.shift dx dy) := by
  simp [Box.ofPt, Box.shift, Pt.shift]

theorem Box.has_shift {b : Box} {p : Pt} (dx dy : Rat) : (b.shift dx dy).Has (p.shift dx dy) ↔ b.Has p := by
  simp [Box.Has, Box.shift, Pt.shift]

theorem Box.contains_shift (b : Box) (p : Pt) (dx dy : Rat) :
    (b.shift dx dy).contains (p.shift dx dy) = b.contains p := by
  rw [Bool.eq_iff_iff, Box.contains_iff, Box.contains_iff, Box.has_shift]

theorem Pt.shift_inj {p q : Pt} {dx dy : Rat} : p.shift dx dy = q.shift dx dy ↔ p = q := by
  constructor
  · intro h
    cases p; cases q
    simp [Pt.shift] at h
    simp [h.1, h.2]
  · intro h; rw [h]

end Geom
end DefconModel
