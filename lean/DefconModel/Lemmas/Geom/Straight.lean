/-
M-Geom helper lemmas: on an outline without off-curve points BoundsPen and ControlBoundsPen agree.
-/
import DefconModel.Lemmas.Geom.Move

namespace DefconModel
namespace Geom

def Prim.straight : Prim → Bool
  | .curveTo _ _ _ => false
  | .qCurveTo _ _ => false
  | _ => true

def Call.straight : Call → Bool
  | .curveTo pts => decide (pts.length = 1)
  | .qCurveTo pts blob => decide (pts.length = 1) && !blob
  | _ => true

theorem bndStep_straight (o : CurveOracle) (st : BndSt) (pr : Prim) (h : pr.straight = true) :
    (bndStep o st pr).box = ctrlStep st.box pr := by
  cases pr <;> simp [Prim.straight] at h <;> rfl

theorem bndFold_straight (o : CurveOracle) (ps : List Prim) (h : ∀ pr ∈ ps, pr.straight = true) (st : BndSt) :
    (ps.foldl (bndStep o) st).box = ps.foldl ctrlStep st.box := by
  induction ps generalizing st with
  | nil => rfl
  | cons pr ps ih =>
    simp only [List.foldl_cons]
    rw [ih (fun q hq => h q (List.mem_cons_of_mem _ hq)), bndStep_straight o st pr (h pr (List.mem_cons_self ..))]

theorem expandCall_straight (c : Call) (h : c.straight = true) : ∀ pr ∈ expandCall c, pr.straight = true := by
  cases c with
  | moveTo p => intro pr hp; simp [expandCall] at hp; subst hp; rfl
  | lineTo p => intro pr hp; simp [expandCall] at hp; subst hp; rfl
  | closePath => intro pr hp; simp [expandCall] at hp; subst hp; rfl
  | endPath => intro pr hp; simp [expandCall] at hp; subst hp; rfl
  | curveTo pts =>
    simp only [Call.straight, decide_eq_true_eq] at h
    match pts, h with
    | [p], _ => intro pr hp; simp [expandCall] at hp; subst hp; rfl
  | qCurveTo pts blob =>
    simp only [Call.straight, Bool.and_eq_true, decide_eq_true_eq, Bool.not_eq_true'] at h
    obtain ⟨h1, h2⟩ := h
    subst h2
    match pts, h1 with
    | [p], _ => intro pr hp; simp [expandCall, expandQ] at hp; subst hp; rfl

theorem expand_straight (cs : List Call) (h : ∀ c ∈ cs, c.straight = true) : ∀ pr ∈ expand cs, pr.straight = true := by
  intro pr hp
  simp only [expand, List.mem_flatMap] at hp
  obtain ⟨c, hc, hp⟩ := hp
  exact expandCall_straight c (h c hc) pr hp

theorem group_allOn (pts : List Point) (h : allOn pts = true) :
    ∀ s ∈ group [] pts, s.pts.length = 1 ∧ s.blob = false := by
  induction pts with
  | nil => simp [group]
  | cons p ps ih =>
    simp only [allOn, List.all_cons, Bool.and_eq_true] at h
    rw [group.eq_2]
    cases hs : p.seg with
    | none => simp [Point.onCurve, hs] at h
    | some t =>
      intro s hsm
      simp only [List.mem_cons] at hsm
      rcases hsm with rfl | hsm
      · simp
      · exact ih (by simpa [allOn] using h.2) s hsm

theorem flushLoop_straight (closed : Bool) (lp : Option Pt) (segs : List Segm)
    (h : ∀ s ∈ segs, s.pts.length = 1 ∧ s.blob = false) : ∀ c ∈ flushLoop closed lp segs, c.straight = true := by
  induction segs generalizing lp with
  | nil => simp [flushLoop]
  | cons s rest ih =>
    have hr : ∀ q ∈ rest, q.pts.length = 1 ∧ q.blob = false := fun q hq => h q (List.mem_cons_of_mem _ hq)
    obtain ⟨hl, hb⟩ := h s (List.mem_cons_self ..)
    rw [flushLoop.eq_2]
    cases hty : s.ty with
    | move => exact ih _ hr
    | line =>
      simp only
      cases s.pts.getLast? with
      | none => exact ih _ hr
      | some pt =>
        simp only
        split
        · intro c hc
          rcases List.mem_cons.1 hc with rfl | hc
          · rfl
          · exact ih _ hr c hc
        · exact ih _ hr
    | curve =>
      intro c hc
      rcases List.mem_cons.1 hc with rfl | hc
      · simp [Call.straight, hl]
      · exact ih _ hr c hc
    | qcurve =>
      intro c hc
      rcases List.mem_cons.1 hc with rfl | hc
      · simp [Call.straight, hl, hb]
      · exact ih _ hr c hc

theorem flush_straight (segs : List Segm) (h : ∀ s ∈ segs, s.pts.length = 1 ∧ s.blob = false) :
    ∀ c ∈ flush segs, c.straight = true := by
  match segs with
  | [] => simp [flush]
  | s0 :: rest =>
    by_cases hm : s0.ty = .move
    · cases hp : s0.pts.getLast? with
      | none => rw [flush_open_none s0 rest hm hp]; simp
      | some mp =>
        rw [flush_open s0 rest hm mp hp]
        intro c hc
        rcases List.mem_cons.1 hc with rfl | hc
        · rfl
        · rcases List.mem_append.1 hc with hc | hc
          · exact flushLoop_straight _ _ _ (fun q hq => h q (List.mem_cons_of_mem _ hq)) c hc
          · simp at hc; subst hc; rfl
    · rw [flush_closed s0 rest hm]
      intro c hc
      rcases List.mem_append.1 hc with hc | hc
      · rcases List.mem_append.1 hc with hc | hc
        · cases he : (s0 :: rest).getLast?.bind Segm.endPt with
          | none => rw [he] at hc; simp [moveCall] at hc
          | some e => rw [he] at hc; simp [moveCall] at hc; subst hc; rfl
        · exact flushLoop_straight _ _ _ h c hc
      · simp at hc; subst hc; rfl

theorem allOn_firstOnCurve (p : Point) (ps : List Point) (h : allOn (p :: ps) = true) :
    firstOnCurve? (p :: ps) = some 0 := by
  simp only [allOn, List.all_cons, Bool.and_eq_true] at h
  rw [firstOnCurve?.eq_2]; simp [h.1]

/-- A contour without off-curve points sends only straight primitives to a pen. -/
theorem prims_straight (pts : List Point) (h : allOn pts = true) : ∀ pr ∈ prims pts, pr.straight = true := by
  apply expand_straight
  match pts with
  | [] => simp [drawCalls_nil]
  | [p] => rw [drawCalls_single]; intro c hc; simp at hc; rcases hc with rfl | rfl <;> rfl
  | p0 :: p1 :: rest =>
    have hrest : allOn (p1 :: rest) = true := by
      simp only [allOn, List.all_cons, Bool.and_eq_true] at h ⊢
      exact h.2
    by_cases hm : p0.seg = some .move
    · rw [drawCalls_open p0 p1 rest hm]
      intro c hc
      rcases List.mem_cons.1 hc with rfl | hc
      · rfl
      · rcases List.mem_append.1 hc with hc | hc
        · exact flushLoop_straight _ _ _ (group_allOn _ hrest) c hc
        · simp at hc; subst hc; rfl
    · rw [drawCalls_closed p0 p1 rest hm 0 (allOn_firstOnCurve p0 _ h)]
      apply flush_straight
      apply group_allOn
      simp only [rotOn, allOn, List.all_append, Bool.and_eq_true] at h ⊢
      simp only [List.drop_succ_cons, List.drop_zero, List.take_succ_cons, List.take_zero, List.all_cons,
        List.all_nil, Bool.and_true] at h ⊢
      simp only [allOn, List.all_cons, Bool.and_eq_true] at h
      exact ⟨by simpa using h.2, h.1⟩

/-- On an outline of lines only, `bounds` and `controlPointBounds` are the same box, whatever the
curve oracle (it is never consulted). -/
theorem freshBnd_eq_freshCpb_of_allOn (o : CurveOracle) (pts : List Point) (h : allOn pts = true) :
    freshBnd o pts = freshCpb pts := by
  unfold freshBnd freshCpb bndBox bndRun ctrlBox
  exact bndFold_straight o _ (prims_straight pts h) {}

end Geom
end DefconModel
