/-
M-Geom helper lemmas: Bézier curves stay in the box of their control points; the pens' boxes.
-/
import DefconModel.Lemmas.Geom.Basic
import Mathlib.Tactic.Positivity

namespace DefconModel
namespace Geom

/-! ### The convex-hull property, for any linearly ordered field (ℚ, ℝ, …) -/

section Field
variable {K : Type} [Field K] [LinearOrder K] [IsStrictOrderedRing K]

/-- Bernstein weights of degree 3 are non-negative and sum to 1: lower bound. -/
theorem cubic_ge (a b c d t m : K) (h0 : 0 ≤ t) (h1 : t ≤ 1) (ha : m ≤ a) (hb : m ≤ b) (hc : m ≤ c)
    (hd : m ≤ d) : m ≤ (1 - t) ^ 3 * a + 3 * (1 - t) ^ 2 * t * b + 3 * (1 - t) * t ^ 2 * c + t ^ 3 * d := by
  have hs : 0 ≤ 1 - t := by linarith
  have key : (1 - t) ^ 3 * a + 3 * (1 - t) ^ 2 * t * b + 3 * (1 - t) * t ^ 2 * c + t ^ 3 * d - m
      = (1 - t) ^ 3 * (a - m) + 3 * (1 - t) ^ 2 * t * (b - m) + 3 * (1 - t) * t ^ 2 * (c - m) + t ^ 3 * (d - m) := by
    ring
  have ha' := sub_nonneg.2 ha
  have hb' := sub_nonneg.2 hb
  have hc' := sub_nonneg.2 hc
  have hd' := sub_nonneg.2 hd
  have : 0 ≤ (1 - t) ^ 3 * (a - m) + 3 * (1 - t) ^ 2 * t * (b - m) + 3 * (1 - t) * t ^ 2 * (c - m) + t ^ 3 * (d - m) := by
    positivity
  linarith

theorem cubic_le (a b c d t m : K) (h0 : 0 ≤ t) (h1 : t ≤ 1) (ha : a ≤ m) (hb : b ≤ m) (hc : c ≤ m)
    (hd : d ≤ m) : (1 - t) ^ 3 * a + 3 * (1 - t) ^ 2 * t * b + 3 * (1 - t) * t ^ 2 * c + t ^ 3 * d ≤ m := by
  have h := cubic_ge (-a) (-b) (-c) (-d) t (-m) h0 h1 (by linarith) (by linarith) (by linarith) (by linarith)
  have key : (1 - t) ^ 3 * -a + 3 * (1 - t) ^ 2 * t * -b + 3 * (1 - t) * t ^ 2 * -c + t ^ 3 * -d
      = -((1 - t) ^ 3 * a + 3 * (1 - t) ^ 2 * t * b + 3 * (1 - t) * t ^ 2 * c + t ^ 3 * d) := by ring
  rw [key] at h
  linarith

theorem quad_ge (a b c t m : K) (h0 : 0 ≤ t) (h1 : t ≤ 1) (ha : m ≤ a) (hb : m ≤ b) (hc : m ≤ c) :
    m ≤ (1 - t) ^ 2 * a + 2 * (1 - t) * t * b + t ^ 2 * c := by
  have hs : 0 ≤ 1 - t := by linarith
  have key : (1 - t) ^ 2 * a + 2 * (1 - t) * t * b + t ^ 2 * c - m
      = (1 - t) ^ 2 * (a - m) + 2 * (1 - t) * t * (b - m) + t ^ 2 * (c - m) := by ring
  have ha' := sub_nonneg.2 ha
  have hb' := sub_nonneg.2 hb
  have hc' := sub_nonneg.2 hc
  have : 0 ≤ (1 - t) ^ 2 * (a - m) + 2 * (1 - t) * t * (b - m) + t ^ 2 * (c - m) := by positivity
  linarith

theorem quad_le (a b c t m : K) (h0 : 0 ≤ t) (h1 : t ≤ 1) (ha : a ≤ m) (hb : b ≤ m) (hc : c ≤ m) :
    (1 - t) ^ 2 * a + 2 * (1 - t) * t * b + t ^ 2 * c ≤ m := by
  have h := quad_ge (-a) (-b) (-c) t (-m) h0 h1 (by linarith) (by linarith) (by linarith)
  have key : (1 - t) ^ 2 * -a + 2 * (1 - t) * t * -b + t ^ 2 * -c
      = -((1 - t) ^ 2 * a + 2 * (1 - t) * t * b + t ^ 2 * c) := by ring
  rw [key] at h
  linarith

theorem line_ge (a b t m : K) (h0 : 0 ≤ t) (h1 : t ≤ 1) (ha : m ≤ a) (hb : m ≤ b) :
    m ≤ (1 - t) * a + t * b := by
  have hs : 0 ≤ 1 - t := by linarith
  have key : (1 - t) * a + t * b - m = (1 - t) * (a - m) + t * (b - m) := by ring
  have ha' := sub_nonneg.2 ha
  have hb' := sub_nonneg.2 hb
  have : 0 ≤ (1 - t) * (a - m) + t * (b - m) := by positivity
  linarith

theorem line_le (a b t m : K) (h0 : 0 ≤ t) (h1 : t ≤ 1) (ha : a ≤ m) (hb : b ≤ m) :
    (1 - t) * a + t * b ≤ m := by
  have h := line_ge (-a) (-b) t (-m) h0 h1 (by linarith) (by linarith)
  have key : (1 - t) * -a + t * -b = -((1 - t) * a + t * b) := by ring
  rw [key] at h
  linarith

end Field

/-! ### … for the model's points and boxes -/

theorem Box.has_lerp {bx : Box} {p q : Pt} {t : Rat} (h0 : 0 ≤ t) (h1 : t ≤ 1) (hp : bx.Has p) (hq : bx.Has q) :
    bx.Has (Pt.lerp p q t) :=
  ⟨line_ge _ _ _ _ h0 h1 hp.1 hq.1, line_le _ _ _ _ h0 h1 hp.2.1 hq.2.1,
   line_ge _ _ _ _ h0 h1 hp.2.2.1 hq.2.2.1, line_le _ _ _ _ h0 h1 hp.2.2.2 hq.2.2.2⟩

theorem Box.has_bez2 {bx : Box} {p a q : Pt} {t : Rat} (h0 : 0 ≤ t) (h1 : t ≤ 1) (hp : bx.Has p) (ha : bx.Has a)
    (hq : bx.Has q) : bx.Has (Pt.bez2 p a q t) :=
  ⟨quad_ge _ _ _ _ _ h0 h1 hp.1 ha.1 hq.1, quad_le _ _ _ _ _ h0 h1 hp.2.1 ha.2.1 hq.2.1,
   quad_ge _ _ _ _ _ h0 h1 hp.2.2.1 ha.2.2.1 hq.2.2.1, quad_le _ _ _ _ _ h0 h1 hp.2.2.2 ha.2.2.2 hq.2.2.2⟩

theorem Box.has_bez3 {bx : Box} {p a b q : Pt} {t : Rat} (h0 : 0 ≤ t) (h1 : t ≤ 1) (hp : bx.Has p) (ha : bx.Has a)
    (hb : bx.Has b) (hq : bx.Has q) : bx.Has (Pt.bez3 p a b q t) :=
  ⟨cubic_ge _ _ _ _ _ _ h0 h1 hp.1 ha.1 hb.1 hq.1, cubic_le _ _ _ _ _ _ h0 h1 hp.2.1 ha.2.1 hb.2.1 hq.2.1,
   cubic_ge _ _ _ _ _ _ h0 h1 hp.2.2.1 ha.2.2.1 hb.2.2.1 hq.2.2.1,
   cubic_le _ _ _ _ _ _ h0 h1 hp.2.2.2 ha.2.2.2 hb.2.2.2 hq.2.2.2⟩

/-- what a primitive draws stays in any box that holds the sub path's start, the current point and
the primitive's points -/
theorem Box.has_at {bx : Box} {s c : Pt} {pr : Prim} {t : Rat} (h0 : 0 ≤ t) (h1 : t ≤ 1) (hs : bx.Has s)
    (hc : bx.Has c) (hp : ∀ p ∈ pr.pts, bx.Has p) : bx.Has (pr.at s c t) := by
  cases pr with
  | moveTo p => exact hp p (by simp [Prim.pts])
  | lineTo p => exact Box.has_lerp h0 h1 hc (hp p (by simp [Prim.pts]))
  | curveTo a b p =>
    exact Box.has_bez3 h0 h1 hc (hp a (by simp [Prim.pts])) (hp b (by simp [Prim.pts])) (hp p (by simp [Prim.pts]))
  | qCurveTo a p => exact Box.has_bez2 h0 h1 hc (hp a (by simp [Prim.pts])) (hp p (by simp [Prim.pts]))
  | closePath => exact Box.has_lerp h0 h1 hc hs
  | endPath => exact hc

theorem Prim.endPt_mem_or (c : Pt) (pr : Prim) : pr.endPt c = c ∨ pr.endPt c ∈ pr.pts := by
  cases pr <;> simp [Prim.endPt, Prim.pts]

/-- the next pen state's points are the old ones or points of the primitive -/
theorem nextState_some {st : Option (Pt × Pt)} {pr : Prim} {s' c' : Pt} (h : nextState st pr = some (s', c')) :
    (s' ∈ pr.pts ∧ c' ∈ pr.pts) ∨
    ∃ s c, st = some (s, c) ∧ s' = s ∧ (c' = c ∨ c' ∈ pr.pts) := by
  cases pr with
  | moveTo p => simp [nextState] at h; obtain ⟨rfl, rfl⟩ := h; left; simp [Prim.pts]
  | closePath => simp [nextState] at h
  | endPath => simp [nextState] at h
  | lineTo p =>
    cases st with
    | none => simp [nextState] at h
    | some sc =>
      simp [nextState, Prim.endPt] at h; obtain ⟨rfl, rfl⟩ := h
      exact Or.inr ⟨sc.1, sc.2, rfl, rfl, Or.inr (by simp [Prim.pts])⟩
  | curveTo a b p =>
    cases st with
    | none => simp [nextState] at h
    | some sc =>
      simp [nextState, Prim.endPt] at h; obtain ⟨rfl, rfl⟩ := h
      exact Or.inr ⟨sc.1, sc.2, rfl, rfl, Or.inr (by simp [Prim.pts])⟩
  | qCurveTo a p =>
    cases st with
    | none => simp [nextState] at h
    | some sc =>
      simp [nextState, Prim.endPt] at h; obtain ⟨rfl, rfl⟩ := h
      exact Or.inr ⟨sc.1, sc.2, rfl, rfl, Or.inr (by simp [Prim.pts])⟩

/-! ### ControlBoundsPen -/

theorem addPt_isSome (b : Option Box) (p : Pt) : ∃ b', addPt b p = some b' ∧ b'.Has p ∧ ∀ b0, b = some b0 → b0.Within b' := by
  cases b with
  | none => exact ⟨_, rfl, Box.has_ofPt p, by intro b0 h; cases h⟩
  | some b0 =>
    refine ⟨_, rfl, Box.has_add_self b0 p, ?_⟩
    intro b1 h; cases h; exact Box.within_add _ _

/-- adding points to a box only grows it -/
theorem foldl_addPt_some (ps : List Pt) (b : Box) :
    ∃ b', ps.foldl addPt (some b) = some b' ∧ b.Within b' ∧ ∀ p ∈ ps, b'.Has p := by
  induction ps generalizing b with
  | nil => exact ⟨b, rfl, Box.within_refl b, by simp⟩
  | cons p ps ih =>
    obtain ⟨b', h1, h2, h3⟩ := ih (b.add p)
    refine ⟨b', by simpa [List.foldl, addPt] using h1, Box.within_trans (Box.within_add b p) h2, ?_⟩
    intro q hq
    rcases List.mem_cons.1 hq with rfl | hq
    · exact Box.has_of_within h2 (Box.has_add_self b q)
    · exact h3 q hq

theorem ctrlStep_some (pr : Prim) (b : Box) :
    ∃ b', ctrlStep (some b) pr = some b' ∧ b.Within b' ∧ ∀ p ∈ pr.pts, b'.Has p :=
  foldl_addPt_some pr.pts b

theorem ctrlStep_none (pr : Prim) :
    ctrlStep none pr = none ∧ pr.pts = [] ∨ ∃ b', ctrlStep none pr = some b' ∧ ∀ p ∈ pr.pts, b'.Has p := by
  unfold ctrlStep
  cases h : pr.pts with
  | nil => left; simp
  | cons p ps =>
    right
    obtain ⟨b', h1, h2, h3⟩ := foldl_addPt_some ps (Box.ofPt p)
    refine ⟨b', by simpa [List.foldl, addPt] using h1, ?_⟩
    intro q hq
    rcases List.mem_cons.1 hq with rfl | hq
    · exact Box.has_of_within h2 (Box.has_ofPt q)
    · exact h3 q hq

theorem ctrlFold_some (ps : List Prim) (b : Box) :
    ∃ b', ps.foldl ctrlStep (some b) = some b' ∧ b.Within b' := by
  induction ps generalizing b with
  | nil => exact ⟨b, rfl, Box.within_refl b⟩
  | cons pr ps ih =>
    obtain ⟨b1, h1, h2, _⟩ := ctrlStep_some pr b
    obtain ⟨b', h3, h4⟩ := ih b1
    exact ⟨b', by simpa [List.foldl, h1] using h3, Box.within_trans h2 h4⟩

/-- one step of ControlBoundsPen: what the primitive draws is inside the new box, which still holds
the pen state -/
theorem ctrlStep_spec (pr : Prim) (st : Option (Pt × Pt)) (ob : Option Box)
    (hst : ∀ s c, st = some (s, c) → ∃ b, ob = some b ∧ b.Has s ∧ b.Has c) :
    (∀ q, OnPrim st pr q → ∃ b1, ctrlStep ob pr = some b1 ∧ b1.Has q) ∧
    (∀ s' c', nextState st pr = some (s', c') → ∃ b1, ctrlStep ob pr = some b1 ∧ b1.Has s' ∧ b1.Has c') := by
  -- the box after the step, when there is one
  have hbox : ∀ b1, ctrlStep ob pr = some b1 → (∀ p ∈ pr.pts, b1.Has p) ∧ ∀ b, ob = some b → b.Within b1 := by
    intro b1 h1
    cases ob with
    | some b =>
      obtain ⟨b2, h2, hw, hp⟩ := ctrlStep_some pr b
      rw [h2] at h1; cases h1
      exact ⟨hp, by intro b0 h; cases h; exact hw⟩
    | none =>
      rcases ctrlStep_none pr with ⟨h, _⟩ | ⟨b2, h2, hp⟩
      · rw [h] at h1; cases h1
      · rw [h2] at h1; cases h1
        exact ⟨hp, by intro b0 h; cases h⟩
  -- there is a box as soon as the primitive has points or the pen had a box
  have hex : (pr.pts ≠ [] ∨ ob ≠ none) → ∃ b1, ctrlStep ob pr = some b1 := by
    intro h
    cases ob with
    | some b => obtain ⟨b2, h2, _, _⟩ := ctrlStep_some pr b; exact ⟨b2, h2⟩
    | none =>
      rcases ctrlStep_none pr with ⟨_, h2⟩ | ⟨b2, h2, _⟩
      · rcases h with h | h
        · exact absurd h2 h
        · exact absurd rfl h
      · exact ⟨b2, h2⟩
  constructor
  · intro q hq
    cases st with
    | none =>
      simp only [OnPrim] at hq
      obtain ⟨b1, h1⟩ := hex (Or.inl (List.ne_nil_of_mem hq))
      exact ⟨b1, h1, (hbox b1 h1).1 q hq⟩
    | some sc =>
      obtain ⟨s, c⟩ := sc
      obtain ⟨b, rfl, hs, hc⟩ := hst s c rfl
      obtain ⟨t, h0, h1', rfl⟩ := hq
      obtain ⟨b1, h1⟩ := hex (Or.inr (by simp))
      have hw := (hbox b1 h1).2 b rfl
      exact ⟨b1, h1, Box.has_at h0 h1' (Box.has_of_within hw hs) (Box.has_of_within hw hc) (hbox b1 h1).1⟩
  · intro s' c' hn
    rcases nextState_some hn with ⟨h1, h2⟩ | ⟨s, c, rfl, rfl, h2⟩
    · obtain ⟨b1, hb1⟩ := hex (Or.inl (List.ne_nil_of_mem h1))
      exact ⟨b1, hb1, (hbox b1 hb1).1 _ h1, (hbox b1 hb1).1 _ h2⟩
    · obtain ⟨b, rfl, hs, hc⟩ := hst s' c rfl
      obtain ⟨b1, hb1⟩ := hex (Or.inr (by simp))
      have hw := (hbox b1 hb1).2 b rfl
      refine ⟨b1, hb1, Box.has_of_within hw hs, ?_⟩
      rcases h2 with rfl | h2
      · exact Box.has_of_within hw hc
      · exact (hbox b1 hb1).1 _ h2

/-- Every point of the outline lies in the box ControlBoundsPen ends with (general form: the pen
already holds a box `ob` containing the current sub path's start and current point). -/
theorem onPath_in_ctrlFold (ps : List Prim) (st : Option (Pt × Pt)) (ob : Option Box) (q : Pt)
    (hst : ∀ s c, st = some (s, c) → ∃ b, ob = some b ∧ b.Has s ∧ b.Has c)
    (hq : OnPath st ps q) : ∃ b', ps.foldl ctrlStep ob = some b' ∧ b'.Has q := by
  induction ps generalizing st ob with
  | nil => simp [OnPath] at hq
  | cons pr ps ih =>
    obtain ⟨h1, h2⟩ := ctrlStep_spec pr st ob hst
    rcases hq with hq | hq
    · obtain ⟨b1, hb1, hq1⟩ := h1 q hq
      obtain ⟨b', h3, h4⟩ := ctrlFold_some ps b1
      exact ⟨b', by simpa [List.foldl, hb1] using h3, Box.has_of_within h4 hq1⟩
    · have := ih (nextState st pr) (ctrlStep ob pr) (fun s' c' h => h2 s' c' h) hq
      simpa [List.foldl] using this

end Geom
end DefconModel
