/-
M-Geom helper lemmas: reversal negates the area also for open contours, contours made of
off-curve points only, and the degenerate ones.
-/
import DefconModel.Lemmas.Geom.RevArea
import DefconModel.Lemmas.Geom.CtrlBox

namespace DefconModel
namespace Geom

/-! ### open contours -/

theorem flushLoop_open (lp : Option Pt) (segs : List Segm) (hok : ∀ s ∈ segs, s.Ok) :
    expand (flushLoop false lp segs) = segsPrims segs := by
  induction segs generalizing lp with
  | nil => rfl
  | cons s r ih =>
    have hs := hok s (List.mem_cons_self ..)
    have hr : ∀ q ∈ r, q.Ok := fun q hq => hok q (List.mem_cons_of_mem _ hq)
    rw [segsPrims_cons]
    by_cases hre : r = []
    · subst hre
      rw [flushLoop.eq_2]
      cases hty : s.ty with
      | move => exact absurd hty hs.ty_ne_move
      | curve =>
        have : s.calls = [Call.curveTo s.pts] := by simp [Segm.calls, hty]
        simp [flushLoop, segsPrims, ← this, expand_calls]
      | qcurve =>
        have : s.calls = [Call.qCurveTo s.pts s.blob] := by simp [Segm.calls, hty]
        simp [flushLoop, segsPrims, ← this, expand_calls]
      | line =>
        obtain ⟨pt, hpt, hc⟩ := hs.calls_line hty
        simp [hpt, flushLoop, segsPrims, ← hc, expand_calls]
    · obtain ⟨lp', hfl⟩ := flushLoop_cons_ne false lp s r hre hs
      rw [hfl, expand_append, expand_calls, ih lp' hr]

/-- the signed area of an open contour: its segments' terms plus the implied closing line -/
theorem freshArea_open (p0 p1 : Point) (rest : List Point) (hm : p0.seg = some .move)
    (hok : ∀ s ∈ group [] (p1 :: rest), s.Ok) :
    freshArea (p0 :: p1 :: rest) =
      sumFrom p0.pt (group [] (p1 :: rest)) +
        drawSum (endFrom p0.pt (group [] (p1 :: rest))) [Prim.lineTo p0.pt] := by
  have hprims : prims (p0 :: p1 :: rest) =
      Prim.moveTo p0.pt :: (segsPrims (group [] (p1 :: rest)) ++ [Prim.endPath]) := by
    rw [prims, drawCalls_open p0 p1 rest hm, expand_cons, expand_append, flushLoop_open _ _ hok]
    rfl
  unfold freshArea areaRun
  rw [hprims, List.foldl_cons, List.foldl_append]
  have hst : areaStep true {} (Prim.moveTo p0.pt) = { value := 0, p0 := p0.pt, start := p0.pt } := rfl
  rw [hst]
  have hd := segsPrims_isDraw _ (fun s hs => (hok s hs).blob)
  obtain ⟨f1, f2, f3, _⟩ := areaFold_draw true _ hd { value := 0, p0 := p0.pt, start := p0.pt }
  obtain ⟨g1, g2⟩ := drawSum_segsPrims p0.pt _ hok
  simp only [List.foldl_cons, List.foldl_nil, areaStep, if_true, areaLine, drawSum]
  rw [f1, f2, f3, g1, g2]
  simp
  ring

theorem open_segs_ok (p0 p1 : Point) (rest : List Point) (hm : p0.seg = some .move)
    (herr : drawErr (p0 :: p1 :: rest) = none) : ∀ s ∈ group [] (p1 :: rest), s.Ok := by
  have hts : toSegments (p0 :: p1 :: rest) = some (⟨.move, [p0.pt], false⟩ :: group [] (p1 :: rest)) := by
    simp [toSegments, hm]
  have hbad : segsBad false (group [] (p1 :: rest)) = none := by
    have : segsBad true (⟨.move, [p0.pt], false⟩ :: group [] (p1 :: rest)) = none := by
      simpa [drawErr, hts] using herr
    rw [segsBad.eq_2] at this
    simpa [Segm.bad] using this
  exact fun s hs => ⟨group_noBlob _ _ s hs, segsBad_false_none hbad s hs, group_pts_ne_nil _ _ s hs⟩

theorem retypeT_types (a : Seg) (X : List PSeg) :
    ∀ g ∈ retypeT a X, ∃ b, g.2.seg = some b ∧ (b = a ∨ ∃ g' ∈ X.dropLast, b = tyOf g'.2) := by
  induction X generalizing a with
  | nil => simp [retypeT]
  | cons x xs ih =>
    intro g hg
    simp only [retypeT, List.mem_cons] at hg
    rcases hg with rfl | hg
    · exact ⟨a, rfl, Or.inl rfl⟩
    · obtain ⟨b, hb, hb2⟩ := ih (tyOf x.2) g hg
      refine ⟨b, hb, Or.inr ?_⟩
      have hxs : xs ≠ [] := by
        intro he; subst he; simp [retypeT] at hg
      have hdl : (x :: xs).dropLast = x :: xs.dropLast := by
        cases xs with
        | nil => exact absurd rfl hxs
        | cons y ys => rfl
      rw [hdl]
      rcases hb2 with rfl | ⟨g', hg', rfl⟩
      · exact ⟨x, List.mem_cons_self .., rfl⟩
      · exact ⟨g', List.mem_cons_of_mem _ hg', rfl⟩

theorem mem_flat {T : List PSeg} {p : Point} (h : p ∈ flat T) : ∃ g ∈ T, p ∈ g.1 ∨ p = g.2 := by
  simp only [flat, List.mem_flatMap, List.mem_append, List.mem_singleton] at h
  exact h

theorem revT_snd (prev : Point) (T : List PSeg) :
    ∀ g ∈ revT prev T, g.2 = prev ∨ ∃ g' ∈ T, g.2 = g'.2 := by
  induction T generalizing prev with
  | nil => simp [revT]
  | cons x xs ih =>
    intro g hg
    simp only [revT, List.mem_append, List.mem_singleton] at hg
    rcases hg with hg | rfl
    · rcases ih x.2 g hg with h | ⟨g', hg', h⟩
      · exact Or.inr ⟨x, List.mem_cons_self .., h⟩
      · exact Or.inr ⟨g', List.mem_cons_of_mem _ hg', h⟩
    · exact Or.inl rfl

theorem revT_dropLast_snd (prev : Point) (T : List PSeg) :
    ∀ g ∈ (revT prev T).dropLast, ∃ g' ∈ T, g.2 = g'.2 := by
  cases T with
  | nil => simp [revT]
  | cons x xs =>
    intro g hg
    simp only [revT, List.dropLast_concat] at hg
    rcases revT_snd x.2 xs g hg with h | ⟨g', hg', h⟩
    · exact ⟨x, List.mem_cons_self .., h⟩
    · exact ⟨g', List.mem_cons_of_mem _ hg', h⟩

theorem revT_fst_off (prev : Point) (T : List PSeg) (h : ∀ g ∈ T, g.Wf) :
    ∀ g ∈ revT prev T, ∀ o ∈ g.1, o.seg = none := by
  induction T generalizing prev with
  | nil => simp [revT]
  | cons x xs ih =>
    intro g hg o ho
    simp only [revT, List.mem_append, List.mem_singleton] at hg
    rcases hg with hg | rfl
    · exact ih x.2 (fun y hy => h y (List.mem_cons_of_mem _ hy)) g hg o ho
    · exact (h x (List.mem_cons_self ..)).1 o (List.mem_reverse.1 ho)

theorem retypeT_fst (a : Seg) (X : List PSeg) : (retypeT a X).map (·.1) = X.map (·.1) := by
  induction X generalizing a with
  | nil => rfl
  | cons x xs ih => simp [retypeT, ih]

/-- Reversing an open contour (not ending in off-curves) negates its signed area; the reversed
contour is again such a contour and draws without error. -/
theorem reverse_area_open (p0 p1 : Point) (rest : List Point) (hm : p0.seg = some .move)
    (hinner : noInnerMove (p0 :: p1 :: rest) = true)
    (hend : endsOnCurve (p0 :: p1 :: rest) = true) (herr : drawErr (p0 :: p1 :: rest) = none) :
    freshArea (reversePoints (p0 :: p1 :: rest)) = - freshArea (p0 :: p1 :: rest) ∧
    ReversibleShape (reversePoints (p0 :: p1 :: rest)) ∧ drawErr (reversePoints (p0 :: p1 :: rest)) = none := by
  have hok := open_segs_ok p0 p1 rest hm herr
  rw [freshArea_open p0 p1 rest hm hok]
  -- the points after the move as runs
  have hlast : ∃ l, (p1 :: rest).getLast? = some l ∧ l.onCurve = true := by
    obtain ⟨l, hl⟩ := getLast?_isSome_of_ne_nil (l := p1 :: rest) (by simp)
    refine ⟨l, hl, ?_⟩
    have : (p0 :: p1 :: rest).getLast? = some l := by rw [List.getLast?_cons_cons]; exact hl
    simpa [endsOnCurve, this] using hend
  obtain ⟨T, hTwf, hTflat⟩ := exists_flat (p1 :: rest) (Or.inr hlast)
  have hTne : T ≠ [] := by
    intro h; rw [h] at hTflat; simp [flat] at hTflat
  obtain ⟨lT, hlT⟩ := getLast?_isSome_of_ne_nil hTne
  set qk := lT.2 with hqk
  have hqkwf : qk.seg ≠ none := (hTwf lT (List.mem_of_getLast? hlT)).2
  have hflast : (flat T).getLast? = some qk := flat_getLast T lT hlT
  have hsegs : group [] (p1 :: rest) = segsOf T := by rw [← hTflat, group_flat T hTwf]
  rw [hsegs] at hok ⊢
  -- the reversed contour: the last on-curve point becomes the move, the runs are traversed backwards
  have hp0wf : p0.seg ≠ none := by rw [hm]; simp
  have hrev : (flat T).reverse = qk :: (flat T).reverse.tail := by
    have hne : (flat T).reverse ≠ [] := by simpa using flat_ne_nil T hTne
    have hh : (flat T).reverse.head? = some qk := by rw [List.head?_reverse]; exact hflast
    cases hr : (flat T).reverse with
    | nil => exact absurd hr hne
    | cons a b => rw [hr] at hh; simp at hh; subst hh; rfl
  have hR : reversePoints (p0 :: p1 :: rest) =
      ({ qk with seg := some .move } : Point) :: flat (retypeT (tyOf qk) (revT p0 T)) := by
    rw [reversePoints_open p0 (p1 :: rest) hm]
    have h1 : (p0 :: p1 :: rest).reverse = qk :: ((flat T).reverse.tail ++ [p0]) := by
      rw [List.reverse_cons, ← hTflat, hrev]; simp
    have hqkon : qk.onCurve = true := by
      cases hs : qk.seg with
      | none => exact absurd hs hqkwf
      | some t => simp [Point.onCurve, hs]
    rw [h1, dropLeadingOff_of_head_on _ _ hqkon, retype_cons_on _ qk _ (tyOf qk) (seg_some_tyOf hqkwf),
      ← flat_revT p0 T hTne, retype_flat _ _ (revT_wf p0 hp0wf T hTwf)]
  rw [hR]
  -- its area, by the same formula
  have hsegsR : group [] (flat (retypeT (tyOf qk) (revT p0 T))) = revFrom p0.pt (segsOf T) := by
    rw [group_flat _ (retypeT_wf _ _ (revT_wf p0 hp0wf T hTwf)),
      segsOf_retypeT_revT p0 T hTne (tyOf qk) ⟨lT, hlT, rfl⟩]
  obtain ⟨hokR, hsumR, hendR⟩ := revFrom_sum p0.pt (segsOf T) hok
  have hsegne : segsOf T ≠ [] := by simpa [segsOf] using hTne
  have hend1 : endFrom p0.pt (segsOf T) = qk.pt := by
    apply endFrom_last _ _ hok lT.toSegm (by simp [segsOf, hlT]) qk.pt
    simp [PSeg.toSegm, hqk]
  -- the reversed contour as a cons-cons list
  obtain ⟨r1, rrest, hrr⟩ : ∃ r1 rrest, flat (retypeT (tyOf qk) (revT p0 T)) = r1 :: rrest := by
    cases hc : flat (retypeT (tyOf qk) (revT p0 T)) with
    | nil =>
      have : group [] (flat (retypeT (tyOf qk) (revT p0 T))) = [] := by rw [hc]; rfl
      rw [hsegsR] at this
      have hl := congrArg List.length this
      have : (revFrom p0.pt (segsOf T)).length = (segsOf T).length := by
        have : ∀ (e : Pt) (l : List Segm), (revFrom e l).length = l.length := by
          intro e l
          induction l generalizing e with
          | nil => rfl
          | cons s r ih => simp [revFrom, ih]
        exact this _ _
      rw [this] at hl
      simp at hl
      exact absurd hl hsegne
    | cons a b => exact ⟨a, b, rfl⟩
  -- the reversed contour is a valid open contour
  have hvalid : ReversibleShape (({ qk with seg := some Seg.move } : Point) :: flat (retypeT (tyOf qk) (revT p0 T))) ∧
      drawErr (({ qk with seg := some Seg.move } : Point) :: flat (retypeT (tyOf qk) (revT p0 T))) = none := by
    have hinner' : ∀ p ∈ p1 :: rest, p.seg ≠ some .move := by
      simpa [noInnerMove] using hinner
    have hTmem : ∀ g ∈ T, g.2 ∈ p1 :: rest := by
      intro g hg
      rw [← hTflat]
      simp only [flat, List.mem_flatMap]
      exact ⟨g, hg, by simp⟩
    have htyne : ∀ g ∈ T, tyOf g.2 ≠ .move := by
      intro g hg hh
      have := hinner' g.2 (hTmem g hg)
      rw [seg_some_tyOf (hTwf g hg).2, hh] at this
      exact this rfl
    constructor
    · right
      refine ⟨rfl, ?_, ?_⟩
      · -- no move after the first point
        simp only [noInnerMove, List.all_eq_true, decide_eq_true_eq]
        intro p hp
        obtain ⟨g, hg, hpg⟩ := mem_flat hp
        rcases hpg with hpg | rfl
        · -- an off-curve point
          have hfst : g.1 ∈ (retypeT (tyOf qk) (revT p0 T)).map (·.1) := List.mem_map_of_mem hg
          rw [retypeT_fst] at hfst
          obtain ⟨g0, hg0, hg0e⟩ := List.mem_map.1 hfst
          have := revT_fst_off p0 T hTwf g0 hg0 p (by rw [hg0e]; exact hpg)
          rw [this]; simp
        · obtain ⟨b, hb, hb2⟩ := retypeT_types (tyOf qk) (revT p0 T) g hg
          rw [hb]
          simp only [ne_eq, Option.some.injEq]
          rcases hb2 with rfl | ⟨g', hg', rfl⟩
          · exact htyne lT (List.mem_of_getLast? hlT)
          · -- (p0's old type is never handed on: it is the last on-curve point)
            obtain ⟨g2, hg2, h⟩ := revT_dropLast_snd p0 T g' hg'
            rw [h]; exact htyne g2 hg2
      · -- ends with an on-curve point
        have hXne : retypeT (tyOf qk) (revT p0 T) ≠ [] := by
          cases hT : T with
          | nil => exact absurd hT hTne
          | cons x xs =>
            simp only [revT]
            intro he
            have := congrArg List.length he
            have hl : ∀ (a : Seg) (X : List PSeg), (retypeT a X).length = X.length := by
              intro a X
              induction X generalizing a with
              | nil => rfl
              | cons y ys ih => simp [retypeT, ih]
            rw [hl] at this
            simp at this
        obtain ⟨lX, hlX⟩ := getLast?_isSome_of_ne_nil hXne
        have hwfX := retypeT_wf (tyOf qk) _ (revT_wf p0 hp0wf T hTwf) lX (List.mem_of_getLast? hlX)
        have hflX := flat_getLast _ lX hlX
        have hfne := flat_ne_nil _ hXne
        simp only [endsOnCurve]
        rw [List.getLast?_cons_of_ne_nil hfne, hflX]
        cases hs : lX.2.seg with
        | none => exact absurd hs hwfX.2
        | some t => simp [Point.onCurve, hs]
    · -- and draws without error
      obtain ⟨r1', rrest', hrr'⟩ : ∃ r1 rrest, flat (retypeT (tyOf qk) (revT p0 T)) = r1 :: rrest := by
        cases hc : flat (retypeT (tyOf qk) (revT p0 T)) with
        | nil =>
          have : group [] (flat (retypeT (tyOf qk) (revT p0 T))) = [] := by rw [hc]; rfl
          rw [hsegsR] at this
          have hl := congrArg List.length this
          have : ∀ (e : Pt) (l : List Segm), (revFrom e l).length = l.length := by
            intro e l
            induction l generalizing e with
            | nil => rfl
            | cons s r ih => simp [revFrom, ih]
          rw [this] at hl
          simp at hl
          exact absurd hl hsegne
        | cons a b => exact ⟨a, b, rfl⟩
      rw [hrr'] at hsegsR ⊢
      have hts : toSegments (({ qk with seg := some Seg.move } : Point) :: r1' :: rrest') =
          some (⟨.move, [qk.pt], false⟩ :: group [] (r1' :: rrest')) := by
        simp [toSegments]
      unfold drawErr
      rw [hts]
      simp only
      rw [segsBad.eq_2]
      simp only [Segm.bad, if_true]
      rw [hsegsR]
      exact segsBad_of_ok false _ hokR
  rw [hrr] at hsegsR hvalid ⊢
  refine ⟨?_, hvalid.1, hvalid.2⟩
  rw [freshArea_open _ r1 rrest rfl (by rw [hsegsR]; exact hokR), hsegsR]
  have hqpt : ({ qk with seg := some Seg.move } : Point).pt = qk.pt := rfl
  rw [hqpt, ← hend1, hsumR, hendR hsegne, hend1, lineTerm_anti p0.pt qk.pt]
  ring

/-! ### closed contours made of off-curve points only -/

theorem firstOnCurve?_none_iff {pts : List Point} : firstOnCurve? pts = none ↔ hasOn pts = false := by
  induction pts with
  | nil => simp [firstOnCurve?, hasOn]
  | cons p ps ih =>
    rw [firstOnCurve?.eq_2, hasOn_cons]
    cases hs : p.seg with
    | none => simp [Point.onCurve, hs, ih]
    | some t => simp [Point.onCurve, hs]

theorem hasOn_cons_reverse (p0 : Point) (l : List Point) : hasOn (p0 :: l.reverse) = hasOn (p0 :: l) := by
  simp [hasOn]

/-- the signed area of a contour without on-curve points: one closed chain of quadratics through the
implied on-curve points -/
theorem freshArea_blob (p0 p1 : Point) (rest : List Point) (hm : p0.seg ≠ some .move)
    (hno : hasOn (p0 :: p1 :: rest) = false) (l : Pt)
    (hl : ((p0 :: p1 :: rest).map (·.pt)).getLast? = some l) :
    freshArea (p0 :: p1 :: rest) =
      quadChain (mid l p0.pt) ((p0 :: p1 :: rest).map (·.pt) ++ [mid l p0.pt]) := by
  have hf := firstOnCurve?_none_iff.2 hno
  set offs := (p0 :: p1 :: rest).map (·.pt) with hoffs
  set m := mid l p0.pt with hmdef
  have hprims : prims (p0 :: p1 :: rest) = Prim.moveTo m :: (expandQ (offs ++ [m]) ++ [Prim.closePath]) := by
    rw [prims, drawCalls_blob p0 p1 rest hm hf]
    simp only [expand, List.flatMap_cons, List.flatMap_nil, expandCall, if_true, ← hoffs, hl]
    simp [hoffs, hmdef]
  have hlen : 2 ≤ (offs ++ [m]).length := by simp [hoffs]
  have hd : ∀ pr ∈ expandQ (offs ++ [m]), pr.isDraw = true := expandQ_isDraw _
  unfold freshArea areaRun
  rw [hprims, List.foldl_cons, List.foldl_append]
  have hst : areaStep true {} (Prim.moveTo m) = { value := 0, p0 := m, start := m } := rfl
  rw [hst]
  obtain ⟨f1, f2, f3, _⟩ := areaFold_draw true _ hd { value := 0, p0 := m, start := m }
  have hend : drawEnd m (expandQ (offs ++ [m])) = m := by
    rw [drawEnd_eq_endFold _ _ hd]
    exact expandQ_end m (offs ++ [m]) m (by simp)
  simp only [List.foldl_cons, List.foldl_nil, areaStep, areaLine]
  rw [f1, f2, f3, hend, expandQ_drawSum _ _ hlen]
  simp

/-- Reversing a contour without on-curve points negates its signed area. -/
theorem reverse_area_blob (p0 p1 : Point) (rest : List Point) (hm : p0.seg ≠ some .move)
    (hno : hasOn (p0 :: p1 :: rest) = false) :
    freshArea (reversePoints (p0 :: p1 :: rest)) = - freshArea (p0 :: p1 :: rest) := by
  -- nothing is retyped
  have hR : reversePoints (p0 :: p1 :: rest) = p0 :: (p1 :: rest).reverse := by
    rw [reversePoints_closed p0 (p1 :: rest) hm]
    apply retype_noOn
    rw [hasOn_cons_reverse]; exact hno
  set O := (p1 :: rest).map (·.pt) with hO
  have hOne : O ≠ [] := by simp [hO]
  obtain ⟨ol, hol⟩ := getLast?_isSome_of_ne_nil hOne
  -- forward
  have hfwd := freshArea_blob p0 p1 rest hm hno ol (by
    have : (p0 :: p1 :: rest).map (·.pt) = p0.pt :: O := rfl
    rw [this, List.getLast?_cons_of_ne_nil hOne]; exact hol)
  -- backward: the reversed list
  obtain ⟨r1, rrest, hrr⟩ : ∃ r1 rrest, (p1 :: rest).reverse = r1 :: rrest := by
    cases hc : (p1 :: rest).reverse with
    | nil => simp at hc
    | cons a b => exact ⟨a, b, rfl⟩
  have hnoR : hasOn (p0 :: r1 :: rrest) = false := by
    rw [← hrr, hasOn_cons_reverse]; exact hno
  have hOrev : (r1 :: rrest).map (·.pt) = O.reverse := by rw [← hrr, hO, List.map_reverse]
  have hbwd := freshArea_blob p0 r1 rrest hm hnoR p1.pt (by
    have : (p0 :: r1 :: rrest).map (·.pt) = p0.pt :: O.reverse := by
      rw [List.map_cons, hOrev]
    rw [this, List.getLast?_cons_of_ne_nil (by simpa using hOne), List.getLast?_reverse]
    simp [hO])
  rw [hR, hrr, hbwd, hfwd]
  have e1 : (p0 :: p1 :: rest).map (·.pt) = p0.pt :: O := rfl
  have e2 : (p0 :: r1 :: rrest).map (·.pt) = p0.pt :: O.reverse := by rw [List.map_cons, hOrev]
  rw [e1, e2]
  -- peel the first quadratic off both chains
  obtain ⟨o1, Ot, hOc⟩ : ∃ o1 Ot, O = o1 :: Ot := ⟨p1.pt, rest.map (·.pt), rfl⟩
  have ho1 : o1 = p1.pt := by rw [hO] at hOc; simp at hOc; exact hOc.1.symm
  obtain ⟨x, xs, hxs⟩ : ∃ x xs, Ot ++ [mid ol p0.pt] = x :: xs := by
    cases hc : Ot ++ [mid ol p0.pt] with
    | nil => simp at hc
    | cons a b => exact ⟨a, b, rfl⟩
  have hfw : quadChain (mid ol p0.pt) (p0.pt :: O ++ [mid ol p0.pt]) =
      quadTerm (mid ol p0.pt) p0.pt (mid p0.pt o1) + quadChain (mid p0.pt o1) (O ++ [mid ol p0.pt]) := by
    rw [hOc]
    have : p0.pt :: (o1 :: Ot) ++ [mid ol p0.pt] = p0.pt :: o1 :: (Ot ++ [mid ol p0.pt]) := rfl
    rw [this, hxs, quadChain_cons, ← hxs]
    rfl
  -- the reversed offs start with the last one
  have hOrne : O.reverse ≠ [] := by simpa using hOne
  obtain ⟨y, ys, hys⟩ : ∃ y ys, O.reverse = y :: ys := by
    cases hc : O.reverse with
    | nil => exact absurd hc hOrne
    | cons a b => exact ⟨a, b, rfl⟩
  have hy : y = ol := by
    have : O.reverse.head? = some ol := by rw [List.head?_reverse]; exact hol
    rw [hys] at this; simpa using this
  obtain ⟨z, zs, hzs⟩ : ∃ z zs, ys ++ [mid p1.pt p0.pt] = z :: zs := by
    cases hc : ys ++ [mid p1.pt p0.pt] with
    | nil => simp at hc
    | cons a b => exact ⟨a, b, rfl⟩
  have hbw : quadChain (mid p1.pt p0.pt) (p0.pt :: O.reverse ++ [mid p1.pt p0.pt]) =
      quadTerm (mid p1.pt p0.pt) p0.pt (mid p0.pt ol) + quadChain (mid p0.pt ol) (O.reverse ++ [mid p1.pt p0.pt]) := by
    rw [hys]
    have : p0.pt :: (y :: ys) ++ [mid p1.pt p0.pt] = p0.pt :: y :: (ys ++ [mid p1.pt p0.pt]) := rfl
    rw [this, hzs, quadChain_cons, ← hzs, hy]
    rfl
  rw [hfw, hbw, ho1, mid_comm p0.pt p1.pt, mid_comm p0.pt ol,
    quadChain_anti O (mid p1.pt p0.pt) (mid ol p0.pt) hOne, quadTerm_anti]
  ring

/-! ### every reversible contour -/

theorem freshArea_single (p : Point) : freshArea [p] = 0 := by
  simp [freshArea, prims, drawCalls_single, expand, expandCall, areaRun, areaStep, areaLine]

theorem Point.set_seg_eq (p : Point) (a : Option Seg) (h : p.seg = a) : ({ p with seg := a } : Point) = p := by
  cases p; simp at h; simp [h]

theorem reversePoints_single (p : Point) : reversePoints [p] = [p] := by
  by_cases hm : p.seg = some .move
  · rw [reversePoints_open p [] hm]
    have hon : p.onCurve = true := by simp [Point.onCurve, hm]
    simp only [List.reverse_cons, List.reverse_nil, List.nil_append]
    rw [dropLeadingOff_of_head_on p [] hon, retype_cons_on _ p [] .move hm, Point.set_seg_eq p _ hm]
    rfl
  · rw [reversePoints_closed p [] hm]
    cases hs : p.seg with
    | none => rw [retype_cons_off _ p _ hs]; rfl
    | some t =>
      rw [retype_cons_on _ p _ t hs]
      simp only [List.nil_append, List.reverse_nil, retype]
      rw [firstOnType?_cons_on p [] t hs, Point.set_seg_eq p _ hs]

theorem drawErr_blob (p0 p1 : Point) (rest : List Point) (hm : p0.seg ≠ some .move)
    (hno : hasOn (p0 :: p1 :: rest) = false) : drawErr (p0 :: p1 :: rest) = none := by
  have hf := firstOnCurve?_none_iff.2 hno
  simp [drawErr, toSegments, hm, hf, segsBad, Segm.bad]

/-- The reversal of a reversible contour that draws without error is again reversible and draws
without error, and its signed area is the opposite. -/
theorem reverse_area_all (pts : List Point) (hshape : ReversibleShape pts) (herr : drawErr pts = none) :
    freshArea (reversePoints pts) = - freshArea pts ∧ ReversibleShape (reversePoints pts) ∧
    drawErr (reversePoints pts) = none := by
  match pts with
  | [] => exact ⟨by simp [reversePoints, freshArea, prims, drawCalls_nil, expand, areaRun], hshape, herr⟩
  | [p] =>
    rw [reversePoints_single p, freshArea_single]
    exact ⟨by simp, hshape, herr⟩
  | p0 :: p1 :: rest =>
    rcases hshape with ⟨hclosed, hnm⟩ | ⟨hopen, hinner, hend⟩
    · have hm : p0.seg ≠ some .move := by simpa [isOpen_cons] using hclosed
      have hshape : ReversibleShape (p0 :: p1 :: rest) := Or.inl ⟨hclosed, hnm⟩
      have hshapeR : ReversibleShape (reversePoints (p0 :: p1 :: rest)) :=
        Or.inl ⟨by rw [reversePoints_isOpen _ hshape]; exact hclosed, noMove_reversePoints _ hnm⟩
      cases hon : hasOn (p0 :: p1 :: rest) with
      | true =>
        obtain ⟨h1, h2⟩ := reverse_area _ hnm herr hon (by simp)
        exact ⟨h1, hshapeR, h2⟩
      | false =>
        refine ⟨reverse_area_blob p0 p1 rest hm hon, hshapeR, ?_⟩
        have hR : reversePoints (p0 :: p1 :: rest) = p0 :: (p1 :: rest).reverse := by
          rw [reversePoints_closed p0 (p1 :: rest) hm]
          apply retype_noOn
          rw [hasOn_cons_reverse]; exact hon
        obtain ⟨r1, rrest, hrr⟩ : ∃ r1 rrest, (p1 :: rest).reverse = r1 :: rrest := by
          cases hc : (p1 :: rest).reverse with
          | nil => simp at hc
          | cons a b => exact ⟨a, b, rfl⟩
        rw [hR, hrr]
        apply drawErr_blob p0 r1 rrest hm
        rw [← hrr, hasOn_cons_reverse]; exact hon
    · have hm : p0.seg = some .move := by simpa [isOpen_cons] using hopen
      exact reverse_area_open p0 p1 rest hm hinner hend herr

end Geom
end DefconModel
