/-
M-Geom helper lemmas: the point list `ReverseContourPointPen` produces.
-/
import DefconModel.Lemmas.Geom.Basic
import Mathlib.Data.List.Perm.Basic

namespace DefconModel
namespace Geom

/-- the value of `lastSegmentType` after the retyping loop has run over `l` -/
def carry (a : Seg) : List Point → Seg
  | [] => a
  | p :: ps =>
    match p.seg with
    | some t => carry t ps
    | none => carry a ps


theorem retype_cons_on (a : Option Seg) (p : Point) (ps : List Point) (t : Seg) (h : p.seg = some t) :
    retype a (p :: ps) = { p with seg := a } :: retype (some t) ps := by
  rw [retype.eq_2]; simp [h]

theorem retype_cons_off (a : Option Seg) (p : Point) (ps : List Point) (h : p.seg = none) :
    retype a (p :: ps) = p :: retype a ps := by
  rw [retype.eq_2]; simp [h]

theorem carry_cons_on (a : Seg) (p : Point) (ps : List Point) (t : Seg) (h : p.seg = some t) :
    carry a (p :: ps) = carry t ps := by
  rw [carry.eq_2]; simp [h]

theorem carry_cons_off (a : Seg) (p : Point) (ps : List Point) (h : p.seg = none) :
    carry a (p :: ps) = carry a ps := by
  rw [carry.eq_2]; simp [h]

theorem firstOnType?_cons_on (p : Point) (ps : List Point) (t : Seg) (h : p.seg = some t) :
    firstOnType? (p :: ps) = some t := by
  rw [firstOnType?.eq_2]; simp [h]

theorem firstOnType?_cons_off (p : Point) (ps : List Point) (h : p.seg = none) :
    firstOnType? (p :: ps) = firstOnType? ps := by
  rw [firstOnType?.eq_2]; simp [h]

theorem hasOn_cons (p : Point) (ps : List Point) : hasOn (p :: ps) = (p.seg.isSome || hasOn ps) := rfl

theorem seg_none_of_hasOn_false {p : Point} {ps : List Point} (h : hasOn (p :: ps) = false) :
    p.seg = none ∧ hasOn ps = false := by
  rw [hasOn_cons, Bool.or_eq_false_iff] at h
  exact ⟨by simpa using h.1, h.2⟩

theorem retype_core (a : Option Seg) (l : List Point) : (retype a l).map Point.core = l.map Point.core := by
  induction l generalizing a with
  | nil => rfl
  | cons p ps ih =>
    cases h : p.seg with
    | none => rw [retype_cons_off a p ps h]; simp [ih]
    | some t => rw [retype_cons_on a p ps t h]; simp [ih, Point.core]

theorem retype_length (a : Option Seg) (l : List Point) : (retype a l).length = l.length := by
  have := congrArg List.length (retype_core a l)
  simpa using this

theorem retype_noOn (a : Option Seg) (l : List Point) (h : hasOn l = false) : retype a l = l := by
  induction l generalizing a with
  | nil => rfl
  | cons p ps ih =>
    obtain ⟨hp, hps⟩ := seg_none_of_hasOn_false h
    rw [retype_cons_off a p ps hp, ih _ hps]

theorem retype_append (a : Seg) (l1 l2 : List Point) :
    retype (some a) (l1 ++ l2) = retype (some a) l1 ++ retype (some (carry a l1)) l2 := by
  induction l1 generalizing a with
  | nil => rfl
  | cons p ps ih =>
    simp only [List.cons_append]
    cases h : p.seg with
    | none => rw [retype_cons_off _ p _ h, retype_cons_off _ p _ h, carry_cons_off a p ps h, ih]; rfl
    | some t => rw [retype_cons_on _ p _ t h, retype_cons_on _ p _ t h, carry_cons_on a p ps t h, ih]; rfl

theorem carry_append (a : Seg) (l1 l2 : List Point) : carry a (l1 ++ l2) = carry (carry a l1) l2 := by
  induction l1 generalizing a with
  | nil => rfl
  | cons p ps ih =>
    simp only [List.cons_append]
    cases h : p.seg with
    | none => rw [carry_cons_off _ p _ h, carry_cons_off a p ps h, ih]
    | some t => rw [carry_cons_on _ p _ t h, carry_cons_on a p ps t h, ih]

theorem Point.set_seg_self (p : Point) (t : Seg) (a : Option Seg) (h : p.seg = some t) :
    ({ ({ p with seg := a } : Point) with seg := some t } : Point) = p := by
  cases p; simp at h; simp [h]

/-- retyping the reversed list from the final carry undoes the retyping -/
theorem retype_reverse_inv (a : Seg) (l : List Point) :
    retype (some (carry a l)) (retype (some a) l).reverse = l.reverse ∧
    carry (carry a l) (retype (some a) l).reverse = a := by
  induction l generalizing a with
  | nil => exact ⟨rfl, rfl⟩
  | cons p ps ih =>
    cases h : p.seg with
    | none =>
      obtain ⟨ih1, ih2⟩ := ih a
      rw [retype_cons_off _ p ps h, carry_cons_off a p ps h, List.reverse_cons, retype_append, carry_append,
        ih1, ih2]
      constructor
      · rw [retype_cons_off _ p [] h]; simp [retype]
      · rw [carry_cons_off _ p [] h]; rfl
    | some t =>
      obtain ⟨ih1, ih2⟩ := ih t
      rw [retype_cons_on _ p ps t h, carry_cons_on a p ps t h, List.reverse_cons, retype_append, carry_append,
        ih1, ih2]
      constructor
      · rw [retype_cons_on _ _ [] a rfl]
        simp only [retype, List.reverse_cons]
        rw [Point.set_seg_self p t (some a) h]
      · rw [carry_cons_on _ _ [] a rfl]; rfl

theorem firstOnType?_eq_none {l : List Point} : firstOnType? l = none ↔ hasOn l = false := by
  induction l with
  | nil => simp [firstOnType?, hasOn]
  | cons p ps ih =>
    cases h : p.seg with
    | none => rw [firstOnType?_cons_off p ps h, hasOn_cons, h]; simpa using ih
    | some t => rw [firstOnType?_cons_on p ps t h, hasOn_cons, h]; simp

theorem carry_noOn (a : Seg) (l : List Point) (h : hasOn l = false) : carry a l = a := by
  induction l generalizing a with
  | nil => rfl
  | cons p ps ih =>
    obtain ⟨hp, hps⟩ := seg_none_of_hasOn_false h
    rw [carry_cons_off a p ps hp, ih a hps]

/-- the last on-curve type of the reversed list is the first on-curve type of the list -/
theorem carry_reverse_of_firstOnType? {l : List Point} {a : Seg} (h : firstOnType? l = some a) (x : Seg) :
    carry x l.reverse = a := by
  induction l generalizing x with
  | nil => simp [firstOnType?] at h
  | cons p ps ih =>
    rw [List.reverse_cons, carry_append]
    cases hs : p.seg with
    | none =>
      rw [firstOnType?_cons_off p ps hs] at h
      rw [ih h, carry_cons_off _ p [] hs]; rfl
    | some t =>
      rw [firstOnType?_cons_on p ps t hs] at h
      have hta : t = a := by simpa using h
      subst hta
      rw [carry_cons_on _ p [] t hs]; rfl

theorem firstOnType?_retype (x : Seg) (l : List Point) (h : hasOn l = true) :
    firstOnType? (retype (some x) l) = some x := by
  induction l with
  | nil => simp [hasOn] at h
  | cons p ps ih =>
    cases hs : p.seg with
    | none =>
      rw [retype_cons_off _ p ps hs, firstOnType?_cons_off p _ hs]
      apply ih
      rw [hasOn_cons, hs] at h
      simpa using h
    | some t =>
      rw [retype_cons_on _ p ps t hs, firstOnType?_cons_on _ _ x rfl]

theorem firstOnType?_append (l1 l2 : List Point) :
    firstOnType? (l1 ++ l2) = (firstOnType? l1).or (firstOnType? l2) := by
  induction l1 with
  | nil => simp [firstOnType?]
  | cons p ps ih =>
    simp only [List.cons_append]
    cases hs : p.seg with
    | none => rw [firstOnType?_cons_off p _ hs, firstOnType?_cons_off p _ hs, ih]
    | some t => rw [firstOnType?_cons_on p _ t hs, firstOnType?_cons_on p _ t hs]; rfl

theorem hasOn_reverse (l : List Point) : hasOn l.reverse = hasOn l := by
  simp [hasOn]

theorem hasOn_append (l1 l2 : List Point) : hasOn (l1 ++ l2) = (hasOn l1 || hasOn l2) := by
  simp [hasOn]

theorem hasOn_retype (a : Seg) (l : List Point) : hasOn (retype (some a) l) = hasOn l := by
  induction l generalizing a with
  | nil => rfl
  | cons p ps ih =>
    cases hs : p.seg with
    | none => rw [retype_cons_off _ p ps hs, hasOn_cons, hasOn_cons, ih]
    | some t => rw [retype_cons_on _ p ps t hs, hasOn_cons, hasOn_cons, hs]; rfl

/-! ### the two branches of `reversePoints` -/

theorem reversePoints_closed (p0 : Point) (rest : List Point) (h : p0.seg ≠ some .move) :
    reversePoints (p0 :: rest) = retype (firstOnType? (rest ++ [p0])) (p0 :: rest.reverse) := by
  simp [reversePoints, h]

theorem reversePoints_open (p0 : Point) (rest : List Point) (h : p0.seg = some .move) :
    reversePoints (p0 :: rest) = retype (some .move) (dropLeadingOff (p0 :: rest).reverse) := by
  simp [reversePoints, h]

theorem dropLeadingOff_of_head_on (p : Point) (ps : List Point) (h : p.onCurve = true) :
    dropLeadingOff (p :: ps) = p :: ps := by
  simp [dropLeadingOff, h]

theorem isOpen_cons (p : Point) (ps : List Point) : isOpen (p :: ps) = decide (p.seg = some .move) := rfl

/-- a type found in a list of points none of which is a `move` is not `move` -/
theorem firstOnType?_ne_move {l : List Point} {a : Seg} (h : firstOnType? l = some a)
    (hm : ∀ p ∈ l, p.seg ≠ some .move) : a ≠ .move := by
  induction l with
  | nil => simp [firstOnType?] at h
  | cons p ps ih =>
    cases hs : p.seg with
    | none =>
      rw [firstOnType?_cons_off p ps hs] at h
      exact ih h (fun q hq => hm q (List.mem_cons_of_mem _ hq))
    | some t =>
      rw [firstOnType?_cons_on p ps t hs] at h
      have hta : t = a := by simpa using h
      subst hta
      intro ht
      exact hm p (List.mem_cons_self ..) (by rw [hs, ht])

/-- Reversing a closed contour twice restores the point list. -/
theorem reverse_reverse_closed (p0 : Point) (rest : List Point) (hm : ∀ p ∈ p0 :: rest, p.seg ≠ some .move) :
    reversePoints (reversePoints (p0 :: rest)) = p0 :: rest := by
  have h0 : p0.seg ≠ some .move := hm p0 (List.mem_cons_self ..)
  rw [reversePoints_closed p0 rest h0]
  cases hf : firstOnType? (rest ++ [p0]) with
  | none =>
    -- no on-curve point at all: nothing is retyped
    have hno : hasOn (rest ++ [p0]) = false := firstOnType?_eq_none.1 hf
    have hno2 : hasOn (p0 :: rest.reverse) = false := by
      have : p0 :: rest.reverse = (rest ++ [p0]).reverse := by simp
      rw [this, hasOn_reverse]; exact hno
    rw [retype_noOn _ _ hno2, reversePoints_closed p0 rest.reverse h0]
    have hno3 : hasOn (p0 :: rest.reverse.reverse) = false := by
      simp only [List.reverse_reverse]
      have : hasOn (p0 :: rest) = hasOn (rest ++ [p0]) := by simp [hasOn, Bool.or_comm]
      rw [this]; exact hno
    rw [retype_noOn _ _ hno3]
    simp
  | some a =>
    have ha : a ≠ .move := by
      apply firstOnType?_ne_move hf
      intro p hp
      apply hm p
      simp only [List.mem_append, List.mem_singleton] at hp
      rcases hp with hp | rfl
      · exact List.mem_cons_of_mem _ hp
      · exact List.mem_cons_self ..
    -- the retyping is cyclically consistent: the carry at the end is the type it started with
    have hcy : carry a (p0 :: rest.reverse) = a := by
      have := carry_reverse_of_firstOnType? hf a
      simpa using this
    cases hs : p0.seg with
    | some t0 =>
      rw [carry_cons_on a p0 _ t0 hs] at hcy
      rw [retype_cons_on _ p0 _ t0 hs]
      have hhead : ({ p0 with seg := some a } : Point).seg ≠ some .move := by
        simp only [ne_eq, Option.some.injEq]; exact ha
      rw [reversePoints_closed _ _ hhead]
      -- the first on-curve type of the rotated list is t0
      have ha2 : firstOnType? (retype (some t0) rest.reverse ++ [({ p0 with seg := some a } : Point)]) = some t0 := by
        rw [firstOnType?_append]
        cases hon : hasOn rest.reverse with
        | true => rw [firstOnType?_retype t0 _ hon]; rfl
        | false =>
          rw [retype_noOn _ _ hon, firstOnType?_eq_none.2 hon]
          rw [carry_noOn _ _ hon] at hcy
          rw [firstOnType?_cons_on _ [] a rfl, hcy]; rfl
      rw [ha2, retype_cons_on _ _ _ a rfl]
      obtain ⟨hinv, _⟩ := retype_reverse_inv t0 rest.reverse
      rw [hcy] at hinv
      rw [hinv, Point.set_seg_self p0 t0 (some a) hs]
      simp
    | none =>
      rw [carry_cons_off a p0 _ hs] at hcy
      rw [retype_cons_off _ p0 _ hs]
      have hhead : p0.seg ≠ some .move := by rw [hs]; simp
      rw [reversePoints_closed _ _ hhead]
      have hon : hasOn rest.reverse = true := by
        rw [hasOn_reverse]
        have h1 : hasOn (rest ++ [p0]) = true := by
          cases hh : hasOn (rest ++ [p0]) with
          | true => rfl
          | false => rw [firstOnType?_eq_none.2 hh] at hf; cases hf
        rw [hasOn_append] at h1
        simpa [hasOn, Point.onCurve, hs] using h1
      have ha2 : firstOnType? (retype (some a) rest.reverse ++ [p0]) = some a := by
        rw [firstOnType?_append, firstOnType?_retype a _ hon]; rfl
      rw [ha2, retype_cons_off _ p0 _ hs]
      obtain ⟨hinv, _⟩ := retype_reverse_inv a rest.reverse
      rw [hcy] at hinv
      rw [hinv]
      simp

theorem getLast?_onCurve_reverse_head {l : List Point} (hne : l ≠ []) (h : endsOnCurve l = true) :
    ∃ q qs, l.reverse = q :: qs ∧ q.onCurve = true := by
  cases hl : l.reverse with
  | nil => simp at hl; exact absurd hl hne
  | cons q qs =>
    refine ⟨q, qs, rfl, ?_⟩
    have : l.getLast? = some q := by
      rw [List.getLast?_eq_head?_reverse, hl]; rfl
    simpa [endsOnCurve, this] using h

/-- Reversing an open contour that ends with an on-curve point twice restores the point list. -/
theorem reverse_reverse_open (p0 : Point) (rest : List Point) (h0 : p0.seg = some .move)
    (hend : endsOnCurve (p0 :: rest) = true) :
    reversePoints (reversePoints (p0 :: rest)) = p0 :: rest := by
  rw [reversePoints_open p0 rest h0]
  obtain ⟨q, qs, hq, hqon⟩ := getLast?_onCurve_reverse_head (l := p0 :: rest) (by simp) hend
  rw [hq, dropLeadingOff_of_head_on q qs hqon]
  -- the reversed list starts with an on-curve point, which becomes the `move`
  obtain ⟨tq, htq⟩ : ∃ tq, q.seg = some tq := by
    cases hs : q.seg with
    | none => simp [Point.onCurve, hs] at hqon
    | some tq => exact ⟨tq, rfl⟩
  have hR : retype (some .move) (q :: qs) = { q with seg := some .move } :: retype (some tq) qs :=
    retype_cons_on _ q qs tq htq
  rw [hR, reversePoints_open _ _ rfl]
  -- its reversal ends with the old first point, an on-curve point again
  have hrev : ({ q with seg := some Seg.move } :: retype (some tq) qs : List Point) = retype (some .move) (q :: qs) := hR.symm
  rw [hrev, ← hq]
  have hsplit : (p0 :: rest).reverse = rest.reverse ++ [p0] := by simp
  rw [hsplit, retype_append]
  rw [retype_cons_on _ p0 [] .move h0]
  simp only [retype, List.reverse_append, List.reverse_cons, List.reverse_nil, List.nil_append, List.singleton_append]
  rw [dropLeadingOff_of_head_on _ _ rfl, retype_cons_on _ _ _ (carry .move rest.reverse) rfl]
  obtain ⟨hinv, _⟩ := retype_reverse_inv .move rest.reverse
  rw [hinv, Point.set_seg_self p0 .move _ h0]
  simp

/-- Reversing twice restores the point sequence (closed contours; open contours that do not end
with off-curve points). -/
theorem reversePoints_reversePoints (pts : List Point) (h : ReversibleShape pts) :
    reversePoints (reversePoints pts) = pts := by
  match pts with
  | [] => rfl
  | p0 :: rest =>
    rcases h with ⟨h1, h2⟩ | ⟨h1, _, h3⟩
    · apply reverse_reverse_closed
      intro p hp
      simp only [noMove, List.all_eq_true, decide_eq_true_eq] at h2
      exact h2 p hp
    · apply reverse_reverse_open _ _ _ h3
      simpa [isOpen_cons] using h1

/-- Reversal keeps every point (position, smooth flag, name, identifier), in another order. -/
theorem reversePoints_perm (pts : List Point) (h : ReversibleShape pts) :
    ((reversePoints pts).map Point.core).Perm (pts.map Point.core) := by
  match pts with
  | [] => exact List.Perm.refl _
  | p0 :: rest =>
    rcases h with ⟨h1, _⟩ | ⟨h1, _, h3⟩
    · have h0 : p0.seg ≠ some .move := by simpa [isOpen_cons] using h1
      rw [reversePoints_closed p0 rest h0, retype_core]
      simp only [List.map_cons, List.map_reverse]
      exact List.Perm.cons _ (List.reverse_perm _)
    · have h0 : p0.seg = some .move := by simpa [isOpen_cons] using h1
      rw [reversePoints_open p0 rest h0]
      obtain ⟨q, qs, hq, hqon⟩ := getLast?_onCurve_reverse_head (l := p0 :: rest) (by simp) h3
      rw [hq, dropLeadingOff_of_head_on q qs hqon, retype_core, ← hq, List.map_reverse]
      exact List.reverse_perm _

/-- Reversal keeps closedness. -/
theorem reversePoints_isOpen (pts : List Point) (h : ReversibleShape pts) :
    isOpen (reversePoints pts) = isOpen pts := by
  match pts with
  | [] => rfl
  | p0 :: rest =>
    rcases h with ⟨h1, h2⟩ | ⟨h1, _, h3⟩
    · have h0 : p0.seg ≠ some .move := by simpa [isOpen_cons] using h1
      rw [reversePoints_closed p0 rest h0, h1]
      simp only [noMove, List.all_eq_true, decide_eq_true_eq] at h2
      cases hs : p0.seg with
      | none => rw [retype_cons_off _ p0 _ hs, isOpen_cons, hs]; simp
      | some t0 =>
        rw [retype_cons_on _ p0 _ t0 hs, isOpen_cons]
        cases hf : firstOnType? (rest ++ [p0]) with
        | none => simp
        | some a =>
          have ha : a ≠ .move := by
            apply firstOnType?_ne_move hf
            intro p hp
            apply h2 p
            simp only [List.mem_append, List.mem_singleton] at hp
            rcases hp with hp | rfl
            · exact List.mem_cons_of_mem _ hp
            · exact List.mem_cons_self ..
          simp [ha]
    · have h0 : p0.seg = some .move := by simpa [isOpen_cons] using h1
      rw [reversePoints_open p0 rest h0, h1]
      obtain ⟨q, qs, hq, hqon⟩ := getLast?_onCurve_reverse_head (l := p0 :: rest) (by simp) h3
      rw [hq, dropLeadingOff_of_head_on q qs hqon]
      obtain ⟨tq, htq⟩ : ∃ tq, q.seg = some tq := by
        cases hs : q.seg with
        | none => simp [Point.onCurve, hs] at hqon
        | some tq => exact ⟨tq, rfl⟩
      rw [retype_cons_on _ q qs tq htq, isOpen_cons]
      simp

/-- a closed contour keeps its first point first -/
theorem reversePoints_head_closed (p0 : Point) (rest : List Point) (h : p0.seg ≠ some .move) :
    ((reversePoints (p0 :: rest)).map Point.core).head? = some p0.core := by
  rw [reversePoints_closed p0 rest h, retype_core]
  rfl

end Geom
end DefconModel
