/-
M-Geom helper lemmas: how the three pens react to a translation of what they are fed.
-/
import DefconModel.Lemmas.Geom.Move

namespace DefconModel
namespace Geom

/-- a pen input made of whole sub paths: `moveTo`, drawing primitives, `closePath`/`endPath`, … -/
inductive Blocks : List Prim → Prop
  | nil : Blocks []
  | cons (p : Pt) (body : List Prim) (fin : Prim) (rest : List Prim) :
      (∀ pr ∈ body, pr.isDraw = true) → (fin = .closePath ∨ fin = .endPath) → Blocks rest →
      Blocks (.moveTo p :: (body ++ [fin]) ++ rest)

theorem Blocks.prims (pts : List Point) : Blocks (prims pts) := by
  rcases prims_shape pts with h | ⟨p, body, fin, h, hb, hf⟩
  · rw [h]; exact Blocks.nil
  · rw [h]
    have := Blocks.cons p body fin [] hb hf Blocks.nil
    simpa using this

theorem Blocks.append {a b : List Prim} (ha : Blocks a) (hb : Blocks b) : Blocks (a ++ b) := by
  induction ha with
  | nil => simpa using hb
  | cons p body fin rest h1 h2 _ ih =>
    have := Blocks.cons p body fin (rest ++ b) h1 h2 ih
    simpa [List.append_assoc] using this

variable (dx dy : Rat)

@[simp] theorem Prim.shift_pts (pr : Prim) : (pr.shift dx dy).pts = pr.pts.map (·.shift dx dy) := by
  cases pr <;> rfl

@[simp] theorem Prim.shift_isDraw (pr : Prim) : (pr.shift dx dy).isDraw = pr.isDraw := by
  cases pr <;> rfl

theorem Blocks.shift {ps : List Prim} (h : Blocks ps) : Blocks (ps.map (Prim.shift dx dy)) := by
  induction h with
  | nil => exact Blocks.nil
  | cons p body fin rest h1 h2 _ ih =>
    have := Blocks.cons (p.shift dx dy) (body.map (Prim.shift dx dy)) (fin.shift dx dy) _ ?_ ?_ ih
    · simpa [Prim.shift] using this
    · intro pr hpr
      simp only [List.mem_map] at hpr
      obtain ⟨q, hq, rfl⟩ := hpr
      simpa using h1 q hq
    · rcases h2 with rfl | rfl <;> simp [Prim.shift]

/-! ### ControlBoundsPen -/

theorem addPt_shift (b : Option Box) (p : Pt) :
    addPt (b.map (·.shift dx dy)) (p.shift dx dy) = (addPt b p).map (·.shift dx dy) := by
  cases b with
  | none => simp [addPt, Box.shift_ofPt]
  | some b => simp [addPt, Box.shift_add]

theorem foldl_addPt_shift (ps : List Pt) (b : Option Box) :
    (ps.map (·.shift dx dy)).foldl addPt (b.map (·.shift dx dy)) = (ps.foldl addPt b).map (·.shift dx dy) := by
  induction ps generalizing b with
  | nil => rfl
  | cons p ps ih => simp only [List.map_cons, List.foldl_cons, addPt_shift, ih]

theorem ctrlStep_shift (b : Option Box) (pr : Prim) :
    ctrlStep (b.map (·.shift dx dy)) (pr.shift dx dy) = (ctrlStep b pr).map (·.shift dx dy) := by
  simp only [ctrlStep, Prim.shift_pts, foldl_addPt_shift]

theorem ctrlFold_shift (ps : List Prim) (b : Option Box) :
    (ps.map (Prim.shift dx dy)).foldl ctrlStep (b.map (·.shift dx dy)) =
      (ps.foldl ctrlStep b).map (·.shift dx dy) := by
  induction ps generalizing b with
  | nil => rfl
  | cons p ps ih => simp only [List.map_cons, List.foldl_cons, ctrlStep_shift, ih]

/-- ControlBoundsPen on translated input gives the translated box -/
theorem ctrlBox_shift (ps : List Prim) :
    ctrlBox (ps.map (Prim.shift dx dy)) = (ctrlBox ps).map (·.shift dx dy) := by
  have := ctrlFold_shift dx dy ps none
  simpa [ctrlBox] using this

/-! ### BoundsPen -/

def BndSt.shift (st : BndSt) : BndSt :=
  { box := st.box.map (·.shift dx dy), cur := st.cur.shift dx dy, asked := st.asked }

theorem containsO_shift (b : Option Box) (p : Pt) :
    containsO (b.map (·.shift dx dy)) (p.shift dx dy) = containsO b p := by
  cases b with
  | none => rfl
  | some b => simp [containsO, Box.contains_shift]

theorem unionO_shift (b : Option Box) (c : Box) :
    unionO (b.map (·.shift dx dy)) (c.shift dx dy) = (unionO b c).map (·.shift dx dy) := by
  cases b with
  | none => rfl
  | some b => simp [unionO, Box.shift_union]

theorem bndStep_shift {o : CurveOracle} (ho : o.Lawful) (st : BndSt) (pr : Prim) :
    bndStep o (st.shift dx dy) (pr.shift dx dy) = (bndStep o st pr).shift dx dy := by
  cases pr with
  | moveTo p => simp [bndStep, BndSt.shift, Prim.shift, addPt_shift]
  | lineTo p => simp [bndStep, BndSt.shift, Prim.shift, addPt_shift]
  | closePath => rfl
  | endPath => rfl
  | curveTo a b p =>
    simp only [bndStep, Prim.shift, BndSt.shift, addPt_shift, containsO_shift]
    split
    · simp [addPt_shift]
    · simp [ho.cubic_shift, unionO_shift]
  | qCurveTo a p =>
    simp only [bndStep, Prim.shift, BndSt.shift, addPt_shift, containsO_shift]
    split
    · simp [addPt_shift]
    · simp [ho.quad_shift, unionO_shift]

theorem bndFold_shift {o : CurveOracle} (ho : o.Lawful) (ps : List Prim) (st : BndSt) :
    (ps.map (Prim.shift dx dy)).foldl (bndStep o) (st.shift dx dy) = (ps.foldl (bndStep o) st).shift dx dy := by
  induction ps generalizing st with
  | nil => rfl
  | cons p ps ih => simp only [List.map_cons, List.foldl_cons, bndStep_shift dx dy ho, ih]

theorem Blocks.head {ps : List Prim} (h : Blocks ps) : ps = [] ∨ ∃ p rest, ps = .moveTo p :: rest := by
  cases h with
  | nil => exact Or.inl rfl
  | cons p body fin rest _ _ _ => exact Or.inr ⟨p, _, rfl⟩

/-- BoundsPen on translated input gives the translated box (whole sub paths only: the first
`moveTo` makes the pen forget its initial current point) -/
theorem bndBox_shift {o : CurveOracle} (ho : o.Lawful) {ps : List Prim} (h : Blocks ps) :
    bndBox o (ps.map (Prim.shift dx dy)) = (bndBox o ps).map (·.shift dx dy) ∧
    (bndRun o (ps.map (Prim.shift dx dy))).asked = (bndRun o ps).asked := by
  rcases h.head with rfl | ⟨p, rest, rfl⟩
  · exact ⟨rfl, rfl⟩
  · have h1 : bndStep o {} (Prim.moveTo (p.shift dx dy)) = (bndStep o {} (Prim.moveTo p)).shift dx dy := by
      simp [bndStep, BndSt.shift, addPt, Box.shift_ofPt]
    have := bndFold_shift dx dy ho rest (bndStep o {} (Prim.moveTo p))
    simp only [bndBox, bndRun, List.map_cons, List.foldl_cons, Prim.shift, h1, this]
    exact ⟨rfl, rfl⟩

/-! ### AreaPen -/

/-- the states of AreaPen on an input and on its translation, inside a sub path (once the error
flag of the strict pen is up the value no longer matters) -/
structure AreaRel (st st' : AreaSt) : Prop where
  p0 : st'.p0 = st.p0.shift dx dy
  start : st'.start = st.start.shift dx dy
  value : st.openErr = false → st'.value = st.value - dy * (st.p0.x - st.start.x)
  openErr : st'.openErr = st.openErr

theorem areaLine_rel {st st' : AreaSt} (h : AreaRel dx dy st st') (p : Pt) :
    AreaRel dx dy (areaLine st p) (areaLine st' (p.shift dx dy)) := by
  obtain ⟨h1, h2, h3, h4⟩ := h
  refine ⟨rfl, h2, ?_, h4⟩
  intro hE
  simp only [areaLine, h1, h3 hE, Pt.shift]
  ring

theorem areaQuad_rel {st st' : AreaSt} (h : AreaRel dx dy st st') (a p : Pt) :
    AreaRel dx dy (areaQuad st a p) (areaQuad st' (a.shift dx dy) (p.shift dx dy)) := by
  unfold areaQuad
  apply areaLine_rel
  obtain ⟨h1, h2, h3, h4⟩ := h
  refine ⟨h1, h2, ?_, h4⟩
  intro hE
  simp only [h1, h3 hE, Pt.shift]
  ring

theorem areaCubic_rel {st st' : AreaSt} (h : AreaRel dx dy st st') (a b p : Pt) :
    AreaRel dx dy (areaCubic st a b p) (areaCubic st' (a.shift dx dy) (b.shift dx dy) (p.shift dx dy)) := by
  unfold areaCubic
  apply areaLine_rel
  obtain ⟨h1, h2, h3, h4⟩ := h
  refine ⟨h1, h2, ?_, h4⟩
  intro hE
  simp only [h1, h3 hE, Pt.shift]
  ring

theorem areaStep_draw_rel (ic : Bool) {st st' : AreaSt} (h : AreaRel dx dy st st') (pr : Prim)
    (hd : pr.isDraw = true) : AreaRel dx dy (areaStep ic st pr) (areaStep ic st' (pr.shift dx dy)) := by
  cases pr with
  | moveTo p => simp [Prim.isDraw] at hd
  | closePath => simp [Prim.isDraw] at hd
  | endPath => simp [Prim.isDraw] at hd
  | lineTo p => exact areaLine_rel dx dy h p
  | qCurveTo a p => exact areaQuad_rel dx dy h a p
  | curveTo a b p => exact areaCubic_rel dx dy h a b p

theorem areaFold_draw_rel (ic : Bool) (body : List Prim) (hb : ∀ pr ∈ body, pr.isDraw = true)
    {st st' : AreaSt} (h : AreaRel dx dy st st') :
    AreaRel dx dy (body.foldl (areaStep ic) st) ((body.map (Prim.shift dx dy)).foldl (areaStep ic) st') := by
  induction body generalizing st st' with
  | nil => exact h
  | cons pr body ih =>
    simp only [List.foldl_cons, List.map_cons]
    exact ih (fun q hq => hb q (List.mem_cons_of_mem _ hq))
      (areaStep_draw_rel dx dy ic h pr (hb pr (List.mem_cons_self ..)))

/-- between sub paths only the error flag and (without error) the accumulated value matter -/
def AreaSame (st st' : AreaSt) : Prop := st'.openErr = st.openErr ∧ (st.openErr = false → st'.value = st.value)

theorem areaLine_start_rel {st st' : AreaSt} (h : AreaRel dx dy st st') :
    AreaSame (areaLine st st.start) (areaLine st' st'.start) := by
  obtain ⟨h1, h2, h3, h4⟩ := h
  refine ⟨h4, ?_⟩
  intro hE
  simp only [areaLine, h1, h2, h3 hE, Pt.shift]
  ring

theorem areaStep_fin_rel (ic : Bool) {st st' : AreaSt} (h : AreaRel dx dy st st') (fin : Prim)
    (hf : fin = .closePath ∨ fin = .endPath) :
    AreaSame (areaStep ic st fin) (areaStep ic st' (fin.shift dx dy)) := by
  rcases hf with rfl | rfl
  · exact areaLine_start_rel dx dy h
  · simp only [areaStep, Prim.shift]
    cases ic with
    | true => simpa using areaLine_start_rel dx dy h
    | false =>
      obtain ⟨h1, h2, h3, h4⟩ := h
      have hiff : st'.p0 = st'.start ↔ st.p0 = st.start := by rw [h1, h2, Pt.shift_inj]
      by_cases hc : st.p0 = st.start
      · simp only [Bool.false_eq_true, if_false, hc, hiff.2 hc, if_true]
        refine ⟨h4, ?_⟩
        intro hE
        rw [h3 hE, hc]; ring
      · have hc' : ¬ st'.p0 = st'.start := fun hh => hc (hiff.1 hh)
        simp only [Bool.false_eq_true, if_false, hc, hc']
        exact ⟨rfl, by intro hE; simp at hE⟩

theorem areaStep_moveTo_rel (ic : Bool) {st st' : AreaSt} (h : AreaSame st st') (p : Pt) :
    AreaRel dx dy (areaStep ic st (.moveTo p)) (areaStep ic st' (.moveTo (p.shift dx dy))) := by
  obtain ⟨h1, h2⟩ := h
  refine ⟨rfl, rfl, ?_, h1⟩
  intro hE
  simp only [areaStep] at hE ⊢
  rw [h2 hE]; ring

/-- AreaPen accumulates the same value on translated input (whole sub paths only: the terms of
one sub path change by amounts that cancel when it closes) -/
theorem areaFold_shift (ic : Bool) {ps : List Prim} (h : Blocks ps) {st st' : AreaSt} (hs : AreaSame st st') :
    AreaSame (ps.foldl (areaStep ic) st) ((ps.map (Prim.shift dx dy)).foldl (areaStep ic) st') := by
  induction h generalizing st st' with
  | nil => exact hs
  | cons p body fin rest h1 h2 _ ih =>
    simp only [List.cons_append, List.map_cons, List.map_append, List.foldl_cons, List.foldl_append,
      List.foldl_nil, Prim.shift]
    apply ih
    apply areaStep_fin_rel dx dy ic _ fin h2
    apply areaFold_draw_rel dx dy ic body h1
    exact areaStep_moveTo_rel dx dy ic hs p

theorem areaRun_shift (ic : Bool) {ps : List Prim} (h : Blocks ps) :
    AreaSame (areaRun ic ps) (areaRun ic (ps.map (Prim.shift dx dy))) :=
  areaFold_shift dx dy ic h ⟨rfl, fun _ => rfl⟩

end Geom
end DefconModel
