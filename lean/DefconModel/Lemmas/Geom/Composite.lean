/-
M-Geom helper lemmas about whole glyphs with components: bounds within control bounds; the contour
caches stay coherent under the edits of the second layer; moving a glyph / setting its margins as
operations on the layer (the glyph is looked up again afterwards: it must not be its own base).
-/
import DefconModel.Lemmas.Geom.CacheLayer
import DefconModel.Lemmas.Geom.World

namespace DefconModel
namespace Geom

/-! ### bounds of a whole glyph lie within its control bounds -/

theorem unionOO_within {a b a' b' : Option Box} (h1 : OWithin a a') (h2 : OWithin b b') :
    OWithin (unionOO a b) (unionOO a' b') := by
  cases b with
  | none =>
    cases b' with
    | none => exact h1
    | some y' =>
      cases a with
      | none => trivial
      | some x =>
        cases a' with
        | none => exact h1.elim
        | some x' => exact Box.within_trans h1 (Box.within_union_left x' y')
  | some y =>
    cases b' with
    | none => exact h2.elim
    | some y' =>
      cases a with
      | none =>
        cases a' with
        | none => exact h2
        | some x' => exact Box.within_trans h2 (Box.within_union_right x' y')
      | some x =>
        cases a' with
        | none => exact h1.elim
        | some x' =>
          exact Box.union_within (Box.within_trans h1 (Box.within_union_left x' y'))
            (Box.within_trans h2 (Box.within_union_right x' y'))

theorem contour_bounds_within {o : CurveOracle} (ho : o.Lawful) (k : Bool) {c : Contour} (hc : c.CacheOK o)
    {b cb : Option Box} (hb : (c.getBounds o k).2 = .ok b) (hcb : (c.getCpb k).2 = .ok cb) : OWithin b cb := by
  rw [(hc.getBounds k).2.2] at hb
  rw [(hc.getCpb k).2.2] at hcb
  unfold answer at hb hcb
  cases he : drawErr c.points with
  | some e => rw [he] at hb; cases hb
  | none =>
    rw [he] at hb hcb
    cases hb; cases hcb
    exact bndBox_within_ctrlBox ho (Blocks.prims c.points)

theorem contoursBoxes_within {o : CurveOracle} (ho : o.Lawful) (k : Bool) (cs : List Contour)
    (hcs : ∀ c ∈ cs, c.CacheOK o) (accB accC : Option Box) (hacc : OWithin accB accC) (b cb : Option Box)
    (hb : (contoursBoxes (Contour.getBounds o k) cs accB).2 = .ok b)
    (hcb : (contoursBoxes (Contour.getCpb k) cs accC).2 = .ok cb) : OWithin b cb := by
  induction cs generalizing accB accC with
  | nil =>
    simp only [contoursBoxes] at hb hcb
    cases hb; cases hcb; exact hacc
  | cons c cs ih =>
    have hc := hcs c (List.mem_cons_self ..)
    have hrest : ∀ c ∈ cs, c.CacheOK o := fun c h => hcs c (List.mem_cons_of_mem _ h)
    simp only [contoursBoxes] at hb hcb
    cases h1 : c.getBounds o k with
    | mk c1 r1 =>
      cases h2 : c.getCpb k with
      | mk c2 r2 =>
        rw [h1] at hb
        rw [h2] at hcb
        cases r1 with
        | error e => cases hb
        | ok b1 =>
          cases r2 with
          | error e => cases hcb
          | ok b2 =>
            simp only at hb hcb
            have hw : OWithin b1 b2 :=
              contour_bounds_within ho k hc (by rw [h1]) (by rw [h2])
            exact ih hrest _ _ (unionOO_within hacc hw) hb hcb

theorem component_bounds_within {o : CurveOracle} (ho : o.Lawful) (w : World) (k : Component) {b c : Option Box}
    (hb : k.bounds o w = .ok b) (hc : k.cpb w = .ok c) : OWithin b c := by
  unfold Component.bounds at hb
  unfold Component.cpb at hc
  cases h : componentCalls w k with
  | error e => rw [h] at hb; cases hb
  | ok cs =>
    rw [h] at hb hc
    cases hb; cases hc
    exact bndBox_within_ctrlBox ho (Blocks.componentCalls w k cs h)

theorem componentsBoxes_within {o : CurveOracle} (ho : o.Lawful) (w : World) (ks : List Component)
    (accB accC : Option Box) (hacc : OWithin accB accC) (b cb : Option Box)
    (hb : componentsBoxes (Component.bounds o w) ks accB = .ok b)
    (hcb : componentsBoxes (Component.cpb w) ks accC = .ok cb) : OWithin b cb := by
  induction ks generalizing accB accC with
  | nil =>
    simp only [componentsBoxes] at hb hcb
    cases hb; cases hcb; exact hacc
  | cons k ks ih =>
    simp only [componentsBoxes] at hb hcb
    cases h1 : k.bounds o w with
    | error e => rw [h1] at hb; cases hb
    | ok b1 =>
      cases h2 : k.cpb w with
      | error e => rw [h2] at hcb; cases hcb
      | ok b2 =>
        rw [h1] at hb
        rw [h2] at hcb
        exact ih _ _ (unionOO_within hacc (component_bounds_within ho w k h1 h2)) hb hcb

/-- `glyph.bounds` lies within `glyph.controlPointBounds`: contours and components together -/
theorem Glyph.bounds_within_cpb {o : CurveOracle} (ho : o.Lawful) (w : World) (g : Glyph) (hg : g.CacheOK o)
    {b cb : Option Box} (hb : (g.getBounds o w).2 = .ok b) (hcb : (g.getCpb w).2 = .ok cb) : OWithin b cb := by
  simp only [Glyph.getBounds] at hb
  simp only [Glyph.getCpb] at hcb
  cases h1 : (contoursBoxes (Contour.getBounds o w.caching) g.contours none).2 with
  | error e => rw [h1] at hb; cases hb
  | ok a1 =>
    cases h2 : (contoursBoxes (Contour.getCpb w.caching) g.contours none).2 with
    | error e => rw [h2] at hcb; cases hcb
    | ok a2 =>
      rw [h1] at hb
      rw [h2] at hcb
      simp only [thenComponents] at hb hcb
      exact componentsBoxes_within ho w g.components a1 a2
        (contoursBoxes_within ho w.caching g.contours hg none none trivial a1 a2 h1 h2) b cb hb hcb

/-! ### the contour caches under the edits of the second layer -/

theorem editContour_cacheOK {o : CurveOracle} {w : World} (hw : w.CacheOK o) (name : String) (i : Nat)
    (f : List Point → Except Err (List Point)) : (editContour w name i f).1.CacheOK o := by
  unfold editContour
  apply onContour_cacheOK hw
  intro c hc
  cases f c.points with
  | error e => exact hc
  | ok pts => exact Contour.CacheOK.ofFresh o pts

theorem editComponent_cacheOK {o : CurveOracle} {w : World} (hw : w.CacheOK o) (name : String) (j : Nat)
    (f : Component → Component) : (editComponent w name j f).1.CacheOK o := by
  unfold editComponent
  apply onGlyph_cacheOK hw
  intro gl hg
  cases gl.components[j]? with
  | none => exact hg
  | some k => exact hg.congr rfl

theorem dropGlyph_cacheOK {o : CurveOracle} {w : World} (hw : w.CacheOK o) (name : String) :
    (dropGlyph w name).CacheOK o := by
  intro ng hng
  exact hw ng (List.mem_filter.1 hng).1

def XOp.fresh : XOp → Prop
  | .base op => op.fresh
  | _ => True

theorem xstep_cacheOK {o : CurveOracle} (ho : o.Lawful) {w : World} (hw : w.CacheOK o) (op : XOp) (hop : op.fresh) :
    (xstep o w op).1.CacheOK o := by
  cases op with
  | base op => exact step_cacheOK ho hw op hop
  | cSetPoint g i j x y => exact editContour_cacheOK hw g i _
  | cInsertPoint g i j p => exact editContour_cacheOK hw g i _
  | cRemovePoint g i j => exact editContour_cacheOK hw g i _
  | kSetT g j t => exact editComponent_cacheOK hw g j _
  | kSetBase g j b => exact editComponent_cacheOK hw g j _
  | gDelete g =>
    simp only [xstep]
    cases AL.get? w.glyphs g with
    | none => exact hw
    | some _ => exact dropGlyph_cacheOK hw g
  | gRename g new =>
    simp only [xstep]
    cases hg : AL.get? w.glyphs g with
    | none => exact hw
    | some gl =>
      simp only
      split_ifs
      · exact hw
      · exact hw
      · exact (dropGlyph_cacheOK hw g).putGlyph new (hw.get hg)

theorem xrun_cacheOK {o : CurveOracle} (ho : o.Lawful) (ops : List XOp) (hops : ∀ op ∈ ops, op.fresh) {w : World}
    (hw : w.CacheOK o) : (xrun o w ops).1.CacheOK o := by
  induction ops generalizing w with
  | nil => exact hw
  | cons op ops ih =>
    simp only [xrun]
    exact ih (fun op' h => hops op' (List.mem_cons_of_mem _ h))
      (xstep_cacheOK ho hw op (hops op (List.mem_cons_self ..)))

/-! ### a glyph that is not its own base, looked up again after it changed -/

/-- no component of `g` reaches the name `n` (within the nesting limit of the pens) -/
def Glyph.Avoids (w : World) (n : String) (g : Glyph) : Prop := ∀ k ∈ g.components, usesK w (nameIs n) k = false

theorem usesS_mono (w : World) (S : String → Bool) (f : Nat) :
    ∀ g, usesS w S (f + 1) g = false → usesS w S f g = false := by
  induction f with
  | zero => intro g _; rfl
  | succ f ih =>
    intro g h
    simp only [usesS, List.any_eq_false]
    intro k hk
    obtain ⟨hS, hrec⟩ := usesS_succ_false h k hk
    simp only [hS, Bool.false_or]
    cases hb : AL.get? w.glyphs k.base with
    | none => simp
    | some bg => simpa using ih bg (hrec bg hb)

theorem usesS_succ (w : World) (S : String → Bool) (f : Nat) (g : Glyph) :
    usesS w S (f + 1) g = g.components.any (fun k =>
      S k.base || match AL.get? w.glyphs k.base with
        | none => false
        | some bg => usesS w S f bg) := rfl

theorem Glyph.Avoids.usesS {w : World} {n : String} {g : Glyph} (h : g.Avoids w n) :
    usesS w (nameIs n) fuelDefault g = false := by
  apply usesS_mono
  rw [usesS_succ, List.any_eq_false]
  intro k hk
  have := h k hk
  unfold usesK at this
  exact Bool.eq_false_iff.1 this

theorem componentsBoxes_congr (get get' : Component → Except Err (Option Box)) (ks : List Component)
    (h : ∀ k ∈ ks, get' k = get k) (acc : Option Box) : componentsBoxes get' ks acc = componentsBoxes get ks acc := by
  induction ks generalizing acc with
  | nil => rfl
  | cons k ks ih =>
    simp only [componentsBoxes, h k (List.mem_cons_self ..)]
    cases get k with
    | error e => rfl
    | ok b => exact ih (fun k' hk' => h k' (List.mem_cons_of_mem _ hk')) _

/-- the bounds of a glyph that avoids `n` are the same in two layers that differ at `n` only -/
theorem Glyph.getBounds_layer {o : CurveOracle} {w w' : World} {n : String} (hw : w.AgreeOff (nameIs n) w')
    (hc : w'.caching = w.caching) (g : Glyph) (hg : g.Avoids w n) : g.getBounds o w' = g.getBounds o w := by
  simp only [Glyph.getBounds, hc]
  congr 1
  cases (contoursBoxes (Contour.getBounds o w.caching) g.contours none).2 with
  | error e => simp only [thenComponents]
  | ok acc =>
    simp only [thenComponents]
    exact componentsBoxes_congr _ _ _ (fun k hk => Component.bounds_congr hw (hg k hk)) acc

theorem Glyph.getCpb_layer {w w' : World} {n : String} (hw : w.AgreeOff (nameIs n) w')
    (hc : w'.caching = w.caching) (g : Glyph) (hg : g.Avoids w n) : g.getCpb w' = g.getCpb w := by
  simp only [Glyph.getCpb, hc]
  congr 1
  cases (contoursBoxes (Contour.getCpb w.caching) g.contours none).2 with
  | error e => simp only [thenComponents]
  | ok acc =>
    simp only [thenComponents]
    exact componentsBoxes_congr _ _ _ (fun k hk => Component.cpb_congr hw (hg k hk)) acc

theorem Glyph.area_layer {w w' : World} {n : String} (hw : w.AgreeOff (nameIs n) w') (g : Glyph) (hg : g.Avoids w n) :
    g.area w' = g.area w :=
  Glyph.area_congr hw (Glyph.SameOutline.refl g) hg.usesS

theorem usesK_base {w : World} {S : String → Bool} {k k' : Component} (h : k'.base = k.base) :
    usesK w S k' = usesK w S k := by
  simp only [usesK, h]

theorem Glyph.Avoids.move {w : World} {n : String} {g : Glyph} (h : g.Avoids w n) (dx dy : Rat) :
    (g.move dx dy).Avoids w n := by
  intro k hk
  simp only [Glyph.move, List.mem_map] at hk
  obtain ⟨k0, hk0, rfl⟩ := hk
  have : usesK w (nameIs n) (k0.move dx dy) = usesK w (nameIs n) k0 := usesK_base rfl
  rw [this]
  exact h k0 hk0

theorem Glyph.Avoids.congr {w : World} {n : String} {g g' : Glyph} (h : g.Avoids w n)
    (hk : g'.components = g.components) : g'.Avoids w n := by
  intro k hk'; rw [hk] at hk'; exact h k hk'

/-! ### `Glyph.move` and the margin setters as operations on the layer -/

theorem step_gMove {o : CurveOracle} {w : World} {n : String} {g : Glyph} (hg : AL.get? w.glyphs n = some g)
    (dx dy : Rat) : (step o w (.gMove n dx dy)).1 = putGlyph w n (g.move dx dy) := by
  simp only [step, onGlyph_some _ hg]

/-- moving the glyph named `n` and looking it up again: bounds and control bounds are the old ones
shifted, the area is the old one -/
theorem gMove_in_layer {o : CurveOracle} (ho : o.Lawful) {w : World} {n : String} {g : Glyph}
    (hg : AL.get? w.glyphs n = some g) (hself : g.Avoids w n) (dx dy : Rat) :
    AL.get? (step o w (.gMove n dx dy)).1.glyphs n = some (g.move dx dy) ∧
    ((g.move dx dy).getBounds o (step o w (.gMove n dx dy)).1).2 = (g.getBounds o w).2.map (Option.map (·.shift dx dy)) ∧
    ((g.move dx dy).getCpb (step o w (.gMove n dx dy)).1).2 = (g.getCpb w).2.map (Option.map (·.shift dx dy)) ∧
    (g.move dx dy).area (step o w (.gMove n dx dy)).1 = g.area w := by
  rw [step_gMove hg]
  have hw := agreeOff_putGlyph w n (g.move dx dy)
  refine ⟨get?_putGlyph_self _ _ _, ?_, ?_, ?_⟩
  · rw [Glyph.getBounds_layer hw rfl _ (hself.move dx dy), Glyph.getBounds_move dx dy ho]
  · rw [Glyph.getCpb_layer hw rfl _ (hself.move dx dy), Glyph.getCpb_move dx dy]
  · rw [Glyph.area_layer hw _ (hself.move dx dy), Glyph.area_move dx dy]

theorem marginsRes_congr {g g' : Glyph} (b : Option Box) (hw : g'.width = g.width) (hh : g'.height = g.height)
    (hv : g'.vo = g.vo) : marginsRes g' b = marginsRes g b := by
  simp only [marginsRes, rightMarginOf, bottomMarginOf, topMarginOf, hw, hh, hv]

theorem step_gMargins {o : CurveOracle} {w : World} {n : String} {g : Glyph} {b : Option Box}
    (hg : AL.get? w.glyphs n = some g) (hb : (g.getBounds o w).2 = .ok b) :
    (step o w (.gMargins n)).2 = marginsRes g b := by
  simp only [step, onGlyph_some _ hg]
  revert hb
  cases hr : g.getBounds o w with
  | mk g1 r =>
    intro hb
    simp only at hb
    subst hb
    simp only
    have : g1 = (g.getBounds o w).1 := by rw [hr]
    rw [this]
    exact marginsRes_congr b rfl rfl rfl

theorem step_gMetrics {o : CurveOracle} {w : World} {n : String} {g : Glyph} (hg : AL.get? w.glyphs n = some g) :
    (step o w (.gMetrics n)).2 = .metrics g.width g.height g.vo := by
  simp only [step, onGlyph_some _ hg]

theorem step_withBounds {o : CurveOracle} {w : World} {n : String} {g : Glyph} {b : Option Box}
    (f : Glyph → Option Box → Glyph) (hg : AL.get? w.glyphs n = some g) (hb : (g.getBounds o w).2 = .ok b) :
    (withBounds o w n f).1 = putGlyph w n (f (g.getBounds o w).1 b) := by
  simp only [withBounds, onGlyph_some _ hg]
  revert hb
  cases g.getBounds o w with
  | mk g1 r =>
    intro hb
    simp only at hb
    subst hb
    rfl

theorem getBounds_fst_components (o : CurveOracle) (w : World) (g : Glyph) :
    (g.getBounds o w).1.components = g.components := rfl

theorem setLeftMargin_avoids {w : World} {n : String} {g : Glyph} (h : g.Avoids w n) (b : Option Box) (v : Rat) :
    (setLeftMargin g b v).Avoids w n := by
  unfold setLeftMargin
  cases b with
  | none => exact h
  | some b =>
    simp only
    split_ifs
    · exact (h.move _ _).congr rfl
    · exact h

/-- what the four margins and the metrics of the glyph named `n` read after `leftMargin = v` -/
theorem setLeft_in_layer {o : CurveOracle} (ho : o.Lawful) {w : World} {n : String} {g : Glyph}
    (hg : AL.get? w.glyphs n = some g) (hself : g.Avoids w n) (b : Box) (v : Rat)
    (hb : (g.getBounds o w).2 = .ok (some b)) :
    (step o (step o w (.setLeft n v)).1 (.gMargins n)).2 =
      .margins (some v) (rightMarginOf g (some b)) (bottomMarginOf g (some b)) (topMarginOf g (some b)) ∧
    (step o (step o w (.setLeft n v)).1 (.gMetrics n)).2 = .metrics (g.width + (v - b.xMin)) g.height g.vo := by
  have hw2 : (step o w (.setLeft n v)).1 = putGlyph w n (setLeftMargin (g.getBounds o w).1 (some b) v) :=
    step_withBounds _ hg hb
  rw [hw2]
  have hg2 := get?_putGlyph_self w n (setLeftMargin (g.getBounds o w).1 (some b) v)
  have hself1 : (g.getBounds o w).1.Avoids w n := hself.congr (getBounds_fst_components o w g)
  have hself2 := setLeftMargin_avoids hself1 (some b) v
  have hbnd := setLeftMargin_bounds ho w g b v hb
  rw [← Glyph.getBounds_layer (agreeOff_putGlyph w n _) rfl _ hself2] at hbnd
  obtain ⟨hwid, hhei, hvo⟩ := setLeftMargin_metrics (g.getBounds o w).1 b v
  have hw1 : (g.getBounds o w).1.width = g.width := rfl
  have hh1 : (g.getBounds o w).1.height = g.height := rfl
  have hv1 : (g.getBounds o w).1.vo = g.vo := rfl
  refine ⟨?_, ?_⟩
  · rw [step_gMargins hg2 hbnd]
    simp only [marginsRes, leftMarginOf, rightMarginOf, bottomMarginOf, topMarginOf, Option.map_some, Box.shift,
      hwid, hhei, hvo, hw1, hh1, hv1, Res.margins.injEq, Option.some.injEq]
    refine ⟨by ring, by ring, ?_, ?_⟩
    · cases g.vo <;> simp
    · cases g.vo <;> simp
  · rw [step_gMetrics hg2, hwid, hhei, hvo, hw1, hh1, hv1]

theorem outline_setter_in_layer {o : CurveOracle} {w : World} {n : String} {g : Glyph}
    (hg : AL.get? w.glyphs n = some g) (hself : g.Avoids w n) (b : Box) (hb : (g.getBounds o w).2 = .ok (some b))
    (f : Glyph → Option Box → Glyph)
    (hf : (f (g.getBounds o w).1 (some b)).contours = (g.getBounds o w).1.contours ∧
      (f (g.getBounds o w).1 (some b)).components = (g.getBounds o w).1.components) :
    (withBounds o w n f).1 = putGlyph w n (f (g.getBounds o w).1 (some b)) ∧
    ((f (g.getBounds o w).1 (some b)).getBounds o (putGlyph w n (f (g.getBounds o w).1 (some b)))).2 = .ok (some b) := by
  refine ⟨step_withBounds f hg hb, ?_⟩
  have hself2 : (f (g.getBounds o w).1 (some b)).Avoids w n :=
    hself.congr (by rw [hf.2]; rfl)
  rw [Glyph.getBounds_layer (agreeOff_putGlyph w n _) rfl _ hself2,
    Glyph.getBounds_congr o w (g.getBounds o w).1 _ hf.1 hf.2, Glyph.getBounds_idem, hb]

theorem setRight_in_layer {o : CurveOracle} {w : World} {n : String} {g : Glyph}
    (hg : AL.get? w.glyphs n = some g) (hself : g.Avoids w n) (b : Box) (v : Rat)
    (hb : (g.getBounds o w).2 = .ok (some b)) :
    (step o (step o w (.setRight n v)).1 (.gMargins n)).2 =
      .margins (leftMarginOf (some b)) (some v) (bottomMarginOf g (some b)) (topMarginOf g (some b)) ∧
    (step o (step o w (.setRight n v)).1 (.gMetrics n)).2 =
      .metrics (g.width + (v - (g.width - b.xMax))) g.height g.vo := by
  obtain ⟨hc, hk, hh, hv⟩ := setRightMargin_outline (g.getBounds o w).1 (some b) v
  obtain ⟨hw2, hbnd⟩ := outline_setter_in_layer hg hself b hb (fun gl bx => setRightMargin gl bx v) ⟨hc, hk⟩
  obtain ⟨h1, h2⟩ := setRightMargin_law (g.getBounds o w).1 b v
  have hs : (step o w (.setRight n v)).1 = (withBounds o w n (fun gl bx => setRightMargin gl bx v)).1 := rfl
  rw [hs, hw2]
  have hg2 := get?_putGlyph_self w n (setRightMargin (g.getBounds o w).1 (some b) v)
  have hw1 : (g.getBounds o w).1.width = g.width := rfl
  have hh1 : (g.getBounds o w).1.height = g.height := rfl
  have hv1 : (g.getBounds o w).1.vo = g.vo := rfl
  refine ⟨?_, ?_⟩
  · rw [step_gMargins hg2 hbnd]
    simp only [marginsRes, h1, bottomMarginOf, topMarginOf, hh, hv, hh1, hv1]
  · rw [step_gMetrics hg2, h2, hh, hv]
    rfl

theorem setBottom_in_layer {o : CurveOracle} {w : World} {n : String} {g : Glyph}
    (hg : AL.get? w.glyphs n = some g) (hself : g.Avoids w n) (b : Box) (v old : Rat)
    (hb : (g.getBounds o w).2 = .ok (some b)) (hold : bottomMarginOf g (some b) = some old) :
    (step o (step o w (.setBottom n v)).1 (.gMargins n)).2 =
      .margins (leftMarginOf (some b)) (rightMarginOf g (some b)) (some v) (topMarginOf g (some b)) ∧
    ∃ vo', (step o (step o w (.setBottom n v)).1 (.gMetrics n)).2 = .metrics g.width (g.height + (v - old)) vo' := by
  obtain ⟨hc, hk, hwd⟩ := setBottomMargin_outline (g.getBounds o w).1 (some b) v
  obtain ⟨hw2, hbnd⟩ := outline_setter_in_layer hg hself b hb (fun gl bx => setBottomMargin gl bx v) ⟨hc, hk⟩
  have hold1 : bottomMarginOf (g.getBounds o w).1 (some b) = some old := hold
  obtain ⟨h1, h2, h3⟩ := setBottomMargin_law (g.getBounds o w).1 b v old hold1
  have hs : (step o w (.setBottom n v)).1 = (withBounds o w n (fun gl bx => setBottomMargin gl bx v)).1 := rfl
  rw [hs, hw2]
  have hg2 := get?_putGlyph_self w n (setBottomMargin (g.getBounds o w).1 (some b) v)
  refine ⟨?_, ?_⟩
  · rw [step_gMargins hg2 hbnd]
    simp only [marginsRes, h1, h2, rightMarginOf, hwd]
    rfl
  · exact ⟨_, by rw [step_gMetrics hg2, hwd, h3]; rfl⟩

theorem setTop_in_layer {o : CurveOracle} {w : World} {n : String} {g : Glyph}
    (hg : AL.get? w.glyphs n = some g) (hself : g.Avoids w n) (b : Box) (v old : Rat)
    (hb : (g.getBounds o w).2 = .ok (some b)) (hold : topMarginOf g (some b) = some old) :
    (step o (step o w (.setTop n v)).1 (.gMargins n)).2 =
      .margins (leftMarginOf (some b)) (rightMarginOf g (some b)) (bottomMarginOf g (some b)) (some v) ∧
    ∃ vo', (step o (step o w (.setTop n v)).1 (.gMetrics n)).2 = .metrics g.width (g.height + (v - old)) vo' := by
  obtain ⟨hc, hk, hwd⟩ := setTopMargin_outline (g.getBounds o w).1 (some b) v
  obtain ⟨hw2, hbnd⟩ := outline_setter_in_layer hg hself b hb (fun gl bx => setTopMargin gl bx v) ⟨hc, hk⟩
  have hold1 : topMarginOf (g.getBounds o w).1 (some b) = some old := hold
  obtain ⟨h1, h2, h3⟩ := setTopMargin_law (g.getBounds o w).1 b v old hold1
  have hs : (step o w (.setTop n v)).1 = (withBounds o w n (fun gl bx => setTopMargin gl bx v)).1 := rfl
  rw [hs, hw2]
  have hg2 := get?_putGlyph_self w n (setTopMargin (g.getBounds o w).1 (some b) v)
  refine ⟨?_, ?_⟩
  · rw [step_gMargins hg2 hbnd]
    simp only [marginsRes, h1, h2, rightMarginOf, hwd]
    rfl
  · exact ⟨_, by rw [step_gMetrics hg2, hwd, h3]; rfl⟩

end Geom
end DefconModel
