/-
M-Geom helper lemmas: what a component draws is the base glyph's outline under the component's
2×3 transformation — point by point (affine maps keep convex combinations, so Bézier points go to
Bézier points) and in area (AreaPen's Green sum scales with the determinant; the terms that do
not cancel when a sub path closes).
-/
import DefconModel.Lemmas.Geom.Composite

namespace DefconModel
namespace Geom

variable (t : Transform)

/-! ### nesting: a glyph drawn under `t` sends the `t`-images of what it sends when drawn plainly -/

theorem Transform.apply_compose (s : Transform) (p : Pt) : (t.compose s).apply p = t.apply (s.apply p) := by
  simp only [Transform.apply, Transform.compose, Pt.mk.injEq]
  constructor <;> ring

theorem Transform.compose_assoc (s r : Transform) : (t.compose s).compose r = t.compose (s.compose r) := by
  simp only [Transform.compose, Transform.mk.injEq]
  refine ⟨?_, ?_, ?_, ?_, ?_, ?_⟩ <;> ring

theorem Call.transform_compose (s : Transform) (c : Call) :
    c.transform (t.compose s) = (c.transform s).transform t := by
  cases c <;> simp [Call.transform, Transform.apply_compose, Function.comp_def]

theorem transformCalls_compose (s : Transform) (cs : List Call) :
    transformCalls (some (t.compose s)) cs = (transformCalls (some s) cs).map (Call.transform t) := by
  simp [transformCalls, Call.transform_compose, Function.comp_def]

theorem ownCalls_compose (s : Transform) (g : Glyph) :
    ownCalls (some (t.compose s)) g = mapCalls (Call.transform t) (ownCalls (some s) g) := by
  unfold ownCalls
  cases contoursErr g.contours with
  | some e => rfl
  | none => simp only [transformCalls_compose, mapCalls]

theorem ownCalls_some (g : Glyph) : ownCalls (some t) g = mapCalls (Call.transform t) (ownCalls none g) := by
  unfold ownCalls
  cases contoursErr g.contours with
  | some e => rfl
  | none => simp only [transformCalls, mapCalls]

theorem mapCalls_append (f : Call → Call) (cs : List Call) (r : Except Err (List Call)) :
    (match mapCalls f r with
      | .error e => (.error e : Except Err (List Call))
      | .ok cs2 => .ok (cs.map f ++ cs2)) =
    mapCalls f (match r with
      | .error e => .error e
      | .ok cs2 => .ok (cs ++ cs2)) := by
  cases r with
  | error e => rfl
  | ok cs2 => simp [mapCalls]

/-- one nesting step: drawing under `t ∘ s` = `t` applied to drawing under `s` -/
theorem foldl_compStep_compose (w : World) (rec : Option Transform → Glyph → Except Err (List Call))
    (hrec : ∀ (s : Transform) g, rec (some (t.compose s)) g = mapCalls (Call.transform t) (rec (some s) g))
    (s : Transform) (ks : List Component) (acc : Except Err (List Call)) :
    ks.foldl (compStep w rec (some (t.compose s))) (mapCalls (Call.transform t) acc) =
      mapCalls (Call.transform t) (ks.foldl (compStep w rec (some s)) acc) := by
  induction ks generalizing acc with
  | nil => rfl
  | cons k ks ih =>
    simp only [List.foldl_cons]
    have : compStep w rec (some (t.compose s)) (mapCalls (Call.transform t) acc) k =
        mapCalls (Call.transform t) (compStep w rec (some s) acc k) := by
      cases acc with
      | error e => rfl
      | ok cs =>
        simp only [compStep, mapCalls]
        cases AL.get? w.glyphs k.base with
        | none => rfl
        | some bg =>
          simp only [composeO, Transform.compose_assoc, hrec]
          exact mapCalls_append _ _ _
    rw [this, ih]

theorem glyphCalls_compose (w : World) (fuel : Nat) :
    ∀ (s : Transform) (g : Glyph),
      glyphCalls w fuel (some (t.compose s)) g = mapCalls (Call.transform t) (glyphCalls w fuel (some s) g) := by
  induction fuel with
  | zero => intro s g; rfl
  | succ fuel ih =>
    intro s g
    simp only [glyphCalls, ownCalls_compose]
    exact foldl_compStep_compose t w _ ih s _ _

theorem foldl_compStep_some (w : World) (fuel : Nat) (ks : List Component) (acc : Except Err (List Call)) :
    ks.foldl (compStep w (glyphCalls w fuel) (some t)) (mapCalls (Call.transform t) acc) =
      mapCalls (Call.transform t) (ks.foldl (compStep w (glyphCalls w fuel) none) acc) := by
  induction ks generalizing acc with
  | nil => rfl
  | cons k ks ih =>
    simp only [List.foldl_cons]
    have : compStep w (glyphCalls w fuel) (some t) (mapCalls (Call.transform t) acc) k =
        mapCalls (Call.transform t) (compStep w (glyphCalls w fuel) none acc k) := by
      cases acc with
      | error e => rfl
      | ok cs =>
        simp only [compStep, mapCalls]
        cases AL.get? w.glyphs k.base with
        | none => rfl
        | some bg =>
          simp only [composeO, glyphCalls_compose]
          exact mapCalls_append _ _ _
    rw [this, ih]

/-- A glyph drawn through `TransformPen(pen, t)` sends the `t`-images of the calls it sends to the
pen directly — on every nesting level. -/
theorem glyphCalls_some (w : World) (fuel : Nat) (g : Glyph) :
    glyphCalls w fuel (some t) g = mapCalls (Call.transform t) (glyphCalls w fuel none g) := by
  cases fuel with
  | zero => rfl
  | succ fuel =>
    simp only [glyphCalls, ownCalls_some]
    exact foldl_compStep_some t w fuel _ _

/-! ### points: the image of a point of the outline is a point of the image outline -/

theorem lerp_apply (p q : Pt) (s : Rat) : t.apply (Pt.lerp p q s) = Pt.lerp (t.apply p) (t.apply q) s := by
  simp only [Transform.apply, Pt.lerp, lerp, Pt.mk.injEq]
  constructor <;> ring

theorem bez2_apply (p a q : Pt) (s : Rat) : t.apply (Pt.bez2 p a q s) = Pt.bez2 (t.apply p) (t.apply a) (t.apply q) s := by
  simp only [Transform.apply, Pt.bez2, bez2, Pt.mk.injEq]
  constructor <;> ring

theorem bez3_apply (p a b q : Pt) (s : Rat) :
    t.apply (Pt.bez3 p a b q s) = Pt.bez3 (t.apply p) (t.apply a) (t.apply b) (t.apply q) s := by
  simp only [Transform.apply, Pt.bez3, bez3, Pt.mk.injEq]
  constructor <;> ring

theorem Prim.at_transform (s c : Pt) (pr : Prim) (τ : Rat) :
    (pr.transform t).at (t.apply s) (t.apply c) τ = t.apply (pr.at s c τ) := by
  cases pr <;> simp [Prim.transform, Prim.at, lerp_apply, bez2_apply, bez3_apply]

theorem Prim.endPt_transform (c : Pt) (pr : Prim) : (pr.transform t).endPt (t.apply c) = t.apply (pr.endPt c) := by
  cases pr <;> rfl

theorem Prim.pts_transform (pr : Prim) : (pr.transform t).pts = pr.pts.map t.apply := by
  cases pr <;> rfl

def stMap (st : Option (Pt × Pt)) : Option (Pt × Pt) := st.map (fun sc => (t.apply sc.1, t.apply sc.2))

theorem nextState_transform (st : Option (Pt × Pt)) (pr : Prim) :
    nextState (stMap t st) (pr.transform t) = stMap t (nextState st pr) := by
  cases pr <;> cases st <;> simp [nextState, stMap, Prim.transform, Prim.endPt]

theorem OnPrim.transform {st : Option (Pt × Pt)} {pr : Prim} {q : Pt} (h : OnPrim st pr q) :
    OnPrim (stMap t st) (pr.transform t) (t.apply q) := by
  cases st with
  | none =>
    simp only [OnPrim, stMap, Option.map_none] at h ⊢
    rw [Prim.pts_transform]
    exact List.mem_map_of_mem h
  | some sc =>
    obtain ⟨s, c⟩ := sc
    simp only [OnPrim, stMap, Option.map_some] at h ⊢
    obtain ⟨τ, h0, h1, rfl⟩ := h
    exact ⟨τ, h0, h1, (Prim.at_transform t s c pr τ).symm⟩

theorem OnPath.transform {ps : List Prim} {st : Option (Pt × Pt)} {q : Pt} (h : OnPath st ps q) :
    OnPath (stMap t st) (ps.map (Prim.transform t)) (t.apply q) := by
  induction ps generalizing st with
  | nil => exact h.elim
  | cons pr r ih =>
    simp only [OnPath, List.map_cons] at h ⊢
    rcases h with h | h
    · exact Or.inl (OnPrim.transform t h)
    · right
      rw [nextState_transform]
      exact ih h

/-! ### area: AreaPen's sum over the image is the determinant times the sum over the original -/

/-- the part of AreaPen's running value that depends on where the sub path stands (it cancels when
the sub path closes) -/
def areaK (p : Pt) : Rat :=
  t.det * (p.x * p.y / 2) + (t.dx * (t.xy * p.x + t.yy * p.y) - t.dy * (t.xx * p.x + t.yx * p.y)) / 2 -
    (t.apply p).x * (t.apply p).y / 2

/-- the states of AreaPen on an input and on its image, inside a sub path -/
structure AreaRelT (st st' : AreaSt) : Prop where
  p0 : st'.p0 = t.apply st.p0
  start : st'.start = t.apply st.start
  value : st.openErr = false →
    st'.openErr = false ∧ st'.value = t.det * st.value + areaK t st.p0 - areaK t st.start

/-- … and between sub paths -/
def AreaSameT (st st' : AreaSt) : Prop :=
  st.openErr = false → st'.openErr = false ∧ st'.value = t.det * st.value

theorem areaLine_relT {st st' : AreaSt} (h : AreaRelT t st st') (p : Pt) :
    AreaRelT t (areaLine st p) (areaLine st' (t.apply p)) := by
  obtain ⟨h1, h2, h3⟩ := h
  refine ⟨rfl, h2, ?_⟩
  intro hE
  obtain ⟨hE', hv⟩ := h3 hE
  refine ⟨hE', ?_⟩
  simp only [areaLine, h1, hv, areaK, Transform.apply, Transform.det]
  ring

theorem areaQuad_relT {st st' : AreaSt} (h : AreaRelT t st st') (a p : Pt) :
    AreaRelT t (areaQuad st a p) (areaQuad st' (t.apply a) (t.apply p)) := by
  unfold areaQuad
  apply areaLine_relT
  obtain ⟨h1, h2, h3⟩ := h
  refine ⟨h1, h2, ?_⟩
  intro hE
  obtain ⟨hE', hv⟩ := h3 hE
  refine ⟨hE', ?_⟩
  simp only [h1, hv, Transform.apply, Transform.det]
  ring

theorem areaCubic_relT {st st' : AreaSt} (h : AreaRelT t st st') (a b p : Pt) :
    AreaRelT t (areaCubic st a b p) (areaCubic st' (t.apply a) (t.apply b) (t.apply p)) := by
  unfold areaCubic
  apply areaLine_relT
  obtain ⟨h1, h2, h3⟩ := h
  refine ⟨h1, h2, ?_⟩
  intro hE
  obtain ⟨hE', hv⟩ := h3 hE
  refine ⟨hE', ?_⟩
  simp only [h1, hv, Transform.apply, Transform.det]
  ring

theorem areaStep_draw_relT (ic : Bool) {st st' : AreaSt} (h : AreaRelT t st st') (pr : Prim)
    (hd : pr.isDraw = true) : AreaRelT t (areaStep ic st pr) (areaStep ic st' (pr.transform t)) := by
  cases pr with
  | moveTo p => simp [Prim.isDraw] at hd
  | closePath => simp [Prim.isDraw] at hd
  | endPath => simp [Prim.isDraw] at hd
  | lineTo p => exact areaLine_relT t h p
  | qCurveTo a p => exact areaQuad_relT t h a p
  | curveTo a b p => exact areaCubic_relT t h a b p

theorem areaFold_draw_relT (ic : Bool) (body : List Prim) (hb : ∀ pr ∈ body, pr.isDraw = true)
    {st st' : AreaSt} (h : AreaRelT t st st') :
    AreaRelT t (body.foldl (areaStep ic) st) ((body.map (Prim.transform t)).foldl (areaStep ic) st') := by
  induction body generalizing st st' with
  | nil => exact h
  | cons pr body ih =>
    simp only [List.foldl_cons, List.map_cons]
    exact ih (fun q hq => hb q (List.mem_cons_of_mem _ hq))
      (areaStep_draw_relT t ic h pr (hb pr (List.mem_cons_self ..)))

theorem areaLine_start_relT {st st' : AreaSt} (h : AreaRelT t st st') :
    AreaSameT t (areaLine st st.start) (areaLine st' st'.start) := by
  obtain ⟨h1, h2, h3⟩ := h
  intro hE
  obtain ⟨hE', hv⟩ := h3 hE
  refine ⟨hE', ?_⟩
  simp only [areaLine, h1, h2, hv, areaK, Transform.apply, Transform.det]
  ring

theorem areaStep_fin_relT (ic : Bool) {st st' : AreaSt} (h : AreaRelT t st st') (fin : Prim)
    (hf : fin = .closePath ∨ fin = .endPath) :
    AreaSameT t (areaStep ic st fin) (areaStep ic st' (fin.transform t)) := by
  rcases hf with rfl | rfl
  · exact areaLine_start_relT t h
  · simp only [areaStep, Prim.transform]
    cases ic with
    | true => simpa using areaLine_start_relT t h
    | false =>
      obtain ⟨h1, h2, h3⟩ := h
      by_cases hc : st.p0 = st.start
      · have hc' : st'.p0 = st'.start := by rw [h1, h2, hc]
        simp only [Bool.false_eq_true, if_false, hc, hc', if_true]
        intro hE
        obtain ⟨hE', hv⟩ := h3 hE
        refine ⟨hE', ?_⟩
        rw [hv, hc]; ring
      · simp only [Bool.false_eq_true, if_false, hc]
        intro hE
        simp at hE

theorem areaStep_moveTo_relT (ic : Bool) {st st' : AreaSt} (h : AreaSameT t st st') (p : Pt) :
    AreaRelT t (areaStep ic st (.moveTo p)) (areaStep ic st' (.moveTo (t.apply p))) := by
  refine ⟨rfl, rfl, ?_⟩
  intro hE
  simp only [areaStep] at hE ⊢
  obtain ⟨hE', hv⟩ := h hE
  exact ⟨hE', by rw [hv]; ring⟩

theorem areaFold_transform (ic : Bool) {ps : List Prim} (h : Blocks ps) {st st' : AreaSt} (hs : AreaSameT t st st') :
    AreaSameT t (ps.foldl (areaStep ic) st) ((ps.map (Prim.transform t)).foldl (areaStep ic) st') := by
  induction h generalizing st st' with
  | nil => exact hs
  | cons p body fin rest h1 h2 _ ih =>
    simp only [List.cons_append, List.map_cons, List.map_append, List.foldl_cons, List.foldl_append,
      List.foldl_nil, Prim.transform]
    apply ih
    apply areaStep_fin_relT t ic _ fin h2
    apply areaFold_draw_relT t ic body h1
    exact areaStep_moveTo_relT t ic hs p

/-- AreaPen over the image of whole sub paths: no "open contour" error where the original has none,
and the determinant times the original value -/
theorem areaRun_transform (ic : Bool) {ps : List Prim} (h : Blocks ps) :
    AreaSameT t (areaRun ic ps) (areaRun ic (ps.map (Prim.transform t))) :=
  areaFold_transform t ic h (fun _ => ⟨rfl, by simp⟩)

/-! ### area: sub paths add up -/

/-- two AreaPen states at the same place, the first ahead by `d` (and by the error flag `a`) -/
def AreaOff (d : Rat) (a : Bool) (st1 st0 : AreaSt) : Prop :=
  st1.p0 = st0.p0 ∧ st1.start = st0.start ∧ st1.value = st0.value + d ∧ st1.openErr = (a || st0.openErr)

theorem areaStep_off (ic : Bool) {d : Rat} {a : Bool} {st1 st0 : AreaSt} (h : AreaOff d a st1 st0) (pr : Prim) :
    AreaOff d a (areaStep ic st1 pr) (areaStep ic st0 pr) := by
  obtain ⟨h1, h2, h3, h4⟩ := h
  cases pr with
  | moveTo p => exact ⟨rfl, rfl, h3, h4⟩
  | lineTo p => refine ⟨rfl, h2, ?_, h4⟩; simp only [areaStep, areaLine, h1, h3]; ring
  | qCurveTo q p => refine ⟨rfl, h2, ?_, h4⟩; simp only [areaStep, areaQuad, areaLine, h1, h3]; ring
  | curveTo q r p => refine ⟨rfl, h2, ?_, h4⟩; simp only [areaStep, areaCubic, areaLine, h1, h3]; ring
  | closePath => refine ⟨h2, h2, ?_, h4⟩; simp only [areaStep, areaLine, h1, h2, h3]; ring
  | endPath =>
    simp only [areaStep]
    cases ic with
    | true => refine ⟨h2, h2, ?_, h4⟩; simp only [if_true, areaLine, h1, h2, h3]; ring
    | false =>
      simp only [Bool.false_eq_true, if_false, h1, h2]
      by_cases hc : st0.p0 = st0.start
      · simp only [hc, if_true]; exact ⟨h1, h2, h3, h4⟩
      · simp only [hc, if_false]; exact ⟨rfl, rfl, h3, by simp⟩

theorem areaFold_off (ic : Bool) (ps : List Prim) {d : Rat} {a : Bool} {st1 st0 : AreaSt} (h : AreaOff d a st1 st0) :
    AreaOff d a (ps.foldl (areaStep ic) st1) (ps.foldl (areaStep ic) st0) := by
  induction ps generalizing st1 st0 with
  | nil => exact h
  | cons pr ps ih => exact ih (areaStep_off ic h pr)

/-- AreaPen run from any state over whole sub paths: its own result on them, added -/
theorem areaFold_blocks (ic : Bool) {ps : List Prim} (h : Blocks ps) (st : AreaSt) :
    (ps.foldl (areaStep ic) st).value = st.value + (areaRun ic ps).value ∧
    (ps.foldl (areaStep ic) st).openErr = (st.openErr || (areaRun ic ps).openErr) := by
  rcases h.head with rfl | ⟨p, rest, rfl⟩
  · simp [areaRun]
  · have h0 : AreaOff st.value st.openErr (areaStep ic st (.moveTo p)) (areaStep ic {} (.moveTo p)) :=
      ⟨rfl, rfl, by simp [areaStep], by simp [areaStep]⟩
    obtain ⟨_, _, h3, h4⟩ := areaFold_off ic rest h0
    simp only [areaRun, List.foldl_cons]
    exact ⟨by rw [h3]; ring, h4⟩

/-- the value AreaPen accumulates over two lists of whole sub paths is the sum of the two -/
theorem areaRun_append (ic : Bool) (a : List Prim) {b : List Prim} (hb : Blocks b) :
    (areaRun ic (a ++ b)).value = (areaRun ic a).value + (areaRun ic b).value ∧
    (areaRun ic (a ++ b)).openErr = ((areaRun ic a).openErr || (areaRun ic b).openErr) := by
  have := areaFold_blocks ic hb (areaRun ic a)
  simpa [areaRun, List.foldl_append] using this

end Geom
end DefconModel
