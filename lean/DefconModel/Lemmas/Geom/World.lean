/-
M-Geom helper lemmas: every operation keeps the cached representations coherent.
-/
import DefconModel.Lemmas.Geom.Glyph

namespace DefconModel
namespace Geom

variable {o : CurveOracle}

theorem World.CacheOK.putGlyph {w : World} (hw : w.CacheOK o) (name : String) {g : Glyph} (hg : g.CacheOK o) :
    (putGlyph w name g).CacheOK o := by
  intro ng hng
  rcases AL.mem_set hng with rfl | h
  · exact hg
  · exact hw ng h

theorem World.CacheOK.get {w : World} (hw : w.CacheOK o) {name : String} {g : Glyph}
    (h : AL.get? w.glyphs name = some g) : g.CacheOK o :=
  hw (name, g) (AL.mem_of_get? h)

theorem Glyph.CacheOK.setContour {g : Glyph} (hg : g.CacheOK o) (i : Nat) {c : Contour} (hc : c.CacheOK o) :
    ({ g with contours := setAt g.contours i c } : Glyph).CacheOK o := by
  intro c' hc'
  simp only [setAt] at hc'
  rcases List.mem_or_eq_of_mem_set hc' with h | rfl
  · exact hg c' h
  · exact hc

theorem onContour_cacheOK {w : World} (hw : w.CacheOK o) (name : String) (i : Nat) (f : Contour → Contour × Res)
    (hf : ∀ c, c.CacheOK o → (f c).1.CacheOK o) : (onContour w name i f).1.CacheOK o := by
  unfold onContour
  cases hg : AL.get? w.glyphs name with
  | none => exact hw
  | some g =>
    simp only
    cases hc : g.contours[i]? with
    | none => exact hw
    | some c =>
      simp only [putContour]
      apply hw.putGlyph
      apply (hw.get hg).setContour
      exact hf c ((hw.get hg) c (List.mem_of_getElem? hc))

theorem onGlyph_cacheOK {w : World} (hw : w.CacheOK o) (name : String) (f : Glyph → Glyph × Res)
    (hf : ∀ g, g.CacheOK o → (f g).1.CacheOK o) : (onGlyph w name f).1.CacheOK o := by
  unfold onGlyph
  cases hg : AL.get? w.glyphs name with
  | none => exact hw
  | some g => exact hw.putGlyph name (hf g (hw.get hg))

theorem contoursBoxes_cacheOK (get : Contour → Contour × Except Err (Option Box))
    (hget : ∀ c, c.CacheOK o → (get c).1.CacheOK o) (cs : List Contour) (acc : Option Box)
    (hcs : ∀ c ∈ cs, c.CacheOK o) : ∀ c ∈ (contoursBoxes get cs acc).1, c.CacheOK o := by
  induction cs generalizing acc with
  | nil => intro c hc; simp [contoursBoxes] at hc
  | cons c0 cs ih =>
    have h0 := hget c0 (hcs c0 (List.mem_cons_self ..))
    have hrest : ∀ c ∈ cs, c.CacheOK o := fun c hc => hcs c (List.mem_cons_of_mem _ hc)
    simp only [contoursBoxes]
    cases hg : get c0 with
    | mk c' r =>
      rw [hg] at h0
      cases r with
      | error e =>
        intro c hc
        simp only [List.mem_cons] at hc
        rcases hc with rfl | hc
        · exact h0
        · exact hrest c hc
      | ok b =>
        intro c hc
        simp only [List.mem_cons] at hc
        rcases hc with rfl | hc
        · exact h0
        · exact ih _ hrest c hc

theorem Glyph.CacheOK.getBounds {g : Glyph} (hg : g.CacheOK o) (w : World) : (g.getBounds o w).1.CacheOK o :=
  contoursBoxes_cacheOK _ (fun _ hc => (hc.getBounds w.caching).1) g.contours none hg

theorem Glyph.CacheOK.getCpb {g : Glyph} (hg : g.CacheOK o) (w : World) : (g.getCpb w).1.CacheOK o :=
  contoursBoxes_cacheOK _ (fun _ hc => (hc.getCpb w.caching).1) g.contours none hg

theorem Glyph.CacheOK.move (ho : o.Lawful) {g : Glyph} (hg : g.CacheOK o) (dx dy : Rat) :
    (g.move dx dy).CacheOK o := by
  intro c hc
  simp only [Glyph.move, List.mem_map] at hc
  obtain ⟨c0, hc0, rfl⟩ := hc
  exact (hg c0 hc0).move dx dy ho

/-- a change that leaves the contours alone keeps the invariant -/
theorem Glyph.CacheOK.congr {g g' : Glyph} (hg : g.CacheOK o) (h : g'.contours = g.contours) : g'.CacheOK o := by
  intro c hc; rw [h] at hc; exact hg c hc

theorem withBounds_cacheOK {w : World} (hw : w.CacheOK o) (name : String) (f : Glyph → Option Box → Glyph)
    (hf : ∀ g b, g.CacheOK o → (f g b).CacheOK o) : (withBounds o w name f).1.CacheOK o := by
  unfold withBounds
  apply onGlyph_cacheOK hw
  intro g hg
  have h1 := hg.getBounds w
  cases hr : g.getBounds o w with
  | mk g1 r =>
    rw [hr] at h1
    cases r with
    | error e => exact h1
    | ok b => exact hf g1 b h1

theorem setLeftMargin_cacheOK (ho : o.Lawful) {g : Glyph} (hg : g.CacheOK o) (b : Option Box) (v : Rat) :
    (setLeftMargin g b v).CacheOK o := by
  unfold setLeftMargin
  cases b with
  | none => exact hg
  | some b =>
    simp only
    split_ifs
    · exact (hg.move ho _ _).congr rfl
    · exact hg

/-- Every operation keeps every cached representation equal to what its factory would compute
from the current points. -/
theorem step_cacheOK (ho : o.Lawful) {w : World} (hw : w.CacheOK o) (op : Op) (hop : op.fresh) :
    (step o w op).1.CacheOK o := by
  cases op with
  | newGlyph name g =>
    apply hw.putGlyph
    intro c hc
    obtain ⟨h1, h2, h3⟩ := hop c hc
    exact ⟨(by intro b hb; rw [h1] at hb; cases hb), (by intro b hb; rw [h2] at hb; cases hb),
      (by intro a ha; rw [h3] at ha; cases ha)⟩
  | cBounds g i => exact onContour_cacheOK hw _ _ _ (fun c hc => (hc.getBounds w.caching).1)
  | cCpb g i => exact onContour_cacheOK hw _ _ _ (fun c hc => (hc.getCpb w.caching).1)
  | cArea g i => exact onContour_cacheOK hw _ _ _ (fun c hc => (hc.getArea w.caching).1)
  | cOpen g i => exact onContour_cacheOK hw _ _ _ (fun c hc => hc)
  | cPoints g i => exact onContour_cacheOK hw _ _ _ (fun c hc => hc)
  | cSegments g i => exact onContour_cacheOK hw _ _ _ (fun c hc => hc)
  | kBounds g j =>
    apply onGlyph_cacheOK hw; intro gl hg; split <;> exact hg
  | kCpb g j =>
    apply onGlyph_cacheOK hw; intro gl hg; split <;> exact hg
  | kTransform g j =>
    apply onGlyph_cacheOK hw; intro gl hg; split <;> exact hg
  | gBounds g => exact onGlyph_cacheOK hw _ _ (fun gl hg => hg.getBounds w)
  | gCpb g => exact onGlyph_cacheOK hw _ _ (fun gl hg => hg.getCpb w)
  | gArea g => exact onGlyph_cacheOK hw _ _ (fun gl hg => hg)
  | gMargins g =>
    apply onGlyph_cacheOK hw; intro gl hg
    have h1 := hg.getBounds w
    cases hr : gl.getBounds o w with
    | mk g1 r => rw [hr] at h1; cases r <;> exact h1
  | gMetrics g => exact onGlyph_cacheOK hw _ _ (fun gl hg => hg)
  | gAnchors g => exact onGlyph_cacheOK hw _ _ (fun gl hg => hg)
  | gImage g => exact onGlyph_cacheOK hw _ _ (fun gl hg => hg)
  | cMove g i dx dy => exact onContour_cacheOK hw _ _ _ (fun c hc => hc.move dx dy ho)
  | cReverse g i =>
    apply onContour_cacheOK hw; intro c hc
    have h1 := (hc.getArea w.caching).1
    cases hr : c.getArea w.caching with
    | mk c1 r =>
      rw [hr] at h1
      cases r with
      | error e => exact h1
      | ok a => exact Contour.CacheOK.reverse o c1
  | cSetStart g i index =>
    apply onContour_cacheOK hw; intro c hc
    cases hr : c.setStartPoint index with
    | error e => exact hc
    | ok c' => exact hc.setStartPoint index hr
  | cSetClockwise g i value =>
    apply onContour_cacheOK hw; intro c hc
    have h1 := (hc.getArea w.caching).1
    unfold Contour.setClockwise
    cases hr : c.getArea w.caching with
    | mk c1 r =>
      rw [hr] at h1
      cases r with
      | error e => exact h1
      | ok a =>
        simp only
        split_ifs
        · exact Contour.CacheOK.reverse o c1
        · exact h1
  | kMove g j dx dy =>
    apply onGlyph_cacheOK hw; intro gl hg; split
    · exact hg
    · exact hg.congr rfl
  | aMove g j dx dy =>
    apply onGlyph_cacheOK hw; intro gl hg; split
    · exact hg
    · exact hg.congr rfl
  | iMove g dx dy => exact onGlyph_cacheOK hw _ _ (fun gl hg => hg.congr rfl)
  | gMove g dx dy => exact onGlyph_cacheOK hw _ _ (fun gl hg => hg.move ho dx dy)
  | setLeft g v => exact withBounds_cacheOK hw _ _ (fun gl b hg => setLeftMargin_cacheOK ho hg b v)
  | setRight g v =>
    exact withBounds_cacheOK hw _ _ (fun gl b hg => hg.congr (setRightMargin_outline gl b v).1)
  | setBottom g v =>
    exact withBounds_cacheOK hw _ _ (fun gl b hg => hg.congr (setBottomMargin_outline gl b v).1)
  | setTop g v =>
    exact withBounds_cacheOK hw _ _ (fun gl b hg => hg.congr (setTopMargin_outline gl b v).1)
  | setWidth g v => exact onGlyph_cacheOK hw _ _ (fun gl hg => hg.congr rfl)
  | setHeight g v => exact onGlyph_cacheOK hw _ _ (fun gl hg => hg.congr rfl)
  | setVO g v => exact onGlyph_cacheOK hw _ _ (fun gl hg => hg.congr rfl)

theorem run_cacheOK (ho : o.Lawful) (ops : List Op) (hops : ∀ op ∈ ops, op.fresh) {w : World} (hw : w.CacheOK o) :
    (run o w ops).1.CacheOK o := by
  induction ops generalizing w with
  | nil => exact hw
  | cons op ops ih =>
    simp only [run]
    exact ih (fun op' h => hops op' (List.mem_cons_of_mem _ h))
      (step_cacheOK ho hw op (hops op (List.mem_cons_self ..)))

end Geom
end DefconModel
