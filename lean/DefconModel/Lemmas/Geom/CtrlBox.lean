/-
M-Geom helper lemmas: ControlBoundsPen's box is the box of the contour's points.
-/
import DefconModel.Lemmas.Geom.Cyclic

namespace DefconModel
namespace Geom

def Call.pts : Call → List Pt
  | .moveTo p => [p]
  | .lineTo p => [p]
  | .curveTo pts => pts
  | .qCurveTo pts _ => pts
  | .closePath => []
  | .endPath => []

/-! ### boxes determined by the points in them -/

theorem Box.eq_of_within {a b : Box} (h1 : a.Within b) (h2 : b.Within a) : a = b := by
  cases a; cases b
  simp only [Box.Within] at h1 h2
  simp only [Box.mk.injEq]
  exact ⟨le_antisymm h2.1 h1.1, le_antisymm h2.2.2.1 h1.2.2.1, le_antisymm h1.2.1 h2.2.1,
    le_antisymm h1.2.2.2 h2.2.2.2⟩

theorem Box.has_mid {B : Box} {a b : Pt} (ha : B.Has a) (hb : B.Has b) : B.Has (mid a b) := by
  simp only [Box.Has, mid] at *
  refine ⟨?_, ?_, ?_, ?_⟩ <;> linarith [ha.1, ha.2.1, ha.2.2.1, ha.2.2.2, hb.1, hb.2.1, hb.2.2.1, hb.2.2.2]

/-- folding points into a box: the result holds them all and lies within any box that does -/
theorem foldl_add_spec (ps : List Pt) (b : Box) :
    b.Within (ps.foldl Box.add b) ∧ (∀ p ∈ ps, (ps.foldl Box.add b).Has p) ∧
    ∀ B : Box, b.Within B → (∀ p ∈ ps, B.Has p) → (ps.foldl Box.add b).Within B := by
  induction ps generalizing b with
  | nil => exact ⟨Box.within_refl b, by simp, fun B h _ => h⟩
  | cons p ps ih =>
    obtain ⟨i1, i2, i3⟩ := ih (b.add p)
    refine ⟨Box.within_trans (Box.within_add b p) i1, ?_, ?_⟩
    · intro q hq
      rcases List.mem_cons.1 hq with rfl | hq
      · exact Box.has_of_within i1 (Box.has_add_self b q)
      · exact i2 q hq
    · intro B hB hp
      exact i3 B (Box.add_within hB (hp p (List.mem_cons_self ..))) (fun q hq => hp q (List.mem_cons_of_mem _ hq))

theorem boxOfPts_spec (ps : List Pt) :
    (ps = [] ∧ boxOfPts ps = none) ∨
    ∃ b, boxOfPts ps = some b ∧ (∀ p ∈ ps, b.Has p) ∧ ∀ B : Box, (∀ p ∈ ps, B.Has p) → b.Within B := by
  cases ps with
  | nil => exact Or.inl ⟨rfl, rfl⟩
  | cons p ps =>
    right
    obtain ⟨i1, i2, i3⟩ := foldl_add_spec ps (Box.ofPt p)
    refine ⟨_, rfl, ?_, ?_⟩
    · intro q hq
      rcases List.mem_cons.1 hq with rfl | hq
      · exact Box.has_of_within i1 (Box.has_ofPt q)
      · exact i2 q hq
    · intro B hB
      exact i3 B (Box.ofPt_within (hB p (List.mem_cons_self ..))) (fun q hq => hB q (List.mem_cons_of_mem _ hq))

/-- all the points the pen is given -/
def primPts (ps : List Prim) : List Pt := ps.flatMap Prim.pts

theorem ctrlBox_eq_fold (ps : List Prim) (ob : Option Box) :
    ps.foldl ctrlStep ob = (primPts ps).foldl addPt ob := by
  induction ps generalizing ob with
  | nil => rfl
  | cons pr ps ih => simp only [List.foldl_cons, primPts, List.flatMap_cons, List.foldl_append, ih, ctrlStep]

theorem foldl_addPt_some_eq (ps : List Pt) (b : Box) : ps.foldl addPt (some b) = some (ps.foldl Box.add b) := by
  induction ps generalizing b with
  | nil => rfl
  | cons p ps ih => simp only [List.foldl_cons, addPt, ih]

/-- ControlBoundsPen's box is the box of the points it is given -/
theorem ctrlBox_eq_boxOfPts (ps : List Prim) : ctrlBox ps = boxOfPts (primPts ps) := by
  unfold ctrlBox
  rw [ctrlBox_eq_fold]
  cases h : primPts ps with
  | nil => rfl
  | cons p rest => simp only [List.foldl_cons, addPt, foldl_addPt_some_eq, boxOfPts]

/-- two point lists with the same points up to "lies in every box that holds the others" have the
same box -/
theorem boxOfPts_congr (l1 l2 : List Pt) (h12 : ∀ B : Box, (∀ p ∈ l2, B.Has p) → ∀ p ∈ l1, B.Has p)
    (h21 : ∀ B : Box, (∀ p ∈ l1, B.Has p) → ∀ p ∈ l2, B.Has p) (hne : l1 = [] ↔ l2 = []) :
    boxOfPts l1 = boxOfPts l2 := by
  rcases boxOfPts_spec l1 with ⟨e1, n1⟩ | ⟨b1, s1, m1, w1⟩
  · rw [n1, (boxOfPts_spec l2).resolve_right (by
      rintro ⟨b, _, _, _⟩
      have := hne.1 e1
      subst this
      simp [boxOfPts] at *)|>.2]
  · rcases boxOfPts_spec l2 with ⟨e2, _⟩ | ⟨b2, s2, m2, w2⟩
    · have := hne.2 e2
      subst this
      simp [boxOfPts] at s1
    · rw [s1, s2]
      congr 1
      apply Box.eq_of_within
      · exact w1 b2 (h12 b2 m2)
      · exact w2 b1 (h21 b1 m1)

/-! ### BasePen's expansion: the points it passes on -/

theorem decomposeQuad_in_box (B : Box) (pts : List Pt) (h : ∀ x ∈ pts, B.Has x) :
    ∀ ab ∈ decomposeQuad pts, B.Has ab.1 ∧ B.Has ab.2 := by
  match pts with
  | [] => simp [decomposeQuad]
  | [_] => simp [decomposeQuad]
  | [a, b] =>
    intro ab hab
    simp [decomposeQuad] at hab; subst hab
    exact ⟨h a (by simp), h b (by simp)⟩
  | a :: b :: c :: rest =>
    intro ab hab
    simp only [decomposeQuad, List.mem_cons] at hab
    rcases hab with rfl | hab
    · exact ⟨h a (by simp), Box.has_mid (h a (by simp)) (h b (by simp))⟩
    · exact decomposeQuad_in_box B (b :: c :: rest) (fun x hx => h x (List.mem_cons_of_mem _ hx)) ab hab

theorem expandQ_in_box (B : Box) (pts : List Pt) (h : ∀ x ∈ pts, B.Has x) :
    ∀ pr ∈ expandQ pts, ∀ x ∈ pr.pts, B.Has x := by
  match pts with
  | [] => simp [expandQ]
  | [p] => intro pr hpr x hx; simp [expandQ] at hpr; subst hpr; simp [Prim.pts] at hx; subst hx; exact h x (by simp)
  | a :: b :: rest =>
    intro pr hpr x hx
    simp only [expandQ, List.mem_map] at hpr
    obtain ⟨ab, hab, rfl⟩ := hpr
    obtain ⟨h1, h2⟩ := decomposeQuad_in_box B (a :: b :: rest) h ab hab
    simp only [quadPrim, Prim.pts, List.mem_cons, List.not_mem_nil, or_false] at hx
    rcases hx with rfl | rfl
    · exact h1
    · exact h2

/-- what BasePen passes on lies in every box that holds the call's points (implied points are
midpoints) -/
theorem expandCall_in_box (B : Box) (c : Call) (h : ∀ x ∈ c.pts, B.Has x) :
    ∀ pr ∈ expandCall c, ∀ x ∈ pr.pts, B.Has x := by
  cases c with
  | moveTo p => intro pr hpr x hx; simp [expandCall] at hpr; subst hpr; simp [Prim.pts] at hx; subst hx; exact h x (by simp [Call.pts])
  | lineTo p => intro pr hpr x hx; simp [expandCall] at hpr; subst hpr; simp [Prim.pts] at hx; subst hx; exact h x (by simp [Call.pts])
  | closePath => intro pr hpr x hx; simp [expandCall] at hpr; subst hpr; simp [Prim.pts] at hx
  | endPath => intro pr hpr x hx; simp [expandCall] at hpr; subst hpr; simp [Prim.pts] at hx
  | curveTo pts =>
    simp only [Call.pts] at h
    match pts with
    | [] => simp [expandCall]
    | [p] => intro pr hpr x hx; simp [expandCall] at hpr; subst hpr; simp [Prim.pts] at hx; subst hx; exact h x (by simp)
    | [a, p] => exact expandQ_in_box B [a, p] h
    | [a, b, p] =>
      intro pr hpr x hx
      simp [expandCall] at hpr; subst hpr
      simp only [Prim.pts] at hx
      exact h x hx
    | a :: b :: c :: d :: rest => simp [expandCall]
  | qCurveTo pts blob =>
    simp only [Call.pts] at h
    cases blob with
    | false => simpa [expandCall] using expandQ_in_box B pts h
    | true =>
      simp only [expandCall, if_true]
      cases hl : pts.getLast? with
      | none => simp
      | some l =>
        cases hh : pts.head? with
        | none => simp
        | some f =>
          have hlB : B.Has l := h l (List.mem_of_getLast? hl)
          have hfB : B.Has f := h f (List.mem_of_head? hh)
          have hm : B.Has (mid l f) := Box.has_mid hlB hfB
          intro pr hpr x hx
          simp only [List.mem_cons] at hpr
          rcases hpr with rfl | hpr
          · simp [Prim.pts] at hx; subst hx; exact hm
          · apply expandQ_in_box B (pts ++ [mid l f]) _ pr hpr x hx
            intro y hy
            rcases List.mem_append.1 hy with hy | hy
            · exact h y hy
            · simp at hy; subst hy; exact hm

theorem decomposeQuad_covers (pts : List Pt) (h : 2 ≤ pts.length) :
    ∀ x ∈ pts, ∃ ab ∈ decomposeQuad pts, x = ab.1 ∨ x = ab.2 := by
  match pts, h with
  | [a, b], _ =>
    intro x hx
    simp at hx
    exact ⟨(a, b), by simp [decomposeQuad], by rcases hx with rfl | rfl <;> simp⟩
  | a :: b :: c :: rest, _ =>
    intro x hx
    rcases List.mem_cons.1 hx with rfl | hx
    · exact ⟨(x, mid x b), by simp [decomposeQuad], Or.inl rfl⟩
    · obtain ⟨ab, hab, hx2⟩ := decomposeQuad_covers (b :: c :: rest) (by simp) x hx
      exact ⟨ab, by simp [decomposeQuad, hab], hx2⟩

theorem expandQ_covers (pts : List Pt) : ∀ x ∈ pts, ∃ pr ∈ expandQ pts, x ∈ pr.pts := by
  match pts with
  | [] => simp
  | [p] => intro x hx; simp at hx; subst hx; exact ⟨.lineTo x, by simp [expandQ], by simp [Prim.pts]⟩
  | a :: b :: rest =>
    intro x hx
    obtain ⟨ab, hab, hx2⟩ := decomposeQuad_covers (a :: b :: rest) (by simp) x hx
    refine ⟨quadPrim ab, by simp only [expandQ]; exact List.mem_map_of_mem hab, ?_⟩
    simp only [quadPrim, Prim.pts, List.mem_cons, List.not_mem_nil, or_false]
    exact hx2

/-- the calls the model supports pass every one of their points on -/
def Call.arityOk : Call → Bool
  | .curveTo pts => decide (pts.length ≤ 3)
  | _ => true

theorem expandCall_covers (c : Call) (hok : c.arityOk = true) :
    ∀ x ∈ c.pts, ∃ pr ∈ expandCall c, x ∈ pr.pts := by
  cases c with
  | moveTo p =>
    intro x hx; simp [Call.pts] at hx; subst hx
    exact ⟨.moveTo x, by simp [expandCall], by simp [Prim.pts]⟩
  | lineTo p =>
    intro x hx; simp [Call.pts] at hx; subst hx
    exact ⟨.lineTo x, by simp [expandCall], by simp [Prim.pts]⟩
  | closePath => intro x hx; simp [Call.pts] at hx
  | endPath => intro x hx; simp [Call.pts] at hx
  | curveTo pts =>
    simp only [Call.arityOk, decide_eq_true_eq] at hok
    match pts, hok with
    | [], _ => simp [Call.pts]
    | [p], _ =>
      intro x hx; simp [Call.pts] at hx; subst hx
      exact ⟨.lineTo x, by simp [expandCall], by simp [Prim.pts]⟩
    | [a, p], _ => exact expandQ_covers [a, p]
    | [a, b, p], _ =>
      intro x hx
      exact ⟨.curveTo a b p, by simp [expandCall], by simpa [Prim.pts, Call.pts] using hx⟩
    | a :: b :: c :: d :: rest, h => simp at h
  | qCurveTo pts blob =>
    cases blob with
    | false => simpa [expandCall, Call.pts] using expandQ_covers pts
    | true =>
      intro x hx
      simp only [Call.pts] at hx
      simp only [expandCall, if_true]
      obtain ⟨l, hl⟩ := getLast?_isSome_of_ne_nil (List.ne_nil_of_mem hx)
      obtain ⟨f, hf⟩ : ∃ f, pts.head? = some f := by
        cases pts with
        | nil => simp at hx
        | cons a b => exact ⟨a, rfl⟩
      simp only [hl, hf]
      obtain ⟨pr, hpr, hx2⟩ := expandQ_covers (pts ++ [mid l f]) x (List.mem_append_left _ hx)
      exact ⟨pr, List.mem_cons_of_mem _ hpr, hx2⟩

/-- the points of the primitives are those of the calls, up to box membership -/
theorem expand_in_box (B : Box) (cs : List Call) (h : ∀ c ∈ cs, ∀ x ∈ c.pts, B.Has x) :
    ∀ x ∈ primPts (expand cs), B.Has x := by
  intro x hx
  simp only [primPts, expand, List.mem_flatMap] at hx
  obtain ⟨pr, ⟨c, hc, hpr⟩, hx⟩ := hx
  exact expandCall_in_box B c (h c hc) pr hpr x hx

theorem expand_covers (cs : List Call) (hok : ∀ c ∈ cs, c.arityOk = true) :
    ∀ c ∈ cs, ∀ x ∈ c.pts, x ∈ primPts (expand cs) := by
  intro c hc x hx
  obtain ⟨pr, hpr, hx2⟩ := expandCall_covers c (hok c hc) x hx
  simp only [primPts, expand, List.mem_flatMap]
  exact ⟨pr, ⟨c, hc, hpr⟩, hx2⟩

/-! ### the calls a contour makes carry exactly its points -/

theorem group_pts_sub (acc : List Pt) (pts : List Point) :
    ∀ s ∈ group acc pts, ∀ x ∈ s.pts, x ∈ acc ∨ ∃ p ∈ pts, p.pt = x := by
  induction pts generalizing acc with
  | nil => simp [group]
  | cons p ps ih =>
    rw [group.eq_2]
    cases hs : p.seg with
    | none =>
      intro s hsm x hx
      rcases ih _ s hsm x hx with h | ⟨q, hq, rfl⟩
      · rcases List.mem_append.1 h with h | h
        · exact Or.inl h
        · simp at h; subst h; exact Or.inr ⟨p, List.mem_cons_self .., rfl⟩
      · exact Or.inr ⟨q, List.mem_cons_of_mem _ hq, rfl⟩
    | some t =>
      intro s hsm x hx
      simp only [List.mem_cons] at hsm
      rcases hsm with rfl | hsm
      · rcases List.mem_append.1 hx with h | h
        · exact Or.inl h
        · simp at h; subst h; exact Or.inr ⟨p, List.mem_cons_self .., rfl⟩
      · rcases ih _ s hsm x hx with h | ⟨q, hq, rfl⟩
        · simp at h
        · exact Or.inr ⟨q, List.mem_cons_of_mem _ hq, rfl⟩

theorem toSegments_pts_sub {pts : List Point} {segs : List Segm} (h : toSegments pts = some segs) :
    ∀ s ∈ segs, ∀ x ∈ s.pts, ∃ p ∈ pts, p.pt = x := by
  match pts with
  | [] => simp [toSegments] at h
  | [p] =>
    simp [toSegments] at h; subst h
    intro s hs x hx
    simp at hs; subst hs
    simp at hx; subst hx
    exact ⟨p, by simp, rfl⟩
  | p0 :: p1 :: rest =>
    simp only [toSegments] at h
    split at h
    · cases h
      intro s hs x hx
      simp only [List.mem_cons] at hs
      rcases hs with rfl | hs
      · simp at hx; subst hx; exact ⟨p0, by simp, rfl⟩
      · rcases group_pts_sub [] _ s hs x hx with h | ⟨q, hq, rfl⟩
        · simp at h
        · exact ⟨q, List.mem_cons_of_mem _ hq, rfl⟩
    · cases hf : firstOnCurve? (p0 :: p1 :: rest) with
      | none =>
        rw [hf] at h
        cases h
        intro s hs x hx
        simp only [List.mem_singleton] at hs
        subst hs
        have hx' : x ∈ (p0 :: p1 :: rest).map (·.pt) := hx
        rw [List.mem_map] at hx'
        obtain ⟨q, hq, hq2⟩ := hx'
        exact ⟨q, hq, hq2⟩
      | some i =>
        rw [hf] at h
        cases h
        intro s hs x hx
        rcases group_pts_sub [] _ s hs x hx with h | ⟨q, hq, rfl⟩
        · simp at h
        · refine ⟨q, ?_, rfl⟩
          rcases List.mem_append.1 hq with hq | hq
          · exact List.mem_of_mem_drop hq
          · exact List.mem_of_mem_take hq

theorem flushLoop_pts_sub (closed : Bool) (lp : Option Pt) (segs : List Segm) :
    ∀ c ∈ flushLoop closed lp segs, ∀ x ∈ c.pts, ∃ s ∈ segs, x ∈ s.pts := by
  induction segs generalizing lp with
  | nil => simp [flushLoop]
  | cons s rest ih =>
    have lift : ∀ lp', ∀ c ∈ flushLoop closed lp' rest, ∀ x ∈ c.pts, ∃ s' ∈ s :: rest, x ∈ s'.pts := by
      intro lp' c hc x hx
      obtain ⟨s', hs', hx'⟩ := ih lp' c hc x hx
      exact ⟨s', List.mem_cons_of_mem _ hs', hx'⟩
    rw [flushLoop.eq_2]
    cases hty : s.ty with
    | move => exact lift lp
    | line =>
      simp only
      cases hl : s.pts.getLast? with
      | none => exact lift lp
      | some pt =>
        simp only
        split
        · intro c hc x hx
          simp only [List.mem_cons] at hc
          rcases hc with rfl | hc
          · simp [Call.pts] at hx; subst hx
            exact ⟨s, List.mem_cons_self .., List.mem_of_getLast? hl⟩
          · exact lift _ c hc x hx
        · exact lift lp
    | curve =>
      intro c hc x hx
      simp only [List.mem_cons] at hc
      rcases hc with rfl | hc
      · exact ⟨s, List.mem_cons_self .., hx⟩
      · exact lift _ c hc x hx
    | qcurve =>
      intro c hc x hx
      simp only [List.mem_cons] at hc
      rcases hc with rfl | hc
      · exact ⟨s, List.mem_cons_self .., hx⟩
      · exact lift _ c hc x hx

theorem flush_pts_sub (segs : List Segm) : ∀ c ∈ flush segs, ∀ x ∈ c.pts, ∃ s ∈ segs, x ∈ s.pts := by
  match segs with
  | [] => simp [flush]
  | s0 :: rest =>
    by_cases hm : s0.ty = .move
    · cases hp : s0.pts.getLast? with
      | none => rw [flush_open_none s0 rest hm hp]; simp
      | some mp =>
        rw [flush_open s0 rest hm mp hp]
        intro c hc x hx
        rcases List.mem_cons.1 hc with rfl | hc
        · simp [Call.pts] at hx; subst hx
          exact ⟨s0, List.mem_cons_self .., List.mem_of_getLast? hp⟩
        · rcases List.mem_append.1 hc with hc | hc
          · obtain ⟨s', hs', hx'⟩ := flushLoop_pts_sub false _ rest c hc x hx
            exact ⟨s', List.mem_cons_of_mem _ hs', hx'⟩
          · simp only [List.mem_singleton] at hc; subst hc; simp [Call.pts] at hx
    · rw [flush_closed s0 rest hm]
      intro c hc x hx
      rcases List.mem_append.1 hc with hc | hc
      swap
      · simp only [List.mem_singleton] at hc; subst hc; simp [Call.pts] at hx
      rcases List.mem_append.1 hc with hc | hc
      · -- the moveTo
        cases he : (s0 :: rest).getLast?.bind Segm.endPt with
        | none => rw [he] at hc; simp [moveCall] at hc
        | some e =>
          rw [he] at hc
          simp [moveCall] at hc; subst hc
          simp [Call.pts] at hx; subst hx
          simp only [Option.bind_eq_some_iff] at he
          obtain ⟨sl, hsl, hsle⟩ := he
          refine ⟨sl, List.mem_of_getLast? hsl, ?_⟩
          unfold Segm.endPt at hsle
          split at hsle
          · cases hsle
          · exact List.mem_of_getLast? hsle
      · exact flushLoop_pts_sub true _ _ c hc x hx

/-- every point a contour sends to a pen is one of its own -/
theorem drawCalls_pts_sub (pts : List Point) : ∀ c ∈ drawCalls pts, ∀ x ∈ c.pts, ∃ p ∈ pts, p.pt = x := by
  unfold drawCalls
  cases h : toSegments pts with
  | none => simp
  | some segs =>
    intro c hc x hx
    obtain ⟨s, hs, hxs⟩ := flush_pts_sub segs c hc x hx
    exact toSegments_pts_sub h s hs x hxs

/-! ### … and all of them (valid contours) -/

theorem group_covers (acc : List Pt) (pts : List Point) (hend : ∃ p, pts.getLast? = some p ∧ p.onCurve = true) :
    (∀ a ∈ acc, ∃ s ∈ group acc pts, a ∈ s.pts) ∧ (∀ p ∈ pts, ∃ s ∈ group acc pts, p.pt ∈ s.pts) := by
  induction pts generalizing acc with
  | nil => obtain ⟨p, hp, _⟩ := hend; simp at hp
  | cons p ps ih =>
    rw [group.eq_2]
    cases hs : p.seg with
    | some t =>
      simp only
      refine ⟨?_, ?_⟩
      · intro a ha
        exact ⟨_, List.mem_cons_self .., List.mem_append_left _ ha⟩
      · intro q hq
        rcases List.mem_cons.1 hq with rfl | hq
        · exact ⟨_, List.mem_cons_self .., by simp⟩
        · have hne : ps ≠ [] := List.ne_nil_of_mem hq
          obtain ⟨l, hl, hlon⟩ := hend
          rw [List.getLast?_cons_of_ne_nil hne] at hl
          obtain ⟨s, hs', hx⟩ := (ih [] ⟨l, hl, hlon⟩).2 q hq
          exact ⟨s, List.mem_cons_of_mem _ hs', hx⟩
    | none =>
      simp only
      have hne : ps ≠ [] := by
        intro he
        subst he
        obtain ⟨l, hl, hlon⟩ := hend
        simp at hl; subst hl
        simp [Point.onCurve, hs] at hlon
      obtain ⟨l, hl, hlon⟩ := hend
      rw [List.getLast?_cons_of_ne_nil hne] at hl
      obtain ⟨i1, i2⟩ := ih (acc ++ [p.pt]) ⟨l, hl, hlon⟩
      refine ⟨fun a ha => i1 a (List.mem_append_left _ ha), ?_⟩
      intro q hq
      rcases List.mem_cons.1 hq with rfl | hq
      · exact i1 _ (by simp)
      · exact i2 q hq

theorem Segm.Ok.calls_cover {s : Segm} (h : s.Ok) : ∀ x ∈ s.pts, ∃ c ∈ s.calls, x ∈ c.pts := by
  intro x hx
  have hb := h.bad
  cases hty : s.ty with
  | move => exact absurd hty h.ty_ne_move
  | line =>
    obtain ⟨pt, hpt, hc⟩ := h.calls_line hty
    simp only [Segm.bad, hty] at hb
    have hlen : s.pts.length = 1 := by
      by_contra hne; simp [hne] at hb
    have : s.pts = [pt] := by
      match hsp : s.pts, hlen with
      | [a], _ => rw [hsp] at hpt; simp at hpt; rw [hpt]
    rw [this] at hx
    simp at hx; subst hx
    exact ⟨.lineTo x, by rw [hc]; simp, by simp [Call.pts]⟩
  | curve => exact ⟨.curveTo s.pts, by simp [Segm.calls, hty], hx⟩
  | qcurve => exact ⟨.qCurveTo s.pts s.blob, by simp [Segm.calls, hty], hx⟩

theorem Segm.Ok.calls_arity {s : Segm} (h : s.Ok) : ∀ c ∈ s.calls, c.arityOk = true := by
  intro c hc
  have hb := h.bad
  cases hty : s.ty with
  | move => exact absurd hty h.ty_ne_move
  | line =>
    obtain ⟨pt, _, hcl⟩ := h.calls_line hty
    rw [hcl] at hc; simp at hc; subst hc; rfl
  | qcurve => simp [Segm.calls, hty] at hc; subst hc; rfl
  | curve =>
    simp [Segm.calls, hty] at hc; subst hc
    simp only [Segm.bad, hty] at hb
    simp only [Call.arityOk, decide_eq_true_eq]
    by_contra hne
    have : s.pts.length > 3 := by omega
    simp [this] at hb

/-- every segment is flushed as its own calls, except possibly the last line of a closed contour -/
theorem flushLoop_covers (closed : Bool) (segs : List Segm) (hok : ∀ s ∈ segs, s.Ok) (lp : Option Pt) :
    ∀ s ∈ segs, (∀ c ∈ s.calls, c ∈ flushLoop closed lp segs) ∨
      (closed = true ∧ segs.getLast? = some s ∧ s.ty = .line) := by
  induction segs generalizing lp with
  | nil => simp
  | cons s0 rest ih =>
    have hs0 := hok s0 (List.mem_cons_self ..)
    have hr : ∀ q ∈ rest, q.Ok := fun q hq => hok q (List.mem_cons_of_mem _ hq)
    by_cases hne : rest = []
    · subst hne
      intro s hs
      simp only [List.mem_singleton] at hs
      subst hs
      rw [flushLoop.eq_2]
      cases hty : s.ty with
      | move => exact absurd hty hs0.ty_ne_move
      | curve => left; intro c hc; simp [Segm.calls, hty] at hc; subst hc; simp [flushLoop]
      | qcurve => left; intro c hc; simp [Segm.calls, hty] at hc; subst hc; simp [flushLoop]
      | line =>
        obtain ⟨pt, hpt, hcl⟩ := hs0.calls_line hty
        simp only [hpt]
        split
        · left; intro c hc; rw [hcl] at hc; simp at hc; subst hc; simp [flushLoop]
        · rename_i hcond
          right
          refine ⟨?_, rfl, trivial⟩
          cases closed with
          | true => rfl
          | false => simp at hcond
    · obtain ⟨lp', hfl⟩ := flushLoop_cons_ne closed lp s0 rest hne hs0
      intro s hs
      rcases List.mem_cons.1 hs with rfl | hs
      · left; intro c hc; rw [hfl]; exact List.mem_append_left _ hc
      · rcases ih hr lp' s hs with h | ⟨h1, h2, h3⟩
        · left; intro c hc; rw [hfl]; exact List.mem_append_right _ (h c hc)
        · right; exact ⟨h1, by rw [List.getLast?_cons_of_ne_nil hne]; exact h2, h3⟩

theorem segsBad_false_none {segs : List Segm} (h : segsBad false segs = none) : ∀ s ∈ segs, s.bad false = none := by
  induction segs with
  | nil => simp
  | cons s r ih =>
    rw [segsBad.eq_2] at h
    cases hb : s.bad false with
    | some e => rw [hb] at h; cases h
    | none =>
      rw [hb] at h
      intro q hq
      rcases List.mem_cons.1 hq with rfl | hq
      · exact hb
      · exact ih h q hq

theorem rotOn_getLast {pts : List Point} {i : Nat} {p : Point} (h : pts[i]? = some p) :
    (rotOn pts i).getLast? = some p := by
  have hi : i < pts.length := by
    rcases Nat.lt_or_ge i pts.length with h' | h'
    · exact h'
    · rw [List.getElem?_eq_none h'] at h; cases h
  unfold rotOn
  have hne : pts.take (i + 1) ≠ [] := by
    intro he
    have hl : (pts.take (i + 1)).length = 0 := by rw [he]; rfl
    rw [List.length_take] at hl
    omega
  rw [List.getLast?_append_of_ne_nil _ hne, List.getLast?_take]
  simp only [Nat.add_eq_zero_iff, one_ne_zero, and_false, if_false, Nat.add_sub_cancel]
  rw [h]; rfl

theorem mem_rotOn_iff {pts : List Point} {i : Nat} {p : Point} : p ∈ rotOn pts i ↔ p ∈ pts := by
  unfold rotOn
  rw [List.mem_append]
  constructor
  · rintro (h | h)
    · exact List.mem_of_mem_drop h
    · exact List.mem_of_mem_take h
  · intro h
    rw [← List.take_append_drop (i + 1) pts] at h
    rcases List.mem_append.1 h with h | h
    · exact Or.inr h
    · exact Or.inl h

/-- A valid contour that draws without error sends every one of its points to the pen, in calls
BasePen passes on completely. -/
theorem drawCalls_covers (pts : List Point) (hshape : ReversibleShape pts) (herr : drawErr pts = none) :
    (∀ p ∈ pts, ∃ c ∈ drawCalls pts, p.pt ∈ c.pts) ∧ (∀ c ∈ drawCalls pts, c.arityOk = true) := by
  match pts with
  | [] => exact ⟨by simp, by simp [drawCalls_nil]⟩
  | [p] =>
    rw [drawCalls_single]
    exact ⟨by intro q hq; simp at hq; subst hq; exact ⟨.moveTo q.pt, by simp, by simp [Call.pts]⟩,
      by intro c hc; simp at hc; rcases hc with rfl | rfl <;> rfl⟩
  | p0 :: p1 :: rest =>
    by_cases hm : p0.seg = some .move
    · -- open
      rcases hshape with ⟨h1, _⟩ | ⟨_, _, hend⟩
      · simp [isOpen_cons, hm] at h1
      rw [drawCalls_open p0 p1 rest hm]
      have hts : toSegments (p0 :: p1 :: rest) = some (⟨.move, [p0.pt], false⟩ :: group [] (p1 :: rest)) := by
        simp [toSegments, hm]
      have hbad : segsBad false (group [] (p1 :: rest)) = none := by
        have : segsBad true (⟨.move, [p0.pt], false⟩ :: group [] (p1 :: rest)) = none := by
          simpa [drawErr, hts] using herr
        rw [segsBad.eq_2] at this
        simpa [Segm.bad] using this
      have hok : ∀ s ∈ group [] (p1 :: rest), s.Ok := fun s hs =>
        ⟨group_noBlob _ _ s hs, segsBad_false_none hbad s hs, group_pts_ne_nil _ _ s hs⟩
      have hlast : ∃ l, (p1 :: rest).getLast? = some l ∧ l.onCurve = true := by
        obtain ⟨l, hl⟩ := getLast?_isSome_of_ne_nil (l := p1 :: rest) (by simp)
        refine ⟨l, hl, ?_⟩
        have : (p0 :: p1 :: rest).getLast? = some l := by rw [List.getLast?_cons_cons]; exact hl
        simpa [endsOnCurve, this] using hend
      constructor
      · intro q hq
        rcases List.mem_cons.1 hq with rfl | hq
        · exact ⟨.moveTo q.pt, List.mem_cons_self .., by simp [Call.pts]⟩
        · obtain ⟨s, hs, hx⟩ := (group_covers [] (p1 :: rest) hlast).2 q hq
          obtain ⟨c, hc, hxc⟩ := (hok s hs).calls_cover q.pt hx
          rcases flushLoop_covers false _ hok (some p0.pt) s hs with h | ⟨h, _, _⟩
          · exact ⟨c, List.mem_cons_of_mem _ (List.mem_append_left _ (h c hc)), hxc⟩
          · cases h
      · intro c hc
        rcases List.mem_cons.1 hc with rfl | hc
        · rfl
        · rcases List.mem_append.1 hc with hc | hc
          · -- a flushed call belongs to some segment's calls
            have : ∀ (segs : List Segm) (lp : Option Pt), (∀ s ∈ segs, s.Ok) →
                ∀ c ∈ flushLoop false lp segs, c.arityOk = true := by
              intro segs
              induction segs with
              | nil => intro lp _ c hc; simp [flushLoop] at hc
              | cons s r ih =>
                intro lp hk c hc
                have hs := hk s (List.mem_cons_self ..)
                by_cases hre : r = []
                · subst hre
                  rcases flushLoop_covers false [s] hk lp s (List.mem_cons_self ..) with h | ⟨h, _, _⟩
                  · -- flushLoop false lp [s] = s.calls
                    rw [flushLoop.eq_2] at hc
                    cases hty : s.ty with
                    | move => exact absurd hty hs.ty_ne_move
                    | curve => rw [hty] at hc; exact hs.calls_arity c (by simpa [Segm.calls, hty, flushLoop] using hc)
                    | qcurve => rw [hty] at hc; exact hs.calls_arity c (by simpa [Segm.calls, hty, flushLoop] using hc)
                    | line =>
                      rw [hty] at hc
                      obtain ⟨pt, hpt, hcl⟩ := hs.calls_line hty
                      simp only [hpt] at hc
                      split at hc
                      · simp [flushLoop] at hc; subst hc; rfl
                      · simp [flushLoop] at hc
                  · cases h
                · obtain ⟨lp', hfl⟩ := flushLoop_cons_ne false lp s r hre hs
                  rw [hfl] at hc
                  rcases List.mem_append.1 hc with hc | hc
                  · exact hs.calls_arity c hc
                  · exact ih lp' (fun q hq => hk q (List.mem_cons_of_mem _ hq)) c hc
            exact this _ _ hok c hc
          · simp at hc; subst hc; rfl
    · -- closed
      rcases hshape with ⟨_, hnm⟩ | ⟨h1, _, _⟩
      swap
      · simp [isOpen_cons, hm] at h1
      cases hf : firstOnCurve? (p0 :: p1 :: rest) with
      | none =>
        rw [drawCalls_blob p0 p1 rest hm hf]
        exact ⟨by
          intro q hq
          exact ⟨_, List.mem_cons_self .., by simp only [Call.pts]; exact List.mem_map_of_mem hq⟩,
          by intro c hc; simp at hc; rcases hc with rfl | rfl <;> rfl⟩
      | some i =>
        have hts := toSegments_closed p0 p1 rest hm i hf
        have hok := closed_segs_ok hnm hts rfl herr
        rw [drawCalls_closed p0 p1 rest hm i hf]
        obtain ⟨qf, hqf, hqfon⟩ := firstOnCurve?_some hf
        have hlast := rotOn_getLast hqf
        set segs := group [] (rotOn (p0 :: p1 :: rest) i) with hsegs
        have hne : segs ≠ [] := group_ne_nil_of_onCurve _ _ ⟨qf, mem_rotOn_of_getElem? hqf, hqfon⟩
        obtain ⟨s0, srest, hsr⟩ : ∃ s0 srest, segs = s0 :: srest := by
          cases hc : segs with
          | nil => exact absurd hc hne
          | cons a b => exact ⟨a, b, rfl⟩
        obtain ⟨sl, hsl⟩ := getLast?_isSome_of_ne_nil hne
        have hslm : sl ∈ segs := List.mem_of_getLast? hsl
        obtain ⟨e, he⟩ := getLast?_isSome_of_ne_nil (hok sl hslm).ne
        have hmove : segs.getLast?.bind Segm.endPt = some e := by
          simp [hsl, Segm.endPt, (hok sl hslm).blob, he]
        have hflush : flush segs = .moveTo e :: (flushLoop true (some e) segs ++ [.closePath]) := by
          rw [hsr, flush_closed s0 srest (hok s0 (by rw [hsr]; exact List.mem_cons_self ..)).ty_ne_move, ← hsr, hmove]
          simp [moveCall]
        rw [hflush]
        constructor
        · intro q hq
          obtain ⟨s, hs, hx⟩ := (group_covers [] _ ⟨qf, hlast, hqfon⟩).2 q (mem_rotOn_iff.2 hq)
          obtain ⟨c, hc, hxc⟩ := (hok s hs).calls_cover q.pt hx
          rcases flushLoop_covers true segs hok (some e) s hs with h | ⟨_, h2, h3⟩
          · exact ⟨c, List.mem_cons_of_mem _ (List.mem_append_left _ (h c hc)), hxc⟩
          · -- the omitted closing line ends at the point the path was opened with
            refine ⟨.moveTo e, List.mem_cons_self .., ?_⟩
            rw [hsl] at h2
            cases h2
            obtain ⟨pt, hpt, hcl⟩ := (hok sl hslm).calls_line h3
            rw [hcl] at hc
            simp at hc; subst hc
            simp only [Call.pts, List.mem_singleton] at hxc ⊢
            rw [hxc]
            rw [he] at hpt
            exact (Option.some.inj hpt).symm
        · intro c hc
          rcases List.mem_cons.1 hc with rfl | hc
          · rfl
          · rcases List.mem_append.1 hc with hc | hc
            · obtain ⟨s, hs, _⟩ : ∃ s ∈ segs, c ∈ s.calls := by
                -- every flushed call is one of some segment's calls
                have : ∀ (sg : List Segm) (lp : Option Pt), (∀ s ∈ sg, s.Ok) →
                    ∀ c ∈ flushLoop true lp sg, ∃ s ∈ sg, c ∈ s.calls := by
                  intro sg
                  induction sg with
                  | nil => intro lp _ c hc; simp [flushLoop] at hc
                  | cons s r ih =>
                    intro lp hk c hc
                    have hs := hk s (List.mem_cons_self ..)
                    by_cases hre : r = []
                    · subst hre
                      rw [flushLoop.eq_2] at hc
                      cases hty : s.ty with
                      | move => exact absurd hty hs.ty_ne_move
                      | curve => rw [hty] at hc; exact ⟨s, List.mem_cons_self .., by simpa [Segm.calls, hty, flushLoop] using hc⟩
                      | qcurve => rw [hty] at hc; exact ⟨s, List.mem_cons_self .., by simpa [Segm.calls, hty, flushLoop] using hc⟩
                      | line =>
                        rw [hty] at hc
                        obtain ⟨pt, hpt, hcl⟩ := hs.calls_line hty
                        simp only [hpt] at hc
                        split at hc
                        · simp [flushLoop] at hc; subst hc
                          exact ⟨s, List.mem_cons_self .., by rw [hcl]; simp⟩
                        · simp [flushLoop] at hc
                    · obtain ⟨lp', hfl⟩ := flushLoop_cons_ne true lp s r hre hs
                      rw [hfl] at hc
                      rcases List.mem_append.1 hc with hc | hc
                      · exact ⟨s, List.mem_cons_self .., hc⟩
                      · obtain ⟨s', hs', hc'⟩ := ih lp' (fun q hq => hk q (List.mem_cons_of_mem _ hq)) c hc
                        exact ⟨s', List.mem_cons_of_mem _ hs', hc'⟩
                exact this segs (some e) hok c hc
              exact (hok s hs).calls_arity c ‹_›
            · simp at hc; subst hc; rfl

/-- `controlPointBounds` of a valid contour is the plain box of all its points. -/
theorem freshCpb_eq_boxOfPts (pts : List Point) (hshape : ReversibleShape pts) (herr : drawErr pts = none) :
    freshCpb pts = boxOfPts (pts.map (·.pt)) := by
  unfold freshCpb prims
  rw [ctrlBox_eq_boxOfPts]
  obtain ⟨hcov, har⟩ := drawCalls_covers pts hshape herr
  apply boxOfPts_congr
  · intro B hB
    apply expand_in_box B
    intro c hc x hx
    obtain ⟨p, hp, rfl⟩ := drawCalls_pts_sub pts c hc x hx
    exact hB p.pt (List.mem_map_of_mem hp)
  · intro B hB x hx
    simp only [List.mem_map] at hx
    obtain ⟨p, hp, rfl⟩ := hx
    obtain ⟨c, hc, hxc⟩ := hcov p hp
    exact hB _ (expand_covers _ har c hc _ hxc)
  · constructor
    · intro h
      by_contra hne
      obtain ⟨p, hp⟩ : ∃ p, p ∈ pts := by
        cases pts with
        | nil => simp at hne
        | cons a b => exact ⟨a, List.mem_cons_self ..⟩
      obtain ⟨c, hc, hxc⟩ := hcov p hp
      have := expand_covers _ har c hc _ hxc
      rw [h] at this
      simp at this
    · intro h
      have : pts = [] := by simpa using h
      subst this
      rfl

theorem boxOfPts_perm {l1 l2 : List Pt} (h : l1.Perm l2) : boxOfPts l1 = boxOfPts l2 := by
  apply boxOfPts_congr
  · intro B hB p hp; exact hB p (h.mem_iff.1 hp)
  · intro B hB p hp; exact hB p (h.mem_iff.2 hp)
  · constructor
    · intro he; subst he; exact h.nil_eq.symm
    · intro he; subst he; exact h.eq_nil

end Geom
end DefconModel
