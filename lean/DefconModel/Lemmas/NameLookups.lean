/-
Helper lemmas for M-Lookups (`DefconModel/NameLookups.lean`).  Property theorems are in `Props/C20.lean`.
-/
import DefconModel.NameLookups
import DefconModel.Spec.NameLookups
import DefconModel.Lemmas.NameSort

namespace DefconModel
namespace NameLookups
open NameSort List

/-! ## splitting names -/

theorem beforeFirst_append_sep (c : Char) (l r : List Char) (h : c ∉ l) :
    beforeFirst c (l ++ c :: r) = l := by
  induction l with
  | nil => simp [beforeFirst]
  | cons x l ih =>
    simp only [mem_cons, not_or] at h
    have hx : (x != c) = true := by simp [bne_iff_ne]; exact fun e => h.1 e.symm
    simp only [beforeFirst, cons_append, takeWhile_cons, hx, if_true] at ih ⊢
    rw [ih h.2]

theorem beforeFirst_append_other (c d : Char) (l r : List Char) (h : c ∉ l) (hd : d ≠ c) :
    beforeFirst c (l ++ d :: r) = l ++ d :: beforeFirst c r := by
  induction l with
  | nil =>
    have : (d != c) = true := by simp [bne_iff_ne, hd]
    simp [beforeFirst, this]
  | cons x l ih =>
    simp only [mem_cons, not_or] at h
    have hx : (x != c) = true := by simp [bne_iff_ne]; exact fun e => h.1 e.symm
    simp only [beforeFirst, cons_append, takeWhile_cons, hx, if_true] at ih ⊢
    rw [ih h.2]

theorem takeWhile_eq_self_of_all {α : Type} (p : α → Bool) (l : List α) (h : ∀ a ∈ l, p a = true) :
    l.takeWhile p = l := by
  induction l with
  | nil => rfl
  | cons x l ih =>
    simp only [takeWhile_cons, h x (by simp), if_true]
    rw [ih (fun a ha => h a (mem_cons_of_mem _ ha))]

theorem toList_derived (a : Name) (sep : Char) (rest : String) :
    (derived a sep rest).toList = a.toList ++ sep :: rest.toList := by
  simp [derived, String.toList_append]

theorem toList_ne_nil {a : Name} (h : a ≠ "") : a.toList ≠ [] := by
  intro e
  apply h
  have := congrArg String.ofList e
  simpa using this

/-- `(a ++ sep ++ rest).split(".")[0].split("_")[0] == a` for a base name `a` and `sep` "." or "_" -/
theorem stemOf_derived (a : Name) (sep : Char) (rest : String) (ha : IsBase a) (hs : sep = '.' ∨ sep = '_') :
    stemOf (derived a sep rest) = a := by
  obtain ⟨_, hd, hu⟩ := ha
  unfold stemOf
  rw [toList_derived]
  rcases hs with rfl | rfl
  · rw [beforeFirst_append_sep _ _ _ hd]
    have : beforeFirst '_' a.toList = a.toList := by
      unfold beforeFirst
      apply takeWhile_eq_self_of_all
      intro x hx
      simp [bne_iff_ne]
      intro e; subst e; exact hu hx
    rw [this, String.ofList_toList]
  · rw [beforeFirst_append_other '.' '_' _ _ hd (by decide), beforeFirst_append_sep _ _ _ hu,
      String.ofList_toList]

theorem startsDot_derived (a : Name) (sep : Char) (rest : String) (ha : IsBase a) :
    startsDot (derived a sep rest) = false ∧ startsUnderscore (derived a sep rest) = false := by
  obtain ⟨hne, hd, hu⟩ := ha
  unfold startsDot startsUnderscore
  rw [toList_derived]
  cases hl : a.toList with
  | nil => exact absurd hl (toList_ne_nil hne)
  | cons x l =>
    rw [hl] at hd hu
    simp only [mem_cons, not_or] at hd hu
    constructor
    · simp; exact fun e => hd.1 e.symm
    · simp; exact fun e => hu.1 e.symm

theorem hasSep_derived (a : Name) (sep : Char) (rest : String) (hs : sep = '.' ∨ sep = '_') :
    (!hasDot (derived a sep rest) && !hasUnderscore (derived a sep rest)) = false := by
  unfold hasDot hasUnderscore
  rw [toList_derived]
  rcases hs with rfl | rfl <;> simp

/-! ## pseudo-unicodes -/

theorem pseudo_of_unicode (s : UData) (n : Name) (v : Nat) (h : unicodeFor s n = some v) :
    pseudoUnicodeFor s n = some v := by
  simp [pseudoUnicodeFor, h]

theorem pseudo_of_plain (s : UData) (n : Name) (hd : hasDot n = false) (hu : hasUnderscore n = false) :
    pseudoUnicodeFor s n = unicodeFor s n := by
  unfold pseudoUnicodeFor
  cases h : unicodeFor s n with
  | some v => rfl
  | none => simp [hd, hu]

theorem pseudo_of_hidden (s : UData) (n : Name) (h : startsDot n = true ∨ startsUnderscore n = true) :
    pseudoUnicodeFor s n = unicodeFor s n := by
  unfold pseudoUnicodeFor
  cases hn : unicodeFor s n with
  | some v => rfl
  | none => rcases h with h | h <;> simp [h]

theorem pseudo_derived (s : UData) (a : Name) (sep : Char) (rest : String) (ha : IsBase a)
    (hs : sep = '.' ∨ sep = '_') (hn : unicodeFor s (derived a sep rest) = none) :
    pseudoUnicodeFor s (derived a sep rest) = unicodeFor s a := by
  unfold pseudoUnicodeFor
  rw [hn]
  simp only [(startsDot_derived a sep rest ha).1, (startsDot_derived a sep rest ha).2, hasSep_derived a sep rest hs,
    stemOf_derived a sep rest ha hs, Bool.or_self, Bool.false_eq_true, if_false]

/-- whatever a look-up is asked with, the value it works from is the glyph's own code point when it has one -/
theorem valueOf_of_unicode (s : UData) (p : Bool) (n : Name) (v : Nat) (h : unicodeFor s n = some v) :
    valueOf s p n = some v := by
  cases p <;> simp [valueOf, h, pseudo_of_unicode s n v h]

/-- every (pseudo-)unicode is the first code point of a glyph of the font -/
theorem unicodeFor_some (s : UData) (n : Name) (v : Nat) (h : unicodeFor s n = some v) :
    n ∈ s.names ∧ ((AL.get? s.unicodes n).getD []).head? = some v := by
  unfold unicodeFor inFont at h
  by_cases hc : s.names.contains n = true
  · rw [if_pos hc] at h
    exact ⟨by simpa using hc, h⟩
  · rw [if_neg hc] at h; cases h

theorem pseudo_some (s : UData) (n : Name) (v : Nat) (h : pseudoUnicodeFor s n = some v) :
    unicodeFor s n = some v ∨ (unicodeFor s n = none ∧ unicodeFor s (stemOf n) = some v) := by
  unfold pseudoUnicodeFor at h
  cases hn : unicodeFor s n with
  | some w => rw [hn] at h; exact Or.inl h
  | none =>
    rw [hn] at h
    right
    refine ⟨rfl, ?_⟩
    simp only at h
    split at h
    · cases h
    · split at h
      · cases h
      · exact h

/-! ## the cmap -/

theorem mem_of_get? {κ α : Type} [DecidableEq κ] {l : List (κ × α)} {k : κ} {v : α} (h : AL.get? l k = some v) :
    (k, v) ∈ l := by
  induction l with
  | nil => simp at h
  | cons p r ih =>
    obtain ⟨k', v'⟩ := p
    by_cases h1 : k' = k
    · simp [h1] at h; subst h1; subst h; simp
    · simp [h1] at h; exact mem_cons_of_mem _ (ih h)

theorem nameForUnicode_mem (s : UData) (hw : CmapWF s) (v : Nat) (g : Name) (h : nameForUnicode s v = some g) :
    g ∈ s.names := by
  unfold nameForUnicode at h
  cases hg : AL.get? s.cmap v with
  | none => simp [hg] at h
  | some l =>
    simp only [hg, Option.getD_some] at h
    have hm := (hw _ (mem_of_get? hg)).2
    cases l with
    | nil => simp at h
    | cons x r => simp at h; subst h; exact hm _ (by simp)

theorem reattach_cases (s : UData) (n base : Name) :
    reattach s n base = base ∨ (reattach s n base ∈ s.names ∧ reattach s n base = withSuffix base (suffixOf n)) := by
  unfold reattach
  by_cases hd : hasDot n = true
  · rw [if_pos hd]
    by_cases hi : inFont s (withSuffix base (suffixOf n)) = true
    · rw [if_pos hi]; right; exact ⟨by simpa [inFont] using hi, rfl⟩
    · rw [if_neg hi]; left; rfl
  · rw [if_neg hd]; left; rfl

theorem reattach_mem (s : UData) (n base : Name) (hb : base ∈ s.names) : reattach s n base ∈ s.names := by
  rcases reattach_cases s n base with h | h
  · rw [h]; exact hb
  · exact h.1

/-! ## open / close relatives -/

theorem openCloseSearch_mem (s : UData) (hw : CmapWF s) (table : List (Nat × Nat)) (n : Name) (p : Bool) (r : Name)
    (h : openCloseSearch s table n p = some r) : r ∈ s.names := by
  unfold openCloseSearch at h
  split at h
  · cases h
  · split at h
    · cases h
    · split at h
      · cases h
      · rename_i precise hp
        have hpm := nameForUnicode_mem s hw _ _ hp
        cases p
        · simp at h; subst h; exact hpm
        · simp at h; subst h; exact reattach_mem s n precise hpm

/-- what the relative is: the first glyph on the table's partner of the name's value, or that glyph's variant
with the name's suffix -/
theorem openCloseSearch_some (s : UData) (table : List (Nat × Nat)) (n : Name) (p : Bool) (r : Name)
    (h : openCloseSearch s table n p = some r) :
    ∃ v c g, valueOf s p n = some v ∧ AL.get? table v = some c ∧ nameForUnicode s c = some g ∧
      (r = g ∨ (p = true ∧ r = withSuffix g (suffixOf n) ∧ r ∈ s.names)) := by
  unfold openCloseSearch at h
  split at h
  · cases h
  · rename_i v hv
    split at h
    · cases h
    · rename_i c hc
      split at h
      · cases h
      · rename_i g hg
        refine ⟨v, c, g, hv, hc, hg, ?_⟩
        cases p
        · simp at h; exact Or.inl h.symm
        · simp at h
          rcases reattach_cases s n g with e | e
          · left; rw [← h, e]
          · right; rw [← h]; exact ⟨rfl, e.2, e.1⟩

/-! ## decomposition bases -/

theorem decompositionBaseFor_cases (db : UniDB) (s : UData) (hw : CmapWF s) (n : Name) (p : Bool) :
    ∃ r, decompositionBaseFor db s n p = .ok r ∧ (r = n ∨ r ∈ s.names) := by
  unfold decompositionBaseFor
  split
  · exact ⟨n, rfl, Or.inl rfl⟩
  · simp only
    split
    · exact ⟨n, rfl, Or.inl rfl⟩
    · split
      · exact ⟨n, rfl, Or.inl rfl⟩
      · rename_i hg
        exact absurd rfl (hw _ (mem_of_get? hg)).1
      · rename_i b rest hg
        refine ⟨_, rfl, Or.inr (reattach_mem s n b ?_)⟩
        exact (hw _ (mem_of_get? hg)).2 b (by simp)

theorem nameForUnicodeI_mem (s : UData) (hw : CmapWF s) (v : Int) (g : Name) (h : nameForUnicodeI s v = some g) :
    g ∈ s.names := by
  unfold nameForUnicodeI at h
  split at h
  · cases h
  · exact nameForUnicode_mem s hw _ _ h

/-- the base `_sortByDecompositionBase` files a name under is a glyph of the font -/
theorem decompKey_mem (db : UniDB) (s : UData) (hw : CmapWF s) (p : Bool) (n b : Name)
    (h : decompKey (envOf db s) p n = some b) : b ∈ s.names := by
  unfold decompKey at h
  split at h
  · cases h
  · split at h
    · cases h
    · rename_i base hb
      have hbm : base ∈ s.names := nameForUnicodeI_mem s hw _ _ hb
      split at h
      · simp only at h
        split at h
        · rename_i hi
          simp at h; subst h
          simpa [envOf, inFont] using hi
        · simp at h; subst h; exact hbm
      · simp at h; subst h; exact hbm

/-- no base for a value that is no code point (`chr` raises `ValueError`, which the code catches) -/
theorem decompositionBase_out_of_range (db : UniDB) (fuel v : Nat) (h : v > maxCodePoint) :
    decompositionBase db fuel v = -1 := by
  cases fuel with
  | zero => rfl
  | succ k => simp [decompositionBase, h]

/-- a base is `-1` or a code point (never another negative number) -/
theorem decompositionBase_nonneg (db : UniDB) (fuel v : Nat) :
    decompositionBase db fuel v = -1 ∨ 0 ≤ decompositionBase db fuel v := by
  induction fuel generalizing v with
  | zero => left; rfl
  | succ k ih =>
    unfold decompositionBase
    split
    · left; rfl
    · simp only
      split
      · left; rfl
      · split
        · left; rfl
        · split
          · rename_i l _
            split
            · split
              · exact ih _
              · exact ih _
            · right; exact Int.natCast_nonneg l
          · left; rfl

/-! ## purity -/

theorem ask_reads_state (db : UniDB) (s : UData) (a : Ask) (h : a.allocates = false) : (ask db s a).1 = s := by
  cases a <;> first | rfl | simp [Ask.allocates] at h

theorem forcedUnicodeFor_frame (s : UData) (n : Name) :
    (forcedUnicodeFor s n).1.names = s.names ∧ (forcedUnicodeFor s n).1.unicodes = s.unicodes ∧
    (forcedUnicodeFor s n).1.cmap = s.cmap := by
  unfold forcedUnicodeFor
  split
  · exact ⟨rfl, rfl, rfl⟩
  · split
    · exact ⟨rfl, rfl, rfl⟩
    · split <;> exact ⟨rfl, rfl, rfl⟩

theorem ask_frame (db : UniDB) (s : UData) (a : Ask) :
    (ask db s a).1.names = s.names ∧ (ask db s a).1.unicodes = s.unicodes ∧ (ask db s a).1.cmap = s.cmap := by
  cases a with
  | forcedUnicode n =>
    have h := forcedUnicodeFor_frame s n
    simp only [ask]
    split <;> rename_i he <;> rw [he] at h <;> exact h
  | _ => exact ⟨rfl, rfl, rfl⟩

theorem askAll_frame (db : UniDB) (s : UData) (as : List Ask) :
    (askAll db s as).1.names = s.names ∧ (askAll db s as).1.unicodes = s.unicodes ∧
    (askAll db s as).1.cmap = s.cmap := by
  induction as generalizing s with
  | nil => exact ⟨rfl, rfl, rfl⟩
  | cons a r ih =>
    have h1 := ask_frame db s a
    have h2 := ih (ask db s a).1
    simp only [askAll]
    exact ⟨h2.1.trans h1.1, h2.2.1.trans h1.2.1, h2.2.2.trans h1.2.2⟩

/-- the `Env` reads the names, the glyphs' code points and the cmap — nothing else of the state -/
theorem envOf_congr (db : UniDB) (s t : UData) (hn : t.names = s.names) (hu : t.unicodes = s.unicodes)
    (hc : t.cmap = s.cmap) : envOf db t = envOf db s := by
  have e1 : inFont t = inFont s := by funext n; simp [inFont, hn]
  have e2 : unicodeFor t = unicodeFor s := by funext n; simp [unicodeFor, e1, hu]
  have e3 : pseudoUnicodeFor t = pseudoUnicodeFor s := by funext n; simp [pseudoUnicodeFor, e2]
  have e4 : valueOf t = valueOf s := by funext p n; simp [valueOf, e2, e3]
  have e5 : nameForUnicode t = nameForUnicode s := by funext v; simp [nameForUnicode, hc]
  have e6 : reattach t = reattach s := by funext n b; simp [reattach, e1]
  have e7 : openCloseSearch t = openCloseSearch s := by funext tb n p; simp [openCloseSearch, e4, e5, e6]
  simp only [envOf, e1, e2, e3]
  congr 1
  · funext n p; simp [categoryFor, e4]
  · funext n p; simp [scriptFor, e4]
  · funext n p; simp [blockFor, e4]
  · funext n p; simp [closeRelativeFor, e7]
  · funext v; simp [nameForUnicodeI, e5]

/-! ## forced unicodes -/

theorem findPUA_fresh (existing : List Nat) (fuel code v : Nat) (h : findPUA existing fuel code = some v) :
    v ∉ existing := by
  induction fuel generalizing code with
  | zero => simp [findPUA] at h
  | succ k ih =>
    unfold findPUA at h
    simp only at h
    split at h
    · rename_i hc
      cases h
      simpa using hc
    · exact ih _ h

theorem viablePUA_private (code : Nat) :
    (pua1Min ≤ viablePUA code ∧ viablePUA code ≤ pua1Max) ∨ (pua2Min ≤ viablePUA code ∧ viablePUA code ≤ pua2Max) ∨
    (pua3Min ≤ viablePUA code ∧ viablePUA code ≤ pua3Max) := by
  unfold viablePUA pua1Min pua1Max pua2Min pua2Max pua3Min pua3Max
  simp only [Bool.and_eq_true, Bool.or_eq_true, decide_eq_true_eq, ge_iff_le, gt_iff_lt]
  repeat' split
  all_goals omega

theorem findPUA_private (existing : List Nat) (fuel code v : Nat) (h : findPUA existing fuel code = some v) :
    (pua1Min ≤ v ∧ v ≤ pua1Max) ∨ (pua2Min ≤ v ∧ v ≤ pua2Max) ∨ (pua3Min ≤ v ∧ v ≤ pua3Max) := by
  induction fuel generalizing code with
  | zero => simp [findPUA] at h
  | succ k ih =>
    unfold findPUA at h
    simp only at h
    split at h
    · cases h; exact viablePUA_private code
    · exact ih _ h

/-! ## the composed model -/

theorem tableDB_ordered (rows : List DBRow) (o c : List (Nat × Nat)) (T : Tables)
    (hr : ∀ r ∈ rows, r.cat ∈ T.orderedCategories ∧ r.script ∈ T.orderedScripts)
    (hd : "Cn" ∈ T.orderedCategories ∧ "Unknown" ∈ T.orderedScripts) : DBOrdered (tableDB rows o c) T := by
  constructor
  · intro v
    simp only [tableDB, rowOf]
    cases h : rows.find? (fun r => r.cp == v) with
    | none => exact hd.1
    | some r => exact (hr r (mem_of_find?_eq_some h)).1
  · intro v
    simp only [tableDB, rowOf]
    cases h : rows.find? (fun r => r.cp == v) with
    | none => exact hd.2
    | some r => exact (hr r (mem_of_find?_eq_some h)).2

theorem categoryFor_ordered (db : UniDB) (s : UData) (T : Tables) (hdb : DBOrdered db T)
    (hd : "Cn" ∈ T.orderedCategories) (n : Name) (p : Bool) : categoryFor db s n p ∈ T.orderedCategories := by
  unfold categoryFor
  split
  · exact hd
  · exact hdb.1 _

theorem scriptFor_ordered (db : UniDB) (s : UData) (T : Tables) (hdb : DBOrdered db T)
    (hd : "Unknown" ∈ T.orderedScripts) (n : Name) (p : Bool) : scriptFor db s n p ∈ T.orderedScripts := by
  unfold scriptFor
  split
  · exact hd
  · exact hdb.2 _

end NameLookups
end DefconModel
